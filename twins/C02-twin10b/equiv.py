import sys, os; sys.path.insert(0, os.getcwd())
import hashlib
import random

import numpy as np

from gcmpy.gcm_algorithm.gcm_algorithm_custom_motifs import GCMAlgorithmCustomMotifs
from gcmpy.gcm_algorithm.gcm_algorithm_factory import GCMAlgorithmFactory
from gcmpy.gcm_algorithm.gcm_algorithm_types import GCMAlgorithmTypes
from gcmpy.names.gcm_algorithm_names import GCMAlgorithmNames
from gcmpy.motif_generators.clique_motif import clique_motif
from gcmpy.network.edge_list_to_network import EdgeListToNetwork


def h(obj):
    return hashlib.sha256(repr(obj).encode()).hexdigest()[:20]


def rng():
    return h(random.getstate()) + "/" + h(
        [x.tolist() if hasattr(x, "tolist") else x for x in np.random.get_state()]
    )


seen_vertices = []


def describe(el, jds):
    cols = (el.edge_list, el.topologies, el.motif_id)
    return " ".join(
        [
            "len=%d,%d,%d" % tuple(len(c) for c in cols),
            "types=%s" % ",".join(type(c).__name__ for c in cols),
            "etypes=%s" % sorted({type(e).__name__ for e in el.edge_list}),
            "idtypes=%s" % sorted({type(i).__name__ for i in el.motif_id}),
            "same_jds=%s" % (el.joint_degrees is jds),
            "distinct=%s" % (len({id(c) for c in cols}) == 3),
            "edges=" + h(el.edge_list),
            "names=" + h(el.topologies),
            "ids=" + h(el.motif_id),
            "head=%r" % (list(zip(*cols))[:3],),
            "tail=%r" % (list(zip(*cols))[-3:],),
        ]
    )


def run(label, make, jds, network=False):
    del seen_vertices[:]
    try:
        alg = make() if callable(make) else make
        el = alg.random_clustered_graph(jds)
        out = describe(el, jds)
        if network:
            net = EdgeListToNetwork.convert(el)
            out += " G=" + h(sorted((min(u, v), max(u, v), sorted(map(str, d.items())))
                                    for u, v, d in net.G.edges(data=True)))
    except BaseException as e:
        out = "EXC %s: %s" % (type(e).__name__, e)
    print(label, "|", out, "| seen", h(seen_vertices), len(seen_vertices), "| rng", rng())


def params(sizes, names, builds, indices):
    p = {
        GCMAlgorithmNames.MOTIF_SIZES: sizes,
        GCMAlgorithmNames.EDGE_NAMES: names,
        GCMAlgorithmNames.BUILD_FUNCTIONS: builds,
    }
    if indices is not None:
        p[GCMAlgorithmNames.MOTIF_INDICES] = indices
    return p


def spy(f):
    def g(vs):
        seen_vertices.append((type(vs).__name__, list(vs)))
        return f(vs)
    return g


@spy
def twoclique(vs):
    return (vs[0], vs[1])


@spy
def twoclique_list(vs):
    return [vs[0], vs[1]]


@spy
def twoclique_wrapped(vs):
    return [(vs[0], vs[1])]


@spy
def twoclique_strings(vs):
    return (str(vs[0]), str(vs[1]))


@spy
def path(vs):
    return (vs[0], vs[1]), (vs[1], vs[2])


@spy
def path_lists(vs):
    return [[vs[0], vs[1]], [vs[1], vs[2]]]


@spy
def threeclique(vs):
    return (vs[0], vs[1]), (vs[0], vs[2]), (vs[1], vs[2])


@spy
def diamond(vs):
    return ((vs[0], vs[1]), (vs[1], vs[2]), (vs[2], vs[3]), (vs[3], vs[1]), (vs[0], vs[2]))


@spy
def pentagon(vs):
    return ((vs[0], vs[1]), (vs[1], vs[2]), (vs[2], vs[3]), (vs[3], vs[4]), (vs[0], vs[4]), (vs[1], vs[3]))


@spy
def nothing(vs):
    return ()


@spy
def as_generator(vs):
    return (e for e in clique_motif(vs))


@spy
def as_set2(vs):
    return {(vs[0], vs[1]), (vs[1], vs[0])}


@spy
def as_dict2(vs):
    return {"a": (vs[0], vs[1]), "b": (vs[1], vs[0])}


@spy
def as_str2(vs):
    return "ab"


@spy
def as_none(vs):
    return None


@spy
def boom(vs):
    raise KeyError("boom")


def n2():
    return "2-clique"


def n2_tuple():
    return ("2-clique",)


def npath():
    return "p01", "p12"


def n3():
    return "3-clique", "3-clique", "3-clique"


def nd():
    return ("d-outer", "d-outer", "d-outer", "d-outer", "d-inner")


def np5():
    return "p01", "p12", "p23", "p34", "p40", "p13"


def nnone():
    return ()


def nboom():
    raise LookupError("names")


def ngen():
    return (x for x in ("g0", "g1", "g2"))


PAPER_JDS = [
    (2, 1, 0, 1, 1, 0, 0), (1, 1, 0, 1, 1, 0, 0), (3, 1, 1, 0, 0, 1, 0), (2, 0, 1, 0, 0, 1, 0),
    (0, 0, 0, 1, 0, 0, 1), (1, 0, 0, 1, 0, 0, 0), (1, 0, 1, 0, 0, 0, 0), (1, 0, 1, 0, 0, 0, 0),
    (1, 0, 0, 1, 0, 0, 0), (1, 0, 0, 1, 0, 0, 0), (1, 0, 1, 0, 0, 0, 0), (0, 0, 1, 0, 0, 0, 0),
]


def paper(two=twoclique, two_names=n2):
    return params([2, 3, 2, 2, 2, 2, 1], [two_names, n3, nd, np5], [two, threeclique, diamond, pentagon],
                  [[0], [1], [2, 3], [4, 5, 6]])


def consistent_jds(n_units):
    """joint degrees that fill every motif of the paper set-up exactly"""
    n = 12 * n_units
    jds = [list(t) for t in PAPER_JDS * n_units]
    order = list(range(n))
    random.shuffle(order)
    return [tuple(jds[i]) for i in order]


def rand_jds(n, maxes):
    return [tuple(random.randint(0, m) for m in maxes) for _ in range(n)]


random.seed(4102026)
np.random.seed(4102026)

# the set-up of the library's own test, several bare-edge spellings
for i, (two, names) in enumerate([(twoclique, n2), (twoclique_list, n2), (twoclique_wrapped, n2_tuple),
                                  (twoclique_strings, n2), (twoclique, n2_tuple), (twoclique_wrapped, n2)]):
    run("paper%d" % i, lambda: GCMAlgorithmCustomMotifs(paper(two, names)), PAPER_JDS, network=(i in (0, 2)))
for units in (1, 2, 5, 20):
    for rep in range(3):
        run("units%d.%d" % (units, rep), lambda: GCMAlgorithmCustomMotifs(paper()), consistent_jds(units), network=True)

# random (frequently inconsistent) joint degrees: leftovers and exhausted partitions
for trial in range(30):
    n = random.choice([0, 1, 2, 3, 4, 6, 9, 15, 40])
    kind = trial % 3
    if kind == 0:
        p = params([2], [n2], [twoclique], [[0]]); mx = (3,)
    elif kind == 1:
        p = params([2, 3, 3], [n2, npath, n3], [twoclique_list, path, threeclique], [[0], [1], [2]]); mx = (2, 1, 1)
    else:
        p = params([2, 1, 2], [npath, n2], [path_lists, twoclique], [[0, 1], [2]]); mx = (1, 1, 2)
    run("rand%02d n=%d kind=%d" % (trial, n, kind), lambda: GCMAlgorithmCustomMotifs(p), rand_jds(n, mx), network=(kind == 0))

# repeated calls on one object, via the factory
alg = GCMAlgorithmFactory.resolve_algorithm(GCMAlgorithmTypes.MOTIFS, paper())
jds = consistent_jds(3)
for i in range(4):
    run("repeat%d" % i, alg, jds, network=True)
run("repeat-other", alg, PAPER_JDS, network=True)

# two-edge motifs, empty motifs, mismatching names
run("two-edges", lambda: GCMAlgorithmCustomMotifs(params([3], [npath], [path], [[0]])), [(1,)] * 9)
run("two-edges-lists", lambda: GCMAlgorithmCustomMotifs(params([3], [npath], [path_lists], [[0]])), [(1,)] * 9)
run("no-edges", lambda: GCMAlgorithmCustomMotifs(params([2], [nnone], [nothing], [[0]])), [(1,)] * 6)
run("names-too-few", lambda: GCMAlgorithmCustomMotifs(params([3], [npath], [threeclique], [[0]])), [(1,)] * 6)
run("names-too-many", lambda: GCMAlgorithmCustomMotifs(params([2], [n3], [twoclique_wrapped], [[0]])), [(1,)] * 6)
run("bare-edge-name-tuple", lambda: GCMAlgorithmCustomMotifs(params([2], [n3], [twoclique], [[0]])), [(1,)] * 6)
run("names-generator", lambda: GCMAlgorithmCustomMotifs(params([3], [ngen], [threeclique], [[0]])), [(1,)] * 6)
run("str-result", lambda: GCMAlgorithmCustomMotifs(params([2], [n2], [as_str2], [[0]])), [(1,)] * 6)
run("shared-orbit", lambda: GCMAlgorithmCustomMotifs(params([1], [npath], [path], [[0, 0, 0]])), [(1,)] * 9)
run("negative-index", lambda: GCMAlgorithmCustomMotifs(params([2, 1], [n3], [threeclique], [[0, -1]])), [(1, 1)] * 6)
run("empty", lambda: GCMAlgorithmCustomMotifs(paper()), [])
run("no-motifs", lambda: GCMAlgorithmCustomMotifs(params([2], [], [], [])), [(1,)] * 4)
run("float-size", lambda: GCMAlgorithmCustomMotifs(params([2.0], [n2], [twoclique], [[0]])), [(1,)] * 4)

# error paths
run("err-generator", lambda: GCMAlgorithmCustomMotifs(params([3], [n3], [as_generator], [[0]])), [(1,)] * 6)
run("err-set", lambda: GCMAlgorithmCustomMotifs(params([2], [npath], [as_set2], [[0]])), [(1,)] * 6)
run("err-dict", lambda: GCMAlgorithmCustomMotifs(params([2], [npath], [as_dict2], [[0]])), [(1,)] * 6)
run("err-none", lambda: GCMAlgorithmCustomMotifs(params([2], [n2], [as_none], [[0]])), [(1,)] * 6)
run("err-build-raises", lambda: GCMAlgorithmCustomMotifs(params([2], [n2], [boom], [[0]])), [(1,)] * 6)
run("err-names-raise-bare", lambda: GCMAlgorithmCustomMotifs(params([2], [nboom], [twoclique], [[0]])), [(1,)] * 6)
run("err-names-raise", lambda: GCMAlgorithmCustomMotifs(params([3], [nboom], [threeclique], [[0]])), [(1,)] * 6)
run("err-names-not-callable", lambda: GCMAlgorithmCustomMotifs(params([2], ["2-clique"], [twoclique], [[0]])), [(1,)] * 6)
run("err-exhausted", lambda: GCMAlgorithmCustomMotifs(params([2, 2], [nd], [diamond], [[0, 1]])), [(1, 0)] * 6)
run("err-short-names", lambda: GCMAlgorithmCustomMotifs(params([2, 3], [n2], [twoclique, threeclique], [[0], [1]])), [(1, 1)] * 6)
run("err-short-builds", lambda: GCMAlgorithmCustomMotifs(params([2, 3], [n2, n3], [twoclique], [[0], [1]])), [(1, 1)] * 6)
run("err-index-range", lambda: GCMAlgorithmCustomMotifs(params([2], [n2], [twoclique], [[4]])), [(1,)] * 6)
run("err-empty-indices", lambda: GCMAlgorithmCustomMotifs(params([2], [n2], [twoclique], [[]])), [(1,)] * 6)
run("err-size-zero", lambda: GCMAlgorithmCustomMotifs(params([0], [n2], [twoclique], [[0]])), [(1,)] * 6)
run("err-size-short", lambda: GCMAlgorithmCustomMotifs(params([], [n2], [twoclique], [[0]])), [(1,)] * 6)
run("err-float-degree", lambda: GCMAlgorithmCustomMotifs(params([2], [n2], [twoclique], [[0]])), [(1.0,), (1,)])
run("err-jds-none", lambda: GCMAlgorithmCustomMotifs(params([2], [n2], [twoclique], [[0]])), None)
run("err-no-indices", lambda: GCMAlgorithmCustomMotifs(params([2], [n2], [twoclique], None)), [(1,)] * 6)
run("err-no-params", lambda: GCMAlgorithmCustomMotifs({}), [(1,)] * 6)
print("final rng", rng())
