"""
Equivalence harness for the C11 optimisation (MCMC rewiring / DrawSet).

Run with cwd = a checkout of gcmpy:
    cd <checkout> && /venv/bin/python /tmp/wt6/C11.out/equiv.py

Prints a deterministic digest of: every result (floats via repr), exceptions
(type + message), logged debug records, the mutated inputs / object state and
the RNG state after each scenario.
"""
import os
import sys

sys.path.insert(0, os.getcwd())

import hashlib
import logging
import random

import networkx as nx
import numpy as np

from gcmpy.names.network_names import NetworkNames as NN
from gcmpy.names.tools_names import ToolsNames as TN
from gcmpy.names.gcm_algorithm_names import GCMAlgorithmNames
from gcmpy.names.joint_degree_names import JointDegreeNames
from gcmpy.network.network import Network
from gcmpy.tools.draw_set import DrawSet
from gcmpy.tools.proposal_edge import ProposalEdge
from gcmpy.tools.markov_chain_monte_carlo import MarkovChainMonteCarlo
from gcmpy.tools.markov_chain_monte_carlo_rewiring import (
    MarkovChainMonteCarloRewiring,
    ErrorMarkovChainMonteCarloRewiring,
)
from gcmpy.tools.joint_excess_joint_degree_matrices import (
    JointExcessJointDegreeMatrices,
)
from gcmpy.tools.joint_excess_from_ejk import JointExcessFromEjk
from gcmpy.tools.joint_degree_from_excess import JointDegreeFromExcess
from gcmpy.joint_degree.joint_degree_loaders.joint_degree_manual import (
    JointDegreeManual,
)
from gcmpy.motif_generators.clique_motif import clique_motif
from gcmpy.gcm_algorithm.gcm_algorithm_network import GCMAlgorithmNetwork


# --------------------------------------------------------------------------
# digest helpers
# --------------------------------------------------------------------------
def h(text: str) -> str:
    return hashlib.sha256(text.encode()).hexdigest()[:20]


def rng_digest() -> str:
    return h(repr(random.getstate())) + "/" + h(repr(np.random.get_state()))


def seed(n: int) -> None:
    random.seed(n)
    np.random.seed(n)


def graph_repr(G: nx.Graph) -> str:
    """Order-sensitive dump: node order, node data, adjacency order, edge data."""
    parts = [type(G).__name__, repr(dict(G.graph))]
    for n, d in G.nodes(data=True):
        parts.append(f"N {n!r} {list(d.items())!r}")
    for u, nbrs in G.adjacency():
        parts.append(f"A {u!r} " + repr([(v, list(d.items())) for v, d in nbrs.items()]))
    for u, v, d in G.edges(data=True):
        parts.append(f"E {u!r} {v!r} {list(d.items())!r}")
    return "\n".join(parts)


def drawset_repr(ds: DrawSet) -> str:
    return (
        f"edges={ds._edges!r} map={list(ds._edge_hashmap.items())!r} "
        f"len={len(ds)} iter={list(ds)!r}"
    )


def pe_repr(p: ProposalEdge) -> str:
    return f"PE({p._topology!r},{p._motif_id!r},{p._new_edge!r},{sorted(vars(p))!r})"


class ListHandler(logging.Handler):
    def __init__(self):
        super().__init__(level=0)
        self.records = []

    def emit(self, record):
        self.records.append((record.levelname, record.getMessage()))


def mcmc_state(m: MarkovChainMonteCarloRewiring) -> str:
    return (
        f"conv={m._convergence_limit!r} search={m._search_limit!r} "
        f"pc={m._proposal_count!r} pa={m._proposals_accepted!r} "
        f"cls_pc={MarkovChainMonteCarlo._proposal_count!r} "
        f"cls_pa={MarkovChainMonteCarlo._proposals_accepted!r} "
        f"ratio={m._acceptance_ratio!r} "
        f"proposals={[pe_repr(p) for p in m._proposal_edges]!r}"
    )


def call(label, fn, *args, **kwargs):
    """Call fn, print result or exception deterministically."""
    try:
        out = fn(*args, **kwargs)
        print(f"[{label}] -> {type(out).__name__} {out!r}")
        return out
    except BaseException as e:  # noqa
        print(f"[{label}] !! {type(e).__name__}: {e!s}")
        return None


# --------------------------------------------------------------------------
# A. DrawSet
# --------------------------------------------------------------------------
def part_drawset():
    print("=== A. DrawSet")
    seed(101)
    ds = DrawSet()
    print(drawset_repr(ds))
    call("draw-empty", ds.draw)
    call("remove-missing-empty", ds.remove, (0, 1))
    print(drawset_repr(ds), rng_digest())

    for e in [(0, 1), (1, 2), (0, 1), (2, 3), (3, 4), (1, 2), (4, 5)]:
        call(f"add{e}", ds.add, e)
        print(drawset_repr(ds))
    call("add-unhashable", ds.add, [1, 2])
    print(drawset_repr(ds))
    print("contains", (0, 1) in ds, (1, 0) in ds, (9, 9) in ds)
    print("draws", [ds.draw() for _ in range(15)], rng_digest())

    # remove the last, the first, a middle one, a missing one, and repeat
    for e in [(4, 5), (0, 1), (2, 3), (7, 7), (0, 1)]:
        call(f"remove{e}", ds.remove, e)
        print(drawset_repr(ds))
    call("remove-unhashable", ds.remove, [1, 2])
    print(drawset_repr(ds))
    print("draws", [ds.draw() for _ in range(10)], rng_digest())
    # re-add after removal, then drain completely
    for e in [(0, 1), (9, 8), (0, 1)]:
        ds.add(e)
        print(drawset_repr(ds))
    for e in list(ds):
        ds.remove(e)
        print(drawset_repr(ds))
    call("draw-empty-again", ds.draw)
    print(rng_digest())

    # random churn, dump everything
    seed(102)
    ds = DrawSet()
    trace = []
    for step in range(3000):
        r = random.random()
        if r < 0.5 or len(ds) == 0:
            e = tuple(sorted((random.randrange(40), random.randrange(40))))
            ds.add(e)
            trace.append(("a", e, len(ds)))
        elif r < 0.8:
            e = ds.draw()
            ds.remove(e)
            trace.append(("r", e, len(ds)))
        else:
            trace.append(("d", ds.draw()))
    print("churn", h(repr(trace)), h(drawset_repr(ds)), rng_digest())
    # consistency of the index map
    print("consistent", all(ds._edges[i] == e for e, i in ds._edge_hashmap.items()))


# --------------------------------------------------------------------------
# B. helper methods on small hand-built graphs
# --------------------------------------------------------------------------
def small_graph() -> nx.Graph:
    """
    Two triangles (0,1,2) id 0 and (3,4,5) id 1, a third triangle (6,7,8) id 2,
    2-clique edges, plus vertices sharing motifs.
    joint degree = (n 2-clique edges, n triangles)
    """
    G = nx.Graph()
    tri, two = "3-clique", "2-clique"

    def add(u, v, top, mid):
        G.add_edge(u, v)
        G.edges[u, v][NN.TOPOLOGY] = top
        G.edges[u, v][NN.MOTIF_IDS] = mid

    for (a, b, c), mid in [((0, 1, 2), 0), ((3, 4, 5), 1), ((6, 7, 8), 2), ((2, 9, 10), 7)]:
        add(a, b, tri, mid)
        add(b, c, tri, mid)
        add(c, a, tri, mid)
    add(0, 3, two, 3)       # links the first two triangles
    add(1, 6, two, 4)
    add(4, 7, two, 5)
    add(11, 12, two, 6)
    add(5, 11, two, 8)
    add(8, 12, two, 9)
    # a mixed "motif": same id but different topologies (residue case)
    add(13, 14, two, 10)
    add(13, 15, tri, 10)
    add(16, 17, tri, 11)
    add(16, 18, tri, 11)
    add(19, 20, two, 12)
    add(19, 21, two, 12)
    for n in G.nodes:
        n2 = sum(1 for e in G.edges(n) if G.edges[e][NN.TOPOLOGY] == two)
        n3 = sum(1 for e in G.edges(n) if G.edges[e][NN.TOPOLOGY] == tri) // 2
        G.nodes[n][NN.JOINT_DEGREE] = (n2, n3)
    G.add_node(99)  # no joint degree at all
    return G


def make_ejks(G: nx.Graph, mode: str) -> JointExcessJointDegreeMatrices:
    names = ["2-clique", "3-clique"]
    jds = sorted({tuple(d[NN.JOINT_DEGREE]) for _, d in G.nodes(data=True) if NN.JOINT_DEGREE in d})
    rnd = random.Random(7)
    ejks = {}
    for i, name in enumerate(names):
        table = {}
        for a in jds:
            for b in jds:
                ea = list(a)
                eb = list(b)
                ea[i] -= 1
                eb[i] -= 1
                if min(ea) < 0 or min(eb) < 0:
                    continue
                key = tuple(ea) + tuple(eb)
                if mode == "full":
                    table[key] = rnd.random()
                elif mode == "sparse":
                    if rnd.random() < 0.5:
                        table[key] = rnd.random()
                elif mode == "zeros":
                    table[key] = 0.0 if rnd.random() < 0.5 else rnd.random()
                elif mode == "allzero":
                    table[key] = 0.0
                elif mode == "big":
                    table[key] = 1.0 + rnd.random() * 3
        ejks[name] = table
    if mode == "notopo":
        ejks = {}
    return JointExcessJointDegreeMatrices({TN.EJKS: ejks, TN.EDGE_NAMES: names})


def new_mcmc(G, ejks, extra=None):
    net = Network()
    net.G = G
    params = {TN.NETWORK: net, TN.EJKS: ejks}
    params.update(extra or {})
    m = MarkovChainMonteCarloRewiring(params)
    hd = ListHandler()
    m._logger.addHandler(hd)
    return m, hd


def part_helpers():
    print("=== B. helpers")
    seed(201)
    G = small_graph()
    g0 = graph_repr(G)
    m, hd = new_mcmc(G, make_ejks(G, "full"))
    print(mcmc_state(m))

    # constructor variants and errors
    call("ctor-missing", MarkovChainMonteCarloRewiring, {})
    call("ctor-badnet", MarkovChainMonteCarloRewiring, {TN.NETWORK: 3, TN.EJKS: None})
    net = Network()
    net.G = G
    for extra in [{}, {TN.SEARCH_LIMIT: 3}, {TN.CONVERGENCE_LIMIT: 0}, {TN.SEARCH_LIMIT: 0, TN.CONVERGENCE_LIMIT: 7}]:
        p = {TN.NETWORK: net, TN.EJKS: m._ejks}
        p.update(extra)
        mm = MarkovChainMonteCarloRewiring(p)
        print("ctor", sorted(k.value for k in extra), mcmc_state(mm), list(k.value for k in p))

    # get_other_vertex
    for u, e in [(0, (0, 1)), (1, (0, 1)), (2, (0, 1)), (0, (0, 0)), (1, (0, 1, 1)), (0, ())]:
        call(f"other {u} {e}", m.get_other_vertex, u, e)

    # get_all_edges: every (vertex, incident edge) both orientations, repeated
    for rep in range(2):
        for u in list(G.nodes):
            for e in list(G.edges(u)):
                call(f"all_edges {u} {e}", m.get_all_edges, G, u, e)
                call(f"all_edges {u} {e[::-1]}", m.get_all_edges, G, u, e[::-1])
    call("all_edges foreign edge", m.get_all_edges, G, 0, (3, 4))
    call("all_edges missing edge", m.get_all_edges, G, 0, (0, 5))
    call("all_edges missing node", m.get_all_edges, G, 1234, (0, 1))
    call("all_edges isolated", m.get_all_edges, G, 99, (0, 1))

    # get_hashmap
    all_es = list(G.edges)
    for es in [[], all_es, all_es[::-1], all_es + all_es[:3], [(1, 0), (0, 1)], [(0, 1), (0, 5)], [(0, 1, 2)]]:
        out = call(f"hashmap n={len(es)}", m.get_hashmap, G, es)
        if out is not None:
            print("  keys", [k for k in out], "ids", len({id(v) for v in out.values()}))
    es_in = [(0, 1), (0, 3)]
    hm = m.get_hashmap(G, es_in)
    hm2 = m.get_hashmap(G, es_in)
    print("hashmap fresh lists", all(hm[k] is not hm2[k] for k in hm), es_in)

    # is_edge_choice_suitable: all pairs of corners, both orientations of vertex
    res = []
    corners = []
    for u in list(G.nodes):
        seen = set()
        for e in list(G.edges(u)):
            mid = G.edges[e][NN.MOTIF_IDS]
            if mid in seen:
                continue
            seen.add(mid)
            corners.append((u, m.get_all_edges(G, u, e)))
    print("corners", corners)
    for (u0, e0s) in corners:
        for (v0, e1s) in corners:
            try:
                r = m.is_edge_choice_suitable(G, u0, v0, e0s, e1s)
            except BaseException as e:  # noqa
                r = f"{type(e).__name__}: {e}"
            res.append((u0, v0, r))
    print("suitable", res)
    print("suitable-log", h(repr(hd.records)), len(hd.records))
    for rec in hd.records[:40]:
        print("  log", rec)
    hd.records.clear()
    # specific odd inputs
    call("suitable empty", m.is_edge_choice_suitable, G, 0, 3, [], [])
    call("suitable lenmismatch", m.is_edge_choice_suitable, G, 0, 3, [(0, 1)], [])
    call("suitable bad vertex", m.is_edge_choice_suitable, G, 5, 3, [(0, 1)], [(3, 4)])
    call("suitable bad v0", m.is_edge_choice_suitable, G, 0, 9, [(0, 1)], [(3, 4)])
    call("suitable missing edge", m.is_edge_choice_suitable, G, 0, 3, [(0, 5)], [(3, 4)])
    call("suitable tri-vs-tri ok", m.is_edge_choice_suitable, G, 6, 3, [(6, 7), (6, 8)], [(3, 4), (3, 5)])
    call("suitable tri-vs-tri swapped order", m.is_edge_choice_suitable, G, 6, 3, [(6, 8), (6, 7)], [(3, 5), (3, 4)])
    call("suitable mixed", m.is_edge_choice_suitable, G, 13, 16, [(13, 14), (13, 15)], [(16, 17), (16, 18)])
    call("suitable mixed2", m.is_edge_choice_suitable, G, 13, 19, [(13, 14), (13, 15)], [(19, 20), (19, 21)])
    call("suitable two", m.is_edge_choice_suitable, G, 11, 4, [(11, 12)], [(4, 7)])
    print("log", hd.records)
    hd.records.clear()

    # get_joint_excess_degree_key
    for e in [(0, 1), (1, 0), (0, 3), (2, 2), (0, 99), (99, 0), (0, 555), (0,), (), (0, 1, 2), (0, 1, 99)]:
        for index in [0, 1, -1, 2, -3]:
            call(f"jek {e} {index}", m.get_joint_excess_degree_key, G, e, index)
    call("jek str index", m.get_joint_excess_degree_key, G, (0, 1), "a")

    # get_swapped_joint_excess_degree_key
    def swapped(e0, e1, u0, v0, index):
        kv = m.get_swapped_joint_excess_degree_key(G, e0, e1, u0, v0, index)
        return (
            type(kv).__name__, kv._keys, kv.get_u0u1(), kv.get_u1u0(), kv.get_v0v1(),
            kv.get_v1v0(), kv.get_u0v1(), kv.get_v0u1(),
        )

    for args in [
        ((0, 1), (3, 4), 0, 3, 1), ((1, 0), (4, 3), 0, 3, 1), ((0, 1), (3, 4), 1, 4, 0),
        ((0, 3), (11, 12), 0, 12, 0), ((0, 1), (3, 4), 2, 3, 1), ((0, 1), (3, 4), 0, 5, 1),
        ((0, 1), (3, 99), 0, 3, 1), ((0, 1), (3, 4), 0, 3, 2), ((0, 1), (3, 4), 0, 3, -2),
        ((0, 1), (3, 4), 0, 3, -3), ((0, 1), (0, 1), 0, 1, 0),
    ]:
        call(f"swapped {args}", swapped, *args)

    # append_proposal_edges (mutates m._proposal_edges)
    for args in [
        (0, (0, 1), (0, 4)), (0, (1, 0), (4, 0)), (3, (3, 4), (3, 1)), (0, (0, 1), (5, 4)),
        (0, (0, 5), (0, 4)), (0, (0, 1), (0, 0)), (0, (0, 1), (0,)),
    ]:
        call(f"append {args}", m.append_proposal_edges, G, *args)
        print("  ", mcmc_state(m))
    G2 = G.copy()
    del G2.edges[0, 1][NN.MOTIF_IDS]
    del G2.edges[3, 4][NN.TOPOLOGY]
    call("append no motif id", m.append_proposal_edges, G2, 0, (0, 1), (0, 4))
    call("append no topology", m.append_proposal_edges, G2, 3, (3, 4), (3, 1))
    print("  ", mcmc_state(m))
    print("G unchanged", graph_repr(G) == g0, rng_digest())

    # swap_condition with several ejk tables, all corner pairs that are suitable
    for mode in ["full", "sparse", "zeros", "allzero", "big", "notopo"]:
        seed(300)
        m, hd = new_mcmc(G, make_ejks(G, mode))
        out = []
        for (u0, e0s) in corners:
            for (v0, e1s) in corners:
                if len(e0s) != len(e1s):
                    continue
                a, b = list(e0s), list(e1s)
                try:
                    r = m.swap_condition(G, a, b, u0, v0)
                except BaseException as e:  # noqa
                    r = f"{type(e).__name__}: {e}"
                out.append((u0, v0, repr(r), a == e0s, b == e1s, [pe_repr(p) for p in m._proposal_edges]))
        print(f"swap[{mode}]", h(repr(out)), len(out), rng_digest(), mcmc_state(m)[:160])
        kinds = {}
        for row in out:
            kinds[row[2]] = kinds.get(row[2], 0) + 1
        print("    kinds", sorted(kinds.items()))
        for row in out[:12]:
            print("   ", row)
        print("   log", h(repr(hd.records)), len(hd.records), hd.records[:3])
    # degenerate swap_condition calls
    seed(301)
    m, hd = new_mcmc(G, make_ejks(G, "big"))
    call("swap empty", m.swap_condition, G, [], [], 0, 3)
    call("swap empty again", m.swap_condition, G, [], [], 0, 3)
    print(rng_digest(), mcmc_state(m))
    call("swap pop from empty", m.swap_condition, G, [(6, 7), (6, 8)], [(3, 4)], 6, 3)
    print(mcmc_state(m))
    call("swap topology missing in e1s", m.swap_condition, G, [(6, 7)], [(4, 7)], 6, 4)
    call("swap bad u0", m.swap_condition, G, [(6, 7)], [(3, 4)], 5, 3)
    print(mcmc_state(m))
    call("swap bad v0", m.swap_condition, G, [(6, 7)], [(3, 4)], 6, 5)
    print(mcmc_state(m))
    call("swap unknown topology", m.swap_condition, G2, [(6, 7)], [(3, 4)], 6, 3)
    m._ejks = None
    call("swap ejks None empty", m.swap_condition, G, [], [], 0, 3)
    call("swap ejks None", m.swap_condition, G, [(6, 7)], [(3, 4)], 6, 3)
    print(rng_digest(), mcmc_state(m), hd.records)
    print("G unchanged", graph_repr(G) == g0)


# --------------------------------------------------------------------------
# C. full rewire runs
# --------------------------------------------------------------------------
def target_ejks() -> JointExcessJointDegreeMatrices:
    e1 = e2 = e3 = 1e-8
    tree = {
        (0, 3, 0, 3): 9 / 81 - e1 - e2, (0, 3, 4, 1): e1, (0, 3, 2, 2): e2,
        (4, 1, 0, 3): e1, (4, 1, 4, 1): 45 / 81 - e1 - e3, (4, 1, 2, 2): e3,
        (2, 2, 0, 3): e2, (2, 2, 4, 1): e3, (2, 2, 2, 2): 27 / 81 - e2 - e3,
    }
    tri = {
        (3, 1, 3, 1): 48 / 144 - e1 - e2, (3, 1, 1, 2): e1, (3, 1, 5, 0): e2,
        (1, 2, 3, 1): e1, (1, 2, 1, 2): 72 / 144 - e1 - e3, (1, 2, 5, 0): e3,
        (5, 0, 3, 1): e2, (5, 0, 1, 2): e3, (5, 0, 5, 0): 24 / 144 - e2 - e3,
    }
    return JointExcessJointDegreeMatrices(
        {TN.EDGE_NAMES: ["2-clique", "3-clique"], TN.EJKS: {"2-clique": tree, "3-clique": tri}}
    )


def softer_ejks() -> JointExcessJointDegreeMatrices:
    """Same support, less extreme values -> many accepted swaps."""
    t = target_ejks()
    rnd = random.Random(5)
    ejks = {
        name: {k: 0.05 + rnd.random() for k in table} for name, table in t.ejks.items()
    }
    return JointExcessJointDegreeMatrices(
        {TN.EDGE_NAMES: ["2-clique", "3-clique"], TN.EJKS: ejks}
    )


def build_network(n: int, sd: int):
    seed(sd)
    ejk_target = target_ejks()
    names = ["2-clique", "3-clique"]
    qks = JointExcessFromEjk.get_excess_joint_distributions(ejk_target)
    jdd = JointDegreeFromExcess.get_joint_degree_distribution(qks, names)
    D = JointDegreeManual({JointDegreeNames.JDD: jdd, JointDegreeNames.MOTIF_SIZES: [2, 3]})
    jds = D.sample_jds_from_jdd(n)
    g = GCMAlgorithmNetwork(
        {
            GCMAlgorithmNames.MOTIF_SIZES: [2, 3],
            GCMAlgorithmNames.EDGE_NAMES: names,
            GCMAlgorithmNames.BUILD_FUNCTIONS: [clique_motif, clique_motif],
        }
    ).random_clustered_graph(jds)
    return g


def check_property(G0: nx.Graph, G1: nx.Graph) -> str:
    ok_nodes = list(G0.nodes(data=True)) == list(G1.nodes(data=True))
    ok_edges = G0.number_of_edges() == G1.number_of_edges()

    def per_vertex(G):
        out = {}
        for u in G.nodes:
            c = {}
            for e in G.edges(u):
                t = G.edges[e][NN.TOPOLOGY]
                c[t] = c.get(t, 0) + 1
            out[u] = sorted(c.items())
        return out

    ok_deg = per_vertex(G0) == per_vertex(G1)
    loops = nx.number_of_selfloops(G1)
    return f"nodes={ok_nodes} nedges={ok_edges} degs={ok_deg} loops={loops}"


def part_rewire():
    print("=== C. rewire")
    configs = [
        (400, 11, "target", {TN.SEARCH_LIMIT: 20, TN.CONVERGENCE_LIMIT: 300}, 2),
        (400, 12, "soft", {TN.SEARCH_LIMIT: 20, TN.CONVERGENCE_LIMIT: 600}, 2),
        (150, 13, "soft", {}, 1),                                  # default limits
        (150, 14, "soft", {TN.CONVERGENCE_LIMIT: 200}, 2),         # default search limit
        (60, 15, "soft", {TN.SEARCH_LIMIT: 3}, 1),                 # default convergence
        (150, 16, "soft", {TN.SEARCH_LIMIT: 1, TN.CONVERGENCE_LIMIT: 50}, 1),
        (150, 17, "soft", {TN.SEARCH_LIMIT: 20, TN.CONVERGENCE_LIMIT: 0}, 2),
        (150, 18, "soft", {TN.SEARCH_LIMIT: 20, TN.CONVERGENCE_LIMIT: -1}, 1),
    ]
    for n, sd, which, extra, repeats in configs:
        g = build_network(n, sd)
        g_before = graph_repr(g.G)
        print(f"net n={n} seed={sd} {h(g_before)} edges={g.G.number_of_edges()} rng={rng_digest()}")
        ejks = target_ejks() if which == "target" else softer_ejks()
        params = {TN.NETWORK: g, TN.EJKS: ejks}
        params.update(extra)
        m = MarkovChainMonteCarloRewiring(params)
        hd = ListHandler()
        m._logger.addHandler(hd)
        for rep in range(repeats):
            seed(1000 + sd + rep)
            try:
                G = m.rewire()
                print(
                    f"  rewire[{which},{sorted(k.value for k in extra)}] rep={rep} "
                    f"out={h(graph_repr(G))} same_obj={G is g.G} "
                    f"input_unchanged={graph_repr(g.G) == g_before} {check_property(g.G, G)}"
                )
            except BaseException as e:  # noqa
                print(f"  rewire rep={rep} !! {type(e).__name__}: {e}")
            print(f"    rng={rng_digest()} log={h(repr(hd.records))}/{len(hd.records)}")
            print(f"    state={h(mcmc_state(m))} {mcmc_state(m)[:150]}")
            print(f"    params={[k.value for k in params]}")

    # an inconsistent network: a proposal edge is already present -> exception path,
    # and a graph with a missing TOPOLOGY attribute -> KeyError path
    G = small_graph()
    G.remove_node(99)
    for mode in ["big", "full", "sparse"]:
        for sd in range(4):
            seed(500 + sd)
            m, hd = new_mcmc(G.copy(), make_ejks(G, mode), {TN.CONVERGENCE_LIMIT: 25, TN.SEARCH_LIMIT: 10})
            before = graph_repr(m._network.G)
            try:
                out = m.rewire()
                print(f"small[{mode},{sd}] {h(graph_repr(out))} {check_property(m._network.G, out)}")
            except BaseException as e:  # noqa
                print(f"small[{mode},{sd}] !! {type(e).__name__}: {e}")
            print(f"   unchanged={graph_repr(m._network.G) == before} rng={rng_digest()} "
                  f"log={h(repr(hd.records))}/{len(hd.records)} st={h(mcmc_state(m))}")
    Gbad = small_graph()
    del Gbad.edges[6, 7][NN.TOPOLOGY]
    for sd in range(3):
        seed(600 + sd)
        m, hd = new_mcmc(Gbad.copy(), make_ejks(small_graph(), "big"), {TN.CONVERGENCE_LIMIT: 50})
        try:
            out = m.rewire()
            print(f"bad[{sd}] {h(graph_repr(out))}")
        except BaseException as e:  # noqa
            print(f"bad[{sd}] !! {type(e).__name__}: {e}")
        print(f"   rng={rng_digest()} log={h(repr(hd.records))}/{len(hd.records)} st={h(mcmc_state(m))}")
    Gempty = nx.Graph()
    seed(700)
    m, hd = new_mcmc(Gempty, make_ejks(small_graph(), "big"))
    call("rewire empty graph", m.rewire)
    print(rng_digest(), mcmc_state(m))


if __name__ == "__main__":
    part_drawset()
    part_helpers()
    part_rewire()
    print("=== done", rng_digest())
