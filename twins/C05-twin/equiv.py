"""Deterministic digest of JointDegree.sample_jds_from_jdd / handshaking_lemma.

Run with cwd = a gcmpy checkout. Prints one line per case; the output must be
identical before and after the refactoring.
"""
import hashlib
import os
import random
import sys

sys.path.insert(0, os.getcwd())

import numpy as np  # noqa: E402

from gcmpy.joint_degree.joint_degree import JointDegree  # noqa: E402
from gcmpy.joint_degree.joint_degree_loaders.joint_degree_manual import (  # noqa: E402
    JointDegreeManual,
)
from gcmpy.names.joint_degree_names import JointDegreeNames  # noqa: E402


def digest(obj) -> str:
    return hashlib.sha256(repr(obj).encode()).hexdigest()[:16]


def rng_probe() -> str:
    """State of the RNG after the call: detects a change in the number/order of draws."""
    return digest((random.getstate(), random.random()))


class Plain(JointDegree):
    def __init__(self, jdd, sizes):
        self._jdd = jdd
        self._motif_sizes = sizes

    def create_jdd(self):
        return


def manual(jdd, sizes):
    return JointDegreeManual(
        {JointDegreeNames.JDD: jdd, JointDegreeNames.MOTIF_SIZES: sizes}
    )


def report(tag, result, extra=""):
    types = sorted({type(x).__name__ for x in result})
    print(tag, len(result), types, digest(result), rng_probe(), extra)


def outcome(fn):
    try:
        return fn()
    except Exception as e:  # noqa: BLE001
        return "EXC %s: %s" % (type(e).__name__, e)


CASES = [
    ("single", {(1,): 0.2, (2,): 0.5, (3,): 0.1, (5,): 0.2}, [2]),
    ("two", {(1, 0): 0.2, (2, 1): 0.5, (3, 0): 0.1, (5, 1): 0.2}, [2, 3]),
    ("three", {(1, 0, 2): 1.0, (0, 1, 1): 3.0, (4, 2, 0): 0.5, (7, 3, 5): 2.5}, [2, 3, 4]),
    ("big-size", {(1, 1): 1, (0, 1): 1, (1, 0): 2}, [7, 11]),
    ("unnormalised", {(3, 1): 10, (1, 1): 30, (0, 0): 60}, [2, 5]),
    ("one-key", {(1, 1, 1): 1.0}, [2, 3, 5]),
    ("zero-weight", {(1, 0): 0.0, (2, 2): 1.0, (0, 5): 0.0}, [2, 3]),
]


def main():
    np.random.seed(12345)

    # 1. sampling, several seeds, sizes and call histories
    for tag, jdd, sizes in CASES:
        for ctor in (Plain, manual):
            for seed in (0, 1, 7, 2024):
                random.seed(seed)
                obj = ctor(dict(jdd), list(sizes))
                for n in (1, 2, 3, 10, 101, 1000):
                    jds = obj.sample_jds_from_jdd(n)
                    sums = [sum(c) for c in zip(*jds)]
                    report("sample %s %s seed=%d N=%d" % (tag, ctor.__name__, seed, n), jds, sums)
                print("jdd-after", tag, digest(sorted(obj.jdd.items())), obj.motif_sizes)

    # 2. N = 0 (empty sequence)
    random.seed(5)
    obj = Plain({(1, 2): 1.0}, [2, 3])
    report("sample N=0", obj.sample_jds_from_jdd(0))

    # 3. the lemma step on given sequences: in-place, identity, already divisible, lists
    random.seed(99)
    obj = Plain({}, [2, 3])
    seqs = [
        [(1, 1), (1, 1), (1, 2)],
        [(2, 3), (2, 3)],
        [(1, 0)],
        [(0, 0), (0, 0)],
        [[1, 1], [0, 1], (1, 2)],
        [],
        [(1, 1, 9), (0, 0, 9)],
    ]
    for k, seq in enumerate(seqs):
        before = list(seq)
        try:
            out = obj.handshaking_lemma(seq)
        except Exception as e:  # noqa: BLE001
            print("lemma %d" % k, "EXC %s: %s" % (type(e).__name__, e), "after=%r" % (seq,), rng_probe())
            continue
        report(
            "lemma %d" % k,
            out,
            "same=%s inplace=%s before=%r after=%r" % (out is seq, seq == out, before, seq),
        )

    # 4. numpy integer entries / numpy motif sizes
    random.seed(3)
    obj = Plain({}, np.array([3, 4]))
    seq = [tuple(np.array([1, 2])), tuple(np.array([3, 3])), tuple(np.array([0, 0]))]
    out = obj.handshaking_lemma(seq)
    report("lemma numpy", out, repr([[type(v).__name__ for v in t] for t in out]))

    # 5. error behaviour
    random.seed(11)
    print("err short sizes", outcome(lambda: Plain({}, [2]).handshaking_lemma([(1, 1), (0, 0)])), rng_probe())
    print("err no sizes", outcome(lambda: Plain({}, None).handshaking_lemma([(1, 1)])), rng_probe())
    print("err no jdd", outcome(lambda: Plain(None, [2]).sample_jds_from_jdd(3)), rng_probe())
    print("err empty jdd", outcome(lambda: Plain({}, [2]).sample_jds_from_jdd(3)), rng_probe())
    print("err zero size", outcome(lambda: Plain({}, [0]).handshaking_lemma([(1,)])), rng_probe())
    print("err neg N", outcome(lambda: Plain({(1,): 1.0}, [2]).sample_jds_from_jdd(-1)), rng_probe())

    # 6. weights proportionality, coarse empirical check (deterministic under the seed)
    random.seed(42)
    obj = Plain({(1, 0): 1.0, (2, 1): 3.0, (4, 3): 6.0}, [2, 3])
    jds = obj.sample_jds_from_jdd(20000)
    counts = {}
    for jd in jds:
        counts[jd] = counts.get(jd, 0) + 1
    print("counts", sorted(counts.items()), rng_probe())


if __name__ == "__main__":
    main()
