import sys, os; sys.path.insert(0, os.getcwd())
# Variant c: gcmpy/network/edge_list_to_network.py : EdgeListToNetwork.convert
# Exercises the edge-list -> Network hand-over directly (hand-made, malformed
# and duck-typed edge lists, repeated conversion of one object) and through
# GCMAlgorithmNetwork / NetworkToEdgeList, ending in MPCC on the produced graph.
import hashlib
import random

import numpy as np
import networkx as nx

random.seed(31337)
np.random.seed(31337)

import gcmpy
from gcmpy.covers.mpcc import MPCC
from gcmpy.network.edge_list import LightWeightEdgeList
from gcmpy.network.network import Network
from gcmpy.network.edge_list_to_network import EdgeListToNetwork
from gcmpy.network.network_to_edge_list import NetworkToEdgeList
from gcmpy.names.network_names import NetworkNames
from gcmpy.names.gcm_algorithm_names import GCMAlgorithmNames
from gcmpy.names.joint_degree_names import JointDegreeNames
from gcmpy.motif_generators.clique_motif import clique_motif
from gcmpy.motif_generators.cycle_motif import cycle_motif
from gcmpy.gcm_algorithm.gcm_algorithm_fast import GCMAlgorithmFast
from gcmpy.gcm_algorithm.gcm_algorithm_network import GCMAlgorithmNetwork
from gcmpy.joint_degree.joint_degree_loaders.joint_degree_manual import (
    JointDegreeManual,
)

OUT = []


def emit(*parts):
    OUT.append(" | ".join(str(p) for p in parts))


def rng_digest():
    h = hashlib.sha256()
    h.update(repr(random.getstate()).encode())
    st = np.random.get_state()
    h.update(repr((st[0], st[1].tolist(), st[2], st[3], st[4])).encode())
    return h.hexdigest()


def key_name(k):
    return k.name if isinstance(k, NetworkNames) else repr(k)


def graph_dump(G):
    """Order-preserving dump of nodes, edges and attribute dicts."""
    nodes = [
        (repr(n), [(key_name(k), type(v).__name__, repr(v)) for k, v in d.items()])
        for n, d in G.nodes(data=True)
    ]
    edges = [
        (repr(u), repr(v), [(key_name(k), type(x).__name__, repr(x)) for k, x in d.items()])
        for u, v, d in G.edges(data=True)
    ]
    return type(G).__name__, nodes, edges


def short(obj):
    s = repr(obj)
    return s if len(s) < 400 else hashlib.sha256(s.encode()).hexdigest()[:24] + f"(len {len(s)})"


def attempt(tag, thunk):
    try:
        res = thunk()
    except BaseException as exc:  # noqa: B902
        emit(tag, "EXC", type(exc).__name__, type(exc).__mro__[1].__name__)
        return None
    emit(tag, "OK", type(res).__name__, short(graph_dump(res.G)))
    return res


def make(edges, tops, jds, ids):
    el = LightWeightEdgeList()
    el.edge_list = edges
    el.topologies = tops
    el.joint_degrees = jds
    el.motif_id = ids
    return el


class CountingEdgeList(LightWeightEdgeList):
    """Counts property reads, so access patterns are part of the digest."""

    def __init__(self):
        super().__init__()
        self.reads = []

    def __getattribute__(self, name):
        if name in ("edge_list", "topologies", "joint_degrees", "motif_id"):
            object.__getattribute__(self, "reads").append(name)
        return object.__getattribute__(self, name)


class Seq:
    """Sized iterable that logs len / iter / item pulls; may explode."""

    def __init__(self, items, explode_at=None):
        self.items = items
        self.explode_at = explode_at
        self.log = []

    def __len__(self):
        self.log.append("len")
        return len(self.items)

    def __iter__(self):
        self.log.append("iter")
        for i, x in enumerate(self.items):
            if self.explode_at is not None and i == self.explode_at:
                self.log.append("boom")
                raise RuntimeError("boom")
            self.log.append(f"pull{i}")
            yield x


class Duck:
    def __init__(self, edge_list, topologies, joint_degrees, motif_id):
        self.edge_list = edge_list
        self.topologies = topologies
        self.joint_degrees = joint_degrees
        self.motif_id = motif_id


emit("exports", gcmpy.EdgeListToNetwork is EdgeListToNetwork, gcmpy.Network is Network)

# ---- hand-made edge lists ---------------------------------------------------
tri = [(0, 1), (0, 2), (1, 2), (2, 3)]
cases = {
    "empty": lambda: make([], [], [], []),
    "basic": lambda: make(list(tri), ["t", "t", "t", "e"], [(0, 1), (0, 1), (1, 1), (1, 0)], [0, 0, 0, 1]),
    "jds-lists": lambda: make(list(tri), ["t"] * 4, [[0, 1], [0, 1], [1, 1], [1, 0]], [0, 0, 0, 1]),
    "jds-tuple": lambda: make(list(tri), ["t"] * 4, ((0, 1), (0, 1), (1, 1), (1, 0)), [0, 0, 0, 1]),
    "jds-str": lambda: make(list(tri), ["t"] * 4, "abcd", [0, 0, 0, 1]),
    "jds-dict": lambda: make(list(tri), ["t"] * 4, {"p": 1, "q": 2, "r": 3, "s": 4}, [0, 0, 0, 1]),
    "jds-range": lambda: make(list(tri), ["t"] * 4, range(10, 14), [0, 0, 0, 1]),
    "jds-nparray": lambda: make(list(tri), ["t"] * 4, np.arange(8).reshape(4, 2), [0, 0, 0, 1]),
    "jds-none-items": lambda: make(list(tri), ["t"] * 4, [None] * 4, [0, 0, 0, 1]),
    "jds-short": lambda: make(list(tri), ["t"] * 4, [(1, 0)], [0, 0, 0, 1]),
    "jds-long": lambda: make([(0, 1)], ["e"], [(1,)] * 6, [0]),
    "isolated": lambda: make([], [], [(0,), (0,), (0,)], []),
    "selfloop-multi": lambda: make([(0, 0), (0, 1), (1, 0), (0, 1)], ["a", "b", "c", "d"], [(3,), (3,)], [0, 1, 2, 3]),
    "short-tops": lambda: make(list(tri), ["t"], [(0,)] * 4, [0, 0, 0, 1]),
    "short-ids": lambda: make(list(tri), ["t"] * 4, [(0,)] * 4, []),
    "str-vertices": lambda: make([("a", "b")], ["e"], [(1,), (1,)], [0]),
    "edge-3tuple": lambda: make([(0, 1, {"w": 2})], ["e"], [(1,), (1,)], [0]),
    "edges-tuple": lambda: make(((0, 1), (1, 2)), ("e", "e"), [(1,), (2,), (1,)], (0, 1)),
    "edges-gen": lambda: make(iter([(0, 1), (1, 2)]), ["e", "e"], [(1,), (2,), (1,)], [0, 1]),
    "jds-none": lambda: make(list(tri), ["t"] * 4, None, [0, 0, 0, 1]),
    "jds-int": lambda: make(list(tri), ["t"] * 4, 4, [0, 0, 0, 1]),
    "jds-gen": lambda: make(list(tri), ["t"] * 4, (x for x in [(1,)] * 4), [0, 0, 0, 1]),
    "edges-none": lambda: make(None, ["t"], [(1,), (1,)], [0]),
    "edges-bad-item": lambda: make([(0, 1), 5], ["t", "t"], [(1,), (1,)], [0, 0]),
    "edges-unhashable": lambda: make([([0], 1)], ["t"], [(1,), (1,)], [0]),
    "tops-none": lambda: make([(0, 1)], None, [(1,), (1,)], [0]),
    "ids-none": lambda: make([(0, 1)], ["e"], [(1,), (1,)], None),
    "tops-unhashable": lambda: make([(0, 1)], [["e"]], [(1,), (1,)], [{}]),
}
for tag, mk in cases.items():
    el = mk()
    first = attempt("convert:" + tag, lambda: EdgeListToNetwork.convert(el))
    second = attempt("again:" + tag, lambda: EdgeListToNetwork.convert(el))
    if first is not None and second is not None:
        emit("fresh:" + tag, first is second, first.G is second.G, type(first) is Network)
    emit(
        "input-after:" + tag,
        short((el.edge_list, el.topologies, el.joint_degrees, el.motif_id))
        if not hasattr(el.joint_degrees, "send") and not hasattr(el.edge_list, "__next__")
        else "one-shot",
    )

# identity of the stored joint degrees
jds = [[0, 1], [2, 3], [4, 5]]
net = EdgeListToNetwork.convert(make([(0, 1), (1, 2)], ["e", "e"], jds, [0, 1]))
emit(
    "jd-identity",
    [net.G.nodes[n][NetworkNames.JOINT_DEGREE] is jds[n] for n in range(3)],
    list(net.G.nodes()),
)
jds[0].append(99)
emit("jd-alias", net.G.nodes[0][NetworkNames.JOINT_DEGREE])

# access pattern on the container and on the joint-degree sequence
cel = CountingEdgeList()
cel.edge_list = list(tri)
cel.topologies = ["t"] * 4
cel.motif_id = [0, 0, 0, 1]
seq = Seq([(0, 1), (0, 1), (1, 1), (1, 0)])
cel.joint_degrees = seq
cel.reads.clear()
attempt("counting", lambda: EdgeListToNetwork.convert(cel))
emit("counting-reads", cel.reads)
emit("counting-seq", seq.log)
boom = Seq([(1,), (1,), (1,), (1,)], explode_at=2)
attempt("exploding", lambda: EdgeListToNetwork.convert(make(list(tri), ["t"] * 4, boom, [0, 0, 0, 1])))
emit("exploding-seq", boom.log)

# duck-typed / wrong-typed arguments
attempt("duck", lambda: EdgeListToNetwork.convert(Duck([(0, 1)], ["e"], [(1,), (1,)], [7])))
attempt("duck-missing", lambda: EdgeListToNetwork.convert(object()))
attempt("arg-none", lambda: EdgeListToNetwork.convert(None))
attempt("arg-network", lambda: EdgeListToNetwork.convert(Network()))
attempt("arg-none-kw", lambda: EdgeListToNetwork.convert(edgelist=make([], [], [], [])))
attempt("arg-missing", lambda: EdgeListToNetwork.convert())
attempt("instance-call", lambda: EdgeListToNetwork().convert(make([(0, 1)], ["e"], [(1,), (1,)], [0])))
emit("rng-after-direct", rng_digest())


# ---- generated networks, round trips and MPCC --------------------------------
def label_digest(G):
    h = hashlib.sha256()
    for u, v in sorted(tuple(sorted(e)) for e in G.edges()):
        h.update(f"{u},{v}:{G.edges[u, v].get('clique')};".encode())
    return h.hexdigest()[:24]


configs = [
    (80, {(1, 0): 0.2, (2, 1): 0.5, (3, 0): 0.1, (5, 1): 0.2}, [2, 3], [clique_motif, clique_motif]),
    (50, {(0, 1): 0.5, (1, 1): 0.3, (2, 2): 0.2}, [2, 4], [clique_motif, cycle_motif]),
    (24, {(1, 1, 0): 0.4, (0, 1, 1): 0.4, (2, 0, 1): 0.2}, [2, 3, 4], [clique_motif] * 3),
    (2, {(1,): 1.0}, [2], [clique_motif]),
]
for idx, (n, jdd, sizes, builders) in enumerate(configs):
    for rep in range(3):
        jp = {JointDegreeNames.JDD: dict(jdd), JointDegreeNames.MOTIF_SIZES: list(sizes)}
        jds = JointDegreeManual(jp).sample_jds_from_jdd(n)
        params = {
            GCMAlgorithmNames.MOTIF_SIZES: list(sizes),
            GCMAlgorithmNames.EDGE_NAMES: [f"{s}-motif" for s in sizes],
            GCMAlgorithmNames.BUILD_FUNCTIONS: list(builders),
        }
        alg = GCMAlgorithmNetwork(params)
        for again in range(2):
            net = alg.random_clustered_graph(list(jds))
            dump = graph_dump(net.G)
            emit(
                f"net:{idx}:{rep}:{again}",
                net.G.number_of_nodes(),
                net.G.number_of_edges(),
                hashlib.sha256(repr(dump).encode()).hexdigest()[:24],
            )
        el = GCMAlgorithmFast(params).random_clustered_graph(list(jds))
        n1 = EdgeListToNetwork.convert(el)
        n2 = EdgeListToNetwork.convert(el)
        emit(f"twice:{idx}:{rep}", graph_dump(n1.G) == graph_dump(n2.G), n1.G is n2.G)
        back = NetworkToEdgeList.convert(n1)
        n3 = EdgeListToNetwork.convert(back)
        emit(
            f"roundtrip:{idx}:{rep}",
            hashlib.sha256(repr(graph_dump(n3.G)).encode()).hexdigest()[:24],
            back.joint_degrees == list(jds),
        )
        n1.G.remove_edges_from(list(nx.selfloop_edges(n1.G)))
        for max_size in (0, 2):
            n1.G = MPCC(n1.G, max_size)
            emit(f"mpcc:{idx}:{rep}:{max_size}", label_digest(n1.G))
            emit(
                f"attrs-kept:{idx}:{rep}:{max_size}",
                hashlib.sha256(repr(graph_dump(n1.G)).encode()).hexdigest()[:24],
            )
        emit(f"rng:{idx}:{rep}", rng_digest())

emit("rng-final", rng_digest())
print("\n".join(OUT))
print("DIGEST", hashlib.sha256("\n".join(OUT).encode()).hexdigest())
