"""Equivalence digest for gcmpy/covers/mpcc.py (run with cwd = a checkout)."""
import hashlib
import logging
import os
import random
import sys

sys.path.insert(0, os.getcwd())

import networkx as nx
import numpy as np

from gcmpy.covers.mpcc import MPCC
import gcmpy.covers.mpcc as mpcc_module


def h(text: str) -> str:
    return hashlib.sha256(text.encode("utf8")).hexdigest()[:16]


def rng_digest() -> str:
    return h(repr(random.getstate())) + "/" + h(repr(np.random.get_state()))


def graph_digest(G) -> str:
    parts = [type(G).__name__, repr(list(G.nodes(data=True)))]
    if G.is_multigraph():
        parts.append(repr(list(G.edges(keys=True, data=True))))
    else:
        parts.append(repr(list(G.edges(data=True))))
    parts.append(repr(dict(G.graph)))
    # adjacency iteration order as well
    parts.append(repr({n: list(G[n]) for n in G}))
    return "\n".join(parts)


def run(name, G, *args, verbose=False, **kwargs):
    seed = int(h(name), 16) % (2**32)
    random.seed(seed)
    np.random.seed(seed)
    before = graph_digest(G) if G is not None and hasattr(G, "nodes") else repr(G)
    try:
        out = MPCC(G, *args, **kwargs)
        res = "returned same object=%r type=%s" % (out is G, type(out).__name__)
    except BaseException as exc:  # noqa
        res = "raised %s: %r" % (type(exc).__name__, exc.args)
    after = graph_digest(G) if G is not None and hasattr(G, "nodes") else repr(G)
    print("CASE", name, "args=%r kwargs=%r" % (args, kwargs))
    print("  ", res)
    print("   before", h(before), "after", h(after), "rng", rng_digest())
    if verbose:
        for line in after.split("\n"):
            print("   |", line)


def two_triangles():
    G = nx.Graph()
    G.add_edges_from([(0, 1), (1, 2), (0, 2), (1, 3), (2, 3), (3, 4)])
    return G


def make_cases():
    cases = []
    cases.append(("empty", lambda: nx.Graph()))
    cases.append(("single", lambda: nx.empty_graph(1)))
    cases.append(("isolated5", lambda: nx.empty_graph(5)))
    cases.append(("edge", lambda: nx.path_graph(2)))
    cases.append(("path6", lambda: nx.path_graph(6)))
    cases.append(("cycle5", lambda: nx.cycle_graph(5)))
    cases.append(("K3", lambda: nx.complete_graph(3)))
    cases.append(("K5", lambda: nx.complete_graph(5)))
    cases.append(("K7", lambda: nx.complete_graph(7)))
    cases.append(("two_triangles", two_triangles))
    cases.append(("karate", lambda: nx.karate_club_graph()))
    cases.append(("gnp30", lambda: nx.gnp_random_graph(30, 0.3, seed=1)))
    cases.append(("gnp60", lambda: nx.gnp_random_graph(60, 0.15, seed=2)))
    cases.append(("gnp25dense", lambda: nx.gnp_random_graph(25, 0.6, seed=3)))
    cases.append(("caveman", lambda: nx.connected_caveman_graph(4, 5)))
    cases.append(("windmill", lambda: nx.windmill_graph(4, 4)))

    def strings():
        G = nx.Graph()
        G.add_edges_from(
            [("a", "b"), ("b", "c"), ("a", "c"), ("c", "d"), ("d", "e"), ("c", "e")]
        )
        G.add_node("lonely")
        return G

    cases.append(("strings", strings))

    def mixed():
        G = nx.Graph()
        G.add_edges_from([(0, "x"), ("x", (1, 2)), (0, (1, 2)), ((1, 2), 2.5)])
        return G

    cases.append(("mixed_nodes", mixed))

    def selfloops():
        G = nx.complete_graph(4)
        G.add_edge(0, 0)
        G.add_edge(2, 2)
        G.add_edge(9, 9)
        return G

    cases.append(("selfloops", selfloops))

    def prelabelled():
        G = nx.complete_graph(4)
        G.add_edge(3, 4, clique="old", weight=1.5)
        G.edges[0, 1]["clique"] = "2-[0, 1]-77"
        G.graph["name"] = "pre"
        return G

    cases.append(("prelabelled", prelabelled))
    return cases


def main():
    print("defaults", MPCC.__defaults__, MPCC.__kwdefaults__, MPCC.__name__)
    print("star", sorted(n for n in vars(mpcc_module) if n == "MPCC"))

    cases = make_cases()
    limits = [(), (0,), (1,), (2,), (3,), (4,), (100,), (-1,), (2.5,), (True,)]
    for name, factory in cases:
        for lim in limits:
            run("%s/%r" % (name, lim), factory(), *lim, verbose=(name in (
                "two_triangles", "K5", "strings", "selfloops", "prelabelled",
                "mixed_nodes", "single", "empty")))
        run("%s/kw" % name, factory(), max_size=3)

    # exotic limits and error paths
    for name, factory in cases[:1] + cases[3:4] + cases[9:10]:
        for lim in (float("nan"), float("inf"), "a", None, [1], np.int64(2),
                    np.float64(2.0)):
            run("%s/exotic/%r" % (name, lim), factory(), lim, verbose=True)

    # wrong graph types / inputs
    run("digraph", nx.DiGraph([(0, 1), (1, 2), (0, 2)]), verbose=True)
    run("multigraph", nx.MultiGraph([(0, 1), (0, 1), (1, 2), (0, 2)]), verbose=True)
    run("multigraph_empty", nx.MultiGraph(), verbose=True)
    mg = nx.MultiGraph()
    mg.add_nodes_from(range(3))
    run("multigraph_noedges", mg, verbose=True)
    run("multidigraph", nx.MultiDiGraph([(0, 1)]), verbose=True)
    run("none", None)
    run("notgraph", [1, 2, 3])
    run("frozen", nx.freeze(nx.complete_graph(4)), verbose=True)
    try:
        MPCC()
    except BaseException as exc:  # noqa
        print("noargs", type(exc).__name__, exc.args)
    try:
        MPCC(nx.path_graph(2), 0, 1)
    except BaseException as exc:  # noqa
        print("toomany", type(exc).__name__, exc.args)

    # repeated calls on the same object, different limits, no reseeding between
    G = nx.gnp_random_graph(40, 0.25, seed=7)
    random.seed(12345)
    np.random.seed(12345)
    for i, lim in enumerate([0, 3, 2, 0, 1, 4, 0]):
        out = MPCC(G, lim)
        print("REPEAT", i, lim, out is G, h(graph_digest(G)), rng_digest())
    for line in graph_digest(G).split("\n"):
        print("   |", h(line), len(line))

    # chain: output fed back as input, and a view / subgraph as input
    G = nx.karate_club_graph()
    random.seed(99)
    out = MPCC(MPCC(MPCC(G), 3), 2)
    print("CHAIN", out is G, h(graph_digest(G)), rng_digest())
    sub = G.subgraph(list(range(12)))
    random.seed(5)
    try:
        out = MPCC(sub, 3)
        print("SUBGRAPH", out is sub, h(graph_digest(sub)), h(graph_digest(G)),
              rng_digest())
    except BaseException as exc:  # noqa
        print("SUBGRAPH raised", type(exc).__name__, exc.args, rng_digest())

    # same inputs with DEBUG logging enabled (records swallowed): results and
    # random stream must not depend on the logging level
    lg = logging.getLogger("gcmpy")
    lg.addHandler(logging.NullHandler())
    lg.propagate = False
    lg.setLevel(logging.DEBUG)
    for name, factory in cases:
        for lim in [(), (2,), (3,)]:
            run("debug/%s/%r" % (name, lim), factory(), *lim)
    lg.setLevel(logging.NOTSET)
    lg.propagate = True

    # a larger instance
    G = nx.gnp_random_graph(400, 0.03, seed=11)
    run("gnp400", G)
    run("gnp400/again", G, 3)
    print("FINAL rng", rng_digest())


if __name__ == "__main__":
    main()
