"""Equivalence digest for the C06 refactoring (run with cwd = a gcmpy checkout)."""
import hashlib
import math
import os
import random
import sys

sys.path.insert(0, os.getcwd())

import numpy as np  # noqa: E402

from gcmpy.joint_degree.joint_degree import JointDegree  # noqa: E402
from gcmpy.joint_degree.joint_degree_type import JointDegreeType  # noqa: E402
from gcmpy.joint_degree.joint_degree_factory import JointDegreeFactory  # noqa: E402
from gcmpy.joint_degree.joint_degree_distribution import (  # noqa: E402
    JointDegreeDistribution,
)
from gcmpy.joint_degree.joint_degree_loaders.joint_degree_manual import (  # noqa: E402
    JointDegreeManual,
)
from gcmpy.joint_degree.joint_degree_loaders.joint_degree_empirical import (  # noqa: E402
    JointDegreeEmpirical,
)
from gcmpy.joint_degree.joint_degree_loaders.joint_degree_marginal import (  # noqa: E402
    JointDegreeMarginal,
)
from gcmpy.joint_degree.joint_degree_loaders.joint_degree_function import (  # noqa: E402
    JointDegreeFunction,
)
from gcmpy.names.joint_degree_names import JointDegreeNames as N  # noqa: E402


def digest(obj) -> str:
    return hashlib.sha256(repr(obj).encode()).hexdigest()[:16]


def rng_state() -> str:
    return digest((random.getstate(), np.random.get_state()[1].tolist()))


def seed(s: int) -> None:
    random.seed(s)
    np.random.seed(s)


def show(label: str, value) -> None:
    r = repr(value)
    if len(r) > 300:
        r = r[:120] + "...<" + digest(value) + ">"
    print(f"{label}: {r}")


def run(label: str, fn) -> None:
    """Run fn under a fresh seed; print result (or exception) and RNG digest."""
    seed(12345)
    try:
        out = fn()
        show(label, out)
    except BaseException as e:  # noqa: BLE001
        print(f"{label}: EXC {type(e).__name__}: {e}")
    print(f"{label} rng: {rng_state()}")


def jdd_items(loader):
    """Ordered view (insertion order is observable through sampling)."""
    return None if loader.jdd is None else list(loader.jdd.items())


class CountingFn:
    """Callable recording its call sequence, so call order/number is digested."""

    def __init__(self, fn):
        self.fn = fn
        self.calls = []

    def __call__(self, x):
        self.calls.append(x)
        return self.fn(x)


def poisson(mean):
    return lambda k: math.exp(-mean) * mean**k / math.factorial(k)


def geometric(p):
    return lambda k: p * (1 - p) ** k


class Bare(JointDegree):
    """Concrete subclass to exercise the base-class helpers on their own."""

    def __init__(self, jdd=None, motif_sizes=None):
        self._jdd = jdd
        self._motif_sizes = motif_sizes

    def create_jdd(self) -> None:
        return


# ---------------------------------------------------------------- base class
print("== JointDegree.convert_jds_to_jdd")
for name, jds in [
    ("empty", []),
    ("single", [(1, 2)]),
    ("repeats", [(1, 2), (0, 0), (1, 2), (3, 1), (0, 0), (1, 2)]),
    ("tuple-input", ((2,), (2,), (1,))),
    ("unhashable", [[1, 2], [1, 2]]),
    ("no-len", iter([(1, 2)])),
    ("none", None),
]:
    b = Bare(jdd={"old": 1.0})

    def f(b=b, jds=jds):
        b.convert_jds_to_jdd(jds)
        return jdd_items(b)

    run(f"convert[{name}]", f)
    show(f"convert[{name}] jdd-after", b.jdd)
    if isinstance(jds, list):
        show(f"convert[{name}] input-after", jds)

print("== JointDegree.normalise_jdd")
for name, jdd in [
    ("plain", {(0, 1): 1.0, (1, 1): 3.0, (2, 0): 4.0}),
    ("ints", {(0,): 1, (1,): 2}),
    ("zero-sum", {(0,): 0.0, (1,): 0.0}),
    ("empty", {}),
    ("npfloat", {(0,): np.float64(0.25), (1,): np.float64(0.5)}),
]:
    b = Bare(jdd=jdd)

    def f(b=b):
        b.normalise_jdd()
        return jdd_items(b)

    run(f"normalise[{name}]", f)
    show(f"normalise[{name}] jdd-after", b.jdd)

print("== JointDegree.handshaking_lemma / sample_jds_from_jdd")
for name, sizes, jds in [
    ("ok-already", [2, 3], [(1, 1), (1, 2), (2, 0), (0, 0)]),
    ("fix-both", [2, 3], [(1, 1), (1, 2), (2, 1), (1, 0)]),
    ("fix-many", [2, 3, 4], [(1, 1, 1), (0, 0, 0), (2, 3, 0), (1, 0, 0), (3, 3, 1)]),
    ("size-one", [1, 1], [(1, 1), (5, 2)]),
    ("single-node", [2, 5], [(1, 1)]),
    ("empty", [2, 3], []),
    ("short-sizes", [2], [(1, 1), (1, 2)]),
    ("zero-size", [0, 2], [(1, 1), (1, 2)]),
    ("float-sum", [2], [(1.5,), (1.0,)]),
    ("lists-inside", [2, 3], [[1, 1], [2, 2]]),
]:
    b = Bare(motif_sizes=sizes)
    arg = list(jds)

    def f(b=b, arg=arg):
        out = b.handshaking_lemma(arg)
        return (out is arg, out)

    run(f"handshake[{name}]", f)
    show(f"handshake[{name}] input-after", arg)

for name, jdd, sizes, n in [
    ("basic", {(1, 0): 0.2, (2, 1): 0.5, (0, 3): 0.3}, [2, 3], 25),
    ("unnormalised", {(1,): 2.0, (4,): 6.0}, [2], 11),
    ("n-zero", {(1, 1): 1.0}, [2, 3], 0),
    ("n-one", {(1, 1): 1.0}, [2, 3], 1),
    ("empty-jdd", {}, [2], 3),
    ("none-jdd", None, [2], 3),
    ("zero-weights", {(1,): 0.0, (2,): 0.0}, [2], 3),
    ("large", {(i, j): (i + 1) * (j + 2) for i in range(6) for j in range(5)}, [2, 3], 500),
]:
    b = Bare(jdd=jdd, motif_sizes=sizes)
    run(f"sample[{name}]", lambda b=b, n=n: b.sample_jds_from_jdd(n))
    show(f"sample[{name}] jdd-after", b.jdd)

# ---------------------------------------------------------------- manual
print("== JointDegreeManual")
manual_params = {
    N.JOINT_DEGREE_TYPE: "manual",
    N.JDD: {(1, 0): 0.25, (2, 2): 0.5, (0, 1): 0.25},
    N.MOTIF_SIZES: [2, 3],
}


def manual_direct():
    m = JointDegreeManual(manual_params)
    return (m.jdd is manual_params[N.JDD], jdd_items(m), m.motif_sizes, m._type)


run("manual direct", manual_direct)
run("manual missing", lambda: JointDegreeManual({N.JDD: {}}))

# ---------------------------------------------------------------- empirical
print("== JointDegreeEmpirical")
for name, jds in [
    ("basic", [(1, 0), (2, 2), (1, 0), (0, 1), (2, 2), (1, 0), (3, 3)]),
    ("one", [(4, 4)]),
    ("empty", []),
]:
    p = {N.JOINT_DEGREE_TYPE: "empirical", N.JDS: list(jds), N.MOTIF_SIZES: [2, 3]}

    def f(p=p):
        e = JointDegreeEmpirical(p)
        first = jdd_items(e)
        e.create_jdd()
        return (first, jdd_items(e), e.empirical_jds is p[N.JDS], e.motif_sizes)

    run(f"empirical[{name}]", f)
    show(f"empirical[{name}] input-after", p[N.JDS])
run("empirical missing", lambda: JointDegreeEmpirical({N.MOTIF_SIZES: [2]}))

# ---------------------------------------------------------------- marginal
print("== JointDegreeMarginal")


def marginal_params(bounds, fns, extra=None):
    p = {
        N.JOINT_DEGREE_TYPE: "marginal",
        N.MOTIF_SIZES: [2, 3, 4][: len(fns)],
        N.ARR_FP: fns,
        N.LOW_HIGH_DEGREE_BOUND: bounds,
    }
    p.update(extra or {})
    return p


marginal_cases = [
    ("direct-2d", [(0, 5), (1, 4)], lambda: [poisson(1.5), geometric(0.4)], {}),
    ("direct-1d", [(2, 9)], lambda: [poisson(3.0)], {}),
    ("direct-3d", ((0, 3), (0, 4), (1, 3)), lambda: [poisson(0.7), geometric(0.2), poisson(2.0)], {}),
    ("direct-flag-false", [(0, 4), (0, 4)], lambda: [poisson(1.0), poisson(2.0)], {N.USE_SAMPLING: False}),
    ("direct-empty-range", [(3, 3), (0, 4)], lambda: [poisson(1.0), poisson(2.0)], {}),
    ("direct-no-dims", [], lambda: [], {}),
    ("direct-zero-weights", [(0, 3)], lambda: [lambda k: 0.0], {}),
    ("direct-too-few-fns", [(0, 3), (0, 3)], lambda: [poisson(1.0)], {}),
    ("direct-bad-bounds", [(0, 3, 5)], lambda: [poisson(1.0)], {}),
    ("sample-2d", [(0, 5), (1, 4)], lambda: [poisson(1.5), geometric(0.4)], {N.USE_SAMPLING: True, N.N_SAMPLES: 400}),
    ("sample-1d", [(2, 9)], lambda: [poisson(3.0)], {N.USE_SAMPLING: True, N.N_SAMPLES: 77}),
    ("sample-3d", ((0, 3), (0, 4), (1, 3)), lambda: [poisson(0.7), geometric(0.2), poisson(2.0)], {N.USE_SAMPLING: 1, N.N_SAMPLES: 250}),
    ("sample-default-n", [(0, 2), (0, 2)], lambda: [poisson(1.0), poisson(2.0)], {N.USE_SAMPLING: True}),
    ("sample-one", [(0, 5), (1, 4)], lambda: [poisson(1.5), geometric(0.4)], {N.USE_SAMPLING: True, N.N_SAMPLES: 1}),
    ("sample-zero", [(0, 5), (1, 4)], lambda: [poisson(1.5), geometric(0.4)], {N.USE_SAMPLING: True, N.N_SAMPLES: 0}),
    ("sample-degenerate", [(3, 3), (2, 2)], lambda: [poisson(1.0), poisson(2.0)], {N.USE_SAMPLING: True, N.N_SAMPLES: 5}),
    ("sample-empty-range", [(3, 2)], lambda: [poisson(1.0)], {N.USE_SAMPLING: True, N.N_SAMPLES: 5}),
    ("sample-no-dims", [], lambda: [], {N.USE_SAMPLING: True, N.N_SAMPLES: 5}),
    ("sample-zero-weights", [(0, 3)], lambda: [lambda k: 0.0], {N.USE_SAMPLING: True, N.N_SAMPLES: 5}),
    ("sample-too-few-fns", [(0, 3), (0, 3)], lambda: [poisson(1.0)], {N.USE_SAMPLING: True, N.N_SAMPLES: 5}),
    ("sample-bad-bounds", [(0, 3, 5)], lambda: [poisson(1.0)], {N.USE_SAMPLING: True, N.N_SAMPLES: 5}),
]

for name, bounds, mk, extra in marginal_cases:
    fns = [CountingFn(f) for f in mk()]
    p = marginal_params(bounds, fns, extra)

    def f(p=p):
        m = JointDegreeMarginal(p)
        return (jdd_items(m), m.motif_sizes, m._use_sampling, m._n_samples)

    run(f"marginal[{name}]", f)
    show(f"marginal[{name}] calls", [c.calls for c in fns])
    show(f"marginal[{name}] bounds-after", p[N.LOW_HIGH_DEGREE_BOUND])

print("== JointDegreeMarginal methods on a live object")
fns = [CountingFn(poisson(1.5)), CountingFn(geometric(0.4))]
m = JointDegreeMarginal(marginal_params([(0, 4), (1, 5)], fns, {N.N_SAMPLES: 60}))
run("marginal.generate_all", m.generate_all_joint_degrees)
run("marginal.evaluate (2,3)", lambda: m.evaluate_prob_of_joint_degree((2, 3)))
run("marginal.evaluate short", lambda: m.evaluate_prob_of_joint_degree((2,)))
run("marginal.evaluate empty", lambda: m.evaluate_prob_of_joint_degree(()))
run("marginal.evaluate long", lambda: m.evaluate_prob_of_joint_degree((1, 2, 3)))
run("marginal.draw", m.draw_from_analytical_joint)
run("marginal.draw twice", lambda: (m.draw_from_analytical_joint(), m.draw_from_analytical_joint()))


def flip():
    out = [jdd_items(m)]
    m._use_sampling = True
    m.create_jdd()
    out.append(jdd_items(m))
    m.create_jdd_by_sampling()
    out.append(jdd_items(m))
    m._use_sampling = False
    m.create_jdd()
    out.append(jdd_items(m))
    m.create_jdd_directly()
    out.append(jdd_items(m))
    return out


run("marginal flip modes", flip)
show("marginal live calls", [c.calls for c in fns])
run("marginal missing", lambda: JointDegreeMarginal({N.MOTIF_SIZES: [2]}))

# ---------------------------------------------------------------- function
print("== JointDegreeFunction")


def joint(jd):
    return math.exp(-sum(jd)) * (1 + jd[0]) / (1 + sum(k * k for k in jd))


for name, bounds, fn in [
    ("2d", [(0, 4), (1, 3)], joint),
    ("1d", [(2, 6)], joint),
    ("3d", ((0, 2), (0, 1), (1, 3)), joint),
    ("degenerate", [(3, 3), (2, 2)], joint),
    ("empty-range", [(3, 2), (0, 2)], joint),
    ("no-dims", [], lambda jd: 1.0),
    ("bad-bounds", [(0, 3, 5)], joint),
    ("raising-fp", [(0, 2)], lambda jd: 1 / (1 - jd[0])),
]:
    cf = CountingFn(fn)
    p = {
        N.JOINT_DEGREE_TYPE: "function",
        N.MOTIF_SIZES: [2, 3, 4][: len(bounds)],
        N.FP: cf,
        N.LOW_HIGH_DEGREE_BOUND: bounds,
    }

    def f(p=p):
        fl = JointDegreeFunction(p)
        first = jdd_items(fl)
        fl.create_jdd()
        return (first, jdd_items(fl), fl.motif_sizes)

    run(f"function[{name}]", f)
    show(f"function[{name}] calls", cf.calls)
    show(f"function[{name}] bounds-after", p[N.LOW_HIGH_DEGREE_BOUND])
run("function missing", lambda: JointDegreeFunction({N.MOTIF_SIZES: [2]}))

# partial state after a failing callback on re-creation
cf = CountingFn(joint)
fl = JointDegreeFunction(
    {N.MOTIF_SIZES: [2], N.FP: cf, N.LOW_HIGH_DEGREE_BOUND: [(0, 3)]}
)
fl._fp = lambda jd: 1 / (2 - jd[0])
run("function refail", fl.create_jdd)
show("function refail jdd-after", fl.jdd)

# ---------------------------------------------------------------- dispatch
print("== Factory / JointDegreeDistribution")


def all_params():
    return {
        "manual": dict(manual_params),
        "empirical": {
            N.JOINT_DEGREE_TYPE: "empirical",
            N.JDS: [(1, 0), (2, 2), (1, 0), (0, 1)],
            N.MOTIF_SIZES: [2, 3],
        },
        "function": {
            N.JOINT_DEGREE_TYPE: "function",
            N.MOTIF_SIZES: [2, 3],
            N.FP: joint,
            N.LOW_HIGH_DEGREE_BOUND: [(0, 3), (1, 3)],
        },
        "marginal": marginal_params([(0, 4), (1, 4)], [poisson(1.5), geometric(0.4)]),
        "marginal-sampling": marginal_params(
            [(0, 4), (1, 4)],
            [poisson(1.5), geometric(0.4)],
            {N.USE_SAMPLING: True, N.N_SAMPLES: 150},
        ),
        "split_degree": {
            N.JOINT_DEGREE_TYPE: "split_degree",
            N.MOTIF_SIZES: [2, 3],
            N.FP: poisson(2.0),
            N.PROBS: [0.6, 0.4],
            N.LOW_HIGH_DEGREE_BOUND: (0, 6),
            N.N_SAMPLES: 100,
        },
        "delta": {
            N.JOINT_DEGREE_TYPE: "delta",
            N.MOTIF_SIZES: [2, 3],
            N.TARGET_K: 3,
            N.FP: poisson(2.0),
            N.PROBS: [0.6, 0.4],
            N.LOW_HIGH_DEGREE_BOUND: (0, 6),
        },
        "cover": {
            N.JOINT_DEGREE_TYPE: "cover",
            N.COVER: [(0, 1), (1, 2), (2, 3, 4), (0, 4), (1, 3, 5), (5, 6)],
        },
    }


for name, p in all_params().items():
    t = JointDegreeType(p[N.JOINT_DEGREE_TYPE])

    def via_factory(p=p, t=t):
        ld = JointDegreeFactory.resolve_joint_degree(t, p)
        return (type(ld).__name__, jdd_items(ld), ld.motif_sizes)

    def via_entry(p=p):
        ld = JointDegreeDistribution.load_joint_degree(p)
        return (type(ld).__name__, jdd_items(ld), ld.motif_sizes)

    def sampled(p=p):
        ld = JointDegreeDistribution.load_joint_degree(p)
        return ld.sample_jds_from_jdd(40)

    run(f"factory[{name}]", via_factory)
    run(f"entry[{name}]", via_entry)
    run(f"entry+sample[{name}]", sampled)

for name, t in [
    ("undefined", JointDegreeType.UNDEFINED),
    ("string", "manual"),
    ("none", None),
    ("unhashable", ["manual"]),
    ("names-enum", N.COVER),
]:
    run(f"factory bad[{name}]", lambda t=t: JointDegreeFactory.resolve_joint_degree(t, manual_params))

for name, p in [
    ("no-type", {N.JDD: {}, N.MOTIF_SIZES: [2]}),
    ("bad-type", {N.JOINT_DEGREE_TYPE: "nonsense"}),
    ("undefined-type", {N.JOINT_DEGREE_TYPE: "undefined"}),
    ("enum-type", {**manual_params, N.JOINT_DEGREE_TYPE: JointDegreeType.MANUAL}),
    ("not-a-dict", None),
    ("cover-missing-keys", {N.JOINT_DEGREE_TYPE: "cover"}),
]:
    def f(p=p):
        ld = JointDegreeDistribution.load_joint_degree(p)
        return (type(ld).__name__, jdd_items(ld))

    run(f"entry bad[{name}]", f)

run("abstract", lambda: JointDegree())
print("final rng:", rng_state())
