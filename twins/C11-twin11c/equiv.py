import sys, os; sys.path.insert(0, os.getcwd())
import hashlib
import random
import numpy as np
import networkx as nx

from gcmpy.joint_degree.joint_degree_loaders.joint_degree_manual import JointDegreeManual
from gcmpy.motif_generators.clique_motif import clique_motif
from gcmpy.gcm_algorithm.gcm_algorithm_network import GCMAlgorithmNetwork
from gcmpy.names.gcm_algorithm_names import GCMAlgorithmNames
from gcmpy.names.joint_degree_names import JointDegreeNames
from gcmpy.names.tools_names import ToolsNames
from gcmpy.names.network_names import NetworkNames
from gcmpy.network.network import Network
from gcmpy.tools.joint_excess_joint_degree_matrices import JointExcessJointDegreeMatrices
from gcmpy.tools.markov_chain_monte_carlo import MarkovChainMonteCarlo
from gcmpy.tools.markov_chain_monte_carlo_rewiring import (
    MarkovChainMonteCarloRewiring,
    ErrorMarkovChainMonteCarloRewiring,
)
from gcmpy.tools.joint_excess_from_ejk import JointExcessFromEjk
from gcmpy.tools.joint_degree_from_excess import JointDegreeFromExcess
from gcmpy.tools.draw_set import DrawSet
from gcmpy.tools.proposal_edge import ProposalEdge

EDGE_NAMES = ["2-clique", "3-clique"]
MOTIF_SIZES = [2, 3]
OUT = []


def emit(*parts):
    OUT.append(" ".join(str(p) for p in parts))


def rng_state():
    h = hashlib.sha256()
    h.update(repr(random.getstate()).encode())
    st = np.random.get_state()
    h.update(repr((st[0], st[1].tolist(), st[2], st[3], st[4])).encode())
    return h.hexdigest()[:16]


def seed(n):
    random.seed(n)
    np.random.seed(n)


def attempt(label, fn):
    """Runs fn, records value or exception type + message."""
    try:
        r = fn()
        emit(label, "->", repr(r))
        return r
    except BaseException as e:  # noqa
        emit(label, "!!", type(e).__name__, repr(str(e)))
        return None


def target_ejks(eps):
    tree = {
        (0, 3, 0, 3): 9 / 81 - 2 * eps,
        (0, 3, 4, 1): eps,
        (0, 3, 2, 2): eps,
        (4, 1, 0, 3): eps,
        (4, 1, 4, 1): 45 / 81 - 2 * eps,
        (4, 1, 2, 2): eps,
        (2, 2, 0, 3): eps,
        (2, 2, 4, 1): eps,
        (2, 2, 2, 2): 27 / 81 - 2 * eps,
    }
    tri = {
        (3, 1, 3, 1): 48 / 144 - 2 * eps,
        (3, 1, 1, 2): eps,
        (3, 1, 5, 0): eps,
        (1, 2, 3, 1): eps,
        (1, 2, 1, 2): 72 / 144 - 2 * eps,
        (1, 2, 5, 0): eps,
        (5, 0, 3, 1): eps,
        (5, 0, 1, 2): eps,
        (5, 0, 5, 0): 24 / 144 - 2 * eps,
    }
    p = {ToolsNames.EDGE_NAMES: list(EDGE_NAMES),
         ToolsNames.EJKS: {"2-clique": tree, "3-clique": tri}}
    return JointExcessJointDegreeMatrices(p)


def build_network(n, ejk):
    qks = JointExcessFromEjk.get_excess_joint_distributions(ejk)
    jdd = JointDegreeFromExcess.get_joint_degree_distribution(qks, EDGE_NAMES)
    p = {JointDegreeNames.JDD: jdd, JointDegreeNames.MOTIF_SIZES: MOTIF_SIZES}
    jds = JointDegreeManual(p).sample_jds_from_jdd(n)
    p = {GCMAlgorithmNames.MOTIF_SIZES: MOTIF_SIZES,
         GCMAlgorithmNames.EDGE_NAMES: EDGE_NAMES,
         GCMAlgorithmNames.BUILD_FUNCTIONS: [clique_motif, clique_motif]}
    return GCMAlgorithmNetwork(p).random_clustered_graph(jds)


def graph_digest(G):
    h = hashlib.sha256()
    h.update(repr(list(G.nodes(data=True))).encode())
    h.update(repr(list(G.edges(data=True))).encode())
    h.update(repr({u: list(G.adj[u]) for u in G}).encode())
    return "%s n=%d m=%d" % (h.hexdigest()[:16], G.number_of_nodes(), G.number_of_edges())


def mcmc_state(m):
    d = vars(m)
    keys = list(d.keys())
    return (
        keys,
        d.get("_convergence_limit"), d.get("_search_limit"),
        d.get("_proposal_count"), d.get("_proposals_accepted"),
        list(d.get("_acceptance_ratio", [])),
        [(type(p).__name__, list(vars(p).items())) for p in d.get("_proposal_edges", [])],
        ("cls", MarkovChainMonteCarlo._proposal_count, MarkovChainMonteCarlo._proposals_accepted),
    )


def finish():
    text = "\n".join(OUT)
    print(text)
    print("DIGEST", hashlib.sha256(text.encode()).hexdigest())


def run_rewire(label, n, seedv, eps, extra, repeat=1):
    seed(seedv)
    ejk = target_ejks(eps)
    g = build_network(n, ejk)
    before = graph_digest(g.G)
    params = {ToolsNames.NETWORK: g, ToolsNames.EJKS: ejk}
    params.update(extra)
    pkeys = list(params.keys())
    try:
        m = MarkovChainMonteCarloRewiring(params)
    except Exception as e:
        emit(label, "ctor failed", type(e).__name__)
        return
    emit(label, "state0", mcmc_state(m))
    for r in range(repeat):
        try:
            G = m.rewire()
            emit(label, r, "result", graph_digest(G), "is_input", G is g.G)
            deg = sorted(
                (u, sorted((d[NetworkNames.TOPOLOGY], 1) for _, _, d in G.edges(u, data=True)).__repr__())
                for u in G
            )
            emit(label, r, "degtopo", hashlib.sha256(repr(deg).encode()).hexdigest()[:16])
            emit(label, r, "selfloops", nx.number_of_selfloops(G))
        except BaseException as e:  # noqa
            emit(label, r, "rewire !!", type(e).__name__, repr(str(e)))
        emit(label, r, "input", graph_digest(g.G), "unchanged", graph_digest(g.G) == before)
        emit(label, r, "state", mcmc_state(m))
        emit(label, r, "params keys same", list(params.keys()) == pkeys)
        emit(label, r, "rng", rng_state())


# ---------------------------------------------------------------- variant c
# append_proposal_edges hands its values to ProposalEdge
def pe_state(p):
    return (type(p).__name__, list(vars(p).items()), p.topology, p.motif_id, p.new_edge)


seed(3)
EJK = target_ejks(0.02)
NET = build_network(50, EJK)
G = NET.G
m = MarkovChainMonteCarloRewiring({ToolsNames.NETWORK: NET, ToolsNames.EJKS: EJK,
                                   ToolsNames.CONVERGENCE_LIMIT: 5})
edges = list(G.edges())
emit("edges", len(edges))
before = graph_digest(G)

# direct calls on one object, many edges, both orientations, wrong focal vertex, missing edges
k = 0
for (u, v) in edges[:60]:
    for focal, old, new in [
        (u, (u, v), (u, v)), (u, (v, u), (v, u)), (v, (u, v), (u, v)),
        (u, (u, v), (u, u)), (u, (u, v), (v, v)), (u, (u, v), (u, 10 ** 6)),
        (10 ** 6, (u, v), (u, v)), (u, (u, 10 ** 6), (u, v)), (u, (u, v), (u,)),
        (u, (u, v), ()), (u, (u,), (u, v)), (None, (u, v), (None, v)), (u, (u, v), [u, v]),
        (u, (u, v), (u, v, 5)), (float(u), (u, v), (u, v)), (u, (u, v), (float(u), "x")),
    ]:
        n0 = len(m._proposal_edges)
        try:
            r = m.append_proposal_edges(G, focal, old, new)
            p = m._proposal_edges[-1]
            emit("ape%d" % k, "->", repr(r), len(m._proposal_edges) - n0, pe_state(p),
                 [type(x).__name__ for x in p.new_edge])
        except BaseException as e:  # noqa
            emit("ape%d" % k, "!!", type(e).__name__, repr(str(e)), len(m._proposal_edges) - n0)
        k += 1
emit("graph untouched", graph_digest(G) == before)
emit("all distinct objects", len({id(p) for p in m._proposal_edges}) == len(m._proposal_edges))
emit("rng", rng_state())

# edge attributes of odd kinds are handed over as they are (identity, not copies)
H = nx.Graph()
topo, mid = ["mutable", "topology"], {"id": 1}
H.add_edge(1, 2, **{})
H.edges[1, 2][NetworkNames.TOPOLOGY] = topo
H.edges[1, 2][NetworkNames.MOTIF_IDS] = mid
H.add_edge(2, 3)  # no annotations at all
H.add_edge(3, 4)
H.edges[3, 4][NetworkNames.TOPOLOGY] = None
m2 = MarkovChainMonteCarloRewiring({ToolsNames.NETWORK: NET, ToolsNames.EJKS: EJK})
attempt("odd ok", lambda: m2.append_proposal_edges(H, 1, (1, 2), (1, 2)))
p = m2._proposal_edges[-1]
emit("identity", p.topology is topo, p.motif_id is mid, p._topology is topo, p._motif_id is mid, pe_state(p))
attempt("odd no-annot", lambda: m2.append_proposal_edges(H, 2, (2, 3), (2, 3)))
attempt("odd half-annot", lambda: m2.append_proposal_edges(H, 3, (3, 4), (3, 4)))
emit("count after failures", len(m2._proposal_edges), [pe_state(q) for q in m2._proposal_edges])
attempt("multigraph", lambda: m2.append_proposal_edges(nx.MultiGraph([(1, 2)]), 1, (1, 2), (1, 2)))
attempt("digraph", lambda: m2.append_proposal_edges(nx.DiGraph([(1, 2)]), 1, (2, 1), (1, 2)))
attempt("G None", lambda: m2.append_proposal_edges(None, 1, (1, 2), (1, 2)))

# ProposalEdge on its own: getters, setters, fresh state, class surface
q = ProposalEdge()
emit("fresh", pe_state(q))
q.topology, q.motif_id, q.new_edge = "t", 5, (1, 2)
emit("set", pe_state(q))
q._topology, q._motif_id, q._new_edge = "u", 6, (2, 1)
emit("set private", pe_state(q))
emit("surface", sorted((k, type(v).__name__) for k, v in ProposalEdge.__dict__.items() if not k.startswith("__")))
attempt("slots?", lambda: setattr(q, "extra", 1))
emit("after extra", list(vars(q).items()))

# swap_condition (public) fills the proposal list through the same path
seed(8)
cnt = 0
for (u, v) in edges:
    for (x, y) in edges[::7]:
        if G.edges[u, v][NetworkNames.TOPOLOGY] != G.edges[x, y][NetworkNames.TOPOLOGY]:
            continue
        e0s, e1s = m.get_all_edges(G, u, (u, v)), m.get_all_edges(G, x, (x, y))
        if not m.is_edge_choice_suitable(G, u, x, e0s, e1s):
            continue
        try:
            r = m.swap_condition(G, e0s, e1s, u, x)
            emit("swap", cnt, r, [pe_state(p) for p in m._proposal_edges])
        except BaseException as e:  # noqa
            emit("swap", cnt, "!!", type(e).__name__, repr(str(e)), [pe_state(p) for p in m._proposal_edges])
        cnt += 1
        if cnt >= 150:
            break
    if cnt >= 150:
        break
emit("swap calls", cnt, mcmc_state(m)[-1], rng_state(), graph_digest(G) == before)

C_, S_ = ToolsNames.CONVERGENCE_LIMIT, ToolsNames.SEARCH_LIMIT
run_rewire("defaults", 40, 31, 0.02, {})
run_rewire("both", 120, 32, 0.02, {C_: 80, S_: 20}, repeat=2)
run_rewire("conv-only", 200, 33, 0.03, {C_: 100})
run_rewire("search-only", 30, 34, 0.02, {S_: 8})
finish()
