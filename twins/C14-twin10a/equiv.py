import sys, os; sys.path.insert(0, os.getcwd())
import hashlib
import random

import numpy as np
import networkx as nx

from gcmpy import JointDegreeDistributionFromNetwork, NetworkNames
from gcmpy import JointExcessfromJDD, AverageJointDegreeFromJDD

random.seed(20261004)
np.random.seed(20261004)

JD = NetworkNames.JOINT_DEGREE
F = JointDegreeDistributionFromNetwork.get_joint_degree_distribution
H = hashlib.sha256()


def emit(tag, value):
    line = f"{tag} :: {value}"
    H.update(line.encode())
    print(line)


def show(d):
    return [(repr(k), v.hex() if isinstance(v, float) else repr(v)) for k, v in d.items()]


def run(tag, G):
    for rep in range(2):
        try:
            before_nodes = list(G.nodes(data=True)) if hasattr(G, "nodes") else None
            out = F(G)
            emit(f"{tag}#{rep}", (type(out).__name__, show(out)))
            emit(f"{tag}#{rep} sum", sum(out.values()).hex() if out else "empty")
            after_nodes = list(G.nodes(data=True))
            emit(f"{tag}#{rep} unmutated", repr(before_nodes) == repr(after_nodes))
        except BaseException as e:  # noqa
            emit(f"{tag}#{rep} EXC", type(e).__name__)


def labelled(G, ntop, maxdeg, as_list=False):
    for n in G.nodes():
        jd = [random.randrange(maxdeg + 1) for _ in range(ntop)]
        G.nodes[n][JD] = jd if as_list else tuple(jd)
    return G


# empty graphs of every class
for cls in (nx.Graph, nx.DiGraph, nx.MultiGraph, nx.MultiDiGraph):
    run(f"empty-{cls.__name__}", cls())

# single vertex, isolated vertices only
g = nx.Graph()
g.add_node("a", **{})
g.nodes["a"][JD] = (0, 0)
run("single", g)
g = nx.empty_graph(7)
run("isolated-7", labelled(g, 2, 1))

# many random graphs over sizes / classes / numbers of topologies
case = 0
for n in (1, 2, 3, 5, 7, 10, 33, 49, 100, 257, 1000, 4099):
    for ntop in (1, 2, 3):
        for cls in (nx.Graph, nx.DiGraph, nx.MultiGraph, nx.MultiDiGraph):
            case += 1
            base = nx.gnm_random_graph(n, min(2 * n, n * (n - 1) // 2), seed=case)
            G = cls(base)
            labelled(G, ntop, 3, as_list=(case % 2 == 0))
            run(f"rand-{case}-{cls.__name__}-n{n}-t{ntop}", G)

# non-integer node labels, removal and re-insertion of nodes between calls
G = nx.Graph()
for pos, name in enumerate(("x", ("t", 1), 3.5, frozenset({1}), None.__class__, -1)):
    G.add_node(name)
    G.nodes[name][JD] = (1, 2) if pos % 2 else (2, 1)
run("odd-labels", G)
G.remove_node("x")
run("odd-labels-removed", G)
G.add_node("y")
G.nodes["y"][JD] = [9, 9]
run("odd-labels-added", G)
G.add_edge("y", "z")  # z has no joint_degree -> KeyError
run("missing-attribute", G)

# attribute keyed by the string rather than the enum -> KeyError
G = nx.path_graph(4)
for n in G:
    G.nodes[n]["joint_degree"] = (1, 1)
run("string-key", G)

# unhashable joint degree entries -> TypeError ; non-iterable -> TypeError
G = nx.path_graph(3)
for n in G:
    G.nodes[n][JD] = ([1], 2)
run("unhashable", G)
G = nx.path_graph(3)
for n in G:
    G.nodes[n][JD] = 5
run("non-iterable", G)

# views, frozen graphs, subgraphs
G = labelled(nx.gnm_random_graph(40, 80, seed=5), 2, 4)
run("frozen", nx.freeze(G.copy()))
run("subgraph-view", G.subgraph(range(0, 40, 3)))
run("subgraph-empty", G.subgraph([]))
run("reverse-view", nx.DiGraph(G).reverse(copy=False))
run("restricted-view", nx.restricted_view(G, [0, 1, 2], []))

# things that are not graphs
for tag, bad in (("none", None), ("dict", {}), ("list", [1, 2]), ("int", 3), ("class", nx.Graph)):
    run(f"bad-{tag}", bad)

# downstream: excess distributions of the empirical distribution
G = labelled(nx.gnm_random_graph(500, 900, seed=9), 2, 3)
P = F(G)
emit("downstream-avg", [x.hex() for x in AverageJointDegreeFromJDD.get_average_joint_degrees(P)])
emit("downstream-qks", [show(q) for q in JointExcessfromJDD.get_joint_excess_distributions(P)])

emit("random-state", hashlib.sha256(repr(random.getstate()).encode()).hexdigest())
emit("numpy-state", hashlib.sha256(repr(np.random.get_state()).encode()).hexdigest())
print("DIGEST", H.hexdigest())
