import sys, os; sys.path.insert(0, os.getcwd())
# Variant a: gcmpy/motif_generators/clique_motif.py : clique_motif
# Exercises clique_motif directly (many input kinds, malformed inputs) and
# through the pre-existing entry points that call it as a build function
# (GCMAlgorithmFast / GCMAlgorithmNetwork / GCMAlgorithmFactory), then MPCC.
import hashlib
import random

import numpy as np
import networkx as nx

random.seed(20261004)
np.random.seed(20261004)

import gcmpy
from gcmpy.motif_generators.clique_motif import clique_motif
from gcmpy.motif_generators import clique_motif as clique_motif_pkg
from gcmpy.covers.mpcc import MPCC
from gcmpy.names.gcm_algorithm_names import GCMAlgorithmNames
from gcmpy.names.joint_degree_names import JointDegreeNames
from gcmpy.gcm_algorithm.gcm_algorithm_fast import GCMAlgorithmFast
from gcmpy.gcm_algorithm.gcm_algorithm_network import GCMAlgorithmNetwork
from gcmpy.gcm_algorithm.gcm_algorithm_factory import GCMAlgorithmFactory
from gcmpy.gcm_algorithm.gcm_algorithm_types import GCMAlgorithmTypes
from gcmpy.joint_degree.joint_degree_loaders.joint_degree_manual import (
    JointDegreeManual,
)

OUT = []


def emit(*parts):
    OUT.append(" | ".join(str(p) for p in parts))


def describe(value):
    """Deterministic, type-revealing description of a returned value."""
    if isinstance(value, list):
        return "list[" + ", ".join(describe(v) for v in value) + "]"
    if isinstance(value, tuple):
        return "tuple(" + ", ".join(describe(v) for v in value) + ")"
    return f"{type(value).__name__}:{value!r}"


def rng_digest():
    h = hashlib.sha256()
    h.update(repr(random.getstate()).encode())
    st = np.random.get_state()
    h.update(repr((st[0], st[1].tolist(), st[2], st[3], st[4])).encode())
    return h.hexdigest()


def attempt(tag, thunk):
    try:
        res = thunk()
    except BaseException as exc:  # noqa: B902 - we want the exact type
        emit(tag, "EXC", type(exc).__name__, type(exc).__mro__[1].__name__)
    else:
        emit(tag, "OK", describe(res))


class Exploding:
    """Iterable that fails after three items."""

    def __iter__(self):
        yield 1
        yield 2
        yield 3
        raise RuntimeError("boom")


class Counting:
    """Iterable that records how often / how far it was consumed."""

    def __init__(self, items):
        self.items = items
        self.iters = 0
        self.pulled = 0

    def __iter__(self):
        self.iters += 1
        for x in self.items:
            self.pulled += 1
            yield x


def gen(n):
    for i in range(n):
        yield i * i


emit("identity", clique_motif is clique_motif_pkg, clique_motif is gcmpy.clique_motif)
emit("name", clique_motif.__name__, clique_motif.__module__)

# ---- direct calls, well-formed ---------------------------------------------
inputs = [
    ("empty_list", lambda: []),
    ("one", lambda: [7]),
    ("two", lambda: [7, 9]),
    ("three", lambda: [3, 1, 2]),
    ("dups", lambda: [1, 1, 2, 2]),
    ("tuple", lambda: (5, 4, 3, 2)),
    ("range", lambda: range(6)),
    ("str", lambda: "abcd"),
    ("bytes", lambda: b"xyz"),
    ("gen", lambda: gen(5)),
    ("iter", lambda: iter([9, 8, 7])),
    ("dict", lambda: {1: "a", 2: "b", 3: "c"}),
    ("nested", lambda: [[1, 2], (3,), "q"]),
    ("unhashable", lambda: [[1], [2], {3: 4}]),
    ("floats", lambda: [0.5, float("inf"), -0.0]),
    ("none_items", lambda: [None, None, None]),
    ("nparray", lambda: np.arange(4)),
    ("nparray2d", lambda: np.arange(6).reshape(3, 2).tolist()),
    ("big", lambda: list(range(40))),
]
for tag, mk in inputs:
    attempt("direct:" + tag, lambda mk=mk: clique_motif(mk()))

# element identity: the tuples must contain the very same vertex objects
objs = [object(), object(), object()]
res = clique_motif(objs)
emit(
    "element-identity",
    [(objs.index(u), objs.index(v)) for u, v in res],
    all(type(e) is tuple and len(e) == 2 for e in res),
    type(res).__name__,
)

# argument is not mutated, fresh list every call
arg = [4, 5, 6, 7]
r1 = clique_motif(arg)
r2 = clique_motif(arg)
emit("no-mutation", arg, r1 == r2, r1 is r2)
r1.append("x")
emit("fresh-list", clique_motif(arg))

# consumption of a one-shot iterable
c = Counting([1, 2, 3, 4])
attempt("counting", lambda: clique_motif(c))
emit("counting-stats", c.iters, c.pulled)
it = iter([1, 2, 3])
attempt("iter-first", lambda: clique_motif(it))
attempt("iter-second", lambda: clique_motif(it))

# ---- direct calls, malformed -----------------------------------------------
attempt("bad:none", lambda: clique_motif(None))
attempt("bad:int", lambda: clique_motif(5))
attempt("bad:float", lambda: clique_motif(2.5))
attempt("bad:exploding", lambda: clique_motif(Exploding()))
attempt("bad:noargs", lambda: clique_motif())
attempt("bad:twoargs", lambda: clique_motif([1, 2], [3]))
attempt("bad:kw", lambda: clique_motif(vertices=[1, 2, 3]))
attempt("bad:wrongkw", lambda: clique_motif(vs=[1, 2, 3]))
emit("rng-after-direct", rng_digest())

# ---- through the generators and into MPCC -----------------------------------
def label_digest(G):
    h = hashlib.sha256()
    for u, v in sorted(tuple(sorted(e)) for e in G.edges()):
        h.update(f"{u},{v}:{G.edges[u, v].get('clique')};".encode())
    return h.hexdigest()[:24]


def build_jds(n, jdd, sizes):
    p = {JointDegreeNames.JDD: dict(jdd), JointDegreeNames.MOTIF_SIZES: list(sizes)}
    return JointDegreeManual(p).sample_jds_from_jdd(n)


configs = [
    (60, {(1, 0): 0.2, (2, 1): 0.5, (3, 0): 0.1, (5, 1): 0.2}, [2, 3]),
    (45, {(0, 1): 0.5, (1, 1): 0.3, (2, 2): 0.2}, [2, 4]),
    (30, {(1, 1, 0): 0.4, (0, 1, 1): 0.4, (2, 0, 1): 0.2}, [2, 3, 5]),
    (5, {(1,): 1.0}, [3]),
    (1, {(2, 0): 1.0}, [2, 3]),
]
for idx, (n, jdd, sizes) in enumerate(configs):
    for rep in range(3):
        jds = build_jds(n, jdd, sizes)
        params = {
            GCMAlgorithmNames.MOTIF_SIZES: list(sizes),
            GCMAlgorithmNames.EDGE_NAMES: [f"{s}-clique" for s in sizes],
            GCMAlgorithmNames.BUILD_FUNCTIONS: [clique_motif] * len(sizes),
        }
        fast = GCMAlgorithmFast(params)
        for again in range(2):  # repeated calls on one object
            el = fast.random_clustered_graph(list(jds))
            emit(
                f"fast:{idx}:{rep}:{again}",
                hashlib.sha256(
                    repr((el.edge_list, el.topologies, el.motif_id)).encode()
                ).hexdigest()[:24],
                len(el.edge_list),
                {type(e).__name__ for e in el.edge_list} or "{}",
            )
        net = GCMAlgorithmFactory.resolve_algorithm(
            GCMAlgorithmTypes.NETWORK, params
        ).random_clustered_graph(list(jds))
        emit(f"net:{idx}:{rep}", net.G.number_of_nodes(), net.G.number_of_edges())
        net.G.remove_edges_from(list(nx.selfloop_edges(net.G)))
        for max_size in (0, 2, 3):
            G = MPCC(net.G, max_size)
            emit(f"mpcc:{idx}:{rep}:{max_size}", G is net.G, label_digest(G))
        emit(f"rng:{idx}:{rep}", rng_digest())

# malformed parameter dicts for the constructor that receives clique_motif
for tag, p in [
    ("empty", {}),
    ("no-build", {GCMAlgorithmNames.MOTIF_SIZES: [2], GCMAlgorithmNames.EDGE_NAMES: ["a"]}),
    ("none", None),
    ("strkeys", {"motif_sizes": [2], "build_functions": [clique_motif], "edge_names": ["a"]}),
]:
    attempt("ctor:" + tag, lambda p=p: type(GCMAlgorithmNetwork(p)).__name__)

# a build-function list that hands clique_motif something odd
params = {
    GCMAlgorithmNames.MOTIF_SIZES: [2, 3],
    GCMAlgorithmNames.EDGE_NAMES: ["e", "t"],
    GCMAlgorithmNames.BUILD_FUNCTIONS: [clique_motif],
}
attempt(
    "short-build-list",
    lambda: len(GCMAlgorithmFast(params).random_clustered_graph([(1, 1)] * 6).edge_list),
)
emit("rng-final", rng_digest())

print("\n".join(OUT))
print("DIGEST", hashlib.sha256("\n".join(OUT).encode()).hexdigest())
