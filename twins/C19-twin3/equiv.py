"""Equivalence digest for the C19 optimisation (degree-distribution factories).

Run with cwd = a checkout of gcmpy.  Prints a deterministic transcript: every
result as type + repr (bit-exact floats), every exception as type + message,
every warning as category + message, and finally the RNG states and a sha256 of
the whole transcript.
"""
import sys
import os

sys.path.insert(0, os.getcwd())

import hashlib
import random
import warnings
from decimal import Decimal
from fractions import Fraction

import numpy as np

random.seed(1919)
np.random.seed(1919)

from gcmpy.distributions.exponential import exponential
from gcmpy.distributions.poisson import poisson
from gcmpy.distributions.power_law import power_law
from gcmpy.distributions.scale_free_cut_off import scale_free_cut_off
import gcmpy  # the package-level re-exports must be the same objects

LINES = []


def emit(*parts):
    line = " ".join(str(x) for x in parts)
    LINES.append(line)
    print(line)


def show(v):
    if isinstance(v, np.ndarray):
        return "ndarray[%s,%s](%s)" % (
            v.dtype,
            v.shape,
            ",".join(show(x) for x in v.ravel().tolist()),
        ) + ("#obj" if v.dtype == object else "#" + hashlib.sha256(v.tobytes()).hexdigest()[:16])
    if isinstance(v, (np.floating, np.complexfloating)):
        return "%s:%r:%s" % (type(v).__name__, v.item(), v.tobytes().hex())
    if isinstance(v, float):
        return "float:%r:%s" % (v, v.hex())
    if callable(v) and hasattr(v, "__qualname__"):
        return "callable:%s" % v.__qualname__
    return "%s:%r" % (type(v).__name__, v)


def call(tag, f, *args):
    with warnings.catch_warnings(record=True) as w:
        warnings.simplefilter("always")
        try:
            r = f(*args)
            out = "OK " + show(r)
        except BaseException as e:  # noqa
            r = None
            out = "EXC %s: %s" % (type(e).__name__, e)
        ws = ";".join("%s:%s" % (x.category.__name__, x.message) for x in w)
    emit(tag, "|", out, "| warnings=[%s]" % ws)
    return r


class Noisy(float):
    """float subclass that logs every arithmetic use (evaluation-order probe)."""

    log = []

    def __neg__(self):
        Noisy.log.append("neg")
        return -float(self)

    def __rpow__(self, other):
        Noisy.log.append("rpow(%r)" % (other,))
        return float(other) ** float(self)

    def __pow__(self, other):
        Noisy.log.append("pow(%r)" % (other,))
        return float(self) ** other

    def __radd__(self, other):
        Noisy.log.append("radd(%r)" % (other,))
        return other + float(self)

    def __add__(self, other):
        Noisy.log.append("add(%r)" % (other,))
        return float(self) + other


KS = [
    0, 1, 2, 3, 5, 10, 17, 50, 170, 171, 1000, -1, -3,
    True, False,
    0.0, 1.0, 2.5, -0.5, 1e308, float("inf"), float("nan"),
    np.int64(4), np.int32(0), np.float64(3.0), np.float32(2.0), np.uint8(7),
    2 + 1j, Fraction(7, 2), Decimal("3"),
    "3", None, [1, 2],
    np.arange(0, 6), np.arange(1, 6), np.array([1.0, 2.5, 7.0]),
    np.array([[1, 2], [3, 4]]), np.array([], dtype=int),
]


def sweep(tag, p):
    for rep in range(2):  # repeated calls on the same object
        for k in KS:
            before = k.copy() if isinstance(k, np.ndarray) else None
            call("%s rep%d k=%s" % (tag, rep, show(k)), p, k)
            if before is not None:
                emit("   input-unchanged", bool(np.array_equal(before, k)), show(k))
    # support sums, accumulated left to right
    for lo, hi in ((0, 60), (1, 400)):
        tot = 0.0
        ok = True
        for k in range(lo, hi):
            try:
                with warnings.catch_warnings():
                    warnings.simplefilter("ignore")
                    tot = tot + p(k)
            except BaseException as e:  # noqa
                emit("%s sum[%d,%d) EXC at k=%d %s: %s" % (tag, lo, hi, k, type(e).__name__, e))
                ok = False
                break
        if ok:
            emit("%s sum[%d,%d)" % (tag, lo, hi), show(tot))


def factory(tag, f, *args):
    p = call("make " + tag, f, *args)
    if p is None:
        return None
    emit("   closure", type(p).__name__, p.__name__, p.__qualname__,
         p.__code__.co_freevars, p.__code__.co_argcount, sorted(p.__annotations__))
    return p


emit("reexports", gcmpy.exponential is exponential, gcmpy.poisson is poisson,
     gcmpy.power_law is power_law, gcmpy.scale_free_cut_off is scale_free_cut_off)

# ---------------------------------------------------------------- exponential
for a in [0.5, 1.0, 2.0, 1e-9, 0.0, -1.0, 50.0, 800.0, -800.0, 1, 3, True,
          np.float64(0.7), np.float32(0.7), float("inf"), float("nan"),
          Fraction(1, 3), 1 + 2j, "a", None, np.array([0.5, 1.5]), 10**400]:
    p = factory("exponential(%s)" % show(a), exponential, a)
    if p is not None:
        sweep("exponential(%s)" % show(a), p)

# -------------------------------------------------------------------- poisson
for m in [2.5, 1.0, 0.0, 0, 3, 10.0, 100.0, 800.0, -2.5, -800.0, 1e-12,
          np.float64(2.5), np.float32(2.5), np.int64(2), float("inf"), float("nan"),
          Fraction(5, 2), 1 + 2j, "m", None, np.array([1.0, 2.5]), 10**400]:
    p = factory("poisson(%s)" % show(m), poisson, m)
    if p is not None:
        sweep("poisson(%s)" % show(m), p)

# ------------------------------------------------------------------ power_law
for al in [2.5, 2.0, 2, 3, 1.5, 1.2, 3.7, 6.0, 25.0, 40, 1000.0,
           np.float64(2.5), np.float32(2.5), np.int64(3), Fraction(5, 2),
           2 + 1j, float("inf"), "x", None, np.array([2.0, 3.0]), True, Decimal("2.5")]:
    p = factory("power_law(%s)" % show(al), power_law, al)
    if p is not None:
        sweep("power_law(%s)" % show(al), p)

# --------------------------------------------------------- scale_free_cut_off
for al, ka in [(2.5, 10.0), (2.0, 5), (2, 100.0), (1.5, 3.0), (1.0, 20.0), (0.5, 4.0),
               (0.0, 2.0), (-1.0, 1.5), (3.0, 1e6), (2.5, 0.01), (2.5, 1e-4),
               (np.float64(2.2), np.float64(7.0)), (np.float32(2.2), np.float32(7.0)),
               (Fraction(5, 2), Fraction(9, 2)), (2 + 1j, 10.0), (2.5, 0), (2.5, 0.0),
               (2.5, float("inf")), ("x", 3.0),
               (2.5, "k"), (None, 3.0), (2.5, None), (3, np.array([4.0]))]:
    tag = "scale_free_cut_off(%s,%s)" % (show(al), show(ka))
    p = factory(tag, scale_free_cut_off, al, ka)
    if p is not None:
        sweep(tag, p)

# ------------------------------------------------- evaluation-order probes
for name, mk in (("exponential", lambda x: exponential(x)),
                 ("poisson", lambda x: poisson(x)),
                 ("power_law", lambda x: power_law(x)),
                 ("scale_free_cut_off.alpha", lambda x: scale_free_cut_off(x, 9.0))):
    Noisy.log = []
    p = call("noisy-make " + name, mk, Noisy(2.5))
    emit("   log", "/".join(Noisy.log)[:400], len(Noisy.log))
    if p is not None:
        for k in (1, 4, Noisy(3.0)):
            Noisy.log = []
            call("noisy-call %s k=%r" % (name, k), p, k)
            # note: the operand order seen by the user's objects is part of the contract
            emit("   log", "/".join(Noisy.log))

# huge integer degrees (only where the arithmetic terminates)
for big in (10**30, 10**400, -(10**400)):
    call("big exponential %d" % len(str(big)), exponential(0.5), big)
    call("big poisson %d" % len(str(big)), poisson(2.5), big)
    call("big power_law %d" % len(str(big)), power_law(2.5), big)
    call("big power_law int %d" % len(str(big)), power_law(3), big)
    call("big scale_free %d" % len(str(big)), scale_free_cut_off(2.5, 10.0), big)

# independence of separately built closures (no shared state between objects)
p1, p2 = power_law(2.5), power_law(3.5)
q1, q2 = scale_free_cut_off(2.5, 10.0), scale_free_cut_off(2.0, 4.0)
for k in (1, 2, 3):
    emit("interleave", k, show(p1(k)), show(p2(k)), show(q1(k)), show(q2(k)),
         show(p1(k)), show(q1(k)))

# use through the library: marginal joint-degree sampler consumes RNG draws
try:
    from gcmpy.joint_degree.joint_degree_loaders.joint_degree_marginal import JointDegreeMarginal
    from gcmpy.names.joint_degree_names import JointDegreeNames
    for fps in ([poisson(2.5)], [power_law(2.5)], [scale_free_cut_off(2.5, 10.0)],
                [exponential(0.8), poisson(1.5)]):
        for sampling in (False, True):
            params = {}
            params[JointDegreeNames.ARR_FP] = fps
            params[JointDegreeNames.MOTIF_SIZES] = [2] if len(fps) == 1 else [2, 3]
            params[JointDegreeNames.LOW_HIGH_DEGREE_BOUND] = [(1, 12)] * len(fps)
            params[JointDegreeNames.USE_SAMPLING] = sampling
            params[JointDegreeNames.N_SAMPLES] = 500
            with warnings.catch_warnings():
                warnings.simplefilter("ignore")
                try:
                    obj = JointDegreeMarginal(params)
                    jds = obj.sample_jds_from_jdd(300)
                    emit("marginal", len(fps), sampling,
                         hashlib.sha256(repr(list(obj._jdd.items())).encode()).hexdigest(),
                         hashlib.sha256(repr(jds).encode()).hexdigest())
                except BaseException as e:  # noqa
                    emit("marginal EXC", len(fps), sampling, type(e).__name__, e)
except BaseException as e:  # noqa
    emit("marginal-import EXC", type(e).__name__, e)

emit("rng.random", hashlib.sha256(repr(random.getstate()).encode()).hexdigest())
st = np.random.get_state()
emit("rng.numpy", st[0], hashlib.sha256(st[1].tobytes()).hexdigest(), st[2], st[3], repr(st[4]))
emit("next draws", repr(random.random()), repr(float(np.random.random())))
print("DIGEST", hashlib.sha256("\n".join(LINES).encode()).hexdigest())
