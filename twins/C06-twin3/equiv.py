"""Equivalence digest for the C06 optimisation (joint degree loaders).

Run with cwd = a checkout of gcmpy.  Prints a deterministic digest of every
result (bit exact floats through repr), of the RNG states afterwards and of
mutated inputs.
"""
import sys
import os
import hashlib
import math
import random
import traceback

sys.path.insert(0, os.getcwd())

import numpy as np  # noqa: E402

from gcmpy.joint_degree.joint_degree import JointDegree  # noqa: E402
from gcmpy.joint_degree.joint_degree_type import JointDegreeType  # noqa: E402
from gcmpy.joint_degree.joint_degree_factory import JointDegreeFactory  # noqa: E402
from gcmpy.joint_degree.joint_degree_distribution import (  # noqa: E402
    JointDegreeDistribution,
)
from gcmpy.joint_degree.joint_degree_loaders.joint_degree_manual import (  # noqa: E402
    JointDegreeManual,
)
from gcmpy.joint_degree.joint_degree_loaders.joint_degree_empirical import (  # noqa: E402
    JointDegreeEmpirical,
)
from gcmpy.joint_degree.joint_degree_loaders.joint_degree_marginal import (  # noqa: E402
    JointDegreeMarginal,
)
from gcmpy.joint_degree.joint_degree_loaders.joint_degree_function import (  # noqa: E402
    JointDegreeFunction,
)
from gcmpy.joint_degree.joint_degree_loaders.joint_degree_split_degree import (  # noqa: E402
    JointDegreeSplitDegree,
)
from gcmpy.joint_degree.joint_degree_loaders.joint_degree_delta import (  # noqa: E402
    JointDegreeDelta,
)
from gcmpy.names.joint_degree_names import JointDegreeNames as N  # noqa: E402


def h(obj) -> str:
    return hashlib.sha256(repr(obj).encode()).hexdigest()[:16]


def rng_state() -> str:
    return h(random.getstate()) + "/" + h(
        tuple(
            x.tolist() if isinstance(x, np.ndarray) else x
            for x in np.random.get_state()
        )
    )


def show(label, value, full=False):
    r = repr(value)
    if full or len(r) <= 300:
        print(f"{label}: {r}")
    else:
        print(f"{label}: len={len(r)} sha={h(value)} head={r[:120]}")


def typed(obj):
    """repr with the type of every leaf so that int/float/np scalars differ."""
    if isinstance(obj, dict):
        return [(typed(k), typed(v)) for k, v in obj.items()]
    if isinstance(obj, (list, tuple)):
        return (type(obj).__name__, [typed(x) for x in obj])
    return (type(obj).__name__, repr(obj))


def attempt(label, fn):
    try:
        out = fn()
        show(label, typed(out))
        return out
    except BaseException as e:  # noqa: BLE001
        tb = traceback.extract_tb(e.__traceback__)
        where = tb[-1].name
        print(f"{label}: RAISED {type(e).__name__}: {e} in {where}")
        return None
    finally:
        print(f"   rng {rng_state()}")


def seed(s):
    random.seed(s)
    np.random.seed(s)


def poisson(mean):
    def f(k):
        return math.exp(-mean) * mean**k / math.factorial(k)

    return f


def geometric(p):
    def f(k):
        return p * (1 - p) ** k

    return f


class Recorder:
    """Callable that logs the order of its calls."""

    def __init__(self, fn, log, tag):
        self.fn, self.log, self.tag = fn, log, tag

    def __call__(self, k):
        self.log.append((self.tag, k))
        return self.fn(k)


# --------------------------------------------------------------------------
print("=== manual loader")
seed(1)
jdd_in = {(1, 0): 0.25, (0, 1): 0.25, (2, 2): 0.5}
m = JointDegreeManual({N.JDD: jdd_in, N.MOTIF_SIZES: [2, 3]})
show("manual jdd", typed(m.jdd))
print("manual jdd is input", m.jdd is jdd_in, m.motif_sizes)
for n in (0, 1, 7, 50):
    attempt(f"manual sample N={n}", lambda n=n: m.sample_jds_from_jdd(n))
show("manual jdd after", typed(m.jdd))
show("manual input after", typed(jdd_in))
m2 = JointDegreeDistribution.load_joint_degree(
    {N.JOINT_DEGREE_TYPE: "manual", N.JDD: jdd_in, N.MOTIF_SIZES: [2, 3]}
)
print("dispatch manual", type(m2).__name__, m2.jdd is jdd_in, rng_state())

# integer and numpy weights, unnormalised
for tag, d in (
    ("int", {(1, 1): 1, (2, 0): 3, (0, 5): 2}),
    ("np", {(1, 1): np.float64(0.5), (2, 0): np.float32(0.25), (3, 3): 0.25}),
    ("zero", {(1, 1): 0.0, (2, 0): 0.0}),
    ("empty", {}),
    ("neg", {(1,): -1.0, (2,): 0.5}),
    ("bad", {(1,): "a", (2,): 0.5}),
    ("inf", {(1,): float("inf"), (2,): 0.5}),
):
    seed(2)
    mm = JointDegreeManual({N.JDD: d, N.MOTIF_SIZES: [2, 3]})
    attempt(f"manual[{tag}] sample", lambda: mm.sample_jds_from_jdd(11))
    show(f"manual[{tag}] jdd after", typed(mm.jdd))

# --------------------------------------------------------------------------
print("=== handshaking_lemma")
cases = [
    ("basic", [(1, 2), (3, 1), (0, 0), (2, 2)], [2, 3]),
    ("already", [(2, 3), (2, 3)], [2, 3]),
    ("lists", [[1, 2], [3, 1], [5, 5]], [4, 5]),
    ("one", [(1,)], [7]),
    ("empty", [], [2, 3]),
    ("short_sizes", [(1, 1, 1), (2, 2, 1)], [2, 2]),
    ("zero_size", [(1, 1)], [2, 0]),
    ("neg_size", [(1, 1), (1, 2)], [-3, 2]),
    ("float", [(1.5, 1), (2.25, 2)], [2, 2]),
    ("np", [(np.int64(1), np.int64(2)), (np.int64(2), np.int64(2))], [3, 3]),
    ("big", [(i % 5, (i * 7) % 4, i % 3) for i in range(101)], [3, 4, 5]),
    ("ragged", [(1, 2, 3), (1, 2)], [2, 2, 2]),
    ("none", [(1, None), (2, 3)], [3, 2]),
]
for tag, jds, sizes in cases:
    seed(3)
    obj = JointDegreeManual({N.JDD: {}, N.MOTIF_SIZES: sizes})
    jds_in = list(jds)
    elems = [x for x in jds_in]
    out = attempt(f"hl[{tag}]", lambda: obj.handshaking_lemma(jds_in))
    print("   same object", out is jds_in)
    show("   input after", typed(jds_in))
    show("   elems after", typed(elems))
    # repeat on the already-repaired sequence
    out = attempt(f"hl[{tag}] again", lambda: obj.handshaking_lemma(jds_in))
    show("   sizes after", typed(obj.motif_sizes))

# tuple as container: item assignment must fail at the same point
seed(4)
obj = JointDegreeManual({N.JDD: {}, N.MOTIF_SIZES: [2, 2]})
attempt("hl[tuple container]", lambda: obj.handshaking_lemma(((1, 1), (2, 2))))
attempt("hl[generator]", lambda: obj.handshaking_lemma(iter([(1, 1), (2, 2)])))
arr = np.array([[1, 2], [2, 2], [2, 1]])
attempt("hl[ndarray]", lambda: obj.handshaking_lemma(arr).tolist())
show("   ndarray after", arr.tolist())

# --------------------------------------------------------------------------
print("=== empirical loader")
emp_cases = [
    ("basic", [(1, 0), (1, 0), (2, 1), (0, 0), (2, 1), (2, 1), (3, 3)]),
    ("single", [(4, 4)]),
    ("empty", []),
    ("mixed", [(1, 0), (1.0, 0), (True, 0), (2, 2)]),
    ("thirds", [(i % 3,) for i in range(7)]),
    ("unhashable", [(1, 0), [2, 1]]),
]
for tag, jds in emp_cases:
    seed(5)
    jds_in = list(jds)
    e = attempt(
        f"emp[{tag}] ctor",
        lambda: JointDegreeEmpirical({N.JDS: jds_in, N.MOTIF_SIZES: [2, 3]}).jdd,
    )
    show("   input after", typed(jds_in))
    ed = attempt(
        f"emp[{tag}] dispatch",
        lambda: JointDegreeDistribution.load_joint_degree(
            {N.JOINT_DEGREE_TYPE: "empirical", N.JDS: jds_in, N.MOTIF_SIZES: [2, 3]}
        ).jdd,
    )
    ef = attempt(
        f"emp[{tag}] factory",
        lambda: JointDegreeFactory.resolve_joint_degree(
            JointDegreeType.EMPIRICAL, {N.JDS: jds_in, N.MOTIF_SIZES: [2, 3]}
        ).jdd,
    )

seed(6)
e = JointDegreeEmpirical({N.JDS: emp_cases[0][1], N.MOTIF_SIZES: [2, 3]})
first = e.jdd
e.create_jdd()
print("emp fresh dict on re-create", e.jdd is not first, typed(first) == typed(e.jdd))
attempt("emp sample", lambda: e.sample_jds_from_jdd(25))
attempt("emp sample again", lambda: e.sample_jds_from_jdd(25))
# convert_jds_to_jdd called directly, including failure leaving state behind
e.jdd = {"old": 1.0}
attempt("emp convert unhashable", lambda: e.convert_jds_to_jdd([(1, 1), [2]]))
show("   jdd after failed convert", typed(e.jdd))
e.jdd = {"old": 1.0}
attempt("emp convert generator", lambda: e.convert_jds_to_jdd(x for x in [(1, 1)]))
show("   jdd after failed convert", typed(e.jdd))
attempt("emp convert string", lambda: e.convert_jds_to_jdd("aabbbc"))
show("   jdd after", typed(e.jdd))
attempt("emp convert tuple", lambda: e.convert_jds_to_jdd(((1, 2), (1, 2), (0, 0))))
show("   jdd after", typed(e.jdd))
e.empirical_jds = [(9, 9), (9, 9), (1, 1)]
e.create_jdd()
show("emp after setter+create", typed(e.jdd))

# --------------------------------------------------------------------------
print("=== normalise_jdd")
norm_cases = [
    ("floats", {(0,): 0.1, (1,): 0.2, (2,): 0.3, (3,): 0.7, (4,): 1e-300}),
    ("ints", {(0,): 1, (1,): 2, (2,): 4}),
    ("np", {(0,): np.float64(0.1), (1,): np.float32(0.3), (2,): np.int64(2)}),
    ("empty", {}),
    ("zero", {(0,): 0.0, (1,): 0.0}),
    ("izero", {(0,): 0, (1,): 0}),
    ("nan", {(0,): float("nan"), (1,): 1.0}),
    ("inf", {(0,): float("inf"), (1,): 1.0}),
    ("neg", {(0,): -1.0, (1,): 3.0}),
    ("str", {(0,): 1.0, (1,): "x"}),
    ("one", {(0,): 3.3}),
]
for tag, d in norm_cases:
    seed(7)
    obj = JointDegreeManual({N.JDD: d, N.MOTIF_SIZES: [2]})
    attempt(f"norm[{tag}]", obj.normalise_jdd)
    show("   jdd after", typed(obj.jdd))
    print("   same dict", obj.jdd is d, list(d.keys()))
    attempt(f"norm[{tag}] again", obj.normalise_jdd)
    show("   jdd after 2", typed(obj.jdd))
# in-place semantics with mutable values
a0, a1 = np.array([1.0, 3.0]), np.array([2.0, 2.0])
d = {(0,): a0, (1,): a1}
obj = JointDegreeManual({N.JDD: d, N.MOTIF_SIZES: [2]})
attempt("norm[arrays]", obj.normalise_jdd)
print("   arrays", a0.tolist(), a1.tolist(), d[(0,)] is a0, d[(1,)] is a1)
obj = JointDegreeManual({N.JDD: None, N.MOTIF_SIZES: [2]})
attempt("norm[None]", obj.normalise_jdd)

# --------------------------------------------------------------------------
print("=== marginal loader (direct)")
marg_cases = [
    ("2d", [poisson(1.5), poisson(0.7)], [(0, 6), (0, 4)], [2, 3]),
    ("1d", [geometric(0.3)], [(1, 9)], [2]),
    ("3d", [poisson(2.0), geometric(0.5), poisson(0.2)], [(0, 4), (2, 5), (0, 3)], [2, 3, 4]),
    ("empty_range", [poisson(1.0), poisson(1.0)], [(0, 3), (2, 2)], [2, 3]),
    ("reversed", [poisson(1.0), poisson(1.0)], [(3, 0), (0, 2)], [2, 3]),
    ("no_bounds", [], [], []),
    ("np_bounds", [poisson(1.0), poisson(2.0)], [(np.int64(0), np.int64(3)), (np.int32(1), np.int32(3))], [2, 3]),
    ("list_bounds", [poisson(1.0), poisson(2.0)], [[0, 3], [1, 3]], [2, 3]),
    ("short_fp", [poisson(1.0)], [(0, 3), (0, 2)], [2, 3]),
    ("long_fp", [poisson(1.0), poisson(2.0), poisson(3.0)], [(0, 3), (0, 2)], [2, 3]),
    ("float_bounds", [poisson(1.0)], [(0.0, 3.0)], [2]),
    ("bad_bounds", [poisson(1.0)], [(0, 3, 4)], [2]),
    ("none_bounds", [poisson(1.0)], None, [2]),
    ("all_zero", [lambda k: 0.0, lambda k: 1.0], [(0, 3), (0, 2)], [2, 3]),
    ("int_fp", [lambda k: k + 1, lambda k: 2], [(0, 3), (0, 2)], [2, 3]),
    ("np_fp", [lambda k: np.float64(0.5) ** k, lambda k: np.float32(0.25)], [(0, 3), (0, 2)], [2, 3]),
    ("neg", [poisson(1.0), poisson(1.0)], [(-2, 2), (0, 2)], [2, 3]),
]
for tag, fps, bounds, sizes in marg_cases:
    seed(8)
    log = []
    rfps = [Recorder(f, log, i) for i, f in enumerate(fps)]
    params = {N.ARR_FP: rfps, N.LOW_HIGH_DEGREE_BOUND: bounds, N.MOTIF_SIZES: sizes}
    holder = {}

    def build():
        holder["o"] = JointDegreeMarginal(params)
        return holder["o"].jdd

    attempt(f"marg[{tag}] ctor", build)
    show("   call log", log)
    o = holder.get("o")
    if o is not None:
        attempt(f"marg[{tag}] gen", o.generate_all_joint_degrees)
        attempt(f"marg[{tag}] eval", lambda: [o.evaluate_prob_of_joint_degree(k) for k in list(o.jdd)[:5]])
        attempt(f"marg[{tag}] eval()", lambda: o.evaluate_prob_of_joint_degree(()))
        attempt(f"marg[{tag}] eval list", lambda: o.evaluate_prob_of_joint_degree([1]))
        attempt(f"marg[{tag}] eval long", lambda: o.evaluate_prob_of_joint_degree((1, 1, 1, 1)))
        first = o.jdd
        attempt(f"marg[{tag}] direct again", lambda: (o.create_jdd_directly(), o.jdd)[1])
        print("   fresh dict", o.jdd is not first)
        attempt(f"marg[{tag}] sample", lambda: o.sample_jds_from_jdd(13))
    del log[:]
    attempt(
        f"marg[{tag}] dispatch",
        lambda: JointDegreeDistribution.load_joint_degree(
            {**params, N.JOINT_DEGREE_TYPE: "marginal"}
        ).jdd,
    )
    show("   dispatch call log", h(log))
    show("   bounds after", typed(bounds) if bounds is not None else None)

# failure in the middle of direct evaluation: state left behind
seed(9)
calls = []


def flaky(k):
    calls.append(k)
    if len(calls) == 5:
        raise RuntimeError("boom")
    return 0.5


o = JointDegreeMarginal(
    {N.ARR_FP: [lambda k: 1.0, lambda k: 1.0], N.LOW_HIGH_DEGREE_BOUND: [(0, 3), (0, 3)], N.MOTIF_SIZES: [2, 3]}
)
o._arr_fp = [flaky, lambda k: 2.0]
attempt("marg[flaky] direct", o.create_jdd_directly)
show("   jdd after failure", typed(o.jdd))
show("   calls", calls)

# --------------------------------------------------------------------------
print("=== marginal loader (sampling)")
samp_cases = [
    ("2d", [poisson(1.5), poisson(0.7)], [(0, 6), (0, 4)], [2, 3], 200),
    ("1d", [geometric(0.3)], [(1, 9)], [2], 57),
    ("3d", [poisson(2.0), geometric(0.5), poisson(0.2)], [(0, 4), (2, 5), (0, 3)], [2, 3, 4], 101),
    ("n0", [poisson(1.5), poisson(0.7)], [(0, 6), (0, 4)], [2, 3], 0),
    ("n1", [poisson(1.5), poisson(0.7)], [(0, 6), (0, 4)], [2, 3], 1),
    ("single_k", [poisson(1.5), poisson(0.7)], [(2, 2), (0, 4)], [2, 3], 20),
    ("empty_range", [poisson(1.0), poisson(1.0)], [(0, 3), (2, 1)], [2, 3], 10),
    ("empty_range_short_fp", [poisson(1.0)], [(0, 3), (2, 1)], [2, 3], 10),
    ("no_bounds", [], [], [], 10),
    ("np_bounds", [poisson(1.0), poisson(2.0)], [(np.int64(0), np.int64(3)), (np.int32(1), np.int32(3))], [2, 3], 30),
    ("short_fp", [poisson(1.0)], [(0, 3), (0, 2)], [2, 3], 10),
    ("all_zero", [lambda k: 0.0, lambda k: 1.0], [(0, 3), (0, 2)], [2, 3], 10),
    ("none_bounds", [poisson(1.0)], None, [2], 10),
    ("bad_bounds", [poisson(1.0)], [(0, 3, 4)], [2], 10),
    ("neg_n", [poisson(1.0)], [(0, 3)], [2], -3),
    ("float_n", [poisson(1.0)], [(0, 3)], [2], 2.5),
    ("int_weights", [lambda k: k + 1, lambda k: 2], [(0, 3), (0, 2)], [2, 3], 40),
]
for tag, fps, bounds, sizes, ns in samp_cases:
    seed(10)
    log = []
    rfps = [Recorder(f, log, i) for i, f in enumerate(fps)]
    params = {
        N.ARR_FP: rfps,
        N.LOW_HIGH_DEGREE_BOUND: bounds,
        N.MOTIF_SIZES: sizes,
        N.USE_SAMPLING: True,
        N.N_SAMPLES: ns,
    }
    holder = {}

    def build():
        holder["o"] = JointDegreeMarginal(params)
        return holder["o"].jdd

    attempt(f"samp[{tag}] ctor", build)
    show("   call log", log)
    o = holder.get("o")
    if o is not None:
        attempt(f"samp[{tag}] draw", o.draw_from_analytical_joint)
        attempt(f"samp[{tag}] by_sampling", lambda: (o.create_jdd_by_sampling(), o.jdd)[1])
        attempt(f"samp[{tag}] create", lambda: (o.create_jdd(), o.jdd)[1])
        attempt(f"samp[{tag}] sample", lambda: o.sample_jds_from_jdd(9))
    attempt(
        f"samp[{tag}] dispatch",
        lambda: JointDegreeDistribution.load_joint_degree(
            {**params, N.JOINT_DEGREE_TYPE: "marginal"}
        ).jdd,
    )
    attempt(
        f"samp[{tag}] factory",
        lambda: JointDegreeFactory.resolve_joint_degree(JointDegreeType.MARGINAL, params).jdd,
    )

# default number of samples
seed(11)
o = JointDegreeMarginal(
    {
        N.ARR_FP: [poisson(1.5), poisson(0.7)],
        N.LOW_HIGH_DEGREE_BOUND: [(0, 6), (0, 4)],
        N.MOTIF_SIZES: [2, 3],
        N.USE_SAMPLING: True,
    }
)
show("samp default jdd", typed(o.jdd))
print("   rng", rng_state())
draw = o.draw_from_analytical_joint()
print("samp default draw", len(draw), h(typed(draw)), rng_state())

# --------------------------------------------------------------------------
print("=== function loader")


def joint(jd):
    return math.exp(-sum(jd)) / (1 + jd[0])


fn_cases = [
    ("2d", joint, [(0, 3), (0, 2)], [2, 3]),
    ("1d", joint, [(1, 5)], [2]),
    ("3d", joint, [(0, 2), (1, 2), (0, 1)], [2, 3, 4]),
    ("empty_range", joint, [(0, 3), (2, 1)], [2, 3]),
    ("no_bounds", lambda jd: 1.0, [], []),
    ("np_bounds", joint, [(np.int64(0), np.int64(2)), (np.int32(1), np.int32(2))], [2, 3]),
    ("float_bounds", joint, [(0.0, 2.0)], [2]),
    ("bad_bounds", joint, [(0, 3), (1,)], [2, 3]),
    ("default_like", joint, (0, 50), [2]),
    ("none_fp", None, [(0, 2)], [2]),
    ("int_values", lambda jd: sum(jd), [(0, 2), (0, 2)], [2, 3]),
]
for tag, fp, bounds, sizes in fn_cases:
    seed(12)
    log = []

    def rec(jd, fp=fp, log=log):
        log.append(jd)
        return fp(jd)

    params = {N.FP: rec if fp is not None else None, N.LOW_HIGH_DEGREE_BOUND: bounds, N.MOTIF_SIZES: sizes}
    holder = {}

    def build():
        holder["o"] = JointDegreeFunction(params)
        return holder["o"].jdd

    attempt(f"fn[{tag}] ctor", build)
    show("   call log", typed(log))
    o = holder.get("o")
    if o is not None:
        first = o.jdd
        attempt(f"fn[{tag}] create again", lambda: (o.create_jdd(), o.jdd)[1])
        print("   fresh dict", o.jdd is not first)
        attempt(f"fn[{tag}] sample", lambda: o.sample_jds_from_jdd(12))
    attempt(
        f"fn[{tag}] dispatch",
        lambda: JointDegreeDistribution.load_joint_degree(
            {**params, N.JOINT_DEGREE_TYPE: "function"}
        ).jdd,
    )
    show("   bounds after", typed(bounds))

# failure in the middle: partial state
seed(13)
calls = []


def flaky_joint(jd):
    calls.append(jd)
    if len(calls) == 4:
        raise RuntimeError("boom")
    return 0.25


o = JointDegreeFunction({N.FP: lambda jd: 1.0, N.LOW_HIGH_DEGREE_BOUND: [(0, 2), (0, 2)], N.MOTIF_SIZES: [2, 3]})
o._fp = flaky_joint
attempt("fn[flaky] create", o.create_jdd)
show("   jdd after failure", typed(o.jdd))
show("   calls", calls)

# fp that looks at the object while it is being filled
seen = []
o = JointDegreeFunction({N.FP: lambda jd: 1.0, N.LOW_HIGH_DEGREE_BOUND: [(0, 1), (0, 1)], N.MOTIF_SIZES: [2, 3]})
o._fp = lambda jd: (seen.append(len(o.jdd)), 0.5)[1]
o.create_jdd()
show("fn[introspect] sizes seen", seen)

# --------------------------------------------------------------------------
print("=== sibling loaders through the shared base (normalise / sample)")
seed(14)
sd = attempt(
    "split ctor",
    lambda: JointDegreeSplitDegree(
        {N.FP: poisson(2.0), N.PROBS: [0.5, 0.3, 0.2], N.MOTIF_SIZES: [2, 3, 4], N.LOW_HIGH_DEGREE_BOUND: (1, 8)}
    ).jdd,
)
seed(14)
o = JointDegreeSplitDegree(
    {N.FP: poisson(2.0), N.PROBS: [0.5, 0.3, 0.2], N.MOTIF_SIZES: [2, 3, 4], N.LOW_HIGH_DEGREE_BOUND: (1, 8)}
)
attempt("split sample", lambda: o.sample_jds_from_jdd(40))
attempt("split sample 2", lambda: o.sample_jds_from_jdd(40))
seed(15)
o = JointDegreeDelta(
    {
        N.TARGET_K: 4,
        N.FP: poisson(2.0),
        N.PROBS: [0.6, 0.4],
        N.MOTIF_SIZES: [2, 3],
        N.LOW_HIGH_DEGREE_BOUND: (1, 8),
    }
)
show("delta jdd", typed(o.jdd))
attempt("delta sample", lambda: o.sample_jds_from_jdd(40))

# --------------------------------------------------------------------------
print("=== dispatch")
for t in ("manual", "empirical", "function", "marginal", "nonsense", None):
    seed(16)
    params = {
        N.JOINT_DEGREE_TYPE: t,
        N.JDD: {(1, 1): 1.0},
        N.JDS: [(1, 1), (2, 2)],
        N.FP: lambda jd: 1.0,
        N.ARR_FP: [poisson(1.0), poisson(1.0)],
        N.LOW_HIGH_DEGREE_BOUND: [(0, 2), (0, 2)],
        N.MOTIF_SIZES: [2, 3],
    }
    attempt(
        f"dispatch[{t}]",
        lambda: (lambda o: (type(o).__name__, o.jdd, o.motif_sizes))(
            JointDegreeDistribution.load_joint_degree(params)
        ),
    )
attempt("dispatch[no key]", lambda: JointDegreeDistribution.load_joint_degree({}))
attempt("factory[undefined]", lambda: JointDegreeFactory.resolve_joint_degree(JointDegreeType.UNDEFINED, {}))
attempt("factory[str]", lambda: JointDegreeFactory.resolve_joint_degree("manual", {}))
attempt("manual[missing]", lambda: JointDegreeManual({}))
attempt("abstract", lambda: JointDegree())

# --------------------------------------------------------------------------
print("=== long run")
seed(17)
o = JointDegreeMarginal(
    {
        N.ARR_FP: [poisson(3.0), poisson(1.2), geometric(0.4)],
        N.LOW_HIGH_DEGREE_BOUND: [(0, 12), (0, 8), (0, 6)],
        N.MOTIF_SIZES: [2, 3, 4],
    }
)
print("direct big", len(o.jdd), h(typed(o.jdd)), repr(sum(o.jdd.values())))
for n in (1000, 1001, 5000):
    s = o.sample_jds_from_jdd(n)
    print("sample", n, h(typed(s)), rng_state())
o._use_sampling = True
o._n_samples = 20000
o.create_jdd()
print("sampled big", len(o.jdd), h(typed(o.jdd)), rng_state())
s = o.sample_jds_from_jdd(3000)
print("sample", h(typed(s)), rng_state())
print("final rng", rng_state())
