import sys, os; sys.path.insert(0, os.getcwd())
# Exercises MarkovChainMonteCarloRewiring.rewire() (the entry point that builds a
# DrawSet from the network's edges and keeps it in step with the graph) on several
# small seeded networks, plus constructor edge cases, and prints a digest.
import hashlib
import logging
import random

import networkx as nx
import numpy as np

from gcmpy.joint_degree.joint_degree_loaders.joint_degree_manual import JointDegreeManual
from gcmpy.motif_generators.clique_motif import clique_motif
from gcmpy.gcm_algorithm.gcm_algorithm_network import GCMAlgorithmNetwork
from gcmpy.names.gcm_algorithm_names import GCMAlgorithmNames
from gcmpy.names.joint_degree_names import JointDegreeNames
from gcmpy.names.tools_names import ToolsNames
from gcmpy.names.network_names import NetworkNames
from gcmpy.network.network import Network
from gcmpy.tools.joint_excess_joint_degree_matrices import JointExcessJointDegreeMatrices
from gcmpy.tools.markov_chain_monte_carlo_rewiring import (
    MarkovChainMonteCarloRewiring,
    ErrorMarkovChainMonteCarloRewiring,
)
from gcmpy.tools.markov_chain_monte_carlo import MarkovChainMonteCarlo
from gcmpy.tools.joint_excess_from_ejk import JointExcessFromEjk
from gcmpy.tools.joint_degree_from_excess import JointDegreeFromExcess
from gcmpy.tools.draw_set import DrawSet
import gcmpy.tools.markov_chain_monte_carlo_rewiring as mod

H = hashlib.sha256()


def out(*xs):
    s = " ".join(repr(x) for x in xs)
    H.update(s.encode() + b"\n")
    print(s if len(s) < 300 else s[:300] + "... sha=" + hashlib.sha256(s.encode()).hexdigest()[:16])


def rng_states():
    return (
        hashlib.sha256(repr(random.getstate()).encode()).hexdigest()[:20],
        hashlib.sha256(repr(np.random.get_state()).encode()).hexdigest()[:20],
    )


def graph_digest(G):
    return (
        type(G).__name__,
        G.number_of_nodes(),
        G.number_of_edges(),
        hashlib.sha256(repr(list(G.edges(data=True))).encode()).hexdigest()[:20],
        hashlib.sha256(repr(list(G.nodes(data=True))).encode()).hexdigest()[:20],
    )


def attempt(label, f):
    try:
        r = f()
        out(label, "ok", type(r).__name__)
        return r
    except BaseException as ex:  # noqa
        out(label, "raise", type(ex).__name__, " ".join(str(ex).split()))
        return None


out("module-uses", mod.DrawSet is DrawSet, sorted(n for n in vars(mod) if not n.startswith("__")))
out("rewire-code", MarkovChainMonteCarloRewiring.rewire.__code__.co_argcount,
    MarkovChainMonteCarloRewiring.rewire.__code__.co_names)

edge_names = ["2-clique", "3-clique"]
motif_sizes = [2, 3]
e1 = e2 = e3 = 1e-8
ejk_tree = {
    (0, 3, 0, 3): 9 / 81 - e1 - e2, (0, 3, 4, 1): e1, (0, 3, 2, 2): e2,
    (4, 1, 0, 3): e1, (4, 1, 4, 1): 45 / 81 - e1 - e3, (4, 1, 2, 2): e3,
    (2, 2, 0, 3): e2, (2, 2, 4, 1): e3, (2, 2, 2, 2): 27 / 81 - e2 - e3,
}
ejk_tri = {
    (3, 1, 3, 1): 48 / 144 - e1 - e2, (3, 1, 1, 2): e1, (3, 1, 5, 0): e2,
    (1, 2, 3, 1): e1, (1, 2, 1, 2): 72 / 144 - e1 - e3, (1, 2, 5, 0): e3,
    (5, 0, 3, 1): e2, (5, 0, 1, 2): e3, (5, 0, 5, 0): 24 / 144 - e2 - e3,
}
# a softer target so that many swaps are accepted
ejk_tree_soft = {k: 1.0 / 9 for k in ejk_tree}
ejk_tri_soft = {k: 1.0 / 9 for k in ejk_tri}


def target(tree, tri):
    return JointExcessJointDegreeMatrices(
        {ToolsNames.EDGE_NAMES: edge_names, ToolsNames.EJKS: {"2-clique": tree, "3-clique": tri}}
    )


def build(n, seed):
    random.seed(seed)
    np.random.seed(seed)
    t = target(ejk_tree, ejk_tri)
    qks = JointExcessFromEjk.get_excess_joint_distributions(t)
    jdd = JointDegreeFromExcess.get_joint_degree_distribution(qks, edge_names)
    jds = JointDegreeManual(
        {JointDegreeNames.JDD: jdd, JointDegreeNames.MOTIF_SIZES: motif_sizes}
    ).sample_jds_from_jdd(n)
    g = GCMAlgorithmNetwork(
        {
            GCMAlgorithmNames.MOTIF_SIZES: motif_sizes,
            GCMAlgorithmNames.EDGE_NAMES: edge_names,
            GCMAlgorithmNames.BUILD_FUNCTIONS: [clique_motif, clique_motif],
        }
    ).random_clustered_graph(jds)
    return g


for n, seed, conv, search, soft in [
    (300, 1, 40, 20, False),
    (300, 2, 150, 20, True),
    (600, 3, 300, 25, True),
    (150, 4, 0, 5, True),
    (400, 5, 120, 3, True),
    (500, 6, None, None, True),
]:
    g = build(n, seed)
    before = graph_digest(g.G)
    out("built", n, seed, before, rng_states())
    t = target(ejk_tree_soft, ejk_tri_soft) if soft else target(ejk_tree, ejk_tri)
    params = {ToolsNames.NETWORK: g, ToolsNames.EJKS: t}
    if conv is not None:
        params[ToolsNames.CONVERGENCE_LIMIT] = conv
    if search is not None:
        params[ToolsNames.SEARCH_LIMIT] = search
    MarkovChainMonteCarlo._proposal_count = 0
    MarkovChainMonteCarlo._proposals_accepted = 0
    mcmc = attempt("ctor", lambda: MarkovChainMonteCarloRewiring(params))
    out("limits", mcmc.convergence_limit, mcmc.search_limit, mcmc.network is g)
    random.seed(100 + seed)
    np.random.seed(100 + seed)
    for rep in range(2):  # repeated calls on one object
        G = attempt("rewire-%d" % rep, mcmc.rewire)
        out("result", n, seed, rep, None if G is None else graph_digest(G))
        out("input-untouched", graph_digest(g.G) == before, G is not g.G)
        if G is not None:
            out("degrees-kept", sorted(d for _, d in G.degree()) == sorted(d for _, d in g.G.degree()),
                nx.number_of_selfloops(G))
        out("counters", mcmc._proposal_count, mcmc._proposals_accepted,
            MarkovChainMonteCarlo._proposal_count, MarkovChainMonteCarlo._proposals_accepted,
            mcmc._acceptance_ratio, len(mcmc._proposal_edges),
            [(p.topology, p.motif_id, p.new_edge) for p in mcmc._proposal_edges])
        out("attrs", sorted(vars(mcmc).keys()))
        out("rng", rng_states())

# --- degenerate / malformed inputs through the same entry points
attempt("ctor-empty", lambda: MarkovChainMonteCarloRewiring({}))
attempt("ctor-none", lambda: MarkovChainMonteCarloRewiring(None))
attempt("ctor-no-ejks", lambda: MarkovChainMonteCarloRewiring({ToolsNames.NETWORK: build(50, 9)}))
attempt("ctor-bad-network", lambda: MarkovChainMonteCarloRewiring({ToolsNames.NETWORK: 3, ToolsNames.EJKS: None}))

empty = Network()
empty.G = nx.Graph()
m = attempt("ctor-empty-graph", lambda: MarkovChainMonteCarloRewiring(
    {ToolsNames.NETWORK: empty, ToolsNames.EJKS: target(ejk_tree_soft, ejk_tri_soft)}))
random.seed(7)
attempt("rewire-empty-graph", m.rewire)  # draw from an empty DrawSet
out("rng", rng_states())

single = Network()
single.G = nx.Graph()
single.G.add_edge(0, 1)
single.G.edges[0, 1][NetworkNames.TOPOLOGY] = "2-clique"
single.G.edges[0, 1][NetworkNames.MOTIF_IDS] = 0
for u in (0, 1):
    single.G.nodes[u][NetworkNames.JOINT_DEGREE] = (1, 0)
m = attempt("ctor-single", lambda: MarkovChainMonteCarloRewiring(
    {ToolsNames.NETWORK: single, ToolsNames.EJKS: target(ejk_tree_soft, ejk_tri_soft),
     ToolsNames.CONVERGENCE_LIMIT: 0, ToolsNames.SEARCH_LIMIT: 2}))
# would loop forever (no partner edge) - only check that construction is unchanged
out("single-limits", m.convergence_limit, m.search_limit)

noattr = Network()
noattr.G = nx.path_graph(6)  # edges without topology / motif data
m = attempt("ctor-noattr", lambda: MarkovChainMonteCarloRewiring(
    {ToolsNames.NETWORK: noattr, ToolsNames.EJKS: target(ejk_tree_soft, ejk_tri_soft),
     ToolsNames.CONVERGENCE_LIMIT: 3}))
random.seed(8)
attempt("rewire-noattr", m.rewire)
out("rng", rng_states())

mixed = Network()
mixed.G = nx.Graph()
mixed.G.add_edge("a", 1)  # unorderable endpoints: sorted() raises while filling the set
m = attempt("ctor-mixed", lambda: MarkovChainMonteCarloRewiring(
    {ToolsNames.NETWORK: mixed, ToolsNames.EJKS: None, ToolsNames.CONVERGENCE_LIMIT: 3}))
random.seed(9)
attempt("rewire-mixed", m.rewire)
out("rng", rng_states())

multi = Network()
multi.G = nx.MultiGraph([(1, 0), (1, 0), (2, 1)])
m = attempt("ctor-multi", lambda: MarkovChainMonteCarloRewiring(
    {ToolsNames.NETWORK: multi, ToolsNames.EJKS: None, ToolsNames.CONVERGENCE_LIMIT: 3}))
random.seed(10)
attempt("rewire-multi", m.rewire)
out("rng", rng_states())

out("final-next", random.random(), float(np.random.random()))
print("digest", H.hexdigest())
