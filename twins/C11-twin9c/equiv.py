import sys, os; sys.path.insert(0, os.getcwd())
import random, hashlib, logging, itertools, warnings
warnings.simplefilter("ignore")
import numpy as np
import networkx as nx
from gcmpy.joint_degree.joint_degree_loaders.joint_degree_manual import JointDegreeManual
from gcmpy.motif_generators.clique_motif import clique_motif
from gcmpy.gcm_algorithm.gcm_algorithm_network import GCMAlgorithmNetwork
from gcmpy.names.gcm_algorithm_names import GCMAlgorithmNames
from gcmpy.names.joint_degree_names import JointDegreeNames
from gcmpy.names.tools_names import ToolsNames
from gcmpy.names.network_names import NetworkNames
from gcmpy.network.network import Network
from gcmpy.tools.joint_excess_joint_degree_matrices import JointExcessJointDegreeMatrices
from gcmpy.tools.markov_chain_monte_carlo import MarkovChainMonteCarlo
from gcmpy.tools.markov_chain_monte_carlo_rewiring import (
    MarkovChainMonteCarloRewiring,
    ErrorMarkovChainMonteCarloRewiring,
)
from gcmpy.tools.joint_excess_from_ejk import JointExcessFromEjk
from gcmpy.tools.joint_degree_from_excess import JointDegreeFromExcess
from gcmpy.tools.draw_set import DrawSet

EDGE_NAMES = ["2-clique", "3-clique"]
TOP = NetworkNames.TOPOLOGY
MID = NetworkNames.MOTIF_IDS
JD = NetworkNames.JOINT_DEGREE


def h(obj):
    return hashlib.sha256(repr(obj).encode()).hexdigest()[:16]


def rng():
    return h(random.getstate()) + "/" + h(np.random.get_state())


def seed(s):
    random.seed(s)
    np.random.seed(s)


def gdigest(G):
    return h(
        (
            list(G.nodes(data=True)),
            [(u, list(nb.items())) for u, nb in G.adjacency()],
            list(G.graph.items()),
        )
    )


def target(e):
    t = {(0, 3, 0, 3): 9 / 81 - 2 * e, (0, 3, 4, 1): e, (0, 3, 2, 2): e,
         (4, 1, 0, 3): e, (4, 1, 4, 1): 45 / 81 - 2 * e, (4, 1, 2, 2): e,
         (2, 2, 0, 3): e, (2, 2, 4, 1): e, (2, 2, 2, 2): 27 / 81 - 2 * e}
    r = {(3, 1, 3, 1): 48 / 144 - 2 * e, (3, 1, 1, 2): e, (3, 1, 5, 0): e,
         (1, 2, 3, 1): e, (1, 2, 1, 2): 72 / 144 - 2 * e, (1, 2, 5, 0): e,
         (5, 0, 3, 1): e, (5, 0, 1, 2): e, (5, 0, 5, 0): 24 / 144 - 2 * e}
    return JointExcessJointDegreeMatrices(
        {ToolsNames.EDGE_NAMES: EDGE_NAMES,
         ToolsNames.EJKS: {"2-clique": t, "3-clique": r}}
    )


def build(s, n, e=0.02):
    seed(s)
    ejk = target(e)
    qks = JointExcessFromEjk.get_excess_joint_distributions(ejk)
    jdd = JointDegreeFromExcess.get_joint_degree_distribution(qks, EDGE_NAMES)
    jds = JointDegreeManual(
        {JointDegreeNames.JDD: jdd, JointDegreeNames.MOTIF_SIZES: [2, 3]}
    ).sample_jds_from_jdd(n)
    g = GCMAlgorithmNetwork(
        {GCMAlgorithmNames.MOTIF_SIZES: [2, 3],
         GCMAlgorithmNames.EDGE_NAMES: EDGE_NAMES,
         GCMAlgorithmNames.BUILD_FUNCTIONS: [clique_motif, clique_motif]}
    ).random_clustered_graph(jds)
    return g, ejk


class Capture(logging.Handler):
    def __init__(self):
        super().__init__(level=0)
        self.msgs = []

    def emit(self, record):
        self.msgs.append((record.levelname, record.getMessage()))


def mcmc_state(m):
    return (
        m.convergence_limit,
        m.search_limit,
        [repr(x) for x in m._acceptance_ratio],
        m._proposal_count,
        m._proposals_accepted,
        MarkovChainMonteCarlo._proposal_count,
        MarkovChainMonteCarlo._proposals_accepted,
        [(p.topology, p.motif_id, p.new_edge) for p in m._proposal_edges],
    )


def run_rewire(tag, g, ejk, extra, s, capture=True):
    params = {ToolsNames.NETWORK: g, ToolsNames.EJKS: ejk}
    params.update(extra)
    before = gdigest(g.G) if hasattr(g, "G") and isinstance(g.G, nx.Graph) else None
    seed(s)
    try:
        m = MarkovChainMonteCarloRewiring(params)
    except Exception as ex:
        print(tag, "ctor-exc", type(ex).__name__, h(str(ex)), rng())
        return None, None
    cap = Capture()
    if capture:
        m._logger.addHandler(cap)
    try:
        G = m.rewire()
        out = ("ok", gdigest(G), G.number_of_edges(), G is g.G)
    except Exception as ex:
        G = None
        out = ("exc", type(ex).__name__, h(str(ex)))
    after = gdigest(g.G) if before is not None else None
    print(tag, out, "input-unchanged", before == after, h(mcmc_state(m)),
          len(cap.msgs), h(cap.msgs), rng())
    return m, G


def hand_graph():
    # triangles and single edges sharing vertices; joint degree (edges, triangles)
    G = nx.Graph()
    tri = [(0, 1, 2), (2, 3, 4), (5, 6, 7), (8, 9, 10), (10, 11, 0), (12, 13, 14)]
    single = [(0, 5), (1, 6), (3, 8), (4, 12), (7, 13), (9, 14), (11, 2), (15, 16),
              (15, 0), (16, 5)]
    mid = 0
    for t in tri:
        for a, b in itertools.combinations(t, 2):
            G.add_edge(a, b)
            G.edges[a, b][TOP] = "3-clique"
            G.edges[a, b][MID] = mid
        mid += 1
    for a, b in single:
        G.add_edge(a, b)
        G.edges[a, b][TOP] = "2-clique"
        G.edges[a, b][MID] = mid
        mid += 1
    for u in G.nodes():
        k2 = sum(1 for _, _, d in G.edges(u, data=True) if d[TOP] == "2-clique")
        k3 = sum(1 for _, _, d in G.edges(u, data=True) if d[TOP] == "3-clique") // 2
        G.nodes[u][JD] = (k2, k3)
    return G


def flat_ejks(G):
    # every key that can occur for the hand graph gets a (deterministic) weight
    jds = sorted({G.nodes[u][JD] for u in G.nodes()})
    ej = {}
    for i, name in enumerate(EDGE_NAMES):
        d = {}
        for a in jds:
            for b in jds:
                ka = list(a); ka[i] -= 1
                kb = list(b); kb[i] -= 1
                key = tuple(ka) + tuple(kb)
                d[key] = 0.05 + ((sum(key) * 7 + len(d)) % 11) / 13.0
        ej[name] = d
    return JointExcessJointDegreeMatrices(
        {ToolsNames.EDGE_NAMES: EDGE_NAMES, ToolsNames.EJKS: ej}
    )


def rewire_scenarios(scale=1):
    CL, SL = ToolsNames.CONVERGENCE_LIMIT, ToolsNames.SEARCH_LIMIT
    for s, n in [(1, 60), (2, 150), (3, 400)]:
        g, ejk = build(s, n)
        print("net", s, n, g.G.number_of_nodes(), g.G.number_of_edges(), gdigest(g.G))
        for extra in [{CL: 0}, {CL: -1}, {CL: 1}, {CL: 49}, {CL: 150 * scale, SL: 20},
                      {CL: 300 * scale, SL: 5}, {CL: 120, SL: 1}, {CL: 77.5, SL: 7.5}]:
            run_rewire(f"rw[{s},{n},{[(k.value, v) for k, v in extra.items()]}]", g, ejk, extra, s + 100)
        # one object, repeated calls; then feed the result back in
        m, G = run_rewire(f"rw-rep0[{s}]", g, ejk, {CL: 100, SL: 25}, s + 7)
        for k in range(3):
            seed(s * 31 + k)
            G2 = m.rewire()
            print("rw-rep", k, gdigest(G2), h(mcmc_state(m)), rng())
        g2 = Network()
        g2.G = G
        run_rewire(f"rw-chain[{s}]", g2, ejk, {CL: 100}, s + 9)
    # optional limits left to their defaults (small nets, flat-ish target)
    for s, n in [(4, 12), (5, 20), (6, 30)]:
        g, ejk = build(s, n, e=0.05)
        print("net-default", s, n, g.G.number_of_edges(), gdigest(g.G))
        run_rewire(f"rw-default[{s}]", g, ejk, {}, s)
        run_rewire(f"rw-default-sl[{s}]", g, ejk, {SL: 10}, s)
    # hand-made graph where motifs share vertices
    HG = hand_graph()
    hn = Network()
    hn.G = HG
    fe = flat_ejks(HG)
    for s in range(6):
        run_rewire(f"rw-hand[{s}]", hn, fe, {CL: 40 + 10 * s, SL: 30}, s)
    run_rewire("rw-hand-default", hn, fe, {}, 11)
    # invalid inputs
    g, ejk = build(9, 40)
    run_rewire("bad-noparams-network", g, ejk, {ToolsNames.NETWORK: None}, 1)
    for bad in [{}, {ToolsNames.NETWORK: g}, {ToolsNames.EJKS: ejk}, [], None]:
        try:
            MarkovChainMonteCarloRewiring(bad)
            print("ctor", "ok")
        except Exception as ex:
            print("ctor", type(ex).__name__, h(str(ex)))
    bare = Network()
    bare.add_edges_from([(0, 1), (1, 2), (2, 0), (3, 4)])
    run_rewire("bad-unannotated", bare, ejk, {CL: 5}, 2)
    empty = Network()
    run_rewire("bad-empty", empty, ejk, {CL: 5}, 3)
    run_rewire("bad-empty-neg", empty, ejk, {CL: -1}, 3)
    half = Network()
    half.G = hand_graph()
    for u in half.G.nodes():
        del half.G.nodes[u][JD]
    run_rewire("bad-no-jd", half, fe, {CL: 5}, 4)
    run_rewire("bad-ejks-none", hn, None, {CL: 5}, 5)
    wrong = JointExcessJointDegreeMatrices(
        {ToolsNames.EDGE_NAMES: ["x", "y"], ToolsNames.EJKS: {"x": {}, "y": {}}})
    run_rewire("bad-ejks-names", hn, wrong, {CL: 5}, 6)
    zero = flat_ejks(HG)
    for name in zero.ejks:
        ks = sorted(zero.ejks[name])
        for i, k in enumerate(ks):
            if i % 2 == 0:
                zero.ejks[name][k] = 0.0
    run_rewire("bad-ejks-zeros", hn, zero, {CL: 30, SL: 30}, 7)


if __name__ == "__main__":
    rewire_scenarios(scale=2)
    # more seeds on the mid-size network, with and without explicit limits
    g, ejk = build(21, 250)
    for s in range(12):
        run_rewire(f"rw-more[{s}]", g, ejk,
                   {ToolsNames.CONVERGENCE_LIMIT: 60 + 13 * s,
                    ToolsNames.SEARCH_LIMIT: 3 + s}, 1000 + s)
    print("final-rng", rng())
