"""
Equivalence digest for property C07 (split-degree and delta joint degree loaders).

Run with cwd = a checkout of gcmpy. Prints a deterministic transcript of results
(bit-exact floats via repr), exceptions, the RNG state and mutated inputs, followed
by a sha256 of the transcript. The whole scenario set is run twice: once with the
default logging configuration and once with DEBUG logging enabled on a handler that
formats and discards every record (so that the debug paths are exercised too).
"""
import copy
import hashlib
import itertools
import logging
import os
import random
import sys
import warnings
from fractions import Fraction

sys.path.insert(0, os.getcwd())

try:
    import numpy as np
except Exception:  # pragma: no cover
    np = None

from gcmpy.joint_degree.joint_degree_loaders.joint_degree_split_degree import (
    JointDegreeSplitDegree,
)
from gcmpy.joint_degree.joint_degree_loaders.joint_degree_delta import JointDegreeDelta
from gcmpy.joint_degree.joint_degree_distribution import JointDegreeDistribution
from gcmpy.joint_degree.joint_degree_type import JointDegreeType
from gcmpy.names.joint_degree_names import JointDegreeNames as N
from gcmpy.distributions.power_law import power_law
from gcmpy.distributions.poisson import poisson

LINES = []


def out(*parts):
    line = " ".join(str(p) for p in parts)
    LINES.append(line)
    print(line)


def rng_digest():
    h = hashlib.sha256(repr(random.getstate()).encode()).hexdigest()[:16]
    if np is not None:
        h += "/" + hashlib.sha256(repr(np.random.get_state()).encode()).hexdigest()[:16]
    return h


def seed(s):
    random.seed(s)
    if np is not None:
        np.random.seed(s)


def fmt(x):
    """bit-exact, type-revealing representation"""
    if isinstance(x, dict):
        return "{" + ", ".join(f"{fmt(k)}: {fmt(v)}" for k, v in x.items()) + "}"
    if isinstance(x, tuple):
        return "(" + ", ".join(fmt(v) for v in x) + ",)"
    if isinstance(x, list):
        return "[" + ", ".join(fmt(v) for v in x) + "]"
    if callable(x) and not isinstance(x, type):
        return "<callable %s>" % getattr(x, "__name__", type(x).__name__)
    return f"{type(x).__name__}:{x!r}"


def exc_fmt(e):
    ctx = e.__context__
    cause = e.__cause__
    return "EXC %s(%s) ctx=%s cause=%s" % (
        type(e).__name__,
        str(e),
        None if ctx is None else "%s(%s)" % (type(ctx).__name__, str(ctx)),
        None if cause is None else type(cause).__name__,
    )


def attempt(label, fn):
    try:
        res = fn()
        out(label, "->", fmt(res))
        return res
    except BaseException as e:  # noqa
        if isinstance(e, (KeyboardInterrupt, SystemExit)):
            raise
        out(label, "->", exc_fmt(e))
        return None


def jdd_digest(d):
    if not isinstance(d, dict):
        return fmt(d)
    s = fmt(d)
    return "n=%d sha=%s head=%s" % (
        len(d),
        hashlib.sha256(s.encode()).hexdigest()[:24],
        fmt(dict(itertools.islice(d.items(), 6))),
    )


class RecordingFp:
    """degree function with an observable call history"""

    def __init__(self, fn, fail_at=None):
        self.fn = fn
        self.calls = []
        self.fail_at = fail_at

    def __call__(self, k):
        self.calls.append(k)
        if self.fail_at is not None and k == self.fail_at:
            raise ValueError("fp failed at %r" % (k,))
        return self.fn(k)


def make_params(kind, **over):
    p = {}
    p[N.MOTIF_SIZES] = [2, 3]
    p[N.PROBS] = [0.8, 0.2]
    p[N.FP] = power_law(2.5)
    p[N.LOW_HIGH_DEGREE_BOUND] = (1, 12)
    if kind == "delta":
        p[N.TARGET_K] = 3
    for k, v in over.items():
        if v is DROP:
            del p[getattr(N, k)]
        else:
            p[getattr(N, k)] = v
    return p


DROP = object()


def describe_obj(o):
    keys = ["_fp", "_probs", "_motif_sizes", "_low_high_degree_bound", "_target_k", "_type"]
    parts = []
    for k in keys:
        if k in ("_fp",):
            parts.append("%s=%s" % (k, "set" if getattr(o, k, None) is not None else "unset"))
        else:
            parts.append("%s=%s" % (k, fmt(getattr(o, k, "<missing>"))))
    return " ".join(parts)


def construct(label, cls, params):
    snapshot = {}
    if isinstance(params, dict):
        snapshot = {k: (copy.deepcopy(v) if not callable(v) else v) for k, v in params.items()}
    seed(1234)
    before = rng_digest()
    obj = None
    try:
        obj = cls(params)
        out(label, "jdd", jdd_digest(obj.jdd))
        tot = sum(obj.jdd.values()) if obj.jdd else 0
        out(label, "sum", fmt(tot))
        out(label, "attrs", describe_obj(obj))
    except BaseException as e:  # noqa
        if isinstance(e, (KeyboardInterrupt, SystemExit)):
            raise
        out(label, "->", exc_fmt(e))
    out(label, "rng-unchanged", before == rng_digest())
    if isinstance(params, dict):
        same = set(params) == set(snapshot) and all(
            (params[k] is snapshot[k]) if callable(snapshot[k]) else (fmt(params[k]) == fmt(snapshot[k]))
            for k in snapshot
        )
        out(label, "params-unchanged", same, fmt({k.name: v for k, v in params.items()}))
    fp = params.get(N.FP) if isinstance(params, dict) else None
    if isinstance(fp, RecordingFp):
        out(label, "fp-calls", fmt(fp.calls))
    return obj


def scenario_constructors():
    for kind, cls in (("split", JointDegreeSplitDegree), ("delta", JointDegreeDelta)):
        L = "ctor[%s]" % kind
        construct(L + " default", cls, make_params(kind))
        construct(L + " three-top", cls, make_params(kind, MOTIF_SIZES=[2, 3, 4], PROBS=[0.6, 0.3, 0.1]))
        construct(L + " one-top", cls, make_params(kind, MOTIF_SIZES=[2], PROBS=[1.0]))
        construct(L + " one-top-p<1", cls, make_params(kind, MOTIF_SIZES=[2], PROBS=[0.3]))
        construct(L + " poisson from 0", cls, make_params(kind, FP=poisson(2.5), LOW_HIGH_DEGREE_BOUND=(0, 15)))
        construct(L + " list bound", cls, make_params(kind, LOW_HIGH_DEGREE_BOUND=[2, 9]))
        construct(L + " long bound", cls, make_params(kind, LOW_HIGH_DEGREE_BOUND=(2, 9, 77)))
        construct(L + " short bound", cls, make_params(kind, LOW_HIGH_DEGREE_BOUND=(2,)))
        construct(L + " empty range", cls, make_params(kind, LOW_HIGH_DEGREE_BOUND=(5, 5)))
        construct(L + " reversed range", cls, make_params(kind, LOW_HIGH_DEGREE_BOUND=(9, 2)))
        construct(L + " negative range", cls, make_params(kind, FP=lambda k: 1.0 + abs(k), LOW_HIGH_DEGREE_BOUND=(-3, 4)))
        construct(L + " None bound", cls, make_params(kind, LOW_HIGH_DEGREE_BOUND=None))
        construct(L + " float bound", cls, make_params(kind, LOW_HIGH_DEGREE_BOUND=(1.0, 5.0)))
        construct(L + " zero probs", cls, make_params(kind, PROBS=[0.0, 0.0]))
        construct(L + " zero first prob", cls, make_params(kind, PROBS=[0.0, 1.0]))
        construct(L + " int probs", cls, make_params(kind, PROBS=[1, 1]))
        construct(L + " fraction probs", cls, make_params(kind, PROBS=[Fraction(3, 4), Fraction(1, 4)], FP=lambda k: Fraction(1, k + 1)))
        construct(L + " empty probs", cls, make_params(kind, PROBS=[]))
        construct(L + " empty motif sizes", cls, make_params(kind, MOTIF_SIZES=[]))
        construct(L + " probs longer", cls, make_params(kind, PROBS=[0.5, 0.3, 0.2]))
        construct(L + " probs shorter", cls, make_params(kind, MOTIF_SIZES=[2, 3, 4], PROBS=[0.5, 0.5]))
        construct(L + " None probs", cls, make_params(kind, PROBS=None))
        construct(L + " str probs", cls, make_params(kind, PROBS=["a", "b"]))
        construct(L + " None motif sizes", cls, make_params(kind, MOTIF_SIZES=None))
        construct(L + " fp None", cls, make_params(kind, FP=None))
        construct(L + " fp returns None", cls, make_params(kind, FP=lambda k: None))
        construct(L + " fp returns zero", cls, make_params(kind, FP=lambda k: 0.0))
        construct(L + " fp returns nan", cls, make_params(kind, FP=lambda k: float("nan")))
        construct(L + " fp recording", cls, make_params(kind, FP=RecordingFp(power_law(3.0))))
        construct(L + " fp failing at 3", cls, make_params(kind, FP=RecordingFp(power_law(3.0), fail_at=3)))
        construct(L + " fp failing at 5", cls, make_params(kind, FP=RecordingFp(power_law(3.0), fail_at=5)))
        for name in ("FP", "PROBS", "MOTIF_SIZES", "LOW_HIGH_DEGREE_BOUND"):
            construct(L + " missing " + name, cls, make_params(kind, **{name: DROP}))
        construct(L + " not a dict", cls, None)
        construct(L + " empty dict", cls, {})
        if np is not None:
            construct(L + " numpy probs", cls, make_params(kind, PROBS=np.array([0.7, 0.3]), MOTIF_SIZES=np.array([2, 3])))
            construct(L + " numpy zero probs", cls, make_params(kind, PROBS=np.array([0.0, 0.0])))
        construct(L + " kmax 60", cls, make_params(kind, LOW_HIGH_DEGREE_BOUND=(1, 60), MOTIF_SIZES=[2, 3, 4], PROBS=[0.5, 0.3, 0.2]))

    # delta specific
    L = "ctor[delta]"
    for t in (1, 11, 12, 0, -1, 6, None, 3.0, "3", True):
        construct(L + " target %r" % (t,), JointDegreeDelta, make_params("delta", TARGET_K=t))
    construct(L + " missing TARGET_K", JointDegreeDelta, make_params("delta", TARGET_K=DROP))
    construct(L + " target with empty motif sizes", JointDegreeDelta, make_params("delta", MOTIF_SIZES=[], LOW_HIGH_DEGREE_BOUND=(3, 4)))
    construct(L + " target 3 three motif sizes two probs", JointDegreeDelta, make_params("delta", MOTIF_SIZES=[2, 3, 4]))
    construct(L + " target 3 one motif size two probs", JointDegreeDelta, make_params("delta", MOTIF_SIZES=[2]))
    construct(L + " recording target 4", JointDegreeDelta, make_params("delta", TARGET_K=4, FP=RecordingFp(poisson(3.0)), LOW_HIGH_DEGREE_BOUND=(0, 9)))
    construct(L + " failing at target", JointDegreeDelta, make_params("delta", TARGET_K=4, FP=RecordingFp(poisson(3.0), fail_at=4), LOW_HIGH_DEGREE_BOUND=(0, 9)))
    construct(L + " zero probs target", JointDegreeDelta, make_params("delta", TARGET_K=4, PROBS=[0.0, 0.0]))
    # split loader ignores a target
    construct("ctor[split] with TARGET_K", JointDegreeSplitDegree, make_params("delta"))


def scenario_factory():
    for jt in (JointDegreeType.SPLIT_DEGREE, JointDegreeType.DELTA):
        p = make_params("delta", LOW_HIGH_DEGREE_BOUND=(1, 40))
        p[N.JOINT_DEGREE_TYPE] = jt
        seed(99)
        obj = attempt("factory %s type" % jt, lambda: type(JointDegreeDistribution.load_joint_degree(p)).__name__)
        o = JointDegreeDistribution.load_joint_degree(p)
        out("factory", jt, "jdd", jdd_digest(o.jdd))
        out("factory", jt, "_type", fmt(o._type), fmt(type(o).__mro__[1].__name__))
        seed(7)
        jds = o.sample_jds_from_jdd(500)
        out("factory", jt, "sample", hashlib.sha256(fmt(jds).encode()).hexdigest()[:24], fmt(jds[:8]))
        out("factory", jt, "rng", rng_digest())
        jds2 = o.sample_jds_from_jdd(37)
        out("factory", jt, "sample2", hashlib.sha256(fmt(jds2).encode()).hexdigest()[:24], fmt(jds2[:8]))
        out("factory", jt, "rng", rng_digest())
        out("factory", jt, "jdd after sampling", jdd_digest(o.jdd))


def gen_list(obj, rd, top, limit=None):
    g = obj.get_valid_joint_degrees(rd, top)
    if limit is None:
        return list(g)
    res = list(itertools.islice(g, limit))
    g.close()
    return res


def scenario_methods():
    for kind, cls in (("split", JointDegreeSplitDegree), ("delta", JointDegreeDelta)):
        L = "meth[%s]" % kind
        seed(5)
        params = make_params(kind, MOTIF_SIZES=[2, 3, 4], PROBS=[0.6, 0.3, 0.1], LOW_HIGH_DEGREE_BOUND=(1, 8))
        obj = cls(params)
        jdd0 = dict(obj.jdd)
        out(L, "initial", jdd_digest(obj.jdd))

        # get_valid_joint_degrees
        attempt(L + " gen is generator", lambda: type(obj.get_valid_joint_degrees(3, 2)).__name__)
        for rd, top in [
            (0, 1), (5, 1), (-2, 1), (0, 2), (1, 2), (5, 2), (6, 3), (7, 3), (12, 4), (10, 5),
            (-1, 2), (-5, 3), (3, 0), (0, 0), (True, 2), (4, True), (5, 2.0), (5.0, 2), (5.5, 1),
            ("ab", 1), ("ab", 2), (None, 1), (None, 2), (4, None), (6, Fraction(2)), (4, -1), (-4, -1),
        ]:
            attempt(L + " gen(%r,%r)" % (rd, top), lambda: gen_list(obj, rd, top))
        attempt(L + " gen(0,-1) deep recursion", lambda: gen_list(obj, 0, -1))
        attempt(L + " gen partial (20,3)[:5]", lambda: gen_list(obj, 20, 3, 5))
        attempt(L + " gen partial (20,4)[:1]", lambda: gen_list(obj, 20, 4, 1))
        attempt(L + " gen count (40,4)", lambda: len(gen_list(obj, 40, 4)))
        attempt(L + " gen rows fresh", lambda: len({id(r) for r in gen_list(obj, 9, 3)}) == len(gen_list(obj, 9, 3)))
        if np is not None:
            attempt(L + " gen(np.int64(6), np.int64(3))", lambda: gen_list(obj, np.int64(6), np.int64(3)))
        out(L, "jdd untouched by gen", dict(obj.jdd) == jdd0, "rng", rng_digest())

        # calc_prob_of_joint_degree
        for jd in [
            (), (0,), (3,), (1, 1), (0, 0, 0), (2, 1, 1), [2, 1, 1], (7, 0, 0), (0, 0, 3), (1, 2, 3, 4),
            (-1, 0, 0), (-2, -1, -1), (1.5, 0, 0), (None,), ("a",), (True, False, True), (Fraction(1, 2), 1, 0),
            (10 ** 3, 10 ** 3, 10 ** 3), (10 ** 6, 0, 0),
        ]:
            attempt(L + " calc(%r)" % (jd,), lambda: obj.calc_prob_of_joint_degree(jd))
        attempt(L + " calc(None)", lambda: obj.calc_prob_of_joint_degree(None))
        attempt(L + " calc(generator)", lambda: obj.calc_prob_of_joint_degree(x for x in (1, 2, 0)))
        saved_probs = obj._probs
        for probs in ([0.0, 0.0, 0.0], [1, 2, 3], [Fraction(1, 2)] * 3, [-0.5, 0.5, 0.5], ["a", "b", "c"], [None] * 3, [0.0, 0.5, 0.5]):
            obj._probs = probs
            for jd in [(0, 0, 0), (2, 1, 0), (1, 1, 1), (-1, 0, 0)]:
                attempt(L + " calc probs=%r jd=%r" % (probs, jd), lambda: obj.calc_prob_of_joint_degree(jd))
        obj._probs = saved_probs
        out(L, "jdd untouched by calc", dict(obj.jdd) == jdd0, "rng", rng_digest())

        # resolve_degree, repeated on the same object
        for k, pk in [
            (3, 0.25), (3, 0.5), (0, 0.125), (9, 1.0), (12, 3), (-2, 0.5), (5, 0.0), (5, float("nan")),
            (5, float("inf")), (4, Fraction(1, 3)), (4, None), (4, "x"), (None, 0.5), ("a", 0.5), (2.0, 0.5), (True, 0.5),
        ]:
            attempt(L + " resolve(%r,%r)" % (k, pk), lambda: obj.resolve_degree(k, pk))
            out(L, "  jdd", jdd_digest(obj.jdd))
        attempt(L + " resolve missing arg", lambda: obj.resolve_degree(3))
        attempt(L + " resolve kw", lambda: obj.resolve_degree(k=6, prob_overall_k=0.75))
        out(L, "  jdd", jdd_digest(obj.jdd))
        out(L, "  jdd full", fmt(obj.jdd))

        # resolve with odd probs on the same object
        for probs in ([0.0, 0.0, 0.0], [0.0, 1.0, 0.0], [1, 1, 1], [0.5], [0.5, 0.5], [], ["a", "b", "c"], None):
            obj._probs = probs
            for k in (0, 1, 6):
                attempt(L + " resolve probs=%r k=%r" % (probs, k), lambda: obj.resolve_degree(k, 0.5))
                out(L, "  jdd", jdd_digest(obj.jdd))
        obj._probs = saved_probs

        # normalise + create_jdd again on the same object (repeated calls)
        attempt(L + " normalise", lambda: obj.normalise_jdd())
        out(L, "  jdd", jdd_digest(obj.jdd))
        for rep in range(3):
            attempt(L + " create_jdd again #%d" % rep, lambda: obj.create_jdd())
            out(L, "  jdd", jdd_digest(obj.jdd), "equal-initial", obj.jdd == jdd0)
        old = obj.jdd
        obj.create_jdd()
        out(L, "create_jdd rebinds jdd", old is not obj.jdd, old == obj.jdd)

        # object history: change configuration and rebuild
        obj._low_high_degree_bound = (0, 5)
        attempt(L + " rebuilt (0,5)", lambda: obj.create_jdd())
        out(L, "  jdd full", fmt(obj.jdd))
        obj._probs = [0.9, 0.1]
        attempt(L + " rebuilt probs 2 vs motif sizes 3", lambda: obj.create_jdd())
        out(L, "  jdd full", fmt(obj.jdd))
        obj.motif_sizes = [2, 3]
        attempt(L + " rebuilt motif sizes 2", lambda: obj.create_jdd())
        out(L, "  jdd full", fmt(obj.jdd))
        obj._fp = RecordingFp(lambda k: 2.0 ** -k)
        if kind == "delta":
            for t in (0, 2, 4, 5, 99):
                obj._target_k = t
                attempt(L + " rebuilt target %r" % t, lambda: obj.create_jdd())
                out(L, "  jdd full", fmt(obj.jdd))
        else:
            attempt(L + " rebuilt recording", lambda: obj.create_jdd())
            out(L, "  jdd full", fmt(obj.jdd))
        out(L, "fp calls", fmt(obj._fp.calls))

        # failing rebuild leaves a partially filled, unnormalised jdd behind
        obj._fp = RecordingFp(lambda k: 2.0 ** -k, fail_at=3)
        attempt(L + " failing rebuild", lambda: obj.create_jdd())
        out(L, "  jdd full", fmt(obj.jdd), "calls", fmt(obj._fp.calls))
        obj._probs = [0.0, 0.0]
        obj._fp = RecordingFp(lambda k: 2.0 ** -k)
        attempt(L + " zero-probs rebuild", lambda: obj.create_jdd())
        out(L, "  jdd full", fmt(obj.jdd), "calls", fmt(obj._fp.calls))

        # externally assigned jdd is replaced
        obj._probs = [0.5, 0.5]
        obj.jdd = {(1, 1): 0.25, (9, 9): 0.75}
        attempt(L + " rebuild over assigned jdd", lambda: obj.create_jdd())
        out(L, "  jdd full", fmt(obj.jdd))

        # sampling after all that
        seed(42)
        jds = attempt(L + " sample", lambda: obj.sample_jds_from_jdd(25))
        out(L, "rng", rng_digest())

        # bare object without attributes
        bare = object.__new__(cls)
        attempt(L + " bare create_jdd", lambda: bare.create_jdd())
        attempt(L + " bare resolve", lambda: bare.resolve_degree(2, 0.5))
        attempt(L + " bare calc", lambda: bare.calc_prob_of_joint_degree((1,)))
        attempt(L + " bare calc empty", lambda: bare.calc_prob_of_joint_degree(()))
        attempt(L + " bare gen", lambda: gen_list(bare, 4, 2))
        attempt(L + " bare jdd", lambda: bare.__dict__)

        # subclass overriding hooks: call order through create_jdd
        trace = []

        class Traced(cls):
            def resolve_degree(self, k, prob_overall_k):
                trace.append(("resolve", k, repr(prob_overall_k)))
                return super().resolve_degree(k, prob_overall_k)

            def calc_prob_of_joint_degree(self, jd):
                trace.append(("calc", tuple(jd)))
                return super().calc_prob_of_joint_degree(jd)

            def normalise_jdd(self):
                trace.append(("normalise", len(self._jdd)))
                return super().normalise_jdd()

        t = Traced(make_params(kind, LOW_HIGH_DEGREE_BOUND=(2, 6), FP=RecordingFp(poisson(2.0))))
        out(L, "traced", fmt(trace))
        out(L, "traced jdd", fmt(t.jdd), "calls", fmt(t._fp.calls))


def scenario_properties():
    """the user facing law itself, on a few configurations"""
    for probs, sizes, bound in (([0.8, 0.2], [2, 3], (1, 30)), ([0.5, 0.3, 0.2], [2, 3, 4], (0, 25)), ([1.0], [2], (1, 10))):
        fp = poisson(4.0)
        p = {N.MOTIF_SIZES: sizes, N.PROBS: probs, N.FP: fp, N.LOW_HIGH_DEGREE_BOUND: bound}
        o = JointDegreeSplitDegree(p)
        per_k = {}
        for jd, m in o.jdd.items():
            k = sum((i + 1) * n for i, n in enumerate(jd))
            per_k[k] = per_k.get(k, 0.0) + m
        out("law split", fmt(probs), fmt(per_k))
        for tk in (bound[0], 7, bound[1] - 1, bound[1]):
            p2 = dict(p)
            p2[N.TARGET_K] = tk
            d = JointDegreeDelta(p2)
            per_k = {}
            for jd, m in d.jdd.items():
                k = sum((i + 1) * n for i, n in enumerate(jd))
                per_k[k] = per_k.get(k, 0.0) + m
            out("law delta", fmt(probs), tk, fmt(per_k), "n", len(d.jdd))


class FormattingNullHandler(logging.Handler):
    """formats every record (to exercise the arguments) and throws it away"""

    def emit(self, record):
        record.getMessage()


def run_all(tag):
    out("=" * 20, tag, "=" * 20)
    seed(2024)
    out("rng start", rng_digest())
    scenario_constructors()
    out("rng after constructors", rng_digest())
    scenario_factory()
    out("rng after factory", rng_digest())
    scenario_methods()
    out("rng after methods", rng_digest())
    scenario_properties()
    out("rng end", rng_digest())


def _record_warning(message, category, filename, lineno, file=None, line=None):
    # line numbers deliberately left out: they move when comments are added
    out("WARNING-EMITTED", category.__name__, str(message), os.path.basename(filename))


def main():
    sys.setrecursionlimit(1000)
    warnings.simplefilter("always")
    warnings.showwarning = _record_warning
    run_all("default logging")

    root_pkg_logger = logging.getLogger("gcmpy")
    handler = FormattingNullHandler()
    old_level = root_pkg_logger.level
    root_pkg_logger.addHandler(handler)
    root_pkg_logger.setLevel(logging.DEBUG)
    root_pkg_logger.propagate = False
    try:
        run_all("debug logging enabled, records formatted and discarded")
    finally:
        root_pkg_logger.removeHandler(handler)
        root_pkg_logger.setLevel(old_level)
        root_pkg_logger.propagate = True

    digest = hashlib.sha256("\n".join(LINES).encode()).hexdigest()
    print("TRANSCRIPT-SHA256", digest, "lines", len(LINES))


if __name__ == "__main__":
    main()
