"""Behavioural digest of gcmpy.network.* (run with cwd = a checkout of gcmpy)."""
import copy
import hashlib
import os
import random
import sys

sys.path.insert(0, os.getcwd())

import networkx as nx
import numpy as np

from gcmpy.network.edge_list import LightWeightEdgeList
from gcmpy.network.edge_list_to_network import EdgeListToNetwork
from gcmpy.network.network_to_edge_list import NetworkToEdgeList
from gcmpy.network.network import Network
from gcmpy.names.network_names import NetworkNames
from gcmpy.names.joint_degree_names import JointDegreeNames
from gcmpy.names.gcm_algorithm_names import GCMAlgorithmNames
from gcmpy.joint_degree.joint_degree_loaders.joint_degree_manual import (
    JointDegreeManual,
)
from gcmpy.gcm_algorithm.gcm_algorithm_network import GCMAlgorithmNetwork
from gcmpy.gcm_algorithm.gcm_algorithm_fast import GCMAlgorithmFast
from gcmpy.motif_generators.clique_motif import clique_motif
from gcmpy.covers.eecc import EECC


def digest(obj) -> str:
    return hashlib.sha256(repr(obj).encode()).hexdigest()[:16]


def rng_state() -> str:
    return digest((random.getstate(), np.random.get_state()[1].tolist(),
                   np.random.get_state()[2:]))


def seed(s: int) -> None:
    random.seed(s)
    np.random.seed(s)


def describe_graph(G) -> tuple:
    return (
        type(G).__name__,
        list(G.nodes(data=True)),
        list(G.edges(data=True)),
        dict(G.graph),
        [(n, list(G.adj[n])) for n in G.nodes()],
    )


def describe_edge_list(el) -> tuple:
    return (
        type(el).__name__,
        sorted(vars(el).items()),
        el.edge_list,
        el.joint_degrees,
        el.topologies,
        el.motif_id,
    )


def attempt(label, fn, big=False):
    try:
        res = fn()
        out = ("ok", res)
    except BaseException as exc:  # noqa
        out = ("raised", type(exc).__name__, str(exc))
    if big:
        print(label, out[0], digest(out), "rng", rng_state())
    else:
        print(label, out, "rng", rng_state())


def make_edge_list(jds, edges, tops, mids):
    el = LightWeightEdgeList()
    el.joint_degrees = jds
    el.edge_list = edges
    el.topologies = tops
    el.motif_id = mids
    return el


# ---------------------------------------------------------------- edge list
def edge_list_class():
    el = LightWeightEdgeList()
    out = [describe_edge_list(el), list(vars(el))]
    a, b, c, d = [(0, 1)], ["t"], [(1,)], [7]
    el.edge_list = a
    el.topologies = b
    el.joint_degrees = c
    el.motif_id = d
    out.append((el.edge_list is a, el.topologies is b, el.joint_degrees is c,
                el.motif_id is d, el._edge_list is a, el._motif_id is d))
    el.edge_list.append((1, 2))
    out.append(describe_edge_list(el))
    el.edge_list = None
    el.motif_id = "abc"
    out.append(describe_edge_list(el))
    other = LightWeightEdgeList()
    out.append(describe_edge_list(other))
    out.append(other.edge_list is not LightWeightEdgeList().edge_list)
    for name in ("edge_list", "topologies", "joint_degrees", "motif_id"):
        prop = getattr(LightWeightEdgeList, name)
        out.append((name, type(prop).__name__, prop.fget is not None,
                    prop.fset is not None, prop.fdel is None))
        try:
            delattr(el, name)
            out.append("deleted")
        except Exception as exc:
            out.append((type(exc).__name__,))
    del el._topologies
    try:
        el.topologies
    except Exception as exc:
        out.append((type(exc).__name__, str(exc)))
    return out


seed(1)
attempt("LightWeightEdgeList", edge_list_class)


# ------------------------------------------------------- edge list -> network
CASES = {
    "empty": ([], [], [], []),
    "isolated_only": ([(0, 0), (0, 0), (0, 0)], [], [], []),
    "simple": (
        [(1, 0), (2, 1), (1, 1), (0, 0), (0, 1)],
        [(0, 1), (1, 2), (1, 4), (2, 4)],
        ["2-clique", "3-clique", "3-clique", "3-clique"],
        [0, 1, 1, 1],
    ),
    "duplicate_same_orientation": (
        [(2, 0), (2, 0), (0, 0)],
        [(0, 1), (0, 1)],
        ["a", "b"],
        [0, 1],
    ),
    "duplicate_reversed": (
        [(2, 0), (2, 0), (1, 0), (1, 0)],
        [(0, 1), (2, 3), (1, 0), (3, 2), (0, 1)],
        ["a", "b", "c", "d", "e"],
        [0, 1, 2, 3, 4],
    ),
    "self_loop": ([(2, 0), (1, 0), (1, 0)], [(0, 0), (1, 2)], ["a", "b"], [5, 6]),
    "vertex_beyond_jds": ([(1,), (1,)], [(0, 1), (1, 5)], ["a", "b"], [0, 1]),
    "short_topologies": ([(1,), (1,), (1,)], [(0, 1), (1, 2), (0, 2)], ["a"], [0, 1, 2]),
    "short_motif_ids": ([(1,), (1,), (1,)], [(0, 1), (1, 2), (0, 2)], ["a", "b", "c"], [9]),
    "short_edges": ([(1,), (1,), (1,)], [(0, 1)], ["a", "b", "c"], [9, 8, 7]),
    "list_edges": ([(1,), (1,)], [[0, 1]], ["a"], [0]),
    "edge_3_tuple": ([(1,), (1,)], [(0, 1, {"w": 3})], ["a"], [0]),
    "edge_1_tuple": ([(1,), (1,)], [(0,)], ["a"], [0]),
    "none_edge": ([(1,), (1,)], [None], ["a"], [0]),
    "jds_tuple_container": (((1,), (1,)), ((0, 1),), ("a",), (3,)),
    "jds_none": (None, [(0, 1)], ["a"], [0]),
    "edges_none": ([(1,), (1,)], None, ["a"], [0]),
    "tops_none": ([(1,), (1,)], [(0, 1)], None, [0]),
    "mids_none": ([(1,), (1,)], [(0, 1)], ["a"], None),
    "weird_values": ([None, "x", 3.5], [(0, 2)], [None], [(1, 2)]),
}


def run_forward(args):
    el = make_edge_list(*copy.deepcopy(args))
    before = copy.deepcopy(describe_edge_list(el))
    try:
        net = EdgeListToNetwork.convert(el)
        res = ("ok", type(net).__name__, describe_graph(net.G))
    except BaseException as exc:  # noqa
        res = ("raised", type(exc).__name__, str(exc))
    return res, describe_edge_list(el) == before, describe_edge_list(el)


for name, args in CASES.items():
    seed(2)
    attempt("E2N " + name, lambda: run_forward(args))


def generator_inputs():
    el = LightWeightEdgeList()
    el.joint_degrees = [(1,), (1,), (0,)]
    el.edge_list = iter([(0, 1)])
    el.topologies = iter(["a"])
    el.motif_id = iter([4])
    net = EdgeListToNetwork.convert(el)
    return describe_graph(net.G), list(el.edge_list), list(el.topologies), list(el.motif_id)


seed(2)
attempt("E2N generator_inputs", generator_inputs)


# ------------------------------------------------------- network -> edge list
def annotated(G, jd=True, top=True, mid=True):
    net = Network()
    net.G = G
    if jd:
        nx.set_node_attributes(G, {n: (G.degree(n), 0) for n in G.nodes()},
                               NetworkNames.JOINT_DEGREE)
    if top:
        nx.set_edge_attributes(G, {e: "t%d" % i for i, e in enumerate(G.edges())},
                               NetworkNames.TOPOLOGY)
    if mid:
        nx.set_edge_attributes(G, {e: i * 3 for i, e in enumerate(G.edges())},
                               NetworkNames.MOTIF_IDS)
    return net


def relabelled():
    G = nx.path_graph(4)
    return nx.relabel_nodes(G, {0: "a", 1: "b", 2: "c", 3: "d"})


def shifted():
    return nx.relabel_nodes(nx.path_graph(4), {0: 1, 1: 2, 2: 3, 3: 4})


def partial_missing():
    net = annotated(nx.path_graph(4))
    del net.G.edges[(1, 2)][NetworkNames.MOTIF_IDS]
    del net.G.edges[(2, 3)][NetworkNames.TOPOLOGY]
    return net


def partial_missing_jd():
    net = annotated(nx.path_graph(4))
    del net.G.nodes[2][NetworkNames.JOINT_DEGREE]
    del net.G.edges[(0, 1)][NetworkNames.TOPOLOGY]
    return net


def with_selfloops():
    G = nx.Graph()
    G.add_nodes_from(range(5))
    G.add_edges_from([(3, 3), (0, 4), (4, 1), (2, 2), (1, 0)])
    return annotated(G)


def string_keyed():
    G = nx.path_graph(3)
    nx.set_node_attributes(G, 1, "joint_degree")
    nx.set_edge_attributes(G, 1, "topology")
    nx.set_edge_attributes(G, 1, "motif_ids")
    net = Network()
    net.G = G
    return net


NETS = {
    "empty": lambda: annotated(nx.Graph()),
    "isolated": lambda: annotated(nx.empty_graph(4)),
    "path": lambda: annotated(nx.path_graph(5)),
    "complete": lambda: annotated(nx.complete_graph(5)),
    "selfloops": with_selfloops,
    "gnp": lambda: annotated(nx.gnp_random_graph(30, 0.2, seed=5)),
    "no_jd": lambda: annotated(nx.path_graph(3), jd=False),
    "no_top": lambda: annotated(nx.path_graph(3), top=False),
    "no_mid": lambda: annotated(nx.path_graph(3), mid=False),
    "no_top_no_mid": lambda: annotated(nx.path_graph(3), top=False, mid=False),
    "partial_missing": partial_missing,
    "partial_missing_jd": partial_missing_jd,
    "string_labels": lambda: annotated(relabelled()),
    "shifted_labels": lambda: annotated(shifted()),
    "string_keyed_attrs": string_keyed,
    "digraph": lambda: annotated(nx.DiGraph([(0, 1), (1, 0), (1, 2), (2, 2)])),
    "multigraph": lambda: annotated(nx.MultiGraph([(0, 1), (0, 1), (1, 2)]),
                                    top=False, mid=False),
    "multigraph_empty": lambda: annotated(nx.empty_graph(3, create_using=nx.MultiGraph)),
    "G_none": lambda: (lambda n: (setattr(n, "G", None), n)[1])(Network()),
}


def run_backward(make):
    net = make()
    G = net.G
    before = copy.deepcopy(describe_graph(G)) if G is not None else None
    try:
        el = NetworkToEdgeList.convert(net)
        res = ("ok", describe_edge_list(el))
    except BaseException as exc:  # noqa
        res = ("raised", type(exc).__name__, str(exc))
    after = describe_graph(G) if G is not None else None
    return res, before == after, net.G is G


for name, make in NETS.items():
    seed(3)
    attempt("N2E " + name, lambda: run_backward(make))


def not_a_network():
    return NetworkToEdgeList.convert(nx.path_graph(3))


seed(3)
attempt("N2E not_a_network", not_a_network)


# ------------------------------------------------------------- round trips
def round_trip(args):
    el = make_edge_list(*copy.deepcopy(args))
    net = EdgeListToNetwork.convert(el)
    back = NetworkToEdgeList.convert(net)
    again = EdgeListToNetwork.convert(back)
    return (describe_edge_list(back), describe_graph(again.G),
            describe_graph(net.G) == describe_graph(again.G))


for name in ("empty", "isolated_only", "simple", "duplicate_reversed", "self_loop",
             "vertex_beyond_jds", "short_topologies"):
    seed(4)
    attempt("RT " + name, lambda: round_trip(CASES[name]))


def random_model(n, s):
    seed(s)
    params = {
        JointDegreeNames.JDD: {(1, 0): 0.2, (2, 1): 0.5, (3, 0): 0.1, (5, 1): 0.15,
                               (0, 0): 0.05},
        JointDegreeNames.MOTIF_SIZES: [2, 3],
    }
    jds = JointDegreeManual(params).sample_jds_from_jdd(n)
    params = {
        GCMAlgorithmNames.MOTIF_SIZES: [2, 3],
        GCMAlgorithmNames.EDGE_NAMES: ["2-clique", "3-clique"],
        GCMAlgorithmNames.BUILD_FUNCTIONS: [clique_motif, clique_motif],
    }
    r1 = rng_state()
    net = GCMAlgorithmNetwork(params).random_clustered_graph(jds)
    r2 = rng_state()
    el = NetworkToEdgeList.convert(net)
    r3 = rng_state()
    net2 = EdgeListToNetwork.convert(el)
    r4 = rng_state()
    seed(s + 1)
    fast = GCMAlgorithmFast(params).random_clustered_graph(jds)
    net3 = EdgeListToNetwork.convert(fast)
    el3 = NetworkToEdgeList.convert(net3)
    return (r1, r2, r3, r4, digest(describe_graph(net.G)), digest(describe_edge_list(el)),
            digest(describe_graph(net2.G)), digest(describe_edge_list(fast)),
            digest(describe_graph(net3.G)), digest(describe_edge_list(el3)),
            net.G.number_of_nodes(), net.G.number_of_edges(), len(el.edge_list))


for n, s in ((0, 10), (1, 11), (7, 12), (200, 13), (5000, 14)):
    attempt("GCM n=%d" % n, lambda: random_model(n, s))


# ------------------------------------------------------------- Network class
def network_class():
    out = []
    net = Network()
    out.append((type(net.G).__name__, net.has_edges(), describe_graph(net.G), list(vars(net))))
    out.append(net.remove_edge(0, 1))            # absent vertices
    net.add_edge((0, 1))
    out.append((net.has_edges(), describe_graph(net.G)))
    out.append(net.remove_edge(1, 0))            # reversed orientation
    out.append((net.has_edges(), describe_graph(net.G)))
    out.append(net.remove_edge(1, 0))            # already gone, vertices present
    out.append(net.add_edges_from([(0, 1), (1, 2), (2, 0), (2, 3), (4, 4)]))
    out.append((net.has_edges(), net.find_cliques(), describe_graph(net.G)))
    for e in [(0, 1), (1, 2), (2, 0), (2, 3)]:
        out.append((net.remove_edge(*e), net.has_edges()))
    out.append(describe_graph(net.G))            # only the self loop remains
    out.append((net.remove_edge(4, 4), net.has_edges(), describe_graph(net.G)))
    out.append(net.remove_edge(4, 4))
    out.append(net.remove_edge("x", None))
    # attributes on the edge survive / carry
    net.add_edge((5, 6, ))
    net.G.edges[(5, 6)]["k"] = 1
    out.append((net.has_edges(), describe_graph(net.G)))
    # setter
    H = nx.complete_graph(4)
    net.G = H
    out.append((net.G is H, net._G is H, net.has_edges(), sorted(map(sorted, net.find_cliques()))))
    # other graph classes through the setter
    for cls in (nx.DiGraph, nx.MultiGraph, nx.MultiDiGraph):
        net.G = cls([(0, 1), (1, 0), (1, 1)])
        row = [cls.__name__, net.has_edges()]
        for e in [(0, 1), (0, 1), (1, 0), (1, 0), (1, 1), (1, 1), (7, 8)]:
            row.append((net.remove_edge(*e), net.has_edges(), net.G.number_of_edges()))
        out.append(row)
    return out


seed(5)
attempt("Network", network_class)


def network_errors():
    out = []
    for label, fn in (
        ("unhashable", lambda n: n.remove_edge([1], 2)),
        ("G_none_has_edges", lambda n: (setattr(n, "G", None), n.has_edges())),
        ("G_none_remove", lambda n: (setattr(n, "G", None), n.remove_edge(0, 1))),
        ("add_edge_bad", lambda n: n.add_edge((1,))),
        ("add_edges_bad", lambda n: n.add_edges_from([(1,)])),
        ("add_edge_none_node", lambda n: n.add_edge((None, 1))),
    ):
        n = Network()
        n.add_edge((0, 1))
        try:
            out.append((label, "ok", fn(n)))
        except BaseException as exc:  # noqa
            out.append((label, "raised", type(exc).__name__, str(exc)))
    return out


seed(5)
attempt("Network errors", network_errors)


class Flaky(nx.Graph):
    """remove_edge raising exceptions other than NetworkXError must propagate."""

    def __init__(self, exc):
        super().__init__()
        self._exc = exc

    def remove_edge(self, u, v):
        raise self._exc


def flaky():
    out = []
    for exc in (nx.NetworkXError("boom"), nx.NetworkXNoPath("np"), nx.NetworkXException("base"),
                KeyError("k"), ValueError("v"), StopIteration()):
        n = Network()
        n.G = Flaky(exc)
        try:
            out.append(("ok", n.remove_edge(0, 1)))
        except BaseException as e:  # noqa
            out.append(("raised", type(e).__name__, str(e)))
    return out


seed(5)
attempt("Network flaky remove", flaky)


# -------------------------------------------- a client of Network: EECC cover
def eecc_cover(n, p, s, m0):
    seed(s)
    cover = EECC()
    cover.add_edges_from(list(nx.gnp_random_graph(n, p, seed=s).edges()))
    cover.set_max_clique_size(m0)
    res = cover.get_EECC()
    return res, cover.has_edges(), describe_graph(cover.G)


for n, p, s, m0 in ((0, 0.5, 1, 2), (6, 0.6, 2, 2), (12, 0.5, 3, 3), (25, 0.3, 4, 3),
                    (25, 0.3, 5, 4)):
    attempt("EECC n=%d m0=%d" % (n, m0), lambda: eecc_cover(n, p, s, m0))

print("final rng", rng_state())
