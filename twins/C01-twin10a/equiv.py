import sys, os; sys.path.insert(0, os.getcwd())
import hashlib
import random
import numpy as np

from gcmpy.gcm_algorithm.gcm_algorithm_fast import GCMAlgorithmFast
from gcmpy.gcm_algorithm.gcm_algorithm_network import GCMAlgorithmNetwork
from gcmpy.gcm_algorithm.gcm_algorithm_factory import GCMAlgorithmFactory
from gcmpy.gcm_algorithm.gcm_algorithm_main import GCMAlgorithmMain
from gcmpy.gcm_algorithm.gcm_algorithm_types import GCMAlgorithmTypes
from gcmpy.names.gcm_algorithm_names import GCMAlgorithmNames as N
from gcmpy.motif_generators import clique_motif, cycle_motif, diamond_motif


def h(x):
    return hashlib.sha256(repr(x).encode()).hexdigest()[:16]


def rng_digest():
    return h(random.getstate()) + "/" + h(np.random.get_state()[1].tolist())


def params(sizes, builds, names, kind=None):
    p = {N.MOTIF_SIZES: sizes, N.BUILD_FUNCTIONS: builds, N.EDGE_NAMES: names}
    if kind is not None:
        p[N.GCM_TYPE] = kind
    return p


def show_edge_list(el, jds):
    same = el.joint_degrees is jds
    return (el.edge_list, el.topologies, el.motif_id, same,
            [type(x).__name__ for e in el.edge_list[:6] for x in e])


def show_network(net):
    G = net.G
    return (sorted(G.nodes(data=True), key=repr), sorted(G.edges(data=True), key=repr))


def run(label, fn):
    try:
        out = fn()
        print(label, "OK", h(out), rng_digest())
    except BaseException as e:  # noqa
        print(label, "EXC", type(e).__name__, rng_digest())


def handshake_jds(n, sizes, rnd, maxdeg=4):
    jds = [[rnd.randrange(0, maxdeg) for _ in sizes] for _ in range(n)]
    for k, s in enumerate(sizes):
        tot = sum(r[k] for r in jds)
        jds[rnd.randrange(n)][k] += (-tot) % s
    return [tuple(r) for r in jds]


CONFIGS = [
    ([2], [clique_motif], ["2-clique"]),
    ([2, 3], [clique_motif, clique_motif], ["2-clique", "3-clique"]),
    ([2, 3, 4], [clique_motif, cycle_motif, diamond_motif], ["e", "tri", "dia"]),
    ([3, 4, 5], [cycle_motif, cycle_motif, clique_motif], ["c3", "c4", "k5"]),
    ([1, 2], [clique_motif, clique_motif], ["k1", "k2"]),
]

rnd = random.Random(20261004)
random.seed(1)
np.random.seed(1)

# 1. many valid inputs, all four routes, repeated calls on one object
for ci, (sizes, builds, names) in enumerate(CONFIGS):
    fast = GCMAlgorithmFast(params(sizes, builds, names))
    netw = GCMAlgorithmNetwork(params(sizes, builds, names))
    fac_f = GCMAlgorithmFactory.resolve_algorithm(GCMAlgorithmTypes.FAST, params(sizes, builds, names))
    fac_n = GCMAlgorithmFactory.resolve_algorithm(GCMAlgorithmTypes.NETWORK, params(sizes, builds, names))
    main_f = GCMAlgorithmMain.load_gcm_algorithm(params(sizes, builds, names, "fast"))
    main_n = GCMAlgorithmMain.load_gcm_algorithm(params(sizes, builds, names, "network"))
    for n in (1, 2, 3, 7, 20, 61):
        for rep in range(3):
            jds = handshake_jds(n, sizes, rnd)
            for name, alg, show in (
                ("fast", fast, show_edge_list), ("fac_f", fac_f, show_edge_list),
                ("main_f", main_f, show_edge_list),
            ):
                run(f"valid {ci} {n} {rep} {name}", lambda: show(alg.random_clustered_graph(jds), jds))
            for name, alg in (("netw", netw), ("fac_n", fac_n), ("main_n", main_n)):
                run(f"valid {ci} {n} {rep} {name}", lambda: show_network(alg.random_clustered_graph(jds)))

# 2. container / element type variations
sizes, builds, names = CONFIGS[1]
fast = GCMAlgorithmFast(params(sizes, builds, names))
base = handshake_jds(12, sizes, rnd)
variants = {
    "list_of_lists": [list(r) for r in base],
    "tuple_of_tuples": tuple(base),
    "np_array": np.array(base),
    "np_int32": [tuple(np.int32(x) for x in r) for r in base],
    "np_uint8": [tuple(np.uint8(x) for x in r) for r in base],
    "bools": [(True, False)] * 4 + [(False, True)] * 3,
    "empty": [],
    "empty_rows": [(), (), ()],
    "ragged_short": [r if i % 2 else r[:1] for i, r in enumerate(base)],
    "ragged_long": [r + (1,) for r in base],
    "extra_column": [r + (2,) for r in base],
    "negatives": [(-1, 3), (3, -2), (0, 2), (2, 1)],
    "floats_int_valued": [(2.0, 3.0), (2, 0)],
    "floats": [(1.5, 0)],
    "strings": [("2", "3")],
    "none": [(None, 1)],
    "huge": [(10 ** 30, 0)],
    "maxsize_plus": [(sys.maxsize + 1, 0)],
    "not_iterable": 7,
    "rows_not_iterable": [1, 2, 3],
    "row_string": ["12", "30"],
    "dict_rows": [{1: 0, 2: 0}, {3: 0, 0: 0}],
    "handshake_broken": [(1, 1), (0, 1), (0, 0)],
    "handshake_broken2": [(3, 2), (0, 2)],
    "all_zero": [(0, 0)] * 5,
}
for key, jds in variants.items():
    for rep in range(2):
        run(f"type {key} {rep}", lambda: show_edge_list(fast.random_clustered_graph(jds), jds))

# generators as jds (consumed once)
run("gen rows", lambda: show_edge_list(fast.random_clustered_graph((r for r in base)), None))
run("gen inner", lambda: show_edge_list(fast.random_clustered_graph([iter(r) for r in base]), None))


class Idx:
    def __init__(self, v):
        self.v = v

    def __index__(self):
        return self.v

    def __repr__(self):
        return f"Idx({self.v})"


class BadIdx:
    def __index__(self):
        raise KeyError("boom")


class StopIdx:
    def __index__(self):
        raise StopIteration


class GenExitIdx:
    def __index__(self):
        raise GeneratorExit


run("stopiteration index", lambda: show_edge_list(fast.random_clustered_graph([(2, 0), (StopIdx(), 3), (2, 3)]), None))
run("generatorexit index", lambda: show_edge_list(fast.random_clustered_graph([(2, 0), (GenExitIdx(), 3)]), None))
run("index objs", lambda: show_edge_list(fast.random_clustered_graph([(Idx(2), Idx(3)), (Idx(0), Idx(0))]), None))
run("bad index", lambda: show_edge_list(fast.random_clustered_graph([(1, 0), (BadIdx(), 3)]), None))


class RaisingRow:
    def __iter__(self):
        yield 1
        raise OSError("row")


run("raising row", lambda: show_edge_list(fast.random_clustered_graph([(1, 0), RaisingRow()]), None))

# 3. misconfigured generators
run("sizes short", lambda: show_edge_list(
    GCMAlgorithmFast(params([2], builds, names)).random_clustered_graph(base), base))
run("builds short", lambda: show_edge_list(
    GCMAlgorithmFast(params(sizes, builds[:1], names)).random_clustered_graph(base), base))
run("names short", lambda: show_edge_list(
    GCMAlgorithmFast(params(sizes, builds, names[:1])).random_clustered_graph(base), base))
run("size zero", lambda: show_edge_list(
    GCMAlgorithmFast(params([0, 3], builds, names)).random_clustered_graph(base), base))
run("diamond size 3", lambda: show_edge_list(
    GCMAlgorithmFast(params([3], [diamond_motif], ["d"])).random_clustered_graph([(3,), (3,)]), None))
run("network broken", lambda: show_network(
    GCMAlgorithmNetwork(params(sizes, builds, names)).random_clustered_graph([(1.5, 0)])))

# 4. long repeated use of one object: the random stream must stay in step
big = handshake_jds(400, [2, 3, 4], rnd, maxdeg=6)
alg = GCMAlgorithmFast(params(*CONFIGS[2]))
acc = []
for i in range(25):
    el = alg.random_clustered_graph(big)
    acc.append(h((el.edge_list, el.topologies, el.motif_id)))
print("long", h(acc), rng_digest())
print("final", rng_digest())
