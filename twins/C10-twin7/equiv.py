import sys, os; sys.path.insert(0, os.getcwd())

import hashlib
import random

import networkx as nx
import numpy as np

import gcmpy
import gcmpy.covers
from gcmpy.covers.mpcc import MPCC

assert gcmpy.MPCC is MPCC and gcmpy.covers.MPCC is MPCC


def rng_digest():
    state = repr(random.getstate()) + repr(np.random.get_state())
    return hashlib.sha256(state.encode()).hexdigest()[:16]


def graph_dump(G):
    """Everything observable about a graph, in the graph's own iteration orders."""
    if not isinstance(G, nx.Graph):
        return f"  not a graph: {G!r}"
    lines = [f"  class={type(G).__name__} graphattr={dict(G.graph)!r}"]
    lines.append(f"  nodes={[(n, dict(d)) for n, d in G.nodes(data=True)]!r}")
    lines.append(f"  adj={[(n, list(nbrs)) for n, nbrs in G.adjacency()]!r}")
    if G.is_multigraph():
        edges = list(G.edges(keys=True, data=True))
    else:
        edges = list(G.edges(data=True))
    lines.append(f"  n_edges={len(edges)}")
    for e in edges:
        lines.append(f"    {e!r}")
    return "\n".join(lines)


def label_identity(G):
    """Which edges share the very same label string object (not just equal)."""
    if not isinstance(G, nx.Graph) or G.is_multigraph():
        return "n/a"
    groups = {}
    for u, v, d in G.edges(data=True):
        if "clique" in d:
            groups.setdefault(id(d["clique"]), []).append((u, v))
    return sorted(len(g) for g in groups.values())


def run(name, G, *args, seed=12345, **kwargs):
    random.seed(seed)
    np.random.seed(seed)
    print(f"== {name} args={args!r} kwargs={kwargs!r} seed={seed}")
    try:
        res = MPCC(G, *args, **kwargs)
    except BaseException as exc:  # noqa: BLE001 - digest every failure
        print(f"  raised {type(exc).__module__}.{type(exc).__name__}: {exc}")
        res = None
    else:
        print(f"  returned_same_object={res is G} type={type(res).__name__}")
    print(graph_dump(G))
    print(f"  label_identity={label_identity(G)}")
    print(f"  rng={rng_digest()}")
    return res


class Noisy:
    """Hashable node whose repr/hash/eq calls are counted."""

    calls = {"repr": 0, "hash": 0, "eq": 0}

    def __init__(self, k):
        self.k = k

    def __repr__(self):
        Noisy.calls["repr"] += 1
        return f"N{self.k}"

    def __hash__(self):
        Noisy.calls["hash"] += 1
        return hash(("noisy", self.k))

    def __eq__(self, other):
        Noisy.calls["eq"] += 1
        return isinstance(other, Noisy) and other.k == self.k


class BadRepr:
    """Node whose repr raises: only reached when it lies on a labelled edge."""

    def __init__(self, k):
        self.k = k

    def __repr__(self):
        raise RuntimeError(f"bad repr {self.k}")

    def __hash__(self):
        return hash(("bad", self.k))

    def __eq__(self, other):
        return isinstance(other, BadRepr) and other.k == self.k


class Limit:
    """max_size stand-in recording the comparisons made against it."""

    def __init__(self, value):
        self.value = value
        self.log = []

    def __repr__(self):
        return f"Limit({self.value})"

    def __gt__(self, other):
        self.log.append(("gt", other))
        return self.value > other

    def __lt__(self, other):
        self.log.append(("lt", other))
        return self.value < other


class CountingGraph(nx.Graph):
    """Graph subclass that records how its copy is queried / mutated."""

    log = []

    def has_edge(self, u, v):
        CountingGraph.log.append(("has_edge", u, v))
        return super().has_edge(u, v)

    def remove_edges_from(self, ebunch):
        ebunch = list(ebunch)
        CountingGraph.log.append(("remove_edges_from", ebunch))
        return super().remove_edges_from(ebunch)

    def copy(self, as_view=False):
        CountingGraph.log.append(("copy",))
        return super().copy(as_view=as_view)


# ---------------------------------------------------------------- small graphs
run("empty", nx.Graph())
run("empty limit", nx.Graph(), 3)
run("empty bad limit (never compared)", nx.Graph(), None)

G = nx.Graph()
G.add_node(7, colour="red")
run("single node", G)
run("single node limit 1", G, 1)
run("single node bad limit", G, "x")

G = nx.Graph()
G.add_nodes_from([3, 1, 2])
run("isolated nodes", G, max_size=0)

run("one edge", nx.Graph([(0, 1)]))
run("one edge limit 1", nx.Graph([(0, 1)]), 1)
run("path", nx.path_graph(6))
run("path reversed insertion", nx.Graph([(5, 4), (4, 3), (3, 2), (2, 1), (1, 0)]))
run("triangle", nx.complete_graph(3))
run("triangle limit 2", nx.complete_graph(3), 2)
run("triangle limit 1", nx.complete_graph(3), 1)
run("star", nx.star_graph(5))
run("cycle", nx.cycle_graph(7))
run("petersen", nx.petersen_graph())

for k in (4, 5, 6):
    for limit in (0, 1, 2, 3, 4, 5, 6, 7, -1, -5):
        run(f"K{k}", nx.complete_graph(k), limit, seed=k * 100 + limit)

# pendant + overlapping cliques
G = nx.complete_graph(4)
G.add_edge(3, 4)
G.add_edges_from([(4, 5), (5, 6), (4, 6)])
G.add_edges_from([(0, 7), (1, 7)])
for seed in range(6):
    run("K4+pendant+triangles", G.copy(), seed=seed)
    run("K4+pendant+triangles limit 3", G.copy(), 3, seed=seed)

# two K4 sharing an edge, two K5 sharing a triangle
G = nx.Graph()
G.add_edges_from(nx.complete_graph([0, 1, 2, 3]).edges)
G.add_edges_from(nx.complete_graph([2, 3, 4, 5]).edges)
for seed in range(5):
    run("two K4 sharing an edge", G.copy(), seed=seed)
G = nx.Graph()
G.add_edges_from(nx.complete_graph(["a", "b", "c", "d", "e"]).edges)
G.add_edges_from(nx.complete_graph(["c", "d", "e", "f", "g"]).edges)
for seed in range(5):
    run("two K5 sharing a triangle (str nodes)", G.copy(), seed=seed)
    run("two K5 sharing a triangle (str nodes) limit 4", G.copy(), 4, seed=seed)

# mixed / tuple node types, existing attributes
G = nx.Graph()
G.add_edge((0, 0), "x", weight=1.5, clique="stale")
G.add_edge("x", 3.5, weight=0.1 + 0.2)
G.add_edge((0, 0), 3.5)
G.add_edge(3.5, frozenset({1}))
G.graph["name"] = "mixed"
run("mixed node types with stale labels", G)
run("mixed node types limit 2 (same object again)", G, 2)

# ---------------------------------------------------------------- odd limits
for limit in (2.5, 3.0, float("nan"), float("inf"), -0.0, True, False, np.int64(3), np.float64(2.0)):
    run("K5+tail odd limit", nx.lollipop_graph(5, 3), limit)
for limit in (None, "3", [3], (3,), 3j):
    run("K5+tail bad limit", nx.lollipop_graph(5, 3), limit)
run("keyword limit", nx.lollipop_graph(5, 3), max_size=4)
try:
    MPCC()
except TypeError as exc:
    print("no-arg:", type(exc).__name__, exc)
try:
    MPCC(nx.Graph(), 1, 2)
except TypeError as exc:
    print("three-arg:", type(exc).__name__, exc)
try:
    MPCC(nx.Graph(), size=2)
except TypeError as exc:
    print("bad-kw:", type(exc).__name__, exc)

lim = Limit(3)
run("recording limit", nx.lollipop_graph(4, 2), lim)
print("  limit log:", lim.log)
lim = Limit(0)
run("recording limit zero", nx.lollipop_graph(4, 2), lim)
print("  limit log:", lim.log)

# ---------------------------------------------------------------- error paths
run("not a graph: None", None)
run("not a graph: list", [(0, 1)])
run("not a graph: dict", {0: [1]})
run("digraph", nx.DiGraph([(0, 1), (1, 2), (2, 0)]))
run("multidigraph", nx.MultiDiGraph([(0, 1), (1, 2)]))
run("multigraph", nx.MultiGraph([(0, 1), (0, 1), (1, 2), (2, 0)]))
run("multigraph no edges", nx.MultiGraph([]))
M = nx.MultiGraph()
M.add_nodes_from(range(3))
run("multigraph nodes only", M)

# self loops
G = nx.Graph([(0, 0), (0, 1), (1, 2), (2, 0), (2, 2), (3, 3)])
run("self loops", G)
run("self loops limit 2", G, 2)

# frozen graph (labels are written straight into the attribute dicts)
run("frozen", nx.freeze(nx.complete_graph(4)))

# graph views
base = nx.complete_graph(6)
run("subgraph view", base.subgraph([0, 1, 2, 3]))
print("  base after view cover:")
print(graph_dump(base))
run("edge-subgraph view", base.edge_subgraph([(0, 1), (1, 2), (4, 5)]))
print(graph_dump(base))

# ---------------------------------------------------------------- repeated calls
G = nx.lollipop_graph(5, 2)
G.add_edges_from([(0, 10), (1, 10), (2, 10)])
random.seed(99)
np.random.seed(99)
for i, limit in enumerate([0, 3, 0, 2, 4, 0]):
    res = MPCC(G, limit)
    print(f"== repeat {i} limit={limit} same={res is G}")
    print(graph_dump(G))
    print(f"  label_identity={label_identity(G)}")
    print(f"  rng={rng_digest()}")
# chaining the return value
res = MPCC(MPCC(MPCC(G), 3), 2)
print("chained same:", res is G)
print(graph_dump(G))
print(f"  rng={rng_digest()}")

# ---------------------------------------------------------------- random graphs
for seed in range(8):
    for n, p in ((12, 0.3), (15, 0.5), (10, 0.8), (25, 0.2)):
        H = nx.gnp_random_graph(n, p, seed=seed)
        for limit in (0, 2, 3, 4):
            run(f"gnp({n},{p},{seed})", H.copy(), limit, seed=seed * 7 + limit)

for seed in range(4):
    H = nx.relaxed_caveman_graph(4, 5, 0.2, seed=seed)
    run(f"caveman {seed}", H, seed=seed)
    run(f"caveman {seed} again limit 3", H, 3, seed=seed)
    H = nx.barabasi_albert_graph(30, 4, seed=seed)
    H = nx.relabel_nodes(H, {i: f"v{(i * 7) % 30}" for i in range(30)})
    run(f"BA relabelled {seed}", H, seed=seed)

# global RNG consumption is per-call and depends on the clique count only
random.seed(5)
np.random.seed(5)
MPCC(nx.complete_graph(5))
a = random.random()
MPCC(nx.empty_graph(4))
b = random.random()
print("draws after:", repr(a), repr(b), repr(np.random.random()))

# ---------------------------------------------------------------- instrumented nodes / graphs
Noisy.calls = {"repr": 0, "hash": 0, "eq": 0}
nodes = [Noisy(i) for i in range(6)]
G = nx.Graph()
G.add_nodes_from(nodes)
G.add_edges_from([(nodes[0], nodes[1]), (nodes[1], nodes[2]), (nodes[0], nodes[2]), (nodes[2], nodes[3])])
random.seed(3)
res = MPCC(G)
print("== noisy nodes")
print("  calls:", Noisy.calls)
print(graph_dump(G))
print(f"  label_identity={label_identity(G)}")
print("  calls after dump:", Noisy.calls)
res = MPCC(G, 2)
print("  calls after second cover:", Noisy.calls)
print(graph_dump(G))

G = nx.Graph()
G.add_node(BadRepr(0))
G.add_edge(1, 2)
random.seed(4)
try:
    MPCC(G)
    print("== bad repr isolated: ok", sorted((u, v, d) for u, v, d in G.edges(data=True)))
except BaseException as exc:  # noqa: BLE001
    print("== bad repr isolated: raised", type(exc).__name__, exc)
b1 = BadRepr(1)
G = nx.Graph()
G.add_edge(1, 2)
G.add_edge(2, 3)
G.add_edge(b1, 3)
random.seed(4)
try:
    MPCC(G)
    print("== bad repr on edge: ok")
except BaseException as exc:  # noqa: BLE001
    print("== bad repr on edge: raised", type(exc).__name__, exc)
print("  labels so far:", [(u, v, d) for u, v, d in G.edges(data=True) if not isinstance(u, BadRepr) and not isinstance(v, BadRepr)])
print(f"  rng={rng_digest()}")

CountingGraph.log = []
G = CountingGraph()
G.add_edges_from(nx.lollipop_graph(4, 2).edges)
G.add_edges_from([(0, 9), (1, 9)])
for limit in (0, 3):
    CountingGraph.log = []
    run("counting graph", G, limit, seed=21)
    print("  log:")
    for entry in CountingGraph.log:
        print("   ", entry)

# signature / metadata that callers can see
import inspect

print("signature:", inspect.signature(MPCC))
print("annotations:", MPCC.__annotations__)
print("defaults:", MPCC.__defaults__, MPCC.__kwdefaults__)
print("name/module:", MPCC.__name__, MPCC.__qualname__, MPCC.__module__)
print("doc sha:", hashlib.sha256((MPCC.__doc__ or "").encode()).hexdigest()[:16])
import gcmpy.covers.mpcc as mod

print("public module names:", sorted(n for n in vars(mod) if not n.startswith("_")))
print(f"final rng={rng_digest()}")
