"""
Equivalence harness for the C02 refactoring.

Run with cwd = a checkout of gcmpy. Seeds the RNGs, drives the public entry
points of gcm_algorithm_fast / gcm_algorithm_custom_motifs / edge_list over a
range of inputs (including edge cases and error paths) and prints a
deterministic digest of the results, of the RNG state afterwards, of the
arguments the callbacks saw, and of the (possibly mutated) inputs.
"""
import copy
import hashlib
import os
import random
import re
import sys

sys.path.insert(0, os.getcwd())

import numpy as np  # noqa: E402

from gcmpy.gcm_algorithm.gcm_algorithm_fast import GCMAlgorithmFast  # noqa: E402
from gcmpy.gcm_algorithm.gcm_algorithm_custom_motifs import (  # noqa: E402
    GCMAlgorithmCustomMotifs,
)
from gcmpy.gcm_algorithm.gcm_algorithm_factory import GCMAlgorithmFactory  # noqa: E402
from gcmpy.gcm_algorithm.gcm_algorithm_network import GCMAlgorithmNetwork  # noqa: E402
from gcmpy.motif_generators.clique_motif import clique_motif  # noqa: E402
from gcmpy.motif_generators.cycle_motif import cycle_motif  # noqa: E402
from gcmpy.names.gcm_algorithm_names import GCMAlgorithmNames as N  # noqa: E402
from gcmpy.network.edge_list import LightWeightEdgeList  # noqa: E402


def rep(obj) -> str:
    """repr without memory addresses, so that the output is deterministic"""
    return re.sub(r" at 0x[0-9a-fA-F]+", "", repr(obj))


def h(obj) -> str:
    return hashlib.sha256(rep(obj).encode()).hexdigest()[:16]


def rng_digest() -> str:
    return h(random.getstate()) + "/" + h(
        tuple(x.tolist() if hasattr(x, "tolist") else x for x in np.random.get_state())
    )


def show_edge_list(el) -> None:
    print("   type        ", type(el).__name__)
    print("   lens        ", len(el.edge_list), len(el.topologies), len(el.motif_id))
    print("   edges       ", h(el.edge_list), rep(el.edge_list)[:160])
    print("   topologies  ", h(el.topologies), rep(el.topologies)[:160])
    print("   motif_id    ", h(el.motif_id), rep(el.motif_id)[:160])
    print("   joint_deg   ", h(el.joint_degrees))
    print("   vars        ", list(vars(el)))


CALLS = []


def traced(fn, tag):
    def wrapper(*args):
        CALLS.append((tag, copy.deepcopy(args)))
        return fn(*args)

    return wrapper


def run(label, make_algo, jds, seed=12345, repeat_calls=1):
    print("== " + label)
    random.seed(seed)
    np.random.seed(seed)
    del CALLS[:]
    try:
        jds_before = copy.deepcopy(jds)
    except TypeError:  # e.g. a generator
        jds_before = jds
    try:
        algo = make_algo()
    except BaseException as e:  # noqa: BLE001
        print("   ctor raised ", type(e).__name__, str(e)[:200])
        print("   rng         ", rng_digest())
        return
    for call in range(repeat_calls):
        try:
            el = algo.random_clustered_graph(jds)
        except BaseException as e:  # noqa: BLE001
            print("   raised      ", type(e).__name__, str(e)[:200])
        else:
            show_edge_list(el)
            print("   jds is input", el.joint_degrees is jds)
        print("   rng         ", rng_digest())
        print("   callbacks   ", len(CALLS), h(CALLS))
    print("   jds mutated ", rep(jds) != rep(jds_before), h(jds))
    print(
        "   params      ",
        h(
            (
                algo._motif_sizes,
                [getattr(f, "__name__", repr(f)) for f in algo._build_functions],
                getattr(algo, "_motif_indices", None),
                getattr(algo, "sequences", None),
                getattr(algo, "partition_calls", None),
            )
        ),
    )


def fast(sizes, names, builders):
    def make():
        return GCMAlgorithmFast(
            {
                N.MOTIF_SIZES: sizes,
                N.EDGE_NAMES: names,
                N.BUILD_FUNCTIONS: [traced(b, i) for i, b in enumerate(builders)],
            }
        )

    return make


def custom(sizes, names, builders, indices):
    def make():
        return GCMAlgorithmCustomMotifs(
            {
                N.MOTIF_SIZES: sizes,
                N.EDGE_NAMES: [traced(n, "n%d" % i) for i, n in enumerate(names)],
                N.BUILD_FUNCTIONS: [traced(b, "b%d" % i) for i, b in enumerate(builders)],
                N.MOTIF_INDICES: indices,
            }
        )

    return make


def rand_jds(n, maxes, seed, sizes=None):
    """
    Random joint degree sequence. With `sizes`, the first row is padded so
    that every column total is a multiple of the motif size of that column.
    """
    r = random.Random(seed)
    rows = [tuple(r.randint(0, m) for m in maxes) for _ in range(n)]
    if sizes is not None:
        totals = [sum(col) for col in zip(*rows)]
        rows[0] = tuple(d + (-t) % s for d, t, s in zip(rows[0], totals, sizes))
    return rows


# --------------------------------------------------------------------------
# build callbacks
# --------------------------------------------------------------------------
def bare_edge(vs):
    return (vs[0], vs[1])


def bare_edge_list(vs):
    return [vs[0], vs[1]]


def two_edges(vs):
    return (vs[0], vs[1]), (vs[1], vs[2])


def two_edges_lists(vs):
    return [[vs[0], vs[1]], [vs[1], vs[2]]]


def no_edges(vs):
    return []


def one_edge_wrapped(vs):
    return [(vs[0], vs[1])]


def gen_edges(vs):
    return ((a, b) for a, b in zip(vs, vs[1:]))


def tolerant_clique(vs):
    # works for short trailing groups too
    return clique_motif(vs)


class Boom(Exception):
    pass


def make_failing(after):
    state = {"n": 0}

    def failing(vs):
        state["n"] += 1
        if state["n"] > after:
            raise Boom("builder failed on call %d" % state["n"])
        return clique_motif(vs)

    return failing


def mutating_builder(vs):
    out = clique_motif(vs)
    vs.reverse()
    vs.append(-1)
    return out


def diamond(vs):
    return (
        (vs[0], vs[1]),
        (vs[1], vs[2]),
        (vs[2], vs[3]),
        (vs[3], vs[1]),
        (vs[0], vs[2]),
    )


def diamond_names():
    return ("d-outer", "d-outer", "d-outer", "d-outer", "d-inner")


def twoclique_names():
    return "2-clique"


def twoclique_names_tuple():
    return ("2-clique",)


def threeclique(vs):
    return (vs[0], vs[1]), (vs[0], vs[2]), (vs[1], vs[2])


def threeclique_names():
    return "3-clique", "3-clique", "3-clique"


def pentagon(vs):
    return (
        (vs[0], vs[1]),
        (vs[1], vs[2]),
        (vs[2], vs[3]),
        (vs[3], vs[4]),
        (vs[0], vs[4]),
        (vs[1], vs[3]),
    )


def pentagon_names():
    return "p01", "p12", "p23", "p34", "p40", "p13"


def two_edge_names():
    return "path-a", "path-b"


def short_names():
    return ("only-one",)


def long_names():
    return ("n1", "n2", "n3", "n4", "n5", "n6", "n7")


class CountingFast(GCMAlgorithmFast):
    """Call history: ids come from an overridden, stateful sequence."""

    def __init__(self, params):
        super().__init__(params)
        self.sequences = 0

    def infinite_sequence(self):
        self.sequences += 1
        num = 1000 * self.sequences
        while True:
            yield num
            num += 7


class CountingCustom(GCMAlgorithmCustomMotifs):
    def __init__(self, params):
        super().__init__(params)
        self.sequences = 0
        self.partition_calls = []

    def infinite_sequence(self):
        self.sequences += 1
        num = 500 * self.sequences
        while True:
            yield num
            num += 3

    def partition(self, lst, n):
        self.partition_calls.append((list(lst), n))
        return super().partition(lst, n)


# --------------------------------------------------------------------------
# LightWeightEdgeList
# --------------------------------------------------------------------------
print("== LightWeightEdgeList")
el = LightWeightEdgeList()
print("   fresh", el.edge_list, el.topologies, el.joint_degrees, el.motif_id, list(vars(el)))
a, b, c, d = [(0, 1)], ["x"], [(1,)], [0]
el.edge_list, el.topologies, el.joint_degrees, el.motif_id = a, b, c, d
print("   identity", el.edge_list is a, el.topologies is b, el.joint_degrees is c, el.motif_id is d)
print("   private", el._edge_list is a, el._topologies is b, el._joint_degrees is c, el._motif_id is d)
el.edge_list.append((2, 3))
print("   aliasing", a, LightWeightEdgeList().edge_list)
print(
    "   props",
    [
        (k, type(v).__name__, v.fset is not None, v.fdel is not None)
        for k, v in sorted(vars(LightWeightEdgeList).items())
        if isinstance(v, property)
    ],
)
try:
    del el.edge_list
except BaseException as e:  # noqa: BLE001
    print("   del raised", type(e).__name__)

# --------------------------------------------------------------------------
# partition
# --------------------------------------------------------------------------
print("== partition")
part_algo = custom([2], [twoclique_names], [bare_edge], [[0]])()
for lst, n in [([], 3), ([1], 3), (list(range(6)), 2), (list(range(7)), 3), (list(range(4)), 9), ("abcde", 2), ((1, 2, 3), 2)]:
    src = copy.deepcopy(lst)
    print("   ", repr(lst), n, "->", part_algo.partition(lst, n), lst == src)
for lst, n in [([1, 2], 0), ([1, 2], 1.5), ([1, 2], -1), (None, 2)]:
    try:
        print("   ", repr(lst), n, "->", part_algo.partition(lst, n))
    except BaseException as e:  # noqa: BLE001
        print("   ", repr(lst), n, "raised", type(e).__name__, e)

# --------------------------------------------------------------------------
# GCMAlgorithmFast
# --------------------------------------------------------------------------
run("fast: empty jds", fast([2], ["2-clique"], [clique_motif]), [])
run("fast: empty jds, empty params", fast([], [], []), [])
run("fast: all zero degrees", fast([2, 3], ["a", "b"], [clique_motif, clique_motif]), [(0, 0)] * 5)
run("fast: single 2-clique topology", fast([2], ["2-clique"], [clique_motif]), rand_jds(40, (4,), 1, (2,)))
run(
    "fast: odd stub count (short trailing group)",
    fast([2], ["2-clique"], [tolerant_clique]),
    [(1,), (2,), (2,)],
)
run(
    "fast: 3-clique with trailing group of 1 and 2",
    fast([3], ["3-clique"], [tolerant_clique]),
    [(2,), (2,), (1,), (3,)],
)
run(
    "fast: two topologies",
    fast([2, 3], ["2-clique", "3-clique"], [clique_motif, clique_motif]),
    rand_jds(60, (3, 2), 2, (2, 3)),
)
run(
    "fast: three topologies with cycles, list rows",
    fast([2, 3, 4], ["e", "t", "sq"], [clique_motif, clique_motif, cycle_motif]),
    [list(t) for t in rand_jds(48, (2, 2, 1), 3, (2, 3, 4))],
)
run(
    "fast: numpy joint degrees",
    fast([2, 3], ["2-clique", "3-clique"], [clique_motif, clique_motif]),
    [tuple(np.int64(x) for x in t) for t in rand_jds(30, (3, 2), 4, (2, 3))],
)
run(
    "fast: numpy 2d array joint degrees",
    fast([2, 3], ["2-clique", "3-clique"], [clique_motif, clique_motif]),
    np.array(rand_jds(30, (3, 2), 5, (2, 3))),
)
run("fast: unpadded random sequence", fast([2, 3], ["e", "t"], [tolerant_clique, tolerant_clique]), rand_jds(25, (3, 2), 21))
run("fast: builder returns a bare edge", fast([2], ["2-clique"], [bare_edge]), [(2,), (2,), (1,), (1,)])
run("fast: builder returns a bare edge as list", fast([2], ["2-clique"], [bare_edge_list]), [(2,), (2,), (1,), (1,)])
run("fast: builder returns exactly two edges", fast([3], ["path"], [two_edges]), [(2,), (1,), (1,), (2,)])
run("fast: builder returns one wrapped edge", fast([2], ["2-clique"], [one_edge_wrapped]), [(2,), (2,), (1,), (1,)])
run("fast: builder returns no edges", fast([2, 2], ["none", "e"], [no_edges, clique_motif]), [(1, 1)] * 6)
run("fast: builder returns a generator", fast([2], ["g"], [gen_edges]), [(1,)] * 4)
run("fast: builder mutates its argument", fast([3], ["m"], [mutating_builder]), [(1,)] * 9)
run("fast: builder fails on third motif", fast([2, 2], ["a", "b"], [clique_motif, make_failing(2)]), [(1, 1)] * 8)
run("fast: tuple edge names / unhashable names", fast([2, 2], [("a", 1), ["b"]], [clique_motif, clique_motif]), [(1, 1)] * 4)
run("fast: motif sizes too short", fast([2], ["a", "b"], [clique_motif, clique_motif]), [(1, 1)] * 4)
run("fast: motif sizes too short, no stubs", fast([2], ["a", "b"], [clique_motif, clique_motif]), [(1, 0)] * 4)
run("fast: builders too short", fast([2, 2], ["a", "b"], [clique_motif]), [(1, 1)] * 4)
run("fast: builders too short but no stubs there", fast([2, 2], ["a", "b"], [clique_motif]), [(1, 0)] * 4)
run("fast: names too short", fast([2, 2], ["a"], [clique_motif, clique_motif]), [(1, 1)] * 4)
run("fast: names too short but no stubs there", fast([2, 2], ["a"], [clique_motif, clique_motif]), [(1, 0)] * 4)
run("fast: extra params beyond topologies", fast([2, 3, 4], ["a", "b", "c"], [clique_motif] * 3), [(1,)] * 4)
run("fast: motif size zero", fast([0], ["a"], [clique_motif]), [(1,)] * 4)
run("fast: motif size negative", fast([-2], ["a"], [clique_motif]), [(1,)] * 4)
run("fast: motif size float", fast([2.0], ["a"], [clique_motif]), [(1,)] * 4)
run("fast: float degree", fast([2, 2], ["a", "b"], [clique_motif, clique_motif]), [(1, 1), (1, 2.0), (1, 1)])
run("fast: None degree", fast([2], ["a"], [clique_motif]), [(1,), (None,), (1,)])
run("fast: negative degree", fast([2], ["a"], [clique_motif]), [(2,), (-3,), (1,), (1,)])
run("fast: bool degree", fast([2], ["a"], [clique_motif]), [(True,), (False,), (True,), (2,)])
run("fast: ragged joint degrees", fast([2, 2], ["a", "b"], [clique_motif, clique_motif]), [(1, 1), (1,), (2, 2), (2, 1, 5)])
run("fast: jds not iterable rows", fast([2], ["a"], [clique_motif]), [1, 2, 3])
run("fast: jds None", fast([2], ["a"], [clique_motif]), None)
run("fast: jds generator", fast([2], ["a"], [clique_motif]), (t for t in [(1,), (1,), (2,), (2,)]))
run(
    "fast: call history, same instance three times",
    fast([2, 3], ["2-clique", "3-clique"], [clique_motif, clique_motif]),
    rand_jds(24, (2, 3), 6, (2, 3)),
    repeat_calls=3,
)
run(
    "fast: overridden id sequence, two calls",
    lambda: CountingFast({N.MOTIF_SIZES: [2, 3], N.EDGE_NAMES: ["x", "y"], N.BUILD_FUNCTIONS: [clique_motif, two_edges]}),
    rand_jds(18, (2, 1), 7, (2, 3)),
    repeat_calls=2,
)
run("fast: missing params", lambda: GCMAlgorithmFast({N.MOTIF_SIZES: [2]}), [(1,)])
for seed in (0, 1, 2, 3):
    run(
        "fast: seed sweep %d" % seed,
        fast([2, 3, 4], ["e", "t", "k4"], [clique_motif, clique_motif, clique_motif]),
        rand_jds(120, (3, 2, 1), 100 + seed, (2, 3, 4)),
        seed=seed,
    )

# via the factory and the networkx wrapper (uses GCMAlgorithmFast internally)
print("== fast: through the network wrapper")
random.seed(99)
np.random.seed(99)
net_params = {
    N.MOTIF_SIZES: [2, 3],
    N.EDGE_NAMES: ["2-clique", "3-clique"],
    N.BUILD_FUNCTIONS: [clique_motif, clique_motif],
}
try:
    G = GCMAlgorithmNetwork(net_params).random_clustered_graph(rand_jds(30, (2, 2), 8, (2, 3)))
    g = getattr(G, "G", G)
    print("   graph", type(G).__name__, h(sorted(g.edges(data=True), key=repr)) if hasattr(g, "edges") else h(vars(G)))
except BaseException as e:  # noqa: BLE001
    print("   raised", type(e).__name__, str(e)[:200])
print("   rng", rng_digest())

# --------------------------------------------------------------------------
# GCMAlgorithmCustomMotifs
# --------------------------------------------------------------------------
SUITE_JDS = [
    (2, 1, 0, 1, 1, 0, 0),
    (1, 1, 0, 1, 1, 0, 0),
    (3, 1, 1, 0, 0, 1, 0),
    (2, 0, 1, 0, 0, 1, 0),
    (0, 0, 0, 1, 0, 0, 1),
    (1, 0, 0, 1, 0, 0, 0),
    (1, 0, 1, 0, 0, 0, 0),
    (1, 0, 1, 0, 0, 0, 0),
    (1, 0, 0, 1, 0, 0, 0),
    (1, 0, 0, 1, 0, 0, 0),
    (1, 0, 1, 0, 0, 0, 0),
    (0, 0, 1, 0, 0, 0, 0),
]
SUITE = dict(
    sizes=[2, 3, 2, 2, 2, 2, 1],
    names=[twoclique_names, threeclique_names, diamond_names, pentagon_names],
    builders=[bare_edge, threeclique, diamond, pentagon],
    indices=[[0], [1], [2, 3], [4, 5, 6]],
)

for seed in (0, 1, 2):
    run("custom: suite example, seed %d" % seed, custom(**SUITE), list(SUITE_JDS), seed=seed)
run("custom: suite example, three calls on one instance", custom(**SUITE), list(SUITE_JDS), repeat_calls=3)
run("custom: empty jds, no motif types", custom([], [], [], []), [])
run("custom: empty jds but motif types", custom([2], [twoclique_names], [bare_edge], [[0]]), [])
run("custom: no motif types", custom([2], [twoclique_names], [bare_edge], []), [(1,)] * 4)
run("custom: all zero degrees", custom([2, 3], [twoclique_names, threeclique_names], [bare_edge, threeclique], [[0], [1]]), [(0, 0)] * 4)
run("custom: bare 2-clique edge (tuple)", custom([2], [twoclique_names], [bare_edge], [[0]]), rand_jds(20, (3,), 11, (2,)))
run("custom: bare 2-clique edge (list)", custom([2], [twoclique_names], [bare_edge_list], [[0]]), rand_jds(20, (3,), 12, (2,)))
run("custom: bare edge, names as 1-tuple", custom([2], [twoclique_names_tuple], [bare_edge], [[0]]), rand_jds(10, (2,), 13, (2,)))
run("custom: one wrapped edge, string name", custom([2], [twoclique_names], [one_edge_wrapped], [[0]]), rand_jds(10, (2,), 14, (2,)))
run("custom: one wrapped edge, tuple name", custom([2], [twoclique_names_tuple], [one_edge_wrapped], [[0]]), rand_jds(10, (2,), 15, (2,)))
run("custom: exactly two edges (tuples)", custom([3], [two_edge_names], [two_edges], [[0]]), [(1,)] * 9)
run("custom: exactly two edges (lists)", custom([3], [two_edge_names], [two_edges_lists], [[0]]), [(1,)] * 9)
run("custom: no edges", custom([2], [lambda: ()], [no_edges], [[0]]), [(1,)] * 6)
run("custom: names shorter than edges", custom([3], [short_names], [threeclique], [[0]]), [(1,)] * 6)
run("custom: names longer than edges", custom([3], [long_names], [threeclique], [[0]]), [(1,)] * 6)
run("custom: odd stub count (leftover partition)", custom([2], [twoclique_names], [bare_edge], [[0]]), [(1,), (2,), (2,)])
run("custom: leftover 3-clique stubs", custom([3], [threeclique_names], [threeclique], [[0]]), [(2,), (2,), (1,), (3,)])
run(
    "custom: two-orbit motif, second slot runs out of partitions",
    custom([2, 2], [diamond_names], [diamond], [[0, 1]]),
    [(1, 1), (1, 1), (1, 0), (1, 0)],
)
run(
    "custom: two-orbit motif, second slot has spare partitions",
    custom([2, 2], [diamond_names], [diamond], [[0, 1]]),
    [(1, 1), (1, 1), (0, 1), (0, 1)],
)
run(
    "custom: same slot used by two motif types",
    custom([2, 3], [twoclique_names, threeclique_names], [bare_edge, threeclique], [[0], [0, 0]]),
    [(1, 0)] * 12,
)
run(
    "custom: slot reused inside one motif",
    custom([2], [diamond_names], [diamond], [[0, 0]]),
    [(1,)] * 12,
)
run("custom: empty motif index list", custom([2], [twoclique_names], [bare_edge], [[]]), [(1,)] * 4)
run("custom: motif index out of range", custom([2], [twoclique_names], [bare_edge], [[3]]), [(1,)] * 4)
run("custom: negative motif index", custom([2, 3], [threeclique_names], [threeclique], [[-1]]), [(1, 1)] * 6)
run("custom: motif sizes too short", custom([2], [twoclique_names, threeclique_names], [bare_edge, threeclique], [[0], [1]]), [(1, 1)] * 6)
run("custom: builders too short", custom([2, 3], [twoclique_names, threeclique_names], [bare_edge], [[0], [1]]), [(1, 1)] * 6)
run("custom: builders too short but none needed", custom([2, 3], [twoclique_names, threeclique_names], [bare_edge], [[0], [1]]), [(1, 0)] * 6)
run("custom: names too short", custom([2, 3], [twoclique_names], [bare_edge, threeclique], [[0], [1]]), [(1, 1)] * 6)
run("custom: names too short and builder returns generator", custom([2, 3], [twoclique_names], [bare_edge, gen_edges], [[0], [1]]), [(1, 1)] * 6)
run("custom: builder returns generator", custom([2], [twoclique_names], [gen_edges], [[0]]), [(1,)] * 4)
run("custom: builder returns two-element string", custom([2], [twoclique_names], [lambda vs: "ab"], [[0]]), [(1,)] * 4)
run("custom: builder returns empty tuple pair", custom([2], [two_edge_names], [lambda vs: ((), ())], [[0]]), [(1,)] * 4)
run("custom: builder returns dict of two", custom([2], [two_edge_names], [lambda vs: {0: vs[0], 1: vs[1]}], [[0]]), [(1,)] * 4)
run("custom: builder returns set of two", custom([2], [two_edge_names], [lambda vs: {vs[0], vs[1] + 100}], [[0]]), [(1,)] * 4)
run("custom: builder mutates its argument", custom([3], [threeclique_names], [mutating_builder], [[0]]), [(1,)] * 9)
run("custom: builder fails on third motif", custom([2], [lambda: ("e",)], [make_failing(2)], [[0]]), [(1,)] * 8)
run("custom: name callback fails", custom([2], [lambda: 1 / 0], [bare_edge], [[0]]), [(1,)] * 4)
run("custom: name callback returns None (bare)", custom([2], [lambda: None], [bare_edge], [[0]]), [(1,)] * 4)
run("custom: name callback returns None (multi)", custom([3], [lambda: None], [threeclique], [[0]]), [(1,)] * 6)
run("custom: motif size zero", custom([0], [twoclique_names], [bare_edge], [[0]]), [(1,)] * 4)
run("custom: motif size negative", custom([-2], [twoclique_names], [bare_edge], [[0]]), [(1,)] * 4)
run("custom: motif size float", custom([2.0], [twoclique_names], [bare_edge], [[0]]), [(1,)] * 4)
run("custom: motif size bigger than stubs", custom([9], [twoclique_names], [bare_edge], [[0]]), [(1,)] * 4)
run("custom: float degree", custom([2, 2], [twoclique_names], [bare_edge], [[0]]), [(1, 1), (1, 2.5), (1, 1)])
run("custom: negative degree", custom([2], [twoclique_names], [bare_edge], [[0]]), [(2,), (-3,), (1,), (1,)])
run("custom: ragged joint degrees", custom([2, 2], [twoclique_names, twoclique_names], [bare_edge, bare_edge], [[0], [1]]), [(1, 1), (1,), (2, 2), (2, 1, 5)])
run("custom: jds None", custom([2], [twoclique_names], [bare_edge], [[0]]), None)
run(
    "custom: numpy joint degrees",
    custom(**SUITE),
    np.array(SUITE_JDS),
)
run(
    "custom: overridden id sequence and partition, two calls",
    lambda: CountingCustom(
        {
            N.MOTIF_SIZES: [2, 3, 2, 2],
            N.EDGE_NAMES: [twoclique_names, threeclique_names, diamond_names],
            N.BUILD_FUNCTIONS: [bare_edge, threeclique, diamond],
            N.MOTIF_INDICES: [[0], [1], [2, 3]],
        }
    ),
    [t[:4] for t in SUITE_JDS],
    repeat_calls=2,
)
run("custom: missing motif indices", lambda: GCMAlgorithmCustomMotifs({N.MOTIF_SIZES: [2], N.EDGE_NAMES: [], N.BUILD_FUNCTIONS: []}), [(1,)])
for seed in (5, 6, 7):
    big = rand_jds(90, (3, 2, 1, 1), 200 + seed, (2, 3, 2, 2))
    # make the diamond slots consistent: same stub totals in slots 2 and 3
    run(
        "custom: seed sweep %d" % seed,
        custom([2, 3, 2, 2], [twoclique_names, threeclique_names, diamond_names], [bare_edge, threeclique, diamond], [[0], [1], [2, 3]]),
        [(a, b, c, c) for a, b, c, _ in big],
        seed=seed,
    )

print("== factory")
from gcmpy.gcm_algorithm.gcm_algorithm_types import GCMAlgorithmTypes  # noqa: E402

for gcm_type in list(GCMAlgorithmTypes) + ["nonsense"]:
    random.seed(4)
    p = {
        N.MOTIF_SIZES: [2],
        N.EDGE_NAMES: [twoclique_names],
        N.BUILD_FUNCTIONS: [bare_edge],
        N.MOTIF_INDICES: [[0]],
    }
    try:
        algo = GCMAlgorithmFactory.resolve_algorithm(gcm_type, p)
        print("   ", gcm_type, type(algo).__name__)
        if isinstance(algo, (GCMAlgorithmFast, GCMAlgorithmCustomMotifs)):
            show_edge_list(algo.random_clustered_graph([(1,), (2,), (1,), (2,)]))
    except BaseException as e:  # noqa: BLE001
        print("   ", gcm_type, "raised", type(e).__name__, str(e)[:120])
    print("    rng", rng_digest())

print("== final rng", rng_digest())
