import sys, os; sys.path.insert(0, os.getcwd())

import builtins
import hashlib
import random
import re
from collections import OrderedDict
from fractions import Fraction

import numpy as np

from gcmpy.joint_degree.joint_degree import JointDegree
from gcmpy.joint_degree import JointDegreeDistribution
from gcmpy.joint_degree.joint_degree_loaders.joint_degree_manual import JointDegreeManual
from gcmpy.joint_degree.joint_degree_loaders.joint_degree_empirical import (
    JointDegreeEmpirical,
)
from gcmpy.names.joint_degree_names import JointDegreeNames as JN


_print = builtins.print


def print(*args):  # mask memory addresses so the digest is deterministic
    _print(re.sub(r"0x[0-9a-fA-F]+", "0xADDR", " ".join(str(a) for a in args)))


def rng_digest():
    return hashlib.sha256(repr(random.getstate()).encode()).hexdigest()[:16]


def np_digest():
    st = np.random.get_state()
    return hashlib.sha256(repr((st[0], st[1].tolist(), st[2:])).encode()).hexdigest()[:16]


def show(label, thunk):
    try:
        res = thunk()
        out = f"OK {type(res).__name__} {res!r}"
    except BaseException as e:  # noqa
        out = f"EXC {type(e).__name__}: {e}"
    if len(out) > 4000:
        out = out[:300] + " ...sha " + hashlib.sha256(out.encode()).hexdigest()
    print(f"{label}: {out} | rng={rng_digest()} np={np_digest()}")


class Bare(JointDegree):
    """Subclass that calls the base initialiser."""

    def __init__(self):
        super().__init__()

    def create_jdd(self):
        return super().create_jdd()


class NoInit(JointDegree):
    """Subclass that never sets the private attributes."""

    def __init__(self):
        pass

    def create_jdd(self):
        return None


def manual(jdd, sizes):
    return JointDegreeManual({JN.JDD: jdd, JN.MOTIF_SIZES: sizes})


def state(obj):
    d = dict(vars(obj))
    return repr(sorted((k, repr(v), type(v).__name__) for k, v in d.items()))


random.seed(12345)
np.random.seed(999)

# ---------------------------------------------------------------- abstract / init
show("abstract-new", lambda: JointDegree())
b = Bare()
print("bare state", state(b))
show("bare create_jdd", lambda: b.create_jdd())
show("bare jdd", lambda: b.jdd)
show("bare motif_sizes", lambda: b.motif_sizes)
show("bare sample", lambda: b.sample_jds_from_jdd(3))
show("bare normalise", lambda: b.normalise_jdd())
show("bare handshake-empty", lambda: b.handshaking_lemma([]))
show("bare handshake-nonempty", lambda: b.handshaking_lemma([(1, 2)]))
n = NoInit()
show("noinit handshake-empty", lambda: n.handshaking_lemma([]))
show("noinit handshake", lambda: n.handshaking_lemma([(1,)]))
show("noinit sample", lambda: n.sample_jds_from_jdd(2))
show("noinit normalise", lambda: n.normalise_jdd())
show("noinit jdd", lambda: n.jdd)
show("noinit motif_sizes", lambda: n.motif_sizes)
show("noinit convert-bad", lambda: n.convert_jds_to_jdd([[1, 2]]))
print("noinit state", state(n))
show("noinit convert-nolen", lambda: n.convert_jds_to_jdd(iter([(1,)])))
print("noinit state", state(n))
show("noinit convert-empty", lambda: n.convert_jds_to_jdd([]))
print("noinit state", state(n))
n.jdd = {(1,): 2.0}
n.motif_sizes = [2]
print("noinit state", state(n))
show("noinit sample after setters", lambda: n.sample_jds_from_jdd(5))

# ---------------------------------------------------------------- handshaking_lemma
cases = [
    ("h1", [(1, 2), (2, 2), (0, 1)], [2, 3]),
    ("h2 divisible", [(1, 3), (1, 0)], [2, 3]),
    ("h3 single", [(1,)], [5]),
    ("h4 lists", [[1, 2], [0, 0]], [2, 3]),
    ("h5 ragged", [(1, 2, 3), (1, 2)], [2, 3, 4]),
    ("h6 sizes-short", [(1, 2), (1, 2)], [2]),
    ("h7 sizes-long", [(1, 1)], [3, 3, 3]),
    ("h8 zero-size", [(1, 1)], [0, 2]),
    ("h9 size-one", [(4, 7)], [1, 1]),
    ("h10 negative", [(-1, -2), (0, 0)], [2, 3]),
    ("h11 floats", [(1.5, 2.0)], [2, 3]),
    ("h12 float-sizes", [(1, 2)], [2.0, 3.0]),
    ("h13 neg-size", [(1, 2)], [-3, 2]),
    ("h14 fractions", [(Fraction(1), Fraction(2))], [2, 3]),
    ("h15 numpy", [tuple(np.array([1, 2])), tuple(np.array([2, 2]))], [3, 4]),
    ("h16 strings", [("a", "b")], [2, 3]),
    ("h17 big", [(i % 5, (i * 7) % 4, i % 3) for i in range(101)], [2, 3, 4]),
    ("h18 empty-tuples", [(), ()], [2]),
    ("h19 sizes-none", [(1, 2)], None),
    ("h20 tuple-outer", ((1, 2), (1, 1)), [2, 3]),
    ("h21 generators", [iter([1, 2])], [2, 3]),
]
for label, jds, sizes in cases:
    obj = manual({(0, 0): 1.0}, sizes)
    sizes_before = repr(sizes)
    arg = jds
    holder = {}

    def call():
        holder["res"] = obj.handshaking_lemma(arg)
        return holder["res"]

    show(label, call)
    print("   arg after:", repr(arg), "same object:", holder.get("res") is arg,
          "sizes:", repr(sizes), sizes_before == repr(sizes))
    if "res" in holder and isinstance(arg, list):
        # repeated call on the already repaired sequence (same object history)
        show(label + " again", call)
        print("   arg after:", repr(arg), "same object:", holder.get("res") is arg)
        print("   entry types:", [type(e).__name__ for e in arg][:6])

# ---------------------------------------------------------------- sample_jds_from_jdd
jdd_cases = [
    ("s1", {(1, 0): 0.2, (0, 1): 0.3, (2, 2): 0.5}, [2, 3]),
    ("s2 unnormalised", {(3, 1): 2, (1, 1): 5, (0, 0): 1}, [2, 3]),
    ("s3 single key", {(1, 1, 1): 1.0}, [2, 3, 4]),
    ("s4 ordered", OrderedDict([((2,), 0.5), ((1,), 0.5)]), [2]),
    ("s5 zero weights", {(1, 0): 0.0, (0, 1): 0.0}, [2, 3]),
    ("s6 negative weights", {(1, 0): -1.0, (0, 1): 0.5}, [2, 3]),
    ("s7 empty", {}, [2, 3]),
    ("s8 list keys?", {1: 0.5, 2: 0.5}, [2]),
    ("s9 inf", {(1, 2): float("inf"), (0, 0): 1.0}, [2, 3]),
    ("s10 none jdd", None, [2]),
    ("s11 numpy weights", {(1, 2): np.float64(0.25), (2, 1): np.float64(0.75)}, [3, 2]),
]
for label, jdd, sizes in jdd_cases:
    obj = manual(jdd, sizes)
    for N in (0, 1, 7, 50, -1, 2.0, None, "3"):
        show(f"{label} N={N!r}", lambda: obj.sample_jds_from_jdd(N))
    # repeated calls, same object
    show(f"{label} repeat", lambda: [obj.sample_jds_from_jdd(11) for _ in range(3)])
    print("   jdd after:", repr(obj.jdd), "is same:", obj.jdd is jdd, "sizes:", repr(obj.motif_sizes))
    print("   key order:", list(jdd) if jdd is not None else None)

show("s kw", lambda: manual({(1, 1): 1.0}, [2, 2]).sample_jds_from_jdd(N=3))

# properties of the sample: divisibility and entry usability
obj = manual({(1, 0): 0.2, (0, 1): 0.3, (2, 2): 0.5}, [2, 3])
for trial in range(5):
    jds = obj.sample_jds_from_jdd(997)
    tot = [sum(c) for c in zip(*jds)]
    print("sample totals", trial, len(jds), tot, [t % m for t, m in zip(tot, obj.motif_sizes)],
          hashlib.sha256(repr(jds).encode()).hexdigest()[:16], rng_digest())

# ---------------------------------------------------------------- normalise_jdd
norm_cases = [
    ("n1", {(1, 0): 2.0, (0, 1): 3.0, (2, 2): 5.0}),
    ("n2 ints", {(1,): 1, (2,): 2, (3,): 4}),
    ("n3 tiny", {(1,): 1e-300, (2,): 3e-300, (3,): 0.1}),
    ("n4 zero-sum", {(1,): 0.0, (2,): 0.0}),
    ("n5 int-zero-sum", {(1,): 0, (2,): 0}),
    ("n6 empty", {}),
    ("n7 mixed", {(1,): Fraction(1, 3), (2,): Fraction(2, 3), (3,): 1}),
    ("n8 numpy", {(1,): np.float64(0.1), (2,): np.float32(0.7)}),
    ("n9 strings", {(1,): "a"}),
    ("n10 many", {(i, j): 0.1 * i + 0.01 * j + 1e-9 for i in range(7) for j in range(9)}),
    ("n11 nan", {(1,): float("nan"), (2,): 1.0}),
]
for label, jdd in norm_cases:
    obj = manual(jdd, [2, 3])
    show(label, lambda: obj.normalise_jdd())
    print("   jdd after:", repr(obj.jdd) if len(repr(obj.jdd)) < 3000 else hashlib.sha256(repr(obj.jdd).encode()).hexdigest(),
          "same obj:", obj.jdd is jdd, [type(v).__name__ for v in list(jdd.values())[:4]])
    show(label + " again", lambda: obj.normalise_jdd())
    print("   jdd after:", repr(obj.jdd) if len(repr(obj.jdd)) < 3000 else hashlib.sha256(repr(obj.jdd).encode()).hexdigest())
    show(label + " sample", lambda: obj.sample_jds_from_jdd(9))

# ---------------------------------------------------------------- convert_jds_to_jdd
conv_cases = [
    ("c1", [(1, 2), (2, 1), (1, 2), (0, 0), (1, 2)]),
    ("c2 empty", []),
    ("c3 one", [(3,)]),
    ("c4 unhashable", [(1, 2), [1, 2]]),
    ("c5 tuple-outer", ((1, 2), (1, 2), (0, 1))),
    ("c6 string", "abca"),
    ("c7 dict", {(1, 2): 5, (0, 0): 7}),
    ("c8 counter-like order", [(5,), (4,), (5,), (3,), (4,), (5,), (1,)]),
    ("c9 no len", iter([(1,)])),
    ("c10 thirds", [(1,), (2,), (3,)] * 3 + [(1,)]),
    ("c11 int/float equal keys", [(1,), (1.0,), (True,)]),
]
for label, jds in conv_cases:
    old = {("old",): 1.0}
    obj = manual(old, [2, 3])
    show(label, lambda: obj.convert_jds_to_jdd(jds))
    print("   jdd after:", repr(obj.jdd), "replaced:", obj.jdd is not old, "old:", repr(old),
          "type:", type(obj.jdd).__name__, "arg:", repr(jds) if not hasattr(jds, "__next__") else "iter")
    first = obj.jdd
    show(label + " again", lambda: obj.convert_jds_to_jdd(jds))
    print("   jdd after:", repr(obj.jdd), "fresh dict:", obj.jdd is not first, "first:", repr(first))
    show(label + " then sample", lambda: obj.sample_jds_from_jdd(6))
    show(label + " then normalise", lambda: (obj.normalise_jdd(), obj.jdd)[1])

# ---------------------------------------------------------------- via loaders / distribution
emp = [(1, 2), (2, 1), (1, 2), (0, 0), (1, 2), (3, 3)]
show("empirical ctor", lambda: state(JointDegreeEmpirical({JN.MOTIF_SIZES: [2, 3], JN.JDS: emp})))
e = JointDegreeEmpirical({JN.MOTIF_SIZES: [2, 3], JN.JDS: emp})
show("empirical sample", lambda: e.sample_jds_from_jdd(20))
e.empirical_jds = [(4, 4)] * 3
show("empirical recreate", lambda: (e.create_jdd(), e.jdd)[1])
show("empirical sample2", lambda: e.sample_jds_from_jdd(5))
show("empirical bad params", lambda: JointDegreeEmpirical({}))
show("manual bad params", lambda: JointDegreeManual({}))

show("dist manual", lambda: state(JointDegreeDistribution.load_joint_degree(
    {JN.JOINT_DEGREE_TYPE: "manual", JN.JDD: {(1, 1): 0.5, (2, 0): 0.5}, JN.MOTIF_SIZES: [2, 3]})))
show("dist empirical", lambda: JointDegreeDistribution.load_joint_degree(
    {JN.JOINT_DEGREE_TYPE: "empirical", JN.JDS: emp, JN.MOTIF_SIZES: [2, 3]}).sample_jds_from_jdd(13))


def try_loader(label, params, N=40):
    def run():
        o = JointDegreeDistribution.load_joint_degree(params)
        jdd = o.jdd
        dig = hashlib.sha256(repr(jdd).encode()).hexdigest()[:16]
        jds = o.sample_jds_from_jdd(N)
        jds2 = o.sample_jds_from_jdd(N)
        return (len(jdd), dig, jds, jds2, repr(o.motif_sizes), o.jdd is jdd)
    show(label, run)


def pois(k, lam=2.0):
    import math
    return math.exp(-lam) * lam ** k / math.factorial(k)


try_loader("loader delta", {JN.JOINT_DEGREE_TYPE: "delta", JN.FP: pois, JN.MOTIF_SIZES: [2, 3],
                            JN.LOW_HIGH_DEGREE_BOUND: (0, 12), JN.TARGET_K: 3, JN.PROBS: [0.25, 0.75]})
try_loader("loader split", {JN.JOINT_DEGREE_TYPE: "split_degree", JN.FP: pois, JN.MOTIF_SIZES: [2, 3],
                            JN.LOW_HIGH_DEGREE_BOUND: (0, 8), JN.PROBS: [0.4, 0.6]})
try_loader("loader function", {JN.JOINT_DEGREE_TYPE: "function",
                               JN.FP: lambda jd: pois(jd[0]) * pois(jd[1], 1.0),
                               JN.MOTIF_SIZES: [2, 3], JN.LOW_HIGH_DEGREE_BOUND: [(0, 6), (0, 4)]})
try_loader("loader marginal direct", {JN.JOINT_DEGREE_TYPE: "marginal",
                                      JN.ARR_FP: [pois, lambda k: pois(k, 1.0)],
                                      JN.MOTIF_SIZES: [2, 3], JN.LOW_HIGH_DEGREE_BOUND: [(0, 6), (0, 4)],
                                      JN.USE_SAMPLING: False})
try_loader("loader marginal sampling", {JN.JOINT_DEGREE_TYPE: "marginal",
                                        JN.ARR_FP: [pois, lambda k: pois(k, 1.0)],
                                        JN.MOTIF_SIZES: [2, 3], JN.LOW_HIGH_DEGREE_BOUND: [(0, 6), (0, 4)],
                                        JN.USE_SAMPLING: True, JN.N_SAMPLES: 200})
try_loader("loader cover", {JN.JOINT_DEGREE_TYPE: "cover",
                            JN.COVER: [(0, 1), (1, 2), (2, 3), (0, 1, 2), (2, 3, 4), (4, 5)]})

# ---------------------------------------------------------------- downstream use of entries
try:
    from gcmpy.gcm_algorithm.gcm_algorithm_network import GCMAlgorithmNetwork  # noqa
    from gcmpy.names.gcm_algorithm_names import GCMAlgorithmNames as GN
    from gcmpy.motif_generators.clique_motif import clique_motif
    o = manual({(1, 0): 0.2, (0, 1): 0.3, (2, 2): 0.5}, [2, 3])
    jds = o.sample_jds_from_jdd(60)
    params = {GN.MOTIF_SIZES: [2, 3], GN.BUILD_FUNCTIONS: [clique_motif, clique_motif],
              GN.EDGE_NAMES: ["2-clique", "3-clique"]}
    show("downstream", lambda: sorted(map(repr, GCMAlgorithmNetwork(params).random_clustered_graph(jds)._G.edges(data=True)))[:12])
except BaseException as ex:  # noqa
    print("downstream skipped", type(ex).__name__)

# class surface
print("public attrs", sorted(a for a in dir(JointDegree) if not a.startswith("_")))
print("method kinds", [(a, type(JointDegree.__dict__[a]).__name__) for a in sorted(JointDegree.__dict__) if not a.startswith("__")])
import gcmpy.joint_degree.joint_degree as mod
print("module public", sorted(a for a in dir(mod) if not a.startswith("_")))
print("final rng", rng_digest(), np_digest())
