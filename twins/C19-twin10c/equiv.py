import sys, os; sys.path.insert(0, os.getcwd())
import hashlib, random, warnings, pickle
from fractions import Fraction
from decimal import Decimal
import numpy as np

random.seed(1234)
np.random.seed(1234)

LINES = []


def show(v):
    if isinstance(v, np.ndarray) and v.dtype == object:
        return "ndarray[object,%s,%s]" % (v.shape, [show(x) for x in v.ravel().tolist()])
    if isinstance(v, np.ndarray):
        return "ndarray[%s,%s,%s]" % (v.dtype, v.shape, v.tobytes().hex())
    if isinstance(v, np.generic):
        return "%s:%s" % (type(v).__name__, v.tobytes().hex())
    if isinstance(v, float):
        return "float:%s" % v.hex() if v == v and abs(v) != float("inf") else "float:%r" % v
    return "%s:%r" % (type(v).__name__, v)


def call(label, f, *args):
    with warnings.catch_warnings(record=True) as w:
        warnings.simplefilter("always")
        try:
            r = f(*args)
            out = "OK " + (show(r) if not callable(r) else "callable:%s:%s" % (r.__name__, r.__qualname__))
        except BaseException as e:
            r = None
            out = "EXC %s: %s" % (type(e).__name__, e)
        ws = ",".join("%s(%s)" % (x.category.__name__, x.message) for x in w)
    LINES.append("%s -> %s | warn=[%s]" % (label, out, ws))
    return r


def finish():
    rs = hashlib.sha256(repr(random.getstate()).encode()).hexdigest()
    ns = hashlib.sha256(pickle.dumps(np.random.get_state())).hexdigest()
    LINES.append("random state " + rs)
    LINES.append("numpy state " + ns)
    body = "\n".join(LINES)
    print(body)
    print("DIGEST", hashlib.sha256(body.encode()).hexdigest())

from gcmpy.distributions.scale_free_cut_off import scale_free_cut_off
import gcmpy

assert gcmpy.scale_free_cut_off is scale_free_cut_off
INF = float("inf")
PARAMS = [(2.5, 10.0), (2, 5), (0, 10.0), (0.0, 1e3), (-1.0, 5.0), (-3, 2.0), (3.0, INF), (2, INF), (1.5, INF),
          (2.5, 0), (2.5, 0.0), (2.5, -0.0), (2.5, np.float64(0.0)), (2.5, 1e-3), (2.5, 1e-300), (2.5, np.float64(10)),
          (2.5, np.float32(10)), (2.5, np.int64(10)), (np.float64(2.5), 10.0), (np.float32(2.5), 10.0),
          (np.int64(2), 10), (Fraction(5, 2), Fraction(10)), (Decimal("2.5"), 10.0), (2.5, Decimal(10)),
          ("x", 10.0), (2.5, "x"), (2.5, None), (None, 10.0), (complex(2, 1), 10.0), (2.5, complex(10, 0)),
          (np.array([2.5]), 10.0), (2.5, np.array([10.0])), (np.array([2.5]), np.array([10.0])),
          (np.array([2.5, 3.0]), 10.0), (2.5, np.array([10.0, 5.0])), (np.array(2.5), np.array(10.0)),
          (1e4, 10.0), (5000, 10.0), (INF, 10.0), (2.5, 1e6), (0.5, 50.0), (2.5, True), (True, 3.0), ([2.5], 10.0),
          (2.5, [10.0]), (2.5, 10 ** 400)]
KS = list(range(1, 31)) + [100, 10 ** 4, 10 ** 400, 0, 0.0, -1, -2, 2.0, 2.5, 0.5, np.int64(3), np.int8(3),
                           np.float64(3.0), True, "x", None, Fraction(3), Decimal(3), np.array([1, 2]),
                           np.array([1.0, 2.0]), complex(2, 0)]
for i, (al, ka) in enumerate(PARAMS):
    p = call("make[%d] %r %r" % (i, al, ka), scale_free_cut_off, al, ka)
    LINES.append("params after[%d] %s %s" % (i, show(al), show(ka)))
    if p is None:
        continue
    for k in KS:
        call("p[%d](%r)" % (i, k), p, k)
    for k in (3, 1, 3, 0, 3):
        call("again p[%d](%r)" % (i, k), p, k)
    call("sum[%d]" % i, lambda: sum(p(k) for k in range(1, 1500)))
    p2 = call("remake[%d]" % i, scale_free_cut_off, al, ka)
    call("remade p[%d](3)" % i, p2, 3)
for j in range(200):
    al = random.uniform(0.0, 5.0)
    ka = random.uniform(0.5, 200.0)
    k = random.randrange(1, 80)
    call("rnd[%d] %r %r %d" % (j, al, ka, k), scale_free_cut_off(al, ka), k)
    al2 = float(np.random.exponential(1.5))
    ka2 = float(np.random.gamma(2.0, 10.0)) + 0.1
    call("rnd2[%d] %r %r %d" % (j, al2, ka2, k), scale_free_cut_off(al2, ka2), k)
    call("rndint[%d]" % j, scale_free_cut_off(random.randrange(0, 6), random.randrange(1, 40)), k)
finish()
