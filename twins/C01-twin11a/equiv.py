import sys, os; sys.path.insert(0, os.getcwd())
import hashlib
import random

import numpy as np

from gcmpy.names.gcm_algorithm_names import GCMAlgorithmNames as N
from gcmpy.gcm_algorithm.gcm_algorithm import GCMAlgorithm
from gcmpy.gcm_algorithm.gcm_algorithm_fast import GCMAlgorithmFast
from gcmpy.gcm_algorithm.gcm_algorithm_network import GCMAlgorithmNetwork
from gcmpy.gcm_algorithm.gcm_algorithm_custom_motifs import GCMAlgorithmCustomMotifs
from gcmpy.gcm_algorithm.gcm_algorithm_factory import GCMAlgorithmFactory
from gcmpy.gcm_algorithm.gcm_algorithm_main import GCMAlgorithmMain
from gcmpy.gcm_algorithm.gcm_algorithm_types import GCMAlgorithmTypes as T
from gcmpy.network.edge_list import LightWeightEdgeList
from gcmpy.network.network import Network
from gcmpy.motif_generators.clique_motif import clique_motif
from gcmpy.motif_generators.cycle_motif import cycle_motif
from gcmpy.motif_generators.diamond_motif import diamond_motif

OUT = []


def emit(*parts):
    OUT.append(" ".join(str(p) for p in parts))


def h(obj):
    return hashlib.sha256(repr(obj).encode()).hexdigest()[:16]


def rng_digest():
    return "py=" + h(random.getstate()) + " np=" + h(
        tuple(str(x) for x in np.random.get_state())
    )


def exc_chain(e):
    """type names along the __context__ chain plus the messages"""
    out = []
    while e is not None:
        out.append(f"{type(e).__name__}:{e}")
        e = e.__context__
    return " <- ".join(out)


def attempt(label, fn):
    try:
        r = fn()
    except BaseException as e:  # noqa
        emit(label, "EXC", exc_chain(e), "|", rng_digest())
        return None
    emit(label, "OK", r, "|", rng_digest())
    return r


def make_jds(n, sizes, maxdeg, rnd):
    """joint degree sequence with column k summing to a multiple of sizes[k]"""
    jds = [[rnd.randrange(0, maxdeg + 1) for _ in sizes] for _ in range(n)]
    for k, s in enumerate(sizes):
        v = 0
        while sum(r[k] for r in jds) % s:
            jds[v % n][k] += 1
            v += 1
    return [tuple(r) for r in jds]


def describe(g):
    """bit-for-bit description of whatever a generator returned"""
    if isinstance(g, LightWeightEdgeList):
        return "LWEL " + h(
            (g.edge_list, g.topologies, g.motif_id, g.joint_degrees)
        ) + f" ne={len(g.edge_list)} nt={len(g.topologies)} nid={len(g.motif_id)}" + (
            f" ids={g.motif_id[:3]}..{g.motif_id[-3:]}" if g.motif_id else " ids=[]"
        )
    if isinstance(g, Network):
        G = g.G
        return "NET " + h(
            (list(G.nodes(data=True)), list(G.edges(data=True)))
        ) + f" n={G.number_of_nodes()} m={G.number_of_edges()}"
    return f"{type(g).__name__} {g!r}"


def std_params(sizes, builders, names, gcm_type=None):
    p = {}
    if gcm_type is not None:
        p[N.GCM_TYPE] = gcm_type
    p[N.MOTIF_SIZES] = sizes
    p[N.BUILD_FUNCTIONS] = builders
    p[N.EDGE_NAMES] = names
    return p


# ---- custom-motif configuration (the one from the test-suite) -------------
def c_diamond(vs):
    return ((vs[0], vs[1]), (vs[1], vs[2]), (vs[2], vs[3]), (vs[3], vs[1]), (vs[0], vs[2]))


def c_diamond_names():
    return ("d-o", "d-o", "d-o", "d-o", "d-i")


def c_two(vs):
    return (vs[0], vs[1])


def c_two_names():
    return "2-clique"


def c_three(vs):
    return (vs[0], vs[1]), (vs[0], vs[2]), (vs[1], vs[2])


def c_three_names():
    return "3-clique", "3-clique", "3-clique"


def c_pent(vs):
    return ((vs[0], vs[1]), (vs[1], vs[2]), (vs[2], vs[3]), (vs[3], vs[4]), (vs[0], vs[4]), (vs[1], vs[3]))


def c_pent_names():
    return "p01", "p12", "p23", "p34", "p40", "p13"


CUSTOM_JDS = [
    (2, 1, 0, 1, 1, 0, 0), (1, 1, 0, 1, 1, 0, 0), (3, 1, 1, 0, 0, 1, 0),
    (2, 0, 1, 0, 0, 1, 0), (0, 0, 0, 1, 0, 0, 1), (1, 0, 0, 1, 0, 0, 0),
    (1, 0, 1, 0, 0, 0, 0), (1, 0, 1, 0, 0, 0, 0), (1, 0, 0, 1, 0, 0, 0),
    (1, 0, 0, 1, 0, 0, 0), (1, 0, 1, 0, 0, 0, 0), (0, 0, 1, 0, 0, 0, 0),
]


def custom_params(gcm_type=None):
    p = std_params(
        [2, 3, 2, 2, 2, 2, 1],
        [c_two, c_three, c_diamond, c_pent],
        [c_two_names, c_three_names, c_diamond_names, c_pent_names],
        gcm_type,
    )
    p[N.MOTIF_INDICES] = [[0], [1], [2, 3], [4, 5, 6]]
    return p


CONFIGS = [
    ("k2", [2], [clique_motif], ["2-clique"]),
    ("k2k3", [2, 3], [clique_motif, clique_motif], ["2-clique", "3-clique"]),
    ("k2c4d4", [2, 4, 4], [clique_motif, cycle_motif, diamond_motif], ["e", "sq", "dia"]),
    ("k3c5k4", [3, 5, 4], [clique_motif, cycle_motif, clique_motif], ["tri", "c5", "k4"]),
]


def seed_all(s):
    random.seed(s)
    np.random.seed(s)


def finish():
    emit("FINAL", rng_digest())
    text = "\n".join(OUT)
    print(text)
    print("DIGEST", hashlib.sha256(text.encode()).hexdigest())

# =========================== variant a: GCMAlgorithm.infinite_sequence =====
import types
import itertools

seed_all(101)
rnd = random.Random(7)

objs = {
    "fast": GCMAlgorithmFast(std_params([2], [clique_motif], ["e"])),
    "net": GCMAlgorithmNetwork(std_params([2], [clique_motif], ["e"])),
    "motifs": GCMAlgorithmCustomMotifs(custom_params()),
}

# 1. the helper itself, on every concrete class, repeated / interleaved calls
for name, o in objs.items():
    g1 = o.infinite_sequence()
    g2 = o.infinite_sequence()
    emit(name, "type", type(g1).__name__, isinstance(g1, types.GeneratorType),
         g1 is g2, g1.__name__, g1.__qualname__)
    emit(name, "iter-is-self", iter(g1) is g1)
    a = [next(g1) for _ in range(5)]
    b = [next(g2) for _ in range(3)]
    a += list(itertools.islice(g1, 4))
    emit(name, "interleaved", a, b, [type(x).__name__ for x in a[:2]])
    # generator protocol: send is ignored, the value just keeps counting
    emit(name, "send", g1.send("x"), g1.send(None), g2.send(123), next(g2))
    # send of a non-None value into a fresh generator
    g3 = o.infinite_sequence()
    attempt(name + " fresh-send", lambda: g3.send(1))
    emit(name, "after-fresh-send", next(g3), next(g3))
    # throw: propagates, generator is finished afterwards
    attempt(name + " throw", lambda: g3.throw(ValueError("boom")))
    attempt(name + " after-throw", lambda: next(g3))
    # throw into a fresh generator
    g4 = o.infinite_sequence()
    attempt(name + " fresh-throw", lambda: g4.throw(KeyError("k")))
    attempt(name + " after-fresh-throw", lambda: next(g4))
    # close
    emit(name, "close", g2.close())
    attempt(name + " after-close", lambda: next(g2))
    g5 = o.infinite_sequence()
    emit(name, "close-fresh", g5.close())
    attempt(name + " after-close-fresh", lambda: next(g5))
    # long run: values stay exact ints, one apart
    g6 = o.infinite_sequence()
    tail = None
    for tail in itertools.islice(g6, 200000):
        pass
    emit(name, "long", tail, next(g6), type(tail).__name__)
    # unbound call with a foreign self (self is never used)
    emit(name, "unbound", list(itertools.islice(GCMAlgorithm.infinite_sequence(None), 4)))
    emit(name, "zip", list(zip(o.infinite_sequence(), "abc")))

# 2. the motif ids the three generators hand out (the only in-library consumer)
for s in range(12):
    for cname, sizes, builders, names in CONFIGS:
        n = rnd.choice([0, 1, 2, 5, 17, 60])
        jds = make_jds(n, sizes, 4, rnd) if n else []
        seed_all(1000 + s)
        for cls in (GCMAlgorithmFast, GCMAlgorithmNetwork):
            o = cls(std_params(sizes, builders, names))
            for rep in range(3):  # repeated calls on one object: ids restart at 0
                attempt(f"gen {cls.__name__} {cname} n={n} s={s} rep={rep}",
                        lambda: describe(o.random_clustered_graph(jds)))
    seed_all(2000 + s)
    o = GCMAlgorithmCustomMotifs(custom_params())
    for rep in range(3):
        attempt(f"gen custom s={s} rep={rep}",
                lambda: describe(o.random_clustered_graph(CUSTOM_JDS)))
    attempt(f"gen custom-empty s={s}", lambda: describe(o.random_clustered_graph([])))

# 3. through the entry point
for t in (T.FAST, T.NETWORK, "fast", "network"):
    seed_all(31)
    jds = make_jds(40, [2, 3], 3, rnd)
    p = std_params([2, 3], [clique_motif, clique_motif], ["a", "b"], t)
    attempt(f"main {t}", lambda: describe(GCMAlgorithmMain.load_gcm_algorithm(p).random_clustered_graph(jds)))
seed_all(32)
attempt("main motifs", lambda: describe(
    GCMAlgorithmMain.load_gcm_algorithm(custom_params("motifs")).random_clustered_graph(CUSTOM_JDS)))

# 4. malformed: handshake violated / missing keys -> same failures
attempt("bad handshake", lambda: describe(
    GCMAlgorithmFast(std_params([3], [clique_motif], ["t"])).random_clustered_graph([(1,), (1,)])))
attempt("missing key", lambda: GCMAlgorithmFast({N.MOTIF_SIZES: [2]}))
attempt("abstract", lambda: GCMAlgorithm({}))

finish()
