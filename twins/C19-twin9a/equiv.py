import sys, os; sys.path.insert(0, os.getcwd())
import hashlib
import random
import warnings
from decimal import Decimal
from fractions import Fraction

import numpy as np

import gcmpy
from gcmpy.distributions.power_law import power_law

random.seed(1901)
np.random.seed(1901)
warnings.simplefilter("always")


def show(x):
    if isinstance(x, np.ndarray):
        return "ndarray(%s,%s,%s)" % (x.dtype, x.shape, [repr(v) for v in x.ravel().tolist()])
    return "%s:%r" % (type(x).__name__, x)


def attempt(label, fn):
    with warnings.catch_warnings(record=True) as w:
        warnings.simplefilter("always")
        try:
            out = show(fn())
        except BaseException as e:
            out = "EXC %s %s" % (type(e).__name__, e)
    ws = "; ".join("%s %s" % (x.category.__name__, x.message) for x in w)
    print(label, "->", out, "| warnings:", ws)


KS = [1, 2, 3, 7, 10, 100, 12345, 0, -1, -3, 0.5, 2.0, True, False,
      np.int64(4), np.float32(3.0), float("inf"), float("nan"), 1 + 2j,
      "3", None, [1], Fraction(3, 2), Decimal(2), np.array([1, 2, 3]),
      np.array([1.0, 4.0]), 10 ** 400]

ALPHAS = [2.0, 2.5, 3.0, 1.5, 1.2, 1.05, 4, 7, 20.0, 60.0, 1023.0, 1024.0, 2000, 2000.5,
          float("inf"), True, 2 + 1j, 3 - 2j, Fraction(5, 2), Fraction(7, 3),
          np.float32(2.5), np.float64(2.25), np.float16(3.0), np.int64(3),
          np.array([2.0]), np.array([[3]]), np.array(2.5), np.array([2.0, 3.0]),
          np.array([], dtype=float), Decimal("2.5"), "2", None, [2.0], (2,), b"2"]

for alpha in ALPHAS:
    tag = "alpha=" + show(alpha)
    holder = {}

    def build(alpha=alpha, holder=holder):
        holder["p"] = power_law(alpha)
        return "built"

    attempt(tag + " build", build)
    print("  alpha after:", show(alpha))
    p = holder.get("p")
    if p is None:
        continue
    for k in KS:
        attempt("  " + tag + " k=" + show(k), lambda: p(k))
    attempt("  repeat k=3", lambda: p(3))
    attempt("  repeat k=3", lambda: p(3))
    attempt("  sum 1..2000", lambda: sum(p(k) for k in range(1, 2001)))

for alpha in (2.0, 2.5, 3.0):
    attempt("pkg-level alpha=%r" % alpha, lambda: gcmpy.power_law(alpha)(5))
    attempt("rebuilt alpha=%r" % alpha, lambda: power_law(alpha)(5) == power_law(alpha)(5))

for _ in range(40):
    alpha = 1.3 + 4.0 * random.random()
    p = power_law(alpha)
    print("rand alpha=%r" % alpha, [repr(p(k)) for k in (1, 2, 5, 50, 1000)])

print("py rng:", hashlib.sha256(repr(random.getstate()).encode()).hexdigest())
st = np.random.get_state()
print("np rng:", hashlib.sha256(repr((st[0], st[1].tolist(), st[2], st[3], st[4])).encode()).hexdigest())
