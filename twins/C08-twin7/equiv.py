import sys, os; sys.path.insert(0, os.getcwd())

import copy
import hashlib
import random

import numpy as np

from gcmpy.joint_degree.joint_degree import JointDegree
from gcmpy.joint_degree.joint_degree_loaders.joint_degree_cover import JointDegreeCover
from gcmpy.joint_degree.joint_degree_loaders.joint_degree_empirical import (
    JointDegreeEmpirical,
)
from gcmpy.joint_degree.joint_degree_loaders.joint_degree_manual import (
    JointDegreeManual,
)
from gcmpy.names.joint_degree_names import JointDegreeNames as N


def rng_digest():
    h = hashlib.sha256()
    h.update(repr(random.getstate()).encode())
    st = np.random.get_state()
    h.update(repr((st[0], st[1].tolist(), st[2], st[3], st[4])).encode())
    return h.hexdigest()[:16]


def show(label, value):
    print(f"{label}: {value!r}")


def attempt(label, fn):
    try:
        out = fn()
        shown = repr(out)
        if " object at 0x" in shown:
            shown = f"<{type(out).__name__} instance>"
        print(f"{label}: OK {shown}")
        return out
    except BaseException as e:  # noqa
        ctx = type(e.__context__).__name__ if e.__context__ is not None else None
        print(f"{label}: EXC {type(e).__name__} {str(e)!r} ctx={ctx}")
        return None


def state(obj):
    jdd = getattr(obj, "_jdd", "<unset>")
    if isinstance(jdd, dict):
        jdd = [(k, repr(v)) for k, v in jdd.items()]
    return (jdd, getattr(obj, "_motif_sizes", "<unset>"))


class Clique(list):
    """list that logs len() / iteration, to pin the evaluation order"""

    log = []

    def __len__(self):
        Clique.log.append(("len", tuple(list.__iter__(self))))
        return list.__len__(self)

    def __iter__(self):
        Clique.log.append(("iter", tuple(list.__iter__(self))))
        return list.__iter__(self)


COVERS = {
    "tri_edges_0": [(0, 1, 2), (2, 3), (3, 4), (0, 4), (1, 3, 4)],
    "one_based": [(1, 2), (2, 3), (3, 4, 5, 6), (1, 6), (5, 6)],
    "gap_sizes": [(0, 1), (2, 3, 4, 5, 6), (0, 6), (1, 2, 3, 4, 5)],
    "single_clique": [(0, 1, 2, 3)],
    "lists": [[0, 1], [1, 2], [2, 0], [0, 1, 2]],
    "sets": [{0, 1}, {1, 2, 3}, frozenset({3, 0})],
    "singleton_cliques": [(0,), (1,), (0, 1), (2,)],
    "repeated_clique": [(0, 1), (0, 1), (1, 2), (1, 2), (1, 2)],
    "repeat_vertex_in_clique": [(0, 0, 1), (1, 2)],
    "tuple_cover": ((0, 1, 2), (2, 3)),
    "numpy_ints": [tuple(np.array([0, 1, 2])), tuple(np.array([2, 3]))],
    "floats": [(0.0, 1.0), (1, 2)],
    "bool_vertices": [(False, True), (True, 2)],
    "start_at_2": [(2, 3), (3, 4)],
    "start_at_2_three": [(2, 3), (3, 4), (4, 1 + 4)],
    "non_contiguous": [(0, 1), (1, 5)],
    "negative": [(-1, 0), (0, 1)],
    "empty": [],
    "only_empty_cliques": [(), ()],
    "with_empty_clique": [(0, 1), (), (1, 2, 3)],
    "string_vertices": [("a", "b"), ("b", "c")],
    "int_clique": [(0, 1), 3],
    "none_cover": None,
    "dict_cover": {(0, 1): "x", (1, 2, 3): "y"},
    "big": [
        tuple(range(i, i + 2 + (i % 4))) for i in range(0, 60, 2)
    ] + [(61, 0, 30)],
}


def main():
    random.seed(12345)
    np.random.seed(54321)

    print("== JointDegree abstract")
    attempt("abstract", lambda: JointDegree())

    print("== JointDegreeCover construction")
    objs = {}
    for name, cover in COVERS.items():
        original = copy.deepcopy(cover)
        obj = attempt(f"cover[{name}] new", lambda: state(JointDegreeCover({N.COVER: cover})))
        show(f"cover[{name}] input unchanged", repr(cover) == repr(original))
        try:
            objs[name] = JointDegreeCover({N.COVER: cover})
        except BaseException:
            pass
        show(f"cover[{name}] rng", rng_digest())

    print("== missing key / bad params")
    attempt("missing key", lambda: JointDegreeCover({}))
    attempt("wrong key", lambda: JointDegreeCover({"cover": [(0, 1)]}))
    attempt("params None", lambda: JointDegreeCover(None))

    print("== generator cover (one-shot iterator)")
    attempt("iterator cover", lambda: state(JointDegreeCover({N.COVER: iter([(0, 1), (1, 2)])})))
    attempt(
        "generator cliques",
        lambda: state(JointDegreeCover({N.COVER: [(v for v in (0, 1)), (1, 2)]})),
    )

    print("== evaluation order with logging cliques")
    Clique.log = []
    cl = [Clique([1, 2, 3]), Clique([3, 4]), Clique([4, 1])]
    o = attempt("logging cover", lambda: state(JointDegreeCover({N.COVER: cl})))
    show("n len calls", sum(1 for k, _ in Clique.log if k == "len"))
    show("n iter calls", sum(1 for k, _ in Clique.log if k == "iter"))
    show("first iter index", [k for k, _ in Clique.log].index("iter"))

    print("== repeated create_jdd, setters, object history")
    for name in ("tri_edges_0", "one_based", "gap_sizes", "big"):
        obj = objs[name]
        show(f"{name} type", obj._type)
        show(f"{name} cover is input", obj.cover is COVERS[name])
        first = obj.jdd
        obj.create_jdd()
        show(f"{name} recreate state", state(obj))
        show(f"{name} jdd rebound", obj.jdd is not first)
        show(f"{name} old jdd intact", [(k, repr(v)) for k, v in first.items()])
        # change cover through the setter; motif sizes are NOT refreshed
        obj.cover = [(0, 1, 2), (0, 2)]
        attempt(f"{name} after cover setter", lambda: (obj.create_jdd(), state(obj))[1])
        obj.cover = [(0, 1), (1, 9)]
        attempt(f"{name} bad cover via setter", lambda: (obj.create_jdd(), state(obj))[1])
        show(f"{name} state after failure", state(obj))
        obj.cover = [(0, 1), 7]
        attempt(f"{name} int clique via setter", lambda: (obj.create_jdd(), state(obj))[1])
        obj.cover = [(v for v in (0, 1)), (1, 2)]
        attempt(f"{name} generator clique via setter", lambda: (obj.create_jdd(), state(obj))[1])
        obj.cover = []
        attempt(f"{name} empty via setter", lambda: (obj.create_jdd(), state(obj))[1])
        show(f"{name} state after empty", state(obj))
        obj.cover = COVERS[name]
        obj.motif_sizes = [99]
        obj.create_jdd()
        show(f"{name} motif sizes untouched by create_jdd", state(obj))
        obj.motif_sizes = sorted({len(c) for c in COVERS[name]})
        show(f"{name} rng", rng_digest())

    print("== sampling from covers")
    for name in sorted(objs):
        obj = objs[name]
        for n in (0, 1, 7, 50):
            attempt(f"sample[{name}] N={n}", lambda: obj.sample_jds_from_jdd(n))
            show(f"sample[{name}] N={n} rng", rng_digest())
        show(f"sample[{name}] state", state(obj))
    attempt("sample N=-1", lambda: objs["tri_edges_0"].sample_jds_from_jdd(-1))
    attempt("sample N='a'", lambda: objs["tri_edges_0"].sample_jds_from_jdd("a"))
    attempt("sample N=2.0", lambda: objs["tri_edges_0"].sample_jds_from_jdd(2.0))

    print("== handshaking_lemma directly")
    obj = objs["tri_edges_0"]
    cases = {
        "already ok": ([(1, 1), (1, 2), (0, 0)], [2, 3]),
        "needs both": ([(1, 1), (1, 2), (1, 1), (0, 0)], [2, 3]),
        "empty": ([], [2, 3]),
        "empty tuples": ([(), ()], [2, 3]),
        "short motif sizes": ([(1, 1, 1), (0, 1, 1)], [2]),
        "short motif sizes after draws": ([(1, 1, 1), (0, 0, 1)], [2, 2]),
        "long motif sizes": ([(1,), (0,)], [2, 3, 4]),
        "zero motif size": ([(1, 1), (0, 1)], [0, 2]),
        "zero motif size second": ([(1, 1), (0, 1)], [3, 0]),
        "none motif sizes": ([(1, 1)], None),
        "float motif size": ([(1, 1), (0, 1)], [2.0, 2]),
        "float motif size uneven": ([(1, 1), (0, 1)], [2.5, 2]),
        "numpy motif sizes": ([(1, 4), (0, 1), (2, 2)], np.array([4, 5])),
        "tuple jds": (((1, 1), (0, 1)), [2, 3]),
        "tuple jds ok": (((1, 1), (1, 2)), [2, 3]),
        "list rows": ([[1, 1], [0, 2]], [2, 4]),
        "ragged": ([(1, 1, 5), (0, 1)], [2, 3, 4]),
        "negative entries": ([(-1, 1), (0, -3)], [3, 5]),
        "dict motif sizes": ([(1, 1), (0, 1)], {0: 2, 1: 3}),
        "string rows": (["ab", "cd"], [2, 2]),
        "size one": ([(3, 1), (1, 1)], [1, 1]),
        "big size": ([(1,), (0,), (0,)], [11]),
    }
    for label, (jds, sizes) in cases.items():
        saved = obj.motif_sizes
        obj.motif_sizes = sizes
        arg = copy.deepcopy(jds)
        res = attempt(f"hs[{label}]", lambda: obj.handshaking_lemma(arg))
        show(f"hs[{label}] same object", res is arg)
        show(f"hs[{label}] arg after", arg)
        show(f"hs[{label}] rng", rng_digest())
        obj.motif_sizes = saved
    attempt("hs none", lambda: obj.handshaking_lemma(None))
    attempt("hs ints", lambda: obj.handshaking_lemma([1, 2]))

    print("== convert_jds_to_jdd / normalise_jdd / setters")
    obj = objs["one_based"]
    conv_cases = {
        "simple": [(1, 0), (1, 0), (0, 2), (3, 3), (0, 2), (1, 0), (7, 7)],
        "thirds": [(1,), (2,), (3,)],
        "sevenths": [(i % 3, i % 2) for i in range(7)],
        "empty": [],
        "tuple input": ((1, 1), (1, 1), (2, 0)),
        "strings": "abcabca",
        "unhashable": [(1, 0), [1, 0]],
        "unhashable first": [[1, 0], (1, 0)],
        "generator": (x for x in [(1, 0)]),
        "none": None,
        "dict input": {(1, 0): 5, (2, 2): 1},
        "equal keys": [(1, 0), (1.0, 0.0), (True, False)],
    }
    for label, jds in conv_cases.items():
        obj.jdd = {"sentinel": 1.0}
        before = obj.jdd
        attempt(f"conv[{label}]", lambda: obj.convert_jds_to_jdd(jds))
        show(f"conv[{label}] state", state(obj))
        show(f"conv[{label}] old dict", before)
        show(f"conv[{label}] rebound", obj.jdd is not before)

    norm_cases = {
        "ints": {(1, 0): 1, (0, 1): 2, (2, 2): 4},
        "floats": {(1, 0): 0.1, (0, 1): 0.2, (2, 2): 0.3, (5, 5): 0.7},
        "already": {(1, 0): 0.25, (0, 1): 0.75},
        "empty": {},
        "zero total": {(1, 0): 0, (0, 1): 0},
        "zero total float": {(1, 0): 0.0, (0, 1): 0.0},
        "cancel": {(1, 0): 1.0, (0, 1): -1.0, (3, 3): 2},
        "strings": {(1, 0): "a"},
        "numpy": {(1, 0): np.float64(0.3), (0, 1): np.float64(0.9)},
        "numpy zero": {(1, 0): np.float64(0.0)},
        "none": None,
        "mixed bad": {(1, 0): 1, (0, 1): None},
    }
    for label, jdd in norm_cases.items():
        obj.jdd = jdd
        attempt(f"norm[{label}]", lambda: obj.normalise_jdd())
        show(f"norm[{label}] same dict", obj.jdd is jdd)
        show(f"norm[{label}] state", state(obj))
        attempt(f"norm[{label}] twice", lambda: obj.normalise_jdd())
        show(f"norm[{label}] state twice", state(obj))

    print("== sampling through other public loaders and odd jdds")
    man = attempt(
        "manual",
        lambda: JointDegreeManual(
            {N.JDD: {(1, 0): 0.2, (0, 1): 0.3, (2, 2): 0.5}, N.MOTIF_SIZES: [2, 3]}
        ),
    )
    if man is not None:
        for n in (0, 3, 10, 101):
            attempt(f"manual sample {n}", lambda: man.sample_jds_from_jdd(n))
            show("rng", rng_digest())
        man.jdd = None
        attempt("manual sample jdd None", lambda: man.sample_jds_from_jdd(3))
        man.jdd = {}
        attempt("manual sample jdd empty", lambda: man.sample_jds_from_jdd(3))
        attempt("manual sample jdd empty N=0", lambda: man.sample_jds_from_jdd(0))
        man.jdd = {(1, 1): 0.0}
        attempt("manual sample zero weights", lambda: man.sample_jds_from_jdd(3))
        man.jdd = {(1, 1): -1.0, (2, 2): 0.5}
        attempt("manual sample negative weights", lambda: man.sample_jds_from_jdd(3))
        man.jdd = [((1, 1), 1.0)]
        attempt("manual sample jdd list", lambda: man.sample_jds_from_jdd(3))
        man.jdd = {(1, 1): 3, (0, 2): 1}
        man.motif_sizes = [2]
        attempt("manual sample short motif sizes", lambda: man.sample_jds_from_jdd(5))
        show("rng", rng_digest())
        man.motif_sizes = None
        attempt("manual sample no motif sizes", lambda: man.sample_jds_from_jdd(5))
        show("rng", rng_digest())
    emp = attempt(
        "empirical",
        lambda: JointDegreeEmpirical(
            {N.JDS: [(1, 0), (1, 0), (0, 1), (2, 2), (3, 1)], N.MOTIF_SIZES: [2, 3]}
        ),
    )
    if emp is not None:
        show("empirical state", state(emp))
        for n in (4, 25):
            attempt(f"empirical sample {n}", lambda: emp.sample_jds_from_jdd(n))
            show("rng", rng_digest())

    print("== class layout")
    for cls in (JointDegree, JointDegreeCover):
        public = sorted(k for k in vars(cls) if not k.startswith("_"))
        show(f"{cls.__name__} public attrs", public)
        show(f"{cls.__name__} _type", cls._type)
    show("cover property", isinstance(vars(JointDegreeCover)["cover"], property))
    show("final rng", rng_digest())


main()
