import sys, os; sys.path.insert(0, os.getcwd())

# string vertices are used below: pin the hash seed so set orders are reproducible
if os.environ.get("PYTHONHASHSEED") != "0":
    env = dict(os.environ, PYTHONHASHSEED="0")
    os.execve(sys.executable, [sys.executable] + sys.argv, env)

import hashlib
import itertools
import random

import networkx as nx
import numpy as np

import gcmpy
import gcmpy.covers.eecc as eecc_mod
from gcmpy.covers.eecc import EECC, binom
from gcmpy.network.network import Network


def rng_digest():
    h = hashlib.sha256(repr(random.getstate()).encode()).hexdigest()[:16]
    st = np.random.get_state()
    h2 = hashlib.sha256(st[1].tobytes() + repr(st[2:]).encode()).hexdigest()[:16]
    return f"py={h} np={h2}"


def show(label, fn):
    try:
        out = fn()
        print(label, "->", repr(out))
    except BaseException as exc:  # noqa
        print(label, "!!", type(exc).__name__, repr(str(exc)))


def graph_digest(net):
    g = net.G
    return (
        type(g).__name__,
        list(g.nodes()),
        list(g.edges()),
        {n: list(g.adj[n]) for n in g.nodes()},
    )


# ---------------------------------------------------------------- binom
print("== binom")
print("same object:", eecc_mod.binom is binom, callable(binom), binom.__name__)
for n in range(-3, 9):
    for r in range(-3, 10):
        show(f"binom({n},{r})", lambda n=n, r=r: binom(n, r))
for args in [(5.0, 2), (7, 2.0), (6.5, 3), ("a", 2), (5, "b"), (None, 1), (10**30, 3), (True, False)]:
    show(f"binom{args}", lambda a=args: binom(*a))
show("binom(n=6, r=3)", lambda: binom(n=6, r=3))
show("binom(r=2, n=40)", lambda: binom(r=2, n=40))
show("binom()", lambda: binom())

# ---------------------------------------------------------------- Network
print("== Network")
net = Network()
print(graph_digest(net), net.has_edges(), net.find_cliques())
show("add_edge", lambda: net.add_edge((1, 2)))
show("add_edge w/attr", lambda: net.add_edge((2, 3, )))
show("add_edge bad", lambda: net.add_edge((1,)))
show("add_edge bad2", lambda: net.add_edge(5))
show("add_edge unhashable", lambda: net.add_edge(([1], 2)))
show("add_edges_from", lambda: net.add_edges_from([(3, 1), (3, 4), (4, 5), (5, 3), (9, 9)]))
show("add_edges_from bad", lambda: net.add_edges_from([(1, 2, 3, 4)]))
print(graph_digest(net), net.has_edges())
show("find_cliques", lambda: net.find_cliques())
show("remove existing", lambda: net.remove_edge(1, 2))
show("remove again", lambda: net.remove_edge(1, 2))
show("remove reversed", lambda: net.remove_edge(4, 3))
show("remove missing node", lambda: net.remove_edge(100, 200))
show("remove one missing node", lambda: net.remove_edge(1, 200))
show("remove unhashable", lambda: net.remove_edge([1], 2))
show("remove selfloop", lambda: net.remove_edge(9, 9))
show("remove kw", lambda: net.remove_edge(j=5, i=3))
print(graph_digest(net), net.has_edges())
for u, v in list(net.G.edges()):
    net.remove_edge(u, v)
print(graph_digest(net), net.has_edges())
print("G is _G:", net.G is net._G)
dg = nx.DiGraph([(1, 2), (2, 1), (2, 3)])
net.G = dg
print("setter:", net.G is dg, net._G is dg, net.has_edges())
show("digraph remove", lambda: net.remove_edge(2, 1))
show("digraph remove missing", lambda: net.remove_edge(3, 2))
show("digraph find_cliques", lambda: net.find_cliques())
print(graph_digest(net))
mg = nx.MultiGraph([(1, 2), (1, 2), (2, 3), (3, 3)])
net.G = mg
show("multi has_edges", lambda: net.has_edges())
show("multi remove", lambda: net.remove_edge(1, 2))
show("multi remove", lambda: net.remove_edge(1, 2))
show("multi remove", lambda: net.remove_edge(1, 2))
print(graph_digest(net), net.has_edges())
net.G = None
show("None has_edges", lambda: net.has_edges())
show("None remove", lambda: net.remove_edge(1, 2))
show("None find_cliques", lambda: net.find_cliques())
print("Network attrs:", sorted(k for k in vars(Network) if not k.startswith("__")))
print("EECC public attrs:", sorted(k for k in vars(EECC) if not k.startswith("_")))
print("exports:", gcmpy.EECC is EECC, gcmpy.Network is Network, issubclass(EECC, Network))


# ---------------------------------------------------------------- EECC
def build(edges, m0=None):
    e = EECC()
    e.add_edges_from(edges)
    if m0 is not None:
        e.set_max_clique_size(m0)
    return e


def check_cover(edges, cover, m0):
    """the documented property, evaluated on the result"""
    g = nx.Graph(edges)
    seen = {}
    ok = True
    for cl in cover:
        ok &= 2 <= len(cl) <= m0 and len(set(cl)) == len(cl)
        for u, v in itertools.combinations(cl, 2):
            ok &= g.has_edge(u, v)
            key = frozenset((u, v))
            seen[key] = seen.get(key, 0) + 1
    ok &= all(seen.get(frozenset(e), 0) == 1 for e in g.edges())
    ok &= len(seen) == g.number_of_edges()
    return bool(ok)


def run_cover(label, edges, m0, seed, repeat=True):
    print("--", label, "m0=", m0, "seed=", seed)
    e = build(edges, m0)
    show("  lmc", lambda: e.limited_maximal_cliques())
    show("  lmc again", lambda: e.limited_maximal_cliques())
    random.seed(seed)
    np.random.seed(seed)
    res = []

    def go():
        out = e.get_EECC()
        res.append(out)
        return out

    show("  cover", go)
    print("  rng", rng_digest())
    print("  graph after", graph_digest(e))
    if res:
        try:
            print("  property", check_cover(edges, res[0], m0), "has_edges", e.has_edges())
        except BaseException as exc:  # noqa
            print("  property !!", type(exc).__name__)
    if repeat:
        show("  cover again (same object)", lambda: e.get_EECC())
        print("  rng", rng_digest())
        show("  lmc after", lambda: e.limited_maximal_cliques())
        # history: re-add edges to the same object, different bound
        e.add_edges_from(edges)
        e.set_max_clique_size(3)
        show("  cover after refill m0=3", lambda: e.get_EECC())
        print("  rng", rng_digest())
        print("  graph after", graph_digest(e))


TEST_EDGES = [
    (1, 2), (1, 14), (2, 4), (2, 13), (2, 14), (3, 4), (3, 5), (4, 5), (4, 13), (4, 14),
    (6, 7), (6, 13), (7, 8), (7, 13), (8, 9), (8, 13), (9, 10), (9, 11), (9, 13),
    (10, 11), (11, 12), (12, 13), (13, 14),
]

print("== EECC fixed graphs")
print("default bound cover:", end=" ")
show("", lambda: build(TEST_EDGES).get_EECC())
for m0 in (2, 3, 4, 5, 10):
    for seed in (0, 1, 2):
        run_cover("paper", TEST_EDGES, m0, seed, repeat=(seed == 0))

run_cover("empty", [], 3, 0)
run_cover("single edge", [(7, 3)], 2, 0)
run_cover("triangle", [(1, 2), (2, 3), (1, 3)], 2, 0)
run_cover("triangle", [(1, 2), (2, 3), (1, 3)], 3, 0)
run_cover("K5", list(itertools.combinations(range(5), 2)), 3, 3)
run_cover("K6", list(itertools.combinations(range(6), 2)), 4, 4)
run_cover("K7", list(itertools.combinations(range(7), 2)), 3, 5)
run_cover("two K4 sharing an edge", list(itertools.combinations([0, 1, 2, 3], 2)) + list(itertools.combinations([2, 3, 4, 5], 2)), 4, 6)
run_cover("two K4 sharing a vertex", list(itertools.combinations([0, 1, 2, 3], 2)) + list(itertools.combinations([3, 4, 5, 6], 2)), 4, 6)
run_cover("self loop", [(1, 1)], 2, 0, repeat=False)
run_cover("self loop + edges", [(1, 1), (1, 2), (2, 3), (3, 1)], 3, 0, repeat=False)
run_cover("strings", [("a", "b"), ("b", "c"), ("a", "c"), ("c", "d"), ("d", "e"), ("c", "e"), ("b", "d")], 3, 1)
run_cover("tuples", [((0, 0), (0, 1)), ((0, 1), (1, 1)), ((0, 0), (1, 1)), ((1, 1), (2, 2))], 3, 1)
run_cover("mixed types", [(1, "a"), ("a", 2), (1, 2)], 3, 1, repeat=False)
run_cover("big sparse ids", [(8, 1), (1, 1024), (8, 1024), (1024, 17), (17, 33), (33, 1024), (8, 33), (1, 33)], 3, 2)

print("== EECC bad bounds")
tri_plus = [(1, 2), (2, 3), (1, 3), (3, 4)]
for m0 in (1, 0, -1, 2.5, 2.0, "3", None, True):
    run_cover("bad bound tri+", tri_plus, m0, 0, repeat=False)
for m0 in (1, 0, -1, 2.5, "3", None):
    run_cover("bad bound path", [(1, 2), (2, 3)], m0, 0, repeat=False)

print("== EECC random graphs")
for k in range(40):
    n = 6 + (k % 9)
    p = 0.25 + 0.07 * (k % 8)
    g = nx.gnp_random_graph(n, p, seed=1000 + k)
    edges = list(g.edges())
    if k % 3 == 1:
        edges = [(u * 37 % 101, v * 37 % 101) for u, v in edges]
    if k % 5 == 2:
        edges = [(v, u) for u, v in reversed(edges)]
    m0 = 2 + (k % 5)
    run_cover(f"gnp{k}", edges, m0, 50 + k, repeat=(k % 4 == 0))

for k in range(6):
    g = nx.relaxed_caveman_graph(3, 5, 0.3, seed=k)
    run_cover(f"caveman{k}", list(g.edges()), 3 + k % 3, k, repeat=False)
    g = nx.powerlaw_cluster_graph(14, 3, 0.8, seed=k)
    run_cover(f"plc{k}", list(g.edges()), 3 + k % 2, k, repeat=False)

# ---------------------------------------------------------------- compute_scores directly
print("== compute_scores")


def scores_case(label, C, m0=3, r0=0.0, edges=TEST_EDGES, kw=False):
    e = build(edges, m0)
    EC, ords, r, idx = [], [0] * len(C), [r0] * len(C), []
    before = repr(C)

    def go():
        if kw:
            return e.compute_scores(C=C, EC=EC, ord=ords, r=r, indexes=idx)
        return e.compute_scores(C, EC, ords, r, idx)

    show(f"{label}: call", go)
    print("   C before", before)
    print("   C after ", repr(C), [type(c).__name__ for c in C])
    print("   EC", repr(EC), "identity", [any(x is c for c in C) for x in EC])
    print("   ord", repr(ords), "r", repr(r), "idx", repr(idx))
    print("   graph untouched", graph_digest(e)[2] == list(nx.Graph(edges).edges()))
    # second call on the same (already mutated) arguments
    show(f"{label}: call again", go)
    print("   EC", repr(EC), "ord", repr(ords), "r", repr(r), "idx", repr(idx))


scores_case("empty", [])
scores_case("paper m0=3", [[1, 2, 14], [2, 4, 13], [2, 4, 14], [2, 13, 14], [3, 4, 5], [4, 13, 14], [6, 7, 13], [7, 8, 13], [8, 9, 13], [9, 10, 11], [11, 12], [12, 13]])
scores_case("paper m0=4 kw", [[2, 4, 13, 14], [1, 2, 14], [3, 4, 5], [6, 7, 13], [7, 8, 13], [8, 9, 13], [9, 10, 11], [11, 12], [12, 13]], m0=4, kw=True)
scores_case("unsorted tuples/sets", [(14, 2, 1), (13, 4, 2), {14, 4, 2}, (5, 4, 3), frozenset((13, 12))])
scores_case("int zero scores", [[3, 2, 1], [3, 2, 4], [9, 8]], r0=0)
scores_case("prefilled scores", [[3, 2, 1], [3, 2, 4], [5, 6, 7]], r0=0.5)
scores_case("duplicates", [[1, 2, 3], [1, 2, 3], [1, 1, 2]])
scores_case("single big", [[5, 4, 3, 2, 1]])
scores_case("K5 pieces", [list(c) for c in itertools.combinations(range(5), 4)])
scores_case("singletons", [[1], [], [2, 1]])
scores_case("unhashable members", [[[1], [2], [3]], [[1], [2], [4]]])
scores_case("unsortable", [[1, "a", 2], [1, 2, 3]])


class NoLen:
    """iterable without len() and with an address-free repr"""

    def __iter__(self):
        return iter([3, 2, 1])

    def __repr__(self):
        return "NoLen()"


scores_case("not sized", [NoLen(), [1, 2]])
scores_case("not sized last", [[1, 2], NoLen()])
scores_case("short ord", [[1, 2, 3], [2, 3, 4]])


def short_lists():
    e = build(TEST_EDGES, 3)
    C = [[3, 2, 1], [2, 3, 4], [7, 8]]
    EC, ords, r, idx = [], [0], [0.0, 0.0], []
    try:
        e.compute_scores(C, EC, ords, r, idx)
    except BaseException as exc:  # noqa
        print("short lists !!", type(exc).__name__, repr(str(exc)))
    print("  ", C, EC, ords, r, idx)


short_lists()

print("== limited_maximal_cliques on set graphs")
for m0 in (2, 3, 4):
    e = EECC()
    e.G = nx.complete_graph(6)
    e.set_max_clique_size(m0)
    show(f"complete6 m0={m0}", lambda: e.limited_maximal_cliques())
    print("  graph untouched", e.G.number_of_edges())
    e.G = nx.path_graph(4)
    e.G.add_node(99)
    show(f"path+isolated m0={m0}", lambda: e.limited_maximal_cliques())
    random.seed(m0)
    show(f"path+isolated cover m0={m0}", lambda: e.get_EECC())
    print("  rng", rng_digest())

print("== final rng", rng_digest())
