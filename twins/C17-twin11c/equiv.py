import sys, os; sys.path.insert(0, os.getcwd())
import hashlib
import re
import inspect
import itertools
import random

import networkx as nx
import numpy as np

from gcmpy.message_passing.message_passing import MessagePassing
from gcmpy.message_passing.message_passing_mixin import MessagePassingMixin
from gcmpy.message_passing.equations.automated_equation import AutomatedEquation
import gcmpy.message_passing as mp_pkg

random.seed(1717)
np.random.seed(1717)

LINES = []


def out(*parts):
    # memory addresses inside messages (ast nodes) are not reproducible: scrub them
    LINES.append(re.sub(r"0x[0-9a-fA-F]+", "0xADDR", " ".join(str(p) for p in parts)))


def attempt(tag, fn):
    """Run fn, record repr of the result or the exception type + args."""
    try:
        r = fn()
    except BaseException as e:  # noqa
        out(tag, "EXC", type(e).__name__, repr(e.args)[:200])
        return None
    out(tag, "OK", type(r).__name__, repr(r))
    return r


# ------------------------------------------------------------------ graphs
MOTIFS = {
    "2": [(0, 1)],
    "3": [(0, 1), (0, 2), (1, 2)],
    "4c": [(0, 1), (1, 2), (2, 3), (3, 0)],
    "4d": [(0, 1), (1, 2), (2, 3), (3, 0), (0, 2)],
    "4k": [(0, 1), (0, 2), (0, 3), (1, 2), (1, 3), (2, 3)],
}
KEYS = {"2": 2, "3": 3, "4c": 40, "4d": 41, "4k": 4}


def covered_graph(rng, n, tries, kinds, first_id=0):
    """Random graph carrying an edge-disjoint motif cover in 'CoverLabel'."""
    G = nx.Graph()
    G.add_nodes_from(range(n))
    uid = first_id
    for _ in range(tries):
        kind = rng.choice(kinds)
        size = int(kind[0])
        vs = rng.sample(range(n), size)
        es = [(vs[a], vs[b]) for a, b in MOTIFS[kind]]
        if any(G.has_edge(*e) for e in es):
            continue
        label = f"{KEYS[kind]}-{vs}-{es}-{uid}"
        for e in es:
            G.add_edge(*e, CoverLabel=label)
        uid += 1
    return G


def fixed_graphs():
    gs = {}
    # single edge
    G = nx.Graph(); G.add_edge(0, 1, CoverLabel="2-[0, 1]-[(0, 1)]-0"); gs["edge"] = G
    # path of 2-cliques
    G = nx.Graph()
    for i in range(6):
        G.add_edge(i, i + 1, CoverLabel=f"2-[{i}, {i+1}]-[({i}, {i+1})]-{i}")
    gs["path"] = G
    # two triangles sharing a vertex, plus a pendant edge
    G = nx.Graph()
    for uid, vs in enumerate([[0, 1, 2], [2, 3, 4]]):
        es = list(itertools.combinations(vs, 2))
        for e in es:
            G.add_edge(*e, CoverLabel=f"3-{vs}-{es}-{uid}")
    G.add_edge(4, 5, CoverLabel="2-[4, 5]-[(4, 5)]-2")
    gs["bowtie"] = G
    # isolated vertices present as well
    G = gs["bowtie"].copy(); G.add_nodes_from([10, 11]); gs["bowtie+iso"] = G
    # 4-clique + diamond sharing a vertex
    G = nx.Graph()
    vs = [0, 1, 2, 3]; es = list(itertools.combinations(vs, 2))
    for e in es:
        G.add_edge(*e, CoverLabel=f"4-{vs}-{es}-7")
    vs = [3, 4, 5, 6]; es = [(3, 4), (4, 5), (5, 6), (6, 3), (3, 5)]
    for e in es:
        G.add_edge(*e, CoverLabel=f"41-{vs}-{es}-12")
    gs["k4+diamond"] = G
    # ring of triangles closed by single edges: motif graph has a cycle, S is non-trivial
    G = nx.Graph(); uid = 0
    for k in range(4):
        vs = [3 * k, 3 * k + 1, 3 * k + 2]; es = list(itertools.combinations(vs, 2))
        for e in es:
            G.add_edge(*e, CoverLabel=f"3-{vs}-{es}-{uid}")
        uid += 1
    for k in range(4):
        a, b = 3 * k + 2, (3 * k + 3) % 12
        G.add_edge(a, b, CoverLabel=f"2-[{a}, {b}]-[({a}, {b})]-{uid}"); uid += 1
        a, b = 3 * k + 1, (3 * k + 6) % 12
        G.add_edge(a, b, CoverLabel=f"2-[{a}, {b}]-[({a}, {b})]-{uid}"); uid += 1
    gs["ring"] = G
    return gs


PHIS = [0.0, 0.05, 0.2, 0.35, 0.5, 0.65, 0.8, 0.95, 1.0]

# ------------------------------------------------------------------ A. label parsers
out("== A. label parsers")
mixin = MessagePassingMixin("motif cover", nx.Graph())
LABELS = [
    "3-[0, 1, 2]-[(0, 1), (0, 2), (1, 2)]-17",
    "2-[4, 5]-[(4, 5)]-0",
    "2-[4, 5]-[(4, 5)]-007",
    "2-[4, 5]-[(4, 5)]- 12 ",
    "2-[4, 5]-[(4, 5)]-1_000",
    "2-[4, 5]-[(4, 5)]--3",
    "2-[4, 5]-[(4, 5)]-+3",
    "2-[4, 5]-[(4, 5)]-",
    "2-[4, 5]-[(4, 5)]-x",
    "2-[4, 5]-[(4, 5)]-1.0",
    "2-[-4, 5]-[(-4, 5)]-9",
    "-", "--", "---", "", "5", "5-", "-5", "a-b", "1-2", "1-2-3", "1-2-3-4-5-6",
    " 7", "7\n", "٣", "1-٣", "x-[1]-[(1,)]-１２",
    "3–4", "3−4", "3-[0]-[]-4\x00",
]
for lab in LABELS:
    for name in ("get_motif_topology", "get_motif_ID", "get_vertices_in_motif", "get_edges_in_motif"):
        attempt(f"A {name} {lab!r}", lambda: getattr(mixin, name)(lab))
for bad in (None, 17, 1.5, b"2-[0, 1]-[(0, 1)]-3", ["2", "3"], ("2-3",), {"a": 1}, bytearray(b"1-2")):
    for name in ("get_motif_topology", "get_motif_ID", "get_vertices_in_motif", "get_edges_in_motif"):
        attempt(f"A {name} {bad!r}", lambda: getattr(mixin, name)(bad))
rng = random.Random(5)
alphabet = "-0123456789 [](),x+_"
for k in range(400):
    s = "".join(rng.choice(alphabet) for _ in range(rng.randint(0, 9)))
    attempt(f"A rnd get_motif_ID {s!r}", lambda: mixin.get_motif_ID(s))
    attempt(f"A rnd get_motif_topology {s!r}", lambda: mixin.get_motif_topology(s))

# edge label look-up
G = fixed_graphs()["bowtie"]
mixin = MessagePassingMixin("motif cover", G)
for i, j in [(0, 1), (1, 0), (4, 5), (5, 4), (0, 4), (0, 99), (99, 0), ("a", "b")]:
    attempt(f"A get_edge_cover_label {i!r},{j!r}", lambda: mixin.get_edge_cover_label(i, j))
H = nx.Graph(); H.add_edge(0, 1)
attempt("A label missing", lambda: MessagePassingMixin("c", H).get_edge_cover_label(0, 1))
attempt("A G None", lambda: MessagePassingMixin("c", None).get_edge_cover_label(0, 1))
out("A mixin fields", repr(mixin._CoverType), mixin._G is G, sorted(vars(mixin)))

# ------------------------------------------------------------------ B. equation caches
out("== B. AutomatedEquation caches")


def named(G, name, u=0.6180339887):
    G = G.copy()
    nx.set_node_attributes(G, {n: u + 0.01 * k for k, n in enumerate(G.nodes())}, "u")
    G.name = name
    return G


AE = AutomatedEquation()
out("B fresh", sorted(vars(AE)), AE._connected_subgraphs, AE._edge_combinations)
shapes = {
    "k2": nx.complete_graph(2), "k3": nx.complete_graph(3), "k4": nx.complete_graph(4),
    "c4": nx.cycle_graph(4), "c5": nx.cycle_graph(5), "p3": nx.path_graph(3),
    "star": nx.star_graph(3), "k1": nx.complete_graph(1),
}
dia = nx.Graph(); dia.add_edges_from([(0, 1), (1, 2), (2, 3), (3, 0), (0, 2)]); shapes["dia"] = dia
disc = nx.Graph(); disc.add_edges_from([(0, 1), (2, 3)]); shapes["disc"] = disc
for nm, g in shapes.items():
    g = named(g, nm)
    for root in list(g.nodes()) + [99, None]:
        r1 = attempt(f"B subgraphs {nm} root={root!r}", lambda: [sorted(s) for s in AE.get_connected_subgraphs(g, root)])
        # second call must hand back the very same cached list object
        try:
            x = AE.get_connected_subgraphs(g, root); y = AE.get_connected_subgraphs(g, root)
            out(f"B subgraphs same-object {nm} {root!r}", x is y, x is AE._connected_subgraphs[f"{root}-{g.name}"])
        except BaseException as e:  # noqa
            out(f"B subgraphs same-object {nm} {root!r} EXC", type(e).__name__)
        out("B cache keys", sorted(AE._connected_subgraphs))
    for root in g.nodes():
        for p in (0.0, 0.3, 1.0):
            attempt(f"B eq {nm} root={root} p={p}", lambda: AE.automated_equation(g, p, root))
        attempt(f"B us {nm} root={root}", lambda: AE.get_us(g, root))
    attempt(f"B combos {nm}", lambda: AE.get_edge_combinations(g, [0]))
    try:
        x = AE.get_edge_combinations(g, [0]); y = AE.get_edge_combinations(g, [0])
        out(f"B combos same-object {nm}", x is y)
    except BaseException as e:  # noqa
        out(f"B combos same-object {nm} EXC", type(e).__name__)
# key collision: a different graph under an already cached name returns the cached entry
g1 = named(nx.complete_graph(3), "clash"); g2 = named(nx.path_graph(4), "clash")
a1 = AE.get_connected_subgraphs(g1, 0); a2 = AE.get_connected_subgraphs(g2, 0)
out("B clash", a1 is a2, [sorted(s) for s in a2])
# caller mutating the returned list mutates the cache (aliasing is part of the behaviour)
a1.append({"sentinel"}); out("B alias", [sorted(map(str, s)) for s in AE.get_connected_subgraphs(g2, 0)])
# pre-seeded cache entry is honoured, falsy entry too
AE._connected_subgraphs["0-pre"] = []
out("B preseeded falsy", AE.get_connected_subgraphs(named(nx.complete_graph(3), "pre"), 0))
AE._connected_subgraphs["1-pre"] = None
out("B preseeded None", AE.get_connected_subgraphs(named(nx.complete_graph(3), "pre"), 1))
# failure leaves the cache untouched
before = sorted(AE._connected_subgraphs)
attempt("B fail", lambda: AE.get_connected_subgraphs(named(nx.complete_graph(3), "boom"), 42))
out("B cache unchanged after failure", before == sorted(AE._connected_subgraphs))
attempt("B unnamed graph", lambda: [sorted(s) for s in AE.get_connected_subgraphs(nx.complete_graph(3), 0)])
attempt("B G None", lambda: AE.get_connected_subgraphs(None, 0))
out("B final keys", sorted(AE._connected_subgraphs), sorted(AE._edge_combinations))

# ------------------------------------------------------------------ C. constructor / defaults
out("== C. MessagePassing constructor")
out("C signature", str(inspect.signature(MessagePassing.__init__)))
out("C defaults", MessagePassing.__init__.__defaults__, MessagePassing.__init__.__kwdefaults__)
out("C annotations", sorted((k, getattr(v, "__name__", str(v))) for k, v in MessagePassing.__init__.__annotations__.items()))
out("C exported", mp_pkg.MessagePassing is MessagePassing, mp_pkg.MessagePassingMixin is MessagePassingMixin)
G = fixed_graphs()["bowtie"]
for tag, mk in [
    ("default", lambda: MessagePassing(G)),
    ("positional", lambda: MessagePassing(G, "clique cover", 3)),
    ("keywords", lambda: MessagePassing(G=G, iterations=4, cover_type="x")),
    ("cover None", lambda: MessagePassing(G, None)),
    ("iter 0", lambda: MessagePassing(G, iterations=0)),
    ("iter -1", lambda: MessagePassing(G, iterations=-1)),
    ("iter float", lambda: MessagePassing(G, iterations=2.0)),
    ("iter None", lambda: MessagePassing(G, iterations=None)),
    ("iter str", lambda: MessagePassing(G, iterations="3")),
    ("iter True", lambda: MessagePassing(G, iterations=True)),
    ("G None", lambda: MessagePassing(None)),
    ("no args", lambda: MessagePassing()),
    ("extra kw", lambda: MessagePassing(G, foo=1)),
    ("too many", lambda: MessagePassing(G, "a", 1, 2)),
]:
    try:
        m = mk()
    except BaseException as e:  # noqa
        out(f"C ctor {tag} EXC", type(e).__name__, repr(e.args))
        continue
    out(f"C ctor {tag}", list(vars(m)), repr(m._iterations), repr(m._MPM._CoverType), m._MPM._G is G,
        m._H_tau, type(m._AE).__name__, hasattr(m, "_phi"))
    for phi in (0.0, 0.4, 1.0):
        attempt(f"C theoretical {tag} phi={phi}", lambda: m.theoretical(phi))
m = MessagePassing(G)
attempt("C resolve before theoretical", lambda: m.resolve_equation(0, "3-[0, 1, 2]-[(0, 1), (0, 2), (1, 2)]-0", {1: .5, 2: .5}))
attempt("C calculate before theoretical", lambda: m.calculate_H_tau(0, "3-[0, 1, 2]-[(0, 1), (0, 2), (1, 2)]-0"))

# ------------------------------------------------------------------ D. end to end
out("== D. end to end")
graphs = fixed_graphs()
rng = random.Random(99)
for k in range(6):
    graphs[f"rnd{k}"] = covered_graph(rng, rng.randint(6, 14), rng.randint(4, 14),
                                      [["2"], ["2", "3"], ["3", "4c"], ["2", "3", "4d"], ["2", "4k"], list(MOTIFS)][k],
                                      first_id=100 * k)
for nm, G in graphs.items():
    out("D graph", nm, G.order(), G.size(), sorted(set(nx.get_edge_attributes(G, "CoverLabel").values()))[:3])
    one = MessagePassing(G)
    fwd = [one.theoretical(p) for p in PHIS]
    out("D fwd", nm, [repr(x) for x in fwd])
    order = PHIS[:]; rng.shuffle(order)
    again = {p: one.theoretical(p) for p in order}
    out("D shuffled==fwd", nm, [again[p] == f for p, f in zip(PHIS, fwd)])
    fresh = [MessagePassing(G).theoretical(p) for p in PHIS]
    out("D fresh==fwd", nm, [a == b for a, b in zip(fresh, fwd)])
    out("D in01", nm, all(0.0 <= x <= 1.0 for x in fwd), "zero@0", fwd[0] == 0.0,
        "monotone", all(b >= a - 1e-12 for a, b in zip(fwd, fwd[1:])))
    short = MessagePassing(G, iterations=3)
    out("D it3", nm, [repr(short.theoretical(p)) for p in (0.3, 0.7, 0.3)])
    out("D state", nm, len(one._H_tau), repr(one._phi), len(one._AE._connected_subgraphs), len(one._AE._edge_combinations),
        hashlib.sha256(repr(sorted(one._H_tau.items())).encode()).hexdigest()[:16],
        hashlib.sha256(repr(sorted(one._AE._connected_subgraphs)).encode()).hexdigest()[:16])

# malformed networks through the public entry point
out("== D. malformed")
G = nx.Graph(); attempt("D empty graph", lambda: MessagePassing(G).theoretical(0.5))
G = nx.Graph(); G.add_nodes_from([0, 1]); attempt("D only isolated", lambda: MessagePassing(G).theoretical(0.5))
G = nx.Graph(); G.add_edge(0, 1); attempt("D unlabelled", lambda: MessagePassing(G).theoretical(0.5))
for lab in ["2-[0, 1]-[(0, 1)]", "2-[0, 1]-[(0, 1)]-x", "nolabel", "", "2-[0, 1]-[(0, 1)]-", "2-[0, 1]-oops-3",
            "2-[0, 1]-[(0, 1)]-3-4", "2-[0, 1]-[(0, 5)]-3", "2-[0, 7]-[(0, 1)]-3", "2-0-[(0, 1)]-3", None, 5]:
    G = nx.Graph(); G.add_edge(0, 1, CoverLabel=lab)
    attempt(f"D bad label {lab!r}", lambda: MessagePassing(G, iterations=2).theoretical(0.5))
G = nx.DiGraph(); G.add_edge(0, 1, CoverLabel="2-[0, 1]-[(0, 1)]-0")
attempt("D digraph", lambda: MessagePassing(G, iterations=2).theoretical(0.5))
G = fixed_graphs()["bowtie"]
for phi in (-0.5, 1.5, None, "0.5", float("nan"), 1, 0, True):
    attempt(f"D phi {phi!r}", lambda: MessagePassing(G, iterations=2).theoretical(phi))

# ------------------------------------------------------------------ RNG streams untouched
out("== RNG")
out("py", hashlib.sha256(repr(random.getstate()).encode()).hexdigest())
st = np.random.get_state()
out("np", st[0], hashlib.sha256(st[1].tobytes()).hexdigest(), st[2:])
out("next", random.random(), np.random.random())

text = "\n".join(LINES)
print(text)
print("DIGEST", hashlib.sha256(text.encode()).hexdigest())
