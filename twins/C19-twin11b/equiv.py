import sys, os; sys.path.insert(0, os.getcwd())
# Variant b: JointDegreeMarginal.create_jdd_directly
#   dict((key, 0.0) for key in gen())  ->  dict.fromkeys(gen(), 0.0)
# Exercises the marginal loader (the consumer of the C19 distribution callables) through its
# constructor, the factory, JointDegreeDistribution.load_joint_degree, repeated create_jdd calls on
# one object, sampling mode, malformed parameter dicts and overriding subclasses.
import hashlib
import random

import numpy as np

random.seed(20261004)
np.random.seed(19)

import gcmpy  # noqa: E402
from gcmpy import (  # noqa: E402
    JointDegreeMarginal,
    JointDegreeDistribution,
    JointDegreeFactory,
    JointDegreeType,
    JointDegreeNames as N,
    exponential,
    poisson,
    power_law,
    scale_free_cut_off,
)

out = []


def emit(*a):
    out.append(" ".join(str(x) for x in a))


def show(j):
    d = j.jdd
    if d is None:
        return "None"
    return type(d).__name__ + str([(k, repr(v), type(v).__name__) for k, v in d.items()])


def state(j):
    return sorted((k, (show(j) if k == "_jdd" else repr(v) if not callable(v) and not isinstance(v, list) else type(v).__name__))
                  for k, v in vars(j).items())


def attempt(label, f, *a, **kw):
    try:
        r = f(*a, **kw)
        emit(label, "ok", type(r).__name__)
        return r
    except BaseException as e:  # noqa
        emit(label, "EXC", type(e).__name__)
        return None


calls = []


def counting(fp, tag):
    def g(k):
        calls.append((tag, k))
        return fp(k)

    return g


FPS = {
    "exp": lambda: exponential(0.7),
    "poi": lambda: poisson(2.5),
    "pl": lambda: power_law(2.5),
    "sf": lambda: scale_free_cut_off(2.0, 6.0),
    "zero": lambda: (lambda k: 0.0),
    "int": lambda: (lambda k: k),
    "neg": lambda: (lambda k: -1.0),
    "nan": lambda: (lambda k: float("nan")),
    "str": lambda: (lambda k: "p"),
    "raise": lambda: (lambda k: 1 / 0),
}

CASES = [
    ([2], ["poi"], [(0, 12)]),
    ([2], ["exp"], [(0, 30)]),
    ([3], ["pl"], [(1, 25)]),
    ([3], ["sf"], [(1, 25)]),
    ([2, 3], ["poi", "poi"], [(0, 8), (0, 6)]),
    ([2, 3], ["poi", "pl"], [(0, 8), (1, 9)]),
    ([2, 3, 4], ["exp", "pl", "sf"], [(0, 5), (1, 5), (1, 4)]),
    ([2, 3], ["poi", "pl"], [(0, 8), (0, 9)]),  # power law at k = 0 -> ZeroDivisionError
    ([2], ["poi"], [(-2, 3)]),  # factorial of a negative -> ValueError
    ([2], ["poi"], [(3, 3)]),  # empty range
    ([2], ["poi"], [(5, 2)]),  # inverted range
    ([2, 3], ["poi", "pl"], [(0, 4), (3, 3)]),  # empty product
    ([], [], []),  # product() == [()]
    ([2, 3], ["poi"], [(0, 3), (1, 3)]),  # too few callbacks -> IndexError
    ([2], ["poi", "pl"], [(0, 3)]),  # too many callbacks
    ([2], ["zero"], [(0, 4)]),  # 0/0 in normalise
    ([2], ["int"], [(0, 4)]),
    ([2], ["int"], [(0, 1)]),  # int 0 / int 0
    ([2], ["neg"], [(0, 4)]),
    ([2], ["nan"], [(0, 4)]),
    ([2], ["str"], [(0, 4)]),
    ([2], ["raise"], [(0, 4)]),
    ([2], ["poi"], [(0,)]),  # unpack error
    ([2], ["poi"], [(0, 1, 2)]),
    ([2], ["poi"], [(0.0, 3.0)]),  # range(float)
    ([2], ["poi"], [("a", "b")]),
    ([2], ["poi"], (0, 5)),  # not a list of pairs
    ([2], ["poi"], None),
    ([2], ["poi"], 7),
    ([2], ["poi"], [(True, 4)]),
    ([2], ["poi"], [(np.int64(0), np.int64(4))]),
    ([2], ["poi"], ((0, 4),)),
    ([2], ["poi"], {(0, 4): 1}),  # dict of pairs: iterates keys
    (None, ["poi"], [(0, 4)]),
]

for idx, (ms, fps, bounds) in enumerate(CASES):
    for mode in ("ctor", "factory", "loader"):
        del calls[:]
        prm = {
            N.MOTIF_SIZES: ms,
            N.ARR_FP: [counting(FPS[f](), i) for i, f in enumerate(fps)],
            N.LOW_HIGH_DEGREE_BOUND: bounds,
        }
        keys_before = list(prm)
        if mode == "ctor":
            j = attempt("case %d ctor" % idx, JointDegreeMarginal, prm)
        elif mode == "factory":
            j = attempt("case %d factory" % idx, JointDegreeFactory.resolve_joint_degree, JointDegreeType.MARGINAL, prm)
        else:
            prm[N.JOINT_DEGREE_TYPE] = "marginal"
            keys_before = list(prm)
            j = attempt("case %d loader" % idx, JointDegreeDistribution.load_joint_degree, prm)
        emit("  calls", len(calls), hashlib.sha256(repr(calls).encode()).hexdigest()[:16])
        emit("  params untouched", list(prm) == keys_before, prm[N.LOW_HIGH_DEGREE_BOUND] is bounds)
        if j is not None:
            emit("  jdd", show(j))
            emit("  state", state(j))
            emit("  motif_sizes", j.motif_sizes, "type", j._type)
            # repeated calls on one object
            first = j.jdd
            attempt("  again create_jdd", j.create_jdd)
            emit("  new dict object", j.jdd is not first, "equal", repr(j.jdd) == repr(first))
            attempt("  again create_jdd_directly", j.create_jdd_directly)
            emit("  jdd", show(j))
            emit("  all", attempt("  generate_all", j.generate_all_joint_degrees))
            if j.jdd:
                emit("  sample", attempt("  sample", j.sample_jds_from_jdd, 12))
            # move the bounds and rebuild on the same object
            j._low_high_degree_bounds = [(1, 4)] * len(fps)
            attempt("  rebuilt", j.create_jdd_directly)
            emit("  jdd", show(j))
            j.jdd = {"sentinel": 1.0}
            attempt("  rebuilt after setter", j.create_jdd_directly)
            emit("  jdd", show(j))

# ---- an object left half-way by an exception keeps the same _jdd -------------------------------
prm = {N.MOTIF_SIZES: [2], N.ARR_FP: [poisson(2.0)], N.LOW_HIGH_DEGREE_BOUND: [(0, 5)]}
j = JointDegreeMarginal(prm)
old = j.jdd
j._low_high_degree_bounds = [(0,)]
attempt("half-way unpack", j.create_jdd_directly)
emit("  kept old", j.jdd is old, show(j))
j._low_high_degree_bounds = [(-3, 2)]
attempt("half-way factorial", j.create_jdd_directly)
emit("  replaced", j.jdd is not old, show(j))
j._low_high_degree_bounds = [([], 2)]
attempt("half-way range", j.create_jdd_directly)
emit("  jdd", show(j))

# ---- sampling mode and optional keys -------------------------------------------------------------
for us, ns in ((True, 50), (True, 0), (False, 10), (0, 5), (1, 7), ("yes", 3), (None, 3), (True, None), (True, -1), (True, 2.5)):
    prm = {
        N.MOTIF_SIZES: [2, 3],
        N.ARR_FP: [poisson(1.5), power_law(2.2)],
        N.LOW_HIGH_DEGREE_BOUND: [(0, 6), (1, 6)],
        N.USE_SAMPLING: us,
        N.N_SAMPLES: ns,
    }
    j = attempt("sampling %r %r" % (us, ns), JointDegreeMarginal, prm)
    if j is not None:
        emit("  jdd", show(j))
        emit("  fields", j._use_sampling, j._n_samples)
prm = {N.MOTIF_SIZES: [2], N.ARR_FP: [poisson(1.5)], N.LOW_HIGH_DEGREE_BOUND: [(0, 6)], N.USE_SAMPLING: True}
j = attempt("sampling default n", JointDegreeMarginal, prm)
emit("  n", j._n_samples, len(j.jdd), show(j))

# ---- malformed parameter dicts ------------------------------------------------------------------
full = {N.MOTIF_SIZES: [2], N.ARR_FP: [poisson(1.5)], N.LOW_HIGH_DEGREE_BOUND: [(0, 6)]}
for drop in full:
    prm = {k: v for k, v in full.items() if k is not drop}
    attempt("missing %s" % drop.name, JointDegreeMarginal, prm)
for bad in (None, [], 3, "params", {"motif_sizes": [2], "arr_fp": [], "low_high_degree_bound": []}):
    attempt("params %r" % (bad,), JointDegreeMarginal, bad)
attempt("no args", JointDegreeMarginal)
attempt("loader bad type", JointDegreeDistribution.load_joint_degree, dict(full, **{"x": 1}))
attempt("factory bad type", JointDegreeFactory.resolve_joint_degree, "marginal", full)


# ---- subclasses that override the enumeration (public extension point) -----------------------
class Gen(JointDegreeMarginal):
    def generate_all_joint_degrees(self):
        for k in range(1, 5):
            yield (k,)


class Dup(JointDegreeMarginal):
    def generate_all_joint_degrees(self):
        return [(2,), (1,), (2,), (3,), (1,)]


class Unhashable(JointDegreeMarginal):
    def generate_all_joint_degrees(self):
        return [[1], [2]]


class AsDict(JointDegreeMarginal):
    def generate_all_joint_degrees(self):
        return {(3,): "a", (1,): "b", (2,): "c"}


class AsSet(JointDegreeMarginal):
    def generate_all_joint_degrees(self):
        return frozenset([(3,), (1,), (2,)])


class Boom(JointDegreeMarginal):
    def generate_all_joint_degrees(self):
        yield (1,)
        raise KeyError("boom")


class Eq(JointDegreeMarginal):
    def generate_all_joint_degrees(self):
        return [(1,), (1.0,), (True,), (2,)]  # equal keys: first spelling is kept


for cls in (Gen, Dup, Unhashable, AsDict, AsSet, Boom, Eq):
    prm = {N.MOTIF_SIZES: [2], N.ARR_FP: [power_law(2.5)], N.LOW_HIGH_DEGREE_BOUND: [(1, 4)]}
    j = attempt("subclass " + cls.__name__, cls, prm)
    if j is not None:
        emit("  jdd", show(j))
        attempt("  again", j.create_jdd_directly)
        emit("  jdd", show(j))

emit("py-rng", hashlib.sha256(repr(random.getstate()).encode()).hexdigest())
st = np.random.get_state()
emit("np-rng", hashlib.sha256(repr((st[0], st[1].tolist(), st[2], st[3], st[4])).encode()).hexdigest())

text = "\n".join(out)
print(text)
print("DIGEST", hashlib.sha256(text.encode()).hexdigest())
