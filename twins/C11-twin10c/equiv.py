import sys, os; sys.path.insert(0, os.getcwd())
import hashlib
import random
import warnings

warnings.simplefilter("ignore")
import numpy as np
import networkx as nx

from gcmpy.joint_degree.joint_degree_loaders.joint_degree_manual import (
    JointDegreeManual,
)
from gcmpy.motif_generators.clique_motif import clique_motif
from gcmpy.gcm_algorithm.gcm_algorithm_network import GCMAlgorithmNetwork
from gcmpy.names.gcm_algorithm_names import GCMAlgorithmNames
from gcmpy.names.joint_degree_names import JointDegreeNames
from gcmpy.names.network_names import NetworkNames
from gcmpy.names.tools_names import ToolsNames
from gcmpy.network.network import Network
from gcmpy.tools.joint_excess_joint_degree_matrices import (
    JointExcessJointDegreeMatrices,
)
from gcmpy.tools.markov_chain_monte_carlo import MarkovChainMonteCarlo
from gcmpy.tools.markov_chain_monte_carlo_rewiring import (
    MarkovChainMonteCarloRewiring,
)
from gcmpy.tools.joint_excess_from_ejk import JointExcessFromEjk
from gcmpy.tools.joint_degree_from_excess import JointDegreeFromExcess
from gcmpy.tools.draw_set import DrawSet

EDGE_NAMES = ["2-clique", "3-clique"]
MOTIF_SIZES = [2, 3]
T = NetworkNames.TOPOLOGY
M = NetworkNames.MOTIF_IDS


def sha(obj) -> str:
    return hashlib.sha256(repr(obj).encode()).hexdigest()[:20]


def rng_digest() -> str:
    s = np.random.get_state()
    return sha((random.getstate(), s[0], s[1].tolist(), s[2], s[3], s[4]))


def graph_digest(G) -> str:
    nodes = [(n, sorted((str(getattr(k, "name", k)), repr(v)) for k, v in d.items())) for n, d in G.nodes(data=True)]
    adj = [
        (u, [(v, [(str(getattr(k, "name", k)), repr(x)) for k, x in d.items()]) for v, d in nbrs.items()])
        for u, nbrs in G.adj.items()
    ]
    shared = all(G._adj[u][v] is G._adj[v][u] for u, v in G.edges())
    return sha((nodes, adj, list(G.edges()), shared, sorted(G.graph.items())))


def target(e: float):
    ejk_tree = {
        (0, 3, 0, 3): 9 / 81 - 2 * e, (0, 3, 4, 1): e, (0, 3, 2, 2): e,
        (4, 1, 0, 3): e, (4, 1, 4, 1): 45 / 81 - 2 * e, (4, 1, 2, 2): e,
        (2, 2, 0, 3): e, (2, 2, 4, 1): e, (2, 2, 2, 2): 27 / 81 - 2 * e,
    }
    ejk_tri = {
        (3, 1, 3, 1): 48 / 144 - 2 * e, (3, 1, 1, 2): e, (3, 1, 5, 0): e,
        (1, 2, 3, 1): e, (1, 2, 1, 2): 72 / 144 - 2 * e, (1, 2, 5, 0): e,
        (5, 0, 3, 1): e, (5, 0, 1, 2): e, (5, 0, 5, 0): 24 / 144 - 2 * e,
    }
    return JointExcessJointDegreeMatrices(
        {ToolsNames.EDGE_NAMES: EDGE_NAMES,
         ToolsNames.EJKS: {"2-clique": ejk_tree, "3-clique": ejk_tri}}
    )


def build(n: int, seed: int, e: float = 1e-3):
    random.seed(seed)
    np.random.seed(seed)
    ejks = target(e)
    qks = JointExcessFromEjk.get_excess_joint_distributions(ejks)
    jdd = JointDegreeFromExcess.get_joint_degree_distribution(qks, EDGE_NAMES)
    jds = JointDegreeManual(
        {JointDegreeNames.JDD: jdd, JointDegreeNames.MOTIF_SIZES: MOTIF_SIZES}
    ).sample_jds_from_jdd(n)
    g = GCMAlgorithmNetwork(
        {GCMAlgorithmNames.MOTIF_SIZES: MOTIF_SIZES,
         GCMAlgorithmNames.EDGE_NAMES: EDGE_NAMES,
         GCMAlgorithmNames.BUILD_FUNCTIONS: [clique_motif, clique_motif]}
    ).random_clustered_graph(jds)
    return g, ejks


def attempt(label, fn):
    try:
        r = fn()
        print(label, "->", r)
    except BaseException as ex:  # noqa
        print(label, "!!", type(ex).__module__, type(ex).__name__, repr(ex.args)[:300])


def run_rewire(label, g, ejks, seed, repeat=1, **limits):
    params = {ToolsNames.NETWORK: g, ToolsNames.EJKS: ejks}
    if "search" in limits:
        params[ToolsNames.SEARCH_LIMIT] = limits["search"]
    if "conv" in limits:
        params[ToolsNames.CONVERGENCE_LIMIT] = limits["conv"]
    before = graph_digest(g.G)
    random.seed(seed)
    np.random.seed(seed)
    mcmc = MarkovChainMonteCarloRewiring(params)
    for r in range(repeat):
        def go():
            G = mcmc.rewire()
            return (
                graph_digest(G), G.number_of_edges(), G is g.G,
                [(p._topology, p._motif_id, p._new_edge) for p in mcmc._proposal_edges][:6],
                sha(mcmc._acceptance_ratio), len(mcmc._acceptance_ratio),
                MarkovChainMonteCarlo._proposal_count,
                MarkovChainMonteCarlo._proposals_accepted,
                mcmc.convergence_limit, mcmc.search_limit,
            )
        attempt(f"{label} run{r}", go)
        print(label, "input-untouched", before == graph_digest(g.G), "rng", rng_digest())


def rewire_battery():
    for n, seed in [(60, 1), (120, 2), (300, 3)]:
        g, ejks = build(n, seed)
        print("built", n, seed, g.G.number_of_nodes(), g.G.number_of_edges(), graph_digest(g.G))
        run_rewire(f"rw n={n} conv=0", g, ejks, 10, conv=0, search=20)
        run_rewire(f"rw n={n} conv=1", g, ejks, 11, conv=1, search=5)
        run_rewire(f"rw n={n} conv=7 x3", g, ejks, 12, repeat=3, conv=7, search=20)
        run_rewire(f"rw n={n} many swaps, default search", g, ejks, 13, conv=250 if n >= 120 else 60)
        run_rewire(f"rw n={n} search=1", g, ejks, 14, conv=30, search=1)
    g, ejks = build(60, 5, e=2e-2)
    run_rewire("rw defaults", g, ejks, 15)
    g, ejks = build(150, 6, e=1e-8)
    run_rewire("rw sharp target", g, ejks, 16, conv=40, search=20)
    # error paths of the entry point
    attempt("ctor no network", lambda: MarkovChainMonteCarloRewiring({ToolsNames.EJKS: ejks}))
    attempt("ctor no ejks", lambda: MarkovChainMonteCarloRewiring({ToolsNames.NETWORK: g}))
    attempt("ctor graph not Network", lambda: MarkovChainMonteCarloRewiring(
        {ToolsNames.NETWORK: g.G, ToolsNames.EJKS: ejks}))
    empty = Network()
    run_rewire("rw empty network", empty, ejks, 17, conv=3)
    lone = Network()
    lone.G.add_node(0)
    lone.G.nodes[0][NetworkNames.JOINT_DEGREE] = (0, 0)
    run_rewire("rw edgeless network", lone, ejks, 18)
    # a network whose keys are missing from the target (KeyError guard paths)
    g2, _ = build(80, 7)
    part = target(1e-3)
    for k in [(0, 3, 4, 1), (4, 1, 0, 3), (2, 2, 0, 3), (0, 3, 2, 2)]:
        del part.ejks["2-clique"][k]
    for k in [(3, 1, 1, 2), (1, 2, 3, 1)]:
        part.ejks["3-clique"][k] = 0.0
    run_rewire("rw partial target", g2, part, 19, conv=25, search=20)


def structure_battery():
    # detailed, human-readable view of what a rewired graph looks like
    for n, seed, conv in [(40, 41, 3), (60, 42, 25), (200, 43, 300)]:
        g, ejks = build(n, seed)
        src = g.G
        random.seed(seed)
        np.random.seed(seed)
        mcmc = MarkovChainMonteCarloRewiring(
            {ToolsNames.NETWORK: g, ToolsNames.EJKS: ejks,
             ToolsNames.CONVERGENCE_LIMIT: conv, ToolsNames.SEARCH_LIMIT: 20})
        G = mcmc.rewire()
        new = [e for e in G.edges() if not src.has_edge(*e)]
        print("case", n, seed, conv, "new edges", len(new), sha(new))
        for e in new[:8]:
            d = G.edges[e]
            print("  edge", e, [(k.name, v) for k, v in d.items()], type(d).__name__,
                  G._adj[e[0]][e[1]] is G._adj[e[1]][e[0]], list(G.adj[e[0]]), list(G.adj[e[1]]))
        print("  attr key order", sha([[k.name for k in d] for _, _, d in G.edges(data=True)]),
              "adj order", sha([(u, list(nb)) for u, nb in G.adj.items()]),
              "node order", sha(list(G.nodes())), "graph attrs", G.graph,
              "cache", sorted(getattr(G, "__networkx_cache__", {})),
              "instance dict", sorted(k for k in G.__dict__))
        per_vertex = {
            u: sorted((t, sum(1 for _, _, d in G.edges(u, data=True) if d[T] == t)) for t in EDGE_NAMES)
            for u in G.nodes()
        }
        per_vertex0 = {
            u: sorted((t, sum(1 for _, _, d in src.edges(u, data=True) if d[T] == t)) for t in EDGE_NAMES)
            for u in src.nodes()
        }
        motifs = {}
        for u, v, d in G.edges(data=True):
            motifs.setdefault((d[T], d[M]), []).append((u, v))
        shapes = sorted((k[0], len(es), len({x for e in es for x in e})) for k, es in motifs.items())
        print("  degrees kept", per_vertex == per_vertex0, "shapes", sha(shapes),
              "selfloops", nx.number_of_selfloops(G), "rng", rng_digest(), "G", graph_digest(G))
        # second run on the same object, and a further run fed with the output
        G2 = mcmc.rewire()
        print("  second run", graph_digest(G2), "rng", rng_digest())
        nxt = Network()
        nxt.G = G2
        random.seed(seed + 1)
        m2 = MarkovChainMonteCarloRewiring(
            {ToolsNames.NETWORK: nxt, ToolsNames.EJKS: ejks, ToolsNames.CONVERGENCE_LIMIT: 15})
        attempt("  chained run", lambda: graph_digest(m2.rewire()))
        print("  chained input untouched", graph_digest(G2), "rng", rng_digest())


structure_battery()
rewire_battery()
print("final rng", rng_digest())
