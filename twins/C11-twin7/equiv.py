import sys, os; sys.path.insert(0, os.getcwd())

import hashlib
import random
import re
import signal

import networkx as nx

from gcmpy.names.tools_names import ToolsNames
from gcmpy.names.network_names import NetworkNames
from gcmpy.names.gcm_algorithm_names import GCMAlgorithmNames
from gcmpy.names.joint_degree_names import JointDegreeNames
from gcmpy.network.network import Network
from gcmpy.tools.joint_excess_joint_degree_matrices import (
    JointExcessJointDegreeMatrices,
)
from gcmpy.tools.joint_excess_joint_degree_keys_view import (
    JointExcessJointDegreeKeysView,
)
from gcmpy.tools.markov_chain_monte_carlo import MarkovChainMonteCarlo
from gcmpy.tools.markov_chain_monte_carlo_rewiring import (
    MarkovChainMonteCarloRewiring,
    ErrorMarkovChainMonteCarloRewiring,
)
from gcmpy.tools import markov_chain_monte_carlo_rewiring as rewiring_module
from gcmpy.tools.draw_set import DrawSet
from gcmpy.tools.proposal_edge import ProposalEdge
import gcmpy
import gcmpy.tools

JD = NetworkNames.JOINT_DEGREE
TOP = NetworkNames.TOPOLOGY
MID = NetworkNames.MOTIF_IDS
EDGE_NAMES = ["2-clique", "3-clique"]

WATCHDOG_SECONDS = 120


class Watchdog(Exception):
    pass


def _on_alarm(signum, frame):
    raise Watchdog()


signal.signal(signal.SIGALRM, _on_alarm)


def rng_state() -> str:
    return hashlib.sha256(repr(random.getstate()).encode()).hexdigest()[:16]


def graph_digest(G: nx.Graph) -> str:
    # keeps the iteration orders (nodes, adjacency) and all annotations
    nodes = [(u, sorted((str(k), repr(v)) for k, v in d.items())) for u, d in G.nodes(data=True)]
    edges = [
        (u, v, sorted((str(k), repr(val)) for k, val in d.items()))
        for u, v, d in G.edges(data=True)
    ]
    adjacency = [(u, list(G.adj[u])) for u in G.nodes()]
    blob = repr((nodes, edges, adjacency))
    return f"n={G.number_of_nodes()} m={G.number_of_edges()} sha={hashlib.sha256(blob.encode()).hexdigest()[:16]}"


def show(label, fn):
    """Runs fn, prints repr of the result or the exception type and message."""
    try:
        result = fn()
    except Watchdog:
        raise
    except BaseException as exc:  # noqa
        ctx = type(exc.__context__).__name__ if exc.__context__ is not None else None
        cause = type(exc.__cause__).__name__ if exc.__cause__ is not None else None
        print(f"{label}: EXC {type(exc).__module__}.{type(exc).__qualname__} {str(exc)!r} ctx={ctx} cause={cause}")
        return None
    shown = re.sub(r"0x[0-9a-fA-F]+", "0x?", repr(result))
    print(f"{label}: {type(result).__name__} {shown}")
    return result


def proposals(mcmc) -> list:
    return [
        (type(p).__name__, p.topology, p.motif_id, p.new_edge)
        for p in mcmc._proposal_edges
    ]


def counters(mcmc) -> tuple:
    return (
        MarkovChainMonteCarlo._proposal_count,
        MarkovChainMonteCarlo._proposals_accepted,
        mcmc._proposal_count,
        mcmc._proposals_accepted,
        list(mcmc._acceptance_ratio),
    )


# ----------------------------------------------------------------------------
# hand-made networks
# ----------------------------------------------------------------------------
def make_network(n: int, n_triangles: int, n_pairs: int, seed: int) -> Network:
    rnd = random.Random(seed)
    G = nx.Graph()
    G.add_nodes_from(range(n))
    motif_id = 0
    attempts = 0
    made = 0
    while made < n_triangles and attempts < 10000:
        attempts += 1
        a, b, c = rnd.sample(range(n), 3)
        if G.has_edge(a, b) or G.has_edge(b, c) or G.has_edge(a, c):
            continue
        for e in ((a, b), (b, c), (a, c)):
            G.add_edge(*e)
            G.edges[e][TOP] = "3-clique"
            G.edges[e][MID] = motif_id
        motif_id += 1
        made += 1
    made = 0
    attempts = 0
    while made < n_pairs and attempts < 10000:
        attempts += 1
        a, b = rnd.sample(range(n), 2)
        if G.has_edge(a, b):
            continue
        G.add_edge(a, b)
        G.edges[a, b][TOP] = "2-clique"
        G.edges[a, b][MID] = motif_id
        motif_id += 1
        made += 1
    for u in G.nodes():
        k2 = sum(1 for e in G.edges(u) if G.edges[e][TOP] == "2-clique")
        k3 = sum(1 for e in G.edges(u) if G.edges[e][TOP] == "3-clique") // 2
        G.nodes[u][JD] = (k2, k3)
        G.nodes[u]["colour"] = "red" if u % 2 else "blue"
    net = Network()
    net.G = G
    return net


def excess_keys(G: nx.Graph) -> dict:
    keys = {name: set() for name in EDGE_NAMES}
    for u, v, d in G.edges(data=True):
        idx = EDGE_NAMES.index(d[TOP])
        for w in (u, v):
            jd = list(G.nodes[w][JD])
            jd[idx] -= 1
            keys[d[TOP]].add(tuple(jd))
    return {name: sorted(s) for name, s in keys.items()}


def make_ejks(G: nx.Graph, seed: int, mode: str) -> JointExcessJointDegreeMatrices:
    rnd = random.Random(seed)
    keys = excess_keys(G)
    ejks = {}
    for name in EDGE_NAMES:
        table = {}
        for a in keys[name]:
            for b in keys[name]:
                if mode == "ones":
                    value = 1.0
                elif mode == "random":
                    value = rnd.random() + 0.05
                elif mode == "sparse":
                    # some keys missing (KeyError branches), some exact zeros
                    r = rnd.random()
                    if r < 0.15:
                        continue
                    value = 0.0 if r < 0.25 else rnd.random() + 0.05
                elif mode == "holes":
                    # some keys missing (KeyError guards), no zeros
                    if rnd.random() < 0.3:
                        continue
                    value = rnd.random() + 0.05
                elif mode == "assortative":
                    value = 1.0 if a == b else 1e-3 * (1 + rnd.random())
                else:
                    raise ValueError(mode)
                table[a + b] = value
        ejks[name] = table
    params = {ToolsNames.EJKS: ejks, ToolsNames.EDGE_NAMES: list(EDGE_NAMES)}
    return JointExcessJointDegreeMatrices(params)


def motif_shape_report(G: nx.Graph) -> str:
    by_motif = {}
    for u, v, d in G.edges(data=True):
        by_motif.setdefault(d[MID], []).append((d[TOP], tuple(sorted((u, v)))))
    shapes = []
    for m in sorted(by_motif):
        es = by_motif[m]
        vs = sorted({w for _, e in es for w in e})
        shapes.append((m, sorted({t for t, _ in es}), len(es), len(vs)))
    return hashlib.sha256(repr(shapes).encode()).hexdigest()[:16]


def degree_report(G: nx.Graph) -> str:
    rows = []
    for u in G.nodes():
        counts = {}
        for e in G.edges(u):
            t = G.edges[e][TOP]
            counts[t] = counts.get(t, 0) + 1
        rows.append((u, sorted(counts.items())))
    return hashlib.sha256(repr(rows).encode()).hexdigest()[:16]


def run_rewire(label, net, ejks, seed, extra_params, repeats=2):
    print(f"--- rewire {label}")
    params = {ToolsNames.NETWORK: net, ToolsNames.EJKS: ejks}
    params.update(extra_params)
    params_before = repr(sorted((str(k), type(v).__name__) for k, v in params.items()))
    before = graph_digest(net.G)
    random.seed(seed)
    mcmc = show("init", lambda: MarkovChainMonteCarloRewiring(params))
    if mcmc is None:
        return
    print("limits", mcmc.convergence_limit, mcmc.search_limit, mcmc.network is net, mcmc.ejks is ejks)
    for i in range(repeats):
        signal.alarm(WATCHDOG_SECONDS)
        try:
            try:
                H = mcmc.rewire()
            finally:
                signal.alarm(0)
        except Watchdog:
            print(f"run {i}: WATCHDOG")
            break
        except BaseException as exc:  # noqa
            print(f"run {i}: EXC {type(exc).__name__} {str(exc)!r}")
            print("rng", rng_state(), "counters", counters(mcmc))
            continue
        print(f"run {i}:", graph_digest(H), "motifs", motif_shape_report(H), "degrees", degree_report(H))
        print("selfloops", nx.number_of_selfloops(H), "is_input", H is net.G)
        print("input unchanged", graph_digest(net.G) == before, graph_digest(net.G))
        print("rng", rng_state(), "counters", counters(mcmc))
        print("proposals", proposals(mcmc))
    print("params unchanged", params_before == repr(sorted((str(k), type(v).__name__) for k, v in params.items())))


def section_rewire():
    MarkovChainMonteCarlo._proposal_count = 0
    MarkovChainMonteCarlo._proposals_accepted = 0
    net_a = make_network(40, 10, 25, seed=1)
    net_b = make_network(60, 20, 0, seed=2)
    net_c = make_network(30, 0, 30, seed=3)
    net_d = make_network(25, 8, 20, seed=4)
    run_rewire("A ones defaults-search", net_a, make_ejks(net_a.G, 11, "ones"), 101,
               {ToolsNames.CONVERGENCE_LIMIT: 60})
    run_rewire("A random", net_a, make_ejks(net_a.G, 12, "random"), 102,
               {ToolsNames.CONVERGENCE_LIMIT: 120, ToolsNames.SEARCH_LIMIT: 10})
    run_rewire("A assortative", net_a, make_ejks(net_a.G, 13, "assortative"), 103,
               {ToolsNames.CONVERGENCE_LIMIT: 40, ToolsNames.SEARCH_LIMIT: 30})
    run_rewire("B triangles only random", net_b, make_ejks(net_b.G, 14, "random"), 104,
               {ToolsNames.CONVERGENCE_LIMIT: 80, ToolsNames.SEARCH_LIMIT: 5})
    run_rewire("C pairs only random", net_c, make_ejks(net_c.G, 15, "random"), 105,
               {ToolsNames.CONVERGENCE_LIMIT: 100, ToolsNames.SEARCH_LIMIT: 3})
    # both limits left to their defaults (10 * edges swaps)
    run_rewire("D defaults", net_d, make_ejks(net_d.G, 16, "random"), 106, {}, repeats=1)
    # sparse target: KeyError guards, zero numerators and divide by zero
    for s in (17, 18, 19):
        run_rewire(f"A sparse {s}", net_a, make_ejks(net_a.G, s, "sparse"), 200 + s,
                   {ToolsNames.CONVERGENCE_LIMIT: 15, ToolsNames.SEARCH_LIMIT: 8})
    for s in (27, 28):
        run_rewire(f"A holes {s}", net_a, make_ejks(net_a.G, s, "holes"), 200 + s,
                   {ToolsNames.CONVERGENCE_LIMIT: 30, ToolsNames.SEARCH_LIMIT: 8})
    # degenerate limits
    run_rewire("A conv 0", net_a, make_ejks(net_a.G, 11, "ones"), 107,
               {ToolsNames.CONVERGENCE_LIMIT: 0})
    run_rewire("A conv -1", net_a, make_ejks(net_a.G, 11, "ones"), 108,
               {ToolsNames.CONVERGENCE_LIMIT: -1})
    run_rewire("A search 0", net_a, make_ejks(net_a.G, 11, "ones"), 109,
               {ToolsNames.CONVERGENCE_LIMIT: -1, ToolsNames.SEARCH_LIMIT: 0})
    # empty network: draw from an empty set
    empty = Network()
    run_rewire("empty", empty, make_ejks(net_a.G, 11, "ones"), 110, {ToolsNames.CONVERGENCE_LIMIT: 3})
    # edge without annotations
    bad = make_network(12, 2, 4, seed=5)
    bad.G.add_edge(100, 101)
    run_rewire("unannotated edge", bad, make_ejks(net_a.G, 11, "ones"), 111, {ToolsNames.CONVERGENCE_LIMIT: 30})
    # property setters then rewire again on the same object
    random.seed(112)
    mcmc = MarkovChainMonteCarloRewiring({ToolsNames.NETWORK: net_a, ToolsNames.EJKS: make_ejks(net_a.G, 12, "random")})
    mcmc.convergence_limit = 7
    mcmc.search_limit = 6
    mcmc.network = net_d
    mcmc.ejks = make_ejks(net_d.G, 21, "random")
    signal.alarm(WATCHDOG_SECONDS)
    try:
        H = mcmc.rewire()
        print("setters run:", graph_digest(H), rng_state(), counters(mcmc))
    except Watchdog:
        print("setters run: WATCHDOG")
    finally:
        signal.alarm(0)


def section_gcm():
    print("--- gcm built network")
    from gcmpy.joint_degree.joint_degree_loaders.joint_degree_manual import JointDegreeManual
    from gcmpy.motif_generators.clique_motif import clique_motif
    from gcmpy.gcm_algorithm.gcm_algorithm_network import GCMAlgorithmNetwork
    from gcmpy.tools.joint_excess_from_ejk import JointExcessFromEjk
    from gcmpy.tools.joint_degree_from_excess import JointDegreeFromExcess

    eps = 1e-8
    tree = {
        (0, 3, 0, 3): 9 / 81 - 2 * eps, (0, 3, 4, 1): eps, (0, 3, 2, 2): eps,
        (4, 1, 0, 3): eps, (4, 1, 4, 1): 45 / 81 - 2 * eps, (4, 1, 2, 2): eps,
        (2, 2, 0, 3): eps, (2, 2, 4, 1): eps, (2, 2, 2, 2): 27 / 81 - 2 * eps,
    }
    tri = {
        (3, 1, 3, 1): 48 / 144 - 2 * eps, (3, 1, 1, 2): eps, (3, 1, 5, 0): eps,
        (1, 2, 3, 1): eps, (1, 2, 1, 2): 72 / 144 - 2 * eps, (1, 2, 5, 0): eps,
        (5, 0, 3, 1): eps, (5, 0, 1, 2): eps, (5, 0, 5, 0): 24 / 144 - 2 * eps,
    }
    target = JointExcessJointDegreeMatrices(
        {ToolsNames.EDGE_NAMES: list(EDGE_NAMES), ToolsNames.EJKS: {"2-clique": tree, "3-clique": tri}}
    )
    random.seed(300)
    qks = JointExcessFromEjk.get_excess_joint_distributions(target)
    jdd = JointDegreeFromExcess.get_joint_degree_distribution(qks, EDGE_NAMES)
    jds = JointDegreeManual(
        {JointDegreeNames.JDD: jdd, JointDegreeNames.MOTIF_SIZES: [2, 3]}
    ).sample_jds_from_jdd(120)
    g = GCMAlgorithmNetwork(
        {
            GCMAlgorithmNames.MOTIF_SIZES: [2, 3],
            GCMAlgorithmNames.EDGE_NAMES: list(EDGE_NAMES),
            GCMAlgorithmNames.BUILD_FUNCTIONS: [clique_motif, clique_motif],
        }
    ).random_clustered_graph(jds)
    print("built", graph_digest(g.G))
    run_rewire("gcm", g, target, 301, {ToolsNames.CONVERGENCE_LIMIT: 25, ToolsNames.SEARCH_LIMIT: 20}, repeats=2)


# ----------------------------------------------------------------------------
# direct calls of the public methods
# ----------------------------------------------------------------------------
def section_methods():
    print("--- methods")
    net = make_network(40, 10, 25, seed=1)
    G = net.G
    ejks = make_ejks(G, 12, "random")
    random.seed(400)
    mcmc = MarkovChainMonteCarloRewiring(
        {ToolsNames.NETWORK: net, ToolsNames.EJKS: ejks, ToolsNames.CONVERGENCE_LIMIT: 5}
    )
    before = graph_digest(G)

    # get_other_vertex
    show("other (1,2) 1", lambda: mcmc.get_other_vertex(1, (1, 2)))
    show("other (1,2) 2", lambda: mcmc.get_other_vertex(2, (1, 2)))
    show("other (3,3) 3", lambda: mcmc.get_other_vertex(3, (3, 3)))
    show("other missing", lambda: mcmc.get_other_vertex(9, (1, 2)))
    show("other float", lambda: mcmc.get_other_vertex(1.0, (1, 2)))
    show("other short", lambda: mcmc.get_other_vertex(9, (1,)))
    show("other empty", lambda: mcmc.get_other_vertex(9, ()))
    show("other list", lambda: mcmc.get_other_vertex("b", ["a", "b", "c"]))
    show("other unbound", lambda: MarkovChainMonteCarloRewiring.get_other_vertex(mcmc, 2, (1, 2)))
    show("other kw", lambda: mcmc.get_other_vertex(u=2, e=(1, 2)))

    # get_all_edges / get_hashmap for every edge and both end points
    rows = []
    for u, v in list(G.edges()):
        for focal in (u, v):
            es = mcmc.get_all_edges(G, focal, (u, v))
            rows.append((focal, (u, v), es, list(mcmc.get_hashmap(G, es).items())))
    print("all_edges/hashmap sha", hashlib.sha256(repr(rows).encode()).hexdigest()[:16], len(rows))
    print("sample rows", rows[:6])
    show("all_edges kw", lambda: mcmc.get_all_edges(G=G, u0=list(G.edges())[0][0], edge=list(G.edges())[0]))
    show("all_edges missing edge", lambda: mcmc.get_all_edges(G, 0, (0, 0)))
    show("all_edges foreign focal", lambda: mcmc.get_all_edges(G, 10 ** 6, list(G.edges())[0]))
    some = list(G.edges())[:7]
    hm = show("hashmap some", lambda: mcmc.get_hashmap(G, some))
    print("hashmap type", type(hm).__name__, list(hm))
    show("hashmap empty", lambda: mcmc.get_hashmap(G, []))
    show("hashmap missing", lambda: mcmc.get_hashmap(G, [some[0], (0, 0)]))
    show("hashmap dup", lambda: mcmc.get_hashmap(G, [some[0], some[0], some[1]]))
    show("hashmap generator", lambda: mcmc.get_hashmap(G, (e for e in some)))
    show("hashmap lookup miss", lambda: mcmc.get_hashmap(G, some)["nope"])
    H = nx.Graph()
    H.add_edge(0, 1)
    H.edges[0, 1][TOP] = ["unhashable"]
    show("hashmap unhashable topology", lambda: mcmc.get_hashmap(H, [(0, 1)]))
    H.add_edge(1, 2)
    show("hashmap unannotated", lambda: mcmc.get_hashmap(H, [(1, 2)]))

    # joint excess degree keys
    for e in some:
        for idx in (0, 1, -1, -2):
            show(f"jedk {e} {idx}", lambda: mcmc.get_joint_excess_degree_key(G, e, idx))
    show("jedk idx 2", lambda: mcmc.get_joint_excess_degree_key(G, some[0], 2))
    show("jedk idx str", lambda: mcmc.get_joint_excess_degree_key(G, some[0], "0"))
    show("jedk missing vertex", lambda: mcmc.get_joint_excess_degree_key(G, (some[0][0], 10 ** 6), 0))
    show("jedk one vertex", lambda: mcmc.get_joint_excess_degree_key(G, (some[0][0],), 0))
    show("jedk three vertices", lambda: mcmc.get_joint_excess_degree_key(G, (0, 1, 2), 1))
    show("jedk same vertex", lambda: mcmc.get_joint_excess_degree_key(G, (5, 5), 0))
    show("jedk generator", lambda: mcmc.get_joint_excess_degree_key(G, (w for w in some[0]), 0))
    show("jedk kw", lambda: mcmc.get_joint_excess_degree_key(G=G, e=some[1], index=1))
    K = nx.Graph()
    K.add_node(0, **{})
    K.add_node(1)
    K.nodes[0][JD] = (1,)
    show("jedk first bad index second missing jd", lambda: mcmc.get_joint_excess_degree_key(K, (0, 1), 1))
    K.nodes[1][JD] = ("x", 2)
    show("jedk non numeric", lambda: mcmc.get_joint_excess_degree_key(K, (0, 1), 0))
    K.nodes[0][JD] = [4, 5]
    K.nodes[1][JD] = [6.5, 7]
    show("jedk list jd", lambda: mcmc.get_joint_excess_degree_key(K, (0, 1), 0))
    print("jd not mutated", K.nodes[0][JD], K.nodes[1][JD])

    def view_digest(view):
        return (
            type(view).__name__, type(view._keys).__name__, view._keys,
            view.get_u0u1(), view.get_u1u0(), view.get_v0v1(), view.get_v1v0(),
            view.get_u0v1(), view.get_v0u1(),
        )

    edges = list(G.edges())
    for e0, e1 in zip(edges[:6], edges[6:12]):
        for idx in (0, 1):
            show(
                f"swapped {e0} {e1} {idx}",
                lambda: view_digest(mcmc.get_swapped_joint_excess_degree_key(G, e0, e1, e0[0], e1[1], idx)),
            )
    show("swapped bad u0", lambda: mcmc.get_swapped_joint_excess_degree_key(G, edges[0], edges[1], 10 ** 6, edges[1][0], 0))
    show("swapped bad v0", lambda: mcmc.get_swapped_joint_excess_degree_key(G, edges[0], edges[1], edges[0][0], 10 ** 6, 0))
    show("swapped bad index", lambda: mcmc.get_swapped_joint_excess_degree_key(G, edges[0], edges[1], edges[0][0], edges[1][0], 5))
    show("swapped foreign edge", lambda: mcmc.get_swapped_joint_excess_degree_key(G, (777, 778), edges[1], 777, edges[1][0], 0))
    show(
        "swapped kw",
        lambda: view_digest(
            mcmc.get_swapped_joint_excess_degree_key(G=G, e0=edges[0], e1=edges[1], u0=edges[0][1], v0=edges[1][0], index=1)
        ),
    )

    # append_proposal_edges
    mcmc._proposal_edges = []
    show("append 1", lambda: mcmc.append_proposal_edges(G, edges[0][0], edges[0], (edges[0][0], 99)))
    show("append 2", lambda: mcmc.append_proposal_edges(G, 99, edges[1], (5, 99)))
    show("append bad", lambda: mcmc.append_proposal_edges(G, 3, edges[1], (5, 99)))
    show("append missing", lambda: mcmc.append_proposal_edges(G, 3, (0, 0), (3, 99)))
    print("proposals", proposals(mcmc))

    # is_edge_choice_suitable on all ordered pairs of corners of a sample
    MarkovChainMonteCarlo._proposal_count = 0
    MarkovChainMonteCarlo._proposals_accepted = 0
    random.seed(401)
    rows = []
    sample = edges[::3]
    for e0 in sample:
        for e1 in sample:
            for u0 in e0:
                for v0 in e1:
                    e0s = mcmc.get_all_edges(G, u0, e0)
                    e1s = mcmc.get_all_edges(G, v0, e1)
                    ok = mcmc.is_edge_choice_suitable(G, u0, v0, e0s, e1s)
                    row = [u0, v0, e0, e1, ok]
                    if ok:
                        try:
                            row.append(mcmc.swap_condition(G, e0s, e1s, u0, v0))
                        except Exception as exc:  # noqa
                            row.append((type(exc).__name__, str(exc)))
                        row.append(proposals(mcmc))
                        row.append((e0s, e1s))
                    rows.append(row)
    print("suitable/swap sha", hashlib.sha256(repr(rows).encode()).hexdigest()[:16], len(rows),
          sum(1 for r in rows if r[4] is True), sum(1 for r in rows if len(r) > 5 and r[5] is True))
    print("first suitable", [r for r in rows if r[4]][:3])
    print("rng", rng_state(), "counters", counters(mcmc))

    # hand made cases for is_edge_choice_suitable
    T = nx.Graph()

    def tri(a, b, c, mid, top="3-clique"):
        for e in ((a, b), (b, c), (a, c)):
            T.add_edge(*e)
            T.edges[e][TOP] = top
            T.edges[e][MID] = mid

    def pair(a, b, mid, top="2-clique"):
        T.add_edge(a, b)
        T.edges[a, b][TOP] = top
        T.edges[a, b][MID] = mid

    tri(0, 1, 2, 0)
    tri(3, 4, 5, 1)
    tri(2, 6, 7, 2)       # shares vertex 2 with motif 0
    pair(8, 9, 3)
    pair(10, 11, 4)
    pair(0, 3, 5)         # joins the two triangles
    pair(12, 13, 6, top="3-clique")  # stray triangle edge
    T.add_edge(14, 15)
    T.edges[14, 15][TOP] = "2-clique"
    T.edges[14, 15][MID] = 3  # same motif id as (8,9)
    for u in T.nodes():
        k2 = sum(1 for e in T.edges(u) if T.edges[e][TOP] == "2-clique")
        k3 = sum(1 for e in T.edges(u) if T.edges[e][TOP] == "3-clique")
        T.nodes[u][JD] = (k2, k3)
    tnet = Network()
    tnet.G = T
    tej = make_ejks(T, 31, "random")
    tm = MarkovChainMonteCarloRewiring({ToolsNames.NETWORK: tnet, ToolsNames.EJKS: tej})
    print("default limits", tm.convergence_limit, tm.search_limit)

    def corner(u, e):
        return tm.get_all_edges(T, u, e)

    cases = [
        ("tri-tri ok", 1, 4, corner(1, (1, 2)), corner(4, (4, 5))),
        ("tri-tri joined", 0, 3, corner(0, (0, 1)), corner(3, (3, 4))),
        ("tri-tri joined other", 0, 4, corner(0, (0, 1)), corner(4, (3, 4))),
        ("tri-tri shared vertex", 2, 2, corner(2, (0, 2)), corner(2, (2, 6))),
        ("tri-tri shared vertex b", 1, 6, corner(1, (1, 2)), corner(6, (2, 6))),
        ("same motif", 0, 1, corner(0, (0, 1)), corner(1, (1, 2))),
        ("pair-pair ok", 8, 10, corner(8, (8, 9)), corner(10, (10, 11))),
        ("pair-pair same id", 8, 14, corner(8, (8, 9)), corner(14, (14, 15))),
        ("size mismatch", 8, 1, corner(8, (8, 9)), corner(1, (1, 2))),
        ("topology mismatch", 8, 12, corner(8, (8, 9)), corner(12, (12, 13))),
        ("count mismatch", 0, 4, [(0, 1), (0, 3)], [(4, 3), (4, 5)]),
        ("empty", 0, 4, [], []),
        ("foreign focal", 99, 4, corner(1, (1, 2)), corner(4, (4, 5))),
        ("zip shorter", 1, 4, corner(1, (1, 2)), corner(4, (4, 5))[:1] + [(8, 9)]),
    ]
    for name, u0, v0, e0s, e1s in cases:
        show(f"suitable {name}", lambda: tm.is_edge_choice_suitable(T, u0, v0, e0s, e1s))
    show("suitable kw", lambda: tm.is_edge_choice_suitable(G=T, u0=1, v0=4, e0s=corner(1, (1, 2)), e1s=corner(4, (4, 5))))
    show("suitable missing edge", lambda: tm.is_edge_choice_suitable(T, 1, 4, [(1, 2), (1, 77)], corner(4, (4, 5))))

    # swap_condition: direct cases
    random.seed(402)
    MarkovChainMonteCarlo._proposal_count = 0
    MarkovChainMonteCarlo._proposals_accepted = 0
    for rep in range(3):
        for name, u0, v0, e0s, e1s in cases[:8]:
            e0s_copy, e1s_copy = list(e0s), list(e1s)
            show(f"swap {rep} {name}", lambda: tm.swap_condition(T, e0s, e1s, u0, v0))
            print("  proposals", proposals(tm), "inputs unchanged", e0s == e0s_copy and e1s == e1s_copy)
    show("swap index error", lambda: tm.swap_condition(T, [(0, 1), (0, 2)], [(4, 3)], 0, 4))
    show("swap topology missing", lambda: tm.swap_condition(T, corner(1, (1, 2)), corner(8, (8, 9)), 1, 8))
    show("swap kw", lambda: tm.swap_condition(G=T, e0s=corner(1, (1, 2)), e1s=corner(4, (4, 5)), u0=1, v0=4))
    print("rng", rng_state(), "counters", counters(tm))

    # targeted ejks: zero numerator, zero denominator, missing keys, numpy-like values
    def with_values(fn):
        keys = excess_keys(T)
        table = {}
        for name in EDGE_NAMES:
            table[name] = {}
            for a in keys[name]:
                for b in keys[name]:
                    val = fn(name, a, b)
                    if val is not None:
                        table[name][a + b] = val
        return JointExcessJointDegreeMatrices({ToolsNames.EJKS: table, ToolsNames.EDGE_NAMES: list(EDGE_NAMES)})

    current = set()
    for u, v, d in T.edges(data=True):
        idx = EDGE_NAMES.index(d[TOP])
        ks = []
        for w in (u, v):
            jd = list(T.nodes[w][JD])
            jd[idx] -= 1
            ks.append(tuple(jd))
        current.add((d[TOP], ks[0] + ks[1]))
        current.add((d[TOP], ks[1] + ks[0]))

    variants = {
        "all zero": lambda n, a, b: 0.0,
        "current zero": lambda n, a, b: 0.0 if (n, a + b) in current else 0.5,
        "current only": lambda n, a, b: 0.25 if (n, a + b) in current else None,
        "none": lambda n, a, b: None,
        "ints": lambda n, a, b: 2 if a <= b else 3,
        "big": lambda n, a, b: 1e300,
        "tiny": lambda n, a, b: 1e-300,
        "inf": lambda n, a, b: float("inf"),
        "nan": lambda n, a, b: float("nan"),
        "neg": lambda n, a, b: -1.5 if a < b else 2.5,
    }
    random.seed(403)
    for vname, fn in variants.items():
        tm.ejks = with_values(fn)
        for name, u0, v0, e0s, e1s in (cases[0], cases[6], cases[1]):
            show(f"swap[{vname}] {name}", lambda: tm.swap_condition(T, e0s, e1s, u0, v0))
    tm.ejks = JointExcessJointDegreeMatrices({ToolsNames.EJKS: {}, ToolsNames.EDGE_NAMES: ["3-clique"]})
    show("swap unknown topology name", lambda: tm.swap_condition(T, corner(8, (8, 9)), corner(10, (10, 11)), 8, 10))
    show("swap empty ejks", lambda: tm.swap_condition(T, corner(1, (1, 2)), corner(4, (4, 5)), 1, 4))
    show("swap empty corners", lambda: tm.swap_condition(T, [], [], 0, 4))
    print("rng", rng_state(), "counters", counters(tm))
    print("graphs untouched", graph_digest(G) == before, graph_digest(T))


def section_init():
    print("--- init")
    net = make_network(12, 2, 5, seed=6)
    ejks = make_ejks(net.G, 41, "ones")
    show("init None", lambda: MarkovChainMonteCarloRewiring(None))
    show("init empty", lambda: MarkovChainMonteCarloRewiring({}))
    show("init no ejks", lambda: MarkovChainMonteCarloRewiring({ToolsNames.NETWORK: net}))
    show("init no network", lambda: MarkovChainMonteCarloRewiring({ToolsNames.EJKS: ejks}))
    show("init network is graph", lambda: MarkovChainMonteCarloRewiring({ToolsNames.NETWORK: net.G, ToolsNames.EJKS: ejks}))
    show("init network is None", lambda: MarkovChainMonteCarloRewiring({ToolsNames.NETWORK: None, ToolsNames.EJKS: ejks}))
    show("init list params", lambda: MarkovChainMonteCarloRewiring([1, 2]))
    show("init string keys", lambda: MarkovChainMonteCarloRewiring({"network": net, "ejks": ejks}))
    # graph given instead of Network but with an explicit limit: no error at init
    m = show("init graph explicit limit", lambda: MarkovChainMonteCarloRewiring(
        {ToolsNames.NETWORK: net.G, ToolsNames.EJKS: ejks, ToolsNames.CONVERGENCE_LIMIT: 4}
    ).convergence_limit)
    for limits in (
        {},
        {ToolsNames.CONVERGENCE_LIMIT: 3},
        {ToolsNames.SEARCH_LIMIT: 4},
        {ToolsNames.CONVERGENCE_LIMIT: None, ToolsNames.SEARCH_LIMIT: None},
        {ToolsNames.CONVERGENCE_LIMIT: 0, ToolsNames.SEARCH_LIMIT: 0},
        {ToolsNames.CONVERGENCE_LIMIT: 2.5, ToolsNames.SEARCH_LIMIT: "x"},
    ):
        params = {ToolsNames.NETWORK: net, ToolsNames.EJKS: ejks}
        params.update(limits)
        m = MarkovChainMonteCarloRewiring(params)
        print(
            "limits", sorted(str(k) for k in limits), repr(m.convergence_limit), repr(m.search_limit),
            m.network is net, m.ejks is ejks, sorted(vars(m)), m._proposal_edges, m._proposal_count,
            m._proposals_accepted, m._acceptance_ratio, type(m._logger).__name__, m._logger.name,
        )
    print("class", MarkovChainMonteCarloRewiring.__mro__, ErrorMarkovChainMonteCarloRewiring.__mro__,
          ErrorMarkovChainMonteCarloRewiring.__module__, MarkovChainMonteCarloRewiring.__module__)
    public = sorted(n for n in dir(MarkovChainMonteCarloRewiring) if not n.startswith("_"))
    print("public attrs", public)
    print("kinds", [(n, type(MarkovChainMonteCarloRewiring.__dict__[n]).__name__)
                    for n in public if n in MarkovChainMonteCarloRewiring.__dict__])
    print("module public", sorted(n for n in dir(rewiring_module) if not n.startswith("_")))
    print("exports", gcmpy.tools.DrawSet is DrawSet, gcmpy.DrawSet is DrawSet,
          gcmpy.tools.MarkovChainMonteCarloRewiring is MarkovChainMonteCarloRewiring,
          rewiring_module.DrawSet is DrawSet, rewiring_module.ProposalEdge is ProposalEdge)


def section_draw_set():
    print("--- DrawSet")
    random.seed(500)
    ds = DrawSet()
    print("empty", len(ds), list(ds), (1, 2) in ds, bool(ds))
    show("draw empty", ds.draw)
    show("remove empty", lambda: ds.remove((1, 2)))
    show("add unhashable", lambda: ds.add([1, 2]))
    show("contains unhashable", lambda: [1, 2] in ds)
    show("remove unhashable", lambda: ds.remove([1, 2]))
    print("after errors", len(ds), list(ds))
    for e in [(1, 2), (2, 3), (1, 2), (3, 4), (0, 9), (2, 3), (5, 5)]:
        show(f"add {e}", lambda: ds.add(e))
    print("state", len(ds), list(ds), [(e in ds) for e in [(1, 2), (2, 1), (5, 5), (9, 9)]])
    print("draws", [ds.draw() for _ in range(10)], rng_state())
    show("remove last", lambda: ds.remove((5, 5)))
    print("state", len(ds), list(ds))
    show("remove first", lambda: ds.remove((1, 2)))
    print("state", len(ds), list(ds))
    show("remove again", lambda: ds.remove((1, 2)))
    print("state", len(ds), list(ds))
    show("remove middle", lambda: ds.remove((2, 3)))
    print("state", len(ds), list(ds), (0, 9) in ds, (2, 3) in ds)
    show("re-add", lambda: ds.add((2, 3)))
    print("state", len(ds), list(ds))
    print("draws", [ds.draw() for _ in range(10)], rng_state())
    for e in list(ds):
        ds.remove(e)
    print("drained", len(ds), list(ds))
    show("draw drained", ds.draw)
    ds.add((7, 8))
    show("remove single", lambda: ds.remove((7, 8)))
    print("state", len(ds), list(ds))
    # mixed member kinds: equal but distinct objects keep the first one
    ds.add((1, 2))
    ds.add((1.0, 2.0))
    ds.add("ab")
    ds.add(None)
    ds.add(frozenset({1}))
    print("mixed", len(ds), list(ds), (True, 2) in ds)
    ds.remove((1.0, 2.0))
    print("mixed", len(ds), list(ds))
    # long random workload against a reference model
    rnd = random.Random(501)
    ds2 = DrawSet()
    trace = []
    for step in range(3000):
        e = (rnd.randrange(12), rnd.randrange(12))
        op = rnd.random()
        if op < 0.5:
            ds2.add(e)
        elif op < 0.85:
            try:
                ds2.remove(e)
            except KeyError as exc:
                trace.append(("KeyError", exc.args))
        else:
            try:
                trace.append(ds2.draw())
            except IndexError as exc:
                trace.append(("IndexError", exc.args))
        if step % 97 == 0:
            trace.append((len(ds2), list(ds2), e in ds2))
    print("workload", hashlib.sha256(repr(trace).encode()).hexdigest()[:16], len(ds2), list(ds2), rng_state())
    it = iter(ds2)
    print("iter", type(it).__name__, next(it, None))
    print("class", DrawSet.__mro__, DrawSet.__module__, DrawSet.__doc__,
          sorted(n for n in dir(DrawSet) if not n.startswith("_")))
    show("init args", lambda: DrawSet([1]))
    print("instance attr count", len(vars(DrawSet())))


def section_proposal_edge():
    print("--- ProposalEdge")
    p = ProposalEdge()
    print("fresh", p.topology, p.motif_id, p.new_edge, len(vars(p)))
    p.topology = "3-clique"
    p.motif_id = 7
    p.new_edge = (1, 2)
    print("set", p.topology, p.motif_id, p.new_edge, p._topology, p._motif_id, p._new_edge, sorted(vars(p)))
    p._topology = "2-clique"
    p._motif_id = None
    p._new_edge = [3, 4]
    print("set private", p.topology, p.motif_id, p.new_edge)
    q = ProposalEdge()
    print("eq/hash", p == q, p == p, hash(p) == hash(p), p != q, isinstance(hash(q), int))
    print("repr", repr(p).split(" at ")[0])
    show("init args", lambda: ProposalEdge("x"))
    show("init kw", lambda: ProposalEdge(topology="x"))
    show("unknown attr", lambda: p.nope)
    p.extra = 1
    print("extra", p.extra, sorted(vars(p)))
    print("class", ProposalEdge.__mro__, ProposalEdge.__module__, ProposalEdge.__doc__,
          sorted(n for n in dir(ProposalEdge) if not n.startswith("_")),
          [(n, type(ProposalEdge.__dict__[n]).__name__) for n in ("topology", "motif_id", "new_edge")],
          hasattr(ProposalEdge, "__slots__"), hasattr(ProposalEdge, "__dataclass_fields__"))
    show("del", lambda: delattr(p, "topology"))


if __name__ == "__main__":
    section_init()
    section_draw_set()
    section_proposal_edge()
    section_methods()
    section_rewire()
    section_gcm()
    print("final rng", rng_state())
