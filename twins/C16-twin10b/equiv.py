import sys, os; sys.path.insert(0, os.getcwd())
import random, hashlib, itertools, decimal, fractions
import numpy as np
from gcmpy.message_passing.equations.clique_equation import clique_equation
from gcmpy.message_passing.number_connected_graphs import Q

random.seed(1602)
np.random.seed(1602)


def show(x):
    if isinstance(x, Rec):
        return "Rec(%s,%s)" % (x.tag, show(x.v))
    if isinstance(x, np.ndarray) and x.dtype == object:
        return "ndo:%s:[%s]" % (x.shape, ",".join(show(e) for e in x.ravel().tolist()))
    if isinstance(x, np.ndarray):
        return "nd:%s:%s:%s" % (x.dtype, x.shape, x.tobytes().hex())
    if isinstance(x, np.generic):
        return "npg:%s:%s" % (type(x).__name__, x.tobytes().hex())
    if isinstance(x, float):
        return "f:" + x.hex()
    if isinstance(x, complex):
        return "c:%s:%s" % (x.real.hex(), x.imag.hex())
    return "%s:%r" % (type(x).__name__, x)


TRACE = []


class Rec:
    """Mutable number-like object: __imul__ mutates in place, __mul__ builds a
    new object, __rmul__ can be told to hand back itself (aliasing)."""

    def __init__(self, v, tag, alias=False, boom=None):
        self.v = v
        self.tag = tag
        self.alias = alias
        self.boom = boom

    def _o(self, o):
        return o.v if isinstance(o, Rec) else o

    def __mul__(self, o):
        TRACE.append(("mul", self.tag, show(o)))
        return Rec(self.v * self._o(o), self.tag + "*")

    def __rmul__(self, o):
        TRACE.append(("rmul", self.tag, show(o)))
        if self.boom == "rmul":
            raise KeyError("boom")
        if self.alias:
            self.v = o * self.v
            return self
        return Rec(o * self.v, self.tag + "r")

    def __imul__(self, o):
        TRACE.append(("imul", self.tag, show(o)))
        if self.boom == "imul":
            raise LookupError("boom")
        self.v *= self._o(o)
        return self

    def __add__(self, o):
        TRACE.append(("add", self.tag, show(o)))
        return Rec(self.v + self._o(o), self.tag + "+")

    def __radd__(self, o):
        TRACE.append(("radd", self.tag, show(o)))
        return Rec(o + self.v, self.tag + "a")


out = []


def run(tau, phi, Hs, label=None):
    del TRACE[:]
    try:
        r = clique_equation(tau, phi, Hs)
        res = show(r)
    except BaseException as e:
        res = "EXC:" + type(e).__name__
    tr = hashlib.sha256(repr(TRACE).encode()).hexdigest()[:12] if TRACE else "-"
    if label is None:
        try:
            label = "[" + ",".join(show(h) for h in Hs) + "]"
        except TypeError:
            label = repr(type(Hs))
    out.append("%r|%s|%s -> %s [%s]" % (tau, show(phi), label, res, tr))


scal = [0.0, 1.0, 0.5, 0.3, -0.7, 2.5, 1e300, 1e-300, float("inf"), float("nan"), -0.0,
        0, 1, 3, -2, True, 2 ** 40, 2 ** 62 + 1, 2 ** 70,
        fractions.Fraction(1, 3), decimal.Decimal("0.25"), 0.5 + 0.25j,
        np.float64(0.37), np.float32(0.37), np.int64(3), np.int8(100), np.int64(2 ** 40)]
bad = [None, {1: 2}, frozenset(), Ellipsis]

# homogeneous and mixed lists, right length / too short / too long
for tau in [-2, 0, 1, 2, 3, 4, 5, 6, True, 3.0, None, "3"]:
    for phi in [0.0, 0.25, 1.0, 1.5, fractions.Fraction(1, 4), np.float64(0.6), 1, 0]:
        for h in scal:
            L = (tau - 1) if isinstance(tau, int) else 2
            for ln in {max(L, 0), max(L - 1, 0), L + 1}:
                run(tau, phi, [h] * ln)

for _ in range(2500):
    tau = random.randint(0, 7)
    ln = random.choice([tau - 1, tau - 1, tau - 1, tau, tau - 2, 0])
    Hs = [random.choice(scal) if random.random() < 0.5 else random.random() for _ in range(max(ln, 0))]
    phi = random.choice([random.random(), random.random(), 0.0, 1.0, fractions.Fraction(random.randint(0, 8), 8)])
    run(tau, phi, Hs)
    if random.random() < 0.15 and Hs:
        Hs2 = list(Hs)
        Hs2[random.randrange(len(Hs2))] = random.choice(bad)
        run(tau, phi, Hs2)

# other containers for Hs (message_passing passes dict.values())
for tau in range(0, 7):
    hs = [float(np.random.rand()) for _ in range(max(tau - 1, 0))]
    d = dict(enumerate(hs))
    run(tau, 0.35, d.values(), "dict_values")
    run(tau, 0.35, tuple(hs), "tuple")
    run(tau, 0.35, iter(hs), "iterator")
    run(tau, 0.35, (h for h in hs), "generator")
    run(tau, 0.35, np.array(hs), "ndarray")
    run(tau, 0.35, set(hs[:1]), "set1")
    run(tau, 0.35, d, "dictkeys")
    run(tau, 0.35, None, "None")
    run(tau, 0.35, 5, "int")

# arrays as H values: in-place multiply with dtype mixing is where `*=` and `*` part ways
arrs = [np.array([1, 2]), np.array([0.5, 0.25]), np.array([1, 2], dtype=np.int8), np.array([1.5, 2.5], dtype=np.float32),
        np.array([1 + 1j, 2]), np.array([1, 2, 3]), np.array([[2], [3]]), np.array([True, False]),
        np.array([fractions.Fraction(1, 2), 3], dtype=object)]
for tau in [2, 3, 4]:
    for combo in itertools.product(arrs, repeat=tau - 1):
        before = [a.copy() for a in combo]
        run(tau, 0.4, list(combo))
        out.append("inputs-unchanged %s" % all(show(a) == show(b) for a, b in zip(before, combo)))
        run(tau, np.array([0.4, 0.6]), list(combo))
for a in arrs:
    for s in [2, 0.5, np.int64(2), np.float64(0.5), fractions.Fraction(1, 2), True]:
        run(3, 0.4, [a, s])
        run(3, 0.4, [s, a])
        run(4, 0.4, [s, a, s])

# mutable operands with observable operator calls, aliasing and errors in the middle
for tau in range(1, 6):
    for mode in range(6):
        hs = []
        for j in range(tau - 1):
            if mode == 0:
                hs.append(Rec(0.1 * (j + 1), "h%d" % j))
            elif mode == 1:
                hs.append(Rec(0.1 * (j + 1), "h%d" % j, alias=True))
            elif mode == 2:
                hs.append(Rec(0.1 * (j + 1), "h%d" % j, alias=(j % 2 == 0)) if j != 1 else 0.5)
            elif mode == 3:
                hs.append(Rec(0.1 * (j + 1), "h%d" % j, alias=True, boom="imul" if j == 0 else None))
            elif mode == 4:
                hs.append(Rec(0.1 * (j + 1), "h%d" % j, boom="rmul" if j == 2 else None))
            else:
                hs.append(Rec(fractions.Fraction(j + 1, 7), "h%d" % j, alias=(j == 1)))
        run(tau, 0.3, hs)
        out.append("after: " + ",".join(show(h) for h in hs))
        run(tau, 0.3, hs)   # same objects again: mutations from the first call carry over
        out.append("after2: " + ",".join(show(h) for h in hs))

out.append("Q cache %r" % (Q.cache_info(),))
blob = "\n".join(out)
print(len(out), hashlib.sha256(blob.encode()).hexdigest())
for line in out[::1499]:
    print(line[:300])
print("EXC count", sum("EXC:" in l for l in out))
print("exc types", sorted({l.split("EXC:")[1].split(" ")[0] for l in out if "EXC:" in l}))
print("random state", hashlib.sha256(repr(random.getstate()).encode()).hexdigest())
st = np.random.get_state()
print("numpy state", hashlib.sha256(st[1].tobytes() + repr(st[2:]).encode()).hexdigest())
