import sys, os; sys.path.insert(0, os.getcwd())
import hashlib
import random

import numpy as np

from gcmpy.names.gcm_algorithm_names import GCMAlgorithmNames as N
from gcmpy.gcm_algorithm.gcm_algorithm import GCMAlgorithm
from gcmpy.gcm_algorithm.gcm_algorithm_fast import GCMAlgorithmFast
from gcmpy.gcm_algorithm.gcm_algorithm_network import GCMAlgorithmNetwork
from gcmpy.gcm_algorithm.gcm_algorithm_custom_motifs import GCMAlgorithmCustomMotifs
from gcmpy.gcm_algorithm.gcm_algorithm_factory import GCMAlgorithmFactory
from gcmpy.gcm_algorithm.gcm_algorithm_main import GCMAlgorithmMain
from gcmpy.gcm_algorithm.gcm_algorithm_types import GCMAlgorithmTypes as T
from gcmpy.network.edge_list import LightWeightEdgeList
from gcmpy.network.network import Network
from gcmpy.motif_generators.clique_motif import clique_motif
from gcmpy.motif_generators.cycle_motif import cycle_motif
from gcmpy.motif_generators.diamond_motif import diamond_motif

OUT = []


def emit(*parts):
    OUT.append(" ".join(str(p) for p in parts))


def h(obj):
    return hashlib.sha256(repr(obj).encode()).hexdigest()[:16]


def rng_digest():
    return "py=" + h(random.getstate()) + " np=" + h(
        tuple(str(x) for x in np.random.get_state())
    )


def exc_chain(e):
    """type names along the __context__ chain plus the messages"""
    out = []
    while e is not None:
        out.append(f"{type(e).__name__}:{e}")
        e = e.__context__
    return " <- ".join(out)


def attempt(label, fn):
    try:
        r = fn()
    except BaseException as e:  # noqa
        emit(label, "EXC", exc_chain(e), "|", rng_digest())
        return None
    emit(label, "OK", r, "|", rng_digest())
    return r


def make_jds(n, sizes, maxdeg, rnd):
    """joint degree sequence with column k summing to a multiple of sizes[k]"""
    jds = [[rnd.randrange(0, maxdeg + 1) for _ in sizes] for _ in range(n)]
    for k, s in enumerate(sizes):
        v = 0
        while sum(r[k] for r in jds) % s:
            jds[v % n][k] += 1
            v += 1
    return [tuple(r) for r in jds]


def describe(g):
    """bit-for-bit description of whatever a generator returned"""
    if isinstance(g, LightWeightEdgeList):
        return "LWEL " + h(
            (g.edge_list, g.topologies, g.motif_id, g.joint_degrees)
        ) + f" ne={len(g.edge_list)} nt={len(g.topologies)} nid={len(g.motif_id)}" + (
            f" ids={g.motif_id[:3]}..{g.motif_id[-3:]}" if g.motif_id else " ids=[]"
        )
    if isinstance(g, Network):
        G = g.G
        return "NET " + h(
            (list(G.nodes(data=True)), list(G.edges(data=True)))
        ) + f" n={G.number_of_nodes()} m={G.number_of_edges()}"
    return f"{type(g).__name__} {g!r}"


def std_params(sizes, builders, names, gcm_type=None):
    p = {}
    if gcm_type is not None:
        p[N.GCM_TYPE] = gcm_type
    p[N.MOTIF_SIZES] = sizes
    p[N.BUILD_FUNCTIONS] = builders
    p[N.EDGE_NAMES] = names
    return p


# ---- custom-motif configuration (the one from the test-suite) -------------
def c_diamond(vs):
    return ((vs[0], vs[1]), (vs[1], vs[2]), (vs[2], vs[3]), (vs[3], vs[1]), (vs[0], vs[2]))


def c_diamond_names():
    return ("d-o", "d-o", "d-o", "d-o", "d-i")


def c_two(vs):
    return (vs[0], vs[1])


def c_two_names():
    return "2-clique"


def c_three(vs):
    return (vs[0], vs[1]), (vs[0], vs[2]), (vs[1], vs[2])


def c_three_names():
    return "3-clique", "3-clique", "3-clique"


def c_pent(vs):
    return ((vs[0], vs[1]), (vs[1], vs[2]), (vs[2], vs[3]), (vs[3], vs[4]), (vs[0], vs[4]), (vs[1], vs[3]))


def c_pent_names():
    return "p01", "p12", "p23", "p34", "p40", "p13"


CUSTOM_JDS = [
    (2, 1, 0, 1, 1, 0, 0), (1, 1, 0, 1, 1, 0, 0), (3, 1, 1, 0, 0, 1, 0),
    (2, 0, 1, 0, 0, 1, 0), (0, 0, 0, 1, 0, 0, 1), (1, 0, 0, 1, 0, 0, 0),
    (1, 0, 1, 0, 0, 0, 0), (1, 0, 1, 0, 0, 0, 0), (1, 0, 0, 1, 0, 0, 0),
    (1, 0, 0, 1, 0, 0, 0), (1, 0, 1, 0, 0, 0, 0), (0, 0, 1, 0, 0, 0, 0),
]


def custom_params(gcm_type=None):
    p = std_params(
        [2, 3, 2, 2, 2, 2, 1],
        [c_two, c_three, c_diamond, c_pent],
        [c_two_names, c_three_names, c_diamond_names, c_pent_names],
        gcm_type,
    )
    p[N.MOTIF_INDICES] = [[0], [1], [2, 3], [4, 5, 6]]
    return p


CONFIGS = [
    ("k2", [2], [clique_motif], ["2-clique"]),
    ("k2k3", [2, 3], [clique_motif, clique_motif], ["2-clique", "3-clique"]),
    ("k2c4d4", [2, 4, 4], [clique_motif, cycle_motif, diamond_motif], ["e", "sq", "dia"]),
    ("k3c5k4", [3, 5, 4], [clique_motif, cycle_motif, clique_motif], ["tri", "c5", "k4"]),
]


def seed_all(s):
    random.seed(s)
    np.random.seed(s)


def finish():
    emit("FINAL", rng_digest())
    text = "\n".join(OUT)
    print(text)
    print("DIGEST", hashlib.sha256(text.encode()).hexdigest())

# =========================== variant c: GCMAlgorithmNetwork hand-off to GCMAlgorithmFast
seed_all(303)
rnd = random.Random(13)


def names_cb():
    return "cb"


# 1. many sequences, configurations, repeated calls on one object
for s in range(14):
    for cname, sizes, builders, names in CONFIGS:
        n = rnd.choice([0, 1, 2, 6, 25, 80])
        jds = make_jds(n, sizes, 4, rnd) if n else []
        seed_all(5000 + s)
        p = std_params(sizes, builders, names)
        o = GCMAlgorithmNetwork(p)
        for rep in range(3):
            attempt(f"net {cname} n={n} s={s} rep={rep}", lambda: describe(o.random_clustered_graph(jds)))
        # the object's own state is not disturbed, the caller's dict neither
        emit("   state", o._motif_sizes is p[N.MOTIF_SIZES], o._build_functions is p[N.BUILD_FUNCTIONS],
             o._edge_names is p[N.EDGE_NAMES], sorted(vars(o)), [k.name for k in p], h(jds))
        # same stream position as the edge-list generator fed the same state
        seed_all(5000 + s)
        attempt(f"fast {cname} n={n} s={s}", lambda: describe(GCMAlgorithmFast(p).random_clustered_graph(jds)))
        for raw in (T.NETWORK, "network"):
            seed_all(5000 + s)
            attempt(f"main {raw!r} {cname} n={n} s={s}", lambda: describe(
                GCMAlgorithmMain.load_gcm_algorithm(std_params(sizes, builders, names, raw))
                .random_clustered_graph(jds)))
        seed_all(5000 + s)
        attempt(f"factory {cname} n={n} s={s}", lambda: describe(
            GCMAlgorithmFactory.resolve_algorithm(T.NETWORK, p).random_clustered_graph(jds)))

# 2. extra keys in the constructor dict are not forwarded / do not matter
seed_all(61)
jds = make_jds(30, [2, 3], 3, rnd)
p = std_params([2, 3], [clique_motif, clique_motif], ["a", "b"], T.NETWORK)
p[N.MOTIF_INDICES] = "junk"
p["other"] = object
attempt("net extra-keys", lambda: describe(GCMAlgorithmNetwork(p).random_clustered_graph(jds)))

# 3. malformed state: the failure surfaces at the same place with the same type
cases = {
    "sizes-too-short": std_params([2], [clique_motif, clique_motif], ["a", "b"]),
    "builders-too-short": std_params([2, 3], [clique_motif], ["a", "b"]),
    "names-too-short": std_params([2, 3], [clique_motif, clique_motif], ["a"]),
    "sizes-None": std_params(None, [clique_motif, clique_motif], ["a", "b"]),
    "builders-None": std_params([2, 3], None, ["a", "b"]),
    "names-None": std_params([2, 3], [clique_motif, clique_motif], None),
    "size-zero": std_params([0, 3], [clique_motif, clique_motif], ["a", "b"]),
    "size-str": std_params(["2", 3], [clique_motif, clique_motif], ["a", "b"]),
    "builder-not-callable": std_params([2, 3], [clique_motif, 5], ["a", "b"]),
    "names-unhashable-ok": std_params([2, 3], [clique_motif, clique_motif], [["a"], {"b": 1}]),
    "names-callables": std_params([2, 3], [clique_motif, clique_motif], [len, "b"]),
    "tuples": std_params((2, 3), (clique_motif, clique_motif), ("a", "b")),
    "diamond-size-3": std_params([2, 3], [clique_motif, diamond_motif], ["a", "b"]),
}
for cname, p in cases.items():
    seed_all(62)
    attempt(f"net malformed {cname}", lambda: describe(GCMAlgorithmNetwork(p).random_clustered_graph(jds)))
for pname, p in {"empty": {}, "no-names": {N.MOTIF_SIZES: [2], N.BUILD_FUNCTIONS: [clique_motif]},
                 "None": None, "str-keys": {"motif_sizes": [2]}}.items():
    attempt(f"net ctor {pname}", lambda: GCMAlgorithmNetwork(p))
good = GCMAlgorithmNetwork(std_params([2, 3], [clique_motif, clique_motif], ["a", "b"]))
for jname, bad in {"handshake": [(1, 0), (0, 0)], "ragged": [(1, 1), (1,)], "None": None, "ints": [1, 2],
                   "neg": [(-1, 0), (1, 0)], "float": [(1.0, 0), (1, 0)], "gen": ((2, 3) for _ in range(3)),
                   "lists": [[1, 1], [1, 1], [0, 1]], "str": ["ab", "cd"]}.items():
    seed_all(63)
    attempt(f"net jds {jname}", lambda: describe(good.random_clustered_graph(bad)))

# 4. half-initialised objects (state attributes missing one by one)
for missing in ("_motif_sizes", "_build_functions", "_edge_names"):
    o = GCMAlgorithmNetwork(std_params([2, 3], [clique_motif, clique_motif], ["a", "b"]))
    delattr(o, missing)
    seed_all(64)
    attempt(f"net missing {missing}", lambda: describe(o.random_clustered_graph(jds)))
o = GCMAlgorithmNetwork.__new__(GCMAlgorithmNetwork)
seed_all(64)
attempt("net uninitialised", lambda: describe(o.random_clustered_graph(jds)))
# state replaced after construction is what gets handed over
o = GCMAlgorithmNetwork(std_params([2, 3], [clique_motif, clique_motif], ["a", "b"]))
o._edge_names = ["x", "y"]
o._build_functions = [clique_motif, cycle_motif]
seed_all(65)
attempt("net state-replaced", lambda: describe(o.random_clustered_graph(jds)))

finish()
