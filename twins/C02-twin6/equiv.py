"""
Equivalence digest for the C02 feature commit ("layered generation").

Run with cwd = a checkout of gcmpy.  Exercises every function the commit
touched, only through the signatures that existed before the commit:

  GCMAlgorithmFast.random_clustered_graph(jds)
  GCMAlgorithmCustomMotifs.random_clustered_graph(jds)
  GCMAlgorithmNetwork.random_clustered_graph(jds)      (delegates to Fast)
  LightWeightEdgeList()  + its four properties / setters

and prints a deterministic digest: complete columns of the edge lists,
exception types and messages, order of callback invocations, RNG state after
every case, the (possibly mutated) inputs.  Nothing of the new functionality
(add_motif, next_motif_id, extend, first_motif_id, _wire_topology) is used.
"""
import hashlib
import os
import random
import re
import sys

sys.path.insert(0, os.getcwd())

import numpy as np  # noqa: E402

from gcmpy.gcm_algorithm.gcm_algorithm_fast import GCMAlgorithmFast  # noqa: E402
from gcmpy.gcm_algorithm.gcm_algorithm_network import GCMAlgorithmNetwork  # noqa: E402
from gcmpy.gcm_algorithm.gcm_algorithm_custom_motifs import (  # noqa: E402
    GCMAlgorithmCustomMotifs,
)
from gcmpy.names.gcm_algorithm_names import GCMAlgorithmNames as N  # noqa: E402
from gcmpy.network.edge_list import LightWeightEdgeList  # noqa: E402
from gcmpy.motif_generators.clique_motif import clique_motif  # noqa: E402
from gcmpy.motif_generators.cycle_motif import cycle_motif  # noqa: E402
from gcmpy.motif_generators.diamond_motif import diamond_motif  # noqa: E402

OUT = []


def emit(*parts):
    line = " ".join(str(p) for p in parts)
    line = re.sub(r" at 0x[0-9a-fA-F]+", " at 0x?", line)
    OUT.append(line)
    print(line)


def rng_state():
    h = hashlib.sha256()
    h.update(repr(random.getstate()).encode())
    st = np.random.get_state()
    h.update(repr((st[0], st[1].tolist(), st[2], st[3], repr(st[4]))).encode())
    return h.hexdigest()[:16]


def seed(s):
    random.seed(s)
    np.random.seed(s)


def show_el(label, el):
    emit(label, "type", type(el).__name__)
    emit(label, "n", len(el.edge_list), len(el.topologies), len(el.motif_id))
    emit(label, "edges", repr(el.edge_list))
    emit(label, "names", repr(el.topologies))
    emit(label, "ids", repr(el.motif_id))
    emit(label, "jds", repr(el.joint_degrees))


def run(label, fn):
    """fn() -> edge list; prints result or exception, then RNG state."""
    try:
        res = fn()
    except BaseException as e:  # noqa: B902
        emit(label, "EXC", type(e).__name__, repr(str(e)))
        res = None
    else:
        if isinstance(res, LightWeightEdgeList):
            show_el(label, res)
        else:
            emit(label, "result", repr(res))
    emit(label, "rng", rng_state())
    return res


def logged(name, fn, log):
    def wrapped(*a):
        log.append((name, "in", repr(a)))
        r = fn(*a)
        log.append((name, "out", repr(r)))
        return r

    return wrapped


# ----------------------------------------------------------------------------
# joint degree sequences
# ----------------------------------------------------------------------------
JDS3 = [(2, 1, 1), (1, 1, 1), (1, 2, 1), (2, 1, 1), (1, 1, 0), (1, 0, 0)]
JDS2 = [(1, 1), (1, 1), (2, 1), (1, 0), (1, 0)]


def fast_params(sizes, names, builders):
    return {N.MOTIF_SIZES: sizes, N.EDGE_NAMES: names, N.BUILD_FUNCTIONS: builders}


# ----------------------------------------------------------------------------
# GCMAlgorithmFast
# ----------------------------------------------------------------------------
def fast_cases():
    # plain cliques, several seeds and sizes, repeated calls on one object
    names = ["2-clique", "3-clique", "4-clique"]
    params = fast_params([2, 3, 4], names, [clique_motif] * 3)
    alg = GCMAlgorithmFast(params)
    for s in range(3):
        for rep in (1, 2, 6):
            seed(s)
            jds = JDS3 * rep
            before = repr(jds)
            run(f"fast.cliques.s{s}.x{rep}", lambda: alg.random_clustered_graph(jds))
            # a second call on the same object, RNG carried over
            run(f"fast.cliques.s{s}.x{rep}.again", lambda: alg.random_clustered_graph(jds))
            emit(f"fast.cliques.s{s}.x{rep}", "jds-unchanged", before == repr(jds))
    emit("fast.params-after", repr(params[N.MOTIF_SIZES]), repr(params[N.EDGE_NAMES]))

    # the returned edge list keeps the very jds object
    seed(5)
    jds = JDS3 * 2
    el = alg.random_clustered_graph(jds)
    emit("fast.jds-identity", el.joint_degrees is jds)

    # a single topology
    seed(1)
    alg1 = GCMAlgorithmFast(fast_params([3], ["tri"], [clique_motif]))
    run("fast.single", lambda: alg1.random_clustered_graph([(1,), (2,), (1,), (2,)] * 3))

    # empty joint degree sequence / vertices without stubs
    seed(2)
    run("fast.empty", lambda: alg.random_clustered_graph([]))
    run("fast.nostubs", lambda: alg.random_clustered_graph([(0, 0, 0)] * 5))

    # a topology without stubs between two that have some, and in front
    seed(3)
    run(
        "fast.gap-middle",
        lambda: alg.random_clustered_graph([(1, 0, 1), (1, 0, 1), (2, 0, 1), (0, 0, 1)] * 3),
    )
    run(
        "fast.gap-front",
        lambda: alg.random_clustered_graph([(0, 1, 1), (0, 1, 1), (0, 1, 1), (0, 0, 1)] * 3),
    )
    run(
        "fast.gap-back",
        lambda: alg.random_clustered_graph([(1, 1, 0), (1, 1, 0), (2, 1, 0), (0, 0, 0)] * 3),
    )

    # stub counts that are not multiples of the motif size (short last group)
    seed(4)
    run("fast.ragged", lambda: alg.random_clustered_graph([(1, 1, 1)] * 5))

    # fewer / more topologies in jds than declared
    seed(5)
    run("fast.fewer-cols", lambda: alg.random_clustered_graph(JDS2 * 2))
    run(
        "fast.more-cols",
        lambda: GCMAlgorithmFast(
            fast_params([2, 3], ["a", "b"], [clique_motif, clique_motif])
        ).random_clustered_graph(JDS3 * 2),
    )
    run(
        "fast.short-names",
        lambda: GCMAlgorithmFast(
            fast_params([2, 3, 4], ["a"], [clique_motif] * 3)
        ).random_clustered_graph(JDS3 * 2),
    )
    run(
        "fast.short-builders",
        lambda: GCMAlgorithmFast(
            fast_params([2, 3, 4], names, [clique_motif])
        ).random_clustered_graph(JDS3 * 2),
    )

    # cycles and diamonds
    seed(6)
    run(
        "fast.cycle-diamond",
        lambda: GCMAlgorithmFast(
            fast_params([2, 5, 4], ["e", "c5", "dia"], [clique_motif, cycle_motif, diamond_motif])
        ).random_clustered_graph([(1, 1, 1), (1, 1, 1), (2, 1, 0), (0, 1, 1), (0, 1, 1)] * 4),
    )
    # diamond with a short last group -> its error path
    run(
        "fast.diamond-ragged",
        lambda: GCMAlgorithmFast(
            fast_params([4], ["dia"], [diamond_motif])
        ).random_clustered_graph([(1,)] * 6),
    )

    # unusual return values of the build callback
    def bare(vs):  # one bare edge
        return (vs[0], vs[1])

    def bare_list(vs):
        return [vs[0], vs[1]]

    def two_edges(vs):
        return ((vs[0], vs[1]), (vs[1], vs[2]))

    def two_edges_lists(vs):
        return [[vs[0], vs[1]], [vs[1], vs[2]]]

    def nothing(vs):
        return []

    def gen_edges(vs):
        return (e for e in clique_motif(vs))

    def none_edges(vs):
        return None

    def int_edges(vs):
        return 7

    def str_edges(vs):
        return "ab"

    def set_edges(vs):
        return set(clique_motif(sorted(vs)))

    def dict_edges(vs):
        return {(vs[0], vs[1]): 1, (vs[1], vs[2]): 2}

    def boom(vs):
        raise KeyError("boom")

    def drawing(vs):
        random.random()
        np.random.random()
        return clique_motif(vs)

    jds_b = [(1, 1), (1, 1), (2, 1), (1, 0), (1, 0)] * 3
    for nm, b0, b1 in [
        ("bare", bare, clique_motif),
        ("bare-list", bare_list, clique_motif),
        ("bare-both", bare, bare),
        ("two-edges", clique_motif, two_edges),
        ("two-edges-lists", bare, two_edges_lists),
        ("nothing", nothing, clique_motif),
        ("nothing-all", nothing, nothing),
        ("gen", gen_edges, clique_motif),
        ("gen-late", clique_motif, gen_edges),
        ("none", none_edges, clique_motif),
        ("int", clique_motif, int_edges),
        ("str", str_edges, clique_motif),
        ("set", clique_motif, set_edges),
        ("dict", clique_motif, dict_edges),
        ("boom", clique_motif, boom),
        ("drawing", drawing, drawing),
    ]:
        seed(7)
        run(
            f"fast.ret.{nm}",
            lambda: GCMAlgorithmFast(
                fast_params([2, 3], ["e", "t"], [b0, b1])
            ).random_clustered_graph(jds_b),
        )

    # unusual topology names (they are broadcast whatever they are)
    shared = ["mutable"]
    for nm, names_ in [
        ("tuple", [("a", "b"), ("c", "d", "e")]),
        ("tuple3", [("a",), ("x", "y", "z")]),
        ("none", [None, None]),
        ("int-float", [1, 2.5]),
        ("list", [shared, shared]),
        ("empty-str", ["", ""]),
        ("bytes", [b"e", b"t"]),
        ("callable", [len, str]),
        ("dict-names", {0: "e", 1: "t"}),
    ]:
        seed(8)
        el = run(
            f"fast.names.{nm}",
            lambda: GCMAlgorithmFast(
                fast_params([2, 3], names_, [clique_motif, clique_motif])
            ).random_clustered_graph(jds_b),
        )
        if nm == "list" and el is not None:
            emit("fast.names.list", "same-object", all(t is shared for t in el.topologies))
    # bare edge together with an iterable name
    seed(8)
    run(
        "fast.names.tuple+bare",
        lambda: GCMAlgorithmFast(
            fast_params([2, 3], [("a", "b"), ("c", "d", "e")], [bare, two_edges])
        ).random_clustered_graph(jds_b),
    )

    # order of callback invocations and their arguments
    seed(9)
    log = []
    alg_l = GCMAlgorithmFast(
        fast_params(
            [2, 3, 4],
            names,
            [logged(f"b{k}", clique_motif, log) for k in range(3)],
        )
    )
    run("fast.logged", lambda: alg_l.random_clustered_graph(JDS3 * 2))
    emit("fast.logged", "log", repr(log))

    # motif sizes: zero / negative / non-int -> grouper's errors
    for nm, sizes in [("zero", [0, 3]), ("neg", [-1, 3]), ("float", [2.0, 3]), ("big", [50, 3])]:
        seed(10)
        run(
            f"fast.size.{nm}",
            lambda: GCMAlgorithmFast(
                fast_params(sizes, ["e", "t"], [clique_motif, clique_motif])
            ).random_clustered_graph(jds_b),
        )

    # malformed jds
    for nm, bad in [
        ("none", None),
        ("int-rows", [1, 2]),
        ("neg-degree", [(-1, 1), (1, 1), (1, 1)]),
        ("float-degree", [(1.0, 1), (1, 1), (1, 1)]),
        ("ragged-rows", [(1, 1), (1,), (1, 1)]),
        ("generator", (r for r in JDS2)),
    ]:
        seed(11)
        run(f"fast.badjds.{nm}", lambda: GCMAlgorithmFast(
            fast_params([2, 3], ["e", "t"], [clique_motif, clique_motif])
        ).random_clustered_graph(bad))

    # a subclass that supplies its own id sequence (hook of the base class)
    hook_log = []

    class EvenIds(GCMAlgorithmFast):
        def infinite_sequence(self):
            hook_log.append("start")
            num = 100
            while True:
                hook_log.append(num)
                yield num
                num += 2

    seed(12)
    sub = EvenIds(fast_params([2, 3], ["e", "t"], [clique_motif, clique_motif]))
    run("fast.hook", lambda: sub.random_clustered_graph(jds_b))
    run("fast.hook.again", lambda: sub.random_clustered_graph(jds_b))
    emit("fast.hook", "log", repr(hook_log))

    class NameIds(GCMAlgorithmFast):
        def infinite_sequence(self):
            return iter("abcdefghijklmnopqrstuvwxyz")

    seed(12)
    run(
        "fast.hook.str-ids",
        lambda: NameIds(
            fast_params([2, 3], ["e", "t"], [clique_motif, clique_motif])
        ).random_clustered_graph(jds_b),
    )

    class FewIds(GCMAlgorithmFast):
        def infinite_sequence(self):
            return iter([0, 1, 2])

    seed(12)
    run(
        "fast.hook.exhausted",
        lambda: FewIds(
            fast_params([2, 3], ["e", "t"], [clique_motif, clique_motif])
        ).random_clustered_graph(jds_b),
    )


# ----------------------------------------------------------------------------
# GCMAlgorithmNetwork (delegates to the fast algorithm)
# ----------------------------------------------------------------------------
def network_cases():
    for s in range(3):
        seed(s)
        alg = GCMAlgorithmNetwork(
            fast_params([2, 3], ["2-clique", "3-clique"], [clique_motif, clique_motif])
        )
        for rep in range(2):
            label = f"net.s{s}.{rep}"
            try:
                g = alg.random_clustered_graph(JDS2 * 6).G
            except BaseException as e:  # noqa: B902
                emit(label, "EXC", type(e).__name__, repr(str(e)))
            else:
                emit(label, "nodes", repr(sorted(g.nodes(data=True), key=lambda x: x[0])))
                emit(
                    label,
                    "edges",
                    repr(sorted((min(u, v), max(u, v), sorted(d.items(), key=repr)) for u, v, d in g.edges(data=True))),
                )
            emit(label, "rng", rng_state())

    # bare edge from the builder goes through the converter
    seed(4)

    def bare(vs):
        return (vs[0], vs[1])

    label = "net.bare"
    try:
        g = GCMAlgorithmNetwork(
            fast_params([2, 3], ["e", "t"], [bare, clique_motif])
        ).random_clustered_graph(JDS2 * 3).G
    except BaseException as e:  # noqa: B902
        emit(label, "EXC", type(e).__name__, repr(str(e)))
    else:
        emit(label, "edges", repr(sorted((repr(x) for x in g.edges(data=True)))))
    emit(label, "rng", rng_state())


# ----------------------------------------------------------------------------
# GCMAlgorithmCustomMotifs
# ----------------------------------------------------------------------------
def edge(vs):
    return (vs[0], vs[1])


def edge_list_(vs):
    return [vs[0], vs[1]]


def edge_packed(vs):
    return [(vs[0], vs[1])]


def path(vs):
    return ((vs[0], vs[1]), (vs[1], vs[2]))


def path_lists(vs):
    return [[vs[0], vs[1]], [vs[1], vs[2]]]


def diamond(vs):
    return (
        (vs[0], vs[1]),
        (vs[1], vs[2]),
        (vs[2], vs[3]),
        (vs[3], vs[1]),
        (vs[0], vs[2]),
    )


CUSTOM_JDS = [(1, 1, 1, 0), (1, 1, 0, 1), (2, 1, 1, 0), (0, 0, 0, 1)]


def custom_params(builders, name_cbs, sizes=None, indices=None):
    return {
        N.MOTIF_SIZES: sizes if sizes is not None else [2, 3, 2, 2],
        N.EDGE_NAMES: name_cbs,
        N.BUILD_FUNCTIONS: builders,
        N.MOTIF_INDICES: indices if indices is not None else [[0], [1], [2, 3]],
    }


def custom_cases():
    std_names = [
        lambda: "2-clique",
        lambda: ("p-a", "p-b"),
        lambda: ("d-out", "d-out", "d-out", "d-out", "d-in"),
    ]
    alg = GCMAlgorithmCustomMotifs(custom_params([edge, path, diamond], std_names))
    for s in range(3):
        for rep in (1, 3, 6):
            seed(s)
            jds = CUSTOM_JDS * rep
            before = repr(jds)
            run(f"custom.std.s{s}.x{rep}", lambda: alg.random_clustered_graph(jds))
            run(f"custom.std.s{s}.x{rep}.again", lambda: alg.random_clustered_graph(jds))
            emit(f"custom.std.s{s}.x{rep}", "jds-unchanged", before == repr(jds))
    seed(3)
    jds = CUSTOM_JDS * 2
    el = alg.random_clustered_graph(jds)
    emit("custom.jds-identity", el.joint_degrees is jds)

    run("custom.empty", lambda: alg.random_clustered_graph([]))
    run("custom.nostubs", lambda: alg.random_clustered_graph([(0, 0, 0, 0)] * 4))
    seed(4)
    run("custom.ragged", lambda: alg.random_clustered_graph(CUSTOM_JDS * 2 + [(1, 1, 1, 1)]))
    run("custom.only-diamonds", lambda: alg.random_clustered_graph([(0, 0, 1, 0), (0, 0, 0, 1)] * 4))
    run("custom.no-diamonds", lambda: alg.random_clustered_graph([(1, 1, 0, 0), (1, 1, 0, 0), (0, 1, 0, 0)] * 2))

    # every combination of builder return shape x name callback return shape
    builders = [
        ("bare", edge),
        ("bare-list", edge_list_),
        ("packed", edge_packed),
        ("none", lambda vs: None),
        ("int", lambda vs: 3),
        ("empty", lambda vs: []),
        ("two-ints-set", lambda vs: {vs[0], vs[1] + 1000}),
        ("two-dict", lambda vs: {(vs[0], vs[1]): 1, (vs[1], vs[0]): 2}),
        ("two-dict-0", lambda vs: {0: (vs[0], vs[1]), 1: (vs[1], vs[0])}),
        ("str2", lambda vs: "ab"),
        ("gen", lambda vs: (e for e in [(vs[0], vs[1])])),
    ]
    name_cbs = [
        ("str", lambda: "2-clique"),
        ("str1", lambda: "x"),
        ("empty-str", lambda: ""),
        ("tuple1", lambda: ("2-clique",)),
        ("list1", lambda: ["2-clique"]),
        ("tuple2", lambda: ("a", "b")),
        ("none", lambda: None),
        ("int", lambda: 5),
        ("gen", lambda: (x for x in ("g",))),
        ("bytes", lambda: b"xy"),
        ("dict", lambda: {"k": 1}),
    ]
    jds1 = [(1,), (2,), (1,), (2,)] * 2
    for bn, b in builders:
        for nn, ncb in name_cbs:
            seed(5)
            run(
                f"custom.shape.{bn}.{nn}",
                lambda: GCMAlgorithmCustomMotifs(
                    custom_params([b], [ncb], sizes=[2], indices=[[0]])
                ).random_clustered_graph(jds1),
            )

    # two-edge and larger motifs x name shapes
    builders2 = [
        ("path", path),
        ("path-lists", path_lists),
        ("tri", clique_motif),
        ("path-one-packed", lambda vs: [(vs[0], vs[1])]),
        ("mixed", lambda vs: [vs[0], (vs[1], vs[2])]),
        ("mixed2", lambda vs: [(vs[0], vs[1]), vs[2]]),
        ("triple-ints", lambda vs: (vs[0], vs[1], vs[2])),
    ]
    name_cbs2 = [
        ("tuple2", lambda: ("p-a", "p-b")),
        ("list3", lambda: ["x", "y", "z"]),
        ("str", lambda: "path"),
        ("str2", lambda: "pq"),
        ("str3", lambda: "pqr"),
        ("short", lambda: ("only",)),
        ("long", lambda: ("a", "b", "c", "d")),
        ("none", lambda: None),
        ("int", lambda: 4),
        ("gen", lambda: (x for x in ("g1", "g2"))),
        ("nested", lambda: (("n", 1), ("n", 2))),
    ]
    jds3 = [(1,), (1,), (1,), (2,), (1,)] * 2
    for bn, b in builders2:
        for nn, ncb in name_cbs2:
            seed(6)
            run(
                f"custom.shape3.{bn}.{nn}",
                lambda: GCMAlgorithmCustomMotifs(
                    custom_params([b], [ncb], sizes=[3], indices=[[0]])
                ).random_clustered_graph(jds3),
            )

    # order of the callbacks, with callbacks that draw random numbers
    seed(7)
    log = []

    def drawing_name(name):
        def cb():
            return (name, repr(random.random()), repr(np.random.random()))

        return cb

    def drawing_builder(fn):
        def b(vs):
            random.random()
            return fn(vs)

        return b

    alg_l = GCMAlgorithmCustomMotifs(
        custom_params(
            [
                logged("b-edge", drawing_builder(edge), log),
                logged("b-path", drawing_builder(path), log),
                logged("b-dia", drawing_builder(diamond), log),
            ],
            [
                logged("n-edge", drawing_name("e"), log),
                logged("n-path", lambda: ("p-a", "p-b"), log),
                logged("n-dia", lambda: ["o", "o", "o", "o", "i"], log),
            ],
        )
    )
    run("custom.logged", lambda: alg_l.random_clustered_graph(CUSTOM_JDS * 3))
    run("custom.logged.again", lambda: alg_l.random_clustered_graph(CUSTOM_JDS * 3))
    emit("custom.logged", "log", repr(log))

    # callbacks that raise: which ones ran before
    for nm, bs, ns in [
        ("builder", [edge, lambda vs: 1 / 0, diamond], std_names),
        ("namer", [edge, path, diamond], [std_names[0], lambda: [][1], std_names[2]]),
        ("namer-bare", [edge, path, diamond], [lambda: {}["k"], std_names[1], std_names[2]]),
        ("no-len", [edge, lambda vs: iter(()), diamond], std_names),
    ]:
        seed(8)
        log = []
        run(
            f"custom.raise.{nm}",
            lambda: GCMAlgorithmCustomMotifs(
                custom_params(
                    [logged(f"b{i}", b, log) for i, b in enumerate(bs)],
                    [logged(f"n{i}", n, log) for i, n in enumerate(ns)],
                )
            ).random_clustered_graph(CUSTOM_JDS * 2),
        )
        emit(f"custom.raise.{nm}", "log", repr(log))

    # short callback / index lists
    seed(9)
    run(
        "custom.short-names",
        lambda: GCMAlgorithmCustomMotifs(
            custom_params([edge, path, diamond], std_names[:1])
        ).random_clustered_graph(CUSTOM_JDS * 2),
    )
    run(
        "custom.short-builders",
        lambda: GCMAlgorithmCustomMotifs(
            custom_params([edge], std_names)
        ).random_clustered_graph(CUSTOM_JDS * 2),
    )
    run(
        "custom.bad-index",
        lambda: GCMAlgorithmCustomMotifs(
            custom_params([edge, path, diamond], std_names, indices=[[0], [1], [2, 7]])
        ).random_clustered_graph(CUSTOM_JDS * 2),
    )
    run(
        "custom.zero-size",
        lambda: GCMAlgorithmCustomMotifs(
            custom_params([edge, path, diamond], std_names, sizes=[2, 0, 2, 2])
        ).random_clustered_graph(CUSTOM_JDS * 2),
    )
    run(
        "custom.unbalanced-orbits",
        lambda: GCMAlgorithmCustomMotifs(
            custom_params([edge, path, diamond], std_names)
        ).random_clustered_graph([(1, 1, 1, 0), (1, 1, 1, 0), (2, 1, 1, 0), (0, 0, 1, 1)] * 2),
    )
    for nm, bad in [("none", None), ("int-rows", [1, 2]), ("ragged", [(1, 1, 1, 0), (1,)])]:
        run(f"custom.badjds.{nm}", lambda: alg.random_clustered_graph(bad))

    # own id sequence in a subclass
    hook_log = []

    class OddIds(GCMAlgorithmCustomMotifs):
        def infinite_sequence(self):
            hook_log.append("start")
            num = 1
            while True:
                hook_log.append(num)
                yield num
                num += 2

    seed(10)
    sub = OddIds(custom_params([edge, path, diamond], std_names))
    run("custom.hook", lambda: sub.random_clustered_graph(CUSTOM_JDS * 2))
    run("custom.hook.again", lambda: sub.random_clustered_graph(CUSTOM_JDS * 2))
    emit("custom.hook", "log", repr(hook_log))

    class FewIds(GCMAlgorithmCustomMotifs):
        def infinite_sequence(self):
            return iter(["first", "second"])

    seed(10)
    run(
        "custom.hook.exhausted",
        lambda: FewIds(custom_params([edge, path, diamond], std_names)).random_clustered_graph(
            CUSTOM_JDS * 2
        ),
    )


# ----------------------------------------------------------------------------
# LightWeightEdgeList (pre-existing surface: constructor and the properties)
# ----------------------------------------------------------------------------
def edge_list_cases():
    el = LightWeightEdgeList()
    emit("el.fresh", repr(el.edge_list), repr(el.topologies), repr(el.motif_id), repr(el.joint_degrees))
    emit("el.fresh.distinct", el.edge_list is not LightWeightEdgeList().edge_list)
    a, b, c, d = [(0, 1)], ["x"], [0], [(1,), (1,)]
    el.edge_list, el.topologies, el.motif_id, el.joint_degrees = a, b, c, d
    emit("el.set.identity", el.edge_list is a, el.topologies is b, el.motif_id is c, el.joint_degrees is d)
    el.edge_list.extend([(1, 2)])
    el.topologies.extend(["y"])
    el.motif_id.extend([1])
    emit("el.extend", repr(a), repr(b), repr(c), repr(el.edge_list), repr(el.topologies), repr(el.motif_id))
    emit("el.attrs", repr(sorted(vars(el))))
    emit(
        "el.public",
        repr(sorted(n for n in ("edge_list", "topologies", "motif_id", "joint_degrees") if hasattr(el, n))),
    )
    el.edge_list = None
    emit("el.none", repr(el.edge_list))


if __name__ == "__main__":
    fast_cases()
    network_cases()
    custom_cases()
    edge_list_cases()
    emit("final-rng", rng_state())
    print("DIGEST", hashlib.sha256("\n".join(OUT).encode()).hexdigest())
