"""Deterministic digest of gcmpy.covers.mpcc.MPCC on a few inputs.

Run with cwd = a checkout of gcmpy.
"""
import hashlib
import os
import random
import sys

sys.path.insert(0, os.getcwd())

import networkx as nx  # noqa: E402
import numpy as np  # noqa: E402

from gcmpy.covers.mpcc import MPCC  # noqa: E402


def digest(obj) -> str:
    return hashlib.sha256(repr(obj).encode()).hexdigest()[:16]


def describe(G_in, out):
    edges = [(u, v, tuple(sorted(d.items()))) for u, v, d in out.edges(data=True)]
    nodes = list(out.nodes(data=True))
    labels = [d.get("clique") for _, _, d in out.edges(data=True)]
    return {
        "same_object": out is G_in,
        "n": out.number_of_nodes(),
        "m": out.number_of_edges(),
        "nodes": digest(nodes),
        "edges": digest(edges),
        "n_labels": len(set(labels)),
        "first": labels[:3],
    }


def graphs():
    yield "empty", nx.Graph()
    yield "isolated", nx.empty_graph(5)
    yield "path", nx.path_graph(7)
    yield "K5", nx.complete_graph(5)
    yield "K7", nx.complete_graph(7)
    yield "karate", nx.karate_club_graph()
    yield "gnp60", nx.gnp_random_graph(60, 0.2, seed=1)
    yield "gnp40dense", nx.gnp_random_graph(40, 0.5, seed=2)
    yield "caveman", nx.connected_caveman_graph(6, 5)
    yield "ws", nx.watts_strogatz_graph(80, 6, 0.1, seed=3)
    yield "strnodes", nx.relabel_nodes(
        nx.gnp_random_graph(25, 0.35, seed=4), lambda i: f"v{i}"
    )
    yield "tuplenodes", nx.grid_2d_graph(4, 4)
    loops = nx.gnp_random_graph(20, 0.3, seed=5)
    loops.add_edge(0, 0)
    loops.add_edge(3, 3)
    yield "selfloops", loops
    attrs = nx.gnp_random_graph(20, 0.4, seed=6)
    nx.set_edge_attributes(attrs, 1.5, "weight")
    nx.set_edge_attributes(attrs, "old", "clique")
    yield "preattrs", attrs


def main():
    for max_size in (0, 2, 3, 4, -1, 100):
        for name, G in graphs():
            random.seed(12345)
            np.random.seed(12345)
            H = G.copy()
            out = MPCC(H, max_size) if max_size != 0 else MPCC(H)
            d = describe(H, out)
            # random state after the call must match too
            d["rng_after"] = random.random()
            print(name, max_size, d)

    # call history: repeated calls on the same graph / sequential random stream
    random.seed(99)
    G = nx.gnp_random_graph(50, 0.3, seed=7)
    for i in range(4):
        out = MPCC(G, max_size=(0, 3, 0, 2)[i])
        print("repeat", i, describe(G, out), random.random())

    # keyword call + float limit
    random.seed(5)
    G = nx.karate_club_graph()
    print("float", describe(G, MPCC(G, max_size=3.5)))

    # error behaviour
    for bad in (None, "3"):
        random.seed(5)
        G = nx.karate_club_graph()
        try:
            MPCC(G, max_size=bad)
            print("bad", repr(bad), "no error")
        except Exception as exc:  # noqa: BLE001
            print("bad", repr(bad), type(exc).__name__, random.random())

    # multigraph
    random.seed(8)
    M = nx.MultiGraph(nx.gnp_random_graph(15, 0.4, seed=8))
    try:
        out = MPCC(M)
        print("multi", digest(sorted(map(repr, out.edges(keys=True, data=True)))))
    except Exception as exc:  # noqa: BLE001
        print("multi", type(exc).__name__, str(exc)[:80])


if __name__ == "__main__":
    main()
