import sys, os; sys.path.insert(0, os.getcwd())
import hashlib
import random
import warnings
from decimal import Decimal
from fractions import Fraction

import numpy as np

import gcmpy
from gcmpy.distributions.scale_free_cut_off import scale_free_cut_off

random.seed(1902)
np.random.seed(1902)
warnings.simplefilter("always")


def show(x):
    if isinstance(x, np.ndarray):
        return "ndarray(%s,%s,%s)" % (x.dtype, x.shape, [repr(v) for v in x.ravel().tolist()])
    return "%s:%r" % (type(x).__name__, x)


def attempt(label, fn):
    with warnings.catch_warnings(record=True) as w:
        warnings.simplefilter("always")
        try:
            out = show(fn())
        except BaseException as e:
            out = "EXC %s %s" % (type(e).__name__, e)
    ws = "; ".join("%s %s" % (x.category.__name__, x.message) for x in w)
    print(label, "->", out, "| warnings:", ws)


KS = [1, 2, 3, 7, 10, 100, 12345, 0, -1, -3, 0.5, 2.0, True, False,
      np.int64(4), np.float32(3.0), float("inf"), float("nan"), 1 + 2j,
      "3", None, [1], Fraction(3, 2), Decimal(2), np.array([1, 2, 3]),
      np.array([1.0, 4.0]), 10 ** 400]

ALPHAS = [2.0, 2.5, 3, 1.5, 0.5, 0, -1.0, 20.0, 1024.0, 2000, float("inf"),
          True, 2 + 1j, Fraction(5, 2), np.float32(2.5), np.float16(3.0), np.int64(3),
          np.array([2.0]), np.array(2.5), np.array([2.0, 3.0]),
          Decimal("2.5"), "2", None, [2.0]]

KAPPAS = [1, 1.0, 2.5, 10.0, 100, 1e4, 1e-3, 0.07, 0, 0.0, np.float64(0.0),
          float("inf"), True, Fraction(7, 2), np.float32(4.0), np.float16(2.0), np.int64(5),
          np.array([2.0]), np.array([[3.0]]), np.array(4.0), np.array([2.0, 3.0]),
          np.array([], dtype=float), 2 + 1j, Decimal("2.5"), "2", None, [2.0]]


def fresh(x):
    return x.copy() if isinstance(x, np.ndarray) else x


def slow(alpha, kappa):
    # series that do not terminate (or take > ~1e7 terms) on the current code
    try:
        a = float(np.real(np.asarray(alpha).ravel()[0]))
        kap = float(np.real(np.asarray(kappa).ravel()[0]))
    except Exception:
        return False
    if kap != kap or a != a or kap < 0:
        return True
    if a < 0 and isinstance(kappa, np.float16):
        return True
    z = np.exp(-1.0 / kap) if kap != 0 else 0.0
    if z >= 1.0 - 1e-9:
        return a < 1.2
    if a <= 0:
        # terms z^k k^|a|: need z small enough to win quickly
        return kap > 50
    return False


for alpha0 in ALPHAS:
    for kappa0 in KAPPAS:
        if slow(alpha0, kappa0):
            continue
        alpha, kappa = fresh(alpha0), fresh(kappa0)
        tag = "alpha=%s kappa=%s" % (show(alpha), show(kappa))
        holder = {}

        def build(alpha=alpha, kappa=kappa, holder=holder):
            holder["p"] = scale_free_cut_off(alpha, kappa)
            return "built"

        attempt(tag + " build", build)
        print("  args after:", show(alpha), show(kappa))
        p = holder.get("p")
        if p is None:
            continue
        for k in KS:
            attempt("  k=" + show(k), lambda: p(k))
        attempt("  repeat k=3", lambda: p(3))
        attempt("  repeat k=3", lambda: p(3))
        attempt("  sum 1..400", lambda: sum(p(k) for k in range(1, 401)))
        print("  args after calls:", show(alpha), show(kappa))

for alpha, kappa in ((2.0, 10.0), (2.5, 3.0), (3.0, 100.0)):
    attempt("pkg-level %r %r" % (alpha, kappa), lambda: gcmpy.scale_free_cut_off(alpha, kappa)(5))
    attempt("positional/keyword %r %r" % (alpha, kappa),
            lambda: scale_free_cut_off(kappa=kappa, alpha=alpha)(5))

for _ in range(40):
    alpha = 0.5 + 4.0 * random.random()
    kappa = 0.2 + 60.0 * random.random()
    p = scale_free_cut_off(alpha, kappa)
    print("rand alpha=%r kappa=%r" % (alpha, kappa), [repr(p(k)) for k in (1, 2, 5, 50, 1000)])

print("py rng:", hashlib.sha256(repr(random.getstate()).encode()).hexdigest())
st = np.random.get_state()
print("np rng:", hashlib.sha256(repr((st[0], st[1].tolist(), st[2], st[3], st[4])).encode()).hexdigest())
