import sys, os; sys.path.insert(0, os.getcwd())
# Equivalence harness for the C07 periphery (split-degree / delta loaders):
# constructors + parameter parsing, factory dispatch, distribution entry point,
# sampling on the base class.  Prints a deterministic digest (values, exception
# types / messages / contexts, instance-dict order, access logs of the parameter
# mapping, RNG states).  Must print exactly the same on original and edited code.
import hashlib
import math
import random
from fractions import Fraction

import numpy as np

from gcmpy.joint_degree.joint_degree import JointDegree
from gcmpy.joint_degree.joint_degree_type import JointDegreeType
from gcmpy.joint_degree.joint_degree_factory import JointDegreeFactory
from gcmpy.joint_degree.joint_degree_distribution import JointDegreeDistribution
from gcmpy.joint_degree.joint_degree_loaders.joint_degree_split_degree import (
    JointDegreeSplitDegree,
)
from gcmpy.joint_degree.joint_degree_loaders.joint_degree_delta import JointDegreeDelta
from gcmpy.names.joint_degree_names import JointDegreeNames as N
from gcmpy.distributions.power_law import power_law

LINES = []


def out(*parts):
    line = " ".join(str(p) for p in parts)
    LINES.append(line)
    print(line)


def rng_state():
    h = hashlib.sha256()
    h.update(repr(random.getstate()).encode())
    st = np.random.get_state()
    h.update(repr((st[0], st[1].tolist(), st[2], st[3], st[4])).encode())
    return h.hexdigest()[:16]


def seed(s):
    random.seed(s)
    np.random.seed(s)


def fmt(v):
    if isinstance(v, float):
        return v.hex()
    if isinstance(v, dict):
        return "{" + ", ".join(f"{fmt(k)}: {fmt(x)}" for k, x in v.items()) + "}"
    if isinstance(v, (list, tuple)):
        o, c = ("[", "]") if isinstance(v, list) else ("(", ")")
        return o + ", ".join(fmt(x) for x in v) + c
    if callable(v) and hasattr(v, "__name__"):
        return f"<callable {v.__name__}>"
    return repr(v)


def digest(v):
    return hashlib.sha256(fmt(v).encode()).hexdigest()[:16]


def exc_desc(e):
    chain = []
    seen = 0
    while e is not None and seen < 5:
        chain.append(f"{type(e).__name__}({str(e)!r})")
        e = e.__context__
        seen += 1
    return " <- ".join(chain)


def state(obj):
    d = vars(obj)
    parts = []
    for k, v in d.items():
        if k == "_jdd" and isinstance(v, dict) and len(v) > 12:
            parts.append(f"{k}=<{len(v)} keys {digest(v)} sum={fmt(math.fsum(v.values()))}>")
        else:
            parts.append(f"{k}={fmt(v)}")
    return f"{type(obj).__name__}[" + "; ".join(parts) + "]"


def attempt(label, fn):
    try:
        r = fn()
    except BaseException as e:  # noqa
        out(label, "EXC", exc_desc(e), "rng", rng_state())
        return None
    if isinstance(r, JointDegree):
        out(label, "OK", state(r), "type", r._type, "rng", rng_state())
    else:
        out(label, "OK", fmt(r) if len(fmt(r)) < 400 else digest(r), "rng", rng_state())
    return r


# ----------------------------------------------------------------- fp's
def fp_pl(k):
    return power_law(2.5)(k)


PL = power_law(2.5)
PL.__name__ = "pl25"


def poisson(k):
    return math.exp(-3.0) * 3.0 ** k / math.factorial(k)


def geometric(k):
    return 0.3 * 0.7 ** k


def zero(k):
    return 0.0


def frac(k):
    return Fraction(1, k + 1)


def integer(k):
    return k + 1


CALLS = []


def logging_fp(k):
    CALLS.append(k)
    return 1.0 / (1 + k * k)


def rng_fp(k):
    return random.random() + np.random.random()


def bad_fp(k):
    if k == 4:
        raise RuntimeError("fp failed at 4")
    return 1.0


# ----------------------------------------------------------------- params
class LoggingParams(dict):
    """dict that logs every access made by the constructors / entry points."""

    def __init__(self, *a, **kw):
        super().__init__(*a, **kw)
        self.log = []

    def __getitem__(self, k):
        self.log.append(("get", getattr(k, "name", k)))
        return super().__getitem__(k)

    def __contains__(self, k):
        self.log.append(("in", getattr(k, "name", k)))
        return super().__contains__(k)

    def get(self, k, d=None):
        self.log.append(("dotget", getattr(k, "name", k)))
        return super().get(k, d)


class RaisingParams(dict):
    def __init__(self, exc, at, *a, **kw):
        super().__init__(*a, **kw)
        self.exc, self.at, self.log = exc, at, []

    def __getitem__(self, k):
        self.log.append(getattr(k, "name", k))
        if k is self.at:
            raise self.exc
        return super().__getitem__(k)


def base_params(**over):
    p = {
        N.MOTIF_SIZES: [2, 3],
        N.PROBS: [0.8, 0.2],
        N.FP: PL,
        N.LOW_HIGH_DEGREE_BOUND: (1, 30),
        N.TARGET_K: 3,
    }
    for k, v in over.items():
        p[getattr(N, k)] = v
    return p


PARAM_SETS = []
PARAM_SETS.append(("std", base_params()))
PARAM_SETS.append(("poisson0", base_params(FP=poisson, LOW_HIGH_DEGREE_BOUND=(0, 25))))
PARAM_SETS.append(("geo3", base_params(FP=geometric, PROBS=[0.5, 0.3, 0.2], MOTIF_SIZES=[2, 3, 4], LOW_HIGH_DEGREE_BOUND=(0, 20), TARGET_K=7)))
PARAM_SETS.append(("geo4", base_params(FP=geometric, PROBS=[0.4, 0.3, 0.2, 0.1], MOTIF_SIZES=[2, 3, 4, 5], LOW_HIGH_DEGREE_BOUND=[2, 15], TARGET_K=12)))
PARAM_SETS.append(("one_top", base_params(FP=poisson, PROBS=[1.0], MOTIF_SIZES=[2], LOW_HIGH_DEGREE_BOUND=(0, 12), TARGET_K=5)))
PARAM_SETS.append(("empty_range", base_params(LOW_HIGH_DEGREE_BOUND=(5, 5))))
PARAM_SETS.append(("reverse_range", base_params(LOW_HIGH_DEGREE_BOUND=(9, 2))))
PARAM_SETS.append(("k0_powerlaw", base_params(LOW_HIGH_DEGREE_BOUND=(0, 5))))
PARAM_SETS.append(("zero_fp", base_params(FP=zero)))
PARAM_SETS.append(("zero_probs", base_params(PROBS=[0.0, 0.0], LOW_HIGH_DEGREE_BOUND=(1, 6))))
PARAM_SETS.append(("zero_first_prob", base_params(PROBS=[0.0, 1.0], LOW_HIGH_DEGREE_BOUND=(0, 8), FP=poisson)))
PARAM_SETS.append(("frac", base_params(FP=frac, PROBS=[Fraction(3, 4), Fraction(1, 4)], LOW_HIGH_DEGREE_BOUND=(0, 9))))
PARAM_SETS.append(("integer", base_params(FP=integer, PROBS=[2, 1], LOW_HIGH_DEGREE_BOUND=(0, 7))))
PARAM_SETS.append(("target_outside", base_params(TARGET_K=100)))
PARAM_SETS.append(("target_none", base_params(TARGET_K=None)))
PARAM_SETS.append(("target_float", base_params(TARGET_K=3.0)))
PARAM_SETS.append(("sizes_mismatch", base_params(MOTIF_SIZES=[2, 3, 4])))
PARAM_SETS.append(("sizes_empty", base_params(MOTIF_SIZES=[])))
PARAM_SETS.append(("probs_empty", base_params(PROBS=[])))
PARAM_SETS.append(("probs_tuple", base_params(PROBS=(0.6, 0.4))))
PARAM_SETS.append(("probs_nparray", base_params(PROBS=np.array([0.6, 0.4]), MOTIF_SIZES=np.array([2, 3]))))
PARAM_SETS.append(("bound_len1", base_params(LOW_HIGH_DEGREE_BOUND=(3,))))
PARAM_SETS.append(("bound_len3", base_params(LOW_HIGH_DEGREE_BOUND=(1, 6, 99))))
PARAM_SETS.append(("bound_none", base_params(LOW_HIGH_DEGREE_BOUND=None)))
PARAM_SETS.append(("bound_float", base_params(LOW_HIGH_DEGREE_BOUND=(1.0, 6.0))))
PARAM_SETS.append(("bound_negative", base_params(LOW_HIGH_DEGREE_BOUND=(-3, 4), FP=geometric)))
PARAM_SETS.append(("fp_none", base_params(FP=None)))
PARAM_SETS.append(("fp_raises", base_params(FP=bad_fp, LOW_HIGH_DEGREE_BOUND=(1, 8), TARGET_K=4)))
PARAM_SETS.append(("fp_rng", base_params(FP=rng_fp, LOW_HIGH_DEGREE_BOUND=(0, 10))))
PARAM_SETS.append(("fp_logging", base_params(FP=logging_fp, LOW_HIGH_DEGREE_BOUND=(0, 10))))
PARAM_SETS.append(("sizes_str", base_params(MOTIF_SIZES="ab")))
# string keys instead of enum members, and every single missing key
PARAM_SETS.append(("string_keys", {k.value: v for k, v in base_params().items()}))
PARAM_SETS.append(("name_keys", {k.name: v for k, v in base_params().items()}))
for missing in (N.MOTIF_SIZES, N.PROBS, N.FP, N.LOW_HIGH_DEGREE_BOUND, N.TARGET_K):
    p = base_params()
    del p[missing]
    PARAM_SETS.append((f"missing_{missing.name}", p))
p = base_params()
del p[N.FP], p[N.TARGET_K], p[N.PROBS]
PARAM_SETS.append(("missing_three", p))
PARAM_SETS.append(("empty", {}))
PARAM_SETS.append(("extra_keys", dict(base_params(), **{"junk": 1}) | {N.JDD: {(1, 0): 1.0}, N.COVER: [[0, 1]]}))

NON_DICTS = [("None", None), ("int", 5), ("list", [1, 2, 3]), ("str", "params"), ("tuple_pairs", tuple(base_params().items()))]

# ----------------------------------------------------------------- 1. constructors
out("== 1. direct constructors")
for cls in (JointDegreeSplitDegree, JointDegreeDelta):
    for name, params in PARAM_SETS:
        seed(11)
        del CALLS[:]
        lp = LoggingParams(params)
        before = fmt(dict(lp))
        obj = attempt(f"ctor {cls.__name__} {name}", lambda: cls(lp))
        out("   access", lp.log, "params-unchanged", before == fmt(dict(lp)), "fp-calls", list(CALLS))
        if obj is not None:
            out("   getters", digest(obj.jdd), fmt(obj.motif_sizes), "is", obj.motif_sizes is params.get(N.MOTIF_SIZES), obj._probs is params.get(N.PROBS), obj._fp is params.get(N.FP))
            # repeated calls on the same object
            for rep in range(2):
                attempt(f"   create_jdd again {rep}", lambda: (obj.create_jdd(), state(obj))[1])
            for n in (0, 1, 7, 50):
                seed(100 + n)
                attempt(f"   sample {n}", lambda: obj.sample_jds_from_jdd(n))
            seed(5)
            attempt("   sample twice", lambda: (obj.sample_jds_from_jdd(9), obj.sample_jds_from_jdd(9)))
            attempt("   normalise again", lambda: (obj.normalise_jdd(), state(obj))[1])
            attempt("   valid jd", lambda: list(obj.get_valid_joint_degrees(6, len(obj._probs))) if hasattr(obj._probs, "__len__") else None)
            attempt("   calc prob", lambda: obj.calc_prob_of_joint_degree((2, 1)))
            attempt("   resolve", lambda: (obj.resolve_degree(4, 0.5), state(obj))[1])
            # setters
            obj.jdd = {(1, 0): 0.25, (0, 1): 0.75}
            obj.motif_sizes = [2, 3]
            seed(6)
            attempt("   after setters", lambda: (state(obj), obj.sample_jds_from_jdd(5)))
    for name, params in NON_DICTS:
        seed(12)
        attempt(f"ctor {cls.__name__} nondict {name}", lambda: cls(params))
    for exc in (KeyError("boom"), ValueError("v"), KeyboardInterrupt("kb"), SystemExit(3), StopIteration("s")):
        for at in (N.TARGET_K, N.FP, N.PROBS, N.MOTIF_SIZES, N.LOW_HIGH_DEGREE_BOUND):
            rp = RaisingParams(exc, at, base_params())
            exc.__context__ = None
            seed(13)
            attempt(f"ctor {cls.__name__} raising {type(exc).__name__}@{at.name}", lambda: cls(rp))
            out("   access", rp.log)
    # failed __init__ on a pre-allocated object: what is left on the instance
    for name, params in PARAM_SETS:
        if name.startswith("missing") or name in ("empty", "string_keys"):
            shell = cls.__new__(cls)
            try:
                shell.__init__(params)
            except BaseException as e:  # noqa
                out(f"shell {cls.__name__} {name}", exc_desc(e), [(k, fmt(v)) for k, v in vars(shell).items()])
    out("class attrs", cls.__name__, cls._type, sorted(k for k in vars(cls) if not k.startswith("__")), [c.__name__ for c in cls.__mro__])
    attempt(f"ctor {cls.__name__} no args", lambda: cls())
    attempt(f"ctor {cls.__name__} kw", lambda: cls(params=base_params(LOW_HIGH_DEGREE_BOUND=(1, 5))))
    attempt(f"ctor {cls.__name__} two args", lambda: cls(base_params(), 1))

attempt("abstract JointDegree()", lambda: JointDegree())
attempt("abstract JointDegree(params)", lambda: JointDegree({}))

# ----------------------------------------------------------------- 2. factory
out("== 2. factory")


class EqAll:
    """compares equal to everything; logs what it was compared with"""

    def __init__(self):
        self.log = []

    def __eq__(self, other):
        self.log.append(getattr(other, "name", repr(other)))
        return True

    __hash__ = None


class EqOnly:
    def __init__(self, target, hashable=True):
        self.target, self.log = target, []
        if not hashable:
            self.__class__ = type("EqOnlyUnhashable", (EqOnly,), {"__hash__": None})

    def __eq__(self, other):
        self.log.append(getattr(other, "name", repr(other)))
        return other is self.target

    def __hash__(self):
        return 7


class EqRaises:
    def __init__(self, after):
        self.after, self.log = after, []

    def __eq__(self, other):
        self.log.append(getattr(other, "name", repr(other)))
        if len(self.log) > self.after:
            raise ArithmeticError("eq exploded")
        return False


class EqTruthy:
    """__eq__ returns a non-bool whose truth value is logged"""

    class Res:
        def __init__(self, owner, val):
            self.owner, self.val = owner, val

        def __bool__(self):
            self.owner.log.append(("bool", self.val))
            return self.val

    def __init__(self, target):
        self.target, self.log = target, []

    def __eq__(self, other):
        self.log.append(getattr(other, "name", repr(other)))
        return EqTruthy.Res(self, other is self.target)


FULL = dict(base_params())
FULL[N.JDD] = {(1, 0): 0.5, (2, 1): 0.5}
FULL[N.JDS] = [(1, 0), (2, 1), (2, 1), (0, 2)]
FULL[N.COVER] = [[0, 1], [1, 2, 3], [2, 3], [0, 4, 5]]
FULL[N.ARR_FP] = [poisson, geometric]


def joint(jd):
    return poisson(jd[0]) * geometric(jd[1])


FUNC = dict(FULL)
FUNC[N.FP] = joint
FUNC[N.LOW_HIGH_DEGREE_BOUND] = [(0, 4), (0, 3)]

type_inputs = [(t.name, t) for t in JointDegreeType]
type_inputs += [(f"str:{t.value}", t.value) for t in JointDegreeType]
type_inputs += [(f"name:{t.name}", t.name) for t in JointDegreeType]
type_inputs += [("None", None), ("int", 0), ("list", [JointDegreeType.DELTA]), ("dict", {}), ("set", {1}), ("float-nan", float("nan")), ("names-enum", N.COVER), ("class", JointDegreeType), ("tuple", (JointDegreeType.DELTA,))]

for name, t in type_inputs:
    for pname, params in (("full", FULL), ("func", FUNC), ("empty", {})):
        seed(21)
        obj = attempt(f"factory {name} {pname}", lambda: JointDegreeFactory.resolve_joint_degree(t, params))
        if obj is not None:
            seed(22)
            attempt("   sample", lambda: obj.sample_jds_from_jdd(6))

for target in JointDegreeType:
    for mk in (lambda: EqOnly(target), lambda: EqOnly(target, hashable=False), lambda: EqTruthy(target)):
        w = mk()
        seed(23)
        params = FUNC if target is JointDegreeType.JOINT_FUNCTION else FULL
        attempt(f"factory {type(w).__name__}->{target.name}", lambda: JointDegreeFactory.resolve_joint_degree(w, params))
        out("   eq-log", w.log)
w = EqAll()
seed(24)
attempt("factory EqAll", lambda: JointDegreeFactory.resolve_joint_degree(w, FULL))
out("   eq-log", w.log)
for after in range(0, 9):
    w = EqRaises(after)
    seed(25)
    attempt(f"factory EqRaises {after}", lambda: JointDegreeFactory.resolve_joint_degree(w, FULL))
    out("   eq-log", w.log)
attempt("factory kw", lambda: JointDegreeFactory.resolve_joint_degree(type=JointDegreeType.DELTA, params=FULL))
attempt("factory kw swapped", lambda: JointDegreeFactory.resolve_joint_degree(params=FULL, type=JointDegreeType.SPLIT_DEGREE))
attempt("factory via instance", lambda: JointDegreeFactory().resolve_joint_degree(JointDegreeType.DELTA, FULL))
attempt("factory no params", lambda: JointDegreeFactory.resolve_joint_degree(JointDegreeType.DELTA))
attempt("factory none", lambda: JointDegreeFactory.resolve_joint_degree())
attempt("factory three", lambda: JointDegreeFactory.resolve_joint_degree(JointDegreeType.DELTA, FULL, 1))
attempt("factory params None", lambda: JointDegreeFactory.resolve_joint_degree(JointDegreeType.DELTA, None))
out("factory is staticmethod", isinstance(vars(JointDegreeFactory)["resolve_joint_degree"], staticmethod), sorted(k for k in vars(JointDegreeFactory) if not k.startswith("__")))
for name, params in PARAM_SETS:
    for t in (JointDegreeType.SPLIT_DEGREE, JointDegreeType.DELTA):
        seed(26)
        lp = LoggingParams(params)
        attempt(f"factory {t.name} {name}", lambda: JointDegreeFactory.resolve_joint_degree(t, lp))
        out("   access", lp.log)

# ----------------------------------------------------------------- 3. distribution entry point
out("== 3. load_joint_degree")
type_values = [(t.name, t) for t in JointDegreeType] + [(f"str:{t.value}", t.value) for t in JointDegreeType]
type_values += [("str:DELTA", "DELTA"), ("None", None), ("int", 3), ("list", ["delta"]), ("names", N.COVER), ("EqAll", EqAll())]
for name, tv in type_values:
    for pname, base in (("full", FULL), ("func", FUNC)):
        params = LoggingParams(base)
        params[N.JOINT_DEGREE_TYPE] = tv
        seed(31)
        del CALLS[:]
        obj = attempt(f"load {name} {pname}", lambda: JointDegreeDistribution.load_joint_degree(params))
        out("   access", params.log)
        if obj is not None:
            seed(32)
            attempt("   sample", lambda: obj.sample_jds_from_jdd(8))
for name, base in PARAM_SETS:
    for t in (JointDegreeType.SPLIT_DEGREE, "delta", JointDegreeType.DELTA, "split_degree"):
        params = LoggingParams(base)
        params[N.JOINT_DEGREE_TYPE] = t
        seed(33)
        del CALLS[:]
        obj = attempt(f"load {t} {name}", lambda: JointDegreeDistribution.load_joint_degree(params))
        out("   access", params.log, "fp-calls", list(CALLS))
        if obj is not None:
            seed(34)
            attempt("   sample", lambda: obj.sample_jds_from_jdd(8))
            attempt("   load twice same params", lambda: JointDegreeDistribution.load_joint_degree(params))
attempt("load no type key", lambda: JointDegreeDistribution.load_joint_degree(dict(FULL)))
attempt("load string type key", lambda: JointDegreeDistribution.load_joint_degree(dict(FULL, joint_degree_type="delta")))
for name, params in NON_DICTS:
    attempt(f"load nondict {name}", lambda: JointDegreeDistribution.load_joint_degree(params))
for exc in (KeyError("boom"), KeyboardInterrupt("kb"), SystemExit(3)):
    for at in (N.JOINT_DEGREE_TYPE, N.TARGET_K, N.FP):
        rp = RaisingParams(exc, at, FULL)
        rp[N.JOINT_DEGREE_TYPE] = JointDegreeType.DELTA
        exc.__context__ = None
        attempt(f"load raising {type(exc).__name__}@{at.name}", lambda: JointDegreeDistribution.load_joint_degree(rp))
        out("   access", rp.log)
attempt("load no args", lambda: JointDegreeDistribution.load_joint_degree())
attempt("load kw", lambda: JointDegreeDistribution.load_joint_degree(params=dict(FULL, **{}) | {N.JOINT_DEGREE_TYPE: "delta"}))
attempt("load via instance", lambda: JointDegreeDistribution().load_joint_degree(dict(FULL) | {N.JOINT_DEGREE_TYPE: "split_degree"}))

# ----------------------------------------------------------------- 4. the law itself, larger instance
out("== 4. larger")
seed(41)
big = base_params(LOW_HIGH_DEGREE_BOUND=(1, 200), PROBS=[0.5, 0.3, 0.2], MOTIF_SIZES=[2, 3, 4], TARGET_K=17)
for cls in (JointDegreeSplitDegree, JointDegreeDelta):
    obj = attempt(f"big {cls.__name__}", lambda: cls(big))
    per_k = {}
    for jd, p in obj.jdd.items():
        k = sum((i + 1) * d for i, d in enumerate(jd))
        per_k.setdefault(k, []).append(p)
    out("   per-k", digest({k: math.fsum(v) for k, v in per_k.items()}), "total", fmt(math.fsum(obj.jdd.values())))
    attempt("   sample 2000", lambda: digest(obj.sample_jds_from_jdd(2000)))

out("== enum members")
out([(m.name, m.value) for m in N])
out([(m.name, m.value) for m in JointDegreeType])
out("final rng", rng_state())
print("DIGEST", hashlib.sha256("\n".join(LINES).encode()).hexdigest())
