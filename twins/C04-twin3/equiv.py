"""Equivalence digest for C04 (edge list <-> network conversion, Network helpers).

Run with cwd = a checkout of gcmpy.  Prints a deterministic transcript.
"""
import os
import sys
import copy
import hashlib
import pickle
import random
import warnings

warnings.simplefilter("ignore")
sys.path.insert(0, os.getcwd())

import numpy as np
import networkx as nx

from gcmpy.network.edge_list import LightWeightEdgeList
from gcmpy.network.network import Network
from gcmpy.network.edge_list_to_network import EdgeListToNetwork
from gcmpy.network.network_to_edge_list import NetworkToEdgeList
from gcmpy.names.network_names import NetworkNames
from gcmpy.covers.eecc import EECC


def h(obj) -> str:
    return hashlib.sha256(repr(obj).encode()).hexdigest()[:16]


def rng_state() -> str:
    return h((random.getstate(), [repr(x) for x in np.random.get_state()]))


def graph_dump(G):
    """Everything observable about a graph, in iteration order."""
    keys = list(G.__dict__)  # captured before the dump itself touches any cached view
    return (
        type(G).__name__,
        [(n, list(d.items())) for n, d in G.nodes(data=True)],
        [(u, v, list(d.items())) for u, v, d in G.edges(data=True)],
        [(n, [(m, list(dd.items()) if isinstance(dd, dict) else repr(dd)) for m, dd in nbrs.items()])
         for n, nbrs in G.adjacency()],
        list(G.graph.items()),
        keys,
    )


def el_dump(el):
    return (
        type(el).__name__,
        list(el.edge_list) if isinstance(el.edge_list, (list, tuple)) else repr(el.edge_list),
        list(el.topologies) if isinstance(el.topologies, (list, tuple)) else repr(el.topologies),
        list(el.joint_degrees) if isinstance(el.joint_degrees, (list, tuple)) else repr(el.joint_degrees),
        list(el.motif_id) if isinstance(el.motif_id, (list, tuple)) else repr(el.motif_id),
        sorted(el.__dict__),
    )


def show(label, value, full=False):
    r = repr(value)
    if full or len(r) <= 300:
        print(label, r)
    else:
        print(label, "len=%d" % len(r), h(value))


def attempt(label, fn, full=False):
    try:
        out = fn()
    except BaseException as ex:  # noqa
        print(label, "RAISED", type(ex).__name__, repr(ex.args))
        return None
    show(label, out, full)
    return out


def make_el(jds, edges, tops, mids):
    el = LightWeightEdgeList()
    el.joint_degrees = jds
    el.edge_list = edges
    el.topologies = tops
    el.motif_id = mids
    return el


# ----------------------------------------------------------------------------------
random.seed(12345)
np.random.seed(54321)
print("rng0", rng_state())

T, M, J = NetworkNames.TOPOLOGY, NetworkNames.MOTIF_IDS, NetworkNames.JOINT_DEGREE

cases = {}
cases["empty"] = ([], [], [], [])
cases["isolated_only"] = ([(0, 0), (0, 0), (0, 0)], [], [], [])
cases["simple"] = (
    [(1, 0), (2, 0), (1, 1), (2, 1), (2, 1), (0, 0)],
    [(0, 1), (1, 2), (2, 3), (3, 4), (4, 2)],
    ["2-clique", "2-clique", "3-clique", "3-clique", "3-clique"],
    [0, 1, 2, 2, 2],
)
cases["dup_same_orientation"] = (
    [(2, 0), (2, 0), (1, 0)],
    [(0, 1), (1, 2), (0, 1)],
    ["a", "b", "c"],
    [10, 11, 12],
)
cases["dup_reversed"] = (
    [(2, 0), (2, 0), (1, 0)],
    [(0, 1), (1, 2), (1, 0), (2, 1), (0, 1)],
    ["a", "b", "c", "d", "e"],
    [10, 11, 12, 13, 14],
)
cases["self_loop"] = ([(2, 0), (1, 0)], [(0, 0), (0, 1), (1, 1)], ["s", "t", "u"], [0, 1, 2])
cases["edges_beyond_nodes"] = ([(1, 0)], [(0, 5), (7, 3)], ["x", "y"], [1, 2])
cases["short_topologies"] = ([(1, 0)] * 4, [(0, 1), (1, 2), (2, 3)], ["x"], [1, 2, 3])
cases["short_motifs"] = ([(1, 0)] * 4, [(0, 1), (1, 2), (2, 3)], ["x", "y", "z"], [1, 2])
cases["long_attrs"] = ([(1, 0)] * 4, [(0, 1), (1, 2)], ["x", "y", "z", "w"], [1, 2, 3, 4, 5])
cases["tuple_containers"] = (((1, 0), (1, 0)), ((0, 1),), ("x",), (9,))
cases["float_attrs"] = (
    [(0.1 + 0.2, 1e-300), (float("inf"), -0.0), (1, 2)],
    [(0, 1), (1, 2)],
    [0.1 + 0.2, 1 / 3],
    [2 ** 70, -0.0],
)
cases["list_edges_unhashable"] = ([(1, 0), (1, 0)], [[0, 1]], ["x"], [1])
cases["three_tuple_edges"] = ([(1, 0), (1, 0)], [(0, 1, None)], ["x"], [1])
cases["three_tuple_dict_edges"] = ([(1, 0), (1, 0)], [(0, 1, {"w": 1})], ["x"], [1])
cases["string_edges"] = ([(1, 0)], ["ab", "bc"], ["x", "y"], [1, 2])
cases["string_nodes"] = ([(1, 0)], [("a", "b"), ("b", 0)], ["x", "y"], [1, 2])
cases["one_tuple_edge"] = ([(1, 0)], [(0,)], ["x"], [1])
cases["jds_not_sized"] = (iter([(1, 0)]), [(0, 1)], ["x"], [1])
cases["mutable_attr_values"] = ([[1, 0], [1, 0]], [(0, 1)], [["shared"]], [{"k": 1}])

# random larger cases
for k, (n, m) in enumerate([(30, 60), (200, 500), (1000, 1500)]):
    jds = [(random.randint(0, 4), random.randint(0, 2)) for _ in range(n)]
    edges = [(random.randrange(n), random.randrange(n)) for _ in range(m)]
    tops = [random.choice(["2-clique", "3-clique", "4-clique"]) for _ in range(m)]
    mids = [int(x) for x in np.random.randint(0, m, size=m)]
    cases["random_%d" % k] = (jds, edges, tops, mids)

print("rng1", rng_state())

networks = {}
for name, (jds, edges, tops, mids) in cases.items():
    print("== E2N", name)
    el = make_el(jds, edges, tops, mids)
    before = el_dump(el) if name != "jds_not_sized" else None
    ids_before = (id(el.edge_list), id(el.topologies), id(el.joint_degrees), id(el.motif_id))
    g = attempt("  first ", lambda: graph_dump(EdgeListToNetwork.convert(el).G))
    # repeated call on the same object
    net = None

    def second():
        global net
        net = EdgeListToNetwork.convert(el)
        return graph_dump(net.G)

    g2 = attempt("  second", second)
    print("  same_result", g == g2)
    if before is not None:
        print("  input_unmutated", before == el_dump(el))
    print(
        "  input_identity",
        ids_before == (id(el.edge_list), id(el.topologies), id(el.joint_degrees), id(el.motif_id)),
    )
    if net is not None:
        networks[name] = net
        print("  type", type(net).__name__, type(net.G).__name__, net.has_edges())
        # the attribute values must be the very same objects
        if name == "mutable_attr_values":
            print(
                "  alias",
                net.G.edges[0, 1][T] is tops[0],
                net.G.edges[0, 1][M] is mids[0],
                net.G.nodes[0][J] is jds[0],
            )
    print("  rng", rng_state())

# ----------------------------------------------------------------------------------
print("#### N2E")


def n2e_case(label, net):
    print("== N2E", label)
    keys_before = list(net.G.__dict__)
    before = graph_dump(net.G)
    r1 = attempt("  first ", lambda: el_dump(NetworkToEdgeList.convert(net)))
    print("  G.__dict__ keys", keys_before, "->", list(net.G.__dict__))
    r2 = attempt("  second", lambda: el_dump(NetworkToEdgeList.convert(net)))
    print("  same_result", r1 == r2)
    after = graph_dump(net.G)
    # 'nodes'/'edges' cached views may appear in __dict__; compare data part and report keys
    print("  graph_unmutated", before[:5] == after[:5], after[5])
    print("  rng", rng_state())


for name, net in networks.items():
    n2e_case(name, net)

# fresh objects list independence / aliasing of results
net = networks["simple"]
a = NetworkToEdgeList.convert(net)
b = NetworkToEdgeList.convert(net)
print(
    "fresh_lists",
    a.edge_list is not b.edge_list,
    a.topologies is not b.topologies,
    a.motif_id is not b.motif_id,
    a.joint_degrees is not b.joint_degrees,
    len({id(a.edge_list), id(a.topologies), id(a.motif_id), id(a.joint_degrees)}),
    [type(x).__name__ for x in (a.edge_list, a.topologies, a.motif_id, a.joint_degrees)],
    [type(e).__name__ for e in a.edge_list],
)
net = networks["mutable_attr_values"]
a = NetworkToEdgeList.convert(net)
print(
    "alias_n2e",
    a.topologies[0] is net.G.edges[0, 1][T],
    a.motif_id[0] is net.G.edges[0, 1][M],
    a.joint_degrees[0] is net.G.nodes[0][J],
)


def manual(builder, cls=nx.Graph):
    net = Network()
    net.G = cls()
    builder(net.G)
    return net


def b_missing_jd(G):
    G.add_nodes_from(range(3))
    G.nodes[0][J] = (1, 0)
    G.nodes[2][J] = (1, 0)
    G.add_edge(0, 2)  # also lacks topology and motif ids


def b_missing_topology_then_motif(G):
    for n in range(4):
        G.add_node(n, **{})
        G.nodes[n][J] = (n, 0)
    G.add_edge(0, 1)
    G.edges[0, 1][T] = "t"  # lacks motif id
    G.add_edge(1, 2)
    G.edges[1, 2][M] = 4  # lacks topology


def b_missing_motif_only(G):
    for n in range(3):
        G.add_node(n)
        G.nodes[n][J] = (n, 0)
    G.add_edge(0, 1)
    G.edges[0, 1][T] = "t"
    G.edges[0, 1][M] = 3
    G.add_edge(1, 2)
    G.edges[1, 2][T] = "t"


def b_noncontiguous_nodes(G):
    for n in (0, 1, 5):
        G.add_node(n)
        G.nodes[n][J] = (n, 0)


def b_string_nodes(G):
    for n in ("a", "b"):
        G.add_node(n)
        G.nodes[n][J] = (1, 0)
    G.add_edge("a", "b")
    G.edges["a", "b"][T] = "t"
    G.edges["a", "b"][M] = 0


def b_insertion_order(G):
    for n in (3, 1, 0, 2):
        G.add_node(n)
        G.nodes[n][J] = ("jd", n)
    for k, e in enumerate([(2, 0), (3, 1), (0, 3), (1, 2), (2, 2)]):
        G.add_edge(*e)
        G.edges[e][M] = k
        G.edges[e][T] = "top%d" % k
        G.edges[e]["extra"] = k * 0.1


def b_full(G):
    for n in range(4):
        G.add_node(n)
        G.nodes[n][J] = (n, n)
    for k, e in enumerate([(0, 1), (1, 0), (1, 2), (2, 3), (3, 3), (0, 1)]):
        key = G.add_edge(*e)
        if G.is_multigraph():
            G.edges[e[0], e[1], key][T] = "t%d" % k
            G.edges[e[0], e[1], key][M] = k
        else:
            G.edges[e][T] = "t%d" % k
            G.edges[e][M] = k


def b_nodes_only(G):
    for n in range(3):
        G.add_node(n)
        G.nodes[n][J] = (0, 0)


manual_cases = [
    ("missing_jd", b_missing_jd, nx.Graph),
    ("missing_topology_then_motif", b_missing_topology_then_motif, nx.Graph),
    ("missing_motif_only", b_missing_motif_only, nx.Graph),
    ("noncontiguous_nodes", b_noncontiguous_nodes, nx.Graph),
    ("string_nodes", b_string_nodes, nx.Graph),
    ("insertion_order", b_insertion_order, nx.Graph),
    ("full_graph", b_full, nx.Graph),
    ("full_digraph", b_full, nx.DiGraph),
    ("full_multigraph", b_full, nx.MultiGraph),
    ("full_multidigraph", b_full, nx.MultiDiGraph),
    ("nodes_only_graph", b_nodes_only, nx.Graph),
    ("nodes_only_multigraph", b_nodes_only, nx.MultiGraph),
    ("empty_graph", lambda G: None, nx.Graph),
    ("empty_digraph", lambda G: None, nx.DiGraph),
]
for label, builder, cls in manual_cases:
    net = manual(builder, cls)
    n2e_case("manual_" + label, net)
    print("  has_edges", attempt("", net.has_edges), attempt("", net.has_edges))


print("#### cached-view bookkeeping on untouched graphs")
for cls in (nx.Graph, nx.DiGraph, nx.MultiGraph):
    for variant in ("ok", "no_jd", "no_top", "no_edges"):
        net = Network()
        net.G = cls()
        for n in range(3):
            if variant == "no_jd" and n == 1:
                net.G.add_node(n)
            else:
                net.G.add_nodes_from([(n, {J: (n, 1)})])
        if variant != "no_edges":
            net.G.add_edges_from([(0, 1, {T: "a", M: 0})])
            if variant == "no_top":
                net.G.add_edges_from([(1, 2, {M: 1})])
            else:
                net.G.add_edges_from([(1, 2, {T: "b", M: 1})])
        k0 = list(net.G.__dict__)
        r = attempt("  %s %s" % (cls.__name__, variant), lambda: el_dump(NetworkToEdgeList.convert(net)))
        k1 = list(net.G.__dict__)
        print("   keys", k0, "->", k1)
        net2 = Network()
        net2.G = cls()
        net2.G.add_node(0)
        if variant != "no_edges":
            net2.G.add_edge(0, 1)
        k0 = list(net2.G.__dict__)
        r = net2.has_edges()
        print("   has_edges", r, k0, "->", list(net2.G.__dict__))

attempt("N2E non-network", lambda: NetworkToEdgeList.convert(object()))
attempt("N2E None", lambda: NetworkToEdgeList.convert(None))
attempt("E2N non-edgelist", lambda: EdgeListToNetwork.convert(object()))
attempt("E2N None", lambda: EdgeListToNetwork.convert(None))


class OnlyJds:
    joint_degrees = [(0, 0)]


class OnlyEdges:
    edge_list = [(0, 1)]


attempt("E2N only jds", lambda: EdgeListToNetwork.convert(OnlyJds()))
attempt("E2N only edges", lambda: EdgeListToNetwork.convert(OnlyEdges()))

# ----------------------------------------------------------------------------------
print("#### round trips")
def round_trip(name, net):
    el = NetworkToEdgeList.convert(net)
    net2 = EdgeListToNetwork.convert(el)
    el2 = NetworkToEdgeList.convert(net2)
    net3 = EdgeListToNetwork.convert(el2)
    return (
        h(graph_dump(net.G)),
        h(el_dump(el)),
        h(graph_dump(net2.G)),
        h(el_dump(el2)),
        h(graph_dump(net3.G)),
        el_dump(el) == el_dump(el2),
        # pickles of the results (captures cached view attributes, dict orders)
        hashlib.sha256(pickle.dumps(net2.G, protocol=4)).hexdigest()[:16],
        hashlib.sha256(pickle.dumps(el2.__dict__, protocol=4)).hexdigest()[:16],
    )


for name, net in networks.items():
    attempt("rt " + name, lambda: round_trip(name, net), full=True)
print("rng2", rng_state())

# ----------------------------------------------------------------------------------
print("#### Network helpers")


def fresh_net(edges, nodes=()):
    net = Network()
    net.G.add_nodes_from(nodes)
    net.add_edges_from(edges)
    return net


net = Network()
print("has_edges empty", net.has_edges(), net.has_edges(), sorted(net.G.__dict__))
net.G.add_nodes_from(range(5))
print("has_edges isolates", net.has_edges(), sorted(net.G.__dict__))
net.add_edge((3, 4))
print("has_edges one", net.has_edges(), net.has_edges())
net.remove_edge(4, 3)
print("has_edges removed", net.has_edges())
net.remove_edge(4, 3)  # absent edge: silently ignored
net.remove_edge(40, 30)
print("has_edges removed twice", net.has_edges(), graph_dump(net.G))
net.add_edge((2, 2))
print("has_edges selfloop", net.has_edges(), graph_dump(net.G))
net.remove_edge(2, 2)
print("has_edges selfloop removed", net.has_edges())
net.add_edges_from([(0, 1), (1, 2), (2, 0), (2, 3)])
print("cliques", net.find_cliques(), net.find_cliques(), net.has_edges())
for cls in (nx.DiGraph, nx.MultiGraph, nx.MultiDiGraph):
    net = Network()
    net.G = cls()
    r0 = net.has_edges()
    net.G.add_nodes_from(range(3))
    r1 = net.has_edges()
    net.G.add_edge(2, 1)
    r2 = net.has_edges()
    net.G.add_edge(2, 1)
    r3 = net.has_edges()
    net.G.remove_edge(2, 1)
    r4 = net.has_edges()
    print("has_edges", cls.__name__, r0, r1, r2, r3, r4)
net = Network()
net.G = None
attempt("has_edges on None graph", net.has_edges)
net.G = {}
attempt("has_edges on dict graph", net.has_edges)

# has_edges interleaved with mutation while progressively deleting edges
random.seed(99)
G0 = nx.gnm_random_graph(60, 150, seed=7)
net = fresh_net(list(G0.edges()), range(60))
trace = []
edges = list(net.G.edges())
random.shuffle(edges)
for (u, v) in edges:
    trace.append(net.has_edges())
    net.remove_edge(u, v)
trace.append(net.has_edges())
print("progressive", h(trace), trace.count(True), trace.count(False), rng_state())

# ----------------------------------------------------------------------------------
print("#### EECC (uses has_edges in its main loop, draws random.choice)")
for seed, (n, m, m0) in enumerate([(12, 25, 2), (12, 25, 3), (16, 40, 3), (18, 50, 4), (10, 0, 3)]):
    random.seed(1000 + seed)
    np.random.seed(2000 + seed)
    G0 = nx.gnm_random_graph(n, m, seed=seed)
    c = EECC()
    c.set_max_clique_size(m0)
    c.G.add_nodes_from(range(n))
    c.add_edges_from(list(G0.edges()))
    out = attempt("eecc %d" % seed, c.get_EECC, full=True)
    print("  after", c.has_edges(), h(graph_dump(c.G)), rng_state())
    # a second run on the same (now edgeless) object
    out2 = attempt("eecc again %d" % seed, c.get_EECC, full=True)
    print("  after2", c.has_edges(), rng_state())

# ----------------------------------------------------------------------------------
print("#### library-generated network round trip")
from gcmpy.names.joint_degree_names import JointDegreeNames
from gcmpy.joint_degree.joint_degree_loaders.joint_degree_manual import JointDegreeManual
from gcmpy.names.gcm_algorithm_names import GCMAlgorithmNames
from gcmpy.gcm_algorithm.gcm_algorithm_network import GCMAlgorithmNetwork
from gcmpy.motif_generators.clique_motif import clique_motif

for seed, n in [(1, 50), (2, 999), (3, 4000)]:
    random.seed(seed)
    np.random.seed(seed)
    params = {
        JointDegreeNames.JDD: {(1, 0): 0.2, (2, 1): 0.5, (3, 0): 0.1, (5, 1): 0.2},
        JointDegreeNames.MOTIF_SIZES: [2, 3],
    }
    jds = JointDegreeManual(params).sample_jds_from_jdd(n)
    params = {
        GCMAlgorithmNames.MOTIF_SIZES: [2, 3],
        GCMAlgorithmNames.EDGE_NAMES: ["2-clique", "3-clique"],
        GCMAlgorithmNames.BUILD_FUNCTIONS: [clique_motif, clique_motif],
    }
    g = GCMAlgorithmNetwork(params).random_clustered_graph(jds)
    print("gen", seed, n, h(graph_dump(g.G)), rng_state())
    el = NetworkToEdgeList.convert(g)
    print("  el", h(el_dump(el)), len(el.edge_list), len(el.joint_degrees), rng_state())
    g2 = EdgeListToNetwork.convert(el)
    print("  g2", h(graph_dump(g2.G)), g2.has_edges(), rng_state())
    el2 = NetworkToEdgeList.convert(g2)
    print("  el2", h(el_dump(el2)), el_dump(el) == el_dump(el2), rng_state())

print("final rng", rng_state())
