import sys, os; sys.path.insert(0, os.getcwd())
import hashlib
import random
import numpy as np
import networkx as nx

from gcmpy.joint_degree.joint_degree_loaders.joint_degree_manual import JointDegreeManual
from gcmpy.motif_generators.clique_motif import clique_motif
from gcmpy.gcm_algorithm.gcm_algorithm_network import GCMAlgorithmNetwork
from gcmpy.names.gcm_algorithm_names import GCMAlgorithmNames
from gcmpy.names.joint_degree_names import JointDegreeNames
from gcmpy.names.tools_names import ToolsNames
from gcmpy.names.network_names import NetworkNames
from gcmpy.network.network import Network
from gcmpy.tools.joint_excess_joint_degree_matrices import JointExcessJointDegreeMatrices
from gcmpy.tools.markov_chain_monte_carlo_rewiring import MarkovChainMonteCarloRewiring
from gcmpy.tools.markov_chain_monte_carlo import MarkovChainMonteCarlo
from gcmpy.tools.joint_excess_from_ejk import JointExcessFromEjk
from gcmpy.tools.joint_degree_from_excess import JointDegreeFromExcess

TOP = NetworkNames.TOPOLOGY
MID = NetworkNames.MOTIF_IDS
JD = NetworkNames.JOINT_DEGREE
EDGE_NAMES = ["2-clique", "3-clique"]
MOTIF_SIZES = [2, 3]


def h(obj) -> str:
    return hashlib.sha256(repr(obj).encode()).hexdigest()[:16]


def rng_state() -> str:
    return h(random.getstate()) + "/" + h(
        tuple(x.tolist() if hasattr(x, "tolist") else x for x in np.random.get_state())
    )


def target(eps: float, zero: bool = False) -> JointExcessJointDegreeMatrices:
    z = 0.0 if zero else eps
    tree = {
        (0, 3, 0, 3): 9 / 81 - eps - z, (0, 3, 4, 1): eps, (0, 3, 2, 2): z,
        (4, 1, 0, 3): eps, (4, 1, 4, 1): 45 / 81 - 2 * eps, (4, 1, 2, 2): eps,
        (2, 2, 0, 3): z, (2, 2, 4, 1): eps, (2, 2, 2, 2): 27 / 81 - z - eps,
    }
    tri = {
        (3, 1, 3, 1): 48 / 144 - eps - z, (3, 1, 1, 2): eps, (3, 1, 5, 0): z,
        (1, 2, 3, 1): eps, (1, 2, 1, 2): 72 / 144 - 2 * eps, (1, 2, 5, 0): eps,
        (5, 0, 3, 1): z, (5, 0, 1, 2): eps, (5, 0, 5, 0): 24 / 144 - z - eps,
    }
    if zero == "drop":
        for d in (tree, tri):
            for k in [k for k, v in d.items() if v == 0.0]:
                del d[k]
    return JointExcessJointDegreeMatrices(
        {ToolsNames.EDGE_NAMES: EDGE_NAMES,
         ToolsNames.EJKS: {"2-clique": tree, "3-clique": tri}}
    )


def build(n: int, seed: int) -> Network:
    random.seed(seed)
    np.random.seed(seed)
    ejk = target(1e-8)
    qks = JointExcessFromEjk.get_excess_joint_distributions(ejk)
    jdd = JointDegreeFromExcess.get_joint_degree_distribution(qks, EDGE_NAMES)
    jds = JointDegreeManual(
        {JointDegreeNames.JDD: jdd, JointDegreeNames.MOTIF_SIZES: MOTIF_SIZES}
    ).sample_jds_from_jdd(n)
    return GCMAlgorithmNetwork(
        {GCMAlgorithmNames.MOTIF_SIZES: MOTIF_SIZES,
         GCMAlgorithmNames.EDGE_NAMES: EDGE_NAMES,
         GCMAlgorithmNames.BUILD_FUNCTIONS: [clique_motif, clique_motif]}
    ).random_clustered_graph(jds)


def graph_digest(G: nx.Graph) -> str:
    nodes = [(u, repr(d)) for u, d in G.nodes(data=True)]
    edges = [(u, v, repr(d)) for u, v, d in G.edges(data=True)]
    adj = [(u, list(G[u])) for u in G]
    return h((type(G).__name__, nodes, edges, adj))


def mcmc_digest(m: MarkovChainMonteCarloRewiring) -> str:
    return h((
        [(p._topology, p._motif_id, p._new_edge) for p in m._proposal_edges],
        m._proposal_count, m._proposals_accepted, m._acceptance_ratio,
        MarkovChainMonteCarlo._proposal_count, MarkovChainMonteCarlo._proposals_accepted,
        MarkovChainMonteCarloRewiring._proposal_count,
        MarkovChainMonteCarloRewiring._proposals_accepted,
        m._convergence_limit, m._search_limit,
    ))


def attempt(label, fn):
    try:
        r = fn()
        out = ("ok", type(r).__name__, repr(r))
    except BaseException as e:
        out = ("exc", type(e).__name__, str(e))
    print(label, out[0], out[1], h(out[2]), out[2][:90].replace("\n", " "), rng_state())
    return out


def new_mcmc(net, ejk, **kw):
    params = {ToolsNames.NETWORK: net, ToolsNames.EJKS: ejk}
    if "search" in kw:
        params[ToolsNames.SEARCH_LIMIT] = kw["search"]
    if "conv" in kw:
        params[ToolsNames.CONVERGENCE_LIMIT] = kw["conv"]
    return MarkovChainMonteCarloRewiring(params)


def section_rewire():
    print("== rewire")
    for n, seed, eps, zero, conv, search in [
        (150, 1, 1e-8, False, 40, 20), (150, 2, 1e-2, False, 120, 20),
        (240, 3, 5e-2, False, 200, 5), (240, 4, 1e-2, True, 150, 20),
        (90, 5, 3e-2, False, None, None), (300, 6, 1e-3, True, 60, 1),
        (60, 7, 1e-1, False, 0, 20), (60, 8, 1e-1, False, -1, 20),
        (240, 9, 1e-2, "drop", 150, 20), (180, 10, 1e-3, "drop", 80, 3),
    ]:
        net = build(n, seed)
        before = graph_digest(net.G)
        kw = {}
        if conv is not None:
            kw["conv"] = conv
        if search is not None:
            kw["search"] = search
        m = new_mcmc(net, target(eps, zero), **kw)
        random.seed(1000 + seed)
        for rep in range(3):
            r = attempt(f"rewire n={n} seed={seed} rep={rep}", lambda: graph_digest(m.rewire()))
            print("   state", mcmc_digest(m), "input-unchanged", graph_digest(net.G) == before)
    # error paths of rewire / constructor
    attempt("ctor-missing-network", lambda: MarkovChainMonteCarloRewiring({ToolsNames.EJKS: target(1e-2)}))
    attempt("ctor-bad-network", lambda: MarkovChainMonteCarloRewiring({ToolsNames.NETWORK: object(), ToolsNames.EJKS: None}))
    empty = Network()
    m = new_mcmc(empty, target(1e-2))
    attempt("rewire-empty", lambda: graph_digest(m.rewire()))
    for cls in (nx.DiGraph, nx.MultiGraph, nx.MultiDiGraph):
        net = build(40, 11)
        other = Network()
        other.G = cls(net.G)
        random.seed(5)
        attempt(f"ctor+rewire-{cls.__name__}", lambda: graph_digest(new_mcmc(other, target(1e-2), conv=5).rewire()))
    # no attributes on the edges
    bare = Network()
    bare.add_edges_from([(0, 1), (1, 2), (2, 3)])
    random.seed(6)
    attempt("rewire-bare", lambda: graph_digest(new_mcmc(bare, target(1e-2), conv=3).rewire()))


def corners(m, G, e0, e1):
    u0, v0 = e0[0], e1[0]
    return u0, v0, m.get_all_edges(G, u0, e0), m.get_all_edges(G, v0, e1)


def section_units():
    print("== get_hashmap / is_edge_choice_suitable / swap_condition")
    net = build(200, 21)
    G = net.G
    for eps, zero in [(1e-2, False), (1e-2, True), (1e-8, False), (1e-2, "drop")]:
        m = new_mcmc(net, target(eps, zero))
        random.seed(77)
        edges = sorted(tuple(sorted(e)) for e in G.edges())
        acc = []
        for trial in range(1500):
            e0 = random.choice(edges)
            e1 = random.choice(edges)
            if trial % 3 == 0:
                e1 = (e1[1], e1[0])
            u0, v0, e0s, e1s = corners(m, G, e0, e1)
            hm0 = m.get_hashmap(G, e0s)
            hm1 = m.get_hashmap(G, e0s + e1s)
            acc.append((list(hm0.items()), list(hm1.items())))
            ok = m.is_edge_choice_suitable(G, u0, v0, e0s, e1s)
            acc.append(ok)
            snapshot = (list(e0s), list(e1s))
            try:
                if ok or trial % 5 == 0:
                    res = m.swap_condition(G, e0s, e1s, u0, v0)
                    acc.append(("swap", res, mcmc_digest(m)))
            except BaseException as e:
                acc.append(("exc", type(e).__name__, str(e)))
            acc.append(snapshot == (e0s, e1s))
        print("units", eps, zero, h(acc), sum(1 for a in acc if a is True), mcmc_digest(m), rng_state(), graph_digest(G))

    m = new_mcmc(net, target(1e-2))
    # get_hashmap edge cases
    attempt("hashmap-empty", lambda: m.get_hashmap(G, []))
    some = list(G.edges())[:12]
    attempt("hashmap-some", lambda: list(m.get_hashmap(G, some).items()))
    attempt("hashmap-dup", lambda: list(m.get_hashmap(G, some + some[::-1]).items()))
    attempt("hashmap-reversed-tuples", lambda: list(m.get_hashmap(G, [(v, u) for u, v in some]).items()))
    attempt("hashmap-missing-edge", lambda: m.get_hashmap(G, some[:3] + [(-1, -2)]))
    attempt("hashmap-bad-tuple", lambda: m.get_hashmap(G, [(1, 2, 3)]))
    attempt("hashmap-generator", lambda: list(m.get_hashmap(G, (e for e in some)).items()))
    H = nx.Graph()
    H.add_edge(0, 1, **{})
    attempt("hashmap-no-attr", lambda: m.get_hashmap(H, [(0, 1)]))
    H = nx.Graph()
    H.add_edge(0, 1)
    H.add_edge(1, 2)
    H.add_edge(2, 3)
    H.edges[0, 1][TOP] = "b"
    H.edges[1, 2][TOP] = ["unhashable"]
    H.edges[2, 3][TOP] = "a"
    attempt("hashmap-unhashable-topology", lambda: m.get_hashmap(H, [(0, 1), (1, 2), (2, 3)]))
    H.edges[1, 2][TOP] = 1
    H.edges[2, 3][TOP] = True
    H.add_edge(3, 4)
    H.edges[3, 4][TOP] = 1.0
    H.add_edge(4, 5)
    H.edges[4, 5][TOP] = None
    r = m.get_hashmap(H, [(2, 3), (0, 1), (1, 2), (4, 5), (3, 4), (1, 0)])
    print("hashmap-equal-keys", [(repr(k), v) for k, v in r.items()])
    # lists in the result are fresh and independent between calls
    r1 = m.get_hashmap(G, some)
    r2 = m.get_hashmap(G, some)
    k = next(iter(r1))
    r1[k].append("x")
    print("hashmap-fresh", r1[k] is r2[k], r2[k][-1] != "x", list(r1) == list(r2))

    # swap_condition error paths
    attempt("swap-empty", lambda: (m.swap_condition(G, [], [], 0, 1), mcmc_digest(m)))
    e0 = some[0]
    u0, v0, e0s, e1s = corners(m, G, e0, e0)
    attempt("swap-same", lambda: (m.swap_condition(G, e0s, e1s, u0, v0), mcmc_digest(m)))
    attempt("swap-short-right", lambda: (m.swap_condition(G, e0s + e0s, e1s, u0, v0), mcmc_digest(m)))
    attempt("swap-wrong-focal", lambda: (m.swap_condition(G, e0s, e1s, -5, v0), mcmc_digest(m)))
    attempt("suitable-wrong-focal", lambda: m.is_edge_choice_suitable(G, -5, v0, e0s, e1s))
    attempt("suitable-len", lambda: m.is_edge_choice_suitable(G, u0, v0, e0s, e1s + e1s))
    attempt("suitable-empty", lambda: m.is_edge_choice_suitable(G, u0, v0, [], []))
    # topology missing from the target's names
    bad = JointExcessJointDegreeMatrices({ToolsNames.EDGE_NAMES: ["3-clique"], ToolsNames.EJKS: {"3-clique": {}}})
    mb = new_mcmc(net, bad)
    for e in some[:6]:
        u0, v0, e0s, e1s = corners(mb, G, e, some[7])
        attempt(f"swap-unknown-topology {e}", lambda: (mb.swap_condition(G, e0s, e1s, u0, v0), mcmc_digest(mb)))
    attempt("ejks-none", lambda: new_mcmc(net, None).swap_condition(G, e0s, e1s, u0, v0))


def section_crafted():
    print("== crafted graphs")
    nan = float("nan")

    class Odd:
        __hash__ = None

        def __init__(self, v):
            self.v = v

        def __sub__(self, o):
            return Odd(self.v - o)

        def __repr__(self):
            return f"Odd({self.v})"

    jd_sets = {
        "ints": [(1, 0), (2, 0), (1, 0), (2, 0), (3, 0), (1, 0)],
        "same": [(1, 0)] * 6,
        "floats": [(1.0, 0), (2.0, 0), (1, 0.0), (2, 0), (True, 0), (1, False)],
        "nan": [(nan, 0), (2, 0), (nan, 0), (2, 0), (nan, nan), (1, 0)],
        "unhashable": [(1, 0), (Odd(2), 0), (1, 0), (2, 0), (1, 0), (1, 0)],
        "short": [(1,), (2,), (1,), (2,), (1,), (1,)],
        "lists": [[1, 0], [2, 0], [1, 0], [2, 0], [3, 0], [1, 0]],
    }
    ejk = JointExcessJointDegreeMatrices({
        ToolsNames.EDGE_NAMES: ["2-clique", "3-clique"],
        ToolsNames.EJKS: {"2-clique": {(0, 0, 0, 0): 0.2, (0, 0, 1, 0): 0.1, (1, 0, 0, 0): 0.1,
                                        (1, 0, 1, 0): 0.3, (0, 0, 2, 0): 0.1, (2, 0, 0, 0): 0.1,
                                        (1, 0, 2, 0): 0.05, (2, 0, 1, 0): 0.05},
                          "3-clique": {}},
    })
    for name, jds in jd_sets.items():
        net = Network()
        for i, jd in enumerate(jds):
            net.G.add_node(i)
            net.G.nodes[i][JD] = jd
        for mid, e in enumerate([(0, 1), (2, 3), (4, 5)]):
            net.G.add_edge(*e)
            net.G.edges[e][TOP] = "2-clique"
            net.G.edges[e][MID] = mid
        m = new_mcmc(net, ejk, conv=6, search=4)
        G = net.G
        random.seed(31)
        for e0, e1, u0, v0 in [((0, 1), (2, 3), 0, 2), ((0, 1), (2, 3), 1, 2), ((0, 1), (4, 5), 0, 5),
                               ((2, 3), (4, 5), 3, 4), ((0, 1), (0, 1), 0, 1), ((1, 0), (3, 2), 1, 3)]:
            attempt(f"crafted {name} {e0} {e1} {u0} {v0}",
                    lambda: (m.swap_condition(G, [e0], [e1], u0, v0), mcmc_digest(m)))
        if name in ("ints", "unhashable"):
            before = graph_digest(G)
            attempt(f"crafted {name} rewire", lambda: graph_digest(m.rewire()))
            print("   state", mcmc_digest(m), graph_digest(G) == before)


if __name__ == "__main__":
    section_units()
    section_crafted()
    section_rewire()
    print("final", rng_state())
