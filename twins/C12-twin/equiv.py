"""
Deterministic digest of the functions behind property C12 (MCMC rewiring).
Run with cwd = a checkout of gcmpy:  /venv/bin/python /tmp/wt3/C12.out/equiv.py
"""
import os
import sys
import random
import hashlib
import logging

sys.path.insert(0, os.getcwd())

import numpy as np
import networkx as nx

from gcmpy.joint_degree.joint_degree_loaders.joint_degree_manual import (
    JointDegreeManual,
)
from gcmpy.motif_generators.clique_motif import clique_motif
from gcmpy.gcm_algorithm.gcm_algorithm_network import GCMAlgorithmNetwork
from gcmpy.names.gcm_algorithm_names import GCMAlgorithmNames
from gcmpy.names.joint_degree_names import JointDegreeNames
from gcmpy.names.network_names import NetworkNames
from gcmpy.names.tools_names import ToolsNames
from gcmpy.tools.joint_excess_joint_degree_matrices import (
    JointExcessJointDegreeMatrices,
)
from gcmpy.tools.joint_excess_joint_degree_keys_view import (
    JointExcessJointDegreeKeysView,
)
from gcmpy.tools.markov_chain_monte_carlo import MarkovChainMonteCarlo
from gcmpy.tools.markov_chain_monte_carlo_rewiring import (
    MarkovChainMonteCarloRewiring,
    ErrorMarkovChainMonteCarloRewiring,
)
from gcmpy.tools.joint_excess_from_ejk import JointExcessFromEjk
from gcmpy.tools.joint_degree_from_excess import JointDegreeFromExcess
from gcmpy.tools.joint_excess_joint_degree import JointExcessJointDegree

EDGE_NAMES = ["2-clique", "3-clique"]
MOTIF_SIZES = [2, 3]


def digest(obj) -> str:
    return hashlib.sha256(repr(obj).encode()).hexdigest()[:16]


def seed(n: int) -> None:
    random.seed(n)
    np.random.seed(n)


def rng_state() -> str:
    return digest((random.getstate(), np.random.get_state()[1].tolist()))


def targets() -> dict:
    e = 1e-8
    tree_assorted = {
        (0, 3, 0, 3): 9 / 81 - 2 * e,
        (0, 3, 4, 1): e,
        (0, 3, 2, 2): e,
        (4, 1, 0, 3): e,
        (4, 1, 4, 1): 45 / 81 - 2 * e,
        (4, 1, 2, 2): e,
        (2, 2, 0, 3): e,
        (2, 2, 4, 1): e,
        (2, 2, 2, 2): 27 / 81 - 2 * e,
    }
    tri_assorted = {
        (3, 1, 3, 1): 48 / 144 - 2 * e,
        (3, 1, 1, 2): e,
        (3, 1, 5, 0): e,
        (1, 2, 3, 1): e,
        (1, 2, 1, 2): 72 / 144 - 2 * e,
        (1, 2, 5, 0): e,
        (5, 0, 3, 1): e,
        (5, 0, 1, 2): e,
        (5, 0, 5, 0): 24 / 144 - 2 * e,
    }
    tree_neutral = {
        (0, 3, 0, 3): 1 / 81,
        (0, 3, 4, 1): 5 / 81,
        (0, 3, 2, 2): 3 / 81,
        (4, 1, 0, 3): 5 / 81,
        (4, 1, 4, 1): 25 / 81,
        (4, 1, 2, 2): 15 / 81,
        (2, 2, 0, 3): 3 / 81,
        (2, 2, 4, 1): 15 / 81,
        (2, 2, 2, 2): 9 / 81,
    }
    tri_neutral = {
        (3, 1, 3, 1): 16 / 144,
        (3, 1, 1, 2): 24 / 144,
        (3, 1, 5, 0): 8 / 144,
        (1, 2, 3, 1): 24 / 144,
        (1, 2, 1, 2): 36 / 144,
        (1, 2, 5, 0): 12 / 144,
        (5, 0, 3, 1): 8 / 144,
        (5, 0, 1, 2): 12 / 144,
        (5, 0, 5, 0): 4 / 144,
    }
    # partial support: some pairings absent, some present with zero weight
    tree_partial = dict(tree_neutral)
    del tree_partial[(0, 3, 4, 1)]
    del tree_partial[(4, 1, 0, 3)]
    tree_partial[(2, 2, 4, 1)] = 0.0
    tree_partial[(4, 1, 2, 2)] = 0.0
    tri_partial = dict(tri_neutral)
    del tri_partial[(3, 1, 5, 0)]
    del tri_partial[(5, 0, 3, 1)]
    tri_partial[(1, 2, 3, 1)] = 0.0
    tri_partial[(3, 1, 1, 2)] = 0.0
    # absent only: some pairings missing from the target, none with zero weight
    tree_absent = dict(tree_neutral)
    del tree_absent[(0, 3, 4, 1)]
    del tree_absent[(4, 1, 0, 3)]
    tri_absent = dict(tri_neutral)
    del tri_absent[(3, 1, 5, 0)]
    del tri_absent[(5, 0, 3, 1)]
    return {
        "absent": {"2-clique": tree_absent, "3-clique": tri_absent},
        "assorted": {"2-clique": tree_assorted, "3-clique": tri_assorted},
        "neutral": {"2-clique": tree_neutral, "3-clique": tri_neutral},
        "partial": {"2-clique": tree_partial, "3-clique": tri_partial},
    }


def make_matrices(ejks: dict) -> JointExcessJointDegreeMatrices:
    return JointExcessJointDegreeMatrices(
        {ToolsNames.EDGE_NAMES: list(EDGE_NAMES), ToolsNames.EJKS: ejks}
    )


def make_network(n: int):
    neutral = make_matrices(targets()["neutral"])
    qks = JointExcessFromEjk.get_excess_joint_distributions(neutral)
    jdd = JointDegreeFromExcess.get_joint_degree_distribution(qks, EDGE_NAMES)
    obj = JointDegreeManual(
        {JointDegreeNames.JDD: jdd, JointDegreeNames.MOTIF_SIZES: MOTIF_SIZES}
    )
    jds = obj.sample_jds_from_jdd(n)
    g = GCMAlgorithmNetwork(
        {
            GCMAlgorithmNames.MOTIF_SIZES: MOTIF_SIZES,
            GCMAlgorithmNames.EDGE_NAMES: EDGE_NAMES,
            GCMAlgorithmNames.BUILD_FUNCTIONS: [clique_motif, clique_motif],
        }
    ).random_clustered_graph(jds)
    return g


def graph_digest(G: nx.Graph) -> str:
    nodes = [(u, repr(sorted(d.items(), key=repr))) for u, d in G.nodes(data=True)]
    edges = [
        (u, v, d.get(NetworkNames.TOPOLOGY), repr(d.get(NetworkNames.MOTIF_IDS)))
        for u, v, d in G.edges(data=True)
    ]
    # keep iteration order in the digest as well as content
    return digest((nodes, edges))


def reset_counters() -> None:
    MarkovChainMonteCarlo._proposal_count = 0
    MarkovChainMonteCarlo._proposals_accepted = 0


def keys_view_section() -> None:
    print("== keys view")
    for keys in (
        [(0, 3), (4, 1), (2, 2), (1, 5)],
        [(1,), (2,), (3,), (4,)],
        [(), (7, 7, 7), (1, 2, 3), (9,)],
        [[1, 2], [3], [4, 5], [6]],
        ["ab", "cd", "ef", "gh"],
    ):
        kv = JointExcessJointDegreeKeysView(keys)
        print(
            kv.get_u0u1(),
            kv.get_u1u0(),
            kv.get_v0v1(),
            kv.get_v1v0(),
            kv.get_u0v1(),
            kv.get_v0u1(),
            kv._keys,
        )
    for keys in ([(1, 2), (3, 4)], [(1,), [2], (3,), (4,)], []):
        kv = JointExcessJointDegreeKeysView(keys)
        for name in ("get_u0u1", "get_u1u0", "get_v0v1", "get_v1v0", "get_u0v1", "get_v0u1"):
            try:
                print(name, getattr(kv, name)())
            except Exception as exc:
                print(name, type(exc).__name__, exc)


def matrices_section() -> None:
    print("== matrices")
    for name, ejks in targets().items():
        m = make_matrices(ejks)
        print(name, m.excess_degree_keys, m.topology_names)
        print(name, [m.get_topology_index(t) for t in EDGE_NAMES])
        try:
            m.get_topology_index("4-clique")
        except BaseException as exc:
            print(name, type(exc).__name__)
    m = JointExcessJointDegreeMatrices()
    print(m.ejks, m.excess_degree_keys, m.topology_names)
    m.ejks = {
        "a": {(1, 2, 3): 0.5, (1, 2, 3, 4, 5, 6): 0.5, (): 0.0, (9,): 1},
        "b": {},
        "c": {(8, 7, 6, 5): 1.0, (3, 2, 1, 0): 2},
    }
    m.get_excess_degree_keys()
    print(m.excess_degree_keys)
    try:
        m.get_topology_index("a")
    except BaseException as exc:
        print(type(exc).__name__)


def helper_section(g, mcmc: MarkovChainMonteCarloRewiring) -> list:
    print("== helpers")
    G = g.G
    edges = list(G.edges())
    rows = []
    for e in edges[:400]:
        u0 = e[0]
        es = mcmc.get_all_edges(G, u0, e)
        es_r = mcmc.get_all_edges(G, e[1], e)
        hm = mcmc.get_hashmap(G, es)
        idx = mcmc._ejks.get_topology_index(G.edges[e][NetworkNames.TOPOLOGY])
        before = [tuple(G.nodes[u][NetworkNames.JOINT_DEGREE]) for u in e]
        key = mcmc.get_joint_excess_degree_key(G, e, idx)
        key_r = mcmc.get_joint_excess_degree_key(G, (e[1], e[0]), idx)
        after = [tuple(G.nodes[u][NetworkNames.JOINT_DEGREE]) for u in e]
        rows.append((e, es, es_r, list(hm.items()), key, key_r, before == after))
    print(digest(rows), len(rows))
    print(rows[:3])
    print(mcmc.get_hashmap(G, []), mcmc.get_other_vertex(3, (3, 4)), mcmc.get_other_vertex(3, (4, 3)))
    for bad in ((1, 2), (), (5,)):
        try:
            mcmc.get_other_vertex(3, bad)
        except Exception as exc:
            print(type(exc).__name__, digest(str(exc)))
    # error paths of the excess key helpers
    e = edges[0]
    for call in (
        lambda: mcmc.get_joint_excess_degree_key(G, e, 7),
        lambda: mcmc.get_joint_excess_degree_key(G, (e[0], -5), 0),
        lambda: mcmc.get_joint_excess_degree_key(G, (e[0],), 0),
        lambda: mcmc.get_joint_excess_degree_key(G, (e[0], e[1], e[0]), 1),
        lambda: mcmc.get_swapped_joint_excess_degree_key(G, e, edges[1], e[0], -1, 0),
        lambda: mcmc.get_swapped_joint_excess_degree_key(
            G, e, edges[1], e[0], edges[1][0], 9
        ),
        lambda: mcmc.get_all_edges(G, e[0], (e[0], -3)),
    ):
        try:
            print("ok", call())
        except Exception as exc:
            print(type(exc).__name__, exc)
    return edges


def swap_section(g, mcmc: MarkovChainMonteCarloRewiring, label: str, n_seed: int) -> None:
    print("== swap_condition", label)
    G = g.G
    edges = sorted(tuple(sorted(e)) for e in G.edges())
    seed(n_seed)
    reset_counters()
    picker = random.Random(1000 + n_seed)
    rows = []
    outcomes = {}
    tries = 0
    while len(rows) < 1500 and tries < 200000:
        tries += 1
        e0 = picker.choice(edges)
        e1 = picker.choice(edges)
        if picker.random() < 0.5:
            e0 = (e0[1], e0[0])
        if picker.random() < 0.5:
            e1 = (e1[1], e1[0])
        if G.edges[e0][NetworkNames.TOPOLOGY] != G.edges[e1][NetworkNames.TOPOLOGY]:
            continue
        u0, v0 = e0[0], e1[0]
        e0s = mcmc.get_all_edges(G, u0, e0)
        e1s = mcmc.get_all_edges(G, v0, e1)
        suitable = mcmc.is_edge_choice_suitable(G, u0, v0, e0s, e1s)
        if not suitable:
            outcomes["unsuitable"] = outcomes.get("unsuitable", 0) + 1
            continue
        e1s_copy = list(e1s)
        try:
            res = mcmc.swap_condition(G, e0s, e1s, u0, v0)
            out = (type(res).__name__, bool(res))
        except Exception as exc:
            out = (type(exc).__name__, str(exc))
        outcomes[out] = outcomes.get(out, 0) + 1
        kv = mcmc.get_swapped_joint_excess_degree_key(
            G, e0s[0], e1s[0], u0, v0,
            mcmc._ejks.get_topology_index(G.edges[e0][NetworkNames.TOPOLOGY]),
        )
        rows.append(
            (
                e0,
                e1,
                out,
                e1s == e1s_copy,
                [(p._topology, repr(p._motif_id), p._new_edge) for p in mcmc._proposal_edges],
                kv._keys,
                digest(random.getstate()),
            )
        )
    print(digest(rows), len(rows), sorted(outcomes.items(), key=repr))
    print(
        MarkovChainMonteCarlo._proposal_count,
        MarkovChainMonteCarlo._proposals_accepted,
        rng_state(),
    )


def mixing_distance(G: nx.Graph, target: dict) -> float:
    C = JointExcessJointDegree(
        {ToolsNames.NETWORK: G, ToolsNames.EDGE_NAMES: EDGE_NAMES}
    )
    got = C.get_ejks().ejks
    total = 0.0
    for t in EDGE_NAMES:
        for k in sorted(set(target[t]) | set(got[t])):
            total += abs(target[t].get(k, 0.0) - got[t].get(k, 0.0))
    return total


def rewire_section(g, label: str, ejks: dict, n_seed: int, limit: int) -> None:
    print("== rewire", label, n_seed, limit)
    seed(n_seed)
    reset_counters()
    before_digest = graph_digest(g.G)
    mcmc = MarkovChainMonteCarloRewiring(
        {
            ToolsNames.NETWORK: g,
            ToolsNames.EJKS: make_matrices(ejks),
            ToolsNames.SEARCH_LIMIT: 20,
            ToolsNames.CONVERGENCE_LIMIT: limit,
        }
    )
    try:
        G = mcmc.rewire()
    except Exception as exc:
        print("raised", type(exc).__name__, exc, rng_state())
        return
    print("input untouched", before_digest == graph_digest(g.G))
    print("graph", graph_digest(G), G.number_of_nodes(), G.number_of_edges())
    print(
        "counters",
        MarkovChainMonteCarlo._proposal_count,
        MarkovChainMonteCarlo._proposals_accepted,
        digest(mcmc._acceptance_ratio),
        len(mcmc._acceptance_ratio),
    )
    print(
        "last proposals",
        [(p._topology, repr(p._motif_id), p._new_edge) for p in mcmc._proposal_edges],
    )
    print("distance", repr(mixing_distance(g.G, ejks)), repr(mixing_distance(G, ejks)))
    # pairings created by the rewiring, with their target weight
    created = []
    for u, v, d in G.edges(data=True):
        if g.G.has_edge(u, v):
            continue
        t = d[NetworkNames.TOPOLOGY]
        idx = EDGE_NAMES.index(t)
        key = mcmc.get_joint_excess_degree_key(G, (u, v), idx)
        created.append((u, v, t, key, ejks[t].get(key)))
    print("created", len(created), digest(created))
    print("created not allowed", [c for c in created if not c[4]][:10])
    print("rng", rng_state())


def main() -> None:
    logging.disable(logging.CRITICAL)
    keys_view_section()
    matrices_section()

    seed(12345)
    g = make_network(900)
    print("== network", graph_digest(g.G), g.G.number_of_nodes(), g.G.number_of_edges())

    all_targets = targets()
    mcmc = MarkovChainMonteCarloRewiring(
        {ToolsNames.NETWORK: g, ToolsNames.EJKS: make_matrices(all_targets["assorted"])}
    )
    print("default limits", mcmc.convergence_limit, mcmc.search_limit)
    helper_section(g, mcmc)

    for n_seed, (label, ejks) in enumerate(sorted(all_targets.items())):
        mcmc = MarkovChainMonteCarloRewiring(
            {ToolsNames.NETWORK: g, ToolsNames.EJKS: make_matrices(ejks)}
        )
        swap_section(g, mcmc, label, 7 + n_seed)

    rewire_section(g, "assorted", all_targets["assorted"], 1, 400)
    rewire_section(g, "assorted", all_targets["assorted"], 2, 1500)
    rewire_section(g, "neutral", all_targets["neutral"], 3, 300)
    rewire_section(g, "partial", all_targets["partial"], 4, 300)
    rewire_section(g, "absent", all_targets["absent"], 5, 300)

    # constructor error path
    try:
        MarkovChainMonteCarloRewiring({})
    except ErrorMarkovChainMonteCarloRewiring as exc:
        print("ctor", digest(str(exc)))
    print("final rng", rng_state())


if __name__ == "__main__":
    main()
