"""Equivalence digest for the C01 optimisation (run with cwd = a gcmpy checkout)."""
import copy
import hashlib
import os
import random
import sys

sys.path.insert(0, os.getcwd())

import numpy as np  # noqa: E402

from gcmpy.gcm_algorithm.gcm_algorithm_custom_motifs import (  # noqa: E402
    GCMAlgorithmCustomMotifs,
)
from gcmpy.gcm_algorithm.gcm_algorithm_factory import GCMAlgorithmFactory  # noqa: E402
from gcmpy.gcm_algorithm.gcm_algorithm_fast import GCMAlgorithmFast  # noqa: E402
from gcmpy.gcm_algorithm.gcm_algorithm_main import GCMAlgorithmMain  # noqa: E402
from gcmpy.gcm_algorithm.gcm_algorithm_network import GCMAlgorithmNetwork  # noqa: E402
from gcmpy.gcm_algorithm.gcm_algorithm_types import GCMAlgorithmTypes  # noqa: E402
from gcmpy.motif_generators.clique_motif import clique_motif  # noqa: E402
from gcmpy.motif_generators.cycle_motif import cycle_motif  # noqa: E402
from gcmpy.motif_generators.diamond_motif import diamond_motif  # noqa: E402
from gcmpy.names.gcm_algorithm_names import GCMAlgorithmNames as N  # noqa: E402


def h(obj) -> str:
    return hashlib.sha256(repr(obj).encode()).hexdigest()[:16]


def rng_digest() -> str:
    return h(random.getstate()) + "/" + h(np.random.get_state()[1].tolist())


def typed(x):
    """repr that also records container / scalar types."""
    if isinstance(x, (list, tuple)):
        return (type(x).__name__, [typed(i) for i in x])
    return (type(x).__name__, repr(x))


def show(label, value):
    r = repr(value)
    if len(r) > 400:
        r = r[:200] + "...#" + h(value) + " len=" + str(len(r))
    print(f"{label}: {r}")


def attempt(label, fn):
    try:
        out = fn()
        show(label, out)
        return out
    except BaseException as e:  # noqa: BLE001
        print(f"{label}: EXC {type(e).__name__}: {e}")
        return None


def el_digest(el):
    return {
        "edges": typed(el.edge_list),
        "topologies": typed(el.topologies),
        "motif_id": typed(el.motif_id),
        "jds": typed(el.joint_degrees),
    }


def net_digest(net):
    G = net.G
    return {
        "nodes": [(n, sorted((str(k), repr(v)) for k, v in d.items())) for n, d in G.nodes(data=True)],
        "edges": [
            (u, v, sorted((str(k), repr(w)) for k, w in d.items()))
            for u, v, d in G.edges(data=True)
        ],
        "type": type(G).__name__,
    }


# ---------------------------------------------------------------- motif builders
print("== motif generators")


class Seq:
    """minimal sequence (no __iter__): iteration through __getitem__."""

    def __init__(self, data):
        self.data = list(data)
        self.log = []

    def __getitem__(self, i):
        self.log.append(i)
        return self.data[i]

    def __len__(self):
        return len(self.data)


motif_inputs = [
    [],
    [7],
    [1, 2],
    [1, 2, 3],
    [4, 3, 2, 1],
    [1, 1, 1, 1],
    [5, 6, 7, 8, 9],
    list(range(12)),
    (3, 1, 2),
    (9, 8, 7, 6),
    range(4),
    range(6),
    "abcd",
    "xy",
    np.array([3, 1, 4, 1]),
    np.array([2, 7, 1]),
    [1.5, 2.5, -0.0, 1e-320],
    None,
    5,
    {0: "a", 1: "b", 2: "c", -1: "d"},
    {1, 2, 3, 4},
]
for fn in (clique_motif, cycle_motif, diamond_motif):
    for i, inp in enumerate(motif_inputs):
        before = copy.deepcopy(inp)
        out = attempt(f"{fn.__name__}[{i}]", lambda: typed(fn(inp)))
        print(f"   input-unchanged: {repr(before) == repr(inp)}")
    # repeated calls on the same list give fresh, independent lists
    v = [1, 2, 3, 4]
    a = fn(v)
    b = fn(v)
    print(f"{fn.__name__} fresh: {a == b} {a is not b} {v}")
    s = Seq([4, 5, 6, 7])
    attempt(f"{fn.__name__} Seq", lambda: typed(fn(s)))
    print(f"   Seq log: {s.log}")
    g = iter([1, 2, 3, 4])
    attempt(f"{fn.__name__} iterator", lambda: typed(fn(g)))
    print(f"   iterator rest: {list(g)}")

# ---------------------------------------------------------------- helpers
calls = []


def logging_builder(name, inner):
    def build(vertices):
        calls.append((name, type(vertices).__name__, list(vertices)))
        return inner(vertices)

    return build


def fast_params(sizes, builds, names):
    return {N.MOTIF_SIZES: sizes, N.BUILD_FUNCTIONS: builds, N.EDGE_NAMES: names}


def make_jds(seed, n, sizes, maxdeg=4):
    """handshake-satisfying joint degree sequence."""
    r = random.Random(seed)
    cols = []
    for s in sizes:
        col = [r.randrange(0, maxdeg) for _ in range(n)]
        while sum(col) % s:
            col[r.randrange(n)] += 1
        cols.append(col)
    return [tuple(c[i] for c in cols) for i in range(n)]


def run_generator(label, alg, jds, digest):
    snap = copy.deepcopy(jds)
    ids_before = [id(x) for x in jds] if isinstance(jds, list) else None
    del calls[:]
    out = None
    try:
        out = alg.random_clustered_graph(jds)
        show(label, h(digest(out)))
        show(label + " full", digest(out))
        if hasattr(out, "joint_degrees"):
            print(f"   jds carried by identity: {out.joint_degrees is jds}")
    except BaseException as e:  # noqa: BLE001
        print(f"{label}: EXC {type(e).__name__}: {e}")
    print(f"   jds unchanged: {repr(snap) == repr(jds)}"
          f" ids: {ids_before == ([id(x) for x in jds] if isinstance(jds, list) else None)}")
    print(f"   calls: {len(calls)} {h(calls)}")
    print(f"   rng: {rng_digest()}")
    return out


# ---------------------------------------------------------------- fast / network
print("== fast + network")

configs = {
    "tri": ([3], [clique_motif], ["3-clique"]),
    "edge_tri": ([2, 3], [clique_motif, clique_motif], ["2-clique", "3-clique"]),
    "mixed": (
        [2, 3, 4, 4],
        [clique_motif, cycle_motif, diamond_motif, cycle_motif],
        ["2-clique", "3-cycle", "diamond", "4-cycle"],
    ),
    "logged": (
        [2, 5],
        [logging_builder("a", clique_motif), logging_builder("b", cycle_motif)],
        ["e", ("tuple", "name")],
    ),
    "np_sizes": (
        np.array([2, 3]),
        (clique_motif, cycle_motif),
        np.array(["x", "y"]),
    ),
}

jds_cases = {
    "tri": [
        [],
        [(0,), (0,), (0,)],
        [(1,), (1,), (1,)],
        [(2,), (1,), (1,), (1,), (1,)],
        make_jds(1, 30, [3]),
        make_jds(2, 200, [3], 6),
        [(1,), (1,)],  # handshake violated: short last group
    ],
    "edge_tri": [
        [],
        [(0, 0)] * 4,
        [(1, 0), (1, 0)],
        [(0, 1), (0, 1), (0, 1)],
        make_jds(3, 25, [2, 3]),
        make_jds(4, 150, [2, 3], 5),
        [[1, 1], [1, 1], [0, 1]],
        np.array(make_jds(5, 20, [2, 3])),
        [(1, 1), (0, 1)],  # handshake violated
    ],
    "mixed": [
        [],
        [(0, 0, 0, 0)] * 5,
        make_jds(6, 40, [2, 3, 4, 4]),
        make_jds(7, 120, [2, 3, 4, 4], 3),
        [(1, 0, 1, 0), (1, 0, 1, 0), (0, 0, 1, 0)],  # diamond gets 3 vertices
    ],
    "logged": [
        [],
        [(0, 0)] * 3,
        make_jds(8, 30, [2, 5]),
        make_jds(9, 30, [2, 5]),
    ],
    "np_sizes": [make_jds(10, 30, [2, 3])],
}

random.seed(12345)
np.random.seed(54321)
for cname, (sizes, builds, names) in configs.items():
    for cls in (GCMAlgorithmFast, GCMAlgorithmNetwork):
        alg = cls(fast_params(sizes, builds, names))
        dg = el_digest if cls is GCMAlgorithmFast else net_digest
        for i, jds in enumerate(jds_cases[cname]):
            run_generator(f"{cls.__name__}/{cname}/{i}", alg, jds, dg)
            # repeated call on the same object and the same jds
            run_generator(f"{cls.__name__}/{cname}/{i}/again", alg, jds, dg)
        print(f"   cfg untouched: {alg._motif_sizes is sizes} {alg._build_functions is builds} {alg._edge_names is names}")

print("== fast: misconfigured inputs")
random.seed(777)
bad = {
    "too_few_builders_empty_col": ([2, 3], [clique_motif], ["a", "b"], [(1, 0), (1, 0)]),
    "too_few_builders": ([2, 3], [logging_builder("a", clique_motif)], ["a", "b"], make_jds(11, 12, [2, 3])),
    "too_few_names": ([2, 3], [logging_builder("a", clique_motif)] * 2, ["a"], make_jds(12, 12, [2, 3])),
    "too_few_names_empty_col": ([2, 3], [clique_motif] * 2, ["a"], [(1, 0), (1, 0)]),
    "too_few_sizes": ([2], [clique_motif] * 2, ["a", "b"], make_jds(13, 12, [2, 3])),
    "too_few_sizes_empty_col": ([2], [clique_motif] * 2, ["a", "b"], [(1, 0), (1, 0)]),
    "zero_size": ([2, 0], [clique_motif] * 2, ["a", "b"], make_jds(14, 12, [2, 3])),
    "zero_size_empty_col": ([2, 0], [clique_motif] * 2, ["a", "b"], [(1, 0), (1, 0)]),
    "neg_size": ([-1], [clique_motif], ["a"], [(1,), (1,)]),
    "float_size": ([2.0], [clique_motif], ["a"], [(1,), (1,)]),
    "builder_none": ([2], [logging_builder("n", lambda v: None)], ["a"], [(1,), (1,)]),
    "builder_none_no_names": ([2], [logging_builder("n", lambda v: None)], [], [(1,), (1,)]),
    "builder_gen": ([2], [logging_builder("g", lambda v: (x for x in [(v[0], v[1])]))], ["a"], [(1,), (1,)]),
    "builder_gen_no_names": ([2], [logging_builder("g", lambda v: (x for x in [(v[0], v[1])]))], [], [(1,), (1,)]),
    "builder_raises": ([2], [logging_builder("r", lambda v: 1 / 0)], ["a"], make_jds(15, 10, [2])),
    "builder_not_callable": ([2], [None], ["a"], [(1,), (1,)]),
    "builder_empty": ([2], [logging_builder("e", lambda v: [])], ["a"], make_jds(16, 10, [2])),
    "builder_dict": ([2], [logging_builder("d", lambda v: {(v[0], v[1]): 1})], ["a"], make_jds(17, 10, [2])),
    "builder_tuple": ([2], [logging_builder("t", lambda v: (v[0], v[1]))], ["a"], make_jds(18, 10, [2])),
    "jds_float": ([2], [clique_motif], ["a"], [(1.0,), (1.0,)]),
    "jds_negative": ([2], [clique_motif], ["a"], [(-1,), (2,)]),
    "jds_ragged": ([2, 3], [clique_motif] * 2, ["a", "b"], [(1, 1), (1,), (0, 2)]),
    "jds_not_iterable": ([2], [clique_motif], ["a"], 5),
    "jds_second_col_bad": ([2, 3], [clique_motif] * 2, ["a", "b"], [(1, "x"), (1, 1), (0, 1)]),
}
for name, (sizes, builds, names, jds) in bad.items():
    for cls in (GCMAlgorithmFast, GCMAlgorithmNetwork):
        alg = cls(fast_params(sizes, builds, names))
        dg = el_digest if cls is GCMAlgorithmFast else net_digest
        run_generator(f"{cls.__name__}/bad/{name}", alg, jds, dg)

# ---------------------------------------------------------------- custom motifs
print("== custom motifs")


def two_clique_unpacked(v):
    return (v[0], v[1])


def two_clique_list_pair(v):
    return [v[0], v[1]]


def tadpole(v):
    # v = [head, tail_a, tail_b, tail_c]
    return [(v[0], v[1]), (v[1], v[2]), (v[2], v[3]), (v[1], v[3])]


def names_fn(*names):
    def f():
        calls.append(("names", names))
        return list(names)

    return f


def motif_params(sizes, builds, names, indices):
    p = fast_params(sizes, builds, names)
    p[N.MOTIF_INDICES] = indices
    p[N.GCM_TYPE] = "motifs"
    return p


def make_orbit_jds(seed, n, nmotifs):
    """columns: 0 2-clique, 1 triangle, 2/3 diamond orbits (2+2), 4/5 tadpole orbits (1+3)"""
    r = random.Random(seed)
    cols = [[0] * n for _ in range(6)]
    sizes = [2, 3, 2, 2, 1, 3]
    for c, s in enumerate(sizes):
        m = nmotifs[{0: 0, 1: 1, 2: 2, 3: 2, 4: 3, 5: 3}[c]]
        for _ in range(m * s):
            cols[c][r.randrange(n)] += 1
    return [tuple(col[i] for col in cols) for i in range(n)]


custom_cfgs = {
    "full": motif_params(
        [2, 3, 2, 2, 1, 3],
        [
            logging_builder("c2", two_clique_unpacked),
            logging_builder("c3", clique_motif),
            logging_builder("dia", diamond_motif),
            logging_builder("tad", tadpole),
        ],
        [
            names_fn("2-clique"),
            names_fn("t", "t", "t"),
            names_fn("d1", "d2", "d3", "d4", "d5", "d6"),
            names_fn("p1", "p2", "p3", "p4"),
        ],
        [[0], [1], [2, 3], [4, 5]],
    ),
    "listpair": motif_params(
        [2, 3, 2, 2, 1, 3],
        [two_clique_list_pair, cycle_motif, diamond_motif, tadpole],
        [lambda: "2c", lambda: ("a", "b", "c"), lambda: "dddddd", lambda: iter("wxyz")],
        [[0], [1], [3, 2], [5, 4]],
    ),
    "cliquelist": motif_params(
        [2, 3, 2, 2, 1, 3],
        [clique_motif, clique_motif, clique_motif, clique_motif],
        [names_fn("e"), names_fn("t") , names_fn(*"abcdef"), names_fn(*"uvwxyz")],
        [[0], [1], [2, 3], [4, 5]],
    ),
    "shared_orbit": motif_params(
        [2, 2],
        [logging_builder("c4", cycle_motif)],
        [names_fn("q1", "q2", "q3", "q4")],
        [[0, 0]],
    ),
    "no_motifs": motif_params([2], [], [], []),
}

custom_jds = {
    "full": [
        [],
        [(0, 0, 0, 0, 0, 0)] * 4,
        make_orbit_jds(20, 15, [3, 2, 1, 2]),
        make_orbit_jds(21, 60, [10, 7, 5, 6]),
        make_orbit_jds(22, 8, [1, 0, 0, 0]),
        make_orbit_jds(23, 8, [0, 0, 0, 1]),
    ],
    "listpair": [make_orbit_jds(24, 20, [4, 3, 2, 2]), []],
    "cliquelist": [make_orbit_jds(25, 20, [4, 3, 2, 2])],
    "shared_orbit": [[(1, 0), (1, 0), (1, 0), (1, 0)], [(2, 0), (2, 0), (2, 0), (2, 0)], []],
    "no_motifs": [[(1,), (1,)], []],
}

random.seed(2024)
for cname, params in custom_cfgs.items():
    snap_keys = list(params)
    for how in ("direct", "factory", "main"):
        if how == "direct":
            alg = GCMAlgorithmCustomMotifs(params)
        elif how == "factory":
            alg = GCMAlgorithmFactory.resolve_algorithm(GCMAlgorithmTypes.MOTIFS, params)
        else:
            alg = GCMAlgorithmMain.load_gcm_algorithm(params)
        print(f"{cname}/{how}: {type(alg).__name__}")
        for i, jds in enumerate(custom_jds[cname]):
            run_generator(f"custom/{cname}/{how}/{i}", alg, jds, el_digest)
            run_generator(f"custom/{cname}/{how}/{i}/again", alg, jds, el_digest)
    print(f"   params keys unchanged: {snap_keys == list(params)}")

print("== custom motifs: partition")
alg = GCMAlgorithmCustomMotifs(custom_cfgs["full"])
for lst, n in [([], 1), ([1], 1), ([1, 2, 3, 4], 2), ([1, 2, 3, 4, 5], 2), (list(range(9)), 4), ([1, 2], 5), ((1, 2, 3), 2), ("abcde", 2)]:
    keep = copy.deepcopy(lst)
    attempt(f"partition({lst!r},{n})", lambda: typed(alg.partition(lst, n)))
    print(f"   input unchanged: {keep == lst}")
for lst, n in [([1, 2], 0), ([1, 2], -1), ([1, 2], 1.0), (5, 1)]:
    attempt(f"partition({lst!r},{n})", lambda: alg.partition(lst, n))

print("== custom motifs: misconfigured inputs")
random.seed(31337)
base_sizes = [2, 3]
bad_custom = {
    "orbit_mismatch": motif_params([2, 2], [logging_builder("d", diamond_motif)], [names_fn(*"abcdef")], [[0, 1]]),
    "few_builders": motif_params(base_sizes, [logging_builder("c", clique_motif)], [names_fn("e"), names_fn(*"ttt")], [[0], [1]]),
    "few_names": motif_params(base_sizes, [logging_builder("c", clique_motif)] * 2, [names_fn("e")], [[0], [1]]),
    "few_sizes": motif_params([2], [clique_motif] * 2, [names_fn("e"), names_fn(*"ttt")], [[0], [1]]),
    "zero_size": motif_params([2, 0], [clique_motif] * 2, [names_fn("e"), names_fn(*"ttt")], [[0], [1]]),
    "bad_index": motif_params(base_sizes, [clique_motif] * 2, [names_fn("e"), names_fn(*"ttt")], [[0], [7]]),
    "neg_index": motif_params(base_sizes, [logging_builder("c", clique_motif)] * 2, [names_fn("e"), names_fn(*"ttt")], [[0], [-1]]),
    "empty_index": motif_params(base_sizes, [clique_motif] * 2, [names_fn("e"), names_fn(*"ttt")], [[0], []]),
    "names_not_callable": motif_params(base_sizes, [logging_builder("c", clique_motif)] * 2, ["e", "t"], [[0], [1]]),
    "names_raise": motif_params(base_sizes, [logging_builder("c", two_clique_unpacked), clique_motif], [lambda: 1 / 0, names_fn(*"ttt")], [[0], [1]]),
    "names_none": motif_params(base_sizes, [logging_builder("c", clique_motif)] * 2, [lambda: None, lambda: None], [[0], [1]]),
    "builder_none": motif_params(base_sizes, [logging_builder("n", lambda v: None)] * 2, [names_fn("e"), names_fn(*"ttt")], [[0], [1]]),
    "builder_empty": motif_params(base_sizes, [logging_builder("n", lambda v: [])] * 2, [names_fn("e"), names_fn(*"ttt")], [[0], [1]]),
    "builder_gen": motif_params(base_sizes, [logging_builder("n", lambda v: (x for x in v))] * 2, [names_fn("e"), names_fn(*"ttt")], [[0], [1]]),
    "builder_two_pairs": motif_params(base_sizes, [clique_motif, logging_builder("p", lambda v: [(v[0], v[1]), (v[1], v[2])])], [names_fn("e"), names_fn("t", "t")], [[0], [1]]),
    "builder_two_scalars_np": motif_params(base_sizes, [logging_builder("p", lambda v: np.array(v)), clique_motif], [names_fn("e"), names_fn(*"ttt")], [[0], [1]]),
    "builder_str": motif_params(base_sizes, [logging_builder("p", lambda v: "ab"), clique_motif], [names_fn("e"), names_fn(*"ttt")], [[0], [1]]),
}
for name, params in bad_custom.items():
    try:
        alg = GCMAlgorithmCustomMotifs(params)
    except BaseException as e:  # noqa: BLE001
        print(f"custom/bad/{name}: ctor EXC {type(e).__name__}: {e}")
        continue
    for jds in (make_jds(40, 12, [2, 3]), [(1, 0), (1, 0)], [(1, 1), (1, 0)]):
        run_generator(f"custom/bad/{name}", alg, jds, el_digest)

# ---------------------------------------------------------------- factory / main
print("== factory + main")
random.seed(99)
for t in ("fast", "network", "motifs", "bogus", None):
    p = motif_params([2, 3], [clique_motif, clique_motif], [names_fn("e"), names_fn(*"ttt")], [[0], [1]])
    p[N.GCM_TYPE] = t
    alg = attempt(f"main[{t}]", lambda: type(GCMAlgorithmMain.load_gcm_algorithm(p)).__name__)
for t in list(GCMAlgorithmTypes) + ["fast", None]:
    p = fast_params([2, 3], [clique_motif, clique_motif], ["a", "b"])
    attempt(f"factory[{t}]", lambda: type(GCMAlgorithmFactory.resolve_algorithm(t, p)).__name__)
p = fast_params([2, 3], [clique_motif, cycle_motif], ["a", "b"])
jds = make_jds(50, 40, [2, 3])
for t in ("fast", "network"):
    p[N.GCM_TYPE] = t
    alg = GCMAlgorithmMain.load_gcm_algorithm(p)
    run_generator(f"main/{t}", alg, jds, el_digest if t == "fast" else net_digest)
    alg2 = GCMAlgorithmFactory.resolve_algorithm(GCMAlgorithmTypes(t), p)
    run_generator(f"factory/{t}", alg2, jds, el_digest if t == "fast" else net_digest)
    run_generator(f"main/{t}/again", alg, jds, el_digest if t == "fast" else net_digest)
attempt("missing key", lambda: GCMAlgorithmFast({}))
attempt("missing indices", lambda: GCMAlgorithmCustomMotifs(fast_params([2], [clique_motif], ["a"])))

# ---------------------------------------------------------------- property check
print("== property C01 on the outputs")
random.seed(4242)
sizes = [2, 3, 4]
alg = GCMAlgorithmFast(fast_params(sizes, [clique_motif, cycle_motif, diamond_motif], ["e", "t", "d"]))
for s in range(5):
    jds = make_jds(60 + s, 50, sizes)
    del calls[:]
    el = alg.random_clustered_graph(jds)
    per_motif = {}
    for e, t, m in zip(el.edge_list, el.topologies, el.motif_id):
        per_motif.setdefault((m, t), set()).update(e)
    counts = {}
    for (m, t) in per_motif:
        counts[t] = counts.get(t, 0) + 1
    print(s, counts, [sum(j[k] for j in jds) // sizes[k] for k in range(3)], max(max(e) for e in el.edge_list) < 50, rng_digest())

print("final rng:", rng_digest())
