"""
Equivalence driver for the C01 refactoring. Run with cwd = a checkout of gcmpy.
Prints a deterministic digest of results, RNG states and (possibly) mutated inputs.
"""
import copy
import hashlib
import os
import random
import sys
from collections import deque

sys.path.insert(0, os.getcwd())

import numpy as np  # noqa: E402

from gcmpy.gcm_algorithm.gcm_algorithm import GCMAlgorithm  # noqa: E402
from gcmpy.gcm_algorithm.gcm_algorithm_fast import GCMAlgorithmFast  # noqa: E402
from gcmpy.gcm_algorithm.gcm_algorithm_network import GCMAlgorithmNetwork  # noqa: E402
from gcmpy.gcm_algorithm.gcm_algorithm_custom_motifs import (  # noqa: E402
    GCMAlgorithmCustomMotifs,
)
from gcmpy.gcm_algorithm.gcm_algorithm_factory import GCMAlgorithmFactory  # noqa: E402
from gcmpy.gcm_algorithm.gcm_algorithm_main import GCMAlgorithmMain  # noqa: E402
from gcmpy.gcm_algorithm.gcm_algorithm_types import GCMAlgorithmTypes  # noqa: E402
from gcmpy.names.gcm_algorithm_names import GCMAlgorithmNames as N  # noqa: E402
from gcmpy.motif_generators.clique_motif import clique_motif  # noqa: E402
from gcmpy.motif_generators.cycle_motif import cycle_motif  # noqa: E402
from gcmpy.motif_generators.diamond_motif import diamond_motif  # noqa: E402
from gcmpy.network.edge_list import LightWeightEdgeList  # noqa: E402
from gcmpy.network.network import Network  # noqa: E402
from gcmpy.names.network_names import NetworkNames as NN  # noqa: E402


def h(obj) -> str:
    return hashlib.sha256(repr(obj).encode()).hexdigest()[:16]


def rng_digest() -> str:
    return h(random.getstate()) + "/" + h(
        [x.tolist() if hasattr(x, "tolist") else x for x in np.random.get_state()]
    )


def seed(s: int) -> None:
    random.seed(s)
    np.random.seed(s)


def show(label: str, value) -> None:
    r = repr(value)
    if len(r) > 400:
        r = r[:200] + "...<" + h(value) + ">..." + r[-100:]
    print(f"{label}: {r}")


def describe(res):
    if isinstance(res, LightWeightEdgeList):
        return (
            "EL",
            res.edge_list,
            res.topologies,
            res.motif_id,
            res.joint_degrees,
            type(res.edge_list).__name__,
        )
    if isinstance(res, Network):
        G = res.G
        return (
            "NET",
            type(G).__name__,
            list(G.nodes(data=True)),
            list(G.edges(data=True)),
        )
    if isinstance(res, GCMAlgorithm):
        return (
            "ALG",
            type(res).__name__,
            res._motif_sizes,
            [getattr(f, "__name__", repr(f)) for f in res._build_functions],
            [getattr(f, "__name__", f) for f in res._edge_names],
            getattr(res, "_motif_indices", None),
        )
    return res


def attempt(label: str, fn, *args, mutated=()):
    """Run fn(*args), print result/exception, RNG digest and mutated inputs."""
    try:
        res = fn(*args)
        show(label, ("ok", type(res).__name__, describe(res)))
    except BaseException as e:  # noqa: B902
        ctx = e.__context__
        show(
            label,
            (
                "exc",
                type(e).__name__,
                str(e),
                type(ctx).__name__ if ctx is not None else None,
                str(ctx) if ctx is not None else None,
            ),
        )
    print(f"   rng={rng_digest()} mutated={h([repr(m) for m in mutated])}")
    for m in mutated:
        show("   input", m)


# --------------------------------------------------------------------------
# motif generators
# --------------------------------------------------------------------------
print("== motif generators")
seed(0)


def gen_input(n):
    return (i for i in range(n))


motif_inputs = [
    [],
    [7],
    [3, 3],
    [1, 2],
    [1, 2, 3],
    [4, 1, 3, 2],
    [0, 0, 0, 0],
    [5, 6, 7, 8, 9],
    list(range(12)),
    (1, 2, 3, 4),
    range(4),
    range(0),
    "abcd",
    "abc",
    deque([1, 2, 3, 4]),
    deque([9, 8, 7]),
    np.array([4, 5, 6, 7]),
    np.array([], dtype=int),
    {0: "a", 1: "b", -1: "c", 2: "d"},
    {0: "a", 1: "b"},
    {1, 2, 3, 4},
    [[1, 2], [3], [4, 5], [6]],
    [(1, 2), (3, 4), (5, 6)],
    None,
    5,
]
for idx, inp in enumerate(motif_inputs):
    for fn in (clique_motif, cycle_motif, diamond_motif):
        arg = copy.deepcopy(inp)
        attempt(f"{fn.__name__}[{idx}]", fn, arg, mutated=(arg,))
for n in (0, 1, 3, 4, 5):
    for fn in (clique_motif, cycle_motif, diamond_motif):
        it = gen_input(n)
        attempt(f"{fn.__name__}[gen{n}]", fn, it)
        show("   leftover", list(it))

# result is a fresh list that does not alias the input
v = [1, 2, 3, 4]
for fn in (clique_motif, cycle_motif, diamond_motif):
    r1 = fn(v)
    r2 = fn(v)
    r1.append("x")
    show(f"{fn.__name__} alias", (r1, r2, v, type(r1).__name__, r1 is r2))

# --------------------------------------------------------------------------
# helpers for the algorithms
# --------------------------------------------------------------------------
EVENTS = []


def logged(name, fn):
    def wrapper(vertices):
        EVENTS.append((name, type(vertices).__name__, list(vertices)))
        return fn(vertices)

    wrapper.__name__ = "logged_" + name
    return wrapper


def edge_motif(vertices):
    return [tuple(vertices)]


def bare_edge_motif(vertices):
    # returns the bare 2-tuple (custom-motif generator re-packs it)
    return tuple(vertices)


def bare_edge_list_motif(vertices):
    return list(vertices)


def generator_motif(vertices):
    return (e for e in clique_motif(vertices))


def failing_motif(vertices):
    raise KeyError("boom %r" % (vertices,))


def empty_motif(vertices):
    return []


def mutating_motif(vertices):
    vertices.append(-99)
    vertices.reverse()
    return clique_motif(vertices[:-1])


class LoggingFast(GCMAlgorithmFast):
    def infinite_sequence(self):
        num = 100
        while True:
            EVENTS.append(("id", num))
            yield num
            num += 7


class LoggingCustom(GCMAlgorithmCustomMotifs):
    def infinite_sequence(self):
        num = 100
        while True:
            EVENTS.append(("id", num))
            yield num
            num += 7


class LoggingNetwork(GCMAlgorithmNetwork):
    def infinite_sequence(self):
        num = 100
        while True:
            EVENTS.append(("id", num))
            yield num
            num += 7


def names_fn(name, count):
    def f():
        EVENTS.append(("names", name))
        return [name] * count

    f.__name__ = "names_" + name
    return f


def single_name_fn(name):
    def f():
        EVENTS.append(("names", name))
        return name

    f.__name__ = "name_" + name
    return f


def random_jds(n, sizes, rng, fix=True):
    """joint degree sequence; if fix, each column sum divisible by motif size"""
    jds = [[rng.randrange(0, 4) for _ in sizes] for _ in range(n)]
    if fix and n:
        for k, s in enumerate(sizes):
            while sum(row[k] for row in jds) % s:
                jds[rng.randrange(n)][k] += 1
    return jds


def run_alg(label, alg_factory, jds_list, seeds=(1, 2)):
    for s in seeds:
        for j, jds in enumerate(jds_list):
            seed(s)
            del EVENTS[:]
            try:
                alg = alg_factory()
            except BaseException as e:  # noqa: B902
                show(f"{label} ctor", ("exc", type(e).__name__, str(e)))
                return
            arg = copy.deepcopy(jds)
            attempt(f"{label} seed={s} jds[{j}]", alg.random_clustered_graph, arg,
                    mutated=(arg,))
            show("   events", list(EVENTS))
            show("   alg", describe(alg))
            # call history: a second call on the same instance, no reseed
            del EVENTS[:]
            attempt(f"{label} seed={s} jds[{j}] again", alg.random_clustered_graph,
                    arg, mutated=(arg,))
            show("   events", list(EVENTS))


src = random.Random(12345)

# --------------------------------------------------------------------------
# fast / network
# --------------------------------------------------------------------------
print("== fast / network")

std_params = lambda: {  # noqa: E731
    N.MOTIF_SIZES: [2, 3],
    N.BUILD_FUNCTIONS: [logged("clique2", clique_motif), logged("clique3", clique_motif)],
    N.EDGE_NAMES: ["2-clique", "3-clique"],
}
four_params = lambda: {  # noqa: E731
    N.MOTIF_SIZES: [2, 3, 4, 4, 5],
    N.BUILD_FUNCTIONS: [
        logged("e", clique_motif),
        logged("tri", cycle_motif),
        logged("sq", cycle_motif),
        logged("dia", diamond_motif),
        logged("k5", clique_motif),
    ],
    N.EDGE_NAMES: ["e", "tri", "sq", "dia", "k5"],
}

jds_std = [
    [],
    [[]],
    [[], []],
    [[0, 0]],
    [[0, 0], [0, 0], [0, 0]],
    [[1, 0], [1, 0]],
    [[2, 1], [1, 1], [1, 1]],
    [[1, 2], [2, 2], [3, 2], [0, 0]],
    [[1, 1], [0, 1]],  # handshake violated: short trailing groups
    [[1, 0], [0, 0]],  # single dangling stub
    [[3, 3]],  # self loops / repeated vertex
    [[1, 1, 5], [1, 1, 5], [0, 1, 5]],  # more columns than topologies
    [[1], [1]],  # fewer columns than topologies
    [[1, 3], [1]],  # ragged
    [[-1, 3], [2, 0], [0, 0]],  # negative degree
    [[True, False], [True, 3]],
    [[1.0, 0], [1, 0]],  # float degree
    [["a", 0], [1, 0]],
    [[None, 0]],
    [1, 2],
    None,
    [(1, 3), (1, 0), (0, 0)],
    np.array([[1, 3], [1, 0], [2, 3]]),
    [[np.int64(2), np.int64(3)], [np.int64(2), np.int64(0)]],
    random_jds(10, [2, 3], src),
    random_jds(25, [2, 3], src),
    random_jds(25, [2, 3], src, fix=False),
    random_jds(60, [2, 3], src),
]
jds_four = [
    [],
    [[0, 0, 0, 0, 0]],
    [[1, 1, 1, 1, 1]] * 60,
    random_jds(12, [2, 3, 4, 4, 5], src),
    random_jds(40, [2, 3, 4, 4, 5], src),
    random_jds(40, [2, 3, 4, 4, 5], src, fix=False),
    random_jds(7, [2, 3, 4], src),
]

for cls in (GCMAlgorithmFast, LoggingFast, GCMAlgorithmNetwork, LoggingNetwork):
    run_alg(f"{cls.__name__}/std", lambda: cls(std_params()), jds_std)
    run_alg(f"{cls.__name__}/four", lambda: cls(four_params()), jds_four, seeds=(3,))

odd_param_sets = {
    "short_sizes": {
        N.MOTIF_SIZES: [2],
        N.BUILD_FUNCTIONS: [clique_motif, clique_motif],
        N.EDGE_NAMES: ["a", "b"],
    },
    "short_builders": {
        N.MOTIF_SIZES: [2, 3],
        N.BUILD_FUNCTIONS: [logged("only", clique_motif)],
        N.EDGE_NAMES: ["a", "b"],
    },
    "short_names": {
        N.MOTIF_SIZES: [2, 3],
        N.BUILD_FUNCTIONS: [logged("c2", clique_motif), logged("c3", clique_motif)],
        N.EDGE_NAMES: ["a"],
    },
    "short_names_and_generator": {
        N.MOTIF_SIZES: [2, 3],
        N.BUILD_FUNCTIONS: [logged("c2", clique_motif), logged("g3", generator_motif)],
        N.EDGE_NAMES: ["a"],
    },
    "empty_lists": {N.MOTIF_SIZES: [], N.BUILD_FUNCTIONS: [], N.EDGE_NAMES: []},
    "zero_size": {
        N.MOTIF_SIZES: [0, 3],
        N.BUILD_FUNCTIONS: [clique_motif, clique_motif],
        N.EDGE_NAMES: ["a", "b"],
    },
    "negative_size": {
        N.MOTIF_SIZES: [2, -3],
        N.BUILD_FUNCTIONS: [clique_motif, clique_motif],
        N.EDGE_NAMES: ["a", "b"],
    },
    "float_size": {
        N.MOTIF_SIZES: [2.0, 3],
        N.BUILD_FUNCTIONS: [clique_motif, clique_motif],
        N.EDGE_NAMES: ["a", "b"],
    },
    "size_one": {
        N.MOTIF_SIZES: [1, 1],
        N.BUILD_FUNCTIONS: [logged("c1", clique_motif), logged("e1", edge_motif)],
        N.EDGE_NAMES: ["a", "b"],
    },
    "numpy_sizes": {
        N.MOTIF_SIZES: np.array([2, 3]),
        N.BUILD_FUNCTIONS: (clique_motif, cycle_motif),
        N.EDGE_NAMES: ("a", "b"),
    },
    "generator_builder": {
        N.MOTIF_SIZES: [2, 3],
        N.BUILD_FUNCTIONS: [logged("c2", clique_motif), logged("g3", generator_motif)],
        N.EDGE_NAMES: ["a", "b"],
    },
    "failing_builder": {
        N.MOTIF_SIZES: [2, 3],
        N.BUILD_FUNCTIONS: [logged("c2", clique_motif), logged("f3", failing_motif)],
        N.EDGE_NAMES: ["a", "b"],
    },
    "empty_builder": {
        N.MOTIF_SIZES: [2, 3],
        N.BUILD_FUNCTIONS: [logged("z2", empty_motif), logged("c3", clique_motif)],
        N.EDGE_NAMES: ["a", "b"],
    },
    "mutating_builder": {
        N.MOTIF_SIZES: [2, 3],
        N.BUILD_FUNCTIONS: [logged("m2", mutating_motif), logged("m3", mutating_motif)],
        N.EDGE_NAMES: ["a", "b"],
    },
    "bare_tuple_builder": {
        N.MOTIF_SIZES: [2, 3],
        N.BUILD_FUNCTIONS: [logged("b2", bare_edge_motif), logged("c3", clique_motif)],
        N.EDGE_NAMES: ["a", "b"],
    },
    "list_names": {
        N.MOTIF_SIZES: [2, 3],
        N.BUILD_FUNCTIONS: [clique_motif, clique_motif],
        N.EDGE_NAMES: [["x", "y"], None],
    },
    "dict_lookups": {
        N.MOTIF_SIZES: {0: 2, 1: 3},
        N.BUILD_FUNCTIONS: {0: clique_motif, 1: cycle_motif},
        N.EDGE_NAMES: {0: "a", 1: "b"},
    },
}
jds_odd = [
    [],
    [[0, 0], [0, 0]],
    [[2, 0], [2, 0]],
    [[0, 1], [0, 1], [0, 1]],
    [[2, 1], [1, 1], [1, 1]],
    [[1, 2], [2, 2], [3, 2], [0, 0]],
    [[1, 1], [0, 1]],
    random_jds(15, [2, 3], src),
]
for name, params in odd_param_sets.items():
    for cls in (LoggingFast, GCMAlgorithmNetwork):
        run_alg(f"{cls.__name__}/{name}", lambda: cls(dict(params)), jds_odd, seeds=(5,))

# constructor failures
for name, params in {
    "empty": {},
    "no_names": {N.MOTIF_SIZES: [2], N.BUILD_FUNCTIONS: [clique_motif]},
    "string_keys": {"motif_sizes": [2], "build_functions": [clique_motif], "edge_names": ["a"]},
    "none": None,
}.items():
    for cls in (GCMAlgorithmFast, GCMAlgorithmNetwork, GCMAlgorithmCustomMotifs):
        attempt(f"ctor {cls.__name__}/{name}", cls, params)

# --------------------------------------------------------------------------
# custom motifs
# --------------------------------------------------------------------------
print("== custom motifs")


def custom_params(sizes, builders, names, indices):
    p = {
        N.MOTIF_SIZES: sizes,
        N.BUILD_FUNCTIONS: builders,
        N.EDGE_NAMES: names,
        N.MOTIF_INDICES: indices,
    }
    return p


def tailed_triangle(vertices):
    # orbit 0: two triangle-only corners, orbit 1: corner with tail, orbit 2: tail end
    a, b, c, d = vertices
    return [(a, b), (a, c), (b, c), (c, d)]


custom_sets = {
    "edges_triangles": lambda: custom_params(
        [2, 3],
        [logged("e", clique_motif), logged("tri", clique_motif)],
        [names_fn("e", 1), names_fn("tri", 3)],
        [[0], [1]],
    ),
    "bare_edge": lambda: custom_params(
        [2, 3],
        [logged("bare", bare_edge_motif), logged("tri", clique_motif)],
        [single_name_fn("e"), names_fn("tri", 3)],
        [[0], [1]],
    ),
    "bare_edge_list": lambda: custom_params(
        [2, 3],
        [logged("barelist", bare_edge_list_motif), logged("tri", clique_motif)],
        [single_name_fn("e"), names_fn("tri", 3)],
        [[0], [1]],
    ),
    "edge_of_lists": lambda: custom_params(
        [2, 2],
        [
            logged("pairlists", lambda vs: [[vs[0], vs[1]], [vs[1], vs[0]]]),
            logged("two", lambda vs: [(vs[0], vs[1]), (vs[1], vs[0])]),
        ],
        [names_fn("pl", 2), names_fn("two", 2)],
        [[0], [1]],
    ),
    "tailed_triangle": lambda: custom_params(
        [2, 1, 1],
        [logged("tt", tailed_triangle)],
        [names_fn("tt", 4)],
        [[0, 1, 2]],
    ),
    "mixed": lambda: custom_params(
        [2, 2, 1, 1],
        [logged("e", clique_motif), logged("tt", tailed_triangle)],
        [names_fn("e", 1), names_fn("tt", 4)],
        [[0], [1, 2, 3]],
    ),
    "reordered_orbits": lambda: custom_params(
        [1, 2, 1],
        [logged("tt", tailed_triangle)],
        [names_fn("tt", 4)],
        [[2, 1, 0]],
    ),
    "shared_orbit": lambda: custom_params(
        [2, 3],
        [logged("a", clique_motif), logged("b", clique_motif)],
        [names_fn("a", 1), names_fn("b", 1)],
        [[0], [0]],
    ),
    "repeated_orbit": lambda: custom_params(
        [2],
        [logged("k4", clique_motif)],
        [names_fn("k4", 6)],
        [[0, 0]],
    ),
    "no_motifs": lambda: custom_params([2, 3], [], [], []),
    "empty_orbits": lambda: custom_params(
        [2, 3], [clique_motif], [names_fn("x", 1)], [[]]
    ),
    "bad_orbit_index": lambda: custom_params(
        [2, 3], [logged("x", clique_motif)], [names_fn("x", 1)], [[5]]
    ),
    "negative_orbit_index": lambda: custom_params(
        [2, 3], [logged("x", clique_motif)], [names_fn("x", 3)], [[-1]]
    ),
    "negative_orbit_index_long_sizes": lambda: custom_params(
        [2, 3, 3.0], [logged("x", clique_motif)], [names_fn("x", 3)], [[-1]]
    ),
    "short_sizes": lambda: custom_params(
        [2], [logged("x", clique_motif)], [names_fn("x", 1)], [[0]]
    ),
    "short_builders": lambda: custom_params(
        [2, 3], [logged("x", clique_motif)], [names_fn("x", 1), names_fn("y", 3)],
        [[0], [1]],
    ),
    "short_names": lambda: custom_params(
        [2, 3], [logged("x", clique_motif), logged("y", clique_motif)],
        [names_fn("x", 1)], [[0], [1]],
    ),
    "names_not_callable": lambda: custom_params(
        [2, 3], [logged("x", clique_motif), logged("y", clique_motif)],
        ["x", "y"], [[0], [1]],
    ),
    "zero_size": lambda: custom_params(
        [0, 3], [clique_motif, clique_motif], [names_fn("x", 1), names_fn("y", 3)],
        [[0], [1]],
    ),
    "negative_size": lambda: custom_params(
        [2, -3], [logged("x", clique_motif), logged("y", clique_motif)],
        [names_fn("x", 1), names_fn("y", 3)], [[0], [1]],
    ),
    "float_size": lambda: custom_params(
        [2.0, 3], [clique_motif, clique_motif], [names_fn("x", 1), names_fn("y", 3)],
        [[0], [1]],
    ),
    "numpy_sizes": lambda: custom_params(
        np.array([2, 3]), [logged("x", clique_motif), logged("y", cycle_motif)],
        [names_fn("x", 1), names_fn("y", 3)], ((0,), (1,)),
    ),
    "failing_builder": lambda: custom_params(
        [2, 3], [logged("x", clique_motif), logged("f", failing_motif)],
        [names_fn("x", 1), names_fn("y", 3)], [[0], [1]],
    ),
    "generator_builder": lambda: custom_params(
        [2, 3], [logged("x", clique_motif), logged("g", generator_motif)],
        [names_fn("x", 1), names_fn("y", 3)], [[0], [1]],
    ),
    "empty_builder": lambda: custom_params(
        [2, 3], [logged("z", empty_motif), logged("y", clique_motif)],
        [names_fn("x", 0), names_fn("y", 3)], [[0], [1]],
    ),
    "mutating_builder": lambda: custom_params(
        [2, 3], [logged("m2", mutating_motif), logged("m3", mutating_motif)],
        [names_fn("x", 1), names_fn("y", 3)], [[0], [1]],
    ),
    "size_one": lambda: custom_params(
        [1, 1], [logged("pair", bare_edge_motif)], [single_name_fn("p")], [[0, 1]]
    ),
    "mismatched_orbit_counts": lambda: custom_params(
        [2, 1], [logged("x", clique_motif)], [names_fn("x", 3)], [[0, 1]]
    ),
}
jds_custom2 = [
    [],
    [[]],
    [[0, 0], [0, 0]],
    [[1, 0], [1, 0]],
    [[2, 1], [1, 1], [1, 1]],
    [[1, 2], [2, 2], [3, 2], [0, 0]],
    [[1, 1], [0, 1]],
    [[3, 3]],
    [[1], [1]],
    [[1, 3], [1]],
    [[-1, 3], [2, 0], [0, 0]],
    [[1.0, 0], [1, 0]],
    None,
    np.array([[1, 3], [1, 0], [2, 3]]),
    random_jds(20, [2, 3], src),
    random_jds(20, [2, 3], src, fix=False),
]
jds_custom3 = [
    [],
    [[2, 1, 1]] * 4,
    [[2, 0, 0], [2, 0, 0], [0, 1, 0], [0, 0, 1]],
    [[1, 2, 1]] * 6,
    [[2, 1, 0], [2, 1, 2]],
    random_jds(15, [2, 1, 1], src),
]
jds_custom4 = [
    [],
    [[1, 2, 1, 1]] * 4,
    [[2, 2, 1, 1], [0, 2, 0, 1], [0, 0, 1, 0]],
    random_jds(15, [2, 2, 1, 1], src),
]
jds_custom1 = [[], [[2]] * 4, [[1]] * 8, [[3], [1]], random_jds(9, [2], src)]

jds_for = {
    "tailed_triangle": jds_custom3,
    "reordered_orbits": jds_custom3,
    "negative_orbit_index_long_sizes": jds_custom2[:8],
    "mixed": jds_custom4,
    "repeated_orbit": jds_custom1,
    "short_sizes": jds_custom1 + jds_custom2[:6],
}
for name, make in custom_sets.items():
    for cls in (GCMAlgorithmCustomMotifs, LoggingCustom):
        run_alg(f"{cls.__name__}/{name}", lambda: cls(make()),
                jds_for.get(name, jds_custom2), seeds=(7, 8))

# partition helper
alg = GCMAlgorithmCustomMotifs(custom_sets["edges_triangles"]())
for lst, n in [([], 2), ([1, 2, 3, 4], 2), ([1, 2, 3, 4, 5], 2), ([1, 2], 5),
               ([1, 2, 3], 0), ([1, 2, 3], -1), ("abcdefg", 3), ((1, 2, 3), 1),
               ([1, 2], 1.5), (None, 2)]:
    arg = copy.deepcopy(lst)
    attempt(f"partition({lst!r},{n!r})", alg.partition, arg, n, mutated=(arg,))

# --------------------------------------------------------------------------
# factory / main
# --------------------------------------------------------------------------
print("== factory / main")


def full_params(gcm_type=None):
    p = custom_params(
        [2, 3],
        [logged("e", clique_motif), logged("tri", clique_motif)],
        ["2-clique", "3-clique"],
        [[0], [1]],
    )
    if gcm_type is not None:
        p[N.GCM_TYPE] = gcm_type
    return p


class EqualsEverything:
    def __eq__(self, other):
        EVENTS.append(("eq", repr(other)))
        return True

    __hash__ = None


class EqualsNetwork:
    def __eq__(self, other):
        EVENTS.append(("eq", repr(other)))
        return other is GCMAlgorithmTypes.NETWORK

    def __hash__(self):
        return 1


def fname(v):
    if callable(v):
        return getattr(v, "__name__", type(v).__name__)
    return v


def pdesc(p):
    if not isinstance(p, dict):
        return p
    return sorted(
        (
            getattr(k, "name", k),
            [fname(x) for x in v] if isinstance(v, (list, tuple)) else fname(v),
        )
        for k, v in p.items()
    )


factory_types = [
    GCMAlgorithmTypes.FAST,
    GCMAlgorithmTypes.NETWORK,
    GCMAlgorithmTypes.MOTIFS,
    "fast",
    "network",
    "motifs",
    "FAST",
    None,
    0,
    [],
    EqualsEverything(),
    EqualsNetwork(),
]
jds_fm = [[[2, 1], [1, 1], [1, 1]], random_jds(12, [2, 3], src)]
for t in factory_types:
    for pname, p in (("full", full_params()), ("no_indices", {
        N.MOTIF_SIZES: [2, 3],
        N.BUILD_FUNCTIONS: [clique_motif, clique_motif],
        N.EDGE_NAMES: ["a", "b"],
    }), ("empty", {}), ("none", None)):
        del EVENTS[:]
        seed(11)
        attempt(f"factory {type(t).__name__}:{str(t)[:30] if not hasattr(t, '__dict__') or isinstance(t, GCMAlgorithmTypes) else ''} {pname}",
                GCMAlgorithmFactory.resolve_algorithm, t, p)
        show("   params after", pdesc(p))
        show("   events", list(EVENTS))

main_types = ["fast", "network", "motifs", "FAST", "", None, 3, GCMAlgorithmTypes.FAST,
              GCMAlgorithmTypes.MOTIFS, [], "missing"]
for t in main_types:
    for pname in ("full", "no_indices", "bare", "none", "string_key"):
        if pname == "full":
            p = full_params()
        elif pname == "no_indices":
            p = full_params()
            del p[N.MOTIF_INDICES]
        elif pname == "bare":
            p = {}
        elif pname == "none":
            p = None
        else:
            p = {"GCM_type": t}
        if isinstance(p, dict) and t != "missing" and pname != "string_key":
            p[N.GCM_TYPE] = t
        seed(13)
        keys_before = sorted(map(repr, p)) if isinstance(p, dict) else None
        attempt(f"main {t!r} {pname}", GCMAlgorithmMain.load_gcm_algorithm, p)
        show("   keys", (keys_before, sorted(map(repr, p)) if isinstance(p, dict) else None))
        show("   params after", pdesc(p))

# end to end through the entry point, checking the C01 property on the output
print("== end to end")


def check_property(jds, sizes, res, names):
    """counts of motifs per topology and of stub slots per vertex and topology"""
    if isinstance(res, Network):
        triples = [
            (e[:2], e[2][NN.TOPOLOGY], e[2][NN.MOTIF_IDS]) for e in res.G.edges(data=True)
        ]
        nodes = sorted(res.G.nodes())
    else:
        triples = list(zip(res.edge_list, res.topologies, res.motif_id))
        nodes = sorted({v for e in res.edge_list for v in e})
    motifs = {}
    for e, t, m in triples:
        motifs.setdefault((t, m), set()).update(e)
    per_topology = {}
    for (t, m), vs in motifs.items():
        per_topology[t] = per_topology.get(t, 0) + 1
    return sorted(per_topology.items()), nodes[:3], nodes[-3:], len(triples)


for gcm_type in ("fast", "network", "motifs"):
    for s in (21, 22, 23):
        for n in (0, 1, 5, 30, 120):
            jrng = random.Random(1000 * s + n)
            jds = random_jds(n, [2, 3], jrng)
            p = custom_params(
                [2, 3],
                [clique_motif, clique_motif],
                [names_fn("2-clique", 1), names_fn("3-clique", 3)]
                if gcm_type == "motifs"
                else ["2-clique", "3-clique"],
                [[0], [1]],
            )
            p[N.GCM_TYPE] = gcm_type
            seed(s)
            alg = GCMAlgorithmMain.load_gcm_algorithm(p)
            arg = copy.deepcopy(jds)
            try:
                res = alg.random_clustered_graph(arg)
            except Exception as e:
                show(f"e2e {gcm_type} s={s} n={n}", ("exc", type(e).__name__, str(e),
                                                      rng_digest(), arg == jds))
                continue
            show(f"e2e {gcm_type} s={s} n={n}", (h(describe(res)), rng_digest(),
                                                  arg == jds,
                                                  check_property(jds, [2, 3], res, None)))
            if not isinstance(res, Network):
                show("   jds identity", res.joint_degrees is arg)
            res2 = alg.random_clustered_graph(arg)
            show(f"e2e {gcm_type} s={s} n={n} again", (h(describe(res2)), rng_digest()))

print("== final rng", rng_digest())
