import sys, os; sys.path.insert(0, os.getcwd())
import hashlib
import random

import numpy as np
import networkx as nx

from gcmpy.names.network_names import NetworkNames
from gcmpy.names.tools_names import ToolsNames
from gcmpy.tools.joint_excess_from_ejk import JointExcessFromEjk
from gcmpy.tools.joint_excess_joint_degree import JointExcessJointDegree
from gcmpy.tools.joint_excess_joint_degree_matrices import (
    JointExcessJointDegreeMatrices,
)

random.seed(1415)
np.random.seed(1415)

LINES = []


def show(x):
    if isinstance(x, dict):
        return "{" + ", ".join(show(k) + ": " + show(v) for k, v in x.items()) + "}"
    if isinstance(x, (list, tuple)):
        o, c = ("[", "]") if isinstance(x, list) else ("(", ")")
        return o + ", ".join(show(e) for e in x) + c
    return type(x).__name__ + ":" + repr(x)


def state(m):
    return show([m._ejks, m._excess_degree_keys, m._topology_names])


def run(label, m):
    before = state(m) if isinstance(m, JointExcessJointDegreeMatrices) else ""
    try:
        res = JointExcessFromEjk.get_excess_joint_distributions(m)
        out = show(res)
        if isinstance(res, dict) and len(res) > 1:
            vals = list(res.values())
            out += " distinct=%s" % (len({id(v) for v in vals}) == len(vals))
    except BaseException as e:
        out = "EXC " + type(e).__name__
    after = state(m) if isinstance(m, JointExcessJointDegreeMatrices) else ""
    LINES.append(label + " -> " + out + (" | STATE CHANGED " + after if after != before else ""))


def matrices(ejks, keys, names=None):
    m = JointExcessJointDegreeMatrices()
    m._ejks = ejks
    m._excess_degree_keys = keys
    if names is not None:
        m._topology_names = names
    return m


ejk_tree = {
    (0, 3, 0, 3): 1 / 81, (0, 3, 4, 1): 5 / 81, (0, 3, 2, 2): 3 / 81,
    (4, 1, 0, 3): 5 / 81, (4, 1, 4, 1): 25 / 81, (4, 1, 2, 2): 15 / 81,
    (2, 2, 0, 3): 3 / 81, (2, 2, 4, 1): 15 / 81, (2, 2, 2, 2): 9 / 81,
}
ejk_tri = {
    (3, 1, 3, 1): 16 / 144, (3, 1, 1, 2): 24 / 144, (3, 1, 5, 0): 8 / 144,
    (1, 2, 3, 1): 24 / 144, (1, 2, 1, 2): 36 / 144, (1, 2, 5, 0): 12 / 144,
    (5, 0, 3, 1): 8 / 144, (5, 0, 1, 2): 12 / 144, (5, 0, 5, 0): 4 / 144,
}
K_tree = [(0, 3), (4, 1), (2, 2)]
K_tri = [(3, 1), (1, 2), (5, 0)]

m0 = matrices({"2-clique": ejk_tree, "3-clique": ejk_tri}, {"2-clique": K_tree, "3-clique": K_tri})
for r in range(3):
    run("suite-example/%d" % r, m0)

# through the constructor (keys derived from the matrices)
m1 = JointExcessJointDegreeMatrices(
    {ToolsNames.EJKS: {"2-clique": dict(ejk_tree), "3-clique": dict(ejk_tri)},
     ToolsNames.EDGE_NAMES: ["2-clique", "3-clique"]}
)
run("ctor", m1)
m1.get_excess_degree_keys()
run("ctor-again", m1)

# edge and error cases
run("empty", matrices({}, {}))
run("default", JointExcessJointDegreeMatrices())
run("len-mismatch", matrices({"a": ejk_tree}, {}))
run("len-mismatch2", matrices({}, {"a": K_tree}))
run("key-missing", matrices({"a": ejk_tree}, {"b": K_tree}))
run("key-missing-2nd", matrices({"a": ejk_tree, "b": ejk_tri}, {"a": K_tree, "c": K_tri}))
run("empty-matrix", matrices({"a": {}}, {"a": K_tree}))
run("empty-keys", matrices({"a": ejk_tree}, {"a": []}))
run("both-empty", matrices({"a": {}, "b": {}}, {"a": [], "b": []}))
run("shared-matrix", matrices({"a": ejk_tree, "b": ejk_tree}, {"a": K_tree, "b": K_tree[::-1]}))
run("dup-keys", matrices({"a": ejk_tree}, {"a": K_tree + K_tree}))
run("extra-keys", matrices({"a": ejk_tree}, {"a": [(9, 9)] + K_tree + [(7, 7)]}))
run("partial-rows", matrices({"a": {(0, 3, 4, 1): 0.5, (4, 1, 0, 3): 0.5}}, {"a": K_tree}))
run("asym", matrices({"a": {(0, 3, 4, 1): 1.0}}, {"a": K_tree}))
run("ints", matrices({"a": {(0, 0, 0, 0): 1, (0, 0, 1, 1): 2, (1, 1, 0, 0): 3}}, {"a": [(0, 0), (1, 1)]}))
run("negzero", matrices({"a": {(0, 0, 0, 0): -0.0, (1, 1, 1, 1): -0.0}}, {"a": [(0, 0), (1, 1)]}))
run("nan-inf", matrices({"a": {(0, 0, 0, 0): float("nan"), (1, 1, 1, 1): float("inf"), (1, 1, 0, 0): float("-inf")}}, {"a": [(0, 0), (1, 1)]}))
run("str-values", matrices({"a": {(0, 0, 0, 0): "x"}}, {"a": [(0, 0)]}))
run("str-values-2nd", matrices({"a": ejk_tree, "b": {(0, 0, 0, 0): "x"}}, {"a": K_tree, "b": [(0, 0)]}))
run("none-values", matrices({"a": {(0, 0, 0, 0): None}}, {"a": [(0, 0)]}))
run("list-keys", matrices({"a": ejk_tree}, {"a": [[0, 3], [4, 1]]}))
run("mixed-keys", matrices({"a": ejk_tree}, {"a": [(0, 3), "ab", (4, 1)]}))
run("mixed-keys-2nd", matrices({"a": ejk_tree, "b": ejk_tri}, {"a": K_tree, "b": [(3, 1), 7]}))
run("str-keys", matrices({"a": {"abab": 0.5, "abcd": 0.25, "cdab": 0.25}}, {"a": ["ab", "cd"]}))
run("unhashable-sum", matrices({"a": ejk_tree}, {"a": [(0, 3), ([], 1)]}))
run("keys-not-dict", matrices({"a": ejk_tree}, [K_tree]))
run("keys-none", matrices({"a": ejk_tree}, None))
run("ejks-none", matrices(None, {"a": K_tree}))
run("ejks-list", matrices([ejk_tree], {0: K_tree}))
run("ejks-list-ok", matrices([0], [K_tree]))
run("matrix-is-list", matrices({"a": list(ejk_tree)}, {"a": K_tree}))
run("matrix-is-none", matrices({"a": None}, {"a": K_tree}))
run("matrix-is-none-2nd", matrices({"a": ejk_tree, "b": None}, {"a": K_tree, "b": K_tri}))
run("keys-value-none", matrices({"a": ejk_tree}, {"a": None}))
run("keys-value-gen", matrices({"a": ejk_tree}, {"a": (k for k in K_tree)}))
run("keys-value-dict", matrices({"a": ejk_tree}, {"a": dict.fromkeys(K_tree, 1)}))
run("keys-value-set", matrices({"a": ejk_tree}, {"a": {(0, 3)}}))
run("int-topology-keys", matrices({1: ejk_tree, 1.5: ejk_tri}, {1: K_tree, 1.5: K_tri}))
run("not-an-object", None)
run("not-an-object2", {"_ejks": {}})

# random mixing matrices: 1..3 topologies, half-key length 1..3, sparse fill
for t in range(250):
    ntop = random.randint(1, 3)
    width = random.randint(1, 3)
    ejks, keys = {}, {}
    for j in range(ntop):
        ks = list({tuple(random.randint(0, 4) for _ in range(width)) for _ in range(random.randint(1, 6))})
        random.shuffle(ks)
        e = {}
        for a in ks:
            for b in ks:
                if random.random() < 0.6:
                    e[a + b] = random.random()
        if random.random() < 0.3:
            ks = ks + [tuple(random.randint(5, 6) for _ in range(width))]
        ejks["t%d" % j] = e
        keys["t%d" % j] = ks
    m = matrices(ejks, keys, list(ejks))
    run("rand%03d" % t, m)
    if t % 5 == 0:
        m.get_excess_degree_keys()
        run("rand%03d-rekeyed" % t, m)

# network-derived matrices
def network(n, names):
    G = nx.gnm_random_graph(n, 2 * n, seed=random.randint(0, 10 ** 6))
    for e in G.edges():
        G.edges[e][NetworkNames.TOPOLOGY] = random.choice(names)
    for v in G.nodes():
        jd = [0] * len(names)
        for u in G[v]:
            jd[names.index(G.edges[v, u][NetworkNames.TOPOLOGY])] += 1
        G.nodes[v][NetworkNames.JOINT_DEGREE] = tuple(jd)
    return G


for t in range(25):
    names = ["A", "B", "C"][: random.randint(1, 3)]
    G = network(random.randint(5, 40), names)
    x = JointExcessJointDegree({ToolsNames.NETWORK: G, ToolsNames.EDGE_NAMES: names})
    m = x.get_ejks()
    run("net%02d" % t, m)
    run("net%02d-second" % t, x.get_ejks())
    # a declared topology that no edge carries: widen the joint degrees by a zero column
    for v in G.nodes():
        G.nodes[v][NetworkNames.JOINT_DEGREE] = tuple(G.nodes[v][NetworkNames.JOINT_DEGREE]) + (0,)
    try:
        m2 = JointExcessJointDegree(
            {ToolsNames.NETWORK: G, ToolsNames.EDGE_NAMES: names + ["Z"]}).get_ejks()
    except BaseException as e:
        LINES.append("net%02d-unused-name setup EXC %s" % (t, type(e).__name__))
    else:
        run("net%02d-unused-name" % t, m2)

LINES.append("random " + hashlib.sha256(repr(random.getstate()).encode()).hexdigest())
LINES.append("numpy " + hashlib.sha256(repr(np.random.get_state()).encode()).hexdigest())
text = "\n".join(LINES)
print(text)
print("lines", len(LINES), "sha256", hashlib.sha256(text.encode()).hexdigest())
