"""Deterministic digest of the C16 functions (run with cwd = a checkout)."""
import hashlib
import os
import random
import sys
from fractions import Fraction

sys.path.insert(0, os.getcwd())

import networkx as nx
import numpy as np

from gcmpy.message_passing.equations.clique_equation import clique_equation
from gcmpy.message_passing.equations.chordless_cycle_equation import (
    chordless_cycle_equation,
)
from gcmpy.message_passing import number_connected_graphs as ncg

random.seed(12345)
np.random.seed(12345)

lines = []


def emit(*parts):
    lines.append(" ".join(repr(p) for p in parts))


def outcome(f, *args):
    try:
        return f(*args)
    except Exception as e:  # noqa: BLE001
        return "EXC:" + type(e).__name__ + ":" + str(e)


# --- Q: recursion, first on a cold cache so the call history is recorded
emit("Q cache cold", ncg.Q.cache_info(), ncg.binomial.cache_info())
emit("Q(6,9) first", ncg.Q(6, 9))
emit("Q cache after first", ncg.Q.cache_info(), ncg.binomial.cache_info())
for n in range(0, 10):
    for k in range(-1, n * (n - 1) // 2 + 2):
        emit("Q", n, k, outcome(ncg.Q, n, k))
emit("Q cache", ncg.Q.cache_info(), ncg.binomial.cache_info())
emit("Q big", ncg.Q(25, 140), ncg.Q(40, 39), ncg.Q(30, 435))
emit("Q types", type(ncg.Q(1, 0)).__name__, type(ncg.Q(5, 4)).__name__,
     type(ncg.Q(5, 3)).__name__, type(ncg.Q(5, 7)).__name__)

# --- QQ: brute force
for n in range(1, 6):
    for k in range(0, n * (n - 1) // 2 + 1):
        emit("QQ", n, k, outcome(ncg.QQ, n, k))
emit("QQ cache", ncg.QQ.cache_info())
emit("QQ(6,.)", [ncg.QQ(6, 15 - i) for i in range(0, 5)])

# --- number_of_connected_graphs on assorted substrates
for trial in range(25):
    n = random.randint(3, 7)
    G = nx.gnp_random_graph(n, 0.7, seed=random.randint(0, 10**6))
    nodes = list(G.nodes())
    random.shuffle(nodes)
    i = nodes[0]
    ak = nodes[1:random.randint(2, n)]
    before = (sorted(G.nodes()), sorted(map(sorted, G.edges())))
    for k in range(0, 4):
        emit("ncg", trial, n, i, ak, k,
             outcome(ncg.number_of_connected_graphs, G, ak, i, k))
    after = (sorted(G.nodes()), sorted(map(sorted, G.edges())))
    emit("ncg G untouched", before == after)
tri = nx.complete_graph(3)
emit("triangle", ncg.number_of_connected_graphs(tri, [1, 2], 0, 1))
emit("k too big", outcome(ncg.number_of_connected_graphs, tri, [1, 2], 0, 7))
emit("empty ak", outcome(ncg.number_of_connected_graphs, tri, [], 0, 0))
emit("absent focal", outcome(ncg.number_of_connected_graphs, tri, [], 9, 0))

# --- clique equation: floats, exact rationals, numpy scalars
for tau in range(0, 8):
    for rep in range(4):
        phi = random.random()
        Hs = [random.random() for _ in range(max(tau - 1, 0))]
        emit("clique f", tau, phi, Hs, outcome(clique_equation, tau, phi, Hs))
for tau in range(1, 7):
    phi = Fraction(random.randint(0, 10), 10)
    Hs = [Fraction(random.randint(0, 7), 7) for _ in range(tau - 1)]
    r = outcome(clique_equation, tau, phi, Hs)
    emit("clique Q", tau, phi, Hs, r, type(r).__name__)
for phi in (0.0, 1.0, 0.5):
    emit("clique edge", phi, outcome(clique_equation, 4, phi, [0.3, 0.0, 1.0]))
emit("clique short Hs", outcome(clique_equation, 5, 0.4, [0.2, 0.9]))
emit("clique long Hs", outcome(clique_equation, 3, 0.4, [0.2, 0.9, 0.5, 0.1]))
emit("clique np", outcome(clique_equation, 4, np.float64(0.37),
                          list(np.random.random(3))))
emit("clique int phi", outcome(clique_equation, 4, 1, [1, 1, 1]),
     outcome(clique_equation, 4, 0, [1, 1, 1]))

# --- chordless cycle equation
for n in range(0, 12):
    for rep in range(3):
        u, phi = random.random(), random.random()
        emit("cycle f", n, u, phi, outcome(chordless_cycle_equation, n, u, phi))
    u, phi = Fraction(random.randint(0, 9), 9), Fraction(random.randint(0, 8), 8)
    r = outcome(chordless_cycle_equation, n, u, phi)
    emit("cycle Q", n, u, phi, r, type(r).__name__)
emit("cycle edge", outcome(chordless_cycle_equation, 5, 0.0, 0.0),
     outcome(chordless_cycle_equation, 5, 1.0, 1.0),
     outcome(chordless_cycle_equation, 1, 0.0, 0.5),
     outcome(chordless_cycle_equation, 3, 1, 1))
arr = chordless_cycle_equation(6, np.array([0.1, 0.5, 0.9]), 0.3)
emit("cycle np", arr.tolist())

try:
    import sympy

    p, h1, h2, h3, uu = sympy.symbols("p h1 h2 h3 u")
    emit("clique sym", str(sympy.expand(clique_equation(4, p, [h1, h2, h3]))))
    emit("cycle sym", str(sympy.expand(chordless_cycle_equation(5, uu, p))))
except ImportError:
    emit("sympy absent")

emit("final caches", ncg.Q.cache_info(), ncg.binomial.cache_info(),
     ncg.QQ.cache_info())
emit("rng state", random.random(), float(np.random.random()))

text = "\n".join(lines)
print(text)
print("DIGEST", hashlib.sha256(text.encode()).hexdigest())
