"""
Equivalence digest for property C08 (joint degrees derived from a clique cover).
Run with cwd = a gcmpy checkout.  Prints a deterministic transcript: results
(floats via repr), exceptions, RNG state digests and mutated inputs.
Set EQUIV_DEBUG=1 to additionally switch the library loggers to DEBUG (log
records go to stderr only; stdout must stay identical).
"""
import copy
import hashlib
import logging
import os
import random
import sys

sys.path.insert(0, os.getcwd())

import numpy as np  # noqa: E402

if os.environ.get("EQUIV_DEBUG"):
    logging.basicConfig(level=logging.DEBUG, stream=sys.stderr)

from gcmpy.joint_degree.joint_degree import JointDegree  # noqa: E402
from gcmpy.joint_degree.joint_degree_factory import JointDegreeFactory  # noqa: E402
from gcmpy.joint_degree.joint_degree_loaders.joint_degree_cover import (  # noqa: E402
    JointDegreeCover,
)
from gcmpy.joint_degree.joint_degree_type import JointDegreeType  # noqa: E402
from gcmpy.names.joint_degree_names import JointDegreeNames  # noqa: E402

COVER = JointDegreeNames.COVER


def rng_digest() -> str:
    h = hashlib.sha256()
    h.update(repr(random.getstate()).encode())
    st = np.random.get_state()
    h.update(repr((st[0], st[1].tolist(), st[2], st[3], repr(st[4]))).encode())
    return h.hexdigest()[:16]


def seed(s: int) -> None:
    random.seed(s)
    np.random.seed(s)


def show(label, fn):
    """Run fn, print its result or its exception, then the RNG digest."""
    try:
        res = fn()
        print(f"[{label}] OK {res!r}")
    except BaseException as e:  # noqa: BLE001
        print(f"[{label}] EXC {type(e).__name__}: {e!r}")
    print(f"[{label}] rng {rng_digest()}")


def state(obj):
    d = {}
    for k in sorted(vars(obj)):
        v = vars(obj)[k]
        if isinstance(v, dict):
            d[k] = ("dict", list(v.items()))
        else:
            d[k] = v
    return d


class Plain(JointDegree):
    """Minimal concrete subclass to drive the base-class methods directly."""

    def __init__(self, jdd=None, motif_sizes=None):
        super().__init__()
        self._jdd = jdd
        self._motif_sizes = motif_sizes

    def create_jdd(self) -> None:
        return super().create_jdd()


class Lazy(JointDegree):
    def create_jdd(self) -> None:
        self._jdd = {(1,): 1.0}


# ---------------------------------------------------------------------------
print("== class surface")
print(sorted(k for k in vars(JointDegree) if not k.startswith("__")))
print(sorted(k for k in vars(JointDegreeCover) if not k.startswith("__")))
print(JointDegreeCover._type, JointDegree._type == "")
print(sorted(JointDegree.__abstractmethods__))

# ---------------------------------------------------------------------------
print("== abstract behaviour")
seed(1)
show("abstract-new", lambda: JointDegree())
show("abstract-new-args", lambda: JointDegree(1, a=2))
show("virtual-call", lambda: Plain().create_jdd())
show("lazy-init", lambda: state(Lazy()))
show("plain-init", lambda: state(Plain()))

# ---------------------------------------------------------------------------
print("== cover loader")

COVERS = {
    "zero-based": [[0, 1], [1, 2], [0, 1, 2], [2, 3], [3, 4, 5, 0]],
    "one-based": [[1, 2], [2, 3], [1, 2, 3], [3, 4], [4, 5, 6, 1]],
    "size-gaps": [[0, 1], [2, 3, 4, 5], [1, 2], [0, 3, 4, 5, 6, 7]],
    "only-triangles": [[1, 2, 3], [3, 4, 5], [5, 6, 1]],
    "single-clique": [[0, 1, 2, 3, 4]],
    "single-vertex": [[0]],
    "single-vertex-one": [[1]],
    "tuples": [(0, 1), (1, 2, 3), (3, 0)],
    "sets": [{0, 1}, {1, 2, 3}, frozenset({3, 0}), {2, 3, 4, 5}],
    "dup-vertex": [[0, 0, 1], [1, 2]],
    "dup-clique": [[0, 1], [0, 1], [1, 0], [2, 1, 0]],
    "with-empty-clique": [[], [1], [1, 2]],
    "empty-cover": [],
    "only-empty-clique": [[]],
    "non-contiguous": [[0, 5], [5, 7]],
    "non-contiguous-one": [[2, 3], [3, 4]],
    "starts-at-two-single": [[2]],
    "negative-labels": [[-1, 0], [0, -1, -2]],
    "string-labels": [["a", "b"], ["b", "c"]],
    "mixed-labels": [[0, "b"]],
    "float-labels": [[0.0, 1.0], [1.0, 2.0]],
    "bool-labels": [[False, True], [True, 2]],
    "numpy-labels": [np.array([0, 1]), np.array([1, 2, 3])],
    "numpy-2d": np.array([[0, 1], [1, 2], [2, 3]]),
    "strings-as-cliques": ["ab", "bc"],
    "ints-as-cliques": [1, 2],
    "none-cover": None,
    "dict-cliques": [{0: "x", 1: "y"}, {1: "z", 2: "w", 3: "v"}],
    "tuple-cover": ((0, 1), (1, 2), (0, 1, 2)),
    "big-gap": [[0, 1], list(range(0, 12)), [3, 4], [5, 6, 7]],
}


def load_cover(cover):
    try:
        c0 = copy.deepcopy(cover)
    except TypeError:
        c0 = "<not copyable>"
    obj = JointDegreeCover({COVER: cover})
    out = {
        "motif_sizes": obj.motif_sizes,
        "jdd": list(obj.jdd.items()),
        "jdd_types": sorted({type(v).__name__ for v in obj.jdd.values()}),
        "cover_is_same_object": obj.cover is cover,
        "vars": sorted(vars(obj)),
    }
    try:
        out["cover_unchanged"] = bool(repr(c0) == repr(cover))
    except Exception as e:  # noqa: BLE001
        out["cover_unchanged"] = repr(e)
    return out


for name, cover in COVERS.items():
    seed(7)
    show("cover:" + name, lambda cover=cover: load_cover(cover))

seed(8)
show("cover:missing-key", lambda: JointDegreeCover({}))
show("cover:wrong-key", lambda: JointDegreeCover({"cover": [[0, 1]]}))
show("cover:params-none", lambda: JointDegreeCover(None))
show("cover:generator", lambda: load_cover(c for c in [[0, 1], [1, 2]]))
show("cover:gen-cliques", lambda: load_cover([iter([0, 1]), iter([1, 2])]))
show(
    "cover:factory",
    lambda: state(
        JointDegreeFactory.resolve_joint_degree(
            JointDegreeType.COVER, {COVER: COVERS["size-gaps"]}
        )
    ),
)


class CountingCover(list):
    """A list that records how often it is iterated / measured."""

    def __init__(self, *a):
        super().__init__(*a)
        self.events = []

    def __iter__(self):
        self.events.append("iter")
        return super().__iter__()

    def __len__(self):
        self.events.append("len")
        return super().__len__()


class CountingClique(list):
    log = []

    def __iter__(self):
        CountingClique.log.append(("iter", tuple(list.__iter__(self))))
        return super().__iter__()

    def __len__(self):
        CountingClique.log.append(("len", tuple(list.__iter__(self))))
        return super().__len__()


def counting():
    CountingClique.log = []
    cover = CountingCover(
        [CountingClique([0, 1]), CountingClique([1, 2, 3]), CountingClique([3, 0])]
    )
    obj = JointDegreeCover({COVER: cover})
    return cover.events, CountingClique.log, list(obj.jdd.items()), obj.motif_sizes


show("cover:access-pattern", counting)


class NoisyVertex(int):
    """An int label that records the arithmetic / comparisons done on it."""

    log = []

    def __sub__(self, other):
        NoisyVertex.log.append(("sub", int(self), other))
        return int(self) - other

    def __lt__(self, other):
        NoisyVertex.log.append(("lt", int(self), int(other)))
        return int(self) < int(other)

    def __ne__(self, other):
        NoisyVertex.log.append(("ne", int(self), other))
        return int(self) != other

    def __eq__(self, other):
        return int(self) == other

    def __hash__(self):
        return hash(int(self))


def noisy():
    NoisyVertex.log = []
    V = NoisyVertex
    cover = [[V(1), V(2)], [V(2), V(3), V(4)], [V(4), V(1)]]
    obj = JointDegreeCover({COVER: cover})
    return NoisyVertex.log, list(obj.jdd.items())


show("cover:vertex-op-order", noisy)


def history():
    """Repeated calls / setter use on one object (stale motif sizes etc.)."""
    out = []
    obj = JointDegreeCover({COVER: COVERS["zero-based"]})
    out.append(state(obj))
    jdd_first = obj.jdd
    obj.create_jdd()
    out.append((state(obj), obj.jdd is jdd_first, obj.jdd == jdd_first))
    obj.cover = COVERS["only-triangles"]
    out.append(state(obj))  # nothing recomputed yet
    obj.create_jdd()
    out.append(state(obj))  # motif sizes are stale by design
    try:
        out.append(obj.sample_jds_from_jdd(10))
    except Exception as e:  # noqa: BLE001
        out.append(repr(e))
    obj.motif_sizes = [3]
    out.append(obj.sample_jds_from_jdd(10))
    obj.cover = []
    try:
        obj.create_jdd()
    except Exception as e:  # noqa: BLE001
        out.append(repr(e))
    out.append(state(obj))  # jdd kept from before the failure
    obj.cover = [[0, 9]]
    try:
        obj.create_jdd()
    except Exception as e:  # noqa: BLE001
        out.append(repr(e))
    out.append(state(obj))
    obj.jdd = {(2,): 0.25, (0,): 0.75}
    out.append(obj.sample_jds_from_jdd(7))
    out.append(state(obj))
    return out


seed(9)
show("cover:history", history)

# ---------------------------------------------------------------------------
print("== sampling from covers")


def sample_profile(cover, n, reps=3):
    obj = JointDegreeCover({COVER: cover})
    out = []
    for _ in range(reps):
        jds = obj.sample_jds_from_jdd(n)
        ntops = list(map(sum, zip(*jds)))
        out.append((jds, ntops, [t % m for t, m in zip(ntops, obj.motif_sizes)]))
    out.append(list(obj.jdd.items()))
    return out


for name in ["zero-based", "one-based", "size-gaps", "only-triangles", "sets", "big-gap",
             "single-vertex", "with-empty-clique", "dup-vertex"]:
    for n in [0, 1, 5, 23]:
        seed(100 + n)
        show(f"sample:{name}:{n}", lambda name=name, n=n: sample_profile(COVERS[name], n))

seed(11)
obj = JointDegreeCover({COVER: COVERS["size-gaps"]})
show("sample:negative-N", lambda: obj.sample_jds_from_jdd(-3))
show("sample:float-N", lambda: obj.sample_jds_from_jdd(2.0))
show("sample:none-N", lambda: obj.sample_jds_from_jdd(None))
show("sample:bool-N", lambda: obj.sample_jds_from_jdd(True))
show("sample:numpy-N", lambda: obj.sample_jds_from_jdd(np.int64(6)))
show("sample:big-N", lambda: hashlib.sha256(repr(obj.sample_jds_from_jdd(5000)).encode()).hexdigest())
show("sample:jdd-none", lambda: Plain(None, [2]).sample_jds_from_jdd(3))
show("sample:jdd-empty", lambda: Plain({}, [2]).sample_jds_from_jdd(3))
show("sample:jdd-empty-0", lambda: Plain({}, [2]).sample_jds_from_jdd(0))
show("sample:zero-weights", lambda: Plain({(1,): 0.0, (2,): 0.0}, [2]).sample_jds_from_jdd(3))
show("sample:neg-weights", lambda: Plain({(1,): -1.0, (2,): 0.5}, [2]).sample_jds_from_jdd(3))
show("sample:unnormalised", lambda: Plain({(1, 0): 3, (0, 1): 1, (2, 2): 6}, [2, 3]).sample_jds_from_jdd(11))
show("sample:motif-none", lambda: Plain({(1, 0): 3, (0, 1): 1}, None).sample_jds_from_jdd(11))
show("sample:motif-short", lambda: Plain({(1, 1): 1}, [2]).sample_jds_from_jdd(3))
show("sample:motif-short-ok", lambda: Plain({(2, 1): 1}, [2]).sample_jds_from_jdd(3))
show("sample:motif-long", lambda: Plain({(1, 1): 1}, [2, 3, 4]).sample_jds_from_jdd(4))
show("sample:list-jdd", lambda: Plain([((1,), 1.0)], [2]).sample_jds_from_jdd(3))

# ---------------------------------------------------------------------------
print("== handshaking_lemma")


def hs(motif_sizes, jds):
    obj = Plain({}, motif_sizes)
    before = copy.deepcopy(jds) if not hasattr(jds, "__next__") else "<gen>"
    res = obj.handshaking_lemma(jds)
    return {
        "same_object": res is jds,
        "result": res if not hasattr(res, "__next__") else "<gen>",
        "before": before,
        "motif_sizes": obj.motif_sizes,
    }


HS_CASES = {
    "already-ok": ([2, 3], [(1, 0), (1, 3)]),
    "one-short": ([2, 3], [(1, 0), (0, 2)]),
    "both-short": ([2, 3], [(1, 1), (0, 0), (2, 0)]),
    "many-rows": ([3, 4, 5], [(i % 3, i % 2, (i * 7) % 4) for i in range(17)]),
    "empty": ([2, 3], []),
    "empty-rows": ([2, 3], [(), ()]),
    "ragged": ([2, 3], [(1, 1), (1,)]),
    "lists-as-rows": ([2, 3], [[1, 1], [0, 1]]),
    "tuple-jds": ([2], ((1,), (0,))),
    "tuple-jds-ok": ([2], ((1,), (1,))),
    "motif-zero": ([0], [(1,), (0,)]),
    "motif-negative": ([-3], [(1,), (0,)]),
    "motif-negative-2": ([-2, 2], [(1, 1), (0, 0)]),
    "motif-float": ([2.0], [(1,), (0,)]),
    "motif-float-frac": ([2.5], [(1,), (0,)]),
    "motif-short": ([2], [(1, 1), (0, 0)]),
    "motif-short-late": ([2], [(1, 1), (1, 0)]),
    "motif-none": (None, [(1,)]),
    "motif-tuple": ((2, 3), [(1, 1), (0, 0)]),
    "motif-one": ([1, 1], [(1, 5), (3, 0)]),
    "float-entries": ([2], [(1.0,), (0.0,)]),
    "float-frac-entries": ([2], [(0.5,), (0.0,)]),
    "bool-entries": ([2], [(True,), (False,)]),
    "numpy-entries": ([2, 3], [(np.int64(1), np.int64(1)), (np.int64(0), np.int64(0))]),
    "numpy-array": ([2, 3], np.array([[1, 1], [0, 0]])),
    "str-entries": ([2], [("a",), ("b",)]),
    "negative-entries": ([3], [(-1,), (-1,)]),
    "single-row": ([5, 7], [(1, 1)]),
    "ints-not-rows": ([2], [1, 2]),
    "generator-empty": ([2], (x for x in [])),
    "generator-ok": ([2], (x for x in [(1,), (1,)])),
    "generator-short": ([2], (x for x in [(1,), (0,)])),
    "generator-neg-motif": ([-2], (x for x in [(1,), (0,)])),
}
for name, (ms, jds) in HS_CASES.items():
    seed(21)
    show("hs:" + name, lambda ms=ms, jds=jds: hs(ms, jds))


def hs_repeat():
    obj = Plain({}, [2, 3, 4])
    jds = [(1, 0, 1), (0, 1, 0), (0, 0, 0), (2, 2, 2)]
    out = []
    for _ in range(4):
        r = obj.handshaking_lemma(jds)
        out.append((list(r), r is jds))
    return out


seed(22)
show("hs:repeat", hs_repeat)


def hs_alias():
    # jds aliasing the jdd keys list / the same tuple repeated
    row = (1, 1)
    jds = [row, row, row]
    obj = Plain({}, [2, 3])
    r = obj.handshaking_lemma(jds)
    return r, row


seed(23)
show("hs:alias", hs_alias)

# ---------------------------------------------------------------------------
print("== convert_jds_to_jdd")


def conv(jds, pre=None):
    obj = Plain(pre, [2])
    before = copy.deepcopy(jds) if not hasattr(jds, "__next__") else "<gen>"
    try:
        ret = obj.convert_jds_to_jdd(jds)
    finally:
        print("   jdd-after:", None if obj.jdd is None else list(obj.jdd.items()),
              "same-as-pre:", obj.jdd is pre)
    unchanged = repr(before) == repr(jds) if before != "<gen>" else None
    return ret, list(obj.jdd.items()), unchanged


CONV_CASES = {
    "basic": [(1, 0), (0, 1), (1, 0), (2, 2), (1, 0), (0, 1), (3, 3)],
    "thirds": [(1,), (2,), (3,)],
    "sevenths": [(i % 3,) for i in range(7)],
    "single": [(4, 4)],
    "empty": [],
    "tuple-input": ((1,), (1,), (2,)),
    "str-input": "aab",
    "dict-input": {"a": 2, "b": 3},
    "dict-str-values": {"a": "x"},
    "set-input": {(1,), (2,)},
    "unhashable": [[1, 0], [0, 1]],
    "none": None,
    "int": 5,
    "generator": (x for x in [(1,), (2,)]),
    "mixed-keys": [1, 1.0, True, (1,), "1"],
    "nan-keys": [float("nan"), float("nan")],
    "counter-like": __import__("collections").Counter({(1,): 2, (0,): 0, (5,): -1}),
}
for name, jds in CONV_CASES.items():
    seed(31)
    show("conv:" + name, lambda jds=jds: conv(jds))
    show("conv-pre:" + name, lambda jds=jds: conv(jds, pre={(9,): 1.0}))


def conv_repeat():
    obj = Plain(None, [2])
    out = []
    for jds in ([(1,), (2,), (1,)], [(3,)], [], [(1,), (1,)]):
        obj.convert_jds_to_jdd(jds)
        out.append((list(obj.jdd.items()), id(obj.jdd) == id(obj._jdd)))
    return out


show("conv:repeat", conv_repeat)

# ---------------------------------------------------------------------------
print("== normalise_jdd")


def norm(jdd):
    obj = Plain(jdd, [2])
    try:
        ret = obj.normalise_jdd()
    finally:
        print("   jdd-after:", jdd if not isinstance(jdd, dict) else list(jdd.items()),
              "same:", obj.jdd is jdd)
    return ret, list(obj.jdd.items())


NORM_CASES = {
    "basic": {(1, 0): 0.2, (0, 1): 0.3, (2, 2): 0.1},
    "ints": {(1,): 1, (2,): 2, (3,): 4},
    "thirds": {(1,): 1 / 3, (2,): 1 / 3, (3,): 1 / 3 + 1e-17},
    "tiny": {(1,): 1e-300, (2,): 3e-300},
    "huge": {(1,): 1e308, (2,): 1e308},
    "already": {(1,): 0.5, (2,): 0.5},
    "single": {(1,): 7.5},
    "empty": {},
    "zero-sum": {(1,): 0.0, (2,): 0.0},
    "zero-sum-int": {(1,): 0, (2,): 0},
    "cancel": {(1,): 1.0, (2,): -1.0, (3,): 5.0},
    "negative": {(1,): -1.0, (2,): -3.0},
    "nan": {(1,): float("nan"), (2,): 1.0},
    "strings": {(1,): "a"},
    "none-values": {(1,): None},
    "none": None,
    "list": [0.5, 0.5],
    "numpy-values": {(1,): np.float64(0.25), (2,): np.float32(0.5)},
    "order": {(3,): 0.1, (1,): 0.7, (2,): 0.2, (0,): 1e-9},
}
for name, jdd in NORM_CASES.items():
    seed(41)
    show("norm:" + name, lambda jdd=jdd: norm(copy.deepcopy(jdd)))


def norm_repeat():
    obj = Plain({(1,): 0.1, (2,): 0.2, (3,): 0.3}, [2])
    out = []
    for _ in range(4):
        obj.normalise_jdd()
        out.append(list(obj.jdd.items()))
    return out


show("norm:repeat", norm_repeat)

# ---------------------------------------------------------------------------
print("== other loaders going through the changed base methods")


def other_loaders():
    out = []
    emp = JointDegreeFactory.resolve_joint_degree(
        JointDegreeType.EMPIRICAL,
        {
            JointDegreeNames.MOTIF_SIZES: [2, 3],
            JointDegreeNames.JDS: [(1, 0), (0, 1), (1, 0), (2, 2)],
        },
    )
    out.append(state(emp))
    out.append(emp.sample_jds_from_jdd(9))
    delta = JointDegreeFactory.resolve_joint_degree(
        JointDegreeType.DELTA,
        {
            JointDegreeNames.TARGET_K: 4,
            JointDegreeNames.FP: lambda k: 1.0 / (k + 1),
            JointDegreeNames.PROBS: [0.5, 0.5],
            JointDegreeNames.MOTIF_SIZES: [2, 3],
            JointDegreeNames.LOW_HIGH_DEGREE_BOUND: (1, 8),
        },
    )
    out.append(list(delta.jdd.items()))
    out.append(delta.sample_jds_from_jdd(9))
    return out


seed(51)
show("others", other_loaders)

# ---------------------------------------------------------------------------
print("== end-to-end: cover -> sample -> generate")


def end_to_end():
    from gcmpy.gcm_algorithm.gcm_algorithm_network import GCMAlgorithmNetwork
    from gcmpy.names.gcm_algorithm_names import GCMAlgorithmNames
    from gcmpy.motif_generators.clique_motif import clique_motif

    obj = JointDegreeCover({COVER: COVERS["size-gaps"]})
    jds = obj.sample_jds_from_jdd(40)
    params = {
        GCMAlgorithmNames.MOTIF_SIZES: obj.motif_sizes,
        GCMAlgorithmNames.EDGE_NAMES: ["%d-clique" % m for m in obj.motif_sizes],
        GCMAlgorithmNames.BUILD_FUNCTIONS: [clique_motif] * len(obj.motif_sizes),
    }
    g = GCMAlgorithmNetwork(params).random_clustered_graph(jds)
    return jds, sorted(map(tuple, g._G.edges(data=True)), key=repr)


seed(61)
show("e2e", end_to_end)

print("== final rng", rng_digest())
