import sys, os; sys.path.insert(0, os.getcwd())
# Variant b: GCMAlgorithmCustomMotifs.partition (helper that cuts a shuffled stub
# list into motif-sized chunks).  Exercises the helper directly on many inputs
# (edge cases, malformed arguments, instrumented sequences that log every call
# they receive) and through GCMAlgorithmCustomMotifs.random_clustered_graph,
# direct and via GCMAlgorithmMain / GCMAlgorithmFactory; prints a deterministic
# digest with exception types and RNG states.
import hashlib
import inspect
import random

import numpy as np

from gcmpy.gcm_algorithm.gcm_algorithm_custom_motifs import GCMAlgorithmCustomMotifs
from gcmpy.gcm_algorithm.gcm_algorithm_main import GCMAlgorithmMain
from gcmpy.gcm_algorithm.gcm_algorithm_factory import GCMAlgorithmFactory
from gcmpy.gcm_algorithm.gcm_algorithm_types import GCMAlgorithmTypes
from gcmpy.names.gcm_algorithm_names import GCMAlgorithmNames as N
from gcmpy.network.edge_list import LightWeightEdgeList

random.seed(31415926)
np.random.seed(31415926)


def h(obj) -> str:
    return hashlib.sha256(repr(obj).encode()).hexdigest()[:16]


def rng() -> str:
    st = np.random.get_state()
    return "py=" + h(random.getstate()) + " np=" + h((st[0], st[1].tolist(), st[2], st[3], st[4]))


def attempt(label, fn):
    try:
        r = fn()
        print(label, "->", r)
    except BaseException as e:  # noqa
        ctx = type(e.__context__).__name__ if e.__context__ is not None else None
        print(label, "-> EXC", type(e).__name__, "|", str(e)[:90], "| ctx", ctx)
    print("   rng", rng())


def show(g):
    assert isinstance(g, LightWeightEdgeList)
    return ("EL", len(g.edge_list), h(g.edge_list), h(g.topologies), h(g.motif_id), h(g.joint_degrees),
            g.edge_list[:3], g.motif_id[-3:])


def two(vs):
    return (vs[0], vs[1])


def two_names():
    return "2-clique"


def three(vs):
    return (vs[0], vs[1]), (vs[0], vs[2]), (vs[1], vs[2])


def three_names():
    return "3-clique", "3-clique", "3-clique"


def diamond(vs):
    return ((vs[0], vs[1]), (vs[1], vs[2]), (vs[2], vs[3]), (vs[3], vs[1]), (vs[0], vs[2]))


def diamond_names():
    return ("d-o", "d-o", "d-o", "d-o", "d-i")


def pent(vs):
    return ((vs[0], vs[1]), (vs[1], vs[2]), (vs[2], vs[3]), (vs[3], vs[4]), (vs[0], vs[4]), (vs[1], vs[3]))


def pent_names():
    return "p01", "p12", "p23", "p34", "p40", "p13"


mp2 = {N.MOTIF_SIZES: [2, 3], N.EDGE_NAMES: [two_names, three_names], N.BUILD_FUNCTIONS: [two, three],
       N.MOTIF_INDICES: [[0], [1]]}
obj = GCMAlgorithmCustomMotifs(mp2)

# ---------------------------------------------------------------- 1. the helper itself
print("== 1 helper")
print("sig", inspect.signature(GCMAlgorithmCustomMotifs.partition), GCMAlgorithmCustomMotifs.partition.__annotations__,
      h(GCMAlgorithmCustomMotifs.partition.__doc__), inspect.isgeneratorfunction(GCMAlgorithmCustomMotifs.partition))

plain = [
    ([], 1), ([], 3), ([1], 1), ([1], 5), ([1, 2, 3, 4], 2), ([1, 2, 3, 4, 5], 2), ([1, 2, 3, 4, 5], 5),
    ([1, 2, 3, 4, 5], 6), (list(range(100)), 7), (list(range(12)), 1), ([1, 2, 3], 0), ([], 0), ([1, 2, 3], -1),
    ([], -2), ([1, 2, 3], True), ([1, 2, 3], False), ([1, 2, 3], 1.0), ([1, 2, 3], 2.5), ([1, 2, 3], "2"),
    ([1, 2, 3], None), ([1, 2, 3], [1]), ([1, 2, 3], 10 ** 30), ([1, 2, 3], -(10 ** 30)),
    ("abcdefg", 3), ("", 2), (b"abcdefg", 2), ((1, 2, 3, 4, 5), 2), (range(10), 4), (range(0), 4),
    (bytearray(b"xyz"), 2), (None, 2), (5, 2), ({1: 2, 3: 4}, 1), ({1, 2, 3}, 2), ({}, 2), (set(), 0),
    (np.arange(7), 3), (np.arange(6).reshape(3, 2), 2), (np.array(3), 1), ([1, 2, 3], np.int64(2)),
    ([1, 2, 3], np.float64(2.0)), ([[1], [2], [3]], 2), (iter([1, 2, 3]), 2), ((x for x in range(3)), 2),
    (object(), 2),
]


def lab(x):
    r = repr(x)
    return r[:40] if " at 0x" not in r else "<" + type(x).__name__ + ">"


for lst, n in plain:
    def run(lst=lst, n=n):
        out = obj.partition(lst, n)
        return (type(out).__name__, len(out), [type(c).__name__ for c in out][:4], repr(out)[:160], h(out))
    attempt(f"partition({lab(lst)}, {lab(n)})", run)

# result is a fresh list of fresh chunks on every call; the argument is not mutated
src = list(range(10))
r1 = obj.partition(src, 3)
r2 = obj.partition(src, 3)
print("fresh", r1 == r2, r1 is r2, [a is b for a, b in zip(r1, r2)], src, r1)
r1[0].append(99); r1.pop()
print("no-alias", src, r2, obj.partition(src, 3))
one = obj.partition(src, 20)
print("whole-chunk-is-copy", one, one[0] is src, one[0] == src)
big = list(range(100003))
random.shuffle(big)
attempt("big", lambda: (h(obj.partition(big, 4)), len(obj.partition(big, 4)), obj.partition(big, 4)[-1]))
attempt("kw", lambda: obj.partition(lst=[1, 2, 3], n=2))
attempt("kw-swapped", lambda: obj.partition(n=2, lst=[1, 2, 3]))
attempt("missing-n", lambda: obj.partition([1, 2, 3]))
attempt("extra", lambda: obj.partition([1, 2, 3], 2, 3))
attempt("unbound", lambda: GCMAlgorithmCustomMotifs.partition(None, [1, 2, 3, 4, 5], 2))


class LoggedSeq:
    """sequence that records every call it receives, in order"""

    def __init__(self, data, fail_at=None, len_exc=None):
        self.data, self.log, self.fail_at, self.len_exc = list(data), [], fail_at, len_exc

    def __len__(self):
        self.log.append("len")
        if self.len_exc is not None:
            raise self.len_exc("len!")
        return len(self.data)

    def __getitem__(self, k):
        self.log.append(("get", k if not isinstance(k, slice) else (k.start, k.stop, k.step)))
        if self.fail_at is not None and isinstance(k, slice) and k.start == self.fail_at:
            raise RuntimeError("slice refused")
        return self.data[k]

    def __iter__(self):
        self.log.append("iter")
        return iter(self.data)


class LoggedInt:
    """step object that records the protocol calls made on it"""

    def __init__(self, v, log):
        self.v, self.log = v, log

    def __index__(self):
        self.log.append("n.index")
        return self.v

    def __radd__(self, other):
        self.log.append(("n.radd", other))
        return other + self.v

    def __add__(self, other):
        self.log.append(("n.add", other))
        return self.v + other


for data, n, fail_at, len_exc in [
    (range(10), 3, None, None), (range(10), 3, 6, None), (range(10), 3, 0, None), ([], 3, None, None),
    (range(4), 0, None, None), (range(4), -1, None, None), (range(4), 2, None, ValueError), (range(4), 0, None, KeyError),
    (range(9), 9, None, None), (range(9), "x", None, None),
]:
    s = LoggedSeq(data, fail_at, len_exc)
    attempt(f"logged({list(data)!r:.30}, {n!r}, fail_at={fail_at}, len_exc={len_exc})", lambda: obj.partition(s, n))
    print("   log", s.log)
for v in (1, 2, 4, 0, -3, 50):
    s = LoggedSeq(range(7))
    k = LoggedInt(v, s.log)
    attempt(f"logged-step({v})", lambda: obj.partition(s, k))
    print("   log", s.log)

# ---------------------------------------------------------------- 2. constructor / malformed params
print("== 2 constructor")
for bad in ({}, None, [], {N.MOTIF_INDICES: [[0]]}, {N.MOTIF_SIZES: [2], N.BUILD_FUNCTIONS: [two], N.EDGE_NAMES: [two_names]},
            {"motif_indices": [[0]], "motif_sizes": [2], "build_functions": [two], "edge_names": [two_names]}, 3):
    attempt(f"ctor({bad!r:.70})", lambda: type(GCMAlgorithmCustomMotifs(bad)).__name__)
for bad in ({N.GCM_TYPE: "motifs"}, {N.GCM_TYPE: GCMAlgorithmTypes.MOTIFS, N.MOTIF_INDICES: [[0]]}, {**mp2, N.GCM_TYPE: "motif"}):
    attempt(f"main({bad!r:.70})", lambda: type(GCMAlgorithmMain.load_gcm_algorithm(bad)).__name__)
    attempt(f"factory({bad!r:.70})", lambda: type(GCMAlgorithmFactory.resolve_algorithm(GCMAlgorithmTypes.MOTIFS, bad)).__name__)
print("attrs", sorted(vars(obj)), "partition" in GCMAlgorithmCustomMotifs.__dict__, "partition" in vars(obj))

# ---------------------------------------------------------------- 3. through the generator
print("== 3 generator")


def rand_jds(n, sizes, kmax, groups):
    """columns of one motif get the same number of motifs; sums are multiples of the sizes"""
    cols = [None] * len(sizes)
    for grp in groups:
        motifs = random.randint(0, max(1, n * kmax // 3))
        for c in grp:
            col = [0] * n
            for _ in range(motifs * sizes[c]):
                col[random.randrange(n)] += 1
            cols[c] = col
    return [tuple(c[i] for c in cols) for i in range(n)]


for rep in range(15):
    attempt(f"four#{rep}", lambda: obj.random_clustered_graph([(1, 0)] * 4).edge_list)
for rep in range(6):
    attempt(f"six-tri#{rep}", lambda: obj.random_clustered_graph([(0, 1)] * 6).edge_list)
attempt("empty", lambda: show(obj.random_clustered_graph([])))
attempt("zeros", lambda: show(obj.random_clustered_graph([(0, 0), (0, 0)])))
attempt("odd", lambda: show(obj.random_clustered_graph([(1, 0)] * 3)))
attempt("tri-remainder", lambda: show(obj.random_clustered_graph([(0, 1)] * 4)))
attempt("tri-remainder2", lambda: show(obj.random_clustered_graph([(0, 1)] * 5)))
attempt("one-column", lambda: show(obj.random_clustered_graph([(1,), (1,)])))
attempt("three-columns", lambda: show(obj.random_clustered_graph([(1, 0, 1), (1, 0, 1)])))
attempt("none", lambda: show(obj.random_clustered_graph(None)))
attempt("ragged", lambda: show(obj.random_clustered_graph([(1, 0), (1,)])))
for badsizes in ([0, 3], [2, 0], [-2, 3], [2.0, 3], ["2", 3], [2], [], None, [None, 3], [10 ** 20, 3]):
    o = GCMAlgorithmCustomMotifs({**mp2, N.MOTIF_SIZES: badsizes})
    attempt(f"sizes={badsizes!r}", lambda: show(o.random_clustered_graph([(1, 3), (1, 0), (2, 0), (0, 3)])))
for badidx in ([], [[0]], [[1]], [[0], [1], [0]], [[0], [2]], [[]], None, [[0, 1]], [[1], [0]], [[-1], [-2]]):
    o = GCMAlgorithmCustomMotifs({**mp2, N.MOTIF_INDICES: badidx})
    attempt(f"indices={badidx!r}", lambda: show(o.random_clustered_graph([(1, 3), (1, 0), (2, 0), (0, 3)])))

for n in (1, 2, 5, 30, 200, 1500):
    for rep in range(3):
        jds = rand_jds(n, [2, 3], 3, [[0], [1]])
        attempt(f"m23 n={n} rep={rep} call1", lambda: show(obj.random_clustered_graph(jds)))
        attempt(f"m23 n={n} rep={rep} call2", lambda: show(obj.random_clustered_graph(jds)))

paper_jds = [
    (2, 1, 0, 1, 1, 0, 0), (1, 1, 0, 1, 1, 0, 0), (3, 1, 1, 0, 0, 1, 0), (2, 0, 1, 0, 0, 1, 0),
    (0, 0, 0, 1, 0, 0, 1), (1, 0, 0, 1, 0, 0, 0), (1, 0, 1, 0, 0, 0, 0), (1, 0, 1, 0, 0, 0, 0),
    (1, 0, 0, 1, 0, 0, 0), (1, 0, 0, 1, 0, 0, 0), (1, 0, 1, 0, 0, 0, 0), (0, 0, 1, 0, 0, 0, 0),
]
mp = {
    N.MOTIF_SIZES: [2, 3, 2, 2, 2, 2, 1],
    N.EDGE_NAMES: [two_names, three_names, diamond_names, pent_names],
    N.BUILD_FUNCTIONS: [two, three, diamond, pent],
    N.MOTIF_INDICES: [[0], [1], [2, 3], [4, 5, 6]],
    N.GCM_TYPE: GCMAlgorithmTypes.MOTIFS,
}
m1 = GCMAlgorithmCustomMotifs(mp)
m2 = GCMAlgorithmMain.load_gcm_algorithm(mp)
m3 = GCMAlgorithmFactory.resolve_algorithm(GCMAlgorithmTypes.MOTIFS, mp)
for rep in range(8):
    attempt(f"paper#{rep}", lambda: show(m1.random_clustered_graph(paper_jds)))
    attempt(f"paper-main#{rep}", lambda: show(m2.random_clustered_graph(paper_jds * (rep + 1))))
    attempt(f"paper-factory#{rep}", lambda: show(m3.random_clustered_graph(list(reversed(paper_jds)))))
for n in (4, 25, 400):
    jds = rand_jds(n, mp[N.MOTIF_SIZES], 2, mp[N.MOTIF_INDICES])
    attempt(f"paper-rand n={n}", lambda: show(m1.random_clustered_graph(jds)))
    attempt(f"paper-rand n={n} again", lambda: show(m1.random_clustered_graph(jds)))

print("== end", rng())
