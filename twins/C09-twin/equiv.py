"""Deterministic digest of the EECC cover code (run with cwd = a checkout)."""
import hashlib
import os
import random
import sys

if os.environ.get("PYTHONHASHSEED") != "0":
    # string-labelled inputs: pin the hash seed so set orders are reproducible
    os.environ["PYTHONHASHSEED"] = "0"
    os.execv(sys.executable, [sys.executable] + sys.argv)

sys.path.insert(0, os.getcwd())

import networkx as nx  # noqa: E402
import numpy as np  # noqa: E402

from gcmpy.covers.eecc import EECC, binom  # noqa: E402
from gcmpy.network.network import Network  # noqa: E402

H = hashlib.sha256()


def emit(tag, value):
    line = "%s %r" % (tag, value)
    H.update(line.encode())
    print(line if len(line) < 400 else line[:400] + "...<%d>" % len(line))


def attempt(fn):
    try:
        return fn()
    except Exception as exc:  # noqa: BLE001
        return ("RAISES", type(exc).__name__, str(exc))


def graph_state(g):
    return (
        sorted(g.G.nodes()),
        sorted(tuple(sorted(e)) for e in g.G.edges()),
        [(n, list(g.G.adj[n])) for n in g.G.nodes()],
    )


def test_graph_edges():
    # the graph used in the suite's cover test, plus extras
    return [
        (0, 1), (0, 2), (1, 2), (2, 3), (3, 4), (3, 5), (4, 5), (5, 6), (4, 6),
        (3, 6), (6, 7), (7, 8), (8, 9), (7, 9), (9, 10), (10, 11), (9, 11),
        (8, 10), (8, 11), (7, 10), (7, 11), (11, 12), (12, 13), (13, 0),
    ]


def inputs():
    out = [("suite-like", test_graph_edges())]
    out.append(("K6", list(nx.complete_graph(6).edges())))
    out.append(("K7", list(nx.complete_graph(7).edges())))
    out.append(("path", list(nx.path_graph(9).edges())))
    out.append(("cycle", list(nx.cycle_graph(8).edges())))
    out.append(("wheel", list(nx.wheel_graph(9).edges())))
    out.append(("ring-of-cliques", list(nx.ring_of_cliques(4, 4).edges())))
    out.append(("windmill", list(nx.windmill_graph(4, 4).edges())))
    out.append(("barbell", list(nx.barbell_graph(5, 2).edges())))
    for s, (n, p) in enumerate([(12, 0.3), (14, 0.45), (16, 0.35), (18, 0.5), (20, 0.25), (11, 0.7)]):
        g = nx.gnp_random_graph(n, p, seed=100 + s)
        es = list(g.edges())
        rnd = random.Random(7 + s)
        rnd.shuffle(es)
        es = [e if rnd.random() < 0.5 else (e[1], e[0]) for e in es]
        out.append(("gnp-%d-%s" % (n, p), es))
    # sparse labels (non-contiguous, large ints) and string labels
    g = nx.gnp_random_graph(13, 0.5, seed=5)
    out.append(("bigints", [(u * 37 + 1000, v * 37 + 1000) for u, v in g.edges()]))
    out.append(("strings", [("n%02d" % u, "n%02d" % v) for u, v in g.edges()]))
    # relaxed caveman with rewiring: many overlapping cliques
    g = nx.relaxed_caveman_graph(4, 5, 0.3, seed=3)
    out.append(("caveman", [e for e in g.edges() if e[0] != e[1]]))
    return out


def build(edges, m0, one_by_one=False):
    g = EECC()
    g.set_max_clique_size(m0)
    if one_by_one:
        for e in edges:
            g.add_edge(e)
    else:
        g.add_edges_from(edges)
    return g


def main():
    emit("binom", [binom(n, r) for n in range(0, 9) for r in range(0, n + 1)])

    # Network primitives
    nw = Network()
    nw.add_edges_from([(1, 2), (2, 3), (3, 1), (4, 4)])
    emit("has_edges", nw.has_edges())
    for e in [(1, 2), (1, 2), (2, 1), (9, 1), (9, 8), (3, 2), (1, 3)]:
        emit("remove %r" % (e,), nw.remove_edge(*e))
        emit("state", graph_state(nw))
        emit("has_edges", nw.has_edges())
    nw.remove_edge(4, 4)
    emit("has_edges-after-selfloop", nw.has_edges())
    emit("cliques", sorted(sorted(c) for c in nw.find_cliques()))
    nw.G = nx.DiGraph([(1, 2)])
    emit("digraph has_edges", nw.has_edges())
    nw.remove_edge(2, 1)
    emit("digraph has_edges", nw.has_edges())
    nw.remove_edge(1, 2)
    emit("digraph has_edges", nw.has_edges())

    for name, edges in inputs():
        for m0 in (2, 3, 4, 5, 7):
            # pure pieces
            g = build(edges, m0)
            C = g.limited_maximal_cliques()
            emit("%s m0=%d lmc" % (name, m0), C)
            emit("%s m0=%d lmc-again" % (name, m0), g.limited_maximal_cliques() == C)
            n = len(C)
            EC, ordl, r, idx0 = [], [0] * n, [0.0] * n, []
            ret = g.compute_scores(C, EC, ordl, r, idx0)
            emit("%s m0=%d scores" % (name, m0), (ret, C, EC, ordl, r, idx0))
            emit("%s m0=%d EC-identity" % (name, m0), [any(x is y for y in C) for x in EC])
            emit("%s m0=%d state-untouched" % (name, m0), graph_state(g))

            # full cover under several seeds
            for seed in (0, 1, 2, 3, 11):
                g = build(edges, m0, one_by_one=(seed % 2 == 1))
                random.seed(seed)
                np.random.seed(seed)
                cover = attempt(g.get_EECC)
                emit("%s m0=%d seed=%d cover" % (name, m0, seed), cover)
                emit("%s m0=%d seed=%d after" % (name, m0, seed),
                     (g.has_edges(), graph_state(g), random.random(), float(np.random.random())))
                # call history: second call on the exhausted object, then refill and re-run
                emit("%s m0=%d seed=%d second" % (name, m0, seed), (attempt(g.get_EECC), graph_state(g)))
                g.add_edges_from(edges)
                g.set_max_clique_size(max(2, m0 - 1))
                emit("%s m0=%d seed=%d refill" % (name, m0, seed),
                     (attempt(g.get_EECC), graph_state(g), random.random()))

    # error behaviour: m0 = 1 cannot cover edges
    for m0 in (1, 0):
        g = build(test_graph_edges(), m0)
        random.seed(4)
        try:
            emit("m0=%d" % m0, g.get_EECC())
        except Exception as exc:  # noqa: BLE001
            emit("m0=%d raises" % m0, (type(exc).__name__, str(exc)))
        emit("m0=%d state" % m0, graph_state(g))

    # isolated vertex present at the first call
    g = build([(0, 1), (1, 2), (0, 2)], 3)
    g.G.add_node(99)
    random.seed(5)
    try:
        emit("isolated", g.get_EECC())
    except Exception as exc:  # noqa: BLE001
        emit("isolated raises", (type(exc).__name__, str(exc)))

    print("DIGEST", H.hexdigest())


if __name__ == "__main__":
    main()
