import sys, os; sys.path.insert(0, os.getcwd())
import hashlib
import math
import random
from decimal import Decimal
from fractions import Fraction

import numpy as np

from gcmpy.joint_degree.joint_degree_distribution import JointDegreeDistribution
from gcmpy.joint_degree.joint_degree_loaders.joint_degree_manual import JointDegreeManual
from gcmpy.joint_degree.joint_degree_loaders.joint_degree_empirical import JointDegreeEmpirical
from gcmpy.joint_degree.joint_degree_loaders.joint_degree_function import JointDegreeFunction
from gcmpy.joint_degree.joint_degree_loaders.joint_degree_marginal import JointDegreeMarginal
from gcmpy.joint_degree.joint_degree_loaders.joint_degree_split_degree import JointDegreeSplitDegree
from gcmpy.joint_degree.joint_degree_loaders.joint_degree_delta import JointDegreeDelta
from gcmpy.names.joint_degree_names import JointDegreeNames as N

random.seed(977)
np.random.seed(977)
LOG = []
ZERO = 0


def rng_digest():
    h = hashlib.sha256()
    h.update(repr(random.getstate()).encode())
    st = np.random.get_state()
    h.update(repr((st[0], st[1].tolist(), st[2], st[3], st[4])).encode())
    return h.hexdigest()[:20]


def body_of(jdd):
    if isinstance(jdd, dict):
        body = [(repr(k), type(v).__name__, repr(v)) for k, v in jdd.items()]
        if len(body) > 14:
            hh = hashlib.sha256(repr(body).encode()).hexdigest()[:24]
            body = body[:6] + [("...", hh)] + body[-4:]
        return body
    return repr(jdd)


def show(tag, obj):
    print(tag, body_of(obj.jdd), "ms", repr(obj.motif_sizes), "log", len(LOG),
          hashlib.sha256(repr(LOG).encode()).hexdigest()[:12], "rng", rng_digest())


def attempt(tag, f):
    try:
        r = f()
        print(tag, "ok", repr(r) if r is None or isinstance(r, (list, tuple)) else type(r).__name__)
        return r
    except BaseException as e:  # noqa
        print(tag, "EXC", type(e).__name__, str(e)[:120], "log", len(LOG), "rng", rng_digest())
        return None


class Probe:
    """value that records every arithmetic call made on it."""

    def __init__(self, x):
        self.x = x

    def __radd__(self, other):
        LOG.append(("radd", type(other).__name__, repr(other), other is ZERO, self.x))
        return Probe(self.x + (other.x if isinstance(other, Probe) else other))

    def __add__(self, other):
        LOG.append(("add", type(other).__name__, repr(other), self.x))
        return Probe(self.x + (other.x if isinstance(other, Probe) else other))

    def __truediv__(self, other):
        LOG.append(("div", type(other).__name__, repr(other), self.x))
        return self.x / (other.x if isinstance(other, Probe) else other)

    def __repr__(self):
        return "Probe(%r)" % (self.x,)


class NoRadd:
    def __repr__(self):
        return "NoRadd"


class StrLike(str):
    pass


def manual(jdd):
    return JointDegreeManual({N.JDD: jdd, N.MOTIF_SIZES: [2, 3]})


value_sets = {
    "empty": [],
    "one": [1.0],
    "ints": [1, 2, 3, 4],
    "int-zero": [0, 0],
    "float-zero": [0.0, 0.0, -0.0],
    "neg": [-1.0, 0.5, 0.25],
    "cancel": [1.0, -1.0],
    "tenths": [0.1] * 10,
    "tenths3": [0.1, 0.2, 0.3],
    "neumaier": [1e16, 1.0, -1e16],
    "neumaier2": [1.0, 1e100, 1.0, -1e100],
    "neumaier3": [1e308, 1e308, -1e308],
    "mixed": [1, 0.5, 2, 0.25, True],
    "int-then-float": [2 ** 62, 2 ** 62, 0.5],
    "bigint": [2 ** 70, 3, 2 ** 64],
    "bigint-float": [2 ** 70, 0.5, 3],
    "huge-int-float": [10 ** 400, 1.0],
    "bools": [True, False, True],
    "inf": [float("inf"), 1.0],
    "inf-inf": [float("inf"), float("-inf")],
    "nan": [float("nan"), 1.0],
    "tiny": [5e-324, 5e-324],
    "frac": [Fraction(1, 3), Fraction(1, 6)],
    "frac-float": [Fraction(1, 3), 0.5],
    "decimal": [Decimal("0.1"), Decimal("0.2")],
    "decimal-float": [Decimal("0.1"), 0.2],
    "complex": [1 + 2j, 0.5],
    "np64": [np.float64(0.1), np.float64(0.2), np.float64(0.3)],
    "np32": [np.float32(0.1), np.float32(0.2)],
    "npint": [np.int64(3), np.int32(4)],
    "npint8": [np.int8(100), np.int8(100)],
    "np-mixed": [1, np.float32(0.1), 0.7],
    "nparr": [np.array([1.0, 3.0]), np.array([2.0, 2.0])],
    "nparr-int": [np.array([1, 3]), np.array([2, 2])],
    "str": ["a", "b"],
    "strlike": [StrLike("a")],
    "bytes": [b"a"],
    "bytearray": [bytearray(b"a")],
    "list": [[1], [2]],
    "tuple": [(1,), (2,)],
    "none": [None, 1.0],
    "float-str": [1.0, "a"],
    "probe": [Probe(1.0), Probe(3.0)],
    "probe-mixed": [2, Probe(1.0), 0.5],
    "noradd": [NoRadd()],
    "float-noradd": [0.5, NoRadd()],
}
rnd = random.Random(5)
for i in range(25):
    n = rnd.randrange(1, 60)
    value_sets["rand%d" % i] = [rnd.choice([rnd.random(), rnd.random() * 1e12, rnd.random() * 1e-12,
                                            -rnd.random(), rnd.randrange(100), 10.0 ** rnd.randrange(-300, 300)])
                                for _ in range(n)]

for name, vals in value_sets.items():
    jdd = {(i, i % 3): v for i, v in enumerate(vals)}
    o = attempt("manual[%s]" % name, lambda: manual(jdd))
    print("same-object", o.jdd is jdd)
    for rep in range(3):
        attempt("norm[%s]#%d" % (name, rep), o.normalise_jdd)
        show("norm[%s]#%d" % (name, rep), o)
    if name in ("ints", "tenths", "mixed", "rand3", "np64"):
        attempt("sample[%s]" % name, lambda: o.sample_jds_from_jdd(6))

# non-dict / missing distributions
for name, jdd in [("None", None), ("list", [1.0, 2.0]), ("str", "ab"), ("int", 3)]:
    o = manual(jdd)
    attempt("norm-nondict[%s]" % name, o.normalise_jdd)
    print("norm-nondict[%s]" % name, repr(o.jdd))
o = manual({(1, 1): 2.0})
o.jdd = {(0, 0): 1, (0, 1): 3}
attempt("after-setter", o.normalise_jdd)
show("after-setter", o)


def pois(mu):
    return lambda k: math.exp(-mu) * mu ** k / math.factorial(k)


# loaders whose create_jdd normalises
for bounds in [((0, 4), (0, 3)), ((0, 1), (0, 1)), ((0, 0), (0, 2)), ((2, 9), (1, 3), (0, 2)), ((0, 25),)]:
    for fps in ([pois(1.3), pois(0.4), pois(2.0)], [lambda k: 0.0] * 3, [lambda k: k, lambda k: 1, lambda k: 2],
                [lambda k: Fraction(1, k + 1)] * 3, [lambda k: np.float32(0.3) ** k] * 3, [lambda k: "s"] * 3):
        p = {N.MOTIF_SIZES: [2, 3, 4][:len(bounds)], N.ARR_FP: fps, N.LOW_HIGH_DEGREE_BOUND: bounds,
             N.JOINT_DEGREE_TYPE: "marginal"}
        tag = "marginal[%r,%d]" % (bounds, id(fps) % 1 + len(fps))
        o = attempt(tag, lambda: JointDegreeMarginal(p))
        if o is not None:
            show(tag, o)
            attempt(tag + " renorm", o.normalise_jdd)
            show(tag + " renorm", o)
            attempt(tag + " recreate", o.create_jdd)
            show(tag + " recreate", o)
        o = attempt(tag + " load", lambda: JointDegreeDistribution.load_joint_degree(p))
        if o is not None:
            show(tag + " load", o)
    p = {N.MOTIF_SIZES: [2, 3, 4][:len(bounds)], N.ARR_FP: [pois(1.0)] * 3, N.LOW_HIGH_DEGREE_BOUND: bounds,
         N.USE_SAMPLING: True, N.N_SAMPLES: 50}
    o = attempt("marginal-sampling[%r]" % (bounds,), lambda: JointDegreeMarginal(p))
    if o is not None:
        show("marginal-sampling", o)
        attempt("marginal-sampling renorm", o.normalise_jdd)
        show("marginal-sampling renorm", o)

for lo, hi in [(0, 8), (1, 2), (3, 3), (0, 30)]:
    for probs in ([0.5, 0.5], [0.2, 0.3, 0.5], [1.0], [0.0, 1.0]):
        for fp in (pois(2.5), lambda k: 0.0, lambda k: 1):
            p = {N.FP: fp, N.PROBS: probs, N.MOTIF_SIZES: list(range(2, 2 + len(probs))),
                 N.LOW_HIGH_DEGREE_BOUND: (lo, hi), N.TARGET_K: 4}
            tag = "split[%d,%d,%r]" % (lo, hi, probs)
            o = attempt(tag, lambda: JointDegreeSplitDegree(p))
            if o is not None:
                show(tag, o)
            p[N.JOINT_DEGREE_TYPE] = "split_degree"
            o = attempt(tag + " load", lambda: JointDegreeDistribution.load_joint_degree(p))
            if o is not None:
                show(tag + " load", o)
            o = attempt("delta" + tag, lambda: JointDegreeDelta(p))
            if o is not None:
                show("delta" + tag, o)
            p[N.JOINT_DEGREE_TYPE] = "delta"
            o = attempt("delta" + tag + " load", lambda: JointDegreeDistribution.load_joint_degree(p))
            if o is not None:
                show("delta" + tag + " load", o)

# normalising the other loaders' results
o = JointDegreeEmpirical({N.MOTIF_SIZES: [2, 3], N.JDS: [(1, 1), (1, 2), (1, 1), (0, 0), (3, 1)]})
show("empirical", o)
attempt("empirical norm", o.normalise_jdd)
show("empirical norm", o)
o = JointDegreeFunction({N.MOTIF_SIZES: [2, 3], N.FP: lambda jd: (jd[0] + 1) * 0.1 + jd[1],
                         N.LOW_HIGH_DEGREE_BOUND: [(0, 3), (0, 2)]})
show("function", o)
for rep in range(2):
    attempt("function norm", o.normalise_jdd)
    show("function norm", o)
attempt("function sample", lambda: o.sample_jds_from_jdd(7))
print("final", rng_digest(), len(LOG), hashlib.sha256(repr(LOG).encode()).hexdigest())
