"""Equivalence digest for gcmpy.tools.bond_percolate (run with cwd = a checkout)."""
import hashlib
import os
import random
import sys

sys.path.insert(0, os.getcwd())

import numpy as np
import networkx as nx

from gcmpy.tools.bond_percolate import bond_percolate
import gcmpy


def h(obj) -> str:
    return hashlib.sha256(repr(obj).encode()).hexdigest()[:16]


def rng_digest() -> str:
    return h(random.getstate()) + "/" + h(np.random.get_state()[1].tolist()) \
        + "/" + repr(np.random.get_state()[2])


def graph_digest(g) -> str:
    nodes = [(n, sorted(d.items(), key=repr)) for n, d in g.nodes(data=True)]
    if g.is_multigraph():
        edges = [(u, v, k, sorted(d.items(), key=repr))
                 for u, v, k, d in g.edges(keys=True, data=True)]
    else:
        edges = [(u, v, sorted(d.items(), key=repr)) for u, v, d in g.edges(data=True)]
    adj = [(u, list(nb)) for u, nb in g.adjacency()]
    return h((type(g).__name__, nodes, edges, adj, sorted(g.graph.items(), key=repr),
              nx.is_frozen(g)))


def call(label, g, phi):
    try:
        r = bond_percolate(g, phi)
        out = "%s %r" % (type(r).__name__, r)
    except BaseException as e:  # noqa
        out = "EXC %s %r" % (type(e).__name__, e.args)
    print("%-38s phi=%-22r -> %s | rng %s | g %s"
          % (label, phi, out, rng_digest(), graph_digest(g)))


def build_graphs():
    gs = []
    gs.append(("empty", nx.Graph()))
    gs.append(("single", nx.empty_graph(1)))
    gs.append(("isolated5", nx.empty_graph(5)))
    gs.append(("one_edge", nx.path_graph(2)))
    gs.append(("path10", nx.path_graph(10)))
    gs.append(("star20", nx.star_graph(20)))
    gs.append(("star200", nx.star_graph(200)))
    gs.append(("complete12", nx.complete_graph(12)))
    gs.append(("grid_tuple_nodes", nx.grid_2d_graph(6, 7)))
    gs.append(("er_sparse", nx.gnp_random_graph(300, 0.006, seed=11)))
    gs.append(("er_crit", nx.gnp_random_graph(400, 0.004, seed=12)))
    gs.append(("er_dense", nx.gnp_random_graph(150, 0.08, seed=13)))
    gs.append(("ba", nx.barabasi_albert_graph(250, 3, seed=14)))
    # two equal-size components + isolated vertices (ties)
    t = nx.disjoint_union(nx.cycle_graph(8), nx.cycle_graph(8))
    t.add_nodes_from(range(100, 105))
    gs.append(("ties", t))
    # small component first, large later (scan order matters for early exit)
    s = nx.Graph()
    s.add_edges_from([(0, 1), (2, 3)])
    s.add_edges_from((i, i + 1) for i in range(10, 40))
    s.add_nodes_from(["x", "y"])
    gs.append(("small_first", s))
    # shuffled insertion order: adjacency order differs from node order
    rnd = random.Random(5)
    base = nx.gnp_random_graph(80, 0.06, seed=15)
    es = list(base.edges())
    rnd.shuffle(es)
    es = [(v, u) if rnd.random() < 0.5 else (u, v) for u, v in es]
    sh = nx.Graph()
    ns = list(base.nodes())
    rnd.shuffle(ns)
    sh.add_nodes_from(ns[:40])
    sh.add_edges_from(es)
    sh.add_nodes_from(ns)
    gs.append(("shuffled", sh))
    # self loops, attributes on graph / nodes / edges, mixed node types
    a = nx.Graph(name="attrs", foo=[1, 2])
    a.add_node("a", w=1.5)
    a.add_node(("t", 1), colour="red")
    a.add_edge("a", ("t", 1), weight=0.25, motif_id=3)
    a.add_edge("a", "a", weight=9)
    a.add_edge(7, "a")
    a.add_edge(7, 8, topology="2-clique")
    a.add_edge(9, 9)
    a.add_node(frozenset([1, 2]))
    gs.append(("attrs_selfloops", a))
    # multigraph with parallel edges
    m = nx.MultiGraph()
    m.add_edges_from([(0, 1), (0, 1), (0, 1), (1, 2), (2, 3), (2, 3), (4, 4), (4, 5)])
    m.add_edge(5, 6, key="k", w=1)
    m.add_edge(5, 6, key="l", w=2)
    m.add_node(99)
    gs.append(("multigraph", m))
    # directed inputs (unsupported by connected_components)
    gs.append(("digraph", nx.gnp_random_graph(30, 0.1, seed=16, directed=True)))
    gs.append(("digraph_empty", nx.DiGraph()))
    gs.append(("multidigraph", nx.MultiDiGraph([(0, 1), (0, 1), (1, 0), (1, 2)])))
    # frozen graph, subgraph view, edge-subgraph view
    fz = nx.freeze(nx.gnp_random_graph(60, 0.05, seed=17))
    gs.append(("frozen", fz))
    big = nx.gnp_random_graph(120, 0.04, seed=18)
    gs.append(("subgraph_view", big.subgraph([n for n in big if n % 3])))
    gs.append(("edge_subgraph_view", big.edge_subgraph(list(big.edges())[::2])))
    gs.append(("restricted_view", nx.restricted_view(big, [0, 1, 2], list(big.edges())[:10])))

    # Graph subclass
    class MyGraph(nx.Graph):
        pass
    mg = MyGraph()
    mg.add_edges_from(nx.gnp_random_graph(50, 0.07, seed=19).edges())
    gs.append(("subclass", mg))
    return gs


class OddPhi:
    """phi-like object: records how it is compared."""
    def __init__(self):
        self.log = []

    def __lt__(self, other):  # reflected form of  random() > phi
        self.log.append(("lt", repr(other)))
        return len(self.log) % 3 == 0

    def __repr__(self):
        return "OddPhi(%s)" % h(self.log)


def main():
    print("networkx", nx.__version__)
    print("exported is same:", gcmpy.bond_percolate is bond_percolate)
    random.seed(12345)
    np.random.seed(54321)
    phis = [0.0, 1.0, 0.5, 0.1, 0.9, 0, 1, -0.3, 1.7, float("nan"), float("inf"),
            np.float64(0.37), np.float32(0.62), True, False]
    graphs = build_graphs()
    for name, g in graphs:
        print("## %s %s" % (name, graph_digest(g)))
        for phi in phis:
            call(name, g, phi)
        # repeated calls on the same object, same phi
        for i in range(4):
            call(name + "#rep%d" % i, g, 0.45)
        print("## after %s %s" % (name, graph_digest(g)))

    # bad / odd phi values
    print("## odd phi")
    for name, g in graphs[:8] + graphs[-3:]:
        for phi in ["a", None, 1 + 2j, [0.5], np.array([0.5])]:
            call(name + "/odd", g, phi)
        o = OddPhi()
        call(name + "/oddobj", g, o)
        print("   ", name, "OddPhi log", h(o.log), len(o.log))

    # not a graph at all
    print("## non-graph inputs")
    for bad in [None, 5, [(0, 1)], {0: [1]}]:
        try:
            r = bond_percolate(bad, 0.5)
            print(repr(bad), "->", repr(r), rng_digest())
        except BaseException as e:  # noqa
            print(repr(bad), "EXC", type(e).__name__, rng_digest())

    # star binomial sweep with many repetitions (draw count + values)
    print("## star sweep")
    star = nx.star_graph(50)
    for phi in [0.0, 0.2, 0.5, 0.8, 1.0]:
        vals = [bond_percolate(star, phi) for _ in range(200)]
        print("star50", phi, h([repr(v) for v in vals]), repr(sum(vals)), rng_digest())
    print("star after", graph_digest(star))

    # phi sweep on a library-built-like configuration graph, interleaved objects
    print("## interleaved")
    g1 = nx.gnp_random_graph(500, 0.005, seed=21)
    g2 = nx.random_regular_graph(3, 200, seed=22)
    d1, d2 = graph_digest(g1), graph_digest(g2)
    res = []
    for k in range(41):
        phi = k / 40
        res.append(repr(bond_percolate(g1, phi)))
        res.append(repr(bond_percolate(g2, 1 - phi)))
    print("interleaved", h(res), rng_digest())
    print(" ".join(res[:24]))
    print("unchanged", d1 == graph_digest(g1), d2 == graph_digest(g2))

    # numpy RNG must be untouched by the helper; python RNG advanced by |E| draws
    random.seed(7)
    st = random.getstate()
    bond_percolate(g1, 0.3)
    random.setstate(st)
    for _ in range(g1.number_of_edges()):
        random.random()
    after_manual = h(random.getstate())
    random.setstate(st)
    bond_percolate(g1, 0.3)
    print("draws == |E|:", after_manual == h(random.getstate()))
    print("final rng", rng_digest())


if __name__ == "__main__":
    main()
