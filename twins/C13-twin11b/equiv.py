import sys, os; sys.path.insert(0, os.getcwd())
# Variant b: EdgeListToNetwork.convert (the hand-over of the generated edge list
# to the annotated Network that the mixing-matrix extractors read).  Exercised
# through EdgeListToNetwork.convert itself, through GCMAlgorithmNetwork (which
# calls it), through the NetworkToEdgeList round trip, and through the
# extractors JointExcessJointDegree / JointExcessDegree /
# JointDegreeDistributionFromNetwork on the converted networks.
# string hashing is randomised per process; pin it so set orders are repeatable
if os.environ.get("PYTHONHASHSEED") != "0":
    os.environ["PYTHONHASHSEED"] = "0"
    os.execv(sys.executable, [sys.executable] + sys.argv)
import hashlib
import random
import re

import numpy as np

from gcmpy.names.tools_names import ToolsNames
from gcmpy.names.network_names import NetworkNames
from gcmpy.names.joint_degree_names import JointDegreeNames
from gcmpy.names.gcm_algorithm_names import GCMAlgorithmNames
from gcmpy.network.edge_list import LightWeightEdgeList
from gcmpy.network.network import Network
from gcmpy.network.edge_list_to_network import EdgeListToNetwork
from gcmpy.network.network_to_edge_list import NetworkToEdgeList
from gcmpy.tools.joint_excess_joint_degree import JointExcessJointDegree
from gcmpy.tools.joint_excess_degree import JointExcessDegree
from gcmpy.tools.joint_degree_distribution_from_network import (
    JointDegreeDistributionFromNetwork,
)
from gcmpy.joint_degree.joint_degree_loaders.joint_degree_manual import (
    JointDegreeManual,
)
from gcmpy.motif_generators.clique_motif import clique_motif
from gcmpy.gcm_algorithm.gcm_algorithm_network import GCMAlgorithmNetwork
from gcmpy.gcm_algorithm.gcm_algorithm_fast import GCMAlgorithmFast

random.seed(424242)
np.random.seed(424242)

LINES = []


def out(*parts):
    line = " ".join(str(p) for p in parts)
    line = re.sub(r" at 0x[0-9a-f]+", " at 0x?", line)  # memory addresses are not behaviour
    LINES.append(line)
    print(line)


def canon(d):
    return sorted((repr(k), float(v).hex()) for k, v in d.items())


def dump(label, net):
    G = net.G
    out(label, "type", type(net).__name__, type(G).__name__, list(vars(net).keys()))
    out(label, "nodes", list(G.nodes(data=True)))
    out(label, "edges", list(G.edges(data=True)))
    out(label, "adj", [(n, list(G.adj[n])) for n in G.nodes()])
    out(label, "graph-attrs", G.graph)


def extract(label, net, names):
    G = net.G
    try:
        out(label, "jdd", canon(JointDegreeDistributionFromNetwork.get_joint_degree_distribution(G)))
    except BaseException as e:  # noqa
        out(label, "jdd EXC", type(e).__name__, repr(str(e)))
    try:
        out(label, "overall", canon(JointExcessDegree.get_ejk(G)))
    except BaseException as e:  # noqa
        out(label, "overall EXC", type(e).__name__, repr(str(e)))
    try:
        C = JointExcessJointDegree({ToolsNames.NETWORK: G, ToolsNames.EDGE_NAMES: names})
        for q in range(2):
            M = C.get_ejks()
            out(label, "ejks", q, [(t, canon(M.ejks[t])) for t in M.ejks],
                [(t, M.excess_degree_keys[t]) for t in M.excess_degree_keys])
    except BaseException as e:  # noqa
        out(label, "ejks EXC", type(e).__name__, repr(str(e)))


def make(edges, tops, jds, mids):
    el = LightWeightEdgeList()
    el.edge_list = edges
    el.topologies = tops
    el.joint_degrees = jds
    el.motif_id = mids
    return el


class Seq:
    """sized iterable that logs how it is consumed and may fail part-way"""

    def __init__(self, items, fail_at=None, length=None):
        self.items = items
        self.fail_at = fail_at
        self.length = len(items) if length is None else length
        self.log = []

    def __len__(self):
        self.log.append("len")
        return self.length

    def __iter__(self):
        self.log.append("iter")
        for i, x in enumerate(self.items):
            if self.fail_at is not None and i == self.fail_at:
                self.log.append(("fail", i))
                raise RuntimeError("part-way")
            self.log.append(("yield", i))
            yield x


class LoggingEdgeList(LightWeightEdgeList):
    """records the order in which the converter reads the four columns"""

    def __init__(self):
        super().__init__()
        self.log = []

    def __getattribute__(self, name):
        if name in ("edge_list", "topologies", "joint_degrees", "motif_id"):
            object.__getattribute__(self, "log").append(name)
        return object.__getattribute__(self, name)


def attempt(label, factory, names=("s", "t")):
    el = factory()
    for rep in range(2):  # repeated conversion of the one edge list
        try:
            net = EdgeListToNetwork.convert(el)
        except BaseException as e:  # noqa
            out(label, rep, "EXC", type(e).__name__, repr(str(e)))
            net = None
        else:
            dump(label + " " + str(rep), net)
            jds = getattr(el, "joint_degrees", None)
            if isinstance(jds, (list, tuple)):
                out(label, rep, "jd identity",
                    [net.G.nodes[n][NetworkNames.JOINT_DEGREE] is jds[n] for n in range(len(jds))])
            extract(label + " " + str(rep), net, list(names))
            try:
                back = NetworkToEdgeList.convert(net)
                out(label, rep, "back", back.edge_list, back.topologies, back.joint_degrees, back.motif_id)
            except BaseException as e:  # noqa
                out(label, rep, "back EXC", type(e).__name__, repr(str(e)))
        for col in ("edge_list", "topologies", "joint_degrees", "motif_id"):
            v = getattr(el, col, None) if not isinstance(el, LoggingEdgeList) else object.__getattribute__(el, "_" + col)
            if isinstance(v, Seq):
                out(label, rep, "consumed", col, v.log)
        if isinstance(el, LoggingEdgeList):
            out(label, rep, "column reads", object.__getattribute__(el, "log"))
        if isinstance(el, LightWeightEdgeList):
            out(label, rep, "edge list afterwards", list(vars(el).keys()),
                [repr(object.__getattribute__(el, k))[:200] for k in vars(el)])


E = [(0, 1), (1, 2), (2, 3), (3, 0), (0, 2)]
T = ["s", "s", "t", "t", "t"]
J = [(2, 1), (2, 0), (1, 2), (0, 2)]
M = [0, 1, 2, 2, 2]

attempt("fresh-empty", lambda: LightWeightEdgeList())
attempt("plain", lambda: make(list(E), list(T), list(J), list(M)))
attempt("jd-lists", lambda: make(list(E), list(T), [list(j) for j in J], list(M)))
attempt("jd-tuple-column", lambda: make(list(E), list(T), tuple(J), list(M)))
attempt("jd-mixed-values", lambda: make(list(E), list(T), [None, "ab", 3.5, {"x": 1}], list(M)))
attempt("jd-more-than-edges", lambda: make([(0, 1)], ["s"], [(1, 0), (1, 0), (0, 0), (0, 0), (0, 0)], [0]))
attempt("jd-fewer-than-edge-ends", lambda: make(list(E), list(T), [(1, 1)], list(M)))
attempt("jd-empty", lambda: make(list(E), list(T), [], list(M)))
attempt("jd-dict", lambda: make(list(E), list(T), {0: (2, 1), 1: (2, 0), 5: (1, 2), 7: (0, 2)}, list(M)))
attempt("jd-str", lambda: make(list(E), list(T), "wxyz", list(M)))
attempt("jd-range", lambda: make(list(E), list(T), range(4), list(M)))
attempt("jd-numpy", lambda: make(list(E), list(T), np.array(J), list(M)))
attempt("jd-None", lambda: make(list(E), list(T), None, list(M)))
attempt("jd-int", lambda: make(list(E), list(T), 4, list(M)))
attempt("jd-generator", lambda: make(list(E), list(T), (j for j in J), list(M)))
attempt("jd-seq", lambda: make(list(E), list(T), Seq(list(J)), list(M)))
attempt("jd-seq-fails-first", lambda: make(list(E), list(T), Seq(list(J), fail_at=0), list(M)))
attempt("jd-seq-fails-midway", lambda: make(list(E), list(T), Seq(list(J), fail_at=2), list(M)))
attempt("jd-seq-longer-than-len", lambda: make(list(E), list(T), Seq(list(J), length=2), list(M)))
attempt("jd-seq-shorter-than-len", lambda: make(list(E), list(T), Seq(list(J)[:2], length=4), list(M)))
attempt("jd-seq-negative-len", lambda: make(list(E), list(T), Seq(list(J), length=-1), list(M)))
attempt("edges-None", lambda: make(None, list(T), list(J), list(M)))
attempt("edges-malformed", lambda: make([(0, 1), (2,)], list(T), list(J), list(M)))
attempt("edges-unhashable", lambda: make([([0], 1)], ["s"], list(J), [0]))
attempt("edges-seq", lambda: make(Seq(list(E)), Seq(list(T)), Seq(list(J)), Seq(list(M))))
attempt("tops-short", lambda: make(list(E), ["s"], list(J), list(M)))
attempt("tops-None", lambda: make(list(E), None, list(J), list(M)))
attempt("mids-short", lambda: make(list(E), list(T), list(J), [7]))
attempt("mids-None", lambda: make(list(E), list(T), list(J), None))
attempt("duplicate-edges", lambda: make([(0, 1), (1, 0), (0, 1)], ["s", "t", "s"], [(1, 1), (1, 1)], [0, 1, 2]))
attempt("self-loop", lambda: make([(0, 0), (0, 1)], ["s", "t"], [(1, 1), (0, 1)], [0, 1]))
attempt("edge-outside-nodes", lambda: make([(0, 9)], ["s"], [(1, 0)], [0]))
attempt("three-tuple-edges", lambda: make([(0, 1, {"w": 2}), (1, 2, {"w": 3})], ["s", "t"], [(1, 0), (1, 1), (0, 1)], [0, 1]))


def logging_plain():
    el = LoggingEdgeList()
    el.edge_list = list(E)
    el.topologies = list(T)
    el.joint_degrees = list(J)
    el.motif_id = list(M)
    object.__getattribute__(el, "log").clear()
    return el


attempt("logging", logging_plain)

for bad in (None, 5, "abc", [], {}, Network(), object()):
    try:
        r = EdgeListToNetwork.convert(bad)
        out("not-an-edge-list", type(bad).__name__, "OK", type(r).__name__)
    except BaseException as e:  # noqa
        out("not-an-edge-list", type(bad).__name__, "EXC", type(e).__name__, repr(str(e)))


# the generator route, seeded streams
def build(jdd, sizes, names, n, fast=False):
    p = {JointDegreeNames.JDD: jdd, JointDegreeNames.MOTIF_SIZES: sizes}
    jds = JointDegreeManual(p).sample_jds_from_jdd(n)
    q = {
        GCMAlgorithmNames.MOTIF_SIZES: sizes,
        GCMAlgorithmNames.EDGE_NAMES: names,
        GCMAlgorithmNames.BUILD_FUNCTIONS: [clique_motif] * len(sizes),
    }
    if fast:
        return GCMAlgorithmFast(q).random_clustered_graph(jds)
    return GCMAlgorithmNetwork(q).random_clustered_graph(jds)


cases = [
    ({(5, 1): 1 / 3, (3, 2): 1 / 3, (1, 3): 1 / 3}, [2, 3], ["2-clique", "3-clique"], 120),
    ({(1, 0): 0.2, (2, 1): 0.5, (3, 0): 0.1, (5, 1): 0.2}, [2, 3], ["2-clique", "3-clique"], 90),
    ({(2,): 0.5, (3,): 0.5}, [2], ["tree"], 60),
    ({(1, 1, 1): 0.5, (2, 0, 1): 0.25, (0, 2, 0): 0.25}, [2, 3, 4], ["a", "b", "c"], 96),
    ({(0, 0): 1.0}, [2, 3], ["2-clique", "3-clique"], 10),
]
for ci, (jdd, sizes, names, n) in enumerate(cases):
    for rep in range(2):
        g = build(jdd, sizes, names, n)
        lab = "net %d %d" % (ci, rep)
        out(lab, "nodes", hashlib.sha256(repr(list(g.G.nodes(data=True))).encode()).hexdigest(), g.G.order())
        out(lab, "edges", hashlib.sha256(repr(list(g.G.edges(data=True))).encode()).hexdigest(), g.G.size())
        extract(lab, g, names)
        el = NetworkToEdgeList.convert(g)
        g2 = EdgeListToNetwork.convert(el)
        g3 = EdgeListToNetwork.convert(el)
        out(lab, "round trip equal",
            list(g2.G.nodes(data=True)) == list(g.G.nodes(data=True)),
            list(g2.G.edges(data=True)) == list(g.G.edges(data=True)),
            list(g3.G.nodes(data=True)) == list(g2.G.nodes(data=True)),
            g3.G is not g2.G,
            all(g2.G.nodes[k][NetworkNames.JOINT_DEGREE] is el.joint_degrees[k] for k in range(len(el.joint_degrees))))
        extract(lab + " rt", g2, names)
        # the light-weight route followed by an explicit conversion
        el2 = build(jdd, sizes, names, n, fast=True)
        g4 = EdgeListToNetwork.convert(el2)
        out(lab, "fast", hashlib.sha256(repr((list(g4.G.nodes(data=True)), list(g4.G.edges(data=True)))).encode()).hexdigest())
        extract(lab + " fast", g4, names)

out("py-random-state", hashlib.sha256(repr(random.getstate()).encode()).hexdigest())
st = np.random.get_state()
out("np-random-state", hashlib.sha256(st[1].tobytes() + repr(st[2:]).encode()).hexdigest())
print("DIGEST", hashlib.sha256("\n".join(LINES).encode()).hexdigest())
