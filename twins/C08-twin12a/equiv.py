import sys, os; sys.path.insert(0, os.getcwd())
"""Variant a: try/except IndexError: raise around the per-vertex clique count in
JointDegreeCover.create_jdd.  Exercises the cover loader through its public entry points
(class constructor, factory, JointDegreeDistribution.load_joint_degree, cover setter +
create_jdd, sampling) on well-formed, boundary and malformed covers."""
import hashlib
import random

import numpy as np

from gcmpy.joint_degree.joint_degree_distribution import JointDegreeDistribution
from gcmpy.joint_degree.joint_degree_factory import JointDegreeFactory
from gcmpy.joint_degree.joint_degree_loaders.joint_degree_cover import JointDegreeCover
from gcmpy.joint_degree.joint_degree_type import JointDegreeType
from gcmpy.names.joint_degree_names import JointDegreeNames

random.seed(80801)
np.random.seed(80801)

LINES = []


def out(*parts):
    LINES.append(" ".join(str(p) for p in parts))


def rng_digest():
    s = repr(random.getstate()) + repr(np.random.get_state()[1].tolist()) + repr(np.random.get_state()[2:])
    return hashlib.sha256(s.encode()).hexdigest()[:16]


def attempt(label, fn):
    try:
        r = fn()
        out(label, "OK", repr(r))
    except BaseException as e:  # noqa
        out(label, "EXC", type(e).__name__)
    out(label, "rng", rng_digest())


def state(obj):
    d = {}
    for k in sorted(vars(obj)):
        d[k] = repr(vars(obj)[k])
    return d


def build_and_probe(label, cover):
    """construct through the three public routes, then re-create, then sample"""
    snapshot = repr(cover)
    holder = {}

    def direct():
        holder["o"] = JointDegreeCover({JointDegreeNames.COVER: cover})
        return state(holder["o"])

    attempt(label + "/direct", direct)
    out(label, "cover-unchanged", repr(cover) == snapshot)

    def factory():
        o = JointDegreeFactory.resolve_joint_degree(JointDegreeType.COVER, {JointDegreeNames.COVER: cover})
        return state(o)

    attempt(label + "/factory", factory)

    def loader():
        o = JointDegreeDistribution.load_joint_degree(
            {JointDegreeNames.JOINT_DEGREE_TYPE: "cover", JointDegreeNames.COVER: cover}
        )
        return (state(o), o.jdd, o.motif_sizes, list(o.jdd.items()))

    attempt(label + "/loader", loader)

    o = holder.get("o")
    if o is None:
        # the constructor failed: look at the half-built object through __new__ + manual init
        o = JointDegreeCover.__new__(JointDegreeCover)
        o._cover = cover
        attempt(label + "/bare-create", lambda: (o.create_jdd(), state(o)))
        attempt(label + "/bare-jdd", lambda: o.jdd)
        return
    for rep in range(2):
        attempt(label + "/recreate%d" % rep, lambda: (o.create_jdd(), state(o), list(o.jdd.items())))
    for n in (0, 1, 7, 40):
        attempt(label + "/sample%d" % n, lambda: o.sample_jds_from_jdd(n))
    out(label, "cover-unchanged-after", repr(cover) == snapshot)


def random_cover(n_vertices, n_cliques, sizes, base):
    cover = []
    for _ in range(n_cliques):
        s = random.choice(sizes)
        s = min(s, n_vertices)
        cover.append([v + base for v in random.sample(range(n_vertices), s)])
    # make sure every vertex is covered so the ids are contiguous
    seen = {v for c in cover for v in c}
    for v in range(n_vertices):
        if v + base not in seen:
            cover.append([v + base, (v + 1) % n_vertices + base])
    return cover


# ---- well-formed covers, 0-based and 1-based
for t in range(12):
    nv = random.choice([2, 3, 5, 9, 20])
    base = t % 2
    sizes = random.choice([[2], [2, 3], [3], [2, 4], [2, 3, 5], [1, 2], [4, 6]])
    build_and_probe("wf%d" % t, random_cover(nv, random.randint(1, 15), sizes, base))

# ---- boundary covers
build_and_probe("empty-cover", [])
build_and_probe("one-empty-clique", [[]])
build_and_probe("empty-clique-among", [[0, 1], [], [1, 2]])
build_and_probe("single-vertex", [[0]])
build_and_probe("single-vertex-1", [[1]])
build_and_probe("single-edge", [[0, 1]])
build_and_probe("single-edge-1", [[1, 2]])
build_and_probe("dup-cliques", [[0, 1], [0, 1], [1, 0], [1, 2, 0]])
build_and_probe("dup-vertex-in-clique", [[0, 0, 1], [1, 1]])
build_and_probe("tuples", [(0, 1), (1, 2, 3), (3, 0)])
build_and_probe("tuple-of-tuples", ((1, 2), (2, 3, 4), (4, 1)))
build_and_probe("sets", [{0, 1}, {1, 2, 3}, frozenset({3, 0})])
build_and_probe("only-big", [[0, 1, 2, 3, 4]])
build_and_probe("sizes-1-and-5", [[0], [0, 1, 2, 3, 4], [4]])
build_and_probe("np-arrays", [np.array([0, 1]), np.array([1, 2, 3])])
build_and_probe("np-2d", np.array([[0, 1], [1, 2], [2, 3]]))
build_and_probe("bools", [[False, True], [True, 2]])

# ---- malformed covers: the cases the new handler is about
build_and_probe("gap-0", [[0, 1], [1, 5]])
build_and_probe("gap-1", [[1, 2], [2, 9]])
build_and_probe("gap-last", [[0, 1], [1, 2], [2, 4]])
build_and_probe("gap-first-clique", [[0, 7], [0, 1]])
build_and_probe("starts-at-2", [[2, 3], [3, 4]])
build_and_probe("starts-at-2-b", [[2, 3, 4], [4, 2]])
build_and_probe("starts-at-5", [[5, 6]])
build_and_probe("negative", [[-1, 0], [0, 1]])
build_and_probe("negative-far", [[-7, 0], [0, 1]])
build_and_probe("negative-only", [[-3, -2], [-2, -1]])
build_and_probe("floats", [[0.0, 1.0], [1.0, 2.0]])
build_and_probe("strings", [["a", "b"], ["b", "c"]])
build_and_probe("mixed", [[0, "b"], [1, 2]])
build_and_probe("none-vertex", [[None, 1]])
build_and_probe("not-sized", [3, 4])
build_and_probe("cover-none", None)
build_and_probe("cover-int", 5)
build_and_probe("cover-str", "ab")
build_and_probe("cover-strs", ["ab", "bc"])
build_and_probe("huge-id", [[0, 1], [1, 10 ** 30]])
build_and_probe("nested", [[[0, 1], [1, 2]], [[2, 3]]])
attempt("missing-key", lambda: JointDegreeCover({}))
attempt("wrong-key", lambda: JointDegreeCover({"cover": [[0, 1]]}))
attempt("params-none", lambda: JointDegreeCover(None))

# ---- cover setter followed by create_jdd on a live object (state after a failure too)
o = JointDegreeCover({JointDegreeNames.COVER: [[0, 1], [1, 2, 3], [3, 0]]})
before = (dict(o.jdd), list(o.motif_sizes))
o.cover = [[0, 1], [1, 9]]
attempt("setter/bad-create", lambda: o.create_jdd())
out("setter/state-after-failure", (dict(o.jdd), list(o.motif_sizes)) == before, state(o))
o.cover = [[1, 2], [2, 3], [3, 1], [1, 2, 3]]
attempt("setter/good-create", lambda: (o.create_jdd(), state(o)))
attempt("setter/sample", lambda: o.sample_jds_from_jdd(25))
o.motif_sizes = sorted({len(c) for c in o.cover})
attempt("setter/sample2", lambda: o.sample_jds_from_jdd(25))

out("final-rng", rng_digest())
text = "\n".join(LINES)
print(text)
print("DIGEST", hashlib.sha256(text.encode()).hexdigest())
