import sys, os; sys.path.insert(0, os.getcwd())
import random, hashlib, itertools
import numpy as np
import networkx as nx
from gcmpy.message_passing.number_connected_graphs import number_of_connected_graphs, QQ, Q

random.seed(1603)
np.random.seed(1603)

out = []


def gshow(G):
    if not isinstance(G, nx.Graph):
        return repr(G)
    try:
        ed = list(G.edges(keys=True, data=True)) if G.is_multigraph() else list(G.edges(data=True))
    except Exception as e:
        ed = type(e).__name__
    return "%s n=%r e=%r g=%r adj=%r" % (type(G).__name__, list(G.nodes(data=True)), ed, G.graph,
                                        {u: list(nb) for u, nb in G.adj.items()})


def run(G, ak, i, k, label=""):
    before = gshow(G)
    try:
        r = number_of_connected_graphs(G, ak, i, k)
        res = "%s:%r" % (type(r).__name__, r)
    except BaseException as e:
        res = "EXC:" + type(e).__name__
    same = before == gshow(G)
    out.append("%s ak=%r i=%r k=%r -> %s untouched=%s" % (label or hashlib.sha256(before.encode()).hexdigest()[:10], ak, i, k, res, same))


# complete graphs: every k incl. out of range and negative; ak full / partial / with strangers
for n in range(0, 6):
    G = nx.complete_graph(n)
    m = G.number_of_edges()
    for k in list(range(-1, m + 2)) + [None, 1.0, True, "1"]:
        run(G, list(range(1, n)), 0, k, "K%d" % n)
    for r in range(0, n):
        for ak in itertools.combinations(range(1, n), r):
            for k in range(0, 4):
                run(G, list(ak), 0, k, "K%d" % n)
                run(G, set(ak), 0, k, "K%d" % n)
    run(G, [1, 2, 99], 0, 1, "K%d" % n)
    run(G, [1, 2], 77, 1, "K%d" % n)
    run(G, [], 0, 0, "K%d" % n)
    run(G, None, 0, 0, "K%d" % n)
    run(G, 5, 0, 0, "K%d" % n)

# random simple graphs with attributes, self-loops, string / tuple / mixed node labels
labels = [lambda v: v, lambda v: "v%d" % v, lambda v: (v, v + 1), lambda v: v if v % 2 else str(v)]
for t in range(160):
    n = random.randint(1, 7)
    p = random.choice([0.2, 0.5, 0.8, 1.0])
    G = nx.gnp_random_graph(n, p, seed=random.randrange(10 ** 6))
    G = nx.relabel_nodes(G, {v: labels[t % 4](v) for v in G})
    if t % 3 == 0:
        for v in list(G)[:2]:
            G.add_edge(v, v)
    for u, v in G.edges():
        G[u][v]["w"] = random.random()
    G.graph["name"] = "g%d" % t
    nodes = list(G)
    i = random.choice(nodes)
    rest = [v for v in nodes if v != i]
    random.shuffle(rest)
    ak = rest[:random.randint(0, len(rest))]
    for k in range(0, min(G.number_of_edges(), 5) + 2):
        run(G, ak, i, k)
        run(G, ak, i, k)      # repeated call on the same object
    run(G, ak + [i], i, 1)
    run(G, tuple(ak), i, 2)

# frozen graph, graph views, other graph classes
for n in [3, 4]:
    base = nx.complete_graph(n)
    F = nx.freeze(base.copy())
    for k in range(0, 3):
        run(F, list(range(1, n)), 0, k, "frozenK%d" % n)
    V = nx.subgraph_view(base, filter_node=lambda x: x != n - 1)
    for k in range(0, 3):
        run(V, list(range(1, n)), 0, k, "viewK%d" % n)
    S = base.subgraph(range(n - 1))
    for k in range(0, 3):
        run(S, list(range(1, n)), 0, k, "subK%d" % n)
    D = nx.complete_graph(n, create_using=nx.DiGraph)
    for k in range(0, 3):
        run(D, list(range(1, n)), 0, k, "DiK%d" % n)
    M = nx.MultiGraph(base)
    M.add_edge(0, 1)
    M.add_edge(0, 1, key="z")
    M.add_edge(1, 1)
    for k in range(0, M.number_of_edges() + 2):
        run(M, list(range(1, n)), 0, k, "MultiK%d" % n)
        run(M, [1], 0, k, "MultiK%d" % n)
    MD = nx.MultiDiGraph(M)
    for k in range(0, 3):
        run(MD, list(range(1, n)), 0, k, "MultiDiK%d" % n)
run(None, [1], 0, 0, "None")
run(nx.Graph(), [], 0, 0, "empty")
run(nx.Graph(), [], 0, 1, "empty")
P = nx.path_graph(5)
for k in range(0, 5):
    run(P, [1, 2, 3, 4], 0, k, "P5")
    run(P, [1, 3], 0, k, "P5")
C = nx.cycle_graph(6)
for k in range(0, 4):
    run(C, [1, 2, 3, 4, 5], 0, k, "C6")

# the brute-force count through QQ (cached: ask twice), against nothing - just recorded
for n in range(0, 6):
    s = n * (n - 1) // 2
    for k in list(range(-1, s + 2)):
        for rep in range(2):
            try:
                r = QQ(n, k)
                res = "%s:%r" % (type(r).__name__, r)
            except BaseException as e:
                res = "EXC:" + type(e).__name__
            out.append("QQ(%d,%d) -> %s | Q=%r" % (n, k, res, Q(n, k) if n > 0 or k != -1 else "skip"))
for args in [(3.0, 2), ("3", 1), (None, 0), (3, 1.0), (True, 0)]:
    try:
        res = repr(QQ(*args))
    except BaseException as e:
        res = "EXC:" + type(e).__name__
    out.append("QQ%r -> %s" % (args, res))
out.append("QQ cache %r" % (QQ.cache_info(),))

blob = "\n".join(out)
print(len(out), hashlib.sha256(blob.encode()).hexdigest())
for line in out[::211]:
    print(line[:200])
print("EXC count", sum("EXC:" in l for l in out))
print("exc types", sorted({l.split("EXC:")[1].split(" ")[0] for l in out if "EXC:" in l}))
print("touched", sum("untouched=False" in l for l in out))
print("random state", hashlib.sha256(repr(random.getstate()).encode()).hexdigest())
st = np.random.get_state()
print("numpy state", hashlib.sha256(st[1].tobytes() + repr(st[2:]).encode()).hexdigest())
