"""
Equivalence digest for gcmpy/message_passing/equations/automated_equation.py.
Run with cwd = a checkout. Uses only the pre-existing API:
AutomatedEquation().automated_equation(G, p, root) (root always given), plus the
pre-existing helpers get_connected_subgraphs / get_edge_combinations / get_us.
"""
import os
import sys
import random
import hashlib
from fractions import Fraction

if os.environ.get("PYTHONHASHSEED") != "0":
    # string-labelled vertices live in sets: pin the hash seed so the digest is deterministic
    os.execve(sys.executable, [sys.executable] + sys.argv, dict(os.environ, PYTHONHASHSEED="0"))

sys.path.insert(0, os.getcwd())

import numpy as np
import networkx as nx

from gcmpy.message_passing.equations.automated_equation import AutomatedEquation

random.seed(12345)
np.random.seed(12345)

LINES = []


def out(*a):
    line = " ".join(str(x) for x in a)
    LINES.append(line)
    print(line)


def graph_state(G):
    return repr((G.name, list(G.nodes(data=True)), list(G.edges(data=True)), dict(G.graph)))


def call(AE, G, p, root, tag):
    before = graph_state(G)
    try:
        v = AE.automated_equation(G, p, root)
        res = f"{type(v).__name__}:{v!r}"
    except BaseException as e:  # noqa
        res = f"EXC {type(e).__name__}: {e}"
    after = graph_state(G)
    out(tag, "root=%r" % (root,), "p=%r" % (p,), "->", res, "| mutated=%s" % (before != after))


def cache_state(AE):
    cs = {k: [sorted(s, key=repr) for s in v] for k, v in AE._connected_subgraphs.items()}
    ec = dict(AE._edge_combinations)
    return repr((sorted(cs.items()), sorted(ec.items())))


def motif(name, edges, us=None, nodes_first=None, graph_attrs=None):
    G = nx.Graph(name=name, **(graph_attrs or {}))
    if nodes_first:
        G.add_nodes_from(nodes_first)
    G.add_edges_from(edges)
    if us is not None:
        nx.set_node_attributes(G, us, "u")
    return G


US = {0: 0.91, 1: 0.37, 2: 0.58, 3: 0.12, 4: 0.76, 5: 0.443, 6: 0.2718281828}
PHIS = [0.3, 0.5645231765, 0.0, 1.0, 1e-12, 0.999999999, 1.5, -0.25]

MOTIFS = [
    ("paw-a", [(0, 1), (1, 2), (2, 0), (2, 3)]),
    ("paw-b", [(3, 2), (2, 0), (0, 1), (1, 2)]),
    ("path", [(1, 2), (2, 0), (0, 3)]),
    ("kite", [(4, 3), (3, 0), (0, 1), (1, 2), (2, 3), (0, 2)]),
    ("edge", [(1, 0)]),
    ("star", [(5, 0), (5, 1), (5, 2), (5, 3), (5, 4)]),
    ("k4", list(nx.complete_graph(4).edges())),
    ("c5", list(nx.cycle_graph(5).edges())),
    ("bowtie", [(6, 5), (5, 4), (4, 6), (4, 0), (0, 1), (1, 4)]),
]

# --- 1. one evaluator, every motif, every focal vertex, many phi ---------------
out("== section 1: shared evaluator")
AE = AutomatedEquation()
for name, edges in MOTIFS:
    G = motif(name, edges, US)
    for root in sorted(G.nodes()):
        for phi in PHIS:
            call(AE, G, phi, root, f"S1 {name}")
out("S1 cache", hashlib.sha256(cache_state(AE).encode()).hexdigest())

# --- 2. fresh evaluator per call, reverse orders, repeated calls ----------------
out("== section 2: fresh evaluators / repeated calls")
for name, edges in reversed(MOTIFS):
    G = motif(name, edges, US)
    for root in sorted(G.nodes(), reverse=True):
        AE2 = AutomatedEquation()
        call(AE2, G, 0.5645231765, root, f"S2a {name}")
        call(AE2, G, 0.5645231765, root, f"S2b {name}")
        call(AE2, G, 0.123456789, root, f"S2c {name}")
        out("S2 cache", hashlib.sha256(cache_state(AE2).encode()).hexdigest())

# --- 3. random motifs with random node labels and random u -----------------------
out("== section 3: random motifs")
AE3 = AutomatedEquation()
for i in range(12):
    n = random.randint(2, 6)
    while True:
        H = nx.gnp_random_graph(n, 0.6, seed=random.randint(0, 10**6))
        if nx.is_connected(H):
            break
    labels = list(range(n))
    random.shuffle(labels)
    edges = [(labels[a], labels[b]) for a, b in H.edges()]
    random.shuffle(edges)
    us = {v: float(np.random.random()) for v in range(n)}
    G = motif(f"rand{i}", edges, us)
    out("S3 motif", i, edges, {k: repr(v) for k, v in us.items()})
    for root in sorted(G.nodes()):
        phi = random.random()
        call(AE3, G, phi, root, f"S3 rand{i}")
out("S3 cache", hashlib.sha256(cache_state(AE3).encode()).hexdigest())

# --- 4. falsy / unusual focal vertices and unusual p types -------------------------
out("== section 4: unusual focal vertices and p types")
AE4 = AutomatedEquation()
G = motif("falsy", [(1, 2), (2, 0), (0, 3), (3, ""), ("", False), (2, 0.0), ((), 1)],
          {0: 0.91, 1: 0.37, 2: 0.58, 3: 0.12, "": 0.5, (): 0.25})
for root in (0, False, 0.0, "", (), 1, True, 2, 3):
    call(AE4, G, 0.3, root, "S4 falsy")
G = motif("strs", [("b", "c"), ("c", "a"), ("a", "d")], {"a": 0.9, "b": 0.3, "c": 0.5, "d": 0.1})
for root in ("a", "b", "c", "d"):
    call(AE4, G, 0.4, root, "S4 strs")
G = motif("types", [(1, 2), (2, 0), (0, 3), (3, 1)], US)
for p in (Fraction(1, 3), np.float64(0.3), np.float32(0.3), 1, 0, True, 0.3 + 0.1j):
    for root in (0, 2):
        call(AE4, G, p, root, "S4 types")
try:
    v = AE4.automated_equation(G, np.array([0.1, 0.5, 0.9]), 0)
    out("S4 array", repr(v.tolist()), v.dtype)
except BaseException as e:
    out("S4 array EXC", type(e).__name__, e)
Gf = motif("fracu", [(1, 2), (2, 0), (0, 3)], {0: Fraction(1, 2), 1: Fraction(1, 3), 2: Fraction(2, 5), 3: Fraction(1, 7)})
for root in (0, 1, 2, 3):
    call(AE4, Gf, Fraction(2, 7), root, "S4 fracu")
# a motif that happens to carry graph attributes (an explicit root is always given)
Gg = motif("attrs", [(1, 2), (2, 0), (0, 3)], US, graph_attrs={"focal": 2, "root": 3})
for root in (0, 1, 2, 3):
    call(AE4, Gg, 0.3, root, "S4 attrs")
# keyword form of the old signature
Gk = motif("kw", [(2, 1), (1, 0)], US)
try:
    out("S4 kw", repr(AE4.automated_equation(G=Gk, p=0.3, root=0)), repr(AE4.automated_equation(root=0, p=0.7, G=Gk)))
except BaseException as e:
    out("S4 kw EXC", type(e).__name__, e)

# --- 5. error paths ---------------------------------------------------------------
out("== section 5: error paths")
AE5 = AutomatedEquation()
G = motif("err", [(1, 2), (2, 0), (0, 3)], US)
call(AE5, G, 0.3, 99, "S5 missing-root")          # focal vertex not in motif
call(AE5, G, 0.3, "x", "S5 missing-root-str")
call(AE5, G, 0.3, [0], "S5 unhashable-root")
call(AE5, G, 0.3, 0, "S5 ok-after-errors")
call(AE5, G, "0.3", 0, "S5 str-p")
call(AE5, G, None, 0, "S5 none-p")
out("S5 cache", hashlib.sha256(cache_state(AE5).encode()).hexdigest())
Gn = motif("no-u", [(1, 2), (2, 0), (0, 3)])       # u values missing
call(AE5, Gn, 0.3, 0, "S5 no-u")
call(AE5, Gn, 0.3, 1, "S5 no-u")
Gp = motif("part-u", [(1, 2), (2, 0), (0, 3)], {0: 0.5, 3: 0.2})   # only some u values
for root in (0, 1, 2, 3):
    call(AE5, Gp, 0.3, root, "S5 part-u")
Ge = nx.Graph(name="empty")
call(AE5, Ge, 0.3, 0, "S5 empty-graph")
G1 = nx.Graph(name="single"); G1.add_node(0, u=0.5)
call(AE5, G1, 0.3, 0, "S5 single-vertex")
call(AE5, G1, 0.3, 1, "S5 single-vertex-missing")
Gd = motif("disc", [(1, 2), (0, 3), (4, 5)], US)   # disconnected motif
for root in (0, 1, 4):
    call(AE5, Gd, 0.3, root, "S5 disconnected")
Gs = motif("selfloop", [(0, 0), (0, 1), (1, 2), (2, 2)], US)
for root in (0, 1, 2):
    call(AE5, Gs, 0.3, root, "S5 selfloop")
Gm = nx.MultiGraph(name="multi"); Gm.add_edges_from([(1, 0), (1, 0), (0, 2)]); nx.set_node_attributes(Gm, US, "u")
for root in (0, 1, 2):
    call(AE5, Gm, 0.3, root, "S5 multigraph")
Gdi = nx.DiGraph(name="di"); Gdi.add_edges_from([(1, 0), (0, 2), (2, 1)]); nx.set_node_attributes(Gdi, US, "u")
for root in (0, 1, 2):
    call(AE5, Gdi, 0.3, root, "S5 digraph")
try:
    AE5.automated_equation(None, 0.3, 0)
    out("S5 none-graph no error")
except BaseException as e:
    out("S5 none-graph EXC", type(e).__name__, e)
out("S5 cache", hashlib.sha256(cache_state(AE5).encode()).hexdigest())

# --- 6. name collisions on one evaluator (cache keyed by name) ----------------------
out("== section 6: same name, different motifs, one evaluator")
AE6 = AutomatedEquation()
Ga = motif("same", [(1, 2), (2, 0), (0, 3)], US)
Gb = motif("same", [(0, 1), (1, 2), (2, 0), (2, 3), (3, 4)], US)
Gc = motif("same", [(7, 8)], {7: 0.1, 8: 0.2})
for G in (Ga, Gb, Ga, Gc):
    for root in (0, 1, 3):
        call(AE6, G, 0.3, root, "S6 same")
# unnamed motifs
Gu1 = nx.Graph(); Gu1.add_edges_from([(1, 2), (2, 0)]); nx.set_node_attributes(Gu1, US, "u")
Gu2 = nx.Graph(); Gu2.add_edges_from([(2, 0), (0, 1), (1, 2)]); nx.set_node_attributes(Gu2, US, "u")
for G in (Gu1, Gu2, Gu1):
    for root in (0, 1, 2):
        call(AE6, G, 0.45, root, "S6 unnamed")
out("S6 cache", hashlib.sha256(cache_state(AE6).encode()).hexdigest())

# --- 7. pre-existing helpers directly ----------------------------------------------
out("== section 7: helpers")
AE7 = AutomatedEquation()
G = motif("helpers", [(4, 3), (3, 0), (0, 1), (1, 2), (2, 3), (0, 2)], US)
for root in (0, 3, 4):
    comps = AE7.get_connected_subgraphs(G, root)
    out("S7 comps", root, [sorted(c) for c in comps])
    out("S7 us", root, repr(AE7.get_us(G, root)))
out("S7 combos", AE7.get_edge_combinations(G, [0, 1, 2, 3, 4]))
out("S7 combos again", AE7.get_edge_combinations(G, [0, 1, 2, 3, 4]))
try:
    AE7.get_connected_subgraphs(G, 42)
    out("S7 missing no error")
except BaseException as e:
    out("S7 missing EXC", type(e).__name__, e)
out("S7 cache", hashlib.sha256(cache_state(AE7).encode()).hexdigest())

# --- 8. through MessagePassing.resolve_equation style construction -------------------
out("== section 8: cover-style motifs (name = focal-id)")
AE8 = AutomatedEquation()
cover = {"t1": [(5, 2), (2, 0), (0, 5)], "q1": [(3, 0), (0, 6), (6, 1), (1, 3), (3, 6)]}
for it in range(2):
    for label, edges in cover.items():
        for focal in sorted({v for e in edges for v in e}):
            H = nx.Graph(name=f"{focal}-{label}")
            H.add_edges_from(edges)
            prods = {v: float(np.random.random()) for e in edges for v in e}
            nx.set_node_attributes(H, prods, "u")
            call(AE8, H, 0.5645231765, focal, f"S8 {label} it{it}")
out("S8 cache", hashlib.sha256(cache_state(AE8).encode()).hexdigest())

# --- RNG state afterwards and overall digest ---------------------------------------
out("== rng")
out("py rng", hashlib.sha256(repr(random.getstate()).encode()).hexdigest())
st = np.random.get_state()
out("np rng", hashlib.sha256(repr((st[0], st[1].tolist(), st[2], st[3], st[4])).encode()).hexdigest())
out("next draws", repr(random.random()), repr(float(np.random.random())))
print("DIGEST", hashlib.sha256("\n".join(LINES).encode()).hexdigest())
