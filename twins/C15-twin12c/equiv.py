import sys, os; sys.path.insert(0, os.getcwd())
# Differential digest for gcmpy/message_passing/equations/automated_equation.py.
# Run with cwd = a checkout of gcmpy.  Only int / float / tuple-of-int vertex labels are
# used so that set iteration order (and therefore float summation order) does not depend
# on PYTHONHASHSEED.
import random, hashlib, itertools
from fractions import Fraction
import numpy as np
import networkx as nx
from gcmpy.message_passing.equations.automated_equation import AutomatedEquation

random.seed(20261004)
np.random.seed(20261004)

OUT = []


def fmt(v):
    if isinstance(v, bool) or v is None:
        return repr(v)
    if isinstance(v, float):
        return "f:" + v.hex()
    if isinstance(v, complex):
        return "c:" + v.real.hex() + "," + v.imag.hex()
    if isinstance(v, (list, tuple)):
        return type(v).__name__ + "[" + ",".join(fmt(x) for x in v) + "]"
    if isinstance(v, (set, frozenset)):
        # iteration order is part of the observable behaviour (it drives float summation)
        return type(v).__name__ + "{" + ",".join(fmt(x) for x in v) + "}"
    if isinstance(v, dict):
        return "dict{" + ",".join(fmt(k) + ":" + fmt(x) for k, x in v.items()) + "}"
    return type(v).__name__ + ":" + repr(v)


def emit(tag, thunk):
    try:
        r = thunk()
        OUT.append(f"{tag} -> {fmt(r)}")
    except BaseException as ex:  # noqa
        OUT.append(f"{tag} !! {type(ex).__name__}: {ex} | ctx={type(ex.__context__).__name__} cause={type(ex.__cause__).__name__}")


def gstate(G):
    try:
        return fmt([list(G.nodes(data=True)), list(G.edges(data=True)), G.name, dict(G.graph)])
    except Exception as ex:
        return "gstate!!" + type(ex).__name__


def caches(ae):
    return "CS=" + fmt(ae._connected_subgraphs) + " EC=" + fmt(ae._edge_combinations)


def with_u(G, us=None, name=None):
    G = G.copy()
    if name is not None:
        G.name = name
    for i, n in enumerate(G.nodes()):
        G.nodes[n]["u"] = (us[i % len(us)] if us else random.random())
    return G


def rand_connected(n, extra):
    G = nx.Graph()
    G.add_node(0)
    for v in range(1, n):
        G.add_edge(v, random.randrange(v))
    cand = [e for e in itertools.combinations(range(n), 2) if not G.has_edge(*e)]
    random.shuffle(cand)
    G.add_edges_from(cand[:extra])
    return G


# ---------------------------------------------------------------- motif zoo
zoo = {}
zoo["K1"] = nx.empty_graph(1)
zoo["K2"] = nx.complete_graph(2)
zoo["P3"] = nx.path_graph(3)
zoo["P4"] = nx.path_graph(4)
zoo["P5"] = nx.path_graph(5)
zoo["C3"] = nx.cycle_graph(3)
zoo["C4"] = nx.cycle_graph(4)
zoo["C5"] = nx.cycle_graph(5)
zoo["C6"] = nx.cycle_graph(6)
zoo["K4"] = nx.complete_graph(4)
zoo["K5"] = nx.complete_graph(5)
zoo["S4"] = nx.star_graph(4)
zoo["diamond"] = nx.Graph([(0, 1), (1, 2), (2, 3), (3, 0), (0, 2)])
zoo["bowtie"] = nx.Graph([(0, 1), (1, 2), (2, 0), (2, 3), (3, 4), (4, 2)])
zoo["paw"] = nx.Graph([(0, 1), (1, 2), (2, 0), (2, 3)])
zoo["house"] = nx.house_graph()
zoo["K23"] = nx.complete_bipartite_graph(2, 3)
zoo["bignodes"] = nx.relabel_nodes(nx.cycle_graph(4), {0: 1000, 1: 7, 2: 123456, 3: -5})
zoo["tuples"] = nx.relabel_nodes(nx.path_graph(4), {0: (0, 0), 1: (0, 1), 2: (1, 1), 3: (2, 5)})
zoo["floats"] = nx.relabel_nodes(nx.cycle_graph(3), {0: 0.5, 1: 1.0, 2: 2.25})
zoo["selfloop"] = nx.Graph([(0, 1), (1, 2), (1, 1), (2, 0), (0, 0)])
for i in range(14):
    n = random.randint(2, 6)
    zoo[f"rnd{i}"] = rand_connected(n, random.randint(0, 4))

ps = [0.0, 1.0, 0.5, 0.3, 0.123456789, 1e-12, 1 - 1e-12, 0, 1, -0.25, 1.5, 2,
      float("nan"), float("inf"), Fraction(1, 3), True, 0.7 + 0.1j]

# ---------------------------------------------------------------- 1. fresh evaluator per motif
for name, G0 in zoo.items():
    for root in list(G0.nodes()):
        for p in ps[:7]:
            G = with_u(G0, name=f"m-{name}")
            before = gstate(G)
            ae = AutomatedEquation()
            emit(f"fresh {name} root={root!r} p={p!r}", lambda: ae.automated_equation(G, p, root))
            OUT.append("   mutated=" + str(gstate(G) != before) + " " + caches(ae))

# ---------------------------------------------------------------- 2. one shared evaluator, many motifs / roots / phis, repeated
shared = AutomatedEquation()
order = [(name, root, p) for name in zoo for root in zoo[name].nodes() for p in ps]
random.shuffle(order)
for rep in range(2):
    for name, root, p in order:
        G = with_u(zoo[name], name=f"{root}-{name}")
        emit(f"shared{rep} {name} root={root!r} p={p!r}", lambda: shared.automated_equation(G, p, root))
OUT.append("shared caches " + caches(shared))

# exact arithmetic: Fractions for u as well
for name in ["K2", "P3", "C3", "C4", "diamond", "paw", "K4", "rnd0", "rnd1"]:
    for root in zoo[name].nodes():
        G = with_u(zoo[name], us=[Fraction(1, 2), Fraction(2, 3), Fraction(5, 7), Fraction(1, 9)], name=f"fr-{root}-{name}")
        emit(f"fraction {name} root={root!r}", lambda: shared.automated_equation(G, Fraction(2, 5), root))
        G = with_u(zoo[name], us=[0.0, 1.0, 0.0, 2.0, -1.0], name=f"fr-{root}-{name}")
        emit(f"zero-u {name} root={root!r}", lambda: shared.automated_equation(G, 0.4, root))

# ---------------------------------------------------------------- 3. name collisions (cache keyed by name): unnamed graphs, same names
coll = AutomatedEquation()
for name in ["C4", "P4", "K4", "S4", "diamond", "K2", "K1", "C3"]:
    G = with_u(zoo[name], us=[0.9, 0.8, 0.7, 0.6, 0.5])  # name == ""
    for root in G.nodes():
        emit(f"collide {name} root={root!r}", lambda: coll.automated_equation(G, 0.35, root))
OUT.append("collide caches " + caches(coll))

# ---------------------------------------------------------------- 4. malformed / boundary inputs
bad = AutomatedEquation()
null = nx.Graph(name="null")
emit("null graph root 0", lambda: bad.automated_equation(null, 0.5, 0))
emit("null graph subgraphs", lambda: bad.get_connected_subgraphs(null, 0))
emit("null graph edgecombs", lambda: bad.get_edge_combinations(null, []))
emit("null graph us", lambda: bad.get_us(null, 0))
OUT.append("bad caches " + caches(bad))
one = with_u(nx.empty_graph(1), name="one")
emit("single vertex", lambda: bad.automated_equation(one, 0.5, 0))
emit("single vertex edgecombs", lambda: bad.get_edge_combinations(one, [0]))
emit("single vertex edgecombs again", lambda: bad.get_edge_combinations(one, [0]))
emit("single vertex us", lambda: bad.get_us(one, 0))
emit("single vertex us other root", lambda: bad.get_us(one, 5))
missing = with_u(nx.cycle_graph(4), name="missing-root")
emit("root not in G", lambda: bad.automated_equation(missing, 0.5, 17))
emit("root not in G again", lambda: bad.automated_equation(missing, 0.5, 17))
emit("root unhashable", lambda: bad.automated_equation(missing, 0.5, [0]))
emit("root None", lambda: bad.automated_equation(missing, 0.5, None))
disc = with_u(nx.Graph([(0, 1), (2, 3), (3, 4), (4, 2)]), name="disc")
disc.add_node(9, u=0.25)
for root in disc.nodes():
    emit(f"disconnected root={root}", lambda: bad.automated_equation(disc, 0.5, root))
    emit(f"disconnected root={root} again", lambda: bad.automated_equation(disc, 0.25, root))
emit("disconnected edgecombs", lambda: bad.get_edge_combinations(disc, [0, 1]))
emit("disconnected us", lambda: bad.get_us(disc, 0))
nou = nx.cycle_graph(4); nou.name = "no-u"
for root in nou.nodes():
    emit(f"no u attribute root={root}", lambda: bad.automated_equation(nou, 0.5, root))
partial = nx.path_graph(3); partial.name = "partial-u"; partial.nodes[1]["u"] = 0.5
for root in partial.nodes():
    emit(f"partial u root={root}", lambda: bad.automated_equation(partial, 0.5, root))
stru = with_u(nx.path_graph(3), us=["x", 2, 0.5], name="str-u")
for root in stru.nodes():
    emit(f"string u root={root}", lambda: bad.automated_equation(stru, 0.5, root))
for p in ["0.5", None, [0.5], np.float64(0.5), np.array([0.1, 0.9])]:
    G = with_u(nx.cycle_graph(3), us=[0.5, 0.25, 0.125], name="odd-p")
    emit(f"odd p {p!r}", lambda: bad.automated_equation(G, p, 0))
dg = nx.DiGraph([(0, 1), (1, 2), (2, 0)], name="digraph"); nx.set_node_attributes(dg, 0.5, "u")
dg2 = nx.DiGraph([(0, 1)], name="digraph2"); dg2.add_nodes_from([2, 3, 4]); nx.set_node_attributes(dg2, 0.5, "u")
mg = nx.MultiGraph([(0, 1), (0, 1), (1, 2), (2, 0)], name="multigraph"); nx.set_node_attributes(mg, 0.5, "u")
for H in (dg, dg2, mg):
    for root in list(H.nodes()):
        emit(f"{H.name} root={root}", lambda: bad.automated_equation(H, 0.5, root))
    emit(f"{H.name} edgecombs", lambda: bad.get_edge_combinations(H, [0, 1]))
    emit(f"{H.name} subgraphs", lambda: bad.get_connected_subgraphs(H, 0))
    emit(f"{H.name} us", lambda: bad.get_us(H, 0))
nan = float("nan")
ng = nx.Graph([(nan, 1), (1, 2)], name="nan-node"); nx.set_node_attributes(ng, 0.5, "u")
for root in list(ng.nodes()) + [float("nan")]:
    emit(f"nan-node root={root!r}", lambda: bad.automated_equation(ng, 0.5, root))
    emit(f"nan-node us root={root!r}", lambda: bad.get_us(ng, root))
frozen = nx.freeze(with_u(nx.cycle_graph(4), us=[0.5], name="frozen"))
for root in frozen.nodes():
    emit(f"frozen root={root}", lambda: bad.automated_equation(frozen, 0.5, root))
emit("not a graph", lambda: bad.automated_equation({0: [1]}, 0.5, 0))
emit("not a graph us", lambda: bad.get_us([0, 1], 0))
emit("not a graph ec", lambda: bad.get_edge_combinations(None, [0]))
emit("not a graph cs", lambda: bad.get_connected_subgraphs(None, 0))
OUT.append("bad caches " + caches(bad))

# ---------------------------------------------------------------- 5. the helper methods directly
hp = AutomatedEquation()
for name, G0 in zoo.items():
    G = with_u(G0, name=f"h-{name}")
    for root in G.nodes():
        emit(f"cs {name} {root!r}", lambda: hp.get_connected_subgraphs(G, root))
        r1 = hp.get_connected_subgraphs(G, root)
        r2 = hp.get_connected_subgraphs(G, root)
        OUT.append(f"   same object on repeat: {r1 is r2} cached is returned: {hp._connected_subgraphs[f'{root}-{G.name}'] is r1}")
        emit(f"us {name} {root!r}", lambda: hp.get_us(G, root))
    emit(f"us {name} absent root", lambda: hp.get_us(G, "absent"))
    for c in ([0], [0, 1], list(G.nodes()), [], "abc", None):
        emit(f"ec {name} c={c!r}", lambda: hp.get_edge_combinations(G, c))
        e1 = hp.get_edge_combinations(G, c)
        OUT.append(f"   cached is returned: {hp._edge_combinations[f'{c}-{G.name}'] is e1}")
OUT.append("helper caches " + caches(hp))

# caller mutates the returned (cached) lists, then re-evaluates
def mutated_case(tag, extra):
    mu = AutomatedEquation()
    G = with_u(nx.cycle_graph(4), us=[0.5, 0.6, 0.7, 0.8], name="mut")
    emit(f"mut {tag} first", lambda: mu.automated_equation(G, 0.3, 0))
    lst = mu.get_connected_subgraphs(G, 0)
    if extra is None:
        del lst[:]
    else:
        lst.append(extra)
    emit(f"mut {tag}", lambda: mu.automated_equation(G, 0.3, 0))
    emit(f"mut {tag} again", lambda: mu.automated_equation(G, 0.6, 0))
    OUT.append(f"mut {tag} caches " + caches(mu))


mutated_case("empty component appended", set())
mutated_case("rootless singleton appended", {2})
mutated_case("rootless adjacent pair appended", {1, 2})
mutated_case("rootless disconnected pair appended", {1, 3})
mutated_case("component with foreign vertex", {0, 1, 2, 3, 99})
mutated_case("foreign singleton", {99})
mutated_case("foreign pair", {98, 99})
mutated_case("duplicate full component", {0, 1, 2, 3})
mutated_case("disconnected component with root", {0, 2})
mutated_case("list component", [0, 1])
mutated_case("tuple component with duplicates", (0, 1, 1))
mutated_case("non-iterable component", 5)
mutated_case("emptied", None)

# ---------------------------------------------------------------- 6. the private recursion with odd arguments
pr = AutomatedEquation()
G = nx.Graph([(0, 1), (1, 2), (2, 3), (3, 0), (0, 2), (3, 4)])


def snap(x):
    try:
        return type(x).__name__ + fmt(list(x))
    except TypeError:
        return repr(x)


def rec(subgraph, possible, excluded, max_size, H=G):
    res = []
    sub0, pos0, exc0 = snap(subgraph), snap(possible), snap(excluded)
    try:
        ret = pr._get_connected_subgraphs(H, subgraph, possible, excluded, res, max_size)
    finally:
        OUT.append("   partial results " + fmt(res) + f" args mutated: {snap(subgraph) != sub0},{snap(possible) != pos0},{snap(excluded) != exc0}")
    return ret, res


emit("rec normal", lambda: rec({0}, set(G.neighbors(0)), {0}, 5))
emit("rec max 0", lambda: rec({0}, set(G.neighbors(0)), {0}, 0))
emit("rec max 1", lambda: rec({0}, set(G.neighbors(0)), {0}, 1))
emit("rec max 2", lambda: rec({0}, set(G.neighbors(0)), {0}, 2))
emit("rec max 3", lambda: rec({0}, set(G.neighbors(0)), {0}, 3))
emit("rec max 99", lambda: rec({0}, set(G.neighbors(0)), {0}, 99))
emit("rec max -1", lambda: rec({0}, set(G.neighbors(0)), {0}, -1))
emit("rec max None", lambda: rec({0}, set(G.neighbors(0)), {0}, None))
emit("rec empty excluded", lambda: rec({0}, set(G.neighbors(0)), set(), 5))
emit("rec empty excluded big", lambda: rec({0}, set(G.neighbors(0)), set(), 99))
emit("rec possible overlaps excluded", lambda: rec({0}, {0, 1, 2, 3}, {0, 1}, 5))
emit("rec possible == excluded", lambda: rec({0}, {0, 1}, {0, 1}, 5))
emit("rec possible empty", lambda: rec({0}, set(), {0}, 5))
emit("rec possible foreign", lambda: rec({0}, {1, 77}, {0}, 5))
emit("rec empty subgraph", lambda: rec(set(), {0}, set(), 5))
emit("rec frozensets", lambda: rec(frozenset({0}), frozenset(G.neighbors(0)), frozenset({0}), 5))
emit("rec excluded list", lambda: rec({0}, set(G.neighbors(0)), [0], 5))
emit("rec possible list", lambda: rec({0}, list(G.neighbors(0)), {0}, 5))
emit("rec excluded keys view", lambda: rec({0}, set(G.neighbors(0)), {0: 1}.keys(), 5))
emit("rec excluded dict", lambda: rec({0}, set(G.neighbors(0)), {0: 1}, 5))
emit("rec excluded None", lambda: rec({0}, set(G.neighbors(0)), None, 5))
emit("rec subgraph list", lambda: rec([0], set(G.neighbors(0)), {0}, 5))
emit("rec results None", lambda: pr._get_connected_subgraphs(G, {0}, {1}, {0}, None, 5))
emit("rec digraph", lambda: rec({0}, {1}, {0}, 3, H=nx.DiGraph([(0, 1), (1, 2), (2, 0)])))
emit("rec multigraph", lambda: rec({0}, {1, 2}, {0}, 3, H=nx.MultiGraph([(0, 1), (0, 1), (1, 2), (2, 0)])))
emit("rec graph None", lambda: rec({0}, {1}, {0}, 3, H=None))
for i in range(40):
    H = rand_connected(random.randint(1, 6), random.randint(0, 5))
    root = random.choice(list(H.nodes()))
    sub = set(random.sample(list(H.nodes()), random.randint(0, len(H))))
    pos = set(random.sample(list(H.nodes()) + [50, 51], random.randint(0, len(H))))
    exc = set(random.sample(list(H.nodes()) + [50], random.randint(0, len(H))))
    ms = random.randint(-1, 7)
    emit(f"rec random {i} edges={sorted(H.edges())} sub={sorted(sub)} pos={sorted(pos)} exc={sorted(exc)} max={ms}",
         lambda: rec(sub, pos, exc, ms, H=H))

# ---------------------------------------------------------------- 7. order independence on one object vs a fresh one
jobs = []
for name in ["K2", "P3", "P4", "C3", "C4", "C5", "diamond", "paw", "bowtie", "K4", "house", "rnd2", "rnd3", "rnd4"]:
    for root in zoo[name].nodes():
        jobs.append((name, root))
one_obj = AutomatedEquation()
for trial in range(3):
    random.shuffle(jobs)
    for name, root in jobs:
        p = random.choice([0.0, 1.0, 0.2, 0.5, 0.9])
        us = [random.choice([0.0, 1.0, random.random()]) for _ in range(6)]
        G = with_u(zoo[name], us=us, name=f"{root}-{name}")
        v1 = one_obj.automated_equation(G, p, root)
        v2 = AutomatedEquation().automated_equation(G, p, root)
        OUT.append(f"order t{trial} {name} {root!r} p={p!r} -> {fmt(v1)} fresh-equal={v1 == v2 or (v1 != v1 and v2 != v2)}")
OUT.append("one_obj caches " + caches(one_obj))

# ---------------------------------------------------------------- RNG states afterwards
OUT.append("random state " + hashlib.sha256(repr(random.getstate()).encode()).hexdigest())
st = np.random.get_state()
OUT.append("numpy state " + hashlib.sha256(repr((st[0], st[1].tolist(), st[2], st[3], st[4])).encode()).hexdigest())

blob = "\n".join(OUT)
print(blob)
print("LINES", len(OUT))
print("DIGEST", hashlib.sha256(blob.encode()).hexdigest())
