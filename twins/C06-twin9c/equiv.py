import sys, os; sys.path.insert(0, os.getcwd())
import hashlib
import random

import numpy as np

from gcmpy.joint_degree.joint_degree_distribution import JointDegreeDistribution
from gcmpy.joint_degree.joint_degree_factory import JointDegreeFactory
from gcmpy.joint_degree.joint_degree_loaders.joint_degree_function import JointDegreeFunction
from gcmpy.joint_degree.joint_degree_type import JointDegreeType
from gcmpy.names.joint_degree_names import JointDegreeNames as N

random.seed(31337)
np.random.seed(31337)
CALLS = []


def rng_digest():
    h = hashlib.sha256()
    h.update(repr(random.getstate()).encode())
    st = np.random.get_state()
    h.update(repr((st[0], st[1].tolist(), st[2], st[3], st[4])).encode())
    return h.hexdigest()[:20]


def show(tag, obj):
    jdd = obj.jdd
    if isinstance(jdd, dict):
        body = [(repr(k), [type(x).__name__ for x in k] if isinstance(k, tuple) else None, repr(v))
                for k, v in jdd.items()]
        if len(body) > 14:
            hh = hashlib.sha256(repr(body).encode()).hexdigest()[:24]
            body = body[:6] + [("...", len(body), hh)] + body[-4:]
    else:
        body = repr(jdd)
    print(tag, body, "ms", repr(obj.motif_sizes), "calls", len(CALLS),
          hashlib.sha256(repr(CALLS).encode()).hexdigest()[:12], "rng", rng_digest())


def attempt(tag, f):
    try:
        r = f()
        print(tag, "ok")
        return r
    except BaseException as e:  # noqa
        print(tag, "EXC", type(e).__name__, str(e)[:120], "calls", len(CALLS), "rng", rng_digest())
        return None


def fp_sum(jd):
    CALLS.append(("sum", repr(jd), [type(x).__name__ for x in jd]))
    return 1.0 / (1 + sum(jd))


def fp_rand(jd):
    CALLS.append(("rand", repr(jd)))
    return random.random() + np.random.random()


def fp_fail_at(n):
    state = {"n": 0}

    def f(jd):
        state["n"] += 1
        CALLS.append(("fail", repr(jd), state["n"]))
        if state["n"] == n:
            raise ArithmeticError("stop")
        return float(state["n"])
    return f


def fp_mutating(jd):
    CALLS.append(("mut", repr(jd)))
    try:
        jd += (99,)
    except Exception:
        pass
    return len(jd)


class Idx:
    """integer-like bound that logs every conversion."""

    def __init__(self, v, boom=None):
        self.v = v
        self.boom = boom

    def __index__(self):
        CALLS.append(("index", self.v))
        if self.boom:
            raise self.boom("idx")
        return self.v

    def __add__(self, o):
        CALLS.append(("add", self.v, o))
        return Idx(self.v + o, self.boom)

    def __repr__(self):
        return "Idx(%d)" % self.v


class Bounds:
    """iterable of bounds that logs its consumption."""

    def __init__(self, items):
        self.items = items

    def __iter__(self):
        CALLS.append(("iter-bounds",))
        for it in self.items:
            CALLS.append(("yield", repr(it)))
            yield it


def gen_bounds():
    CALLS.append(("gen-start",))
    yield (0, 2)
    CALLS.append(("gen-mid",))
    yield (1, 2)
    CALLS.append(("gen-end",))


bounds_cases = [
    ("2d", [(0, 3), (0, 2)]),
    ("1d", [(0, 5)]),
    ("3d", [(0, 2), (1, 3), (2, 2)]),
    ("5d", [(0, 1)] * 5),
    ("tuple", ((0, 3), (1, 4))),
    ("single-point", [(4, 4), (7, 7)]),
    ("empty-dim", [(3, 2), (0, 2)]),
    ("empty-dim-last", [(0, 2), (5, 1)]),
    ("eq-minus1", [(0, -1)]),
    ("negative", [(-2, 1), (0, 1)]),
    ("no-dims", []),
    ("no-dims-tuple", ()),
    ("lists", [[0, 2], [1, 2]]),
    ("big", [(0, 40), (0, 40)]),
    ("wide", [(0, 3000)]),
    ("float-hi", [(0, 2.0), (0, 1)]),
    ("float-lo", [(0.0, 2), (0, 1)]),
    ("str-hi", [(0, "2")]),
    ("str-lo", [("0", 2)]),
    ("none-hi", [(0, None)]),
    ("bool", [(False, True), (0, 1)]),
    ("npint", [(np.int64(0), np.int64(2)), (np.int32(1), np.int8(2))]),
    ("npfloat", [(0, np.float64(2.0))]),
    ("nparr", np.array([[0, 2], [1, 3]])),
    ("nparr-float", np.array([[0.0, 2.0]])),
    ("triple", [(0, 1, 2)]),
    ("single", [(0,)]),
    ("scalar-entry", [3]),
    ("flat", (0, 50)),
    ("none", None),
    ("int", 5),
    ("str", "ab"),
    ("str-pairs", ["01", "12"]),
    ("dict", {(0, 2): 1, (1, 2): 2}),
    ("dict-int", {0: 1}),
    ("set", {(0, 2)}),
    ("overflow", [(0, 10 ** 30)]),
    ("overflow2", [(0, 1), (-10 ** 30, 10 ** 30)]),
    ("memerr", [(0, 1), (0, 10 ** 15)]),
    ("late-error", [(0, 2), (0, "x")]),
    ("late-error2", [(0, 2), 7]),
    ("idx", [(Idx(0), Idx(2)), (0, 1)]),
    ("idx-boom", [(0, 1), (Idx(0), Idx(2, KeyError))]),
    ("idx-lo-boom", [(Idx(0, OverflowError), 2)]),
    ("logging-iterable", Bounds([(0, 2), (1, 2)])),
    ("logging-iterable-bad", Bounds([(0, 2), (1,)])),
    ("generator", "GEN"),
    ("range-pair", [range(0, 2), range(3, 5)]),
    ("range-pair2", [range(1, 3)]),
    ("iter-pair", [iter([0, 2])]),
]

fps = [("sum", lambda: fp_sum), ("rand", lambda: fp_rand), ("fail3", lambda: fp_fail_at(3)),
       ("fail1", lambda: fp_fail_at(1)), ("mut", lambda: fp_mutating), ("none", lambda: None),
       ("notcallable", lambda: 3)]

for bname, b in bounds_cases:
    for fname, mk in fps:
        if bname in ("big", "wide") and fname not in ("sum", "fail3"):
            continue
        tag = "fn[%s,%s]" % (bname, fname)

        def mkp():
            return {N.MOTIF_SIZES: [2, 3], N.FP: mk(),
                    N.LOW_HIGH_DEGREE_BOUND: gen_bounds() if isinstance(b, str) and b == "GEN" else b,
                    N.JOINT_DEGREE_TYPE: "function"}
        o = attempt(tag, lambda: JointDegreeFunction(mkp()))
        if o is not None:
            show(tag, o)
            for rep in range(2):
                attempt(tag + " again%d" % rep, o.create_jdd)
                show(tag + " again%d" % rep, o)
            if fname == "sum":
                attempt(tag + " sample", lambda: print(tag, o.sample_jds_from_jdd(4)))
        o = attempt(tag + " load", lambda: JointDegreeDistribution.load_joint_degree(mkp()))
        if o is not None:
            show(tag + " load", o)
        o = attempt(tag + " factory", lambda: JointDegreeFactory.resolve_joint_degree(
            JointDegreeType.JOINT_FUNCTION, mkp()))
        if o is not None:
            show(tag + " factory", o)

# one object: failed re-initialisation and state left behind
base = JointDegreeFunction({N.MOTIF_SIZES: [2, 3], N.FP: fp_sum, N.LOW_HIGH_DEGREE_BOUND: [(0, 2), (0, 1)]})
show("base", base)
for bname, b in bounds_cases:
    if bname in ("big", "wide"):
        continue
    bb = gen_bounds() if isinstance(b, str) and b == "GEN" else b
    attempt("reinit[%s]" % bname, lambda: base.__init__(
        {N.MOTIF_SIZES: [5], N.FP: fp_fail_at(4), N.LOW_HIGH_DEGREE_BOUND: bb}))
    show("reinit[%s]" % bname, base)
    attempt("reinit[%s] create" % bname, base.create_jdd)
    show("reinit[%s] create" % bname, base)
for drop in (N.MOTIF_SIZES, N.FP, N.LOW_HIGH_DEGREE_BOUND):
    p = {N.MOTIF_SIZES: [2, 3], N.FP: fp_sum, N.LOW_HIGH_DEGREE_BOUND: [(0, 1)]}
    del p[drop]
    attempt("missing %s" % drop.name, lambda: JointDegreeFunction(p))
    attempt("missing %s reinit" % drop.name, lambda: base.__init__(p))
    show("missing %s" % drop.name, base)
    attempt("missing %s create" % drop.name, base.create_jdd)
    show("missing %s create" % drop.name, base)
attempt("nondict", lambda: JointDegreeFunction([1]))
base.jdd = {"k": 1}
base.motif_sizes = (1,)
attempt("after setter", base.create_jdd)
show("after setter", base)
print("final", rng_digest(), len(CALLS), hashlib.sha256(repr(CALLS).encode()).hexdigest())
