"""Deterministic digest of the joint-degree loaders (run with cwd = a checkout)."""
import hashlib
import os
import random
import sys

sys.path.insert(0, os.getcwd())

import numpy as np

from gcmpy.joint_degree.joint_degree_distribution import JointDegreeDistribution
from gcmpy.joint_degree.joint_degree_factory import JointDegreeFactory
from gcmpy.joint_degree.joint_degree_type import JointDegreeType
from gcmpy.joint_degree.joint_degree_loaders.joint_degree_manual import JointDegreeManual
from gcmpy.joint_degree.joint_degree_loaders.joint_degree_empirical import JointDegreeEmpirical
from gcmpy.joint_degree.joint_degree_loaders.joint_degree_marginal import JointDegreeMarginal
from gcmpy.joint_degree.joint_degree_loaders.joint_degree_function import JointDegreeFunction
from gcmpy.names.joint_degree_names import JointDegreeNames as N
from gcmpy.distributions.poisson import poisson
from gcmpy.distributions.power_law import power_law


def digest(obj) -> str:
    return hashlib.sha256(repr(obj).encode()).hexdigest()[:20]


def show(label, jdd):
    # insertion order, key types and exact float reprs are all part of the digest
    items = [(k, type(k).__name__, repr(v), type(v).__name__) for k, v in jdd.items()]
    head = list(jdd.items())[:3]
    print(f"{label}: n={len(jdd)} sum={sum(jdd.values())!r} digest={digest(items)} head={head!r}")


def rng_state():
    return digest(random.getstate()) + "/" + digest(np.random.get_state()[1].tolist())


def seed(s):
    random.seed(s)
    np.random.seed(s)


calls = []


def logged(f, tag):
    def g(k):
        calls.append((tag, k))
        return f(k)
    return g


def joint_fp(jd):
    calls.append(("joint", jd))
    return poisson(1.7)(jd[0]) * poisson(0.8)(jd[1]) * (1 + 0.1 * ((jd[0] + jd[1]) % 3))


def int_fp(jd):
    return sum(jd) + 1


def params_list():
    out = []
    man = {(1, 0): 0.25, (0, 1): 0.25, (2, 2): 0.5}
    out.append(("manual", {N.JOINT_DEGREE_TYPE: "manual", N.JDD: man, N.MOTIF_SIZES: [2, 3]}))
    out.append(("manual_unnormalised", {N.JOINT_DEGREE_TYPE: "manual", N.JDD: {(3,): 2, (1,): 5}, N.MOTIF_SIZES: [2]}))
    r = random.Random(5)
    jds = [(r.randrange(0, 5), r.randrange(0, 3), r.randrange(1, 4)) for _ in range(997)]
    out.append(("empirical", {N.JOINT_DEGREE_TYPE: "empirical", N.JDS: jds, N.MOTIF_SIZES: [2, 3, 4]}))
    out.append(("empirical_small", {N.JOINT_DEGREE_TYPE: "empirical", N.JDS: [(1, 2), (1, 2), (0, 0)], N.MOTIF_SIZES: [2, 3]}))
    out.append(("empirical_empty", {N.JOINT_DEGREE_TYPE: "empirical", N.JDS: [], N.MOTIF_SIZES: [2]}))
    for name, bounds in (("a", [(0, 12), (1, 9)]), ("b", [(2, 7), (0, 5), (1, 4)]), ("c", [(0, 1), (3, 3)])):
        fps = [logged(poisson(2.5), "p0"), logged(poisson(1.1), "p1")]
        if name == "b":
            fps.append(logged(power_law(2.2), "p2"))
        base = {N.JOINT_DEGREE_TYPE: "marginal", N.ARR_FP: fps, N.MOTIF_SIZES: [2, 3, 4][: len(bounds)],
                N.LOW_HIGH_DEGREE_BOUND: bounds}
        out.append((f"marginal_direct_{name}", dict(base)))
        out.append((f"marginal_direct_flag_{name}", {**base, N.USE_SAMPLING: False}))
        if name != "c":
            out.append((f"marginal_sampling_{name}", {**base, N.USE_SAMPLING: True, N.N_SAMPLES: 3001}))
            out.append((f"marginal_sampling_truthy_{name}", {**base, N.USE_SAMPLING: 1, N.N_SAMPLES: 17}))
    out.append(("function", {N.JOINT_DEGREE_TYPE: "function", N.FP: joint_fp, N.MOTIF_SIZES: [2, 3],
                             N.LOW_HIGH_DEGREE_BOUND: [(0, 9), (1, 6)]}))
    out.append(("function_int", {N.JOINT_DEGREE_TYPE: "function", N.FP: int_fp, N.MOTIF_SIZES: [2, 3, 4],
                                 N.LOW_HIGH_DEGREE_BOUND: [(0, 3), (2, 2), (1, 4)]}))
    out.append(("function_emptybox", {N.JOINT_DEGREE_TYPE: "function", N.FP: int_fp, N.MOTIF_SIZES: [2, 3],
                                      N.LOW_HIGH_DEGREE_BOUND: [(0, 3), (5, 2)]}))
    return out


CLASSES = {"manual": JointDegreeManual, "empirical": JointDegreeEmpirical,
           "marginal": JointDegreeMarginal, "function": JointDegreeFunction}


def main():
    for i, (label, params) in enumerate(params_list()):
        kind = params[N.JOINT_DEGREE_TYPE]
        # 1. direct construction
        seed(100 + i)
        del calls[:]
        direct = CLASSES[kind](params)
        show(f"{label}/direct", direct.jdd)
        print(f"  type={direct._type} motif_sizes={direct.motif_sizes} calls={len(calls)}:{digest(calls)} rng={rng_state()}")
        # 2. type-dispatching entry point (fresh seed, same stream as direct + second create_jdd)
        seed(100 + i)
        del calls[:]
        loaded = JointDegreeDistribution.load_joint_degree(params)
        show(f"{label}/loaded", loaded.jdd)
        print(f"  class={type(loaded).__name__} calls={len(calls)}:{digest(calls)} rng={rng_state()}")
        if kind == "manual":
            print(f"  manual identity: {loaded.jdd is params[N.JDD]} {direct.jdd is params[N.JDD]}")
        # 3. factory alone, then call history: repeated create_jdd and sampling
        seed(200 + i)
        del calls[:]
        fac = JointDegreeFactory.resolve_joint_degree(JointDegreeType(kind), params)
        fac.create_jdd()
        fac.create_jdd()
        show(f"{label}/factory+2", fac.jdd)
        if len(fac.jdd) and sum(fac.jdd.values()) > 0:
            jds = fac.sample_jds_from_jdd(57)
            print(f"  jds={digest(jds)} calls={len(calls)}:{digest(calls)} rng={rng_state()}")
        # 4. base-class helpers on a live object
        if kind == "marginal":
            alljd = fac.generate_all_joint_degrees()
            print(f"  all_jd n={len(alljd)} type={type(alljd).__name__} digest={digest(alljd)}")
            probs = [fac.evaluate_prob_of_joint_degree(jd) for jd in alljd[:40]]
            print(f"  probs={digest(probs)}")
            seed(300 + i)
            fac._n_samples = 23
            draws = fac.draw_from_analytical_joint()
            print(f"  draws={draws[:4]!r} types={sorted({type(x).__name__ for jd in draws for x in jd})} digest={digest(draws)} rng={rng_state()}")
            fac.create_jdd_directly()
            show(f"{label}/directly", fac.jdd)
            fac.create_jdd_by_sampling()
            show(f"{label}/by_sampling", fac.jdd)
        fac.jdd = {(1, 1): 2, (0, 3): 6.0, (2, 0): 0}
        before_obj = fac.jdd
        fac.normalise_jdd()
        show(f"{label}/normalised", fac.jdd)
        print(f"  in place: {fac.jdd is before_obj}")
        fac.convert_jds_to_jdd([(0, 1), (2, 2), (0, 1), (5, 5), (2, 2), (0, 1)])
        show(f"{label}/converted", fac.jdd)
        print(f"  fresh dict: {fac.jdd is not before_obj}")

    # error paths
    for bad in ({N.JOINT_DEGREE_TYPE: "nonsense"}, {}, {N.JOINT_DEGREE_TYPE: "manual"}):
        try:
            JointDegreeDistribution.load_joint_degree(bad)
            print("no error")
        except BaseException as e:
            print(f"error: {type(e).__name__}: {e}")
    for t in ("manual", None, JointDegreeType.UNDEFINED):
        try:
            JointDegreeFactory.resolve_joint_degree(t, {})
            print("no error")
        except BaseException as e:
            print(f"error: {type(e).__name__}: {e}")
    # exceptions mid-way leave the same partial state
    def boom(jd):
        if jd == (1, 2):
            raise RuntimeError("boom")
        return 1.0
    obj = JointDegreeFunction({N.FP: int_fp, N.MOTIF_SIZES: [2, 3], N.LOW_HIGH_DEGREE_BOUND: [(0, 2), (1, 3)]})
    obj._fp = boom
    try:
        obj.create_jdd()
    except RuntimeError as e:
        show(f"partial/function ({e})", obj.jdd)
    m = JointDegreeMarginal({N.ARR_FP: [poisson(1.0), poisson(2.0)], N.MOTIF_SIZES: [2, 3], N.LOW_HIGH_DEGREE_BOUND: [(0, 3), (0, 3)]})
    m._arr_fp = [poisson(1.0), lambda k: boom((1, k))]
    try:
        m.create_jdd()
    except RuntimeError as e:
        show(f"partial/marginal ({e})", m.jdd)
    e = JointDegreeEmpirical({N.JDS: [(1, 1)], N.MOTIF_SIZES: [2, 3]})
    try:
        e.convert_jds_to_jdd([[1, 2], [3, 4]])
    except TypeError as ex:
        show(f"partial/empirical ({ex})", e.jdd)


if __name__ == "__main__":
    main()
