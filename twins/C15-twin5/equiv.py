"""
Equivalence digest for gcmpy/message_passing/equations/automated_equation.py.
Run with cwd = a checkout. Uses only the pre-existing signatures.
"""
import hashlib
import os
import random
import sys

if os.environ.get("PYTHONHASHSEED") != "0":
    # string-labelled vertices live in sets: pin the hash seed so the digest is reproducible
    env = dict(os.environ)
    env["PYTHONHASHSEED"] = "0"
    os.execve(sys.executable, [sys.executable] + sys.argv, env)

sys.path.insert(0, os.getcwd())

import numpy as np
import networkx as nx

from gcmpy.message_passing.equations.automated_equation import AutomatedEquation
from gcmpy.message_passing.equations import AutomatedEquation as AE2
from gcmpy.message_passing.message_passing import MessagePassing

random.seed(12345)
np.random.seed(12345)

LINES = []


def emit(*parts):
    line = " ".join(str(x) for x in parts)
    LINES.append(line)
    print(line)


def graph_state(G):
    return (
        repr(G.name),
        repr(list(G.nodes(data=True))),
        repr(list(G.edges(data=True))),
    )


def attempt(label, f):
    try:
        r = f()
        emit(label, "->", repr(r))
        return r
    except BaseException as e:  # noqa
        emit(label, "!!", type(e).__name__, repr(e.args))
        return None


def attempt_type(label, f):
    # for arity probes: the TypeError text names the arity, so only the type is recorded
    try:
        r = f()
        emit(label, "->", repr(r))
    except BaseException as e:  # noqa
        emit(label, "!!", type(e).__name__)


def cache_state(ae):
    return (
        repr([(k, v) for k, v in ae._connected_subgraphs.items()]),
        repr([(k, v) for k, v in ae._edge_combinations.items()]),
    )


def set_us(G, us):
    nx.set_node_attributes(G, us, "u")


def make(kind, n=None, name=None, us=None):
    if kind == "clique":
        G = nx.complete_graph(n)
    elif kind == "cycle":
        G = nx.cycle_graph(n)
    elif kind == "path":
        G = nx.path_graph(n)
    elif kind == "star":
        G = nx.star_graph(n)
    elif kind == "diamond":
        G = nx.Graph()
        G.add_edges_from([(0, 1), (1, 2), (2, 3), (3, 0), (0, 2)])
    elif kind == "bowtie":
        G = nx.Graph()
        G.add_edges_from([(0, 1), (1, 2), (2, 0), (2, 3), (3, 4), (4, 2)])
    elif kind == "house":
        G = nx.house_graph()
    elif kind == "strnodes":
        G = nx.Graph()
        G.add_edges_from([("a", "b"), ("b", "c"), ("c", "a"), ("c", "d")])
    elif kind == "bignodes":
        G = nx.Graph()
        G.add_edges_from([(1000, 7), (7, 33), (33, 1000), (33, 512), (512, 7)])
    else:
        raise ValueError(kind)
    if name is not None:
        G.name = name
    if us is None:
        us = {v: random.random() for v in G.nodes()}
    elif not isinstance(us, dict):
        us = {v: us for v in G.nodes()}
    set_us(G, us)
    return G


emit("same class", AutomatedEquation is AE2)

# ---------------------------------------------------------------- 1. automated_equation
ae = AutomatedEquation()
emit("fresh caches", cache_state(ae))
specs = [
    ("clique", 2, "2-clique"), ("clique", 3, "3-clique"), ("clique", 4, "4-clique"),
    ("clique", 5, "5-clique"),
    ("cycle", 3, "3-cycle"), ("cycle", 4, "4-cycle"), ("cycle", 5, "5-cycle"),
    ("cycle", 6, "6-cycle"),
    ("path", 2, "2-path"), ("path", 4, "4-path"), ("star", 4, "4-star"),
    ("diamond", None, "diamond"), ("bowtie", None, "bowtie"), ("house", None, "house"),
    ("strnodes", None, "strnodes"), ("bignodes", None, "bignodes"),
]
phis = [0.0, 1.0, 0.5645231765, 0.1, 0.999999, 1e-12, 0.5, -0.25, 1.5]
graphs = []
for kind, n, name in specs:
    G = make(kind, n, name)
    graphs.append(G)
    before = graph_state(G)
    for root in list(G.nodes()):
        for phi in phis:
            attempt(f"AE {name} root={root!r} phi={phi!r}",
                    lambda: ae.automated_equation(G, phi, root))
    emit("unchanged input", name, graph_state(G) == before)
emit("caches after sweep", hashlib.sha256(repr(cache_state(ae)).encode()).hexdigest())
emit("cache keys", list(ae._connected_subgraphs), list(ae._edge_combinations))

# repeated calls on the same object, different order, new u values, fresh-object comparison
for G in reversed(graphs):
    set_us(G, {v: random.random() for v in G.nodes()})
    for root in reversed(list(G.nodes())):
        for phi in (0.3, 0.77):
            a = ae.automated_equation(G, phi, root)
            b = AutomatedEquation().automated_equation(G, phi, root)
            emit(f"AE2 {G.name} root={root!r} phi={phi!r}", repr(a), repr(b), a == b)
emit("caches after resweep", hashlib.sha256(repr(cache_state(ae)).encode()).hexdigest())

# exotic u / phi types
G = make("diamond", None, "diamond-types", us=1)
attempt("int us", lambda: ae.automated_equation(G, 0.5, 0))
G = make("diamond", None, "diamond-types2", us=0.0)
attempt("zero us", lambda: ae.automated_equation(G, 0.5, 0))
G = make("cycle", 4, "cycle-complex", us=complex(0.5, 0.25))
attempt("complex us", lambda: ae.automated_equation(G, 0.5, 1))
G = make("cycle", 4, "cycle-np", us=np.float64(0.3))
attempt("np us", lambda: ae.automated_equation(G, np.float64(0.25), 2))
attempt("np32 phi", lambda: ae.automated_equation(G, np.float32(0.25), 2))
from fractions import Fraction
G = make("clique", 4, "clique-frac", us=Fraction(1, 3))
attempt("fraction", lambda: ae.automated_equation(G, Fraction(2, 7), 3))
G = make("cycle", 4, "cycle-inf", us=float("inf"))
attempt("inf us", lambda: ae.automated_equation(G, 0.5, 0))
G = make("cycle", 4, "cycle-nan", us=float("nan"))
attempt("nan us", lambda: ae.automated_equation(G, 0.5, 0))
attempt("nan phi", lambda: ae.automated_equation(G, float("nan"), 0))

# name collisions / unnamed graphs on one evaluator (cache keyed by name)
ae3 = AutomatedEquation()
G1 = make("clique", 3, None, us=0.5)
G2 = make("path", 3, None, us=0.5)
attempt("unnamed clique", lambda: ae3.automated_equation(G1, 0.4, 0))
attempt("unnamed path (after clique)", lambda: ae3.automated_equation(G2, 0.4, 0))
attempt("unnamed path fresh", lambda: AutomatedEquation().automated_equation(G2, 0.4, 0))
emit("ae3 caches", cache_state(ae3))
G3 = make("cycle", 5, "same", us=0.5)
G4 = make("clique", 4, "same", us=0.5)
attempt("same-name 1", lambda: ae3.automated_equation(G3, 0.4, 0))
attempt("same-name 2", lambda: ae3.automated_equation(G4, 0.4, 0))
attempt("same-name 2 root 3", lambda: ae3.automated_equation(G4, 0.4, 3))
emit("ae3 caches 2", cache_state(ae3))

# error paths
ae4 = AutomatedEquation()
G = make("clique", 3, "err-clique")
attempt("root missing", lambda: ae4.automated_equation(G, 0.5, 17))
emit("ae4 caches", cache_state(ae4))
attempt("root None", lambda: ae4.automated_equation(G, 0.5, None))
attempt("root unhashable", lambda: ae4.automated_equation(G, 0.5, [0]))
attempt("phi str", lambda: ae4.automated_equation(G, "x", 0))
attempt("phi None", lambda: ae4.automated_equation(G, None, 0))
emit("ae4 caches b", cache_state(ae4))
Gn = nx.complete_graph(3)
Gn.name = "no-u"
attempt("missing u", lambda: ae4.automated_equation(Gn, 0.5, 0))
Gp = nx.complete_graph(3)
Gp.name = "partial-u"
Gp.nodes[1]["u"] = 0.5
attempt("partial u root 0", lambda: ae4.automated_equation(Gp, 0.5, 0))
attempt("partial u root 2", lambda: ae4.automated_equation(Gp, 0.5, 2))
Gs = nx.complete_graph(3)
Gs.name = "str-u"
nx.set_node_attributes(Gs, "a", "u")
attempt("str u", lambda: ae4.automated_equation(Gs, 0.5, 0))
attempt("G None", lambda: ae4.automated_equation(None, 0.5, 0))
attempt("G dict", lambda: ae4.automated_equation({}, 0.5, 0))
attempt_type("too many args", lambda: ae4.automated_equation(G, 0.5, 0, 1, 2, 3))
attempt("too few args", lambda: ae4.automated_equation(G, 0.5))
attempt("kw args", lambda: ae4.automated_equation(G=G, p=0.5, root=0))
attempt("bad kw", lambda: ae4.automated_equation(G, 0.5, 0, nonsense_keyword_xyz=1))
Ge = nx.Graph(name="empty")
attempt("empty graph", lambda: ae4.automated_equation(Ge, 0.5, 0))
G1n = nx.Graph(name="single")
G1n.add_node(0, u=0.3)
attempt("single node", lambda: ae4.automated_equation(G1n, 0.5, 0))
Gd = nx.Graph(name="disconnected")
Gd.add_edges_from([(0, 1), (2, 3)])
set_us(Gd, {v: 0.5 for v in Gd})
attempt("disconnected", lambda: ae4.automated_equation(Gd, 0.5, 0))
Gl = nx.Graph(name="selfloop")
Gl.add_edges_from([(0, 1), (1, 1), (1, 2)])
set_us(Gl, {v: 0.5 for v in Gl})
attempt("selfloop", lambda: ae4.automated_equation(Gl, 0.5, 0))
Gm = nx.MultiGraph(name="multi")
Gm.add_edges_from([(0, 1), (0, 1), (1, 2)])
set_us(Gm, {v: 0.5 for v in Gm})
attempt("multigraph", lambda: ae4.automated_equation(Gm, 0.5, 0))
Gdi = nx.DiGraph(name="digraph")
Gdi.add_edges_from([(0, 1), (1, 2), (2, 0)])
set_us(Gdi, {v: 0.5 for v in Gdi})
attempt("digraph", lambda: ae4.automated_equation(Gdi, 0.5, 0))
emit("ae4 caches c", cache_state(ae4))

# ---------------------------------------------------------------- 2. get_connected_subgraphs
ae5 = AutomatedEquation()
for G in graphs:
    for root in G.nodes():
        r1 = attempt(f"GCS {G.name} {root!r}", lambda: ae5.get_connected_subgraphs(G, root))
        r2 = ae5.get_connected_subgraphs(G, root)
        emit("  same object on repeat", r1 is r2, "is cached", r1 is ae5._connected_subgraphs[f"{root}-{G.name}"])
        emit("  as lists", [list(s) for s in r1])
attempt("GCS missing root", lambda: ae5.get_connected_subgraphs(graphs[0], 99))
attempt("GCS None", lambda: ae5.get_connected_subgraphs(None, 0))
attempt("GCS kw", lambda: ae5.get_connected_subgraphs(G=graphs[1], root=1))
attempt_type("GCS extra args", lambda: ae5.get_connected_subgraphs(graphs[1], 1, 2, 3))
attempt("GCS bad kw", lambda: ae5.get_connected_subgraphs(graphs[1], 1, nonsense_keyword_xyz=3))
emit("ae5 caches", hashlib.sha256(repr(cache_state(ae5)).encode()).hexdigest())
# mutation of the returned (cached) list is visible later
r = ae5.get_connected_subgraphs(graphs[1], 0)
r.append({"sentinel"})
emit("mutated cached", ae5.get_connected_subgraphs(graphs[1], 0)[-1])
r.pop()

# direct private helper
res = []
attempt("_GCS direct", lambda: ae5._get_connected_subgraphs(graphs[11], {0}, set(graphs[11].neighbors(0)), {0}, res, 4))
emit("_GCS res", res)
res = []
attempt("_GCS direct max 2", lambda: ae5._get_connected_subgraphs(graphs[11], {0}, set(graphs[11].neighbors(0)), {0}, res, 2))
emit("_GCS res2", res)
res = []
attempt("_GCS direct max 1", lambda: ae5._get_connected_subgraphs(graphs[11], {0}, set(graphs[11].neighbors(0)), {0}, res, 1))
emit("_GCS res3", res)

# ---------------------------------------------------------------- 3. get_edge_combinations
ae6 = AutomatedEquation()
for G in graphs:
    c = list(G.nodes())
    r1 = attempt(f"GEC {G.name}", lambda: ae6.get_edge_combinations(G, c))
    r2 = ae6.get_edge_combinations(G, c)
    emit("  same object on repeat", r1 is r2, "is cached", r1 is ae6._edge_combinations[f"{c}-{G.name}"])
    attempt(f"GEC {G.name} other c", lambda: ae6.get_edge_combinations(G, c[:2]))
    attempt(f"GEC {G.name} tuple c", lambda: ae6.get_edge_combinations(G, tuple(c)))
    attempt(f"GEC {G.name} None c", lambda: ae6.get_edge_combinations(G, None))
emit("GEC keys", list(ae6._edge_combinations))
attempt("GEC empty graph", lambda: ae6.get_edge_combinations(nx.Graph(name="e"), []))
attempt("GEC disconnected", lambda: ae6.get_edge_combinations(Gd, [0, 1]))
attempt("GEC None", lambda: ae6.get_edge_combinations(None, [0]))
attempt_type("GEC extra args", lambda: ae6.get_edge_combinations(graphs[0], [0], 1))
attempt("GEC bad kw", lambda: ae6.get_edge_combinations(graphs[0], [0], nonsense_keyword_xyz=1))
attempt("GEC kw", lambda: ae6.get_edge_combinations(G=graphs[2], c=[1, 2]))
emit("ae6 caches", hashlib.sha256(repr(cache_state(ae6)).encode()).hexdigest())
emit("inputs unchanged", [graph_state(G) for G in graphs[:3]])

# ---------------------------------------------------------------- 4. get_us
ae7 = AutomatedEquation()
for G in graphs:
    for root in list(G.nodes()) + [None, "zz", 99]:
        attempt(f"US {G.name} {root!r}", lambda: ae7.get_us(G, root))
attempt("US no u", lambda: ae7.get_us(Gn, 0))
attempt("US partial 0", lambda: ae7.get_us(Gp, 0))
attempt("US partial 1", lambda: ae7.get_us(Gp, 1))
attempt("US str", lambda: ae7.get_us(Gs, 0))
attempt("US empty", lambda: ae7.get_us(nx.Graph(), 0))
attempt("US None", lambda: ae7.get_us(None, 0))
attempt("US kw", lambda: ae7.get_us(G=graphs[3], root=2))
attempt_type("US extra", lambda: ae7.get_us(graphs[3], 2, "u", 4))
attempt("US bad kw", lambda: ae7.get_us(graphs[3], 2, nonsense_keyword_xyz=4))
Gu = nx.complete_graph(3)
nx.set_node_attributes(Gu, 0.5, "u")
nx.set_node_attributes(Gu, 0.25, "w")
attempt("US ignores other attrs", lambda: ae7.get_us(Gu, 0))
emit("ae7 caches", cache_state(ae7))

# ---------------------------------------------------------------- 5. constructor / object surface
attempt_type("ctor positional junk x3", lambda: AutomatedEquation(1, 2, 3))
attempt("ctor bad kw", lambda: AutomatedEquation(nonsense_keyword_xyz=1))
a8 = AutomatedEquation()
emit("bool", bool(a8))
attempt("len", lambda: len(a8))
attempt("iter", lambda: iter(a8))
attempt("contains", lambda: 0 in a8)
attempt("eq", lambda: a8 == AutomatedEquation())
attempt("hashable", lambda: isinstance(hash(a8), int))
emit("private state types", type(a8._edge_combinations).__name__, type(a8._connected_subgraphs).__name__)

# subclass overriding the collaborators with the historical signatures
class Sub(AutomatedEquation):
    def __init__(self):
        super().__init__()
        self.calls = []

    def get_us(self, G, root):
        self.calls.append(("us", root))
        return super().get_us(G, root)

    def get_edge_combinations(self, G, c):
        self.calls.append(("ec", tuple(c)))
        return super().get_edge_combinations(G, c)

    def get_connected_subgraphs(self, G, root):
        self.calls.append(("cs", root))
        return super().get_connected_subgraphs(G, root)

    def _get_connected_subgraphs(self, G, subgraph, possible, excluded, results, max_size):
        self.calls.append(("_cs", tuple(subgraph), max_size))
        return super()._get_connected_subgraphs(G, subgraph, possible, excluded, results, max_size)


sub = Sub()
Gsub = make("diamond", None, "sub-diamond", us=0.4)
attempt("subclass 1", lambda: sub.automated_equation(Gsub, 0.6, 0))
attempt("subclass 2", lambda: sub.automated_equation(Gsub, 0.6, 2))
attempt("subclass 1 again", lambda: sub.automated_equation(Gsub, 0.6, 0))
emit("subclass calls", sub.calls)

# ---------------------------------------------------------------- 6. through MessagePassing
def covered_graph():
    motifs = [
        ([0, 1, 2], [(0, 1), (0, 2), (1, 2)]),
        ([2, 3, 4], [(2, 3), (2, 4), (3, 4)]),
        ([4, 5, 6, 7], [(4, 5), (5, 6), (6, 7), (7, 4), (4, 6)]),
        ([7, 8], [(7, 8)]),
        ([8, 9, 10, 0], [(8, 9), (9, 10), (10, 0), (0, 8)]),
    ]
    Gc = nx.Graph()
    for uid, (vs, es) in enumerate(motifs):
        label = f"{len(vs)}-{vs}-{es}-{uid}".replace(" ", "")
        for (i, j) in es:
            Gc.add_edge(i, j, CoverLabel=label)
    return Gc


Gc = covered_graph()
gc_before = (repr(list(Gc.nodes(data=True))), repr(list(Gc.edges(data=True))))
mp = MessagePassing(Gc, iterations=4)
for phi in (0.0, 0.3, 0.6, 1.0, 0.6):
    attempt(f"MP theoretical phi={phi!r}", lambda: mp.theoretical(phi))
    emit("  H_tau", repr(sorted(mp._H_tau.items())))
emit("MP caches", hashlib.sha256(repr(cache_state(mp._AE)).encode()).hexdigest())
emit("MP cache keys", list(mp._AE._connected_subgraphs), list(mp._AE._edge_combinations))
emit("MP graph unchanged", gc_before == (repr(list(Gc.nodes(data=True))), repr(list(Gc.edges(data=True)))))
attempt("MP resolve_equation direct", lambda: mp.resolve_equation(4, Gc.edges[4, 5]["CoverLabel"], {5: 0.2, 6: 0.3, 7: 0.4}))
attempt("MP resolve_equation missing prod", lambda: mp.resolve_equation(4, Gc.edges[4, 5]["CoverLabel"], {5: 0.2}))

# ---------------------------------------------------------------- RNG state
emit("random state", hashlib.sha256(repr(random.getstate()).encode()).hexdigest())
emit("numpy state", hashlib.sha256(repr(np.random.get_state()).encode()).hexdigest())
emit("DIGEST", hashlib.sha256("\n".join(LINES).encode()).hexdigest())
