import sys, os; sys.path.insert(0, os.getcwd())

"""
Differential digest for the "tidy the two edge-list generators" commit.

Run with cwd = a checkout of gcmpy.  Exercises GCMAlgorithmFast,
GCMAlgorithmCustomMotifs (incl. `partition`) and, through them,
GCMAlgorithmNetwork / GCMAlgorithmMain.load_gcm_algorithm, on seeded inputs
and prints a deterministic digest: the three columns (repr), the order of the
callback calls, exception types, identity of joint_degrees, the state of the
RNGs afterwards and the (un)mutated inputs.
"""
import copy
import hashlib
import random
import warnings

warnings.simplefilter("ignore")

import numpy as np

from gcmpy.gcm_algorithm.gcm_algorithm_main import GCMAlgorithmMain
from gcmpy.gcm_algorithm.gcm_algorithm_custom_motifs import GCMAlgorithmCustomMotifs
from gcmpy.gcm_algorithm.gcm_algorithm_fast import GCMAlgorithmFast
from gcmpy.gcm_algorithm.gcm_algorithm_network import GCMAlgorithmNetwork
from gcmpy.motif_generators.clique_motif import clique_motif
from gcmpy.motif_generators.cycle_motif import cycle_motif
from gcmpy.names.gcm_algorithm_names import GCMAlgorithmNames
from gcmpy.names.network_names import NetworkNames


def rng_digest() -> str:
    h = hashlib.sha256()
    h.update(repr(random.getstate()).encode())
    st = np.random.get_state()
    h.update(repr((st[0], st[1].tolist(), st[2], st[3], st[4])).encode())
    return h.hexdigest()[:24]


def seed(s: int) -> None:
    random.seed(s)
    np.random.seed(s)


def show(x) -> str:
    """repr that is stable and tells containers / numpy arrays apart."""
    if isinstance(x, np.ndarray):
        return f"ndarray{x.tolist()!r}"
    if isinstance(x, (list, tuple)):
        body = ", ".join(show(i) for i in x)
        return f"[{body}]" if isinstance(x, list) else f"({body},)"
    return repr(x)


EVENTS = []


class Build:
    def __init__(self, tag, fn):
        self.tag, self.fn = tag, fn

    def __call__(self, vertices):
        EVENTS.append(("build", self.tag, type(vertices).__name__, tuple(vertices)))
        return self.fn(vertices)


class Names:
    def __init__(self, tag, value):
        self.tag, self.value = tag, value

    def __call__(self):
        EVENTS.append(("names", self.tag, random.random()))  # consumes the RNG
        if isinstance(self.value, BaseException):
            raise self.value
        return self.value


def dump_edge_list(el, jds) -> None:
    print("   edges     ", show(el.edge_list))
    print("   topologies", show(el.topologies))
    print("   motif_id  ", show(el.motif_id))
    print("   types     ", type(el).__name__, type(el.edge_list).__name__,
          type(el.topologies).__name__, type(el.motif_id).__name__,
          sorted({type(i).__name__ for i in el.motif_id}))
    print("   jds is    ", el.joint_degrees is jds)


def run(label, make, jds, seeds=(0, 1), calls=2) -> None:
    """make() -> algorithm object; call it `calls` times on one object."""
    for s in seeds:
        print(f"== {label} seed={s}")
        seed(s)
        del EVENTS[:]
        jds_before = copy.deepcopy(jds)
        try:
            algo = make()
        except BaseException as e:  # noqa
            print("   construct raised", type(e).__name__)
            print("   rng", rng_digest())
            continue
        for c in range(calls):
            try:
                out = algo.random_clustered_graph(jds)
            except BaseException as e:  # noqa
                print(f"   call {c} raised", type(e).__name__)
            else:
                print(f"   call {c} ->", type(out).__name__)
                if hasattr(out, "G"):
                    rows = [
                        (u, v, [(repr(k), show(x)) for k, x in d.items()])
                        for u, v, d in out.G.edges(data=True)
                    ]
                    print("   network   ", out.G.number_of_nodes(), rows)
                else:
                    dump_edge_list(out, jds)
            print(f"   events[{len(EVENTS)}]",
                  hashlib.sha256(repr(EVENTS).encode()).hexdigest()[:16],
                  [(e[0], e[1]) for e in EVENTS][:40])
            print("   rng", rng_digest())
        print("   jds unchanged", jds == jds_before, type(jds).__name__)


# ------------------------------------------------------------------ custom motifs
def bare_tuple(vs):
    return (vs[0], vs[1])


def bare_list(vs):
    return [vs[0], vs[1]]


def bare_array(vs):
    return np.array([vs[0], vs[1]])


def bare_str(vs):
    return "%d%d" % (vs[0] % 10, vs[1] % 10)


def two_path_tt(vs):
    return ((vs[0], vs[1]), (vs[1], vs[2]))


def two_path_ll(vs):
    return [[vs[0], vs[1]], [vs[1], vs[2]]]


def two_path_lt(vs):
    return [(vs[0], vs[1]), (vs[1], vs[2])]


def two_path_array(vs):
    return np.array([(vs[0], vs[1]), (vs[1], vs[2])])


def triangle(vs):
    return (vs[0], vs[1]), (vs[0], vs[2]), (vs[1], vs[2])


def triangle_array(vs):
    return np.array([(vs[0], vs[1]), (vs[0], vs[2]), (vs[1], vs[2])])


def tailed_triangle(vs):
    return [(vs[0], vs[1]), (vs[0], vs[2]), (vs[1], vs[2]), (vs[2], vs[3])]


def one_edge_wrapped(vs):
    return [(vs[0], vs[1])]


def no_edges(vs):
    return []


def gen_edges(vs):
    return ((vs[i], vs[i + 1]) for i in range(len(vs) - 1))


def none_edges(vs):
    return None


def set_pair(vs):
    return {vs[0], vs[1] + 1000}


def dict_pair(vs):
    return {"a": vs[0], "b": vs[1]}


def dict_zero(vs):
    return {0: vs[0], 1: vs[1]}


def int_edges(vs):
    return 7


def custom(sizes, builds, names, indices, drop=None):
    def make():
        params = {}
        params[GCMAlgorithmNames.MOTIF_SIZES] = sizes
        params[GCMAlgorithmNames.BUILD_FUNCTIONS] = [
            Build(i, b) for i, b in enumerate(builds)
        ]
        params[GCMAlgorithmNames.EDGE_NAMES] = [
            Names(i, n) for i, n in enumerate(names)
        ]
        params[GCMAlgorithmNames.MOTIF_INDICES] = indices
        if drop:
            del params[drop]
        return GCMAlgorithmCustomMotifs(params)

    return make


def custom_factory(sizes, builds, names, indices):
    def make():
        params = {}
        params[GCMAlgorithmNames.MOTIF_SIZES] = sizes
        params[GCMAlgorithmNames.BUILD_FUNCTIONS] = [
            Build(i, b) for i, b in enumerate(builds)
        ]
        params[GCMAlgorithmNames.EDGE_NAMES] = [
            Names(i, n) for i, n in enumerate(names)
        ]
        params[GCMAlgorithmNames.MOTIF_INDICES] = indices
        params[GCMAlgorithmNames.GCM_TYPE] = "motifs"
        return GCMAlgorithmMain.load_gcm_algorithm(params)

    return make


JDS_A = [(2, 1, 1, 1, 0)] * 6 + [(2, 1, 1, 0, 0)] * 4 + [(2, 1, 1, 0, 1)] * 2
SIZES_A = [2, 3, 3, 3, 1]
IDX_A = [[0], [1], [2], [3, 4]]
TT_NAMES = ["tt-ring", "tt-ring", "tt-ring", "tt-tail"]

run(
    "custom: bare tuple / 2-path tuple / triangle / tailed triangle",
    custom(
        SIZES_A,
        [bare_tuple, two_path_tt, triangle, tailed_triangle],
        ["2-clique", ("path-a", "path-b"), ("3c",) * 3, TT_NAMES],
        IDX_A,
    ),
    list(JDS_A),
    seeds=(0, 1, 2),
)
run(
    "custom via factory",
    custom_factory(
        SIZES_A,
        [bare_list, two_path_ll, triangle_array, tailed_triangle],
        [["2-clique"], ["path-a", "path-b"], ["3c"] * 3, tuple(TT_NAMES)],
        IDX_A,
    ),
    list(JDS_A),
)
run(
    "custom: bare list / list of tuples / wrapped single edge / no edges",
    custom(
        [2, 3, 2, 2],
        [bare_list, two_path_lt, one_edge_wrapped, no_edges],
        ["2-clique", ("pa", "pb"), ("single",), ()],
        [[0], [1], [2], [3]],
    ),
    [(1, 1, 1, 1)] * 6,
)
run(
    "custom: numpy and str returns",
    custom(
        [2, 3, 3, 2],
        [bare_array, two_path_array, triangle_array, bare_str],
        ["2-clique", ("pa", "pb"), ("3c",) * 3, "str-edge"],
        [[0], [1], [2], [3]],
    ),
    [(1, 1, 1, 1)] * 6,
)
# names of a two-edge motif given as a 2-character string / a name-count mismatch
run(
    "custom: odd names",
    custom(
        [2, 3, 3],
        [bare_tuple, two_path_tt, triangle],
        [("n1", "n2"), "ab", ("only-one",)],
        [[0], [1], [2]],
    ),
    [(1, 1, 1)] * 6,
)
# tuple jds, stub lists that are not a multiple of the motif size (silent)
run(
    "custom: tuple jds, ragged partitions",
    custom(
        [2, 3],
        [bare_tuple, two_path_tt],
        ["2-clique", ("pa", "pb")],
        [[0], [1]],
    ),
    tuple([(1, 1)] * 7 + [(2, 0)]),
)
run(
    "custom: ragged partitions that the builders tolerate",
    custom(
        [2, 3],
        [lambda vs: (vs[0], vs[-1]), lambda vs: ((vs[0], vs[-1]), (vs[-1], vs[0]))],
        ["2-clique", ("pa", "pb")],
        [[0], [1]],
    ),
    tuple([(1, 1)] * 7 + [(2, 0)]),
)
run("custom: empty jds", custom([2, 3], [bare_tuple, two_path_tt], ["a", ("b", "c")], [[0], [1]]), [])
run("custom: no motifs", custom([2, 3], [bare_tuple, two_path_tt], ["a", ("b", "c")], []), [(1, 1)] * 6)

# ---- error paths of the custom generator
for tag, fn in [
    ("generator", gen_edges),
    ("None", none_edges),
    ("set", set_pair),
    ("dict", dict_pair),
    ("dict0", dict_zero),
    ("int", int_edges),
]:
    run(
        f"custom error: build returns {tag}",
        custom([2, 2], [bare_tuple, fn], ["a", ("b",)], [[0], [1]]),
        [(1, 1)] * 4,
        seeds=(3,),
    )
run(
    "custom error: names not iterable for a 3-edge motif",
    custom([2, 3], [bare_tuple, triangle], ["a", 5], [[0], [1]]),
    [(1, 1)] * 6,
    seeds=(3,),
)
run(
    "custom error: names callback raises (bare)",
    custom([2, 3], [bare_tuple, triangle], [KeyError("x"), ("t",) * 3], [[0], [1]]),
    [(1, 1)] * 6,
    seeds=(3,),
)
run(
    "custom error: names callback raises (two edges)",
    custom([2, 3], [bare_tuple, two_path_tt], ["a", ValueError("x")], [[0], [1]]),
    [(1, 1)] * 6,
    seeds=(3,),
)
run(
    "custom error: motif size 0",
    custom([2, 0], [bare_tuple, triangle], ["a", ("t",) * 3], [[0], [1]]),
    [(1, 1)] * 6,
    seeds=(3,),
)
run(
    "custom error: float motif size",
    custom([2.0, 3], [bare_tuple, triangle], ["a", ("t",) * 3], [[0], [1]]),
    [(1, 1)] * 6,
    seeds=(3,),
)
run(
    "custom error: too few sizes",
    custom([2], [bare_tuple, triangle], ["a", ("t",) * 3], [[0], [1]]),
    [(1, 1)] * 6,
    seeds=(3,),
)
run(
    "custom error: second orbit runs out of partitions",
    custom([3, 1], [tailed_triangle], [TT_NAMES], [[0, 1]]),
    [(1, 0)] * 6 + [(0, 1)],
    seeds=(3,),
)
run(
    "custom error: orbit index out of range",
    custom([2, 3], [bare_tuple, triangle], ["a", ("t",) * 3], [[0], [5]]),
    [(1, 1)] * 6,
    seeds=(3,),
)
run(
    "custom error: build raises",
    custom([2, 3], [bare_tuple, lambda vs: vs[10]], ["a", ("t",) * 3], [[0], [1]]),
    [(1, 1)] * 6,
    seeds=(3,),
)
run(
    "custom error: fewer build functions than motifs",
    custom([2, 3], [bare_tuple], ["a", ("t",) * 3], [[0], [1]]),
    [(1, 1)] * 6,
    seeds=(3,),
)
run(
    "custom error: missing motif_indices",
    custom([2], [bare_tuple], ["a"], [[0]], drop=GCMAlgorithmNames.MOTIF_INDICES),
    [(1,)] * 4,
    seeds=(3,),
)
run(
    "custom error: ragged jds / non-int degrees",
    custom([2, 3], [bare_tuple, triangle], ["a", ("t",) * 3], [[0], [1]]),
    [(1, 1), (1,), (1.5, 1)],
    seeds=(3,),
)
run(
    "custom error: jds None",
    custom([2, 3], [bare_tuple, triangle], ["a", ("t",) * 3], [[0], [1]]),
    None,
    seeds=(3,),
)

# ---- partition, through an instance
print("== partition")
obj = custom([2], [bare_tuple], ["a"], [[0]])()
for lst, n in [
    ([], 2), ([1, 2, 3, 4], 2), ([1, 2, 3, 4, 5], 2), ([1, 2, 3], 5), ((1, 2, 3), 2),
    ("abcde", 2), ([1, 2, 3], 0), ([1, 2, 3], -1), ([1, 2, 3], 1.0), (None, 2),
    (range(7), 3),
]:
    arg = copy.copy(lst)
    try:
        res = obj.partition(arg, n)
        print("  ", repr(lst), n, "->", repr(res), "same input", arg == lst)
    except BaseException as e:  # noqa
        print("  ", repr(lst), n, "raised", type(e).__name__)
try:
    print("   keywords ->", obj.partition(lst=[1, 2, 3], n=2))
except BaseException as e:  # noqa
    print("   keywords raised", type(e).__name__)
print("   callable on class attr:", callable(GCMAlgorithmCustomMotifs.partition))
print("   rng", rng_digest())


# ------------------------------------------------------------ fast and network
def fast(sizes, builds, names, cls=GCMAlgorithmFast, gcm_type=None):
    def make():
        params = {}
        params[GCMAlgorithmNames.MOTIF_SIZES] = sizes
        params[GCMAlgorithmNames.EDGE_NAMES] = names
        params[GCMAlgorithmNames.BUILD_FUNCTIONS] = [
            Build(i, b) for i, b in enumerate(builds)
        ]
        if gcm_type is not None:
            params[GCMAlgorithmNames.GCM_TYPE] = gcm_type
            return GCMAlgorithmMain.load_gcm_algorithm(params)
        return cls(params)

    return make


FAST_JDS = [(2, 1, 1, 1)] * 8 + [(1, 1, 1, 0)] * 4
FAST_SIZES = [2, 3, 3, 4]
FAST_BUILDS = [clique_motif, two_path_lt, clique_motif, cycle_motif]
FAST_NAMES = ["2-clique", "2-path", "3-clique", "4-cycle"]

run("fast direct", fast(FAST_SIZES, FAST_BUILDS, FAST_NAMES), list(FAST_JDS), seeds=(0, 1, 2))
run("fast factory", fast(FAST_SIZES, FAST_BUILDS, FAST_NAMES, gcm_type="fast"), list(FAST_JDS))
run("network direct", fast(FAST_SIZES, FAST_BUILDS, FAST_NAMES, cls=GCMAlgorithmNetwork), list(FAST_JDS))
run("network factory", fast(FAST_SIZES, FAST_BUILDS, FAST_NAMES, gcm_type="network"), list(FAST_JDS))
run(
    "fast: unhashable / odd names, tuple and array returns, empty return",
    fast([2, 3, 3, 2], [two_path_tt, triangle_array, no_edges, one_edge_wrapped],
         [["mutable"], None, 3.5, ("t", "u")]),
    [(0, 1, 1, 1)] * 6,
)
run(
    "fast: ragged stub list (grouper keeps the short tail)",
    fast([2, 3], [lambda vs: [tuple(vs)], lambda vs: [tuple(vs[:2])]], ["a", "b"]),
    tuple([(1, 1)] * 7),
)
run("fast: empty jds", fast([2, 3], [clique_motif, clique_motif], ["a", "b"]), [])
run("fast error: generator return", fast([2, 3], [clique_motif, gen_edges], ["a", "b"]), [(1, 1)] * 6, seeds=(3,))
run("fast error: None return", fast([2, 3], [clique_motif, none_edges], ["a", "b"]), [(1, 1)] * 6, seeds=(3,))
run("fast error: int return", fast([2, 3], [int_edges, clique_motif], ["a", "b"]), [(1, 1)] * 6, seeds=(3,))
run("fast error: set return (iterable, sized)", fast([2], [set_pair], ["a"]), [(1,)] * 4, seeds=(3,))
run("fast error: too few names", fast([2, 3], [clique_motif, clique_motif], ["a"]), [(1, 1)] * 6, seeds=(3,))
run("fast error: too few sizes", fast([2], [clique_motif, clique_motif], ["a", "b"]), [(1, 1)] * 6, seeds=(3,))
run("fast error: size 0", fast([2, 0], [clique_motif, clique_motif], ["a", "b"]), [(1, 1)] * 6, seeds=(3,))
run("fast error: build raises", fast([2, 3], [clique_motif, lambda vs: vs[10]], ["a", "b"]), [(1, 1)] * 6, seeds=(3,))
run("fast error: ragged jds", fast([2, 3], [clique_motif, clique_motif], ["a", "b"]), [(1, 1), (1,), (2, 2)], seeds=(3,))
run("fast error: non-int degrees", fast([2], [clique_motif], ["a"]), [(1.0,), (1.0,)], seeds=(3,))
run("fast error: jds None", fast([2], [clique_motif], ["a"]), None, seeds=(3,))
run("network error: generator return", fast([2, 3], [clique_motif, gen_edges], ["a", "b"], gcm_type="network"), [(1, 1)] * 6, seeds=(3,))

try:
    GCMAlgorithmMain.load_gcm_algorithm({GCMAlgorithmNames.GCM_TYPE: "motifs"})
except BaseException as e:  # noqa
    print("== factory with missing params raised", type(e).__name__)
print("final rng", rng_digest())
