"""
Deterministic digest of the C01 code paths (run with cwd = a checkout of gcmpy).

Seeds the RNGs, exercises the fast / network / custom-motif generators
(directly, through the factory and through the main entry point) and the motif
build callbacks on a few inputs, and prints a digest of everything observable.
"""
import hashlib
import os
import random
import sys

sys.path.insert(0, os.getcwd())

import numpy as np  # noqa: E402

from gcmpy.gcm_algorithm.gcm_algorithm_custom_motifs import (  # noqa: E402
    GCMAlgorithmCustomMotifs,
)
from gcmpy.gcm_algorithm.gcm_algorithm_factory import GCMAlgorithmFactory  # noqa: E402
from gcmpy.gcm_algorithm.gcm_algorithm_fast import GCMAlgorithmFast  # noqa: E402
from gcmpy.gcm_algorithm.gcm_algorithm_main import GCMAlgorithmMain  # noqa: E402
from gcmpy.gcm_algorithm.gcm_algorithm_network import GCMAlgorithmNetwork  # noqa: E402
from gcmpy.gcm_algorithm.gcm_algorithm_types import GCMAlgorithmTypes  # noqa: E402
from gcmpy.motif_generators.clique_motif import clique_motif  # noqa: E402
from gcmpy.motif_generators.cycle_motif import cycle_motif  # noqa: E402
from gcmpy.motif_generators.diamond_motif import diamond_motif  # noqa: E402
from gcmpy.names.gcm_algorithm_names import GCMAlgorithmNames as N  # noqa: E402


def seed(s):
    random.seed(s)
    np.random.seed(s)


def digest(obj):
    return hashlib.sha256(repr(obj).encode()).hexdigest()[:20]


def show(label, obj, full=False):
    if full:
        print(f"{label}: {obj!r}")
    else:
        print(f"{label}: sha={digest(obj)} len={len(obj)}")


def describe_edge_list(label, el, jds):
    print(f"{label}: type={type(el).__name__} jds_is_same={el.joint_degrees is jds}")
    show(f"{label}.edge_list", el.edge_list)
    show(f"{label}.topologies", el.topologies)
    show(f"{label}.motif_id", el.motif_id)
    show(f"{label}.joint_degrees", el.joint_degrees)
    print(f"{label}.head: {el.edge_list[:6]!r} {el.topologies[:6]!r} {el.motif_id[:6]!r}")


def describe_network(label, net):
    G = net.G
    print(f"{label}: type={type(net).__name__} n={G.number_of_nodes()} m={G.number_of_edges()}")
    show(f"{label}.nodes", list(G.nodes(data=True)))
    show(f"{label}.edges", list(G.edges(data=True)))


def outcome(fn):
    """Result or the exception class, so failures are compared too."""
    try:
        return ("ok", fn())
    except BaseException as e:  # noqa: BLE001
        return ("raised", type(e).__name__, str(e))


def random_jds(n, sizes, max_deg):
    """Random joint degree sequence satisfying the handshake condition."""
    jds = [[random.randint(0, max_deg) for _ in sizes] for _ in range(n)]
    for k, size in enumerate(sizes):
        while sum(row[k] for row in jds) % size:
            jds[random.randrange(n)][k] += 1
    return [tuple(row) for row in jds]


# ---------------------------------------------------------------- motif callbacks
print("== motif generators")
for vs in ([0, 1], [3, 1, 2], [5, 4, 3, 2], [7, 7, 1, 0, 2], (9, 8, 7, 6), [4]):
    show(f"clique{vs!r}", outcome(lambda: clique_motif(vs)), full=True)
    show(f"cycle{vs!r}", outcome(lambda: cycle_motif(vs)), full=True)
    show(f"diamond{vs!r}", outcome(lambda: diamond_motif(vs)), full=True)
show("clique[]", outcome(lambda: clique_motif([])), full=True)
show("cycle[]", outcome(lambda: cycle_motif([])), full=True)
show("diamond[]", outcome(lambda: diamond_motif([])), full=True)
arr = np.array([4, 3, 2, 1])
show("cycle(ndarray)", outcome(lambda: cycle_motif(arr)), full=True)
show("diamond(ndarray)", outcome(lambda: diamond_motif(arr)), full=True)
vs = [1, 2, 3, 4]
cycle_motif(vs), diamond_motif(vs), clique_motif(vs)
show("input untouched", vs, full=True)

# ---------------------------------------------------------------- fast / network
print("== fast and network generators")
configs = [
    ([2], ["2-clique"], [clique_motif]),
    ([2, 3], ["2-clique", "3-clique"], [clique_motif, clique_motif]),
    ([2, 3, 4], ["e", "tri", "dia"], [clique_motif, cycle_motif, diamond_motif]),
    ([4, 5, 2], ["dia", "c5", "e"], [diamond_motif, cycle_motif, clique_motif]),
]
for c, (sizes, names, builders) in enumerate(configs):
    for n, max_deg, s in ((1, 2, 11), (7, 2, 12), (60, 3, 13), (400, 4, 14)):
        seed(1000 * c + s)
        jds = random_jds(n, sizes, max_deg)
        params = {N.MOTIF_SIZES: sizes, N.EDGE_NAMES: names, N.BUILD_FUNCTIONS: builders}
        label = f"cfg{c}/n{n}"

        seed(s)
        alg = GCMAlgorithmFast(params)
        describe_edge_list(f"{label}/fast#1", alg.random_clustered_graph(jds), jds)
        # second call on the same object: call history must not matter
        describe_edge_list(f"{label}/fast#2", alg.random_clustered_graph(jds), jds)
        print(f"{label}/rng-after-fast: {random.random()!r} {np.random.random()!r}")

        seed(s)
        describe_network(
            f"{label}/network", GCMAlgorithmNetwork(params).random_clustered_graph(jds)
        )
        print(f"{label}/rng-after-network: {random.random()!r}")

        for t in (GCMAlgorithmTypes.FAST, GCMAlgorithmTypes.NETWORK):
            seed(s + 1)
            g = GCMAlgorithmFactory.resolve_algorithm(t, params).random_clustered_graph(jds)
            p2 = dict(params)
            p2[N.GCM_TYPE] = t
            seed(s + 1)
            g_main = GCMAlgorithmMain.load_gcm_algorithm(p2)
            print(f"{label}/main-type[{t.value}]: {type(g_main).__name__}")
            g2 = g_main.random_clustered_graph(jds)
            if t is GCMAlgorithmTypes.FAST:
                describe_edge_list(f"{label}/factory-fast", g, jds)
                describe_edge_list(f"{label}/main-fast", g2, jds)
            else:
                describe_network(f"{label}/factory-network", g)
                describe_network(f"{label}/main-network", g2)
        # the string value of the type is accepted by the main entry point too
        p3 = dict(params)
        p3[N.GCM_TYPE] = "fast"
        print(f"{label}/main-type['fast']: {type(GCMAlgorithmMain.load_gcm_algorithm(p3)).__name__}")
        print(f"{label}/params-untouched: {sorted(k.value for k in params)!r}")

# jds violating the handshake condition / degenerate inputs: same outcome as before
print("== degenerate inputs")
params = {N.MOTIF_SIZES: [2, 3], N.EDGE_NAMES: ["a", "b"], N.BUILD_FUNCTIONS: [clique_motif, clique_motif]}
for jds in ([], [(1, 1)], [(1, 2), (2, 2)], [(0, 0), (0, 0)], [(1, 0, 0), (1, 0, 0)], [(2,), (2,)]):
    seed(5)
    r = outcome(lambda: GCMAlgorithmFast(params).random_clustered_graph(jds))
    if r[0] == "ok":
        el = r[1]
        show(f"fast{jds!r}", (el.edge_list, el.topologies, el.motif_id, el.joint_degrees), full=True)
    else:
        show(f"fast{jds!r}", r, full=True)
    seed(5)
    r = outcome(lambda: GCMAlgorithmNetwork(params).random_clustered_graph(jds))
    if r[0] == "ok":
        describe_network(f"network{jds!r}", r[1])
    else:
        show(f"network{jds!r}", r, full=True)
# fewer callbacks than jds columns, with the surplus columns empty
short = {N.MOTIF_SIZES: [2, 3], N.EDGE_NAMES: ["a"], N.BUILD_FUNCTIONS: [clique_motif]}
for jds in ([(1, 0), (1, 0)], [(1, 3), (1, 0)]):
    seed(6)
    r = outcome(lambda: GCMAlgorithmFast(short).random_clustered_graph(jds))
    if r[0] == "ok":
        el = r[1]
        show(f"short{jds!r}", (el.edge_list, el.topologies, el.motif_id), full=True)
    else:
        show(f"short{jds!r}", r, full=True)
for bad in (outcome(lambda: GCMAlgorithmFactory.resolve_algorithm("nope", params)),
            outcome(lambda: GCMAlgorithmMain.load_gcm_algorithm({N.GCM_TYPE: "nope"})),
            outcome(lambda: GCMAlgorithmMain.load_gcm_algorithm({})),
            outcome(lambda: GCMAlgorithmMain.load_gcm_algorithm({N.GCM_TYPE: "fast"}))):
    show("bad dispatch", bad, full=True)


# ---------------------------------------------------------------- custom motifs
print("== custom motif generator")


def twoclique(vs):
    return (vs[0], vs[1])


def twoclique_names():
    return "2-clique"


def twoclique_listed(vs):
    return [(vs[0], vs[1])]


def twoclique_listed_names():
    return ["2-clique"]


def threeclique(vs):
    return (vs[0], vs[1]), (vs[0], vs[2]), (vs[1], vs[2])


def threeclique_names():
    return "3-clique", "3-clique", "3-clique"


def diamond(vs):
    return ((vs[0], vs[1]), (vs[1], vs[2]), (vs[2], vs[3]), (vs[3], vs[1]), (vs[0], vs[2]))


def diamond_names():
    return ("d-outer", "d-outer", "d-outer", "d-outer", "d-inner")


def pentagon(vs):
    return ((vs[0], vs[1]), (vs[1], vs[2]), (vs[2], vs[3]), (vs[3], vs[4]), (vs[0], vs[4]), (vs[1], vs[3]))


def pentagon_names():
    return "p01", "p12", "p23", "p34", "p40", "p13"


def path2(vs):
    # exactly two edges, given as a list of tuples: must NOT be re-packed
    return [(vs[0], vs[1]), (vs[1], vs[2])]


def path2_names():
    return ["path", "path"]


TEST_JDS = [
    (2, 1, 0, 1, 1, 0, 0),
    (1, 1, 0, 1, 1, 0, 0),
    (3, 1, 1, 0, 0, 1, 0),
    (2, 0, 1, 0, 0, 1, 0),
    (0, 0, 0, 1, 0, 0, 1),
    (1, 0, 0, 1, 0, 0, 0),
    (1, 0, 1, 0, 0, 0, 0),
    (1, 0, 1, 0, 0, 0, 0),
    (1, 0, 0, 1, 0, 0, 0),
    (1, 0, 0, 1, 0, 0, 0),
    (1, 0, 1, 0, 0, 0, 0),
    (0, 0, 1, 0, 0, 0, 0),
]
custom_params = {
    N.MOTIF_SIZES: [2, 3, 2, 2, 2, 2, 1],
    N.EDGE_NAMES: [twoclique_names, threeclique_names, diamond_names, pentagon_names],
    N.BUILD_FUNCTIONS: [twoclique, threeclique, diamond, pentagon],
    N.MOTIF_INDICES: [[0], [1], [2, 3], [4, 5, 6]],
}


def custom_jds(n_two, n_three, n_dia, n_pent, n):
    """n vertices; exact motif counts; orbit columns sized consistently."""
    cols = [2 * n_two, 3 * n_three, 2 * n_dia, 2 * n_dia, 2 * n_pent, 2 * n_pent, n_pent]
    jds = [[0] * 7 for _ in range(n)]
    for k, total in enumerate(cols):
        for _ in range(total):
            jds[random.randrange(n)][k] += 1
    return [tuple(r) for r in jds]


cases = [("test-jds", TEST_JDS)]
for i, (a, b, c, d, n) in enumerate([(1, 0, 0, 0, 2), (3, 2, 1, 1, 9), (40, 25, 12, 7, 50), (0, 0, 5, 0, 6)]):
    seed(77 + i)
    cases.append((f"rand{i}", custom_jds(a, b, c, d, n)))

for label, jds in cases:
    for s in (1, 2):
        seed(s)
        alg = GCMAlgorithmCustomMotifs(custom_params)
        r = outcome(lambda: alg.random_clustered_graph(jds))
        if r[0] == "ok":
            describe_edge_list(f"custom/{label}/seed{s}#1", r[1], jds)
        else:
            show(f"custom/{label}/seed{s}#1", r, full=True)
        r = outcome(lambda: alg.random_clustered_graph(jds))
        if r[0] == "ok":
            describe_edge_list(f"custom/{label}/seed{s}#2", r[1], jds)
        else:
            show(f"custom/{label}/seed{s}#2", r, full=True)
        print(f"custom/{label}/seed{s}/rng-after: {random.random()!r}")

        p = dict(custom_params)
        p[N.GCM_TYPE] = GCMAlgorithmTypes.MOTIFS
        seed(s)
        via_factory = GCMAlgorithmFactory.resolve_algorithm(GCMAlgorithmTypes.MOTIFS, p)
        via_main = GCMAlgorithmMain.load_gcm_algorithm(p)
        print(f"custom/{label}/dispatch: {type(via_factory).__name__} {type(via_main).__name__}")
        r = outcome(lambda: via_factory.random_clustered_graph(jds))
        if r[0] == "ok":
            describe_edge_list(f"custom/{label}/seed{s}/factory", r[1], jds)
        seed(s)
        r = outcome(lambda: via_main.random_clustered_graph(jds))
        if r[0] == "ok":
            describe_edge_list(f"custom/{label}/seed{s}/main", r[1], jds)

# the "bare pair" re-packing branch versus genuine two-edge / one-edge lists
params2 = {
    N.MOTIF_SIZES: [2, 2, 3],
    N.EDGE_NAMES: [twoclique_names, twoclique_listed_names, path2_names],
    N.BUILD_FUNCTIONS: [twoclique, twoclique_listed, path2],
    N.MOTIF_INDICES: [[0], [1], [2]],
}
seed(9)
jds2 = random_jds(12, [2, 2, 3], 2)
seed(10)
el = GCMAlgorithmCustomMotifs(params2).random_clustered_graph(jds2)
show("repack", (el.edge_list, el.topologies, el.motif_id), full=True)

# handshake violated / empty input / missing key
for jds in ([], [(1, 0, 0)], [(1, 1, 1), (1, 1, 1)], [(2, 2, 3), (2, 2, 3), (0, 0, 1)]):
    seed(3)
    r = outcome(lambda: GCMAlgorithmCustomMotifs(params2).random_clustered_graph(jds))
    if r[0] == "ok":
        el = r[1]
        show(f"custom-degenerate{jds!r}", (el.edge_list, el.topologies, el.motif_id), full=True)
    else:
        show(f"custom-degenerate{jds!r}", r, full=True)
show("custom-missing-key", outcome(lambda: GCMAlgorithmCustomMotifs({N.MOTIF_SIZES: [2]})), full=True)
alg = GCMAlgorithmCustomMotifs(params2)
show("partition", [alg.partition(list(range(7)), n) for n in (1, 2, 3, 7, 8)], full=True)
print("== done")
