"""
Equivalence digest for the C05 commit (gcmpy/joint_degree/joint_degree.py).

Run with cwd = a checkout of gcmpy. Exercises every function the commit touched
(handshaking_lemma, sample_jds_from_jdd, normalise_jdd, the jdd setter) plus the
functions that replace `_jdd' behind them (convert_jds_to_jdd, the loaders'
create_jdd) ONLY through the signatures that existed before the commit, and
prints a deterministic digest: returned values (floats via repr), exception
types, the state of the `random' and numpy generators afterwards, the public
state of the objects and the inputs that were handed in.
"""
import hashlib
import math
import os
import random
import sys
import warnings
from fractions import Fraction

warnings.simplefilter("ignore")
sys.path.insert(0, os.getcwd())

import numpy as np

from gcmpy.joint_degree.joint_degree_loaders.joint_degree_manual import JointDegreeManual
from gcmpy.joint_degree.joint_degree_loaders.joint_degree_empirical import JointDegreeEmpirical
from gcmpy.joint_degree.joint_degree_loaders.joint_degree_function import JointDegreeFunction
from gcmpy.joint_degree.joint_degree_loaders.joint_degree_marginal import JointDegreeMarginal
from gcmpy.joint_degree.joint_degree_loaders.joint_degree_delta import JointDegreeDelta
from gcmpy.joint_degree.joint_degree_loaders.joint_degree_cover import JointDegreeCover
from gcmpy.joint_degree.joint_degree_distribution import JointDegreeDistribution
from gcmpy.joint_degree.joint_degree_type import JointDegreeType
from gcmpy.names.joint_degree_names import JointDegreeNames as Nm
from gcmpy.distributions.poisson import poisson
from gcmpy.distributions.power_law import power_law

LINES = []


def h(obj) -> str:
    return hashlib.sha256(repr(obj).encode()).hexdigest()[:16]


def rng_state() -> str:
    return h(random.getstate()) + "/" + h(np.random.get_state()[1].tolist()) + "/" + repr(
        np.random.get_state()[2]
    )


def show(value) -> str:
    """repr for short values, length + digest (+ head) for long ones"""
    r = repr(value)
    if len(r) <= 400:
        return r
    head = repr(value[:6]) if isinstance(value, list) else r[:120]
    n = len(value) if hasattr(value, "__len__") else -1
    return f"<len {n} sha {h(value)} head {head}>"


def state(obj) -> str:
    jdd = obj.jdd
    if isinstance(jdd, dict):
        jdd_s = show(list(jdd.items()))
    else:
        jdd_s = repr(jdd)
    return f"jdd={jdd_s} motif_sizes={obj.motif_sizes!r}"


def emit(label, text):
    LINES.append(f"{label}: {text}")


def call(label, fn, *args):
    try:
        out = fn(*args)
        res = "-> " + show(out)
    except BaseException as e:  # noqa
        out = None
        res = "!! " + type(e).__name__
    emit(label, f"{res} | rng {rng_state()}")
    return out


def seed(n):
    random.seed(n)
    np.random.seed(n)


def sample(label, obj, N):
    out = call(label, obj.sample_jds_from_jdd, N)
    emit(label + " state", state(obj))
    if isinstance(out, list) and out and isinstance(obj.motif_sizes, list):
        try:
            tot = list(map(sum, zip(*out)))
            emit(label + " totals", repr(tot))
        except Exception as e:  # noqa
            emit(label + " totals", "!! " + type(e).__name__)
    return out


# --------------------------------------------------------------------------
def manual_scenarios():
    seed(1)
    src = {(1, 2): 3.0, (5, 0): 1.0, (0, 0): 0.5}
    sizes = [2, 3]
    man = JointDegreeManual({Nm.JDD: src, Nm.MOTIF_SIZES: sizes})
    emit("man jdd is src", repr(man.jdd is src))
    for i, n in enumerate([7, 0, 1, 50, 3, 1000, 2]):
        sample(f"man draw{i} N={n}", man, n)
    # in-place edits through the dict handed out by the property
    man.jdd[(1, 2)] = 0.001
    sample("man after weight edit", man, 40)
    man.jdd[(9, 9)] = 100.0
    sample("man after key added", man, 40)
    del man.jdd[(5, 0)]
    sample("man after key deleted", man, 40)
    # edits through the dict the caller still owns
    src[(4, 4)] = 7.0
    src[(0, 0)] = 0.0
    sample("man after src edit", man, 40)
    emit("man src", show(list(src.items())))
    # normalise
    call("man normalise", man.normalise_jdd)
    emit("man normalised state", state(man))
    sample("man after normalise", man, 40)
    call("man normalise again", man.normalise_jdd)
    sample("man after 2nd normalise", man, 41)
    # setter
    new = {(2,): 1, (3,): 2, (10,): 1}
    man.jdd = new
    man.motif_sizes = [4]
    emit("man setter identity", repr(man.jdd is new))
    sample("man after setter", man, 33)
    sample("man after setter again", man, 33)
    call("man normalise ints", man.normalise_jdd)
    emit("man ints normalised", state(man))
    sample("man after normalise ints", man, 33)
    # private attribute replaced directly (what the loaders do)
    man._jdd = {(6,): 0.25, (7,): 0.75}
    sample("man after _jdd replaced", man, 33)
    # convert_jds_to_jdd
    seq = [(7, 8)] * 5 + [(9, 10)] * 15 + [(0, 1)]
    man.motif_sizes = [2, 5]
    call("man convert", man.convert_jds_to_jdd, seq)
    emit("man convert input", show(seq))
    sample("man after convert", man, 60)
    call("man convert 2", man.convert_jds_to_jdd, [(1, 1), (1, 1), (2, 3)])
    sample("man after convert 2", man, 60)
    sample("man after convert 2 again", man, 60)
    call("man convert empty", man.convert_jds_to_jdd, [])
    sample("man after convert empty", man, 5)
    sample("man after convert empty N=0", man, 0)


def weights_scenarios():
    seed(2)
    cases = {
        "unnormalised": {(1,): 10.0, (2,): 30.0, (3,): 0.0},
        "ints": {(1,): 1, (2,): 3},
        "bools": {(1,): True, (2,): True, (4,): False},
        "fractions": {(1,): Fraction(1, 3), (2,): Fraction(2, 3)},
        "big ints": {(1,): 2 ** 53, (2,): 1, (3,): 1},
        "tiny": {(1,): 5e-324, (2,): 1e-320},
        "huge": {(1,): 1e308, (2,): 1e308},
        "inf": {(1,): math.inf, (2,): 1.0},
        "nan": {(1,): math.nan, (2,): 1.0},
        "zero total": {(1,): 0.0, (2,): 0.0},
        "negative total": {(1,): -1.0, (2,): 0.5},
        "negative inside": {(1,): 2.0, (2,): -1.0, (3,): 1.0},
        "strings": {(1,): "a", (2,): "b"},
        "none weight": {(1,): None, (2,): 1.0},
        "mixed": {(1,): 1, (2,): "b"},
        "empty": {},
        "single": {(3,): 0.1},
        "neg zero": {(1,): -0.0, (2,): 0.0, (3,): 1.0},
        "non tuple keys": {1: 0.5, 2: 0.5},
        "list-like keys": {"ab": 0.5, "cd": 0.5},
    }
    for name, jdd in cases.items():
        obj = JointDegreeManual({Nm.JDD: jdd, Nm.MOTIF_SIZES: [3]})
        sample(f"w[{name}] a", obj, 11)
        sample(f"w[{name}] b", obj, 4)
        call(f"w[{name}] normalise", obj.normalise_jdd)
        emit(f"w[{name}] normalised", state(obj))
        sample(f"w[{name}] c", obj, 11)
    # jdd that is not a dict / missing
    for name, jdd in [("None", None), ("list", [((1,), 0.5)]), ("int", 3)]:
        obj = JointDegreeManual({Nm.JDD: jdd, Nm.MOTIF_SIZES: [2]})
        sample(f"jdd={name}", obj, 3)
        call(f"jdd={name} normalise", obj.normalise_jdd)
        call(f"jdd={name} convert", obj.convert_jds_to_jdd, [(1,), (2,)])
        sample(f"jdd={name} after convert", obj, 3)


def n_and_sizes_scenarios():
    seed(3)
    base = {(1, 0): 0.5, (0, 1): 0.25, (2, 2): 0.25}
    for n in [0, -1, -5, 1, 2, True, False, 2.0, 2.5, "3", None, [4], 10 ** 3]:
        obj = JointDegreeManual({Nm.JDD: dict(base), Nm.MOTIF_SIZES: [2, 3]})
        sample(f"N={n!r}", obj, n)
        sample(f"N={n!r} then 5", obj, 5)
    for sizes in [[1, 1], [2], [2, 3, 4], [], None, [0, 2], [2, 0], [-2, 3], [2.0, 3.0],
                  [2.5, 3], (2, 3), ["2", 3], [7, 11], [10 ** 6, 3]]:
        obj = JointDegreeManual({Nm.JDD: dict(base), Nm.MOTIF_SIZES: sizes})
        sample(f"sizes={sizes!r} a", obj, 9)
        sample(f"sizes={sizes!r} b", obj, 10)
    # motif sizes changed between draws
    obj = JointDegreeManual({Nm.JDD: dict(base), Nm.MOTIF_SIZES: [2, 3]})
    sample("sizes switch a", obj, 25)
    obj.motif_sizes = [5, 7]
    sample("sizes switch b", obj, 25)


def handshaking_scenarios():
    seed(4)
    obj = JointDegreeManual({Nm.JDD: {(1, 1): 1.0}, Nm.MOTIF_SIZES: [2, 3]})
    inputs = [
        [],
        [(1, 1)],
        [(0, 0)],
        [(2, 3)],
        [(1, 0), (0, 1), (0, 1)],
        [(1, 2), (3, 4), (5, 6), (7, 8)],
        [[1, 2], [3, 4]],
        [(1,), (2,)],
        [(1, 2, 3), (1, 1, 1)],
        [(1, 2), (3,)],
        [(1.5, 2), (1, 1)],
        [(-1, -1), (0, 0)],
        [("a", 1)],
        [1, 2],
        ((1, 1), (2, 2)),
        None,
        [(True, False)] * 3,
    ]
    for i, jds in enumerate(inputs):
        out = call(f"hs[{i}] in={jds!r}", obj.handshaking_lemma, jds)
        emit(f"hs[{i}] input after", f"{jds!r} same object: {out is jds}")
    # repeated correction of one list
    jds = [(1, 1)] * 7
    for i in range(4):
        out = call(f"hs repeat {i}", obj.handshaking_lemma, jds)
        emit(f"hs repeat {i} input", f"{jds!r} same: {out is jds}")
        jds[0] = (jds[0][0] + 1, jds[0][1])
    for sizes in [[5, 7], [1, 1], [2], [2, 3, 4], [0, 3], None, []]:
        obj.motif_sizes = sizes
        jds = [(1, 1), (1, 2), (0, 0)]
        out = call(f"hs sizes={sizes!r}", obj.handshaking_lemma, jds)
        emit(f"hs sizes={sizes!r} input", f"{jds!r} same: {out is jds}")
    # positional / keyword spelling of the old signature
    obj.motif_sizes = [2, 3]
    call("hs keyword", lambda: obj.handshaking_lemma(jds=[(1, 1)] * 3))
    call("sample keyword", lambda: obj.sample_jds_from_jdd(N=4))
    call("sample no arg", lambda: obj.sample_jds_from_jdd())
    call("hs no arg", lambda: obj.handshaking_lemma())


def loader_scenarios():
    seed(5)
    # empirical: refit one object several times
    emp = JointDegreeEmpirical(
        {Nm.JDS: [(2, 0)] * 50 + [(0, 3)] * 50 + [(1, 1)], Nm.MOTIF_SIZES: [2, 3]}
    )
    sample("emp first", emp, 600)
    sample("emp first again", emp, 7)
    emp.empirical_jds = [(4, 3)] * 30 + [(6, 6)] * 10
    sample("emp setter only (no create_jdd)", emp, 50)
    emp.create_jdd()
    sample("emp refit", emp, 4000)
    emp.empirical_jds.append((8, 8))
    emp.create_jdd()
    sample("emp refit 2", emp, 50)
    emp.empirical_jds = []
    call("emp create empty", emp.create_jdd)
    sample("emp empty", emp, 5)

    # function loader: create_jdd re-run with another callback
    calls = []

    def fp1(jd):
        calls.append(jd)
        return 1.0 / (1 + jd[0] + 2 * jd[1])

    fun = JointDegreeFunction(
        {Nm.MOTIF_SIZES: [2, 3], Nm.FP: fp1, Nm.LOW_HIGH_DEGREE_BOUND: [(0, 3), (1, 2)]}
    )
    sample("fun first", fun, 100)
    fun._fp = lambda jd: float(jd[0] == 3)
    fun.create_jdd()
    sample("fun after create_jdd", fun, 100)
    fun._low_high_degree_bounds = [(5, 6), (5, 5)]
    fun._fp = fp1
    fun.create_jdd()
    sample("fun new bounds", fun, 100)
    emit("fun callback calls", show(calls))

    # marginal direct + sampling, re-created
    for use_sampling in (False, True):
        mar = JointDegreeMarginal(
            {
                Nm.MOTIF_SIZES: [2, 3],
                Nm.ARR_FP: [poisson(2.5), poisson(1.5)],
                Nm.LOW_HIGH_DEGREE_BOUND: [(0, 10), (0, 6)],
                Nm.USE_SAMPLING: use_sampling,
                Nm.N_SAMPLES: 500,
            }
        )
        sample(f"mar sampling={use_sampling} a", mar, 2000)
        sample(f"mar sampling={use_sampling} b", mar, 17)
        mar._arr_fp = [poisson(0.5), poisson(4.0)]
        mar.create_jdd()
        sample(f"mar sampling={use_sampling} recreated", mar, 2000)
        mar._use_sampling = not use_sampling
        mar.create_jdd()
        sample(f"mar sampling={use_sampling} switched", mar, 300)

    # delta / split degree
    dl = JointDegreeDelta(
        {
            Nm.MOTIF_SIZES: [2, 3],
            Nm.PROBS: [0.8, 0.2],
            Nm.FP: power_law(2.5),
            Nm.LOW_HIGH_DEGREE_BOUND: (1, 60),
            Nm.TARGET_K: 3,
        }
    )
    sample("delta a", dl, 5000)
    sample("delta b", dl, 11)
    dl._target_k = 4
    dl._fp = power_law(2.1)
    dl.create_jdd()
    sample("delta recreated", dl, 5000)

    # cover
    cov = JointDegreeCover({Nm.COVER: [[0, 1], [1, 2], [0, 1, 2], [2, 3, 4], [4, 5]]})
    sample("cover a", cov, 200)
    cov.cover = [[1, 2], [2, 3], [3, 4, 5, 6]]
    cov.create_jdd()
    sample("cover recreated (sizes kept)", cov, 200)

    # factory: create_jdd is run a second time by load_joint_degree
    params = {
        Nm.JOINT_DEGREE_TYPE: JointDegreeType.MANUAL,
        Nm.JDD: {(1,): 0.2, (2,): 0.5, (3,): 0.1, (5,): 0.2},
        Nm.MOTIF_SIZES: [2],
    }
    d = JointDegreeDistribution.load_joint_degree(params)
    sample("factory manual a", d, 1001)
    params[Nm.JDD][(8,)] = 5.0
    sample("factory manual after params edit", d, 1001)
    params2 = {
        Nm.JOINT_DEGREE_TYPE: JointDegreeType.EMPIRICAL,
        Nm.JDS: [(int(k),) for k in np.random.randint(0, 25, 300)],
        Nm.MOTIF_SIZES: [2],
    }
    d2 = JointDegreeDistribution.load_joint_degree(params2)
    sample("factory empirical a", d2, 999)
    d2.empirical_jds = [(1,), (1,), (40,)]
    d2.create_jdd()
    sample("factory empirical refit", d2, 999)


def interleaved_objects():
    """several objects sampled in turn share no table"""
    seed(6)
    a = JointDegreeManual({Nm.JDD: {(1,): 1.0, (2,): 1.0}, Nm.MOTIF_SIZES: [2]})
    b = JointDegreeManual({Nm.JDD: {(10,): 1.0, (20,): 3.0}, Nm.MOTIF_SIZES: [3]})
    shared = {(5,): 1.0}
    c = JointDegreeManual({Nm.JDD: shared, Nm.MOTIF_SIZES: [2]})
    d = JointDegreeManual({Nm.JDD: shared, Nm.MOTIF_SIZES: [7]})
    for i in range(3):
        sample(f"inter a{i}", a, 9)
        sample(f"inter b{i}", b, 9)
        sample(f"inter c{i}", c, 9)
        shared[(6 + i,)] = 2.0
        sample(f"inter d{i}", d, 9)
        a.jdd, b.jdd = b.jdd, a.jdd
    call("inter c normalise", c.normalise_jdd)
    sample("inter d after c normalise", d, 9)
    # error then recovery on one object
    e = JointDegreeManual({Nm.JDD: {}, Nm.MOTIF_SIZES: [2]})
    sample("recover empty", e, 3)
    e.jdd[(1,)] = 1.0
    sample("recover filled", e, 3)
    e.jdd.clear()
    sample("recover cleared", e, 3)
    e.jdd[(2,)] = "x"
    sample("recover bad weight", e, 3)
    e.jdd[(2,)] = 2.0
    sample("recover good weight", e, 3)


def main():
    for fn in (
        manual_scenarios,
        weights_scenarios,
        n_and_sizes_scenarios,
        handshaking_scenarios,
        loader_scenarios,
        interleaved_objects,
    ):
        emit("==", fn.__name__)
        fn()
    print("\n".join(LINES))
    print("TOTAL", len(LINES), h(LINES))


if __name__ == "__main__":
    main()
