import sys, os; sys.path.insert(0, os.getcwd())
import random
import hashlib
import numpy as np
import networkx as nx
from gcmpy.tools.joint_excess_degree import JointExcessDegree
import gcmpy

random.seed(1301)
np.random.seed(1301)

LINES = []


def out(*a):
    LINES.append(" ".join(str(x) for x in a))


def show(tag, G):
    try:
        r = JointExcessDegree.get_ejk(G)
        out(tag, "OK", type(r).__name__, [(repr(k), repr(v), type(v).__name__) for k, v in r.items()])
        if r:
            out(tag, "sum", repr(sum(r.values())))
    except BaseException as e:
        out(tag, "EXC", type(e).__name__)


class FakeEdges:
    def __init__(self, edges, n):
        self._e = edges
        self._n = n

    def __len__(self):
        return self._n

    def __iter__(self):
        return iter(self._e)


class FakeG:
    def __init__(self, edges, n, deg):
        self._edges = edges
        self._n = n
        self._deg = deg

    def edges(self):
        return FakeEdges(self._edges, self._n)

    def degree(self, u):
        return self._deg[u]


graphs = []
graphs.append(("empty", nx.Graph()))
g = nx.Graph(); g.add_nodes_from(range(4)); graphs.append(("nodes_only", g))
g = nx.Graph(); g.add_edge(0, 1); graphs.append(("one_edge", g))
g = nx.Graph(); g.add_edge(0, 0); graphs.append(("self_loop", g))
g = nx.Graph(); g.add_edges_from([(0, 0), (0, 1), (1, 2), (2, 2)]); graphs.append(("loops_mix", g))
graphs.append(("path5", nx.path_graph(5)))
graphs.append(("star6", nx.star_graph(6)))
graphs.append(("K5", nx.complete_graph(5)))
graphs.append(("cycle7", nx.cycle_graph(7)))
graphs.append(("petersen", nx.petersen_graph()))
g = nx.MultiGraph(); g.add_edges_from([(0, 1), (0, 1), (1, 2), (2, 0), (2, 2)]); graphs.append(("multi", g))
g = nx.DiGraph(); g.add_edges_from([(0, 1), (1, 0), (1, 2), (2, 3)]); graphs.append(("di", g))
g = nx.MultiDiGraph(); g.add_edges_from([(0, 1), (0, 1), (1, 2)]); graphs.append(("multidi", g))
g = nx.Graph(); g.add_edges_from([("a", "b"), ("b", "c"), ("c", (1, 2))]); graphs.append(("labels", g))
for s in range(40):
    n = random.randint(1, 30)
    p = random.random()
    graphs.append((f"gnp{s}", nx.gnp_random_graph(n, p, seed=s)))
for s in range(10):
    graphs.append((f"ba{s}", nx.barabasi_albert_graph(20 + s, 1 + s % 4, seed=s)))
for s in range(6):
    g = nx.gnp_random_graph(12, 0.3, seed=100 + s)
    for _ in range(3):
        u = random.randrange(12)
        g.add_edge(u, u)
    graphs.append((f"gnp_loops{s}", g))
g = nx.Graph()
g.add_weighted_edges_from([(0, 1, 2.5), (1, 2, 0.5), (2, 3, 1.0)])
graphs.append(("weighted", g))

for tag, G in graphs:
    show(tag, G)
    show(tag + "/again", G)
    out(tag, "graph-after", sorted(map(repr, G.nodes(data=True))), sorted(map(repr, G.edges(data=True))))

show("fake_zero_len", FakeG([(0, 1)], 0, {0: 1, 1: 1}))
show("fake_wrong_len", FakeG([(0, 1), (1, 2), (0, 1)], 7, {0: 1, 1: 2, 2: 1}))
show("fake_float_deg", FakeG([(0, 1), (1, 0)], 2, {0: 1.5, 1: 2.0}))
show("fake_bool_deg", FakeG([(0, 1)], 1, {0: True, 1: False}))
show("fake_neg", FakeG([(0, 1)], 3, {0: -2, 1: 0}))
show("fake_missing_deg", FakeG([(0, 1), (1, 5)], 2, {0: 1, 1: 1}))
show("fake_bad_edge", FakeG([(0, 1, 2)], 1, {0: 1, 1: 1}))
show("fake_str_deg", FakeG([(0, 1)], 1, {0: "x", 1: 1}))
show("none", None)
show("int", 3)
show("dict", {})
show("via_pkg", gcmpy.JointExcessDegree.get_ejk(nx.path_graph(3)) and nx.path_graph(3))

out("py-rng", hashlib.sha256(repr(random.getstate()).encode()).hexdigest())
out("np-rng", hashlib.sha256(repr(np.random.get_state()).encode()).hexdigest())
body = "\n".join(LINES)
print(body)
print("DIGEST", hashlib.sha256(body.encode()).hexdigest())
