import sys, os; sys.path.insert(0, os.getcwd())
# deterministic set/dict-of-str orders: re-exec once with a fixed hash seed
if os.environ.get("PYTHONHASHSEED") != "0":
    os.environ["PYTHONHASHSEED"] = "0"
    os.execv(sys.executable, [sys.executable] + sys.argv)
import warnings; warnings.simplefilter("ignore")
import random, hashlib, copy, fractions
import numpy as np
import networkx as nx
from gcmpy.joint_degree.joint_degree_loaders.joint_degree_manual import JointDegreeManual
from gcmpy.motif_generators.clique_motif import clique_motif
from gcmpy.gcm_algorithm.gcm_algorithm_network import GCMAlgorithmNetwork
from gcmpy.names.gcm_algorithm_names import GCMAlgorithmNames
from gcmpy.names.joint_degree_names import JointDegreeNames
from gcmpy.names.tools_names import ToolsNames
from gcmpy.names.network_names import NetworkNames
from gcmpy.network.network import Network
from gcmpy.tools.joint_excess_joint_degree_matrices import JointExcessJointDegreeMatrices
from gcmpy.tools.joint_excess_joint_degree_keys_view import JointExcessJointDegreeKeysView
from gcmpy.tools.markov_chain_monte_carlo_rewiring import MarkovChainMonteCarloRewiring
from gcmpy.tools.markov_chain_monte_carlo import MarkovChainMonteCarlo
from gcmpy.tools.joint_excess_from_ejk import JointExcessFromEjk
from gcmpy.tools.joint_degree_from_excess import JointDegreeFromExcess
from gcmpy.tools.joint_excess_joint_degree import JointExcessJointDegree
from gcmpy.tools.draw_set import DrawSet

JD, TOP, MID = NetworkNames.JOINT_DEGREE, NetworkNames.TOPOLOGY, NetworkNames.MOTIF_IDS
NAMES = ["2-clique", "3-clique"]


def h(x):
    return hashlib.sha256(repr(x).encode()).hexdigest()[:16]


def rng():
    st = np.random.get_state()
    return "py=%s np=%s" % (h(random.getstate()), h((st[0], st[1].tolist(), st[2:])))


def counters(m=None):
    s = "cls=%s/%s" % (MarkovChainMonteCarlo._proposal_count, MarkovChainMonteCarlo._proposals_accepted)
    if m is not None:
        s += " inst=%s/%s ratio=%s nprop=%s" % (
            m._proposal_count, m._proposals_accepted, h(m._acceptance_ratio),
            h([(p._topology, p._motif_id, p._new_edge) for p in m._proposal_edges]))
    return s


def gdig(G):
    if not isinstance(G, nx.Graph):
        return repr(G)
    nodes = [(repr(n), repr(sorted(d.items(), key=repr))) for n, d in G.nodes(data=True)]
    edges = [(repr(u), repr(v), repr(sorted(d.items(), key=repr))) for u, v, d in G.edges(data=True)]
    # both the iteration order and the content
    return "%s n=%d m=%d order=%s content=%s" % (type(G).__name__, G.number_of_nodes(), G.number_of_edges(),
                                                h((nodes, edges)), h((sorted(nodes), sorted(edges))))


def show(label, f, *a, **k):
    try:
        r = f(*a, **k)
        if isinstance(r, nx.Graph):
            r = gdig(r)
        print(label, "->", repr(r) if len(repr(r)) < 300 else h(r), "|", rng())
        return r
    except BaseException as e:  # digest exception TYPE (and chain types)
        chain = []
        c = e
        while c is not None and len(chain) < 4:
            chain.append(type(c).__name__)
            c = c.__cause__ or c.__context__
        print(label, "-> EXC", "<-".join(chain), "|", rng())
        if isinstance(e, (KeyboardInterrupt, SystemExit)):
            raise
        return None


class Budget(Exception):
    pass


class budget:
    """deterministic, count-based cap on DrawSet.draw() calls so that chains that can never
    converge stop at exactly the same draw on every run"""

    def __init__(self, n):
        self.n = n

    def __enter__(self):
        self.orig = DrawSet.draw
        left = [self.n]
        orig = self.orig

        def draw(s):
            if left[0] <= 0:
                raise Budget()
            left[0] -= 1
            return orig(s)

        DrawSet.draw = draw

    def __exit__(self, *a):
        DrawSet.draw = self.orig
        return False


def target(eps, zero=False, as_type=float):
    z = 0.0 if zero else eps
    t = {(0, 3, 0, 3): 9 / 81 - 2 * eps, (0, 3, 4, 1): z, (0, 3, 2, 2): eps, (4, 1, 0, 3): z,
         (4, 1, 4, 1): 45 / 81 - 2 * eps, (4, 1, 2, 2): eps, (2, 2, 0, 3): eps, (2, 2, 4, 1): eps,
         (2, 2, 2, 2): 27 / 81 - 2 * eps}
    r = {(3, 1, 3, 1): 48 / 144 - 2 * eps, (3, 1, 1, 2): eps, (3, 1, 5, 0): z, (1, 2, 3, 1): eps,
         (1, 2, 1, 2): 72 / 144 - 2 * eps, (1, 2, 5, 0): eps, (5, 0, 3, 1): z, (5, 0, 1, 2): eps,
         (5, 0, 5, 0): 24 / 144 - 2 * eps}
    t = {k: as_type(v) for k, v in t.items()}
    r = {k: as_type(v) for k, v in r.items()}
    return JointExcessJointDegreeMatrices({ToolsNames.EDGE_NAMES: list(NAMES), ToolsNames.EJKS: {"2-clique": t, "3-clique": r}})


def build(n, seed, ejk=None):
    random.seed(seed); np.random.seed(seed)
    ejk = ejk or target(0.01)
    qks = JointExcessFromEjk.get_excess_joint_distributions(ejk)
    jdd = JointDegreeFromExcess.get_joint_degree_distribution(qks, NAMES)
    jds = JointDegreeManual({JointDegreeNames.JDD: jdd, JointDegreeNames.MOTIF_SIZES: [2, 3]}).sample_jds_from_jdd(n)
    return GCMAlgorithmNetwork({GCMAlgorithmNames.MOTIF_SIZES: [2, 3], GCMAlgorithmNames.EDGE_NAMES: list(NAMES),
                                GCMAlgorithmNames.BUILD_FUNCTIONS: [clique_motif, clique_motif]}).random_clustered_graph(jds)


def mcmc(net, ejk, **kw):
    p = {ToolsNames.NETWORK: net, ToolsNames.EJKS: ejk}
    if "search" in kw:
        p[ToolsNames.SEARCH_LIMIT] = kw["search"]
    if "conv" in kw:
        p[ToolsNames.CONVERGENCE_LIMIT] = kw["conv"]
    return MarkovChainMonteCarloRewiring(p)


def hand(edges, jds, cls=nx.Graph):
    """hand-built network: edges = [(u, v, topology, motif_id)], jds = {node: joint degree}"""
    net = Network()
    net.G = cls()
    for n, jd in jds.items():
        net.G.add_node(n, **{})
        net.G.nodes[n][JD] = jd
    for u, v, t, m in edges:
        d = {}
        if t is not None:
            d[TOP] = t
        if m is not None:
            d[MID] = m
        net.G.add_edges_from([(u, v, d)])
    return net


def mixing(G):
    try:
        e = JointExcessJointDegree({ToolsNames.NETWORK: G, ToolsNames.EDGE_NAMES: list(NAMES)}).get_ejks()
        return h(sorted((t, sorted(d.items())) for t, d in e.ejks.items()))
    except BaseException as ex:
        return "EXC " + type(ex).__name__


def rewire_suite(tag, sizes=(40, 150, 400), budget_draws=60000):
    """rewire() on generated networks: several sizes, seeds, targets, limits; repeated calls on one object"""
    for n in sizes:
        for seed in (1, 2, 3):
            for name, ejk in (("tiny-eps", target(1e-8)), ("full", target(0.02)), ("zeros", target(0.01, zero=True)),
                              ("fraction", target(fractions.Fraction(1, 64), as_type=fractions.Fraction)),
                              ("np", target(0.015, as_type=np.float64))):
                net = build(n, seed)
                before = gdig(net.G)
                for conv, search in ((60, 20), (0, 25), (-1, 3), (25, 1), (10, 0)):
                    m = mcmc(net, ejk, conv=conv, search=search)
                    random.seed(1000 * seed + n + conv)
                    lab = "%s rewire n=%d seed=%d %s conv=%d search=%d" % (tag, n, seed, name, conv, search)
                    with budget(1500 if search == 0 else budget_draws):
                        G = show(lab, m.rewire)
                        print("   ", counters(m), "src-unchanged", gdig(net.G) == before, "mix", mixing(m.network.G))
                        # second call on the same object, RNG continuing
                        G2 = show(lab + " again", m.rewire)
                        print("   ", counters(m))


def tiny_nets():
    """boundary networks (name, Network)"""
    out = []
    out.append(("empty", hand([], {})))
    out.append(("one-edge", hand([(0, 1, "2-clique", 0)], {0: (1, 0), 1: (1, 0)})))
    out.append(("two-edges", hand([(0, 1, "2-clique", 0), (2, 3, "2-clique", 1)],
                                  {0: (1, 0), 1: (1, 0), 2: (1, 0), 3: (1, 0)})))
    out.append(("path4", hand([(0, 1, "2-clique", 0), (1, 2, "2-clique", 1), (2, 3, "2-clique", 2)],
                              {0: (1, 0), 1: (2, 0), 2: (2, 0), 3: (1, 0)})))
    out.append(("matching", hand([(2 * i, 2 * i + 1, "2-clique", i) for i in range(6)],
                                 {i: (1 + (i % 3 == 0), 0) for i in range(12)})))
    out.append(("two-triangles", hand([(0, 1, "3-clique", 0), (1, 2, "3-clique", 0), (0, 2, "3-clique", 0),
                                       (3, 4, "3-clique", 1), (4, 5, "3-clique", 1), (3, 5, "3-clique", 1)],
                                      {i: (0, 1) for i in range(6)})))
    out.append(("tri+edges", hand([(0, 1, "3-clique", 0), (1, 2, "3-clique", 0), (0, 2, "3-clique", 0),
                                   (3, 4, "3-clique", 1), (4, 5, "3-clique", 1), (3, 5, "3-clique", 1),
                                   (0, 3, "2-clique", 2), (6, 7, "2-clique", 3), (8, 9, "2-clique", 4), (2, 9, "2-clique", 5)],
                                  {0: (1, 1), 1: (0, 1), 2: (1, 1), 3: (1, 1), 4: (0, 1), 5: (0, 1), 6: (1, 0), 7: (1, 0),
                                   8: (1, 0), 9: (2, 0)})))
    out.append(("hetero-matching", hand([(2 * i, 2 * i + 1, "2-clique", i) for i in range(8)],
                                        {i: (1 + (i * 7 % 3), 0) for i in range(16)})))
    out.append(("hetero-triangles", hand([(3 * t + a, 3 * t + b, "3-clique", t) for t in range(4) for a, b in ((0, 1), (1, 2), (0, 2))],
                                         {i: ((i * 5 % 3 == 0) + 0, 1 + (i % 4 == 1)) for i in range(12)})))
    out.append(("hetero-mixed-motifs", hand([(4 * t, 4 * t + 1, "2-clique", t) for t in range(4)]
                                            + [(4 * t, 4 * t + 2, "3-clique", t) for t in range(4)]
                                            + [(4 * t + 2, 4 * t + 3, "2-clique", 10 + t) for t in range(4)],
                                            {i: (1 + (i % 3 == 0), (i % 5 == 0) + (i % 2)) for i in range(16)})))
    out.append(("selfloop", hand([(0, 0, "2-clique", 0), (1, 2, "2-clique", 1), (3, 4, "2-clique", 2)],
                                 {0: (2, 0), 1: (1, 0), 2: (1, 0), 3: (1, 0), 4: (1, 0)})))
    out.append(("dup-motif-id", hand([(0, 1, "2-clique", 7), (2, 3, "2-clique", 7), (4, 5, "2-clique", 8)],
                                     {i: (1, 0) for i in range(6)})))
    out.append(("no-topology", hand([(0, 1, None, 0), (2, 3, None, 1)], {i: (1, 0) for i in range(4)})))
    out.append(("no-motif-id", hand([(0, 1, "2-clique", None), (2, 3, "2-clique", None)], {i: (1, 0) for i in range(4)})))
    out.append(("no-jd", hand([(0, 1, "2-clique", 0), (2, 3, "2-clique", 1)], {})))
    out.append(("unknown-topology", hand([(0, 1, "9-clique", 0), (2, 3, "9-clique", 1)], {i: (1, 0) for i in range(4)})))
    out.append(("str-nodes", hand([("a", "b", "2-clique", 0), ("c", "d", "2-clique", 1), ("e", "f", "2-clique", 2)],
                                  {c: (1, 0) for c in "abcdef"})))
    out.append(("mixed-nodes", hand([("a", 1, "2-clique", 0), (2, 3, "2-clique", 1)], {"a": (1, 0), 1: (1, 0), 2: (1, 0), 3: (1, 0)})))
    out.append(("digraph", hand([(0, 1, "2-clique", 0), (1, 0, "2-clique", 1), (2, 3, "2-clique", 2), (5, 4, "2-clique", 3),
                                 (1, 2, "2-clique", 4)],
                                {0: (2, 0), 1: (3, 0), 2: (2, 0), 3: (1, 0), 4: (1, 0), 5: (1, 0)}, cls=nx.DiGraph)))
    out.append(("multigraph", hand([(0, 1, "2-clique", 0), (2, 3, "2-clique", 1)], {i: (1, 0) for i in range(4)},
                                   cls=nx.MultiGraph)))
    return out


def tiny_target(w=0.25, zero=False):
    ks = [(0, 0), (1, 0), (2, 0), (0, 1), (1, 1), (0, 0)]
    t = {a + b: w for a in ks for b in ks}
    if zero:
        t[(0, 0, 1, 0)] = 0.0
        t[(1, 0, 0, 0)] = 0.0
    r = {a + b: w for a in ks for b in ks}
    return JointExcessJointDegreeMatrices({ToolsNames.EDGE_NAMES: list(NAMES), ToolsNames.EJKS: {"2-clique": t, "3-clique": r}})


def tiny_suite(tag):
    for name, net in tiny_nets():
        for tz in (False, True):
            for conv, search in ((3, 5), (0, 2), (-1, 2), (2, 0)):
                for seed in (0, 1):
                    net2 = copy.deepcopy(net)
                    m = mcmc(net2, tiny_target(zero=tz), conv=conv, search=search)
                    random.seed(seed); np.random.seed(seed)
                    lab = "%s tiny %s zero=%s conv=%d search=%d seed=%d" % (tag, name, tz, conv, search, seed)
                    with budget(400):
                        show(lab, m.rewire)
                    print("   ", counters(m), gdig(net2.G))


def ctor_suite(tag):
    net = build(30, 4)
    ejk = target(0.01)
    for lab, p in (("none", None), ("empty", {}), ("no-ejks", {ToolsNames.NETWORK: net}), ("no-net", {ToolsNames.EJKS: ejk}),
                   ("net-none", {ToolsNames.NETWORK: None, ToolsNames.EJKS: ejk}),
                   ("net-is-graph", {ToolsNames.NETWORK: net.G, ToolsNames.EJKS: ejk}),
                   ("ejk-none", {ToolsNames.NETWORK: net, ToolsNames.EJKS: None, ToolsNames.CONVERGENCE_LIMIT: 2}),
                   ("list", [1, 2]), ("str-keys", {"network": net, "ejks": ejk})):
        def mk():
            m = MarkovChainMonteCarloRewiring(p)
            random.seed(3)
            with budget(300):
                return m.rewire()
        show("%s ctor %s" % (tag, lab), mk)
    m = mcmc(net, ejk)
    print(tag, "defaults", m.convergence_limit, m.search_limit, m.network is net, m.ejks is ejk)
    m.convergence_limit = 5; m.search_limit = 4; m.ejks = target(0.03); m.network = build(35, 9)
    random.seed(11)
    show("%s setters" % tag, m.rewire); print("   ", counters(m))


random.seed(0); np.random.seed(0)


# ---------------------------------------------------------------- variant b: is_edge_choice_suitable()
class Rec:
    """records logger.debug calls (the only other observable effect of the method)"""

    def __init__(self):
        self.n = 0

    def debug(self, msg, *a, **k):
        self.n += 1
        print("      log:", h(msg))


def direct_suite():
    net = hand([(0, 1, "3-clique", 0), (1, 2, "3-clique", 0), (0, 2, "3-clique", 0),
                (3, 4, "3-clique", 1), (4, 5, "3-clique", 1), (3, 5, "3-clique", 1),
                (0, 3, "2-clique", 2), (6, 7, "2-clique", 3), (8, 9, "2-clique", 4), (2, 9, "2-clique", 5),
                (10, 11, "2-clique", 6), (10, 12, "3-clique", 6), (13, 14, "2-clique", 7), (13, 15, "3-clique", 7),
                (16, 17, "2-clique", 8), (16, 18, "2-clique", 8), (19, 20, "2-clique", 9), (19, 21, "3-clique", 9),
                (22, 23, None, 10), (24, 25, "2-clique", None), (26, 26, "2-clique", 11), (6, 9, "2-clique", 12)],
               {i: (1, 1) for i in range(27)})
    G = net.G
    m = mcmc(net, tiny_target(), conv=1, search=1)
    m._logger = Rec()
    before = gdig(G)
    cases = [
        ("both-empty", 0, 3, [], []),
        ("both-empty-tuples", 0, 3, (), ()),
        ("left-empty", 0, 3, [], [(3, 4)]),
        ("right-empty", 0, 3, [(0, 1)], []),
        ("len-mismatch", 0, 6, [(0, 1), (0, 2)], [(6, 7)]),
        ("target-present-6-9", 6, 8, [(6, 7)], [(8, 9)]),
        ("ok-single-7-9", 7, 9, [(7, 6)], [(9, 8)]),
        ("ok-triangle-corners", 0, 3, [(0, 1), (0, 2)], [(3, 4), (3, 5)]),
        ("ok-mixed-corner", 10, 13, [(10, 11), (10, 12)], [(13, 14), (13, 15)]),
        ("ok-mixed-corner-crossed", 10, 13, [(10, 11), (10, 12)], [(13, 15), (13, 14)]),
        ("topology-set-differs", 6, 0, [(6, 7)], [(0, 1)]),
        ("topology-set-differs2", 10, 16, [(10, 11), (10, 12)], [(16, 17), (16, 18)]),
        ("topology-count-differs", 10, 19, [(10, 11), (10, 12), (10, 11)], [(19, 20), (19, 21), (19, 21)]),
        ("same-motif", 0, 1, [(0, 1), (0, 2)], [(1, 0), (1, 2)]),
        ("same-edge", 6, 6, [(6, 7)], [(6, 7)]),
        ("same-edge-flipped", 6, 7, [(6, 7)], [(7, 6)]),
        ("shared-vertex-selfloop", 2, 9, [(2, 9)], [(9, 8)]),
        ("shared-vertex-selfloop2", 9, 9, [(9, 2)], [(9, 8)]),
        ("ok-single-6-9", 6, 9, [(6, 7)], [(9, 8)]),
        ("ok-single-7-8", 7, 8, [(7, 6)], [(8, 9)]),
        ("target-present-tri-0-3", 1, 3, [(1, 0), (1, 2)], [(3, 4), (3, 5)]),
        ("u0-not-in-edge", 1, 8, [(6, 7)], [(8, 9)]),
        ("v0-not-in-edge", 6, 1, [(6, 7)], [(8, 9)]),
        ("edge-not-in-graph-left", 6, 8, [(6, 99)], [(8, 9)]),
        ("edge-not-in-graph-right", 6, 8, [(6, 7)], [(8, 99)]),
        ("no-topology-attr", 22, 6, [(22, 23)], [(6, 7)]),
        ("no-topology-attr-both", 22, 22, [(22, 23)], [(22, 23)]),
        ("no-motif-attr", 24, 6, [(24, 25)], [(6, 7)]),
        ("selfloop-edge", 26, 6, [(26, 26)], [(6, 7)]),
        ("dup-edges", 6, 8, [(6, 7), (6, 7)], [(8, 9), (8, 9)]),
        ("short-edge", 6, 8, [(6,)], [(8, 9)]),
        ("long-edge", 6, 8, [(6, 7, 0)], [(8, 9)]),
        ("edge-is-list", 6, 8, [[6, 7]], [(8, 9)]),
        ("none-lists", 6, 8, None, None),
        ("none-right", 6, 8, [(6, 7)], None),
        ("generators", 6, 8, (e for e in [(6, 7)]), (e for e in [(8, 9)])),
        ("dict-ebunch", 6, 8, {(6, 7): 1}, {(8, 9): 1}),
        ("set-ebunch", 6, 8, {(6, 7)}, {(8, 9)}),
        ("np-ebunch", 6, 8, np.array([[6, 7]]), np.array([[8, 9]])),
        ("np-empty", 6, 8, np.zeros((0, 2), dtype=int), np.zeros((0, 2), dtype=int)),
        ("str-ebunch", 6, 8, "ab", "cd"),
        ("empty-str", 6, 8, "", ""),
        ("u0-none", None, None, [(6, 7)], [(8, 9)]),
        ("unhashable-u0", [6], [8], [(6, 7)], [(8, 9)]),
    ]
    for lab, u0, v0, e0s, e1s in cases:
        snap = (repr(e0s), repr(e1s))
        for rep in range(2):  # repeated calls on one object
            if rep and "generators" in lab:
                continue
            show("b direct %s #%d" % (lab, rep), m.is_edge_choice_suitable, G, u0, v0, e0s, e1s)
        print("   args-unchanged", snap == (repr(e0s), repr(e1s)), "G-unchanged", gdig(G) == before, "logs", m._logger.n)
    # G is never looked at when both corners are empty
    show("b direct empty G=None", m.is_edge_choice_suitable, None, 0, 1, [], [])
    show("b direct nonempty G=None", m.is_edge_choice_suitable, None, 0, 1, [(0, 1)], [(1, 2)])
    # make a target edge present / a topology key change between calls on one object
    G.add_edges_from([(6, 8, {TOP: "2-clique", MID: 40})])
    show("b direct after-add", m.is_edge_choice_suitable, G, 6, 9, [(6, 7)], [(9, 8)])
    G.edges[8, 9][TOP] = "3-clique"
    show("b direct after-retopology", m.is_edge_choice_suitable, G, 6, 8, [(6, 7)], [(8, 9)])
    G.edges[6, 7][TOP] = "3-clique"
    show("b direct after-retopology2", m.is_edge_choice_suitable, G, 7, 9, [(7, 6)], [(9, 8)])
    nan = float("nan")
    G.edges[10, 11][TOP] = nan; G.edges[13, 14][TOP] = nan
    show("b direct nan-topology-same-object", m.is_edge_choice_suitable, G, 10, 13, [(10, 11)], [(13, 14)])
    G.edges[13, 14][TOP] = float("nan")
    show("b direct nan-topology-other-object", m.is_edge_choice_suitable, G, 10, 13, [(10, 11)], [(13, 14)])
    G.edges[10, 11][TOP] = ["unhashable"]
    show("b direct unhashable-topology", m.is_edge_choice_suitable, G, 10, 13, [(10, 11)], [(13, 14)])
    print("   logs", m._logger.n, rng())


def exhaustive_small():
    # every ordered pair of corners of a generated network, exactly as rewire() forms them
    for n, seed in ((25, 1), (40, 2)):
        net = build(n, seed)
        G = net.G
        m = mcmc(net, target(0.01), conv=1, search=1)
        res = []
        es = [tuple(sorted(e)) for e in G.edges()]
        random.seed(seed)
        for e0 in es:
            for e1 in random.sample(es, min(len(es), 25)) + [e0]:
                for u0, v0 in ((e0[0], e1[0]), (e0[1], e1[1]), (e0[0], e1[1])):
                    a = m.get_all_edges(G, u0, e0)
                    b = m.get_all_edges(G, v0, e1)
                    try:
                        res.append(m.is_edge_choice_suitable(G, u0, v0, a, b))
                    except BaseException as ex:
                        res.append(type(ex).__name__)
        print("b exhaustive n=%d" % n, len(res), sum(1 for r in res if r is True), h(res), rng())


direct_suite()
exhaustive_small()
ctor_suite("b")
tiny_suite("b")
rewire_suite("b", sizes=(40, 150))
print("final", rng(), counters())
