import sys, os; sys.path.insert(0, os.getcwd())
# Variant b: GCMAlgorithmCustomMotifs.random_clustered_graph - the number of
# motifs of a type is clamped at zero before it is used as a loop bound.
# Exercises the custom-motif generator (directly, through the factory, through
# the main entry point) on joint degree sequences / motif sizes for which the
# computed motif count is 0, fractional (<1), negative, or fails to compute,
# plus `partition`, repeated calls on one object and malformed parameters.
# Prints results, exception types and the state of both random streams.
import hashlib
import random
from fractions import Fraction
from decimal import Decimal

import numpy as np

from gcmpy.gcm_algorithm.gcm_algorithm_custom_motifs import GCMAlgorithmCustomMotifs
from gcmpy.gcm_algorithm.gcm_algorithm_factory import GCMAlgorithmFactory
from gcmpy.gcm_algorithm.gcm_algorithm_main import GCMAlgorithmMain
from gcmpy.gcm_algorithm.gcm_algorithm_types import GCMAlgorithmTypes
from gcmpy.names.gcm_algorithm_names import GCMAlgorithmNames as N
from gcmpy.motif_generators.clique_motif import clique_motif
from gcmpy.motif_generators.cycle_motif import cycle_motif
from gcmpy.motif_generators.diamond_motif import diamond_motif
from gcmpy.network.edge_list import LightWeightEdgeList


def h(obj):
    return hashlib.sha256(repr(obj).encode()).hexdigest()[:16]


def rng():
    return "py=%s np=%s" % (h(random.getstate()), h(np.random.get_state()))


def show(res):
    if isinstance(res, LightWeightEdgeList):
        return "EL edges=%r topo=%r ids=%r jds=%r" % (
            res.edge_list, res.topologies, res.motif_id,
            res.joint_degrees if isinstance(res.joint_degrees, (list, tuple, np.ndarray))
            else type(res.joint_degrees).__name__)
    return "OTHER %s %r" % (type(res).__name__, res)


def run(label, fn):
    try:
        out = show(fn())
    except BaseException as e:  # noqa
        out = "EXC %s" % type(e).__name__
    if len(out) > 400:
        out = out[:120] + "...#" + h(out) + " len=%d" % len(out)
    print("%-40s %s | %s" % (label, out, rng()))


def names_for(build, size_hint):
    def nm():
        return tuple("%s%d" % (build.__name__[:2], i) for i in range(size_hint))
    return nm


def two(vs):
    return (vs[0], vs[1])


def two_name():
    return "2-clique"


def tri(vs):
    return (vs[0], vs[1]), (vs[0], vs[2]), (vs[1], vs[2])


def tri_names():
    return "t", "t", "t"


def dia(vs):
    return ((vs[0], vs[1]), (vs[1], vs[2]), (vs[2], vs[3]), (vs[3], vs[1]), (vs[0], vs[2]))


def dia_names():
    return ("do", "do", "do", "do", "di")


def anylen(vs):
    return [tuple(vs)]


def anylen_names():
    return ["any"]


def P(sizes, builds, names, indices, kind=None):
    p = {N.MOTIF_SIZES: sizes, N.BUILD_FUNCTIONS: builds, N.EDGE_NAMES: names,
         N.MOTIF_INDICES: indices}
    if kind is not None:
        p[N.GCM_TYPE] = kind
    return p


class MyInt(int):
    pass


random.seed(20261004)
np.random.seed(20261004)
print("start", rng())

# --- partition: public helper ---------------------------------------------------
pa = GCMAlgorithmCustomMotifs(P([2], [two], [two_name], [[0]]))
for lst in ([], [7], [1, 2], [1, 2, 3], list(range(7)), "abcde", (1, 2, 3), None,
            np.arange(5)):
    for n in (-3, -1, 0, 1, 2, 3, 10, True, 2.0, None, np.int64(2), MyInt(2)):
        run("partition(%r,%r)" % (lst if not isinstance(lst, np.ndarray) else "np5", n),
            lambda: pa.partition(lst, n))

# --- the manuscript example of the test-suite --------------------------------------
JDS_PAPER = [
    (2, 1, 0, 1, 1, 0, 0), (1, 1, 0, 1, 1, 0, 0), (3, 1, 1, 0, 0, 1, 0),
    (2, 0, 1, 0, 0, 1, 0), (0, 0, 0, 1, 0, 0, 1), (1, 0, 0, 1, 0, 0, 0),
    (1, 0, 1, 0, 0, 0, 0), (1, 0, 1, 0, 0, 0, 0), (1, 0, 0, 1, 0, 0, 0),
    (1, 0, 0, 1, 0, 0, 0), (1, 0, 1, 0, 0, 0, 0), (0, 0, 1, 0, 0, 0, 0),
]


def penta(vs):
    return ((vs[0], vs[1]), (vs[1], vs[2]), (vs[2], vs[3]), (vs[3], vs[4]),
            (vs[0], vs[4]), (vs[1], vs[3]))


def penta_names():
    return "p01", "p12", "p23", "p34", "p40", "p13"


def paper(kind=None):
    return P([2, 3, 2, 2, 2, 2, 1], [two, tri, dia, penta],
             [two_name, tri_names, dia_names, penta_names],
             [[0], [1], [2, 3], [4, 5, 6]], kind)


alg = GCMAlgorithmCustomMotifs(paper())
for rep in range(3):
    run("paper#%d" % rep, lambda: alg.random_clustered_graph(JDS_PAPER))
run("paper factory", lambda: GCMAlgorithmFactory.resolve_algorithm(
    GCMAlgorithmTypes.MOTIFS, paper()).random_clustered_graph(JDS_PAPER))
run("paper main", lambda: GCMAlgorithmMain.load_gcm_algorithm(
    paper("motifs")).random_clustered_graph(JDS_PAPER))
run("paper main enum", lambda: GCMAlgorithmMain.load_gcm_algorithm(
    paper(GCMAlgorithmTypes.MOTIFS)).random_clustered_graph(JDS_PAPER))

# --- motif counts 0, <1, exact, with remainder -----------------------------------
JDS = {
    "empty": [],
    "no stubs": [(0,), (0,)],
    "one stub (count 0.5)": [(1,), (0,)],
    "two stubs (count 1)": [(1,), (1,)],
    "three stubs (count 1.5)": [(1,), (2,)],
    "one vertex": [(4,)],
    "zero-width rows": [(), ()],
    "negative counts": [(-2,), (3,)],
    "bools": [(True,), (True,)],
    "lists": [[2], [2], [0]],
    "floats": [(1.0,), (1.0,)],
    "ragged": [(1, 1), (1,)],
}
for name, jds in JDS.items():
    alg = GCMAlgorithmCustomMotifs(P([2], [two], [two_name], [[0]]))
    for rep in range(3):
        run("two[%s]#%d" % (name, rep), lambda: alg.random_clustered_graph(jds))
    run("two-main[%s]" % name, lambda: GCMAlgorithmMain.load_gcm_algorithm(
        P([2], [two], [two_name], [[0]], "motifs")).random_clustered_graph(jds))
    run("tri[%s]" % name, lambda: GCMAlgorithmCustomMotifs(
        P([3], [tri], [tri_names], [[0]])).random_clustered_graph(jds))
    run("clique_motif size4[%s]" % name, lambda: GCMAlgorithmCustomMotifs(
        P([4], [clique_motif], [lambda: ["k4"] * 6], [[0]])).random_clustered_graph(jds))
    run("no motif types[%s]" % name, lambda: GCMAlgorithmCustomMotifs(
        P([2], [], [], [])).random_clustered_graph(jds))

# --- motif sizes that make the count negative / odd / uncomputable ----------------
JD2 = [(1, 1), (1, 1), (2, 0), (0, 2), (1, 0), (1, 0)]
for sname, size in [("-1", -1), ("-2", -2), ("-7", -7), ("0", 0), ("1", 1), ("2", 2),
                    ("3", 3), ("4", 4), ("100", 100), ("True", True), ("False", False),
                    ("2.0", 2.0), ("-2.0", -2.0), ("0.5", 0.5), ("nan", float("nan")),
                    ("inf", float("inf")), ("-inf", float("-inf")), ("None", None),
                    ("'2'", "2"), ("Fraction", Fraction(2)), ("Decimal", Decimal(2)),
                    ("np.int64(2)", np.int64(2)), ("np.int64(-2)", np.int64(-2)),
                    ("np.int8(-1)", np.int8(-1)), ("MyInt(-3)", MyInt(-3)),
                    ("MyInt(2)", MyInt(2)), ("2**70", 2 ** 70), ("-2**70", -2 ** 70),
                    ("complex", 2j)]:
    # the size in question governs the first orbit of a one-orbit motif
    p1 = P([size, 2], [anylen, two], [anylen_names, two_name], [[0], [1]])
    a1 = GCMAlgorithmCustomMotifs(p1)
    for rep in range(2):
        run("size0=%s #%d" % (sname, rep), lambda: a1.random_clustered_graph(JD2))
    # ... the first orbit of a two-orbit motif
    p2 = P([size, 2], [anylen], [anylen_names], [[0, 1]])
    run("size0=%s two-orbit" % sname,
        lambda: GCMAlgorithmCustomMotifs(p2).random_clustered_graph(JD2))
    # ... only the second orbit (count is computed from the first)
    p3 = P([2, size], [anylen], [anylen_names], [[0, 1]])
    run("size1=%s second orbit" % sname,
        lambda: GCMAlgorithmCustomMotifs(p3).random_clustered_graph(JD2))
    # ... and through the entry points
    run("size0=%s main" % sname, lambda: GCMAlgorithmMain.load_gcm_algorithm(
        P([size, 2], [anylen, two], [anylen_names, two_name], [[0], [1]], "motifs")
    ).random_clustered_graph(JD2))
    # ... on an empty / all-zero sequence
    run("size0=%s empty jds" % sname,
        lambda: GCMAlgorithmCustomMotifs(p1).random_clustered_graph([]))
    run("size0=%s zero jds" % sname,
        lambda: GCMAlgorithmCustomMotifs(p1).random_clustered_graph([(0, 0), (0, 0)]))

# --- malformed parameters ----------------------------------------------------------
for pname, p in [
    ("indices empty inner", P([2], [two], [two_name], [[]])),
    ("index out of range", P([2], [two], [two_name], [[3]])),
    ("negative index", P([2, 2], [anylen], [anylen_names], [[-1]])),
    ("repeated orbit", P([2, 2], [anylen], [anylen_names], [[0, 0]])),
    ("orbit used by two motifs", P([2, 2], [anylen, anylen], [anylen_names] * 2, [[0], [0]])),
    ("second orbit exhausted", P([1, 2], [anylen], [anylen_names], [[0, 1]])),
    ("sizes empty", P([], [two], [two_name], [[0]])),
    ("sizes short", P([2], [anylen], [anylen_names], [[1]])),
    ("builds empty", P([2, 2], [], [two_name], [[0]])),
    ("names empty", P([2, 2], [two], [], [[0]])),
    ("names not callable", P([2, 2], [two], ["2-clique"], [[0]])),
    ("build returns None", P([2, 2], [lambda vs: None], [two_name], [[0]])),
    ("build returns []", P([2, 2], [lambda vs: []], [lambda: []], [[0]])),
    ("build returns 2 ints", P([2, 2], [two], [two_name], [[0]])),
    ("build returns 2 edges", P([2, 2], [lambda vs: [(vs[0], vs[1]), (vs[1], vs[0])]],
                                [lambda: ["x", "y"]], [[0]])),
    ("diamond_motif too few", P([2, 2], [diamond_motif], [dia_names], [[0]])),
    ("diamond_motif 2+2", P([2, 2], [diamond_motif], [lambda: ["d"] * 6], [[0, 1]])),
    ("cycle_motif 2+2", P([2, 2], [cycle_motif], [lambda: ["c"] * 4], [[0, 1]])),
    ("indices None", P([2, 2], [two], [two_name], None)),
    ("indices ints", P([2, 2], [two], [two_name], [0])),
]:
    a = GCMAlgorithmCustomMotifs(p)
    for rep in range(2):
        run("bad[%s]#%d" % (pname, rep), lambda: a.random_clustered_graph(JD2))
    run("bad[%s] empty" % pname, lambda: a.random_clustered_graph([]))
    run("bad[%s] zeros" % pname, lambda: a.random_clustered_graph([(0, 0)] * 3))

run("ctor missing indices", lambda: GCMAlgorithmCustomMotifs(
    {N.MOTIF_SIZES: [2], N.BUILD_FUNCTIONS: [two], N.EDGE_NAMES: [two_name]}))
run("ctor missing sizes", lambda: GCMAlgorithmCustomMotifs({N.MOTIF_INDICES: [[0]]}))
run("ctor None", lambda: GCMAlgorithmCustomMotifs(None))
run("numpy jds", lambda: GCMAlgorithmCustomMotifs(
    P([2, 2], [two, two], [two_name] * 2, [[0], [1]])).random_clustered_graph(np.array(JD2)))
run("generator jds", lambda: GCMAlgorithmCustomMotifs(
    P([2, 2], [two, two], [two_name] * 2, [[0], [1]])).random_clustered_graph(r for r in JD2))

# --- randomised sweep -----------------------------------------------------------------
gen = random.Random(11)
for t in range(300):
    n = gen.randrange(0, 7)
    m = gen.randrange(1, 4)
    jds = [tuple(gen.choice([0, 0, 1, 1, 2, 3]) for _ in range(m)) for _ in range(n)]
    sizes = [gen.choice([-2, -1, 1, 1, 2, 2, 3, 4]) for _ in range(m)]
    # random grouping of orbits into motifs
    orbits = list(range(m))
    gen.shuffle(orbits)
    cut = gen.randrange(1, m + 1)
    indices = [orbits[:cut]] + ([orbits[cut:]] if orbits[cut:] else [])
    p = P(sizes, [anylen] * len(indices), [anylen_names] * len(indices), indices)
    a = GCMAlgorithmCustomMotifs(p)
    run("sweep%03d sizes=%r idx=%r" % (t, sizes, indices), lambda: a.random_clustered_graph(jds))
    run("sweep%03d again" % t, lambda: a.random_clustered_graph(jds))

print("end", rng(), "next draws", random.random(), np.random.random())
