import sys, os; sys.path.insert(0, os.getcwd())
"""
Equivalence digest for the C19 clean-up commit ("distributions: share the
series summation, hoist constants").  Run with cwd = a checkout; prints a
deterministic digest of everything the commit touched, reached only through
entry points that exist on the original code: the four distribution factories
(by module path, via gcmpy.distributions and via the gcmpy top level) and the
marginal joint-degree sampler that consumes them.
"""
import hashlib
import random
import warnings

warnings.simplefilter("ignore")

import numpy as np

import gcmpy
import gcmpy.distributions as dists
from gcmpy.distributions.exponential import exponential
from gcmpy.distributions.poisson import poisson
from gcmpy.distributions.power_law import power_law
from gcmpy.distributions.scale_free_cut_off import scale_free_cut_off
from gcmpy.joint_degree.joint_degree_loaders.joint_degree_marginal import (
    JointDegreeMarginal,
)
from gcmpy.names.joint_degree_names import JointDegreeNames

random.seed(20261004)
np.random.seed(20261004)


def h(obj) -> str:
    return hashlib.sha256(repr(obj).encode()).hexdigest()[:16]


def rng_state() -> str:
    st = np.random.get_state()
    return h(random.getstate()) + "/" + h((st[0], st[1].tolist(), st[2], st[3], st[4]))


def show(v):
    if isinstance(v, np.ndarray):
        return "ndarray[%s]%s" % (v.dtype, [repr(x) for x in v.tolist()])
    return "%s:%r" % (type(v).__name__, v)


def outcome(f, *args):
    try:
        return show(f(*args))
    except BaseException as e:  # noqa
        return "raises " + type(e).__name__


def make_and_call(factory, params, k):
    """factory(*params)(k) as one operation (exception type or value)."""
    try:
        return show(factory(*params)(k))
    except BaseException as e:  # noqa
        return "raises " + type(e).__name__


KS = [0, 1, 2, 3, 5, 10, 25, 100, 170, 171, 1000, -1, -3, 2.5, 0.0, True,
      np.int64(4), np.int32(0), np.float64(7.0), np.float32(1.5),
      np.array([1, 2, 3]), np.array([1.0, 4.0]), 10**30,
      "3", None, [1], 1 + 2j]


def table(name, p, ks=KS):
    print("== %s" % name)
    for k in ks:
        print("   k=%-28r -> %s" % (k if not isinstance(k, np.ndarray) else k.tolist(), outcome(p, k)))
    # repeated calls on one object: the closure must be stateless
    first = [outcome(p, k) for k in (1, 2, 3, 50)]
    again = [outcome(p, k) for k in (1, 2, 3, 50)]
    print("   repeat-stable: %s" % (first == again))
    grid = [outcome(p, k) for k in range(1, 400)]
    print("   grid(1..399) digest %s" % h(grid))


# --------------------------------------------------------------- identities
print("exports:", dists.exponential is exponential, dists.poisson is poisson,
      dists.power_law is power_law, dists.scale_free_cut_off is scale_free_cut_off,
      gcmpy.exponential is exponential, gcmpy.poisson is poisson,
      gcmpy.power_law is power_law, gcmpy.scale_free_cut_off is scale_free_cut_off)
for f in (exponential, poisson, power_law, scale_free_cut_off):
    print("factory:", f.__name__, f.__module__, sorted(f.__annotations__),
          f.__code__.co_varnames[: f.__code__.co_argcount])

# -------------------------------------------------------------- exponential
for a in (0.3, 1.0, 2.5, 1, 1e-12, 50.0, 800.0, np.float64(0.7), np.float32(0.7),
          True, -0.5, 0.0, float("inf"), float("nan"), 2 + 1j,
          np.array([0.1, 2.0])):
    p = exponential(a)
    table("exponential(%r)" % (a.tolist() if isinstance(a, np.ndarray) else a), p)
    print("   two factories agree: %s" % (outcome(exponential(a), 3) == outcome(p, 3)))

# ------------------------------------------------------------------ poisson
for m in (0.5, 2.5, 10.0, 1, 0, 0.0, 700.0, 1e-9, np.float64(2.5), np.float32(2.5),
          True, -1.5, float("inf"), float("nan"), np.array([0.5, 3.0])):
    p = poisson(m)
    table("poisson(%r)" % (m.tolist() if isinstance(m, np.ndarray) else m), p)

# ---------------------------------------------------------------- power_law
for alpha in (2.5, 3.0, 4.0, 2, 2.0, 1.5, 1.2, 10.0, 50, np.float64(2.5),
              np.float32(2.5), True, float("inf")):
    p = power_law(alpha)
    table("power_law(%r)" % (alpha,), p)
    s = 0.0
    for k in range(1, 20001):
        s += p(k)
    print("   partial sum 1..20000 = %r" % (s,))

# ------------------------------------------------------- scale_free_cut_off
for alpha, kappa in ((2.5, 25.0), (2.5, 25), (2.0, 5.0), (3.0, 1.0), (2.5, 0.5),
                     (2, 10), (0.0, 3.0), (0.5, 2.0), (1.0, 4.0), (-1.0, 2.0),
                     (2.5, 1000.0), (2.5, 0.01), (2.5, 1e-3), (3.0, float("inf")),
                     (np.float64(2.5), np.float64(25.0)), (np.float32(2.5), np.float32(25.0)),
                     (2.5, np.float64(0.0)), (2.5, np.int64(7)), (True, True),
                     (2.5, float("nan"))):
    if kappa != kappa:
        # nan cut-off: the series never terminates on either version; skipped
        continue
    p = scale_free_cut_off(alpha, kappa)
    table("scale_free_cut_off(%r, %r)" % (alpha, kappa), p)
    s = 0.0
    for k in range(1, 5001):
        s += p(k)
    print("   partial sum 1..5000 = %r" % (s,))
    q = scale_free_cut_off(alpha, kappa)
    print("   two factories agree: %s" % (outcome(q, 3) == outcome(p, 3)))

# -------------------------------------------------- error paths (factories)
# factory and first evaluation taken together, as every existing caller does
print("== error paths")
BAD = ["x", None, [1.0], {}, (2.0,), b"1", 10**400, object]
for bad in BAD:
    shown = "10**400" if bad == 10**400 and not isinstance(bad, (str, bytes)) and isinstance(bad, int) else repr(bad)
    print("   exponential(%s)(1)        -> %s" % (shown, make_and_call(exponential, (bad,), 1)))
    print("   poisson(%s)(1)            -> %s" % (shown, make_and_call(poisson, (bad,), 1)))
    if not (isinstance(bad, int) and not isinstance(bad, bool)):
        print("   power_law(%s)(1)          -> %s" % (shown, make_and_call(power_law, (bad,), 1)))
        print("   scale_free_cut_off(%s,5)(1) -> %s" % (shown, make_and_call(scale_free_cut_off, (bad, 5.0), 1)))
    print("   scale_free_cut_off(2.5,%s)(1) -> %s" % (shown, make_and_call(scale_free_cut_off, (2.5, bad), 1)))
print("   scale_free_cut_off(2.5, 0)     -> %s" % outcome(scale_free_cut_off, 2.5, 0))
print("   scale_free_cut_off(2.5, 0.0)   -> %s" % outcome(scale_free_cut_off, 2.5, 0.0))
print("   exponential()                  -> %s" % outcome(exponential))
print("   poisson()                      -> %s" % outcome(poisson))
print("   power_law()                    -> %s" % outcome(power_law))
print("   scale_free_cut_off(2.5)        -> %s" % outcome(scale_free_cut_off, 2.5))
print("   exponential(a=1.0)(k=2)        -> %s" % outcome(lambda: exponential(a=1.0)(k=2)))
print("   poisson(kmean=1.0)(k=2)        -> %s" % outcome(lambda: poisson(kmean=1.0)(k=2)))
print("   power_law(alpha=3.0)(k=2)      -> %s" % outcome(lambda: power_law(alpha=3.0)(k=2)))
print("   sfco(alpha=3.0,kappa=2.0)(k=2) -> %s" % outcome(lambda: scale_free_cut_off(alpha=3.0, kappa=2.0)(k=2)))
print("   p() no arg                     -> %s" % outcome(lambda: scale_free_cut_off(3.0, 2.0)()))

# mutable parameter is not mutated
arr = np.array([0.5, 3.0])
exponential(arr)(2); poisson(arr)(2)
print("   array parameter untouched: %r" % (arr.tolist(),))
print("rng after pure evaluations:", rng_state())

# -------------------------------------- consumer: marginal joint-degree law
print("== JointDegreeMarginal sampling")
CASES = [
    ("poisson", [poisson(2.5)], [2], [(0, 10)]),
    ("exponential", [exponential(0.4)], [2], [(0, 12)]),
    ("power_law", [power_law(2.5)], [2], [(1, 10)]),
    ("scale_free", [scale_free_cut_off(2.5, 25)], [2], [(1, 10)]),
    ("mixed", [scale_free_cut_off(2.0, 5.0), poisson(1.5)], [2, 3], [(1, 8), (0, 6)]),
]
for name, fps, sizes, bounds in CASES:
    params = {}
    params[JointDegreeNames.MOTIF_SIZES] = list(sizes)
    params[JointDegreeNames.ARR_FP] = list(fps)
    params[JointDegreeNames.LOW_HIGH_DEGREE_BOUND] = list(bounds)
    obj = JointDegreeMarginal(params)
    for n in (1, 7, 500, 500):
        try:
            jds = obj.sample_jds_from_jdd(n)
            print("   %-11s n=%-4d len=%d digest=%s head=%r" % (
                name, n, len(jds), h([tuple(int(x) for x in jd) for jd in jds]),
                [tuple(int(x) for x in jd) for jd in jds[:4]]))
        except BaseException as e:  # noqa
            print("   %-11s n=%-4d raises %s" % (name, n, type(e).__name__))
    print("   %-11s params untouched: %s rng=%s" % (
        name,
        (params[JointDegreeNames.MOTIF_SIZES] == list(sizes)
         and params[JointDegreeNames.LOW_HIGH_DEGREE_BOUND] == list(bounds)
         and all(a is b for a, b in zip(params[JointDegreeNames.ARR_FP], fps))),
        rng_state()))

print("final rng:", rng_state())
