"""Equivalence digest for C07 (split-degree and delta joint degree loaders).

Run with cwd = a checkout of gcmpy. Prints exact (repr / float.hex) results so
that any floating point or ordering difference shows up in a textual diff.
"""
import hashlib
import math
import os
import random
import sys

sys.path.insert(0, os.getcwd())

import numpy as np

from gcmpy.joint_degree.joint_degree_loaders.joint_degree_delta import JointDegreeDelta
from gcmpy.joint_degree.joint_degree_loaders.joint_degree_split_degree import (
    JointDegreeSplitDegree,
)
from gcmpy.names.joint_degree_names import JointDegreeNames

random.seed(12345)
np.random.seed(12345)


def fx(x):
    """Exact textual form of a number together with its type name."""
    if isinstance(x, (float, np.floating)):
        return f"{type(x).__name__}:{float(x).hex()}"
    return f"{type(x).__name__}:{x!r}"


def dump_jdd(label, jdd):
    lines = [f"{k!r} -> {fx(v)}" for k, v in jdd.items()]  # insertion order matters
    digest = hashlib.sha256("\n".join(lines).encode()).hexdigest()
    print(f"[{label}] n={len(jdd)} sum={fx(math.fsum(float(v) for v in jdd.values()))}")
    print(f"[{label}] sha256={digest}")
    for line in lines[:12]:
        print(f"[{label}]   {line}")
    if len(lines) > 12:
        for line in lines[-4:]:
            print(f"[{label}]   ...{line}")


def poisson(mean):
    return lambda k: math.exp(-mean) * mean**k / math.factorial(k)


def power_law(alpha):
    return lambda k: float(k) ** (-alpha) if k > 0 else 0.0


def np_geometric(q):
    return lambda k: np.float64(q) ** k * np.float64(1 - q)


def params_split(fp, probs, sizes, bounds):
    return {
        JointDegreeNames.FP: fp,
        JointDegreeNames.PROBS: probs,
        JointDegreeNames.MOTIF_SIZES: sizes,
        JointDegreeNames.LOW_HIGH_DEGREE_BOUND: bounds,
    }


def params_delta(fp, probs, sizes, bounds, target):
    p = params_split(fp, probs, sizes, bounds)
    p[JointDegreeNames.TARGET_K] = target
    return p


def attempt(label, fn):
    try:
        return fn()
    except BaseException as e:  # noqa: BLE001 - digest the failure mode too
        print(f"[{label}] raised {type(e).__name__}: {e}")
        return None


# ---------------------------------------------------------------- split degree
SPLIT_CASES = [
    ("poisson-2top", poisson(2.5), [0.6, 0.4], [2, 3], (0, 12)),
    ("poisson-3top", poisson(4.0), [0.5, 0.3, 0.2], [2, 3, 4], (1, 15)),
    ("powerlaw-4top", power_law(2.3), [0.4, 0.3, 0.2, 0.1], [2, 3, 4, 5], (1, 14)),
    ("npgeom-3top", np_geometric(0.7), list(np.array([0.55, 0.25, 0.2])), [2, 3, 4], (0, 10)),
    ("single-top", poisson(1.5), [1.0], [2], (0, 8)),
    ("int-probs", poisson(3.0), [1, 1, 1], [2, 3, 4], (2, 9)),
    ("empty-range", poisson(3.0), [0.5, 0.5], [2, 3], (5, 5)),
    ("list-bounds-extra", poisson(3.0), [0.7, 0.3], [2, 3], [1, 7, 99]),
    ("random-probs", poisson(3.3), None, [2, 3, 4], (0, 11)),
]

objs = {}
for name, fp, probs, sizes, bounds in SPLIT_CASES:
    if probs is None:
        raw = [random.random() for _ in sizes]
        probs = [r / sum(raw) for r in raw]
    obj = attempt(
        f"split:{name}",
        lambda: JointDegreeSplitDegree(params_split(fp, probs, sizes, bounds)),
    )
    if obj is not None:
        objs[name] = obj
        dump_jdd(f"split:{name}", obj.jdd)

# direct calls to the pieces
probe = objs["poisson-3top"]
for k in (0, 1, 2, 5, 7, -1):
    for top in (1, 2, 3):
        rows = list(probe.get_valid_joint_degrees(k, top))
        print(f"[valid k={k} top={top}] {rows!r}")
gen = probe.get_valid_joint_degrees(6, 3)
print("[valid generator]", type(gen).__name__, next(gen), next(gen))
attempt("valid top=0", lambda: print(list(probe.get_valid_joint_degrees(4, 0))))

for jd in [(0, 0, 0), (3, 1, 0), (1, 2, 1), [2, 0, 2], (5,), ()]:
    print(f"[calc_prob {jd!r}] {fx(probe.calc_prob_of_joint_degree(jd))}")
attempt("calc_prob too long", lambda: print(fx(probe.calc_prob_of_joint_degree((1, 1, 1, 1)))))
print(f"[calc_prob np] {fx(objs['npgeom-3top'].calc_prob_of_joint_degree((2, 1, 1)))}")
print(f"[calc_prob int] {fx(objs['int-probs'].calc_prob_of_joint_degree((2, 1, 1)))}")

# call history: resolve_degree accumulates into the shared table, create_jdd resets it
hist = objs["poisson-2top"]
before = dict(hist.jdd)
hist.resolve_degree(20, 0.125)
hist.resolve_degree(3, 0.5)  # overwrites existing keys, keeps their position
hist.resolve_degree(k=4, prob_overall_k=np.float64(0.25))
dump_jdd("history:after-resolve", hist.jdd)
hist.create_jdd()
dump_jdd("history:after-recreate", hist.jdd)
print("[history] recreate identical:", list(before.items()) == list(hist.jdd.items()))
hist.create_jdd()
print("[history] recreate twice identical:", list(before.items()) == list(hist.jdd.items()))

# zero total weight (all splits impossible)
zero = objs["poisson-3top"]
saved = zero._probs
zero._probs = [0.0, 0.0, 0.0]
attempt("zero-weights", lambda: zero.resolve_degree(3, 0.5))
zero._probs = [np.float64(0.0)] * 3
with np.errstate(all="ignore"):
    attempt("zero-weights-np", lambda: zero.resolve_degree(3, 0.5))
dump_jdd("zero-weights", {k: v for k, v in zero.jdd.items() if sum(i * x for i, x in enumerate(k, 1)) == 3})
zero._probs = saved
zero.create_jdd()

# the fp call sequence is observable: record it
calls = []


def recording_fp(k):
    calls.append(k)
    return poisson(2.0)(k) * (1 + 0.01 * random.random())


rec = JointDegreeSplitDegree(params_split(recording_fp, [0.5, 0.3, 0.2], [2, 3, 4], (0, 9)))
print("[fp-calls split]", calls)
dump_jdd("split:recording", rec.jdd)

# ----------------------------------------------------------------------- delta
DELTA_CASES = [
    ("poisson-2top-t4", poisson(2.5), [0.6, 0.4], [2, 3], (0, 12), 4),
    ("poisson-3top-t6", poisson(4.0), [0.5, 0.3, 0.2], [2, 3, 4], (1, 15), 6),
    ("powerlaw-4top-t9", power_law(2.3), [0.4, 0.3, 0.2, 0.1], [2, 3, 4, 5], (1, 14), 9),
    ("target-outside", poisson(3.0), [0.5, 0.3, 0.2], [2, 3, 4], (1, 8), 20),
    ("target-low-edge", poisson(3.0), [0.5, 0.3, 0.2], [2, 3, 4], (1, 8), 1),
    ("target-high-edge", poisson(3.0), [0.5, 0.3, 0.2], [2, 3, 4], (1, 8), 7),
    ("target-float", poisson(3.0), [0.5, 0.3, 0.2], [2, 3, 4], (1, 8), 5.0),
    ("target-nan", poisson(3.0), [0.5, 0.3, 0.2], [2, 3, 4], (1, 8), float("nan")),
    ("target-none", poisson(3.0), [0.5, 0.3, 0.2], [2, 3, 4], (1, 8), None),
    ("sizes-longer-than-probs", poisson(3.0), [0.5, 0.5], [2, 3, 4], (1, 8), 4),
    ("only-target-no-sizes", poisson(3.0), [0.5, 0.5], None, (4, 5), 4),
    ("npgeom-t3", np_geometric(0.6), [np.float64(0.5), np.float64(0.5)], [2, 3], (0, 9), 3),
]

dobjs = {}
for name, fp, probs, sizes, bounds, target in DELTA_CASES:
    obj = attempt(
        f"delta:{name}",
        lambda: JointDegreeDelta(params_delta(fp, probs, sizes, bounds, target)),
    )
    if obj is not None:
        dobjs[name] = obj
        dump_jdd(f"delta:{name}", obj.jdd)

calls.clear()
drec = JointDegreeDelta(params_delta(recording_fp, [0.5, 0.3, 0.2], [2, 3, 4], (0, 9), 5))
print("[fp-calls delta]", calls)
dump_jdd("delta:recording", drec.jdd)

dh = dobjs["poisson-3top-t6"]
snapshot = list(dh.jdd.items())
dh.resolve_degree(9, 0.3)
dh._target_k = 3
dh.create_jdd()
dump_jdd("delta:history-retarget", dh.jdd)
dh._target_k = 6
dh.create_jdd()
print("[delta history] back to original:", snapshot == list(dh.jdd.items()))

# ------------------------------------------------- sampling from the tables
for name in ("poisson-3top", "powerlaw-4top", "random-probs"):
    jds = objs[name].sample_jds_from_jdd(400)
    print(f"[sample split:{name}] {hashlib.sha256(repr(jds).encode()).hexdigest()} {jds[:5]!r}")
for name in ("poisson-3top-t6", "powerlaw-4top-t9"):
    jds = dobjs[name].sample_jds_from_jdd(400)
    print(f"[sample delta:{name}] {hashlib.sha256(repr(jds).encode()).hexdigest()} {jds[:5]!r}")
print("[rng tail]", random.random(), np.random.random())
