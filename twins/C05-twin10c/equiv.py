import sys, os; sys.path.insert(0, os.getcwd())
import hashlib
import random
import copy
from fractions import Fraction
from decimal import Decimal

import numpy as np

from gcmpy.joint_degree.joint_degree import JointDegree
from gcmpy.joint_degree.joint_degree_type import JointDegreeType
from gcmpy.joint_degree.joint_degree_distribution import JointDegreeDistribution
from gcmpy.joint_degree.joint_degree_loaders.joint_degree_manual import JointDegreeManual
from gcmpy.joint_degree.joint_degree_loaders.joint_degree_delta import JointDegreeDelta
from gcmpy.joint_degree.joint_degree_loaders.joint_degree_empirical import JointDegreeEmpirical
from gcmpy.names.joint_degree_names import JointDegreeNames as JN
from gcmpy.distributions.power_law import power_law


def h(obj):
    return hashlib.sha256(repr(obj).encode()).hexdigest()[:16]


def rng_digest():
    st = np.random.get_state()
    return h(random.getstate()) + ":" + h((st[0], st[1].tolist(), st[2], st[3], st[4]))


def show(label, fn, full=False):
    try:
        r = fn()
        types = sorted({type(x).__name__ for x in r}) if isinstance(r, list) else type(r).__name__
        inner = sorted({type(y).__name__ for x in r for y in x}) if isinstance(r, list) and all(isinstance(x, (tuple, list)) for x in r) else None
        body = repr(r) if (full or len(repr(r)) < 300) else h(r)
        print(label, "OK", type(r).__name__, len(r) if hasattr(r, "__len__") else "-", types, inner, body, rng_digest())
    except BaseException as e:
        print(label, "EXC", type(e).__name__, rng_digest())


def manual(jdd, ms):
    return JointDegreeManual({JN.JDD: jdd, JN.MOTIF_SIZES: ms})


def seed(s):
    random.seed(s)
    np.random.seed(s)


# ---------------------------------------------------------------- sampling
JDDS = {
    "one": ({(1,): 0.2, (2,): 0.5, (3,): 0.1, (5,): 0.2}, [2]),
    "two": ({(1, 0): 0.2, (2, 1): 0.5, (3, 0): 0.1, (5, 1): 0.2}, [2, 3]),
    "three": ({(1, 0, 2): 1, (2, 1, 0): 5, (0, 0, 0): 3, (7, 3, 1): 2}, [2, 3, 4]),
    "big_motifs": ({(1, 1): 1.0, (0, 1): 2.0, (1, 0): 0.5}, [7, 11]),
    "single_key": ({(3, 1): 1.0}, [2, 3]),
    "single_key_zero": ({(0, 0): 4.0}, [2, 3]),
    "unnormalised_ints": ({(1, 2): 3, (4, 0): 1, (0, 9): 6}, [2, 4]),
    "fraction_w": ({(1, 2): Fraction(1, 3), (4, 0): Fraction(2, 3)}, [2, 3]),
    "decimal_w": ({(1, 2): Decimal("0.25"), (4, 0): Decimal("0.75")}, [2, 3]),
    "bool_w": ({(1, 2): True, (4, 0): False, (3, 3): True}, [2, 3]),
    "zero_weight_some": ({(1, 2): 0.0, (4, 0): 1.0, (3, 3): 0.0}, [2, 3]),
    "np_keys": ({(np.int64(1), np.int64(2)): 0.5, (np.int64(3), np.int64(0)): 0.5}, [2, 3]),
    "np_weights": ({(1, 2): np.float64(0.5), (3, 0): np.float32(0.5)}, [2, 3]),
    "float_keys": ({(1.0, 2.5): 0.5, (3.0, 0.5): 0.5}, [2, 3]),
    "list_like_keys_ragged": ({(1, 2, 3): 0.5, (3, 0): 0.5}, [2, 3, 4]),
    "motif1": ({(1, 2): 0.5, (3, 0): 0.5}, [1, 1]),
    "more_sizes_than_tops": ({(1, 2): 0.5, (3, 0): 0.5}, [2, 3, 4, 5]),
    "fewer_sizes_than_tops": ({(1, 2): 0.5, (3, 1): 0.5}, [2]),
    "zero_size": ({(1, 2): 0.5, (3, 1): 0.5}, [2, 0]),
    "neg_size": ({(1, 2): 0.5, (3, 1): 0.5}, [-2, -3]),
    "float_size": ({(1, 2): 0.5, (3, 1): 0.5}, [2.0, 3.0]),
    "sizes_tuple": ({(1, 2): 0.5, (3, 1): 0.5}, (2, 3)),
    "sizes_none": ({(1, 2): 0.5, (3, 1): 0.5}, None),
    "sizes_np": ({(1, 2): 0.5, (3, 1): 0.5}, np.array([2, 3])),
    "empty_key": ({(): 1.0}, [2]),
    "str_keys": ({"ab": 0.5, "cd": 0.5}, [2, 3]),
    "int_keys": ({1: 0.5, 2: 0.5}, [2]),
    "frozenset_keys": ({frozenset([1]): 0.5, frozenset([2]): 0.5}, [2]),
    "range_keys": ({range(1, 3): 0.5, range(2, 4): 0.5}, [2, 3]),
    "empty_jdd": ({}, [2]),
    "all_zero_w": ({(1,): 0.0, (2,): 0.0}, [2]),
    "neg_total_w": ({(1,): -1.0, (2,): 0.5}, [2]),
    "neg_some_w": ({(1,): -0.5, (2,): 1.5, (3,): 1.0}, [2]),
    "inf_w": ({(1,): float("inf"), (2,): 0.5}, [2]),
    "nan_w": ({(1,): float("nan"), (2,): 0.5}, [2]),
    "none_w": ({(1,): None, (2,): 0.5}, [2]),
    "str_w": ({(1,): "a", (2,): "b"}, [2]),
    "str_w_single": ({(1,): "a"}, [2]),
    "list_w": ({(1,): [1], (2,): [2]}, [2]),
    "mixed_w": ({(1,): 1, (2,): "b"}, [2]),
    "huge_w": ({(1,): 10 ** 400, (2,): 1}, [2]),
    "jdd_none": (None, [2]),
    "jdd_list": ([(1,), (2,)], [2]),
}
NS = [0, 1, 2, 3, 7, 50, 1001, -1, 2.0, 2.5, None, "3", True, np.int64(5)]

print("== sample_jds_from_jdd via JointDegreeManual")
for name, (jdd, ms) in JDDS.items():
    for N in NS:
        seed(12345)
        obj = manual(copy.copy(jdd), copy.copy(ms))
        show(f"S {name} N={N!r}", lambda: obj.sample_jds_from_jdd(N))

print("== repeated calls on one object, stream carried over")
seed(99)
obj = manual({(1, 0, 2): 1, (2, 1, 0): 5, (0, 0, 0): 3, (7, 3, 1): 2}, [2, 3, 5])
for r in range(25):
    show(f"R {r}", lambda: obj.sample_jds_from_jdd(r + 1), full=True)
print("jdd after", obj.jdd, obj.motif_sizes)
obj.motif_sizes = [4, 6, 9]
obj.jdd = {(1, 1, 1): 0.3, (0, 2, 5): 0.7}
for r in range(10):
    show(f"R2 {r}", lambda: obj.sample_jds_from_jdd(3 * r), full=True)

print("== property checks on many seeds")
for s in range(200):
    seed(s)
    ms = [random.randint(1, 6) for _ in range(random.randint(1, 4))]
    keys = {tuple(random.randint(0, 9) for _ in ms) for _ in range(random.randint(1, 8))}
    jdd = {k: random.random() + 0.01 for k in sorted(keys)}
    N = random.randint(1, 60)
    obj = manual(jdd, ms)
    st = random.getstate()
    jds = obj.sample_jds_from_jdd(N)
    after = rng_digest()
    random.setstate(st)
    raw = random.choices(list(jdd), weights=list(jdd.values()), k=N)
    added = [sum(a[i] - b[i] for a, b in zip(jds, raw)) for i in range(len(ms))]
    ok = all(sum(t[i] for t in jds) % ms[i] == 0 for i in range(len(ms)))
    print("P", s, N, ms, h(jds), added, ok, after)

print("== loaders / facade")
seed(7)
d = JointDegreeDelta({JN.MOTIF_SIZES: [2, 3], JN.PROBS: [0.8, 0.2], JN.FP: power_law(2.5),
                      JN.LOW_HIGH_DEGREE_BOUND: (1, 60), JN.TARGET_K: 3})
for N in (1, 5, 333, 5000):
    show(f"D N={N}", lambda: d.sample_jds_from_jdd(N))
seed(8)
e = JointDegreeEmpirical({JN.JDS: [(int(k), int(k) % 3) for k in np.random.randint(0, 12, 400)],
                          JN.MOTIF_SIZES: [2, 3]})
for N in (1, 4, 400, 4001):
    show(f"E N={N}", lambda: e.sample_jds_from_jdd(N))
seed(9)
f = JointDegreeDistribution.load_joint_degree({JN.JOINT_DEGREE_TYPE: JointDegreeType.MANUAL,
                                               JN.JDD: {(1, 4): 0.2, (2, 2): 0.5, (3, 0): 0.3},
                                               JN.MOTIF_SIZES: [2, 5]})
for N in (1, 2, 3, 77, 10000):
    show(f"F N={N}", lambda: f.sample_jds_from_jdd(N))

# ------------------------------------------------------- handshaking_lemma
print("== handshaking_lemma called directly")
HS = {
    "empty": ([], [2, 3]),
    "already_ok": ([(2, 3), (0, 0), (2, 3)], [2, 3]),
    "one_off": ([(1, 1)], [2, 3]),
    "tuples": ([(1, 1), (2, 0), (0, 5), (4, 4)], [3, 4]),
    "lists": ([[1, 1], [2, 0], [0, 5]], [3, 4]),
    "mixed_seq": ([(1, 1), [2, 0], range(0, 2)], [3, 4]),
    "ragged": ([(1, 1, 9), (2, 0), (0, 5, 1)], [3, 4, 5]),
    "one_top_short_sizes": ([(1, 1), (1, 1)], [3]),
    "no_sizes": ([(1, 1), (1, 1)], []),
    "zero": ([(1, 1), (1, 1)], [0, 2]),
    "neg": ([(1, 1), (1, 2)], [-3, -2]),
    "negative_degrees": ([(-1, -1), (-1, -3)], [3, 5]),
    "floats": ([(1.5, 1.0), (1.0, 1.0)], [2, 3]),
    "float_int_valued": ([(1.0, 1.0), (2.0, 1.0)], [2, 3]),
    "bools": ([(True, False), (True, True), (True, False)], [2, 3]),
    "npints": ([(np.int64(1), np.int32(2)), (np.int64(2), np.int32(2))], [2, 3]),
    "nparr_rows": ([np.array([1, 2]), np.array([2, 2])], [2, 3]),
    "nparr_2d": (np.array([[1, 2], [2, 2], [0, 1]]), [2, 3]),
    "tuple_outer": (((1, 1), (2, 1)), [2, 3]),
    "tuple_outer_ok": (((1, 1), (1, 2)), [2, 3]),
    "strs": (["ab", "cd"], [2, 3]),
    "nested": ([((1,), (2,)), ((3,), (4,))], [2, 3]),
    "ints": ([1, 2, 3], [2]),
    "none": (None, [2]),
    "gen": ((t for t in [(1, 1), (2, 1)]), [2, 3]),
    "dict": ({(1, 1): 1, (2, 1): 2}, [2, 3]),
    "fractions": ([(Fraction(1, 2), Fraction(3)), (Fraction(1, 2), Fraction(1))], [2, 3]),
    "huge": ([(10 ** 30 + 1, 10 ** 40 + 5)] * 3, [10 ** 3, 7]),
    "sizes_float": ([(1, 1), (2, 1)], [2.0, 3.0]),
    "sizes_str": ([(1, 1), (2, 1)], ["2", "3"]),
    "sizes_none": ([(1, 1), (2, 1)], None),
    "sizes_dict": ([(1, 1), (2, 1)], {0: 2, 1: 3}),
}
for name, (jds, ms) in HS.items():
    for s in (0, 1, 2):
        seed(s)
        obj = manual({(1,): 1.0}, ms)
        arg = copy.deepcopy(jds) if name != "gen" else (t for t in [(1, 1), (2, 1)])
        show(f"H {name} s={s}", lambda: obj.handshaking_lemma(arg), full=True)
        try:
            print("   arg after:", type(arg).__name__ if name == "gen" else repr(arg)[:400], name)
        except BaseException as e2:
            print("   arg repr EXC", type(e2).__name__)

print("== identity / mutation")
seed(4)
obj = manual({(1,): 1.0}, [4, 5])
arg = [(1, 1), (1, 1), (1, 1)]
out = obj.handshaking_lemma(arg)
print(out is arg, arg, rng_digest())
out2 = obj.handshaking_lemma(out)
print(out2 is arg, arg, rng_digest())

print("== abstract / uninitialised")
show("A new", lambda: JointDegree())
class Bare(JointDegree):
    def create_jdd(self):
        return None
b = Bare()
seed(1)
show("A bare sample", lambda: b.sample_jds_from_jdd(3))
show("A bare hs", lambda: b.handshaking_lemma([(1,), (2,)]))
show("A bare hs empty", lambda: b.handshaking_lemma([]))

print("FINAL", rng_digest())
