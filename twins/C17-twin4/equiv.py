"""
Equivalence digest for property C17 (message passing fixed point).

Run with cwd = a checkout of gcmpy:  /venv/bin/python /tmp/wt7/C17.out/equiv.py
Prints a deterministic digest (bit exact floats through repr) of the results,
exceptions, caches, mutated inputs and the RNG state afterwards.

EQUIV_DEBUG=1 switches the logging level to DEBUG (records go to an in-memory
buffer that is NOT printed) to show that the debug lines do not alter anything.
"""
import os
import sys
import io
import random
import hashlib
import inspect
import logging
import itertools
import re

# string vertices are used below: pin the string hash seed so that set orders
# are the same in every run (re-exec once, keeping -O if it was given)
if os.environ.get("PYTHONHASHSEED") != "0":
    _env = dict(os.environ, PYTHONHASHSEED="0")
    _flags = ["-O"] * sys.flags.optimize
    os.execve(sys.executable, [sys.executable] + _flags + [os.path.abspath(__file__)] + sys.argv[1:], _env)

sys.path.insert(0, os.getcwd())

import numpy as np
import networkx as nx

from gcmpy.message_passing.message_passing import MessagePassing
from gcmpy.message_passing.message_passing_mixin import MessagePassingMixin
from gcmpy.message_passing.equations.automated_equation import AutomatedEquation

# ---------------------------------------------------------------- logging
_warn_buffer = io.StringIO()
_warn_handler = logging.StreamHandler(_warn_buffer)
_warn_handler.setLevel(logging.WARNING)
logging.getLogger().addHandler(_warn_handler)
_debug_buffer = io.StringIO()
if os.environ.get("EQUIV_DEBUG"):
    _debug_handler = logging.StreamHandler(_debug_buffer)
    _debug_handler.setLevel(logging.DEBUG)
    logging.getLogger().addHandler(_debug_handler)
    logging.getLogger().setLevel(logging.DEBUG)

random.seed(1717)
np.random.seed(1717)

_lines = []


def out(*parts):
    line = " ".join(str(p) for p in parts)
    line = re.sub(r"0x[0-9a-fA-F]+", "0x?", line)  # object addresses are not deterministic
    _lines.append(line)
    print(line)


def call(tag, fn, *args, **kwargs):
    """run fn, print result or exception, return result (None on exception)"""
    try:
        res = fn(*args, **kwargs)
    except BaseException as e:  # noqa
        out(tag, "EXC", type(e).__name__, repr(str(e)))
        return None
    out(tag, "->", type(res).__name__, repr(res))
    return res


def graph_digest(G):
    nodes = [(repr(n), sorted(d.items())) for n, d in G.nodes(data=True)]
    edges = [(repr(u), repr(v), sorted(d.items())) for u, v, d in G.edges(data=True)]
    return repr((G.name, nodes, edges, sorted(G.graph.items())))


def ae_digest(AE):
    return repr((list(AE._connected_subgraphs.items()), list(AE._edge_combinations.items())))


def mp_digest(MP):
    parts = [
        repr(list(MP._H_tau.items())),
        ae_digest(MP._AE),
        repr(MP._iterations),
        repr(getattr(MP, "_phi", "<unset>")),
        repr(MP._MPM._CoverType),
        repr(sorted(k for k in vars(MP))),
    ]
    return hashlib.sha256("|".join(parts).encode()).hexdigest(), parts


def show_mp(tag, MP, full=False):
    h, parts = mp_digest(MP)
    out(tag, "state", h)
    if full:
        for p in parts:
            out(tag, "   ", p)


# ---------------------------------------------------------------- graph builders
MOTIFS = {
    2: [(0, 1)],
    3: [(0, 1), (1, 2), (0, 2)],
    4: [(0, 1), (1, 2), (2, 3), (3, 0)],
    5: [(0, 1), (1, 2), (2, 3), (3, 0), (0, 2)],
    6: [(0, 1), (0, 2), (0, 3), (1, 2), (1, 3), (2, 3)],
    7: [(0, 1), (1, 2)],  # 2-path: non direct neighbours inside a motif
}
MOTIF_ORDER = {2: 2, 3: 3, 4: 4, 5: 4, 6: 4, 7: 3}


def add_motif(G, key, vertices, uid):
    edges = [(vertices[a], vertices[b]) for a, b in MOTIFS[key]]
    label = f"{key}-{list(vertices)}-{edges}-{uid}"
    for u, v in edges:
        G.add_edge(u, v, CoverLabel=label)
    return label


def fixed_graph():
    G = nx.Graph()
    add_motif(G, 3, (0, 1, 2), 0)
    add_motif(G, 2, (2, 3), 1)
    add_motif(G, 2, (3, 4), 2)
    add_motif(G, 4, (4, 5, 6, 7), 3)
    add_motif(G, 5, (7, 8, 9, 10), 4)
    add_motif(G, 6, (10, 11, 12, 13), 5)
    add_motif(G, 7, (13, 14, 15), 6)
    add_motif(G, 3, (0, 16, 17), 7)
    add_motif(G, 2, (0, 18), 8)
    G.add_node(19)  # isolated vertex
    return G


def random_cover_graph(n, n_motifs, keys):
    G = nx.Graph()
    G.add_nodes_from(range(n))
    uid = 0
    attempts = 0
    while uid < n_motifs and attempts < 50 * n_motifs:
        attempts += 1
        key = random.choice(keys)
        vs = tuple(int(x) for x in np.random.choice(n, size=MOTIF_ORDER[key], replace=False))
        edges = [(vs[a], vs[b]) for a, b in MOTIFS[key]]
        # keep the cover edge-disjoint and stop two vertices sharing more than one motif
        if any(G.has_edge(u, v) for u, v in itertools.combinations(vs, 2)):
            continue
        add_motif(G, key, vs, uid)
        uid += 1
    return G


def single_edge_graph():
    G = nx.Graph()
    add_motif(G, 2, (0, 1), 0)
    return G


def path_graph(n):
    G = nx.Graph()
    for i in range(n - 1):
        add_motif(G, 2, (i, i + 1), i)
    return G


def triangle_graph():
    G = nx.Graph()
    add_motif(G, 3, (5, 3, 9), 12)
    return G


# ---------------------------------------------------------------- 0. signatures
out("== signatures")
out("hash seed", os.environ.get("PYTHONHASHSEED"))
out(inspect.signature(MessagePassing.__init__))
out(inspect.signature(MessagePassing.theoretical))
out(inspect.signature(MessagePassing.calculate_H_tau))
out(inspect.signature(MessagePassing.resolve_equation))
out(inspect.signature(MessagePassingMixin.__init__))
out(inspect.signature(AutomatedEquation.automated_equation))
out(inspect.signature(AutomatedEquation._get_connected_subgraphs))
out(inspect.signature(AutomatedEquation.get_edge_combinations))
out(inspect.signature(AutomatedEquation.get_connected_subgraphs))
out(inspect.signature(AutomatedEquation.get_us))

# ---------------------------------------------------------------- 1. mixin
out("== mixin")
Gf = fixed_graph()
mix = MessagePassingMixin("motif cover", Gf)
out("cover type", repr(mix._CoverType), mix._G is Gf)
labels = [
    "3-[0, 1, 2]-[(0, 1), (1, 2), (0, 2)]-7",
    "2-[4, 5]-[(4, 5)]-0",
    "12-[]-[]-003",
    "3-[0, 1, 2]-[(0, 1)]",           # three fields only
    "7",                               # one field
    "",                                # empty
    "x-[1]-[(1, 2)]-y",                # non integers
    "3-[0, 1-[(0,1)]-4",               # malformed list
    "3-[0, -1]-[(0, -1)]-4",           # negative vertex breaks the fields
    " 3 -[0, 1]-[(0, 1)]- 9 ",         # blanks
    "3-(0, 1)-{0: 1}-5",               # other literals
    "3-__import__('os')-[(0, 1)]-5",   # not a literal
]
for lab in labels:
    for name in ("get_motif_topology", "get_motif_ID", "get_vertices_in_motif", "get_edges_in_motif"):
        call(f"mixin.{name}({lab!r})", getattr(mix, name), lab)
call("mixin.get_motif_ID(None)", mix.get_motif_ID, None)
call("mixin.get_motif_ID(b'1-2')", mix.get_motif_ID, b"1-2")
for i, j in [(0, 1), (1, 0), (2, 3), (0, 3), (0, 99), (19, 19)]:
    call(f"mixin.get_edge_cover_label({i},{j})", mix.get_edge_cover_label, i, j)
Gnolabel = nx.Graph()
Gnolabel.add_edge(0, 1)
Gnolabel.add_edge(1, 2, CoverLabel=None)
mix2 = MessagePassingMixin("x", Gnolabel)
call("mixin.nolabel(0,1)", mix2.get_edge_cover_label, 0, 1)
call("mixin.nolabel(1,2)", mix2.get_edge_cover_label, 1, 2)
out("fixed graph after mixin", hashlib.sha256(graph_digest(Gf).encode()).hexdigest())

# ---------------------------------------------------------------- 2. automated equation
out("== automated equation")


def with_us(G, name, us=None):
    if us is None:
        us = {n: 0.3 + 0.05 * k for k, n in enumerate(G.nodes())}
    nx.set_node_attributes(G, us, "u")
    G.name = name
    return G


def make_graphs():
    diamond = nx.Graph()
    diamond.add_edges_from([(0, 1), (1, 2), (2, 3), (3, 0), (0, 2)])
    bowtie = nx.Graph()
    bowtie.add_edges_from([(0, 1), (1, 2), (2, 0), (2, 3), (3, 4), (4, 2)])
    star = nx.star_graph(4)
    return [
        with_us(nx.complete_graph(2), "2-clique"),
        with_us(nx.complete_graph(3), "3-clique"),
        with_us(nx.complete_graph(4), "4-clique"),
        with_us(nx.cycle_graph(4), "4-cycle"),
        with_us(nx.cycle_graph(5), "5-cycle"),
        with_us(nx.path_graph(4), "4-path"),
        with_us(diamond, "diamond"),
        with_us(bowtie, "bowtie"),
        with_us(star, "star"),
        with_us(nx.relabel_nodes(nx.complete_graph(3), {0: "a", 1: "b", 2: "c"}), "abc"),
    ]


AE = AutomatedEquation()
out("fresh", ae_digest(AE))
for G in make_graphs():
    before = graph_digest(G)
    roots = list(G.nodes())[:2] + [list(G.nodes())[-1]]
    for root in roots:
        r1 = call(f"subgraphs({G.name},{root!r})", AE.get_connected_subgraphs, G, root)
        r2 = AE.get_connected_subgraphs(G, root)
        out("  same object on repeat", r1 is r2, r1 == r2)
        for p in (0.0, 1.0, 0.5645231765, 0.25, 1e-12, 0.999999):
            call(f"equation({G.name},{p!r},{root!r})", AE.automated_equation, G, p, root)
        call(f"get_us({G.name},{root!r})", AE.get_us, G, root)
    out("  unchanged input", before == graph_digest(G))
out("after sweep", hashlib.sha256(ae_digest(AE).encode()).hexdigest())
out(ae_digest(AE))

# repeat on the warm caches, and out of range / odd values of p
for G in make_graphs():
    root = list(G.nodes())[0]
    for p in (0.5645231765, -0.5, 1.5, 2, 0, 1, float("nan"), float("inf"), np.float64(0.3)):
        call(f"warm equation({G.name},{p!r},{root!r})", AE.automated_equation, G, p, root)
out("after warm", hashlib.sha256(ae_digest(AE).encode()).hexdigest())

# error paths on a fresh object: what is cached when it goes wrong
AE2 = AutomatedEquation()
G3 = with_us(nx.complete_graph(3), "err-3")
call("root missing", AE2.automated_equation, G3, 0.5, 17)
out("  cache", ae_digest(AE2))
call("root missing subgraphs", AE2.get_connected_subgraphs, G3, 17)
call("p is a string", AE2.automated_equation, G3, "0.5", 0)
out("  cache", ae_digest(AE2))
call("p is None", AE2.automated_equation, G3, None, 1)
out("  cache", ae_digest(AE2))
G3b = nx.complete_graph(3)
G3b.name = "no-u"
call("no u attribute", AE2.automated_equation, G3b, 0.5, 0)
out("  cache", ae_digest(AE2))
call("get_us no u", AE2.get_us, G3b, 0)
call("get_us root absent", AE2.get_us, G3, 42)
G3c = with_us(nx.complete_graph(3), "partial-u")
del G3c.nodes[2]["u"]
call("partial u root=2", AE2.automated_equation, G3c, 0.5, 2)
call("partial u root=0", AE2.automated_equation, G3c, 0.5, 0)
out("  cache", ae_digest(AE2))
Gu = with_us(nx.complete_graph(3), "u-strings", {0: "a", 1: 2, 2: 0.5})
call("u strings", AE2.automated_equation, Gu, 0.5, 1)
call("u strings get_us", AE2.get_us, Gu, 1)
Gempty = nx.Graph(name="empty")
call("empty graph", AE2.automated_equation, Gempty, 0.5, 0)
Gone = nx.Graph(name="one")
Gone.add_node(0, u=0.1)
call("single vertex", AE2.automated_equation, Gone, 0.5, 0)
call("single vertex subgraphs", AE2.get_connected_subgraphs, Gone, 0)
Gloop = nx.Graph(name="loop")
Gloop.add_edges_from([(0, 0), (0, 1)])
with_us(Gloop, "loop")
call("self loop", AE2.automated_equation, Gloop, 0.4, 0)
call("self loop root 1", AE2.automated_equation, Gloop, 0.4, 1)
Gdis = nx.Graph()
Gdis.add_edges_from([(0, 1), (2, 3), (3, 4)])
with_us(Gdis, "disconnected")
call("disconnected", AE2.automated_equation, Gdis, 0.4, 0)
call("disconnected root 3", AE2.automated_equation, Gdis, 0.4, 3)
Gdi = nx.DiGraph()
Gdi.add_edges_from([(0, 1), (1, 2), (2, 0)])
with_us(Gdi, "digraph")
call("digraph", AE2.automated_equation, Gdi, 0.4, 0)
Gmulti = nx.MultiGraph()
Gmulti.add_edges_from([(0, 1), (0, 1), (1, 2)])
with_us(Gmulti, "multigraph")
call("multigraph", AE2.automated_equation, Gmulti, 0.4, 0)
out("  cache", ae_digest(AE2))

# name collisions: the cache is keyed by name, not by graph
AE3 = AutomatedEquation()
Ga = with_us(nx.complete_graph(3), "same")
Gb = with_us(nx.path_graph(4), "same")
call("collision first", AE3.automated_equation, Ga, 0.6, 0)
call("collision second", AE3.automated_equation, Gb, 0.6, 0)
call("collision second root 1", AE3.automated_equation, Gb, 0.6, 1)
call("collision str root", AE3.automated_equation, Ga, 0.6, "0")
Gnoname = with_us(nx.cycle_graph(4), "")
call("no name", AE3.automated_equation, Gnoname, 0.6, 0)
out("  cache", ae_digest(AE3))

# the cached lists are handed out by reference: mutate and look again
AE4 = AutomatedEquation()
Gk = with_us(nx.complete_graph(3), "k3")
res = AE4.get_connected_subgraphs(Gk, 0)
res.append({0, 99})
call("after caller mutation", AE4.get_connected_subgraphs, Gk, 0)
call("after caller mutation eq", AE4.automated_equation, Gk, 0.5, 0)
out("  cache", ae_digest(AE4))

# get_edge_combinations directly
AE5 = AutomatedEquation()
for G in make_graphs():
    for c in ([0, 1], [1, 0], list(G.nodes()), [], "xyz", None):
        r1 = call(f"edge_combinations({G.name},{c!r})", AE5.get_edge_combinations, G, c)
        r2 = AE5.get_edge_combinations(G, c)
        out("  same object on repeat", r1 is r2)
call("edge_combinations(empty)", AE5.get_edge_combinations, nx.Graph(name="e"), [0])
call("edge_combinations(disconnected)", AE5.get_edge_combinations, Gdis, [0])
call("edge_combinations(digraph)", AE5.get_edge_combinations, Gdi, [0])
call("edge_combinations(multigraph)", AE5.get_edge_combinations, Gmulti, [0])
out("edge caches", hashlib.sha256(ae_digest(AE5).encode()).hexdigest())

# _get_connected_subgraphs directly, with hand made arguments
AE6 = AutomatedEquation()
Gd = make_graphs()[6]
for sub, poss, excl, size in [
    ({0}, {1, 2, 3}, {0}, 4),
    ({0}, {1, 2, 3}, {0}, 2),
    ({0}, {1, 2, 3}, set(), 4),
    ({0, 1}, {2, 3}, {0}, 4),
    ({0}, set(), {0}, 4),
    ({0}, {1}, {0}, 1),
    ({0}, {1, 2, 3}, {0}, 0),
    ({0}, {1, 77}, {0}, 4),
]:
    results = []
    args = (set(sub), set(poss), set(excl))
    try:
        ret = AE6._get_connected_subgraphs(Gd, args[0], args[1], args[2], results, size)
        out("direct", sub, poss, excl, size, "->", repr(ret), repr(results), "args after", repr(args),
            "first is arg", bool(results) and results[0] is args[0])
    except BaseException as e:
        out("direct", sub, poss, excl, size, "EXC", type(e).__name__, repr(str(e)), repr(results), repr(args))
out("AE6 cache", ae_digest(AE6))

# ---------------------------------------------------------------- 3. message passing
out("== message passing")
PHIS = [0.0, 0.1, 0.35, 0.5, 0.5645231765, 0.8, 1.0]


def run_mp(tag, G, iterations=None, phis=PHIS, full=False):
    gd = graph_digest(G)
    if iterations is None:
        MP = MessagePassing(G)
    else:
        MP = MessagePassing(G, iterations=iterations)
    show_mp(tag + " new", MP, full=True)
    answers = {}
    for phi in phis:
        answers[phi] = call(f"{tag} theoretical({phi!r})", MP.theoretical, phi)
        show_mp(tag + f" after {phi!r}", MP, full=full)
    # any order, repeated, on the same object
    order = list(phis) + list(reversed(phis))
    random.shuffle(order)
    for phi in order:
        r = call(f"{tag} again theoretical({phi!r})", MP.theoretical, phi)
        out("   same as first", repr(r) == repr(answers[phi]))
    # fresh objects
    for phi in phis:
        if iterations is None:
            F = MessagePassing(G)
        else:
            F = MessagePassing(G, iterations=iterations)
        r = call(f"{tag} fresh theoretical({phi!r})", F.theoretical, phi)
        out("   same as first", repr(r) == repr(answers[phi]))
    show_mp(tag + " end", MP, full=full)
    out(tag, "graph unchanged", gd == graph_digest(G))
    return MP


run_mp("single-edge", single_edge_graph(), iterations=3, full=True)
run_mp("triangle", triangle_graph(), iterations=4, full=True)
run_mp("path5", path_graph(5), iterations=6)
run_mp("fixed", fixed_graph(), iterations=5)
run_mp("fixed-default", fixed_graph(), phis=[0.0, 0.6, 1.0])
run_mp("fixed-0-iter", fixed_graph(), iterations=0, phis=[0.0, 0.7])
run_mp("fixed-neg-iter", fixed_graph(), iterations=-3, phis=[0.7])
for k, (n, m, keys) in enumerate([
    (30, 14, [2, 3]),
    (40, 18, [2, 3, 4, 5]),
    (40, 16, [3, 6, 7]),
    (25, 30, [2]),
    (60, 25, [2, 3, 4, 5, 6, 7]),
]):
    G = random_cover_graph(n, m, keys)
    out(f"random-{k}", G.order(), G.size(), hashlib.sha256(graph_digest(G).encode()).hexdigest())
    run_mp(f"random-{k}", G, iterations=4, phis=[0.0, 0.3, 0.62, 1.0])

# odd values of phi and constructor arguments
G = fixed_graph()
MP = MessagePassing(G, "clique cover", 2)
out("cover type", repr(MP._MPM._CoverType), MP._iterations)
for phi in (-0.2, 1.3, 1, 0, np.float64(0.4), float("nan"), "0.5", None):
    call(f"odd phi {phi!r}", MP.theoretical, phi)
    show_mp(f"odd phi {phi!r}", MP)
MPk = MessagePassing(G=G, cover_type="motif cover", iterations=1)
call("keyword construction", MPk.theoretical, 0.45)
call("iterations float", MessagePassing(G, iterations=2.0).theoretical, 0.45)
call("iterations None", MessagePassing(G, iterations=None).theoretical, 0.45)
call("no graph", MessagePassing, )
call("graph None", MessagePassing(None).theoretical, 0.45)

# error paths
call("empty graph", MessagePassing(nx.Graph()).theoretical, 0.5)
Gn = nx.Graph()
Gn.add_nodes_from([0, 1, 2])
call("no edges", MessagePassing(Gn).theoretical, 0.5)
MPn = MessagePassing(Gnolabel, iterations=2)
call("missing label", MPn.theoretical, 0.5)
show_mp("missing label", MPn, full=True)
Gbad = nx.Graph()
Gbad.add_edge(0, 1, CoverLabel="2-[0, 1]-[(0, 1)]-0")
Gbad.add_edge(1, 2, CoverLabel="2-[1, 2]-[(1, 2)]-x")
MPb = MessagePassing(Gbad, iterations=2)
call("bad uid", MPb.theoretical, 0.5)
show_mp("bad uid", MPb, full=True)
Gbad2 = nx.Graph()
Gbad2.add_edge(0, 1, CoverLabel="2-[0, 1]-[(0, 1)]-0")
Gbad2.add_edge(1, 2, CoverLabel="2-[1, 5]-[(1, 5)]-1")     # label does not describe the edge
MPb2 = MessagePassing(Gbad2, iterations=2)
call("wrong vertices", MPb2.theoretical, 0.5)
show_mp("wrong vertices", MPb2, full=True)
Gbad3 = nx.Graph()
Gbad3.add_edge(0, 1, CoverLabel="2-[0, 1]-[(0, 1)]-0")
Gbad3.add_edge(1, 2, CoverLabel="2-[1, 2]-[(1, 2)]-0")     # two motifs share a uid
Gbad3.add_edge(2, 3, CoverLabel="2-[2, 3]-[(2, 3)]-1")
MPb3 = MessagePassing(Gbad3, iterations=3)
call("shared uid", MPb3.theoretical, 0.5)
show_mp("shared uid", MPb3, full=True)
Gloop2 = nx.Graph()
Gloop2.add_edge(0, 0, CoverLabel="1-[0]-[(0, 0)]-0")
Gloop2.add_edge(0, 1, CoverLabel="2-[0, 1]-[(0, 1)]-1")
MPl = MessagePassing(Gloop2, iterations=3)
call("self loop cover", MPl.theoretical, 0.5)
show_mp("self loop cover", MPl, full=True)

# calculate_H_tau / resolve_equation used directly
G = fixed_graph()
MPd = MessagePassing(G, iterations=2)
lab_tri = G.edges[0, 1]["CoverLabel"]
lab_edge = G.edges[2, 3]["CoverLabel"]
call("H_tau before theoretical", MPd.calculate_H_tau, 0, lab_tri)
show_mp("H_tau before theoretical", MPd, full=True)
call("resolve before theoretical", MPd.resolve_equation, 0, lab_tri, {1: 0.5, 2: 0.5})
show_mp("resolve before theoretical", MPd, full=True)
call("theoretical", MPd.theoretical, 0.55)
for focal, lab in [(0, lab_tri), (1, lab_tri), (2, lab_tri), (2, lab_edge), (3, lab_edge), (9, lab_tri), (0, "bad")]:
    call(f"H_tau({focal},{lab!r})", MPd.calculate_H_tau, focal, lab)
    show_mp(f"H_tau({focal})", MPd)
for focal, lab, prods in [
    (0, lab_tri, {1: 0.25, 2: 0.75}),
    (0, lab_tri, {1: 0.25}),
    (0, lab_tri, {}),
    (1, lab_tri, {0: 1, 2: 0}),
    (2, lab_edge, {3: 0.1, 77: 0.9}),
    (5, lab_edge, {3: 0.1, 2: 0.9}),
]:
    pcopy = dict(prods)
    call(f"resolve({focal},{prods!r})", MPd.resolve_equation, focal, lab, prods)
    out("   prods unchanged", pcopy == prods)
show_mp("direct end", MPd, full=True)
call("theoretical after direct use", MPd.theoretical, 0.55)
show_mp("direct end 2", MPd)

# two objects on one graph, interleaved
G = random_cover_graph(30, 12, [2, 3, 5])
A = MessagePassing(G, iterations=3)
B = MessagePassing(G, iterations=3)
for phi in (0.2, 0.9, 0.2):
    call(f"A({phi})", A.theoretical, phi)
    call(f"B({1 - phi})", B.theoretical, 1 - phi)
show_mp("A", A)
show_mp("B", B)

# monotone / range summary on one object
G = random_cover_graph(50, 22, [2, 3, 4])
M = MessagePassing(G, iterations=8)
vals = [M.theoretical(x / 10) for x in range(11)]
out("curve", [repr(v) for v in vals])
out("in range", all(0 <= v <= 1 for v in vals), "zero at 0", vals[0] == 0,
    "monotone", all(b >= a for a, b in zip(vals, vals[1:])))

# ---------------------------------------------------------------- 4. afterwards
out("== afterwards")
out("random state", hashlib.sha256(repr(random.getstate()).encode()).hexdigest())
st = np.random.get_state()
out("numpy state", hashlib.sha256(repr((st[0], st[1].tolist(), st[2], st[3], st[4])).encode()).hexdigest())
out("next draws", repr(random.random()), repr(float(np.random.random())))
out("warnings emitted", repr(_warn_buffer.getvalue()))
out("total digest", hashlib.sha256("\n".join(_lines).encode()).hexdigest())
if os.environ.get("EQUIV_DEBUG"):
    sys.stderr.write(f"debug records captured: {len(_debug_buffer.getvalue().splitlines())}\n")
