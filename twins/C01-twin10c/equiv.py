import sys, os; sys.path.insert(0, os.getcwd())
import hashlib
import random
import numpy as np

from gcmpy.gcm_algorithm.gcm_algorithm_custom_motifs import GCMAlgorithmCustomMotifs
from gcmpy.gcm_algorithm.gcm_algorithm_factory import GCMAlgorithmFactory
from gcmpy.gcm_algorithm.gcm_algorithm_main import GCMAlgorithmMain
from gcmpy.gcm_algorithm.gcm_algorithm_types import GCMAlgorithmTypes
from gcmpy.names.gcm_algorithm_names import GCMAlgorithmNames as N
from gcmpy.motif_generators import clique_motif, cycle_motif, diamond_motif


def h(x):
    return hashlib.sha256(repr(x).encode()).hexdigest()[:16]


def rng_digest():
    return h(random.getstate()) + "/" + h(np.random.get_state()[1].tolist())


def run(label, fn):
    try:
        out = fn()
        print(label, "OK", h(out), rng_digest())
    except BaseException as e:  # noqa
        print(label, "EXC", type(e).__name__, rng_digest())


SEEN = []


def spy(build):
    """records exactly what the build callback receives"""
    def f(vs):
        SEEN.append((type(vs).__name__, list(vs), [type(v).__name__ for v in vs]))
        return build(vs)
    return f


def twoclique(vs):
    return (vs[0], vs[1])


def diamond(vs):
    return ((vs[0], vs[1]), (vs[1], vs[2]), (vs[2], vs[3]), (vs[3], vs[1]), (vs[0], vs[2]))


def pentagon(vs):
    return ((vs[0], vs[1]), (vs[1], vs[2]), (vs[2], vs[3]), (vs[3], vs[4]), (vs[0], vs[4]), (vs[1], vs[3]))


def mutating(vs):
    # a callback that consumes the list it was handed
    out = []
    while len(vs) > 1:
        a = vs.pop()
        out.append((a, vs[-1]))
    return out


PAPER = {
    N.MOTIF_SIZES: [2, 3, 2, 2, 2, 2, 1],
    N.MOTIF_INDICES: [[0], [1], [2, 3], [4, 5, 6]],
    N.BUILD_FUNCTIONS: [spy(twoclique), spy(clique_motif), spy(diamond), spy(pentagon)],
    N.EDGE_NAMES: [lambda: "2-clique", lambda: ("3-clique",) * 3,
                   lambda: ("do", "do", "do", "do", "di"), lambda: ("p01", "p12", "p23", "p34", "p40", "p13")],
}
PAPER_JDS = [
    (2, 1, 0, 1, 1, 0, 0), (1, 1, 0, 1, 1, 0, 0), (3, 1, 1, 0, 0, 1, 0), (2, 0, 1, 0, 0, 1, 0),
    (0, 0, 0, 1, 0, 0, 1), (1, 0, 0, 1, 0, 0, 0), (1, 0, 1, 0, 0, 0, 0), (1, 0, 1, 0, 0, 0, 0),
    (1, 0, 0, 1, 0, 0, 0), (1, 0, 0, 1, 0, 0, 0), (1, 0, 1, 0, 0, 0, 0), (0, 0, 1, 0, 0, 0, 0),
]

SIMPLE = {
    N.MOTIF_SIZES: [2, 3, 4, 1, 3],
    N.MOTIF_INDICES: [[0], [1], [2], [3, 4]],
    N.BUILD_FUNCTIONS: [spy(clique_motif), spy(cycle_motif), spy(diamond_motif), spy(mutating)],
    N.EDGE_NAMES: [lambda: ["e"], lambda: ["t"] * 3, lambda: ["d"] * 6, lambda: ["s"] * 3],
}


def show(el, jds):
    return (el.edge_list, el.topologies, el.motif_id, el.joint_degrees is jds)


def go(alg, jds):
    del SEEN[:]
    el = alg.random_clustered_graph(jds)
    return show(el, jds), list(SEEN)


rnd = random.Random(5)
random.seed(3)
np.random.seed(3)


def simple_jds(n, maxdeg=4):
    jds = [[rnd.randrange(0, maxdeg) for _ in range(5)] for _ in range(n)]
    for k, s in enumerate([2, 3, 4]):
        tot = sum(r[k] for r in jds)
        jds[rnd.randrange(n)][k] += (-tot) % s
    m = rnd.randrange(0, n + 1)  # number of star motifs: m centres, 3m leaves
    for r in jds:
        r[3] = r[4] = 0
    for _ in range(m):
        jds[rnd.randrange(n)][3] += 1
        for _ in range(3):
            jds[rnd.randrange(n)][4] += 1
    return [tuple(r) for r in jds]


# 1. the paper example, through all three construction routes, repeated on one object
direct = GCMAlgorithmCustomMotifs(PAPER)
viafac = GCMAlgorithmFactory.resolve_algorithm(GCMAlgorithmTypes.MOTIFS, PAPER)
viamain = GCMAlgorithmMain.load_gcm_algorithm({**PAPER, N.GCM_TYPE: "motifs"})
for rep in range(12):
    for name, alg in (("direct", direct), ("factory", viafac), ("main", viamain)):
        run(f"paper {name} {rep}", lambda: go(alg, PAPER_JDS))

# 2. many random valid inputs
simple = GCMAlgorithmCustomMotifs(SIMPLE)
for n in (1, 2, 3, 8, 25, 90):
    for rep in range(6):
        jds = simple_jds(n)
        run(f"simple {n} {rep}", lambda: go(simple, jds))

# 3. element and container kinds
base = simple_jds(10)
kinds = {
    "lists": [list(r) for r in base],
    "nparray": np.array(base),
    "npint": [tuple(np.int16(x) for x in r) for r in base],
    "empty": [],
    "empty_rows": [(), ()],
    "all_zero": [(0,) * 5] * 4,
    "short_rows": [r[:2] for r in base],
    "floats": [(1.0, 0, 0, 0, 0)],
    "none": [(None, 0, 0, 0, 0)],
    "negative": [(-2, 3, 4, 0, 0), (2, 0, 0, 0, 0)],
    "not_iterable": 3,
    "huge": [(0, 10 ** 40, 0, 0, 0)],
    # handshake violations: leftovers, short partitions, unequal orbit counts
    "odd_edges": [(1, 0, 0, 0, 0), (1, 0, 0, 0, 0), (1, 0, 0, 0, 0)],
    "tri_leftover": [(0, 2, 0, 0, 0), (0, 2, 0, 0, 0)],
    "dia_leftover": [(0, 0, 3, 0, 0), (0, 0, 3, 0, 0)],
    "star_no_leaves": [(0, 0, 0, 1, 0), (0, 0, 0, 1, 0)],
    "star_few_leaves": [(0, 0, 0, 1, 2), (0, 0, 0, 1, 2)],
    "star_many_leaves": [(0, 0, 0, 1, 5), (0, 0, 0, 0, 4)],
}
for key, jds in kinds.items():
    for rep in range(2):
        run(f"kind {key} {rep}", lambda: go(simple, jds))

# 4. misconfigurations
def cfg(**kw):
    p = dict(SIMPLE)
    for k, v in kw.items():
        p[getattr(N, k)] = v
    return p


bads = {
    "indices_out_of_range": cfg(MOTIF_INDICES=[[0], [1], [2], [3, 9]]),
    "indices_empty_motif": cfg(MOTIF_INDICES=[[0], [], [2], [3, 4]]),
    "indices_repeated": cfg(MOTIF_INDICES=[[0, 0], [1], [2], [3, 4]]),
    "indices_negative": cfg(MOTIF_INDICES=[[0], [1], [2], [3, -1]]),
    "sizes_short": cfg(MOTIF_SIZES=[2, 3]),
    "size_zero": cfg(MOTIF_SIZES=[2, 3, 4, 0, 3]),
    "size_negative": cfg(MOTIF_SIZES=[2, 3, 4, -1, 3]),
    "size_float": cfg(MOTIF_SIZES=[2.0, 3, 4, 1, 3]),
    "builds_short": cfg(BUILD_FUNCTIONS=[clique_motif]),
    "names_short": cfg(EDGE_NAMES=[lambda: ["e"]]),
    "names_not_callable": cfg(EDGE_NAMES=["e", "t", "d", "s"]),
    "build_returns_none": cfg(BUILD_FUNCTIONS=[lambda vs: None] * 4),
    "build_returns_empty": cfg(BUILD_FUNCTIONS=[lambda vs: []] * 4),
    "build_returns_vertices": cfg(BUILD_FUNCTIONS=[lambda vs: vs] * 4),
    "build_returns_generator": cfg(BUILD_FUNCTIONS=[lambda vs: (x for x in vs)] * 4),
    "build_raises": cfg(BUILD_FUNCTIONS=[spy(clique_motif), lambda vs: 1 // 0, clique_motif, clique_motif]),
}
for key, p in bads.items():
    for rep in range(2):
        def attempt():
            return go(GCMAlgorithmCustomMotifs(p), base)
        run(f"bad {key} {rep}", attempt)
run("missing indices", lambda: GCMAlgorithmCustomMotifs({k: v for k, v in SIMPLE.items() if k != N.MOTIF_INDICES}))

# 5. subclass whose partitions are not lists of lists
class TuplePartitions(GCMAlgorithmCustomMotifs):
    def partition(self, lst, n):
        return [tuple(x) for x in super().partition(lst, n)]


class IterPartitions(GCMAlgorithmCustomMotifs):
    def partition(self, lst, n):
        return [iter(x) for x in super().partition(lst, n)]


class StrPartitions(GCMAlgorithmCustomMotifs):
    def partition(self, lst, n):
        return [str(x[0]) * len(x) for x in super().partition(lst, n)]


class IntPartitions(GCMAlgorithmCustomMotifs):
    def partition(self, lst, n):
        return [x[0] for x in super().partition(lst, n)]


class RaisingChunk:
    def __init__(self, x):
        self.x = x

    def __iter__(self):
        yield self.x[0]
        raise LookupError("chunk")


class RaisingPartitions(GCMAlgorithmCustomMotifs):
    def partition(self, lst, n):
        return [RaisingChunk(x) for x in super().partition(lst, n)]


for cls in (TuplePartitions, IterPartitions, StrPartitions, IntPartitions, RaisingPartitions):
    for rep in range(2):
        jds = simple_jds(9)
        run(f"subclass {cls.__name__} {rep}", lambda: go(cls(SIMPLE), jds))

# 6. partition itself
for lst, n in (([], 1), ([1, 2, 3, 4, 5], 2), ([1, 2, 3], 5), ((1, 2, 3, 4), 2), ("abcdef", 4), ([1, 2], 0),
               ([1, 2], -1), ([1, 2], 1.0), (None, 2), (range(7), 3)):
    run(f"partition {lst!r} {n!r}", lambda: simple.partition(lst, n))

# 7. long repeated use: the random stream must stay in step
big = simple_jds(500, maxdeg=6)
acc = []
for i in range(20):
    acc.append(h(go(simple, big)))
print("long", h(acc), rng_digest())
print("final", rng_digest())
