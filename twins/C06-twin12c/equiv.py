import sys, os; sys.path.insert(0, os.getcwd())
# Differential harness for the C06 loaders (manual / empirical / marginal / function,
# the base-class helpers, the factory and the type-dispatching entry point).
# Prints a deterministic digest: every distribution bit for bit (float.hex), the type of
# every exception, identity of returned / stored objects, callback call logs and the
# state of both random streams after every scenario.
import hashlib
import math
import random
from collections import OrderedDict

import numpy as np

from gcmpy.joint_degree.joint_degree import JointDegree
from gcmpy.joint_degree.joint_degree_type import JointDegreeType as T
from gcmpy.joint_degree.joint_degree_factory import JointDegreeFactory
from gcmpy.joint_degree.joint_degree_distribution import JointDegreeDistribution
from gcmpy.joint_degree.joint_degree_loaders import (
    JointDegreeManual,
    JointDegreeEmpirical,
    JointDegreeMarginal,
    JointDegreeFunction,
    JointDegreeSplitDegree,
    JointDegreeDelta,
    JointDegreeCover,
)
from gcmpy.names.joint_degree_names import JointDegreeNames as N

LINES = []


def out(*a):
    s = " ".join(str(x) for x in a)
    LINES.append(s)
    print(s)


def fmt(v):
    if isinstance(v, bool):
        return "b:%r" % v
    if isinstance(v, float):
        return "f:" + v.hex()
    if isinstance(v, (int,)):
        return "i:%d" % v
    if isinstance(v, np.generic):
        return "np(%s):%r" % (type(v).__name__, v.item() if not isinstance(v.item(), float) else v.item().hex())
    if isinstance(v, tuple):
        return "(" + ",".join(fmt(x) for x in v) + ")"
    if isinstance(v, list):
        return "[" + ",".join(fmt(x) for x in v) + "]"
    if isinstance(v, dict):
        return type(v).__name__ + "{" + ",".join(fmt(k) + ":" + fmt(x) for k, x in v.items()) + "}"
    return type(v).__name__ + ":" + repr(v)


def rng():
    h = hashlib.sha256()
    h.update(repr(random.getstate()).encode())
    st = np.random.get_state()
    h.update(repr((st[0], st[1].tolist(), st[2], st[3], st[4])).encode())
    return h.hexdigest()[:16]


def seed(s):
    random.seed(s)
    np.random.seed(s)


def attempt(label, fn):
    try:
        r = fn()
        out(label, "->", r, "| rng", rng())
    except BaseException as e:  # noqa
        ctx = type(e.__context__).__name__ if e.__context__ is not None else "-"
        out(label, "!!", type(e).__name__, "ctx", ctx, "| rng", rng())


def show(obj):
    return "type=%s jdd=%s ms=%s" % (type(obj).__name__, fmt(obj.jdd), fmt(obj.motif_sizes))


# ---------------------------------------------------------------- callbacks
CALLS = []


def mk(name, f):
    def g(k):
        CALLS.append((name, k))
        return f(k)
    return g


def pois(z):
    return lambda k: math.exp(-z) * z ** k / math.factorial(k)


def flush_calls():
    h = hashlib.sha256(repr(CALLS).encode()).hexdigest()[:12]
    n = len(CALLS)
    del CALLS[:]
    return "calls=%d/%s" % (n, h)


class Weird:
    """len() == 0 but iterates over two items."""
    def __len__(self):
        return 0

    def __iter__(self):
        return iter([(1, 1), (1, 1)])


class EqAll:
    def __eq__(self, other):
        return True

    def __hash__(self):
        return 1


class EqLog:
    def __init__(self):
        self.log = []

    def __eq__(self, other):
        self.log.append(other)
        return False

    def __hash__(self):
        return 2


# ---------------------------------------------------------------- 1. base helpers
out("== base helpers")
seed(1)
m = JointDegreeManual({N.JDD: {(1, 0): 0.5, (0, 1): 0.5}, N.MOTIF_SIZES: [2, 3]})
jds_inputs = OrderedDict()
jds_inputs["empty"] = []
jds_inputs["single"] = [(1, 2)]
jds_inputs["dups"] = [(1, 2), (1, 2), (0, 0), (3, 1), (0, 0), (1, 2)]
jds_inputs["tuple-of-tuples"] = ((1,), (1,), (2,))
jds_inputs["string"] = "aabca"
jds_inputs["mapping-zero"] = {(1, 2): 0, (2, 2): 3}
jds_inputs["mapping-neg"] = {(1, 2): -2, (2, 2): 3}
jds_inputs["mapping-float"] = {(1, 2): 0.5, (2, 2): 3}
jds_inputs["unhashable"] = [[1, 2], [1, 2]]
jds_inputs["generator"] = None
jds_inputs["none"] = None
jds_inputs["int"] = 5
jds_inputs["weird-len0"] = Weird()
jds_inputs["np-1d"] = np.array([1, 1, 2, 3, 3, 3])
jds_inputs["np-2d"] = np.array([[1, 2], [1, 2]])
jds_inputs["mixed-eq"] = [1, 1.0, True, (1,), (1.0,)]
jds_inputs["big"] = [(random.randrange(3), random.randrange(2)) for _ in range(500)]
for name, jds in jds_inputs.items():
    if name == "generator":
        jds = (x for x in [(1, 2)])
    before = m.jdd

    def run(jds=jds):
        r = m.convert_jds_to_jdd(jds)
        return "ret=%r %s fresh=%r" % (r, fmt(m.jdd), m.jdd is not before)
    attempt("convert[%s]" % name, run)
    out("   state-after:", fmt(m.jdd) if isinstance(m.jdd, dict) else repr(m.jdd))
    m.jdd = {(1, 0): 0.5, (0, 1): 0.5}

# repeated calls on one object
for rep in range(3):
    attempt("convert-repeat%d" % rep, lambda: (m.convert_jds_to_jdd([(1, 1), (2, 2), (1, 1)]), fmt(m.jdd))[1])

out("== normalise")
for name, d in [
    ("empty", {}),
    ("unit", {(1,): 0.25, (2,): 0.75}),
    ("ints-sum1", {(1,): 1, (2,): 0}),
    ("ints", {(1,): 1, (2,): 3}),
    ("zeros", {(1,): 0.0, (2,): 0.0}),
    ("zeros-int", {(1,): 0}),
    ("nan", {(1,): float("nan"), (2,): 1.0}),
    ("inf", {(1,): float("inf"), (2,): 1.0}),
    ("neg", {(1,): -1.0, (2,): 3.0}),
    ("str", {(1,): "a"}),
    ("none", None),
]:
    m.jdd = d

    def run():
        r = m.normalise_jdd()
        return "ret=%r %s same=%r" % (r, fmt(m.jdd), m.jdd is d)
    attempt("normalise[%s]" % name, run)

out("== sample / handshake")
m.jdd = {(1, 0): 0.5, (0, 1): 0.25, (2, 2): 0.25}
for n in [0, 1, 2, 7, 50, -1]:
    seed(100 + n)
    attempt("sample[%d]" % n, lambda: fmt(m.sample_jds_from_jdd(n)))
m.jdd = {}
attempt("sample-emptyjdd", lambda: fmt(m.sample_jds_from_jdd(3)))
attempt("sample-emptyjdd-0", lambda: fmt(m.sample_jds_from_jdd(0)))
attempt("handshake-empty", lambda: fmt(m.handshaking_lemma([])))

# ---------------------------------------------------------------- 2. manual / empirical
out("== manual")
d0 = {(1, 0): 0.5, (0, 1): 0.5}
for name, p in [
    ("ok", {N.JDD: d0, N.MOTIF_SIZES: [2, 3]}),
    ("empty-jdd", {N.JDD: {}, N.MOTIF_SIZES: []}),
    ("none-jdd", {N.JDD: None, N.MOTIF_SIZES: None}),
    ("missing-jdd", {N.MOTIF_SIZES: [2]}),
    ("missing-ms", {N.JDD: d0}),
    ("string-keys", {"jdd": d0, "motif_sizes": [2]}),
    ("empty", {}),
    ("unnormalised", {N.JDD: {(1,): 3, (2,): -1}, N.MOTIF_SIZES: [2]}),
]:
    def run(p=p):
        o = JointDegreeManual(p)
        return show(o) + " same=%r" % (o.jdd is p.get(N.JDD))
    attempt("manual[%s]" % name, run)
attempt("manual[None]", lambda: JointDegreeManual(None))
attempt("abstract", lambda: JointDegree())

out("== empirical")
for name, p in [
    ("ok", {N.JDS: [(1, 2), (1, 2), (0, 1), (3, 3)], N.MOTIF_SIZES: [2, 3]}),
    ("empty-jds", {N.JDS: [], N.MOTIF_SIZES: [2, 3]}),
    ("single", {N.JDS: [(5,)], N.MOTIF_SIZES: [2]}),
    ("all-same", {N.JDS: [(0, 0)] * 9, N.MOTIF_SIZES: [2, 3]}),
    ("thirds", {N.JDS: [(1,), (2,), (3,)], N.MOTIF_SIZES: [2]}),
    ("lists", {N.JDS: [[1, 2]], N.MOTIF_SIZES: [2, 3]}),
    ("none-jds", {N.JDS: None, N.MOTIF_SIZES: [2, 3]}),
    ("missing-jds", {N.MOTIF_SIZES: [2, 3]}),
    ("missing-ms", {N.JDS: [(1,)]}),
    ("mapping", {N.JDS: {(1,): 0, (2,): 2}, N.MOTIF_SIZES: [2]}),
    ("weird", {N.JDS: Weird(), N.MOTIF_SIZES: [2]}),
]:
    def run(p=p):
        o = JointDegreeEmpirical(p)
        s = show(o)
        o.create_jdd()
        o.create_jdd()
        return s + " again=" + fmt(o.jdd) + " jds-same=%r" % (o.empirical_jds is p.get(N.JDS))
    attempt("empirical[%s]" % name, run)

# ---------------------------------------------------------------- 3. marginal
out("== marginal direct")
marg = OrderedDict()
marg["ok-2d"] = ([mk("f0", pois(1.5)), mk("f1", pois(0.7))], [(0, 5), (0, 4)])
marg["ok-1d"] = ([mk("f0", pois(2.0))], [(1, 6)])
marg["ok-3d"] = ([mk("f0", pois(1.0)), mk("f1", pois(0.5)), mk("f2", pois(0.2))], [(0, 3), (0, 3), (1, 3)])
marg["no-dims"] = ([], [])
marg["empty-axis-first"] = ([mk("f0", pois(1.0)), mk("f1", pois(1.0))], [(3, 3), (0, 4)])
marg["empty-axis-last"] = ([mk("f0", pois(1.0)), mk("f1", pois(1.0))], [(0, 4), (2, 2)])
marg["reversed-axis"] = ([mk("f0", pois(1.0)), mk("f1", pois(1.0))], [(0, 4), (5, 2)])
marg["all-empty"] = ([mk("f0", pois(1.0))], [(0, 0)])
marg["single-point"] = ([mk("f0", pois(1.0)), mk("f1", pois(1.0))], [(2, 3), (1, 2)])
marg["zero-weights"] = ([mk("f0", lambda k: 0.0)], [(0, 3)])
marg["int-weights"] = ([mk("f0", lambda k: 1), mk("f1", lambda k: 2)], [(0, 2), (0, 2)])
marg["int-sum1"] = ([mk("f0", lambda k: 1 if k == 0 else 0)], [(0, 3)])
marg["neg-weights"] = ([mk("f0", lambda k: -1.0 if k else 2.0)], [(0, 3)])
marg["nan-weights"] = ([mk("f0", lambda k: float("nan"))], [(0, 2)])
marg["raising-fp"] = ([mk("f0", lambda k: 1 / (k - 1))], [(0, 3)])
marg["raising-fp-empty"] = ([mk("f0", lambda k: 1 / 0)], [(2, 2)])
marg["too-few-fp"] = ([mk("f0", pois(1.0))], [(0, 2), (0, 2)])
marg["too-few-fp-empty"] = ([mk("f0", pois(1.0))], [(0, 2), (2, 2)])
marg["too-many-fp"] = ([mk("f0", pois(1.0)), mk("f1", pois(1.0))], [(0, 2)])
marg["not-callable"] = ([3], [(0, 2)])
marg["not-callable-empty"] = ([3], [(1, 1)])
marg["float-bounds"] = ([mk("f0", pois(1.0))], [(0.0, 2.0)])
marg["bad-bound-shape"] = ([mk("f0", pois(1.0))], [(0, 2, 3)])
marg["bounds-none"] = ([mk("f0", pois(1.0))], None)
marg["negative-k"] = ([mk("f0", lambda k: 1.0)], [(-2, 1)])
marg["string-value"] = ([mk("f0", lambda k: "a")], [(0, 2)])
for name, (fps, bounds) in marg.items():
    for via in ("ctor", "factory", "entry"):
        p = {N.MOTIF_SIZES: [2, 3, 4][: len(fps)], N.ARR_FP: fps, N.LOW_HIGH_DEGREE_BOUND: bounds}
        seed(7)

        def run(p=p, via=via):
            if via == "ctor":
                o = JointDegreeMarginal(p)
            elif via == "factory":
                o = JointDegreeFactory.resolve_joint_degree(T.MARGINAL, p)
            else:
                p[N.JOINT_DEGREE_TYPE] = "marginal"
                o = JointDegreeDistribution.load_joint_degree(p)
            s = show(o)
            d1 = o.jdd
            r = o.create_jdd_directly()
            s += " re=%r %s fresh=%r" % (r, fmt(o.jdd), o.jdd is not d1)
            r = o.create_jdd()
            s += " re2=%r %s" % (r, fmt(o.jdd))
            s += " all=" + fmt(o.generate_all_joint_degrees())
            return s
        attempt("marginal-direct[%s/%s]" % (name, via), run)
        out("   ", flush_calls())

out("== marginal direct: state left behind by a failing re-creation")
o = JointDegreeMarginal({N.MOTIF_SIZES: [2], N.ARR_FP: [mk("f0", pois(1.0))], N.LOW_HIGH_DEGREE_BOUND: [(0, 3)]})
flush_calls()
for name, (fps, bounds) in marg.items():
    o._arr_fp, o._low_high_degree_bounds = fps, bounds
    attempt("restate[%s]" % name, lambda: o.create_jdd_directly())
    out("    left:", fmt(o.jdd) if isinstance(o.jdd, dict) else repr(o.jdd), flush_calls())
for jd in [(), (1,), (1, 2), [0], "12", None, 3]:
    o._arr_fp = [mk("f0", pois(1.0))]
    attempt("evalprob[%r]" % (jd,), lambda: fmt(o.evaluate_prob_of_joint_degree(jd)))
flush_calls()

out("== marginal sampling")
for name, (fps, bounds) in marg.items():
    for ns in (0, 1, 25):
        for via in ("ctor", "entry"):
            p = {N.MOTIF_SIZES: [2, 3, 4][: len(fps)], N.ARR_FP: fps, N.LOW_HIGH_DEGREE_BOUND: bounds,
                 N.USE_SAMPLING: True, N.N_SAMPLES: ns}
            seed(11)

            def run(p=p, via=via):
                if via == "ctor":
                    o = JointDegreeMarginal(p)
                else:
                    p[N.JOINT_DEGREE_TYPE] = T.MARGINAL
                    o = JointDegreeDistribution.load_joint_degree(p)
                s = show(o)
                o.create_jdd()
                return s + " again=" + fmt(o.jdd)
            attempt("marginal-sampling[%s/%d/%s]" % (name, ns, via), run)
            out("   ", flush_calls())
for us in (0, 1, "", "no", None, [], [0]):
    p = {N.MOTIF_SIZES: [2], N.ARR_FP: [mk("f0", pois(1.0))], N.LOW_HIGH_DEGREE_BOUND: [(0, 3)],
         N.USE_SAMPLING: us, N.N_SAMPLES: 5}
    seed(12)
    attempt("marginal-flag[%r]" % (us,), lambda: show(JointDegreeMarginal(p)))
    out("   ", flush_calls())
attempt("marginal-missing", lambda: JointDegreeMarginal({N.MOTIF_SIZES: [2]}))

# ---------------------------------------------------------------- 4. function loader
out("== function")
JCALLS = []


def jf(f):
    def g(jd):
        JCALLS.append(jd)
        return f(jd)
    return g


fun = OrderedDict()
fun["ok-2d"] = (jf(lambda jd: 1.0 / (1 + sum(jd))), [(0, 2), (1, 3)])
fun["ok-1d"] = (jf(lambda jd: 0.25), [(0, 3)])
fun["no-dims"] = (jf(lambda jd: 1.0), [])
fun["empty-axis-first"] = (jf(lambda jd: 1.0), [(3, 2), (0, 2)])
fun["empty-axis-last"] = (jf(lambda jd: 1.0), [(0, 2), (3, 2)])
fun["empty-axis-raising"] = (jf(lambda jd: 1 / 0), [(0, 2), (3, 2)])
fun["empty-not-callable"] = (None, [(1, 0)])
fun["not-callable"] = (None, [(1, 1)])
fun["raising"] = (jf(lambda jd: 1 / (jd[0] - 1)), [(0, 2)])
fun["neg"] = (jf(lambda jd: -1.0), [(0, 1)])
fun["float-bounds"] = (jf(lambda jd: 1.0), [(0.0, 1)])
fun["bad-shape"] = (jf(lambda jd: 1.0), [(0, 1, 2)])
fun["bounds-none"] = (jf(lambda jd: 1.0), None)
fun["bounds-flat"] = (jf(lambda jd: 1.0), (0, 5))
for name, (fp, bounds) in fun.items():
    for via in ("ctor", "factory", "entry"):
        p = {N.MOTIF_SIZES: [2, 3], N.FP: fp, N.LOW_HIGH_DEGREE_BOUND: bounds}
        seed(13)

        def run(p=p, via=via):
            if via == "ctor":
                o = JointDegreeFunction(p)
            elif via == "factory":
                o = JointDegreeFactory.resolve_joint_degree(T.JOINT_FUNCTION, p)
            else:
                p[N.JOINT_DEGREE_TYPE] = "function"
                o = JointDegreeDistribution.load_joint_degree(p)
            s = show(o)
            d1 = o.jdd
            r = o.create_jdd()
            return s + " re=%r %s fresh=%r" % (r, fmt(o.jdd), o.jdd is not d1)
        attempt("function[%s/%s]" % (name, via), run)
        out("    jcalls=%d/%s" % (len(JCALLS), hashlib.sha256(repr(JCALLS).encode()).hexdigest()[:12]))
        del JCALLS[:]
attempt("function-missing", lambda: JointDegreeFunction({N.MOTIF_SIZES: [2]}))

# ---------------------------------------------------------------- 5. factory / entry point
out("== factory + entry point")
good = {
    T.MANUAL: lambda: {N.JDD: {(1, 0): 0.5, (0, 1): 0.5}, N.MOTIF_SIZES: [2, 3]},
    T.EMPIRICAL: lambda: {N.JDS: [(1, 2), (1, 2), (0, 1)], N.MOTIF_SIZES: [2, 3]},
    T.JOINT_FUNCTION: lambda: {N.FP: lambda jd: 1.0 + jd[0], N.LOW_HIGH_DEGREE_BOUND: [(0, 2), (0, 1)], N.MOTIF_SIZES: [2, 3]},
    T.MARGINAL: lambda: {N.ARR_FP: [pois(1.0), pois(2.0)], N.LOW_HIGH_DEGREE_BOUND: [(0, 3), (0, 3)], N.MOTIF_SIZES: [2, 3]},
    T.SPLIT_DEGREE: lambda: {N.FP: pois(2.0), N.PROBS: [0.6, 0.4], N.MOTIF_SIZES: [2, 3], N.LOW_HIGH_DEGREE_BOUND: (0, 5)},
    T.DELTA: lambda: {N.FP: pois(2.0), N.PROBS: [0.6, 0.4], N.MOTIF_SIZES: [2, 3], N.LOW_HIGH_DEGREE_BOUND: (0, 5), N.TARGET_K: 3},
    T.COVER: lambda: {N.COVER: [[0, 1], [1, 2, 3], [0, 3]]},
}
eqlog = EqLog()
selectors = list(T) + [t.value for t in T] + [t.name for t in T] + [
    None, 0, 1, "", "Manual", "MANUAL ", b"manual", ("manual",), ["manual"], 3.5, EqAll(), eqlog, T, N.JDD,
]
for sel in selectors:
    for tname, mkp in good.items():
        if not isinstance(sel, T) and tname not in (T.MANUAL, T.MARGINAL):
            continue
        lab = "%s:%r|%s" % (type(sel).__name__, sel if not isinstance(sel, (EqAll, EqLog)) else "obj", tname.name)
        seed(21)
        attempt("factory[%s]" % lab, lambda: show(JointDegreeFactory.resolve_joint_degree(sel, mkp())))

        def entry():
            p = mkp()
            p[N.JOINT_DEGREE_TYPE] = sel
            o = JointDegreeDistribution.load_joint_degree(p)
            return show(o) + " isinst=%r" % isinstance(o, JointDegree)
        seed(21)
        attempt("entry[%s]" % lab, entry)
out("eqlog:", [x.name if isinstance(x, T) else repr(x) for x in eqlog.log])
attempt("entry-no-type", lambda: JointDegreeDistribution.load_joint_degree(good[T.MANUAL]()))
attempt("entry-string-key", lambda: JointDegreeDistribution.load_joint_degree({"joint_degree_type": "manual"}))
attempt("entry-none", lambda: JointDegreeDistribution.load_joint_degree(None))
attempt("entry-empty", lambda: JointDegreeDistribution.load_joint_degree({}))
attempt("factory-none-params", lambda: JointDegreeFactory.resolve_joint_degree(T.MANUAL, None))

# entry point == direct construction, object by object, incl. sampling mode under equal seeds
for tname, mkp in good.items():
    seed(31)
    a = type(JointDegreeFactory.resolve_joint_degree(tname, mkp()))(mkp())
    sa = show(a)
    p = mkp()
    p[N.JOINT_DEGREE_TYPE] = tname.value
    seed(31)
    b = JointDegreeDistribution.load_joint_degree(p)
    out("same-as-direct[%s]" % tname.name, sa == show(b), type(a) is type(b), rng())
    seed(32)
    attempt("sample-after-load[%s]" % tname.name, lambda: fmt(b.sample_jds_from_jdd(9)))

# entry point on one params dict repeatedly
p = good[T.MARGINAL]()
p[N.JOINT_DEGREE_TYPE] = "marginal"
p[N.USE_SAMPLING] = True
p[N.N_SAMPLES] = 40
seed(41)
for rep in range(3):
    attempt("entry-repeat%d" % rep, lambda: show(JointDegreeDistribution.load_joint_degree(p)))

out("DIGEST", hashlib.sha256("\n".join(LINES).encode()).hexdigest())
