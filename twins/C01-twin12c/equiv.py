import sys, os; sys.path.insert(0, os.getcwd())
# Variant c: cycle_motif - the "advance the second iterator by one" step
# (`next(b, None)`) is spelled with explicit exception handling
# (`try: next(b) / except StopIteration: pass`).
# Exercises cycle_motif and diamond_motif (which calls it) directly on empty,
# single-element, duplicate, non-list and hostile inputs, and through the three
# generators and both entry points; prints results, exception types, argument
# mutations and the state of both random streams.
import hashlib
import random

import numpy as np

from gcmpy.motif_generators.cycle_motif import cycle_motif
from gcmpy.motif_generators.diamond_motif import diamond_motif
from gcmpy.motif_generators.clique_motif import clique_motif
from gcmpy.motif_generators import cycle_motif as cycle_pkg, diamond_motif as diamond_pkg
from gcmpy.gcm_algorithm.gcm_algorithm_fast import GCMAlgorithmFast
from gcmpy.gcm_algorithm.gcm_algorithm_network import GCMAlgorithmNetwork
from gcmpy.gcm_algorithm.gcm_algorithm_custom_motifs import GCMAlgorithmCustomMotifs
from gcmpy.gcm_algorithm.gcm_algorithm_factory import GCMAlgorithmFactory
from gcmpy.gcm_algorithm.gcm_algorithm_main import GCMAlgorithmMain
from gcmpy.gcm_algorithm.gcm_algorithm_types import GCMAlgorithmTypes
from gcmpy.names.gcm_algorithm_names import GCMAlgorithmNames as N
from gcmpy.network.network import Network
from gcmpy.network.edge_list import LightWeightEdgeList


def h(obj):
    return hashlib.sha256(repr(obj).encode()).hexdigest()[:16]


def rng():
    return "py=%s np=%s" % (h(random.getstate()), h(np.random.get_state()))


def show(res):
    if isinstance(res, LightWeightEdgeList):
        return "EL edges=%r topo=%r ids=%r jds=%r" % (
            res.edge_list, res.topologies, res.motif_id, res.joint_degrees)
    if isinstance(res, Network):
        return "NW nodes=%r edges=%r" % (
            list(res.G.nodes(data=True)), list(res.G.edges(data=True)))
    return "%s %r" % (type(res).__name__, res)


def run(label, fn):
    try:
        out = show(fn())
    except BaseException as e:  # noqa
        out = "EXC %s %r" % (type(e).__name__, e.args)
    if len(out) > 400:
        out = out[:120] + "...#" + h(out) + " len=%d" % len(out)
    print("%-38s %s | %s" % (label, out, rng()))


class MyStop(StopIteration):
    pass


class Seq:
    """Indexable sequence whose iterator misbehaves in a configurable way."""

    def __init__(self, items, fail_at=None, exc=None, log=None):
        self.items = list(items)
        self.fail_at = fail_at
        self.exc = exc
        self.log = log if log is not None else []

    def __getitem__(self, i):
        self.log.append(("getitem", i))
        return self.items[i]

    def __len__(self):
        self.log.append(("len",))
        return len(self.items)

    def __iter__(self):
        self.log.append(("iter",))
        return SeqIter(self)


class SeqIter:
    def __init__(self, seq):
        self.seq = seq
        self.i = 0

    def __iter__(self):
        return self

    def __next__(self):
        self.seq.log.append(("next", self.i))
        if self.seq.fail_at is not None and self.i == self.seq.fail_at:
            self.i += 1
            raise self.seq.exc
        if self.i >= len(self.seq.items):
            raise StopIteration
        v = self.seq.items[self.i]
        self.i += 1
        return v


class OnlyGetitem:
    """Old-style sequence protocol: no __iter__, no __len__."""

    def __init__(self, items):
        self.items = list(items)

    def __getitem__(self, i):
        return self.items[i]


def gen_of(items):
    for x in items:
        yield x


def gen_raising(items, exc):
    for x in items:
        yield x
    raise exc


random.seed(20261004)
np.random.seed(20261004)
print("start", rng())
print("same object via package", cycle_pkg is cycle_motif, diamond_pkg is diamond_motif)

# --- direct calls ---------------------------------------------------------------------
PLAIN = [
    [], [5], [5, 5], [1, 2], [1, 2, 3], [1, 2, 3, 4], [4, 3, 2, 1, 0], [0, 0, 0, 0],
    [1, 1, 2, 2], list(range(9)), (), (7,), (1, 2, 3, 4), "", "a", "abcd", b"xyz",
    range(0), range(1), range(4), [None, None], [[1], [2], [3], [4]],
    [1.5, 2.5, 3.5, 4.5], [(1, 2), (3, 4)], bytearray(b"pq"),
    np.array([]), np.array([3]), np.array([1, 2, 3, 4]), np.arange(8).reshape(4, 2),
    {}, {0: "x"}, {0: "x", -1: "y"}, {0: 1, 1: 2, 2: 3, 3: 4, -1: 9}, set(), {1}, {1, 2, 3, 4},
    frozenset([3]), None, 0, 4, 3.0, True, object, len,
]
for v in PLAIN:
    lab = type(v).__name__ + ":" + (repr(v) if not isinstance(v, np.ndarray) else "np%r" % (v.shape,))
    before = repr(v)
    run("cycle %s" % lab[:30], lambda: cycle_motif(v))
    run("diamond %s" % lab[:28], lambda: diamond_motif(v))
    if repr(v) != before:
        print("  argument changed!", lab)

# --- iterators / generators (not indexable, or consumed) ---------------------------------
for lab, mk in [
    ("iter([])", lambda: iter([])), ("iter([1])", lambda: iter([1])),
    ("iter([1,2,3,4])", lambda: iter([1, 2, 3, 4])),
    ("gen()", lambda: gen_of([])), ("gen(1,2,3,4)", lambda: gen_of([1, 2, 3, 4])),
    ("gen raising ValueError", lambda: gen_raising([1, 2, 3, 4], ValueError("boom"))),
    ("gen raising at once", lambda: gen_raising([], KeyError("k"))),
    ("gen raising StopIteration", lambda: gen_raising([], StopIteration("s"))),
    ("map", lambda: map(int, "1234")), ("zip", lambda: zip([1, 2], [3, 4])),
    ("OnlyGetitem 0", lambda: OnlyGetitem([])), ("OnlyGetitem 1", lambda: OnlyGetitem([8])),
    ("OnlyGetitem 4", lambda: OnlyGetitem([8, 7, 6, 5])),
]:
    run("cycle %s" % lab, lambda: cycle_motif(mk()))
    run("diamond %s" % lab, lambda: diamond_motif(mk()))
    it = None
    try:
        it = mk()
        cycle_motif(it)
    except BaseException:  # noqa
        pass
    try:
        rest = list(it)
    except BaseException as e:  # noqa
        rest = type(e).__name__
    print("   left in iterator after cycle_motif:", rest)

# --- hostile sequences: what the iterator raises, and when --------------------------------
for n in (0, 1, 2, 4, 5):
    for fail_at in (None, 0, 1, 2, n):
        for exc in (StopIteration(), StopIteration("payload"), MyStop("mine"),
                    ValueError("v"), KeyError("k"), IndexError("i"), RuntimeError("r"),
                    KeyboardInterrupt(), GeneratorExit(), SystemExit(3), StopAsyncIteration()):
            if fail_at is None and not isinstance(exc, ValueError):
                continue
            log = []
            s = Seq(range(10, 10 + n), fail_at, exc, log)
            run("cycle Seq n=%d fail@%r %s" % (n, fail_at, type(exc).__name__),
                lambda: cycle_motif(s))
            print("   calls:", h(log), len(log), log[:8])
            log2 = []
            s2 = Seq(range(10, 10 + n), fail_at, exc, log2)
            run("diamond Seq n=%d fail@%r %s" % (n, fail_at, type(exc).__name__),
                lambda: diamond_motif(s2))
            print("   calls:", h(log2), len(log2), log2[:8])

# --- returned list is fresh, argument untouched --------------------------------------------
v = [1, 2, 3, 4]
r1 = cycle_motif(v)
r2 = cycle_motif(v)
r1.append("x")
print("fresh", r1, r2, v, r1 is r2)
d1 = diamond_motif(v)
d2 = diamond_motif(v)
d1.pop()
print("fresh diamond", d1, d2, v)


# --- through the generators ---------------------------------------------------------------------
def P(sizes, builds, names, kind=None, indices=None):
    p = {N.MOTIF_SIZES: sizes, N.BUILD_FUNCTIONS: builds, N.EDGE_NAMES: names}
    if kind is not None:
        p[N.GCM_TYPE] = kind
    if indices is not None:
        p[N.MOTIF_INDICES] = indices
    return p


JDS = {
    "empty": [],
    "zeros": [(0, 0), (0, 0)],
    "one stub": [(1, 0), (0, 0)],
    "ok": [(1, 1), (1, 1), (1, 1), (0, 1), (0, 0)],
    "remainder": [(2, 1), (1, 1), (1, 1), (0, 2), (0, 0)],
    "big": [(3, 4)] * 12,
}
for name, jds in JDS.items():
    for kind in (GCMAlgorithmTypes.FAST, GCMAlgorithmTypes.NETWORK):
        p = P([3, 4], [cycle_motif, diamond_motif], ["cyc", "dia"])
        a = GCMAlgorithmFactory.resolve_algorithm(kind, p)
        for rep in range(2):
            run("%s[%s]#%d" % (kind.value, name, rep), lambda: a.random_clustered_graph(jds))
        run("main %s[%s]" % (kind.value, name), lambda: GCMAlgorithmMain.load_gcm_algorithm(
            P([3, 4], [cycle_motif, diamond_motif], ["cyc", "dia"], kind.value)
        ).random_clustered_graph(jds))
        for size in (1, 2, 5):
            run("%s cycle size %d[%s]" % (kind.value, size, name),
                lambda: GCMAlgorithmFactory.resolve_algorithm(
                    kind, P([size, size], [cycle_motif, cycle_motif], ["c", "c"])
                ).random_clustered_graph(jds))
    pm = P([3, 4], [cycle_motif, diamond_motif], [lambda: ["c"] * 3, lambda: ["d"] * 6],
           indices=[[0], [1]])
    am = GCMAlgorithmCustomMotifs(pm)
    for rep in range(2):
        run("motifs[%s]#%d" % (name, rep), lambda: am.random_clustered_graph(jds))
    run("main motifs[%s]" % name, lambda: GCMAlgorithmMain.load_gcm_algorithm(
        P([3, 4], [cycle_motif, diamond_motif], [lambda: ["c"] * 3, lambda: ["d"] * 6],
          "motifs", [[0], [1]])).random_clustered_graph(jds))
    run("motifs 2+2 diamond[%s]" % name, lambda: GCMAlgorithmCustomMotifs(
        P([2, 2], [diamond_motif], [lambda: ["d"] * 6], indices=[[0, 1]])
    ).random_clustered_graph(jds))
    run("motifs 1-cycle[%s]" % name, lambda: GCMAlgorithmCustomMotifs(
        P([1, 1], [cycle_motif], [lambda: ["c"]], indices=[[0]])
    ).random_clustered_graph(jds))

# --- randomised sweep of direct calls ---------------------------------------------------------
gen = random.Random(3)
acc = []
for t in range(2000):
    n = gen.randrange(0, 9)
    v = [gen.randrange(0, 5) for _ in range(n)]
    for f in (cycle_motif, diamond_motif):
        try:
            acc.append((f.__name__, v, f(v)))
        except BaseException as e:  # noqa
            acc.append((f.__name__, v, type(e).__name__, e.args))
print("sweep", h(acc), len(acc), acc[:4])

print("end", rng(), "next draws", random.random(), np.random.random())
