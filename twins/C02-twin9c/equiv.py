import sys, os; sys.path.insert(0, os.getcwd())
import hashlib
import random
from fractions import Fraction

import numpy as np

from gcmpy.gcm_algorithm.gcm_algorithm_custom_motifs import GCMAlgorithmCustomMotifs
from gcmpy.names.gcm_algorithm_names import GCMAlgorithmNames
from gcmpy.motif_generators.clique_motif import clique_motif


def h(x):
    return hashlib.sha256(repr(x).encode()).hexdigest()[:16]


def rng_digest():
    return h((random.getstate(), np.random.get_state()[1].tolist(), np.random.get_state()[2]))


def P(sizes, names, builds, indices):
    return {
        GCMAlgorithmNames.MOTIF_SIZES: sizes,
        GCMAlgorithmNames.EDGE_NAMES: names,
        GCMAlgorithmNames.BUILD_FUNCTIONS: builds,
        GCMAlgorithmNames.MOTIF_INDICES: indices,
    }


LOG = []


class Spy:
    """A sequence that records every access made to it."""

    def __init__(self, data):
        self.data = list(data)

    def __repr__(self):
        return "Spy(%r)" % (self.data,)

    def __len__(self):
        LOG.append("len")
        return len(self.data)

    def __getitem__(self, key):
        LOG.append(("get", repr(key)))
        return self.data[key]


class Idx:
    """An integer-like step: usable by range() through __index__ and addable."""

    def __init__(self, v):
        self.v = v

    def __repr__(self):
        return "Idx(%d)" % self.v

    def __index__(self):
        LOG.append("index")
        return self.v

    def __radd__(self, other):
        LOG.append(("radd", other))
        return other + self.v


class LyingLen:
    def __init__(self, data, n):
        self.data = list(data)
        self.n = n

    def __repr__(self):
        return "LyingLen(%r, %d)" % (self.data, self.n)

    def __len__(self):
        return self.n

    def __getitem__(self, key):
        return self.data[key]


def tri(vs):
    return (vs[0], vs[1]), (vs[0], vs[2]), (vs[1], vs[2])


def n_tri():
    return "t", "t", "t"


def n_names(k):
    return lambda: tuple("e%d" % i for i in range(k))


alg = GCMAlgorithmCustomMotifs(P([2, 3], [n_names(1), n_tri], [clique_motif, tri], [[0], [1]]))

random.seed(777)
np.random.seed(777)


def call(label, lst, n):
    del LOG[:]
    try:
        before = repr(lst)
        res = alg.partition(lst, n)
        out = (
            "ok",
            type(res).__name__,
            len(res),
            h(res),
            [type(x).__name__ for x in res[:3]],
            repr(res)[:120],
            repr(lst) == before,
            # fresh objects: no part aliases the input
            all(x is not lst for x in res),
        )
    except BaseException as e:
        out = ("exc", type(e).__name__, h(str(e)))
    print(label, repr(n)[:30], out, len(LOG), h(LOG), rng_digest())


# plain lists of many lengths against many chunk sizes, incl. illegal ones
for L in list(range(0, 14)) + [31, 64, 100]:
    lst = list(range(L))
    for n in [1, 2, 3, 4, 5, 7, L, L + 1, max(L - 1, 1), 2 * L + 3, 0, -1, -3, -L - 1, True, False, 10**30, -(10**30)]:
        call("list%d" % L, lst, n)

# non-integer / odd chunk sizes
for n in [2.0, 1.5, None, "2", Fraction(2, 1), [2], np.int64(3), np.int32(-2), np.float64(2.0), np.uint8(2), Idx(3), Idx(-2), Idx(0), float("nan"), 2 + 0j]:
    call("oddn", list(range(10)), n)
    call("oddn_empty", [], n)

# other sequence types
for n in [1, 2, 3, 5, 11, 0, -2]:
    call("tuple", tuple(range(10)), n)
    call("str", "abcdefghij", n)
    call("bytes", b"abcdefghij", n)
    call("bytearray", bytearray(b"abcdefghij"), n)
    call("range", range(10), n)
    call("nparr", np.arange(10), n)
    call("np2d", np.arange(12).reshape(4, 3), n)
    call("nested", [[i, [i]] for i in range(7)], n)
    call("spy", Spy(range(10)), n)
    call("spy_empty", Spy([]), n)
    call("lying_long", LyingLen(range(4), 9), n)
    call("lying_short", LyingLen(range(9), 4), n)
    call("dict", {i: i for i in range(5)}, n)
    call("set", set(range(5)), n)
    call("none", None, n)
    call("int", 5, n)
    call("gen", (i for i in range(5)), n)

# results are independent copies: mutate a part, the source stays put
src = list(range(9))
parts = alg.partition(src, 4)
parts[0].append(99)
parts[-1].pop()
print("indep", src, parts, alg.partition(src, 4))

# repeated calls on one object give the same answer and leave it untouched
for _ in range(3):
    print("again", alg.partition(src, 2), sorted(alg.__dict__), rng_digest())


# through the generator (every stub list goes through partition)
def make_jds(n, widths, seed, mult):
    r = random.Random(seed)
    jds = [tuple(r.randrange(0, w + 1) for w in widths) for _ in range(n)]
    if mult and jds:
        cols = [sum(j[i] for j in jds) for i in range(len(widths))]
        last = list(jds[-1])
        for i, m in enumerate(mult):
            last[i] += (-cols[i]) % m
        jds[-1] = tuple(last)
    return jds


def run(label, params, jds, repeat_calls=1):
    out = [label]
    try:
        a = GCMAlgorithmCustomMotifs(params)
    except BaseException as e:
        print(label, "ctor", type(e).__name__, rng_digest())
        return
    for _ in range(repeat_calls):
        try:
            g = a.random_clustered_graph(jds)
            out.append(("ok", len(g.edge_list), len(g.topologies), len(g.motif_id), h(g.edge_list), h(g.topologies), h(g.motif_id), g.joint_degrees is jds))
        except BaseException as e:
            out.append(("exc", type(e).__name__, h(str(e))))
        out.append(rng_digest())
    print(out)


r = random.Random(31337)
for t in range(80):
    ntop = r.randrange(1, 4)
    sizes = [r.choice([1, 2, 3, 4, 5, 0, -1, -2, 2.0]) if r.random() < 0.25 else r.randrange(2, 5) for _ in range(ntop)]
    builds = [clique_motif] * ntop
    names = []
    for s in sizes:
        k = s * (s - 1) // 2 if isinstance(s, int) and s > 0 else 1
        names.append(n_names(k))
    mult = [s if isinstance(s, int) and s > 0 else 1 for s in sizes]
    jds = make_jds(r.randrange(0, 50), [r.randrange(0, 4) for _ in range(ntop)], 3000 + t, mult if r.random() < 0.7 else None)
    if r.random() < 0.3 and ntop > 1:
        indices = [list(range(ntop))]
        builds, names = builds[:1], [n_names(1)]
    else:
        indices = [[i] for i in range(ntop)]
    run("rand%d" % t, P(sizes, names, builds, indices), jds, repeat_calls=r.randrange(1, 3))

print("final", rng_digest())
