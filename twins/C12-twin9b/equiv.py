import sys, os; sys.path.insert(0, os.getcwd())
import random
import re
import hashlib
import numpy as np
import networkx as nx

from gcmpy.joint_degree.joint_degree_loaders.joint_degree_manual import (
    JointDegreeManual,
)
from gcmpy.motif_generators.clique_motif import clique_motif
from gcmpy.gcm_algorithm.gcm_algorithm_network import GCMAlgorithmNetwork
from gcmpy.names.gcm_algorithm_names import GCMAlgorithmNames
from gcmpy.names.joint_degree_names import JointDegreeNames
from gcmpy.names.network_names import NetworkNames
from gcmpy.names.tools_names import ToolsNames
from gcmpy.network.network import Network
from gcmpy.tools.joint_excess_joint_degree_matrices import (
    JointExcessJointDegreeMatrices,
)
from gcmpy.tools.markov_chain_monte_carlo import MarkovChainMonteCarlo
from gcmpy.tools.markov_chain_monte_carlo_rewiring import (
    MarkovChainMonteCarloRewiring,
)
from gcmpy.tools.joint_excess_from_ejk import JointExcessFromEjk
from gcmpy.tools.joint_degree_from_excess import JointDegreeFromExcess

T = NetworkNames.TOPOLOGY
M = NetworkNames.MOTIF_IDS
J = NetworkNames.JOINT_DEGREE

OUT = []


def emit(*parts):
    line = " ".join(str(p) for p in parts)
    OUT.append(re.sub(r"0x[0-9a-fA-F]+", "0xADDR", line))


def rng_state():
    s = repr(random.getstate()) + repr(np.random.get_state()[1].tolist())
    s += repr(np.random.get_state()[2:])
    return hashlib.sha256(s.encode()).hexdigest()[:16]


def digest(obj):
    return hashlib.sha256(repr(obj).encode()).hexdigest()[:16]


def graph_repr(G):
    return (
        [(n, repr(d)) for n, d in G.nodes(data=True)],
        [(u, v, repr(d)) for u, v, d in G.edges(data=True)],
        {n: list(G.adj[n]) for n in G},
    )


def attempt(label, fn):
    try:
        r = fn()
        emit(label, "->", repr(r))
        return r
    except BaseException as e:  # noqa
        emit(label, "raised", type(e).__name__, repr(str(e))[:300])
        return None


def target(eps):
    e1 = e2 = e3 = eps
    tree = {
        (0, 3, 0, 3): 9 / 81 - e1 - e2,
        (0, 3, 4, 1): e1,
        (0, 3, 2, 2): e2,
        (4, 1, 0, 3): e1,
        (4, 1, 4, 1): 45 / 81 - e1 - e3,
        (4, 1, 2, 2): e3,
        (2, 2, 0, 3): e2,
        (2, 2, 4, 1): e3,
        (2, 2, 2, 2): 27 / 81 - e2 - e3,
    }
    tri = {
        (3, 1, 3, 1): 48 / 144 - e1 - e2,
        (3, 1, 1, 2): e1,
        (3, 1, 5, 0): e2,
        (1, 2, 3, 1): e1,
        (1, 2, 1, 2): 72 / 144 - e1 - e3,
        (1, 2, 5, 0): e3,
        (5, 0, 3, 1): e2,
        (5, 0, 1, 2): e3,
        (5, 0, 5, 0): 24 / 144 - e2 - e3,
    }
    return JointExcessJointDegreeMatrices(
        {
            ToolsNames.EDGE_NAMES: ["2-clique", "3-clique"],
            ToolsNames.EJKS: {"2-clique": tree, "3-clique": tri},
        }
    )


def build(seed, n, eps):
    random.seed(seed)
    np.random.seed(seed)
    names = ["2-clique", "3-clique"]
    sizes = [2, 3]
    tgt = target(eps)
    qks = JointExcessFromEjk.get_excess_joint_distributions(tgt)
    jdd = JointDegreeFromExcess.get_joint_degree_distribution(qks, names)
    jds = JointDegreeManual(
        {JointDegreeNames.JDD: jdd, JointDegreeNames.MOTIF_SIZES: sizes}
    ).sample_jds_from_jdd(n)
    g = GCMAlgorithmNetwork(
        {
            GCMAlgorithmNames.MOTIF_SIZES: sizes,
            GCMAlgorithmNames.EDGE_NAMES: names,
            GCMAlgorithmNames.BUILD_FUNCTIONS: [clique_motif, clique_motif],
        }
    ).random_clustered_graph(jds)
    return g, tgt


def mc_state(mc):
    return (
        [(p.topology, p.motif_id, p.new_edge) for p in mc._proposal_edges],
        mc._proposal_count,
        mc._proposals_accepted,
        [repr(x) for x in mc._acceptance_ratio],
        MarkovChainMonteCarlo._proposal_count,
        MarkovChainMonteCarlo._proposals_accepted,
        mc.convergence_limit,
        mc.search_limit,
    )


def toy(int_only=False):
    """hand-made graph: two triangles, trees, odd node types and attributes"""
    G = nx.Graph()
    pool = [(1, 3), (5, 1), (3, 2)]
    nodes = list(range(0, 13)) + ([] if int_only else ["s", 1.5, (7, 8)])
    for i, k in enumerate(nodes):
        G.add_node(k)
        G.nodes[k][J] = pool[(i * 5 + i // 3) % 3]
    if not int_only:
        G.nodes[10][J] = (7, 7)
    tri = [((0, 1), 100), ((1, 2), 100), ((0, 2), 100),
           ((3, 4), 101), ((4, 5), 101), ((3, 5), 101)]
    for e, m in tri:
        G.add_edge(*e)
        G.edges[e].update({T: "3-clique", M: m})
    tree = [((2, 6), 102), ((6, 7), 103), ((5, 8), 104), ((3, 10), 107),
            ((9, 11), 108), ((7, 12), 109)]
    if not int_only:
        tree += [((9, "s"), 105), ((1.5, (7, 8)), 106)]
    for e, m in tree:
        G.add_edge(*e)
        G.edges[e].update({T: "2-clique", M: m})
    if not int_only:
        # an edge with a nan motif id and one sharing a motif id across topologies
        G.add_edge(11, 12)
        G.edges[11, 12].update({T: "2-clique", M: float("nan")})
        G.add_edge(0, 12)
        G.edges[0, 12].update({T: "2-clique", M: 100})
    net = Network()
    net.G = G
    return net


def new_mc(net, tgt, **kw):
    params = {ToolsNames.NETWORK: net, ToolsNames.EJKS: tgt}
    if "cl" in kw:
        params[ToolsNames.CONVERGENCE_LIMIT] = kw["cl"]
    if "sl" in kw:
        params[ToolsNames.SEARCH_LIMIT] = kw["sl"]
    return MarkovChainMonteCarloRewiring(params)


def section_direct():
    emit("== direct calls on toy graph")
    random.seed(11)
    np.random.seed(11)
    net = toy()
    tgt = target(1e-3)
    mc = new_mc(net, tgt, cl=3, sl=4)
    G = net.G
    edges = list(G.edges())
    focal = list(G.nodes()) + [True, 1.0, 0.0, 99, None, (0, 3), [0, 3], [[0]],
                               (7, 8), "s", "sx", 1.5, (), [], {0: 1}, {3, 0},
                               iter([0, 5]), 2 + 0j, float("nan")]
    for u0 in focal:
        for e in edges + [(0, 99), (99, 98), (1, 0), (2, 0), (0,), 5, None,
                          (0, 1, 2), (True, 1.0)]:
            if hasattr(u0, "__next__"):
                u = iter([0, 5])
            else:
                u = u0
            lbl = f"get_all_edges u0={u0!r:.30} e={e!r}"

            def call(u=u, e=e):
                r = mc.get_all_edges(G, u, e)
                return [(repr(a), type(a).__name__, repr(b), type(b).__name__)
                        for a, b in r], [id(a) == id(u) for a, b in r]

            attempt(lbl, call)
    # directed / multigraph inputs
    D = nx.DiGraph(G)
    MG = nx.MultiGraph(G)
    for X, nm in ((D, "DiGraph"), (MG, "MultiGraph")):
        for u0 in (0, 2, 6, 12, 99, None):
            for e in [(0, 1), (1, 0), (2, 6), (6, 2), (0, 12), (0, 1, 0)]:
                attempt(f"get_all_edges[{nm}] u0={u0!r} e={e!r}",
                        lambda u0=u0, e=e: mc.get_all_edges(X, u0, e))
    # hashmap
    hm_inputs = [
        [], edges, edges[::-1], edges + edges, [(1, 0), (0, 1), (0, 1)],
        [(0, 1), (2, 6), (1, 2), (6, 7), (0, 2)], [(0, 99)], [(0, 1), (0, 99)],
        [(0, 1), 5], [(0,)], None, 7, "ab", [(0, 1, 2)], iter(edges[:5]),
        tuple(edges[:4]), [(2, 6), (0, 1), (99, 1)],
    ]
    for es in hm_inputs:
        def call(es=es):
            r = mc.get_hashmap(G, es)
            return list(r.items()), [type(v).__name__ for v in r.values()]
        attempt(f"get_hashmap es={es!r:.60}", call)
    # unhashable / odd topologies
    H = G.copy()
    H.edges[0, 1][T] = ["l"]
    H.edges[1, 2][T] = None
    H.edges[0, 2][T] = 0
    H.edges[3, 4][T] = 0.0
    H.edges[4, 5][T] = False
    H.edges[3, 5][T] = ""
    del H.edges[2, 6][T]
    for es in ([(1, 2), (0, 2), (3, 4), (4, 5), (3, 5), (1, 2)],
               [(1, 2), (0, 1), (0, 2)], [(0, 2), (2, 6)], [(3, 5), (3, 5)]):
        def call(es=es):
            r = mc.get_hashmap(H, es)
            return [(repr(k), type(k).__name__, v) for k, v in r.items()]
        attempt(f"get_hashmap[odd] es={es!r}", call)
    # hashmap result is fresh and independent per call
    r1 = mc.get_hashmap(G, edges)
    r2 = mc.get_hashmap(G, edges)
    emit("hashmap fresh", r1 == r2, r1 is r2,
         all(r1[k] is not r2[k] for k in r1))
    r1["2-clique"].clear()
    emit("hashmap after clear", mc.get_hashmap(G, edges) == r2)

    # suitability and swap condition over all focal/edge pairs
    cnt = 0
    for e0 in edges:
        for e1 in edges:
            for u0 in e0:
                for v0 in e1:
                    def call(e0=e0, e1=e1, u0=u0, v0=v0):
                        a = mc.get_all_edges(G, u0, e0)
                        b = mc.get_all_edges(G, v0, e1)
                        ok = mc.is_edge_choice_suitable(G, u0, v0, a, b)
                        return a, b, ok
                    r = attempt(f"suit {u0!r},{v0!r},{e0!r},{e1!r}", call)
                    if r is None:
                        continue
                    a, b, ok = r

                    def sc(a=a, b=b, u0=u0, v0=v0):
                        res = mc.swap_condition(G, a, b, u0, v0)
                        return res, mc_state(mc)
                    attempt("  swap", sc)
                    emit("  rng", rng_state())
                    cnt += 1
    emit("pairs", cnt)
    # swap_condition with mismatched lists / error paths
    tri0 = mc.get_all_edges(G, 0, (0, 1))
    tri3 = mc.get_all_edges(G, 3, (3, 4))
    cases = [
        (tri0, tri3, 0, 3), (tri0, tri3[:1], 0, 3), (tri0[:1], tri3, 0, 3),
        (tri0, [], 0, 3), ([], tri3, 0, 3), ([], [], 0, 3),
        (tri0 + tri0, tri3, 0, 3), (tri0, tri3 + tri3, 0, 3),
        (tri0, tri3, 1, 3), (tri0, tri3, 0, 4), (tri0, tri3, 99, 98),
        ([(2, 6)], [(5, 8)], 2, 5), ([(2, 6)], [(5, 8)], 6, 8),
        ([(2, 6), (2, 6)], [(5, 8)], 2, 5), ([(2, 6)], [(3, 4)], 2, 3),
        ([(0, 1), (2, 6)], [(5, 8), (3, 4)], 0, 3),
        ([(0, 99)], [(5, 8)], 0, 5), ([(2, 6)], [(5, 99)], 2, 5),
        ([(9, "s")], [(1.5, (7, 8))], 9, 1.5), ([(11, 12)], [(5, 8)], 11, 5),
        ([(6, 7), (6, 7)], [(5, 8)], 6, 5), ([(6, 7)], [(5, 8), (9, 11)], 6, 5),
        ([(6, 7), (0, 1)], [(5, 8)], 6, 5), ([(3, 10)], [(5, 8)], 3, 5),
        ([(6, 7), (7, 12)], [(5, 8), (9, 11)], 7, 5),
        ([(6, 7), (7, 12)], [(5, 8), (9, 11)], 7, 11),
        (None, tri3, 0, 3), (tri0, None, 0, 3), (tuple(tri0), tuple(tri3), 0, 3),
    ]
    for a, b, u0, v0 in cases:
        def sc(a=a, b=b, u0=u0, v0=v0):
            res = mc.swap_condition(G, a, b, u0, v0)
            return res, mc_state(mc)
        attempt(f"swapcase {a!r:.40} {b!r:.40} {u0!r} {v0!r}", sc)
        emit("  rng", rng_state(), mc_state(mc))
        attempt("  suitcase", lambda a=a, b=b, u0=u0, v0=v0:
                mc.is_edge_choice_suitable(G, u0, v0, a, b))
    # ejks with missing / zero entries, and an unknown topology
    tgt2 = target(1e-3)
    tgt2.ejks["2-clique"] = {}
    mc2 = new_mc(net, tgt2, cl=3, sl=4)
    tgt3 = target(0.0)
    mc3 = new_mc(net, tgt3, cl=3, sl=4)
    tgt4 = target(1e-3)
    tgt4.topology_names = ["3-clique"]
    mc4 = new_mc(net, tgt4, cl=3, sl=4)
    for m, nm in ((mc2, "empty"), (mc3, "zero"), (mc4, "names")):
        for a, b, u0, v0 in cases:
            def sc(a=a, b=b, u0=u0, v0=v0, m=m):
                res = m.swap_condition(G, a, b, u0, v0)
                return res, mc_state(m)
            attempt(f"swapcase[{nm}] {a!r:.40} {b!r:.40} {u0!r} {v0!r}", sc)
            emit("  rng", rng_state())
    emit("toy graph untouched", digest(graph_repr(G)))


def section_rewire():
    emit("== rewire on toy graph")
    for seed in range(6):
        for cl, sl in ((0, 3), (2, 3), (5, 8), (3, 1)):
            net = toy(int_only=True)
            tgt = target(1e-2)
            mc = new_mc(net, tgt, cl=cl, sl=sl)
            before = digest(graph_repr(net.G))
            random.seed(seed)
            np.random.seed(seed)

            def run(mc=mc):
                R = mc.rewire()
                return digest(graph_repr(R)), list(R.edges(data=True))[:6]
            attempt(f"rewire toy seed={seed} cl={cl} sl={sl}", run)
            emit("  state", mc_state(mc), rng_state(),
                 before == digest(graph_repr(net.G)))
    emit("== rewire on generated networks")
    for seed, n, eps, cl, sl in (
        (1, 60, 1e-2, 15, 20), (2, 90, 1e-3, 25, 5), (3, 120, 1e-8, 20, 25),
        (4, 150, 5e-2, 60, 20), (5, 40, 1e-1, 10, 2), (6, 300, 2e-2, 120, 20),
    ):
        def run(seed=seed, n=n, eps=eps, cl=cl, sl=sl):
            g, tgt = build(seed, n, eps)
            before = digest(graph_repr(g.G))
            mc = new_mc(g, tgt, cl=cl, sl=sl)
            outs = []
            for rep in range(2):  # repeated calls on one object
                R = mc.rewire()
                outs.append((digest(graph_repr(R)), R.number_of_edges(),
                             mc_state(mc)[1:], rng_state()))
            # a second object on the rewired graph
            net2 = Network()
            net2.G = R
            mc_b = new_mc(net2, tgt, sl=sl)
            mc_b.convergence_limit = 7
            R2 = mc_b.rewire()
            outs.append((digest(graph_repr(R2)), mc_state(mc_b)[1:], rng_state()))
            outs.append(before == digest(graph_repr(g.G)))
            return outs
        attempt(f"rewire gen seed={seed} n={n} eps={eps} cl={cl} sl={sl}", run)
    # default convergence limit (10 * edges) on a small generated network
    def run_default():
        g, tgt = build(9, 16, 5e-2)
        mc = new_mc(g, tgt)
        emit("  default limits", mc.convergence_limit, mc.search_limit)
        R = mc.rewire()
        return digest(graph_repr(R)), mc_state(mc)[1:], rng_state()
    attempt("rewire default limit", run_default)
    # constructor error paths
    attempt("ctor none", lambda: MarkovChainMonteCarloRewiring(None))
    attempt("ctor empty", lambda: MarkovChainMonteCarloRewiring({}))
    attempt("ctor no ejks", lambda: MarkovChainMonteCarloRewiring(
        {ToolsNames.NETWORK: toy()}))
    attempt("ctor bad net", lambda: MarkovChainMonteCarloRewiring(
        {ToolsNames.NETWORK: 5, ToolsNames.EJKS: None}))
    # empty graph
    def empty():
        net = Network()
        mc = new_mc(net, target(1e-2), cl=2, sl=2)
        return mc.rewire()
    attempt("rewire empty graph", empty)
    emit("  rng", rng_state())


section_direct()
section_rewire()
emit("final rng", rng_state())
full = "\n".join(OUT)
print(full)
print("DIGEST", hashlib.sha256(full.encode()).hexdigest(), len(OUT))
