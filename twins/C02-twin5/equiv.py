"""
Behavioural digest of the EXISTING entry points touched by the C02 additions.
Run with cwd = a checkout of gcmpy. Uses only the pre-existing signatures.
"""
import os
import sys
import hashlib
import random
import warnings

warnings.simplefilter("ignore")
sys.path.insert(0, os.getcwd())

import numpy as np  # noqa: E402

from gcmpy.gcm_algorithm.gcm_algorithm_fast import GCMAlgorithmFast  # noqa: E402
from gcmpy.gcm_algorithm.gcm_algorithm_custom_motifs import (  # noqa: E402
    GCMAlgorithmCustomMotifs,
)
from gcmpy.gcm_algorithm.gcm_algorithm_network import GCMAlgorithmNetwork  # noqa: E402
from gcmpy.gcm_algorithm.gcm_algorithm_main import GCMAlgorithmMain  # noqa: E402
from gcmpy.gcm_algorithm.gcm_algorithm_factory import GCMAlgorithmFactory  # noqa: E402
from gcmpy.gcm_algorithm.gcm_algorithm_types import GCMAlgorithmTypes  # noqa: E402
from gcmpy.names.gcm_algorithm_names import GCMAlgorithmNames as N  # noqa: E402
from gcmpy.network.edge_list import LightWeightEdgeList  # noqa: E402
from gcmpy.network.edge_list_to_network import EdgeListToNetwork  # noqa: E402
from gcmpy.network.network_to_edge_list import NetworkToEdgeList  # noqa: E402
from gcmpy.motif_generators.clique_motif import clique_motif  # noqa: E402


def h(obj) -> str:
    return hashlib.sha256(repr(obj).encode()).hexdigest()[:16]


def rng_state() -> str:
    return h(random.getstate()) + "/" + h(
        tuple(
            x.tolist() if hasattr(x, "tolist") else x for x in np.random.get_state()
        )
    )


def show_el(tag, el):
    print(tag, "type", type(el).__name__)
    print(tag, "lens", len(el.edge_list), len(el.topologies), len(el.motif_id),
          len(el.joint_degrees))
    print(tag, "edges", h(el.edge_list), repr(el.edge_list[:6]))
    print(tag, "topos", h(el.topologies), repr(el.topologies[:6]))
    print(tag, "mids", h(el.motif_id), repr(el.motif_id[:12]))
    print(tag, "jds", h(el.joint_degrees))
    print(tag, "bool", bool(el))


def run(tag, fn):
    try:
        r = fn()
    except BaseException as e:  # noqa: B902
        print(tag, "EXC", type(e).__name__, repr(str(e)))
        r = None
    print(tag, "rng", rng_state())
    return r


def seed(s):
    random.seed(s)
    np.random.seed(s)


def make_jds(n, ncols, s, maxdeg=4):
    r = random.Random(s)
    return [tuple(r.randint(0, maxdeg) for _ in range(ncols)) for _ in range(n)]


# ------------------------------------------------------------------ builders
CALLS = []


def logged(fn, name):
    def inner(vs):
        CALLS.append((name, tuple(vs)))
        return fn(vs)

    return inner


def bare_edge(vs):
    return (vs[0], vs[1])


def two_edges(vs):
    return ((vs[0], vs[1]), (vs[1], vs[2]))


def two_edges_list(vs):
    return [[vs[0], vs[1]], [vs[1], vs[2]]]


def tri(vs):
    return (vs[0], vs[1]), (vs[0], vs[2]), (vs[1], vs[2])


def diamond(vs):
    return (
        (vs[0], vs[1]),
        (vs[1], vs[2]),
        (vs[2], vs[3]),
        (vs[3], vs[1]),
        (vs[0], vs[2]),
    )


def boom(vs):
    raise KeyError("boom")


def gen_builder(vs):
    return (e for e in clique_motif(vs))


def fast_params(sizes, names, builders):
    return {N.MOTIF_SIZES: sizes, N.EDGE_NAMES: names, N.BUILD_FUNCTIONS: builders}


# =================================================================== FAST
print("== FAST")
for s, (n, sizes) in enumerate(
    [(0, [2]), (1, [2]), (7, [2, 3]), (40, [2, 3]), (60, [2, 3, 4]), (25, [3])]
):
    seed(100 + s)
    jds = make_jds(n, len(sizes), s)
    jds_before = repr(jds)
    names = ["%d-clique" % k for k in sizes]
    del CALLS[:]
    p = fast_params(sizes, names, [logged(clique_motif, "c%d" % k) for k in sizes])
    p_before = repr(sorted((k.value, repr(v)) for k, v in p.items() if k is not N.BUILD_FUNCTIONS))
    alg = GCMAlgorithmFast(p)
    for rep in range(3):
        tag = "fast[%d.%d]" % (s, rep)
        el = run(tag, lambda: alg.random_clustered_graph(jds))
        if el is not None:
            show_el(tag, el)
            print(tag, "jds-identity", el.joint_degrees is jds)
        print(tag, "calls", len(CALLS), h(CALLS))
    print("fast[%d]" % s, "inputs-unchanged", repr(jds) == jds_before,
          p_before == repr(sorted((k.value, repr(v)) for k, v in p.items() if k is not N.BUILD_FUNCTIONS)))

# stub count not divisible by motif size (grouper yields a short last group)
seed(5)
jds = [(1, 1), (1, 1), (1, 0), (0, 1), (2, 2)]
alg = GCMAlgorithmFast(fast_params([2, 3], ["a", "b"], [clique_motif, clique_motif]))
el = run("fast[odd]", lambda: alg.random_clustered_graph(jds))
show_el("fast[odd]", el)

# builder returning a single bare edge / a generator / raising
seed(6)
jds = make_jds(10, 1, 3, 2)
alg = GCMAlgorithmFast(fast_params([2], ["x"], [bare_edge]))
el = run("fast[bare]", lambda: alg.random_clustered_graph(jds))
if el is not None:
    show_el("fast[bare]", el)
alg = GCMAlgorithmFast(fast_params([2], ["x"], [gen_builder]))
el = run("fast[gen]", lambda: alg.random_clustered_graph(jds))
alg = GCMAlgorithmFast(fast_params([2], ["x"], [boom]))
el = run("fast[boom]", lambda: alg.random_clustered_graph(jds))

# bad inputs
alg = GCMAlgorithmFast(fast_params([2], ["x"], [clique_motif]))
run("fast[None]", lambda: alg.random_clustered_graph(None))
run("fast[int]", lambda: alg.random_clustered_graph(5))
run("fast[ints]", lambda: alg.random_clustered_graph([1, 2]))
run("fast[neg]", lambda: show_el("fast[neg]", alg.random_clustered_graph([(-1,), (2,), (2,)])))
run("fast[float]", lambda: alg.random_clustered_graph([(1.5,), (2,)]))
run("fast[2cols-1size]", lambda: alg.random_clustered_graph([(1, 1), (1, 1)]))
run("fast[noargs]", lambda: alg.random_clustered_graph())
run("fast[kw]", lambda: show_el("fast[kw]", alg.random_clustered_graph(jds=[(1,), (1,)])))
alg0 = GCMAlgorithmFast(fast_params([0], ["x"], [clique_motif]))
run("fast[size0]", lambda: alg0.random_clustered_graph([(1,), (1,)]))
alg1 = GCMAlgorithmFast(fast_params([2, 3], ["x"], [clique_motif, clique_motif]))
run("fast[names-short]", lambda: alg1.random_clustered_graph([(1, 1), (1, 1), (0, 1)]))
run("fast[ctor-missing]", lambda: GCMAlgorithmFast({N.MOTIF_SIZES: [2]}))
run("fast[ctor-none]", lambda: GCMAlgorithmFast(None))

# generator as jds, jds as tuple of lists
seed(8)
el = run("fast[iter]", lambda: alg.random_clustered_graph(iter([(1,), (2,), (1,)])))
if el is not None:
    print("fast[iter]", len(el.edge_list), type(el.joint_degrees).__name__)
el = run("fast[lists]", lambda: alg.random_clustered_graph(([1], [2], [1])))
if el is not None:
    show_el("fast[lists]", el)


# subclass overriding the id sequence
class FastIds(GCMAlgorithmFast):
    def infinite_sequence(self):
        k = 1000
        while True:
            yield "m%d" % k
            k += 7


seed(9)
jds = make_jds(12, 2, 11, 3)
el = run("fast[sub]", lambda: FastIds(
    fast_params([2, 3], ["a", "b"], [clique_motif, clique_motif])
).random_clustered_graph(jds))
show_el("fast[sub]", el)

# through the network algorithm, the factory and the main loader
seed(10)
jds = make_jds(30, 2, 12, 3)
p = fast_params([2, 3], ["2-clique", "3-clique"], [clique_motif, clique_motif])
net = run("net", lambda: GCMAlgorithmNetwork(p).random_clustered_graph(jds))
if net is not None:
    print("net", net.G.number_of_nodes(), net.G.number_of_edges(),
          h(sorted((min(a, b), max(a, b), repr(sorted(d.items(), key=repr)))
                   for a, b, d in net.G.edges(data=True))))
    back = run("net-back", lambda: NetworkToEdgeList.convert(net))
    show_el("net-back", back)
for t in (GCMAlgorithmTypes.FAST, GCMAlgorithmTypes.MOTIFS, GCMAlgorithmTypes.NETWORK):
    q = dict(p)
    q[N.MOTIF_INDICES] = [[0], [1]]
    q[N.EDGE_NAMES] = [lambda: "2-clique", lambda: ("3-clique",) * 3]
    q[N.BUILD_FUNCTIONS] = [bare_edge, tri]
    a = run("factory[%s]" % t.value, lambda: GCMAlgorithmFactory.resolve_algorithm(t, q))
    print("factory", t.value, type(a).__name__)
    if t is GCMAlgorithmTypes.MOTIFS:
        jm = [(j[0], 1) for j in jds]
        jm[0] = (jm[0][0] + sum(j[0] for j in jm) % 2, 1)
        el = run("factory-motifs", lambda: a.random_clustered_graph(jm))
        if el is not None:
            show_el("factory-motifs", el)
p2 = dict(p)
p2[N.GCM_TYPE] = "fast"
a = run("main", lambda: GCMAlgorithmMain.load_gcm_algorithm(p2))
el = run("main-run", lambda: a.random_clustered_graph(jds))
show_el("main-run", el)

# =================================================================== CUSTOM
print("== CUSTOM")


def names_of(*xs):
    if len(xs) == 1:
        return lambda: xs[0]
    return lambda: xs


def custom_params(sizes, names, builders, indices):
    return {
        N.MOTIF_SIZES: sizes,
        N.EDGE_NAMES: names,
        N.BUILD_FUNCTIONS: builders,
        N.MOTIF_INDICES: indices,
    }


test_jds = [
    (2, 1, 0, 1, 1, 0, 0),
    (1, 1, 0, 1, 1, 0, 0),
    (3, 1, 1, 0, 0, 1, 0),
    (2, 0, 1, 0, 0, 1, 0),
    (0, 0, 0, 1, 0, 0, 1),
    (1, 0, 0, 1, 0, 0, 0),
    (1, 0, 1, 0, 0, 0, 0),
    (1, 0, 1, 0, 0, 0, 0),
    (1, 0, 0, 1, 0, 0, 0),
    (1, 0, 0, 1, 0, 0, 0),
    (1, 0, 1, 0, 0, 0, 0),
    (0, 0, 1, 0, 0, 0, 0),
]


def pentagon(vs):
    return (
        (vs[0], vs[1]),
        (vs[1], vs[2]),
        (vs[2], vs[3]),
        (vs[3], vs[4]),
        (vs[0], vs[4]),
        (vs[1], vs[3]),
    )


del CALLS[:]
cp = custom_params(
    [2, 3, 2, 2, 2, 2, 1],
    [
        names_of("2-clique"),
        names_of("3-clique", "3-clique", "3-clique"),
        names_of("do", "do", "do", "do", "di"),
        names_of("p01", "p12", "p23", "p34", "p40", "p13"),
    ],
    [logged(bare_edge, "b"), logged(tri, "t"), logged(diamond, "d"), logged(pentagon, "p")],
    [[0], [1], [2, 3], [4, 5, 6]],
)
alg = GCMAlgorithmCustomMotifs(cp)
jb = repr(test_jds)
for rep in range(4):
    seed(200 + rep // 2)
    tag = "custom[test.%d]" % rep
    el = run(tag, lambda: alg.random_clustered_graph(test_jds))
    show_el(tag, el)
    print(tag, "all", repr(list(zip(el.edge_list, el.topologies, el.motif_id))))
    print(tag, "calls", len(CALLS), h(CALLS))
print("custom[test] inputs-unchanged", repr(test_jds) == jb,
      repr(cp[N.MOTIF_INDICES]), repr(cp[N.MOTIF_SIZES]))

# exactly-two-edge motifs (tuple-of-tuples, list-of-lists), single bare edge as list
for name, b, nm in [
    ("two-tuples", two_edges, names_of("w1", "w2")),
    ("two-lists", two_edges_list, names_of("w1", "w2")),
    ("two-names-list", two_edges, lambda: ["w1", "w2"]),
]:
    seed(21)
    jds = make_jds(12, 1, 33, 2)
    # make stub total divisible by 3
    tot = sum(j[0] for j in jds)
    jds[0] = (jds[0][0] + (-tot) % 3,)
    alg = GCMAlgorithmCustomMotifs(custom_params([3], [nm], [b], [[0]]))
    el = run("custom[%s]" % name, lambda: alg.random_clustered_graph(jds))
    if el is not None:
        show_el("custom[%s]" % name, el)
        print("custom[%s]" % name, "all",
              repr(list(zip(el.edge_list, el.topologies, el.motif_id))))

seed(22)
jds = make_jds(9, 1, 34, 2)
jds[0] = (jds[0][0] + sum(j[0] for j in jds) % 2,)
alg = GCMAlgorithmCustomMotifs(
    custom_params([2], [names_of("e")], [lambda vs: [vs[0], vs[1]]], [[0]])
)
el = run("custom[bare-list]", lambda: alg.random_clustered_graph(jds))
if el is not None:
    show_el("custom[bare-list]", el)
    print("custom[bare-list] all", repr(list(zip(el.edge_list, el.topologies, el.motif_id))))

# bare edge with a name callback returning a tuple of one name; string name extend in else branch
alg = GCMAlgorithmCustomMotifs(
    custom_params([3], [names_of("abc")], [tri], [[0]])
)
seed(23)
jds = [(1,), (1,), (1,), (2,), (2,), (2,)]
el = run("custom[str-names]", lambda: alg.random_clustered_graph(jds))
if el is not None:
    show_el("custom[str-names]", el)

# empty jds, empty motif indices, zero-degree
alg = GCMAlgorithmCustomMotifs(cp)
run("custom[empty]", lambda: alg.random_clustered_graph([]))
alg = GCMAlgorithmCustomMotifs(custom_params([2], [names_of("e")], [bare_edge], []))
el = run("custom[no-indices]", lambda: alg.random_clustered_graph([(1,), (1,)]))
if el is not None:
    show_el("custom[no-indices]", el)
alg = GCMAlgorithmCustomMotifs(custom_params([2], [names_of("e")], [bare_edge], [[0]]))
el = run("custom[zeros]", lambda: alg.random_clustered_graph([(0,), (0,)]))
if el is not None:
    show_el("custom[zeros]", el)

# odd stub count: last partition short -> builder sees too few vertices
seed(24)
el = run("custom[odd]", lambda: alg.random_clustered_graph([(1,), (1,), (1,)]))
if el is not None:
    show_el("custom[odd]", el)
# orbit mismatch: second orbit runs out of partitions -> IndexError from pop
alg2 = GCMAlgorithmCustomMotifs(
    custom_params([2, 2], [names_of("do", "do", "do", "do", "di")], [diamond], [[0, 1]])
)
seed(25)
run("custom[orbit-short]", lambda: alg2.random_clustered_graph([(1, 1), (1, 1), (1, 0), (1, 0)]))
seed(25)
el = run("custom[orbit-long]", lambda: alg2.random_clustered_graph([(1, 1), (1, 1), (0, 1), (0, 1)]))
if el is not None:
    show_el("custom[orbit-long]", el)
# builder raising, names callback missing / not callable, bad inputs
alg3 = GCMAlgorithmCustomMotifs(custom_params([2], [names_of("e")], [boom], [[0]]))
run("custom[boom]", lambda: alg3.random_clustered_graph([(1,), (1,)]))
alg4 = GCMAlgorithmCustomMotifs(custom_params([2], ["e"], [bare_edge], [[0]]))
run("custom[name-not-callable]", lambda: alg4.random_clustered_graph([(1,), (1,)]))
alg5 = GCMAlgorithmCustomMotifs(custom_params([2], [], [bare_edge], [[0]]))
run("custom[no-names]", lambda: alg5.random_clustered_graph([(1,), (1,)]))
alg6 = GCMAlgorithmCustomMotifs(custom_params([2], [names_of("e")], [gen_builder], [[0]]))
run("custom[gen]", lambda: alg6.random_clustered_graph([(1,), (1,)]))
alg7 = GCMAlgorithmCustomMotifs(custom_params([2], [names_of("e")], [lambda vs: ()], [[0]]))
el = run("custom[no-edges]", lambda: alg7.random_clustered_graph([(1,), (1,)]))
if el is not None:
    show_el("custom[no-edges]", el)
alg8 = GCMAlgorithmCustomMotifs(custom_params([2], [names_of("e")], [lambda vs: (1, "x")], [[0]]))
el = run("custom[pair-of-scalars]", lambda: alg8.random_clustered_graph([(1,), (1,)]))
if el is not None:
    show_el("custom[pair-of-scalars]", el)
alg9 = GCMAlgorithmCustomMotifs(custom_params([0], [names_of("e")], [bare_edge], [[0]]))
run("custom[size0]", lambda: alg9.random_clustered_graph([(1,), (1,)]))
run("custom[None]", lambda: alg.random_clustered_graph(None))
run("custom[ints]", lambda: alg.random_clustered_graph([1, 2]))
run("custom[noargs]", lambda: alg.random_clustered_graph())
run("custom[kw]", lambda: show_el("custom[kw]", alg.random_clustered_graph(jds=[(1,), (1,)])))
run("custom[bad-index]", lambda: GCMAlgorithmCustomMotifs(
    custom_params([2], [names_of("e")], [bare_edge], [[3]])).random_clustered_graph([(1,), (1,)]))
run("custom[empty-index]", lambda: GCMAlgorithmCustomMotifs(
    custom_params([2], [names_of("e")], [bare_edge], [[]])).random_clustered_graph([(1,), (1,)]))
run("custom[ctor-missing]", lambda: GCMAlgorithmCustomMotifs(
    fast_params([2], ["e"], [bare_edge])))
run("custom[ctor-none]", lambda: GCMAlgorithmCustomMotifs(None))

# partition (existing public method) incl. edge cases; input not mutated
alg = GCMAlgorithmCustomMotifs(cp)
for lst, n in [([], 2), ([1], 2), ([1, 2, 3, 4], 2), ([1, 2, 3, 4, 5], 2),
               (list(range(10)), 3), ([1, 2, 3], 5), ("abcdefg", 3), ((1, 2, 3), 2),
               ([1, 2], 0), ([1, 2], -1), ([1, 2], 1.5), (None, 2), (5, 1)]:
    before = repr(lst)
    r = run("partition[%r,%r]" % (lst, n), lambda: alg.partition(lst, n))
    print("partition", repr(r), repr(lst) == before)
r = alg.partition([1, 2, 3, 4], 2)
print("partition-fresh", r is not alg.partition([1, 2, 3, 4], 2), type(r).__name__)
run("partition[kw]", lambda: print(alg.partition(lst=[1, 2, 3], n=2)))
run("partition[extra]", lambda: print(alg.partition([1, 2, 3], 2, 3, 4)))


# subclass overriding partition and the id sequence; the body must still use them
class Sub(GCMAlgorithmCustomMotifs):
    def partition(self, lst, n):
        CALLS.append(("partition", len(lst), n))
        return [lst[i: i + n] for i in range(0, len(lst), n)][::-1]

    def infinite_sequence(self):
        k = 0
        while True:
            CALLS.append(("id", k))
            yield -k
            k += 1


del CALLS[:]
seed(26)
el = run("custom[sub]", lambda: Sub(cp).random_clustered_graph(test_jds))
show_el("custom[sub]", el)
print("custom[sub] calls", len(CALLS), h(CALLS), repr(CALLS[:12]))

# class / instance surface that existed before
inst = GCMAlgorithmCustomMotifs(cp)
print("inst-dict", sorted(vars(inst).keys()))
print("fast-inst-dict", sorted(vars(GCMAlgorithmFast(p)).keys()))

# =================================================================== EDGE LIST
print("== EDGELIST")
el = LightWeightEdgeList()
print("fresh", el.edge_list, el.topologies, el.joint_degrees, el.motif_id, bool(el))
print("fresh-dict", sorted(vars(el).items()))
print("distinct", el.edge_list is not el.topologies, el.edge_list is not LightWeightEdgeList().edge_list)
a, b, c, d = [(0, 1)], ["x"], [(1,), (1,)], [0]
el.edge_list = a
el.topologies = b
el.joint_degrees = c
el.motif_id = d
print("set", el.edge_list is a, el.topologies is b, el.joint_degrees is c, el.motif_id is d)
el.edge_list.append((1, 2))
print("alias", a, el._edge_list)
el.edge_list = None
el.motif_id = "abc"
print("odd", el.edge_list, el.motif_id, sorted(vars(el).items(), key=repr))
run("el-ctor-arg", lambda: LightWeightEdgeList(1))
run("el-del", lambda: delattr(el, "edge_list"))
print("el-eq", LightWeightEdgeList() == LightWeightEdgeList(), el == el,
      isinstance(hash(el), int))
e2 = LightWeightEdgeList()
e2.edge_list = [(0, 1), (1, 2)]
e2.topologies = ["a", "b"]
e2.motif_id = [0, 1]
e2.joint_degrees = [(1,), (2,), (1,)]
net = run("el2net", lambda: EdgeListToNetwork.convert(e2))
print("el2net", sorted(net.G.edges(data=True), key=repr), sorted(net.G.nodes(data=True), key=repr))
back = run("net2el", lambda: NetworkToEdgeList.convert(net))
show_el("net2el", back)
print("final-rng", rng_state())
