"""
Equivalence digest for the C14 commit (mixing-matrix marginals).

Run with cwd = a gcmpy checkout. Exercises, through their PRE-EXISTING
signatures only, every function the commit touched:
  JointExcessJointDegreeMatrices.__init__ / get_excess_degree_keys
  JointExcessFromEjk.get_excess_joint_distributions(ejks)
plus the immediate consumers (JointDegreeFromExcess, network-derived ejks).
Prints a deterministic digest: bit-exact floats (repr), dict/list order,
exception types, mutated inputs, RNG state afterwards.
"""
import os
import sys

if os.environ.get("PYTHONHASHSEED") != "0":
    os.environ["PYTHONHASHSEED"] = "0"
    os.execv(sys.executable, [sys.executable] + sys.argv)

sys.path.insert(0, ".")

import copy  # noqa: E402
import hashlib  # noqa: E402
import random  # noqa: E402
import warnings  # noqa: E402
from fractions import Fraction  # noqa: E402

warnings.filterwarnings("ignore")

import numpy as np  # noqa: E402

from gcmpy.names.tools_names import ToolsNames  # noqa: E402
from gcmpy.tools.joint_excess_from_ejk import JointExcessFromEjk  # noqa: E402
from gcmpy.tools.joint_excess_joint_degree_matrices import (  # noqa: E402
    JointExcessJointDegreeMatrices,
)
from gcmpy.tools.joint_degree_from_excess import JointDegreeFromExcess  # noqa: E402

random.seed(20261004)
np.random.seed(20261004)


def show(x):
    """Order-preserving, bit-exact rendering."""
    if isinstance(x, dict):
        return "{" + ", ".join(f"{show(k)}: {show(v)}" for k, v in x.items()) + "}"
    if isinstance(x, (list, tuple)):
        o, c = ("[", "]") if isinstance(x, list) else ("(", ")")
        return o + ", ".join(show(v) for v in x) + c
    if isinstance(x, frozenset):
        return "frozenset(" + show(sorted(x)) + ")"
    if isinstance(x, float):
        return "f:" + repr(x) + ":" + x.hex()
    return type(x).__name__ + ":" + repr(x)


def rng_state():
    h = hashlib.sha256()
    h.update(repr(random.getstate()).encode())
    st = np.random.get_state()
    h.update(repr((st[0], st[1].tolist(), st[2], st[3], st[4])).encode())
    return h.hexdigest()


def attempt(label, fn):
    try:
        out = fn()
        print(f"{label} -> {show(out)}")
        return out
    except BaseException as e:  # noqa: BLE001
        print(f"{label} !! {type(e).__name__}")
        return None


def run_case(label, ejks_by_name, names, invert=True):
    print(f"=== {label}")
    snapshot = copy.deepcopy(ejks_by_name)
    names_snapshot = copy.deepcopy(names)
    params = {ToolsNames.EJKS: ejks_by_name, ToolsNames.EDGE_NAMES: names}
    box = {}

    def build():
        box["m"] = JointExcessJointDegreeMatrices(params)
        return box["m"]._excess_degree_keys

    attempt("construct/keys", build)
    m = box.get("m")
    if m is None:
        print("inputs-mutated", show(ejks_by_name) != show(snapshot))
        return
    print("ejks is input object:", m._ejks is ejks_by_name, m.ejks is ejks_by_name)
    print("names:", show(m.topology_names), m.topology_names is names)
    print("prop keys same obj:", m.excess_degree_keys is m._excess_degree_keys)
    for rep in range(3):
        qks = attempt(
            f"qks call {rep}",
            lambda: JointExcessFromEjk.get_excess_joint_distributions(m),
        )
        if qks is not None:
            for name in qks:
                print("   sum", show(name), show(sum(qks[name].values())))
    # keyword form of the old signature
    attempt(
        "qks kw", lambda: JointExcessFromEjk.get_excess_joint_distributions(ejks=m)
    )
    # recompute keys on the same object, then again
    attempt("rekey", lambda: (m.get_excess_degree_keys(), m._excess_degree_keys)[1])
    attempt(
        "qks after rekey",
        lambda: JointExcessFromEjk.get_excess_joint_distributions(m),
    )
    for n in list(names) + ["no-such-topology"]:
        attempt(f"index {n!r}", lambda n=n: m.get_topology_index(n))
    if invert and qks:
        attempt(
            "invert",
            lambda: JointDegreeFromExcess.get_joint_degree_distribution(
                qks, list(names)
            ),
        )
    print("inputs-mutated", show(ejks_by_name) != show(snapshot),
          show(names) != show(names_snapshot))
    print("rng", rng_state())


# ---------------------------------------------------------------- cases
q = {(0, 3): 1 / 9, (4, 1): 5 / 9, (2, 2): 3 / 9}
symmetric = {j + k: q[j] * q[k] for j in q for k in q}
run_case("symmetric single", {"2-clique": symmetric}, ["2-clique"])

a = {(0, 3): 0.1, (4, 1): 0.6, (2, 2): 0.3}
b = {(0, 3): 0.5, (4, 1): 0.2, (2, 2): 0.3}
product = {j + k: a[j] * b[k] for j in a for k in b}
sparse = {
    (1, 0, 1, 0): 0.10,
    (1, 0, 0, 2): 0.35,
    (0, 2, 1, 0): 0.05,
    (0, 2, 0, 2): 0.20,
    (3, 1, 1, 0): 0.30,
}
run_case(
    "asymmetric product + sparse",
    {"2-clique-blue": product, "3-clique-red": sparse},
    ["2-clique-blue", "3-clique-red"],
)

# float summation order matters here
cancel = {
    (0, 1, 0, 1): 1e16,
    (0, 1, 1, 0): 1.0,
    (0, 1, 2, 2): -1e16,
    (0, 1, 3, 3): 1.0,
    (1, 0, 0, 1): 0.1,
    (1, 0, 1, 0): 0.2,
    (1, 0, 2, 2): 0.3,
    (2, 2, 3, 3): 1e-320,
    (3, 3, 0, 1): 0.7,
    (3, 3, 3, 3): 1e-17,
}
run_case("cancellation / order", {"t": cancel}, ["t"], invert=False)

# random asymmetric matrices, three topologies
rng = random.Random(7)
big = {}
names3 = ["2-clique", "3-clique", "4-clique"]
for name in names3:
    degs = [tuple(rng.randrange(0, 6) for _ in range(3)) for _ in range(9)]
    mat = {}
    for _ in range(40):
        mat[rng.choice(degs) + rng.choice(degs)] = rng.random()
    tot = sum(mat.values())
    big[name] = {k: v / tot for k, v in mat.items()}
run_case("random three topologies", big, names3)

# only left-ends / only right-ends ever appear; zero and negative masses
run_case(
    "one-sided, zeros, negatives",
    {"x": {(0, 1, 2, 3): 0.0, (0, 1, 4, 5): -0.25, (6, 7, 2, 3): 1.25}},
    ["x"],
    invert=False,
)

# int / Fraction / numpy masses
run_case(
    "non-float masses",
    {
        "i": {(0, 0): 1, (0, 1): 2, (1, 0): 3},
        "f": {(0, 0): Fraction(1, 3), (0, 1): Fraction(2, 3)},
        "n": {(1, 2): np.float32(0.5), (2, 1): np.float64(0.5)},
    },
    ["i", "f", "n"],
    invert=False,
)

# degenerate shapes
run_case("no topologies", {}, [], invert=False)
run_case("empty matrix", {"e": {}}, ["e"], invert=False)
run_case("empty + full", {"e": {}, "s": dict(sparse)}, ["e", "s"], invert=False)
run_case("empty-tuple key", {"z": {(): 1.0}}, ["z"], invert=False)
run_case("odd-length keys", {"o": {(1, 2, 3): 0.5, (4, 5, 6, 7, 8): 0.5}}, ["o"],
         invert=False)
run_case("mixed-length keys", {"m": {(1, 2): 0.5, (1, 2, 1, 2): 0.25, (1, 1, 2, 2): 0.25}},
         ["m"], invert=False)
run_case("names/ejks mismatch", {"a": dict(symmetric)}, ["b", "c"], invert=False)

# unusual but hashable key types
run_case("str keys", {"s": {"abcd": 0.25, "cdab": 0.75, "abab": 1.0}}, ["s"],
         invert=False)
run_case("bytes keys", {"b": {b"\x01\x02\x01\x02": 0.5, b"\x03\x04\x01\x02": 0.5}},
         ["b"], invert=False)
run_case("range keys", {"r": {range(4): 0.5, range(2, 6): 0.5}}, ["r"], invert=False)
run_case("frozenset key", {"fs": {frozenset([1, 2]): 1.0}}, ["fs"], invert=False)
run_case("int key", {"k": {5: 1.0}}, ["k"], invert=False)
run_case("None key", {"k": {None: 1.0}}, ["k"], invert=False)
run_case("list-valued matrix", {"l": [(0, 1, 0, 1), (2, 3, 0, 1)]}, ["l"],
         invert=False)
run_case("non-dict ejks", [("a", 1)], ["a"], invert=False)

# params error paths
print("=== params errors")
attempt("params {}", lambda: JointExcessJointDegreeMatrices({}))
attempt(
    "params no names",
    lambda: JointExcessJointDegreeMatrices({ToolsNames.EJKS: {"a": {}}}),
)
attempt("params None", lambda: vars(JointExcessJointDegreeMatrices(None)))
attempt("no params", lambda: vars(JointExcessJointDegreeMatrices()))

# hand-assembled object, as the test-suite does it
print("=== hand assembled")
ejk_tree = {
    (0, 3, 0, 3): 1 / 81, (0, 3, 4, 1): 5 / 81, (0, 3, 2, 2): 3 / 81,
    (4, 1, 0, 3): 5 / 81, (4, 1, 4, 1): 25 / 81, (4, 1, 2, 2): 15 / 81,
    (2, 2, 0, 3): 3 / 81, (2, 2, 4, 1): 15 / 81, (2, 2, 2, 2): 9 / 81,
}
ejk_tri = {
    (3, 1, 3, 1): 16 / 144, (3, 1, 1, 2): 24 / 144, (3, 1, 5, 0): 8 / 144,
    (1, 2, 3, 1): 24 / 144, (1, 2, 1, 2): 36 / 144, (1, 2, 5, 0): 12 / 144,
    (5, 0, 3, 1): 8 / 144, (5, 0, 1, 2): 12 / 144, (5, 0, 5, 0): 4 / 144,
}
m = JointExcessJointDegreeMatrices()
m._ejks = {"2-clique": ejk_tree, "3-clique": ejk_tri}
m._excess_degree_keys = {
    "2-clique": [(0, 3), (4, 1), (2, 2)],
    "3-clique": [(3, 1), (1, 2), (5, 0)],
}
qks = attempt("qks", lambda: JointExcessFromEjk.get_excess_joint_distributions(m))
attempt(
    "invert",
    lambda: JointDegreeFromExcess.get_joint_degree_distribution(
        qks, ["2-clique", "3-clique"]
    ),
)
# registered keys: subset, superset, duplicates, reordered, tuple container
for lab, keys in [
    ("subset", [(4, 1), (0, 3)]),
    ("superset", [(9, 9), (2, 2), (4, 1), (0, 3), (7, 7)]),
    ("duplicates", [(0, 3), (0, 3), (4, 1)]),
    ("tuple container", ((2, 2), (0, 3))),
    ("empty", []),
    ("set container", {(0, 3), (4, 1), (2, 2)}),
    ("bad element", [(0, 3), 5]),
    ("list elements", [[0, 3], [4, 1]]),
]:
    m._excess_degree_keys["2-clique"] = keys
    attempt(
        f"keys {lab}", lambda: JointExcessFromEjk.get_excess_joint_distributions(m)
    )
m._excess_degree_keys["2-clique"] = [(0, 3), (4, 1), (2, 2)]
# setters / properties
m.excess_degree_keys = {"2-clique": [(2, 2)], "3-clique": [(5, 0), (3, 1)]}
m.topology_names = ["2-clique", "3-clique"]
attempt("after setter", lambda: JointExcessFromEjk.get_excess_joint_distributions(m))
# length mismatch -> raise of a str
m.excess_degree_keys = {"2-clique": [(2, 2)]}
attempt("len mismatch", lambda: JointExcessFromEjk.get_excess_joint_distributions(m))
# same length, wrong names -> KeyError
m.excess_degree_keys = {"2-clique": [(2, 2)], "other": []}
attempt("name mismatch", lambda: JointExcessFromEjk.get_excess_joint_distributions(m))
# first topology fine, second broken: partial work then error
m.excess_degree_keys = {"2-clique": [(2, 2)], "3-clique": None}
attempt("None keys", lambda: JointExcessFromEjk.get_excess_joint_distributions(m))
m.ejks = {"2-clique": None}
m.excess_degree_keys = {"2-clique": [(2, 2)]}
attempt("None matrix", lambda: JointExcessFromEjk.get_excess_joint_distributions(m))
m.ejks = {"2-clique": None}
m.excess_degree_keys = {"2-clique": []}
attempt("None matrix no keys",
        lambda: JointExcessFromEjk.get_excess_joint_distributions(m))
attempt("not a matrices object",
        lambda: JointExcessFromEjk.get_excess_joint_distributions({"a": 1}))
attempt("None object", lambda: JointExcessFromEjk.get_excess_joint_distributions(None))
attempt("no args", lambda: JointExcessFromEjk.get_excess_joint_distributions())
attempt("rekey on None matrix", lambda: m.get_excess_degree_keys())
print("rng", rng_state())

# a defaultdict matrix: lookups must not insert entries
print("=== defaultdict matrix")
from collections import defaultdict  # noqa: E402

dd = defaultdict(float, {(0, 1, 1, 0): 0.5, (1, 0, 0, 1): 0.25, (1, 0, 1, 0): 0.25})
run_case("defaultdict", {"d": dd}, ["d"], invert=False)
print("defaultdict len", len(dd), show(dict(dd)))

# network-derived matrices (symmetrised) through the public pipeline
print("=== network derived")


def network_case():
    from gcmpy.gcm_algorithm.gcm_algorithm_network import GCMAlgorithmNetwork
    from gcmpy.joint_degree.joint_degree_loaders.joint_degree_manual import (
        JointDegreeManual,
    )
    from gcmpy.motif_generators.clique_motif import clique_motif
    from gcmpy.names.gcm_algorithm_names import GCMAlgorithmNames
    from gcmpy.names.joint_degree_names import JointDegreeNames
    from gcmpy.tools.joint_excess_joint_degree import JointExcessJointDegree

    names = ["2-clique", "3-clique"]
    jdd = {(5, 1): 1 / 3, (3, 2): 1 / 3, (1, 3): 1 / 3}
    jds = JointDegreeManual(
        {JointDegreeNames.JDD: jdd, JointDegreeNames.MOTIF_SIZES: [2, 3]}
    ).sample_jds_from_jdd(600)
    g = GCMAlgorithmNetwork(
        {
            GCMAlgorithmNames.MOTIF_SIZES: [2, 3],
            GCMAlgorithmNames.EDGE_NAMES: names,
            GCMAlgorithmNames.BUILD_FUNCTIONS: [clique_motif, clique_motif],
        }
    ).random_clustered_graph(jds)
    C = JointExcessJointDegree(
        {ToolsNames.NETWORK: g._G, ToolsNames.EDGE_NAMES: names}
    )
    ejks = C.get_ejks()
    out = []
    for rep in range(2):
        qks = JointExcessFromEjk.get_excess_joint_distributions(ejks)
        out.append({n: sorted(qks[n].items()) for n in qks})
        out.append({n: list(qks[n]) == [k for k in ejks.excess_degree_keys[n]
                                        if k in qks[n]] for n in qks})
    out.append([ejks.get_topology_index(n) for n in names])
    # the same matrices through the params constructor
    m2 = JointExcessJointDegreeMatrices(
        {ToolsNames.EJKS: ejks.ejks, ToolsNames.EDGE_NAMES: names}
    )
    q2 = JointExcessFromEjk.get_excess_joint_distributions(m2)
    out.append({n: sorted(q2[n].items()) for n in q2})
    out.append({n: sorted(m2.excess_degree_keys[n]) for n in names})
    return out


attempt("network", network_case)
print("final rng", rng_state())
print("random next", show(random.random()), show(float(np.random.random())))
