import sys, os; sys.path.insert(0, os.getcwd())
import hashlib
import random

import networkx as nx
import numpy as np

from gcmpy.tools.joint_excess_joint_degree import JointExcessJointDegree
from gcmpy.joint_degree.joint_degree_loaders.joint_degree_manual import JointDegreeManual
from gcmpy.motif_generators.clique_motif import clique_motif
from gcmpy.gcm_algorithm.gcm_algorithm_network import GCMAlgorithmNetwork
from gcmpy.names.gcm_algorithm_names import GCMAlgorithmNames
from gcmpy.names.joint_degree_names import JointDegreeNames
from gcmpy.names.network_names import NetworkNames
from gcmpy.names.tools_names import ToolsNames

random.seed(2613)
np.random.seed(2613)
JD = NetworkNames.JOINT_DEGREE
TOP = NetworkNames.TOPOLOGY


def rng_digest():
    a = hashlib.sha256(repr(random.getstate()).encode()).hexdigest()[:16]
    s = np.random.get_state()
    b = hashlib.sha256(repr((s[0], s[1].tolist(), s[2], s[3], s[4])).encode()).hexdigest()[:16]
    return a, b


def show_counts(C):
    d = C._num_edges
    return (type(d).__name__, [(repr(k), type(v).__name__, v) for k, v in d.items()])


def show_ejks(M):
    out = []
    for t, m in M.ejks.items():
        items = [(k, float(v).hex()) for k, v in m.items()]
        out.append((repr(t), len(items), hashlib.sha256(repr(items).encode()).hexdigest()[:16], items[:3]))
    return out


def annotate(G, names):
    """joint degree of a vertex = number of incident edges per topology name"""
    for n in G.nodes():
        G.nodes[n][JD] = [0] * len(names)
    for u, v in G.edges():
        t = G.edges[u, v].get(TOP)
        if t in names:
            i = names.index(t)
            G.nodes[u][JD][i] += 1
            if u != v:
                G.nodes[v][JD][i] += 1
    for n in G.nodes():
        G.nodes[n][JD] = tuple(G.nodes[n][JD])
    return G


def run(label, G, names, calls=("count", "ejks", "count", "ejks")):
    try:
        C = JointExcessJointDegree({ToolsNames.NETWORK: G, ToolsNames.EDGE_NAMES: names})
    except BaseException as ex:
        print(label, "INIT_EXC", type(ex).__name__, repr(ex.args)[:100])
        return None
    print(label, "init", show_counts(C))
    for c in calls:
        try:
            if c == "count":
                r = C.count_edge_types()
                print(label, "count ->", r, show_counts(C))
            else:
                M = C.get_ejks()
                print(label, "ejks", show_counts(C), show_ejks(M),
                      {repr(k): sorted(v) for k, v in M.excess_degree_keys.items()}.__repr__()[:200])
        except BaseException as ex:
            print(label, c, "EXC", type(ex).__name__, repr(ex.args)[:100], show_counts(C))
    return C


class Key:
    """equal hashes, counts every comparison"""
    log = []

    def __init__(self, name):
        self.name = name

    def __hash__(self):
        Key.log.append(("h", self.name))
        return 7

    def __eq__(self, other):
        Key.log.append(("e", self.name, getattr(other, "name", other)))
        return isinstance(other, Key) and self.name.lower() == other.name.lower()

    def __repr__(self):
        return "Key(%s)" % self.name


# --- networks from the library's own generator ---------------------------
for trial, (jdd, sizes, names, n) in enumerate([
    ({(5, 1): 1 / 3, (3, 2): 1 / 3, (1, 3): 1 / 3}, [2, 3], ["2-clique", "3-clique"], 600),
    ({(2, 0): 0.5, (1, 1): 0.25, (0, 2): 0.25}, [2, 3], ["t", "tri"], 300),
    ({(3,): 0.5, (1,): 0.5}, [2], ["e"], 200),
    ({(1, 1, 1): 0.5, (2, 0, 1): 0.5}, [2, 3, 4], ["a", "b", "c"], 240),
]):
    jds = JointDegreeManual({JointDegreeNames.JDD: jdd, JointDegreeNames.MOTIF_SIZES: sizes}).sample_jds_from_jdd(n)
    g = GCMAlgorithmNetwork({
        GCMAlgorithmNames.MOTIF_SIZES: sizes,
        GCMAlgorithmNames.EDGE_NAMES: names,
        GCMAlgorithmNames.BUILD_FUNCTIONS: [clique_motif] * len(sizes),
    }).random_clustered_graph(jds)
    run("gcm%d" % trial, g._G, names)
    run("gcm%d_reversed_names" % trial, g._G, names[::-1], calls=("count", "ejks"))
    run("gcm%d_missing_name" % trial, g._G, names[:1] + ["nope"], calls=("ejks", "ejks"))
    print("rng after gcm%d" % trial, rng_digest())

# --- hand-made networks -------------------------------------------------------
def mk(edges, cls=nx.Graph):
    G = cls()
    for u, v, t in edges:
        G.add_edge(u, v, **{})
        G.edges[u, v][TOP] = t
    return G


names = ["x", "y"]
run("empty", annotate(nx.Graph(), names), names)
g = nx.Graph(); g.add_nodes_from(range(3)); run("edgeless", annotate(g, names), names)
run("one", annotate(mk([(0, 1, "x")]), names), names)
run("order_yx", annotate(mk([(0, 1, "y"), (1, 2, "x"), (2, 3, "y"), (3, 0, "x"), (0, 2, "y")]), names), names)
run("selfloop", annotate(mk([(0, 0, "x"), (0, 1, "y"), (1, 1, "y")]), names), names)
run("unknown_topology", annotate(mk([(0, 1, "x"), (1, 2, "z"), (2, 3, "z"), (3, 4, None)]), names), names)
run("digraph", annotate(mk([(0, 1, "x"), (1, 0, "y"), (1, 2, "x")], nx.DiGraph), names), names)
# equal-but-distinct keys: 1 == 1.0 == True share one slot, first object is kept as key
g = mk([(0, 1, 1), (1, 2, 1.0), (2, 3, True), (3, 4, 2), (4, 5, 2.0), (5, 6, "1")])
run("num_keys", annotate(g, [1, 2]), [1, 2])
g = mk([(0, 1, (1, 2)), (1, 2, (1, 2)), (2, 3, frozenset([1])), (3, 4, NetworkNames.TOPOLOGY)])
run("tuple_keys", annotate(g, [(1, 2), frozenset([1])]), [(1, 2), frozenset([1])])
# topology attribute missing on a later edge: KeyError half-way, partial counts stay
g = mk([(0, 1, "x"), (1, 2, "y"), (2, 3, "x")]); annotate(g, names); g.add_edge(3, 4); g.add_edge(4, 5)
g.edges[4, 5][TOP] = "y"
for n_ in (3, 4, 5):
    g.nodes[n_][JD] = (1, 1)
run("missing_attr", g, names)
# string key "topology" instead of the enum member
g = nx.Graph(); g.add_edge(0, 1, topology="x"); g.nodes[0][JD] = (1, 0); g.nodes[1][JD] = (1, 0)
run("plain_str_attr", g, names)
# unhashable topology on the second edge
g = mk([(0, 1, "x"), (1, 2, ["y"]), (2, 3, "x")])
for n_ in g.nodes():
    g.nodes[n_][JD] = (1, 1)
run("unhashable", g, names)
g = mk([(0, 1, {"a": 1})])
for n_ in g.nodes():
    g.nodes[n_][JD] = (1, 1)
run("unhashable_first", g, names)
# multigraph: EdgeView subscription cannot take the 2-tuples
g = nx.MultiGraph(); g.add_edge(0, 1); g.nodes[0][JD] = (1, 0); g.nodes[1][JD] = (1, 0)
run("multigraph", g, names)
# not a network at all
run("none_graph", None, names)
run("names_none", annotate(mk([(0, 1, "x")]), names), None)
# colliding, call-counting keys
Key.log = []
ka, kb, kc, ka2 = Key("a"), Key("b"), Key("c"), Key("A")
g = mk([(0, 1, ka), (1, 2, kb), (2, 3, ka2), (3, 4, kc), (4, 5, kb), (5, 0, Key("C"))])
for n_ in g.nodes():
    g.nodes[n_][JD] = (2, 2, 2)
C = JointExcessJointDegree({ToolsNames.NETWORK: g, ToolsNames.EDGE_NAMES: [ka, kb, kc]})
Key.log = []
C.count_edge_types()
print("keylog", len(Key.log), hashlib.sha256(repr(Key.log).encode()).hexdigest()[:16], Key.log[:12])
print("keylog counts", [(k.name, id(k) == id({"a": ka, "b": kb, "c": kc}[k.name.lower()]), v) for k, v in C._num_edges.items()])

# --- many random annotated graphs ---------------------------------------------
pool = ["a", "b", "c", "d", 0, 1, None, (1,), 1.0]
for t in range(80):
    n = random.randint(2, 30)
    k = random.randint(1, 4)
    names = random.sample(pool[:6], k)
    G = nx.gnp_random_graph(n, random.random() * 0.6, seed=random.randrange(10 ** 6), directed=(t % 5 == 0))
    for u, v in G.edges():
        G.edges[u, v][TOP] = random.choice(names if t % 3 else pool)
    if t % 7 == 0 and G.number_of_nodes():
        G.add_edge(0, 0); G.edges[0, 0][TOP] = names[0]
    annotate(G, names)
    C = run("rand%02d" % t, G, names, calls=("ejks", "count"))
    if C is not None and G.number_of_edges() and t % 4 == 0:
        # repeated use of one extractor after the network changed
        e = next(iter(G.edges()))
        G.remove_edge(*e)
        try:
            C.count_edge_types()
            print("rand%02d" % t, "after_removal", show_counts(C))
        except BaseException as ex:
            print("rand%02d" % t, "after_removal EXC", type(ex).__name__)

print("rng", rng_digest())
