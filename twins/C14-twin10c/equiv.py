import sys, os; sys.path.insert(0, os.getcwd())
import hashlib
import random

import numpy as np

from gcmpy import (
    JointExcessJointDegreeMatrices,
    JointExcessFromEjk,
    JointDegreeFromExcess,
    ToolsNames,
)

random.seed(31337)
np.random.seed(31337)

H = hashlib.sha256()


def emit(tag, value):
    line = f"{tag} :: {value}"
    H.update(line.encode())
    print(line)


def fx(v):
    return v.hex() if isinstance(v, float) else repr(v)


def show(d):
    if isinstance(d, dict):
        return [(repr(k), show(v)) for k, v in d.items()]
    if isinstance(d, (list, tuple)):
        return [show(x) for x in d]
    return fx(d)


def stable(keys_by_topology, ordered):
    # set order of tuples of ints is reproducible; anything containing str is not
    # (hash randomisation), so those cases are reported sorted
    if ordered:
        return show(keys_by_topology)
    return [(repr(t), sorted(map(repr, ks))) for t, ks in keys_by_topology.items()]


def run(tag, ejks, names, ordered=True, downstream=True):
    params = {ToolsNames.EJKS: ejks, ToolsNames.EDGE_NAMES: names}
    try:
        M = JointExcessJointDegreeMatrices(params)
    except BaseException as e:  # noqa
        emit(f"{tag} ctor EXC", type(e).__name__)
        # the same through the bare object + explicit call, to see partial state
        M = JointExcessJointDegreeMatrices()
        M.ejks = ejks
        M.topology_names = names
        try:
            M.get_excess_degree_keys()
        except BaseException as e2:  # noqa
            emit(f"{tag} method EXC", type(e2).__name__)
        emit(f"{tag} partial-state", stable(M.excess_degree_keys, ordered))
        return
    emit(f"{tag} keys", stable(M.excess_degree_keys, ordered))
    emit(f"{tag} same-object", M.ejks is ejks and M.topology_names is names)
    for rep in range(2):  # repeated calls on one object rebuild the table
        M.get_excess_degree_keys()
        emit(f"{tag} keys-again#{rep}", stable(M.excess_degree_keys, ordered))
    if not (downstream and ordered):
        return
    try:
        qks = JointExcessFromEjk.get_excess_joint_distributions(M)
        emit(f"{tag} qks", show(qks))
        emit(f"{tag} qks-sums", [fx(sum(q.values())) for q in qks.values()])
    except BaseException as e:  # noqa
        emit(f"{tag} qks EXC", type(e).__name__)
        return
    try:
        P = JointDegreeFromExcess.get_joint_degree_distribution(qks, names)
        emit(f"{tag} jdd", show(P))
    except BaseException as e:  # noqa
        emit(f"{tag} jdd EXC", type(e).__name__)


# the library's own matrices (test suite values)
ejk_tree = {
    (0, 3, 0, 3): 1 / 81, (0, 3, 4, 1): 5 / 81, (0, 3, 2, 2): 3 / 81,
    (4, 1, 0, 3): 5 / 81, (4, 1, 4, 1): 25 / 81, (4, 1, 2, 2): 15 / 81,
    (2, 2, 0, 3): 3 / 81, (2, 2, 4, 1): 15 / 81, (2, 2, 2, 2): 9 / 81,
}
ejk_triangle = {
    (3, 1, 3, 1): 16 / 144, (3, 1, 1, 2): 24 / 144, (3, 1, 5, 0): 8 / 144,
    (1, 2, 3, 1): 24 / 144, (1, 2, 1, 2): 36 / 144, (1, 2, 5, 0): 12 / 144,
    (5, 0, 3, 1): 8 / 144, (5, 0, 1, 2): 12 / 144, (5, 0, 5, 0): 4 / 144,
}
run("worked", {"2-clique": ejk_tree, "3-clique": ejk_triangle}, ["2-clique", "3-clique"])


def random_ejk(ntop, nexcess, maxdeg, symmetric=True, density=0.7):
    ex = set()
    while len(ex) < nexcess:
        ex.add(tuple(random.randint(0, maxdeg) for _ in range(ntop)))
    ex = sorted(ex)
    random.shuffle(ex)
    m = {}
    for a in ex:
        for b in ex:
            if random.random() < density:
                w = random.random()
                m[a + b] = w
                if symmetric:
                    m[b + a] = w
    t = sum(m.values())
    return {k: v / t for k, v in m.items()} if m else m


case = 0
for ntop in (1, 2, 3, 4, 5, 6):
    for nexcess in (1, 2, 4, 9):
        for symmetric in (True, False):
            case += 1
            names = [f"t{j}" for j in range(ntop)]
            ejks = {
                nm: random_ejk(ntop, min(nexcess, 3 ** ntop), 2, symmetric, 0.4 + 0.1 * (case % 6))
                for nm in names
            }
            run(f"rand-{case}-n{ntop}-x{nexcess}-{'s' if symmetric else 'a'}", ejks, names)

# key lengths: empty, one, odd, long; mixed lengths in one matrix
run("len0", {"a": {(): 1.0}}, ["a"])
run("len1", {"a": {(7,): 1.0}}, ["a"])
run("len2", {"a": {(7, 8): 1.0}}, ["a"])
run("len3", {"a": {(1, 2, 3): 0.5, (3, 2, 1): 0.5}}, ["a"])
run("len5", {"a": {(1, 2, 3, 4, 5): 1.0}}, ["a"])
run("len7", {"a": {tuple(range(7)): 0.25, tuple(range(7, 0, -1)): 0.75}}, ["a"])
run("len40", {"a": {tuple(range(40)): 1.0}}, ["a"])
run("len41", {"a": {tuple(range(41)): 1.0}}, ["a"])
run("mixed-lengths", {"a": {(1, 2): 0.1, (1, 2, 3): 0.2, (1, 2, 3, 4): 0.3, (): 0.4}}, ["a"])
run("negative-entries", {"a": {(-1, 0, 0, -1): 0.5, (0, -1, -1, 0): 0.5}}, ["a"])
run("bool-float-entries", {"a": {(True, 0.0, 1, False): 1.0}}, ["a"])
run("big-ints", {"a": {(2 ** 70, 1, 2 ** 70, 1): 1.0}}, ["a"])

# empty containers
run("no-topologies", {}, [])
run("empty-matrix", {"a": {}}, ["a"])
run("empty-and-full", {"a": {}, "b": {(0, 1, 0, 1): 1.0}}, ["a", "b"])
run("names-mismatch", {"a": {(0, 0): 1.0}}, ["a", "b"])

# matrices that are not dicts of tuples
run("list-matrix", {"a": [(1, 2, 3, 4), (3, 4, 1, 2)]}, ["a"])
run("set-matrix", {"a": {(1, 2, 3, 4)}}, ["a"])
run("str-keys", {"a": {"abcd": 1.0, "xyz": 2.0, "": 3.0}}, ["a"], ordered=False)
run("bytes-keys", {"a": {b"abcd": 1.0, b"xyz": 2.0}}, ["a"])
run("range-keys", {"a": {range(4): 1.0, range(5): 2.0}}, ["a"])
run("frozenset-keys", {"a": {frozenset({1}): 1.0}}, ["a"])
run("int-keys", {"a": {5: 1.0}}, ["a"])
run("none-keys", {"a": {None: 1.0}}, ["a"])
run("late-failure", {"a": {(1, 2): 1.0}, "b": {(3, 4): 1.0, 9: 1.0}, "c": {(5, 6): 1.0}}, ["a", "b", "c"])
run("unhashable-half", {"a": {(1, 2): 1.0}, "b": [[[1], 2, 3, 4]]}, ["a", "b"])
run("unhashable-second-half", {"a": [[1, 2, 3, [4]]]}, ["a"])
run("none-matrix", {"a": None}, ["a"])
run("ejks-none", None, ["a"])
run("ejks-list", [{(1, 2): 1.0}], ["a"])
run("numpy-keys", {"a": [np.arange(6), np.arange(5)]}, ["a"])
run("tuple-subclass", {"a": {type("T", (tuple,), {})((1, 2, 3, 4)): 1.0}}, ["a"])

# params errors in the constructor
for tag, params in (("no-ejks", {ToolsNames.EDGE_NAMES: ["a"]}),
                    ("no-names", {ToolsNames.EJKS: {"a": {(1, 2): 1.0}}}),
                    ("string-param-keys", {"ejks": {}, "edge_names": []}),
                    ("params-list", [1, 2])):
    try:
        M = JointExcessJointDegreeMatrices(params)
        emit(f"ctor-{tag}", show(M.excess_degree_keys))
    except BaseException as e:  # noqa
        emit(f"ctor-{tag} EXC", type(e).__name__)

# topology index look-ups on a constructed object
M = JointExcessJointDegreeMatrices(
    {ToolsNames.EJKS: {"2-clique": ejk_tree, "3-clique": ejk_triangle},
     ToolsNames.EDGE_NAMES: ["2-clique", "3-clique"]}
)
for t in ("2-clique", "3-clique", "4-clique"):
    try:
        emit(f"index-{t}", M.get_topology_index(t))
    except BaseException as e:  # noqa
        emit(f"index-{t} EXC", type(e).__name__)

emit("random-state", hashlib.sha256(repr(random.getstate()).encode()).hexdigest())
emit("numpy-state", hashlib.sha256(repr(np.random.get_state()).encode()).hexdigest())
print("DIGEST", H.hexdigest())
