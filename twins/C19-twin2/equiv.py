"""Equivalence digest for the C19 refactoring (gcmpy.distributions).

Run with cwd = a gcmpy checkout.  Prints a deterministic transcript of
results (bit-exact, with types), raised exceptions, emitted warnings, the RNG
states afterwards and the (unmutated) inputs.
"""
import hashlib
import os
import random
import sys
import warnings
from fractions import Fraction

sys.path.insert(0, os.getcwd())

import numpy as np

from gcmpy.distributions.exponential import exponential
from gcmpy.distributions.poisson import poisson
from gcmpy.distributions.power_law import power_law
from gcmpy.distributions.scale_free_cut_off import scale_free_cut_off
import gcmpy

random.seed(12345)
np.random.seed(12345)

LINES = []


def emit(*parts):
    line = " ".join(str(x) for x in parts)
    LINES.append(line)
    print(line)


def show(value):
    """Bit-exact, type-tagged rendering of a result."""
    tname = type(value).__module__ + "." + type(value).__name__
    if isinstance(value, np.ndarray) and value.dtype == object:
        # object arrays hold pointers: digest the elements, not the buffer
        return "%s[%s,%s]<%s>" % (
            tname,
            value.dtype,
            value.shape,
            ",".join(show(x) for x in value.ravel()),
        )
    if isinstance(value, np.ndarray):
        return "%s[%s,%s]<%s>" % (
            tname,
            value.dtype,
            value.shape,
            hashlib.sha256(np.ascontiguousarray(value).tobytes()).hexdigest()[:16]
            + "|"
            + ",".join(show_scalar(x) for x in value.ravel()[:6]),
        )
    return "%s<%s>" % (tname, show_scalar(value))


def show_scalar(value):
    if isinstance(value, (float, np.floating)):
        try:
            return float(value).hex() + "/" + repr(value)
        except Exception:  # pragma: no cover
            return repr(value)
    return repr(value)


def call(label, fn, *args):
    with warnings.catch_warnings(record=True) as caught:
        warnings.simplefilter("always")
        try:
            out = "OK " + show(fn(*args))
        except BaseException as exc:  # noqa: BLE001 - we record everything
            out = "EXC %s: %s" % (type(exc).__name__, exc)
        warned = ";".join(
            "%s:%s" % (w.category.__name__, w.message) for w in caught
        )
    emit(label, "->", out, "| warnings=[%s]" % warned)


INT_KS = [0, 1, 2, 3, 5, 10, 50, 170, 171, 500, 2000, -1, -3]
ODD_KS = [
    0.0,
    1.0,
    2.5,
    -0.5,
    True,
    np.int64(4),
    np.int32(7),
    np.float64(3.0),
    np.float32(2.0),
    Fraction(3, 2),
    float("inf"),
    float("nan"),
    "x",
    None,
    [1, 2],
    np.array([0, 1, 2, 3, 40]),
    np.array([1.0, 2.5, 7.0]),
    np.array([], dtype=int),
    np.array([[1, 2], [3, 4]]),
]


def krepr(k):
    if isinstance(k, np.ndarray):
        return "arr%s%s" % (k.dtype, k.tolist())
    return "%s:%r" % (type(k).__name__, k)


def exercise(name, factory, param_sets, extra_ks=()):
    for params in param_sets:
        label = "%s(%s)" % (name, ", ".join(repr(x) for x in params))
        with warnings.catch_warnings(record=True) as caught:
            warnings.simplefilter("always")
            try:
                p = factory(*params)
            except BaseException as exc:  # noqa: BLE001
                emit(label, "FACTORY-EXC %s: %s" % (type(exc).__name__, exc))
                continue
            warned = ";".join(
                "%s:%s" % (w.category.__name__, w.message) for w in caught
            )
        emit(
            label,
            "factory ok; name=%s qualname=%s warnings=[%s]"
            % (p.__name__, p.__qualname__, warned),
        )
        for k in INT_KS + ODD_KS + list(extra_ks):
            before = krepr(k)
            call("  %s.p(%s)" % (label, before), p, k)
            if krepr(k) != before:
                emit("  INPUT MUTATED", before, "->", krepr(k))
        # repeated call / call history: same closure, same answer
        call("  %s.p(3) again" % label, p, 3)
        # partial sums over the support
        for lo, hi in ((0, 60), (1, 60), (1, 400)):
            def partial():
                total = 0.0
                for k in range(lo, hi):
                    total += p(k)
                return total
            call("  %s sum[%d,%d)" % (label, lo, hi), partial)
        # a fresh closure from the same parameters gives the same values
        q = factory(*params)
        call("  %s fresh.p(4)" % label, q, 4)
        emit("  distinct closures:", p is not q)


exercise(
    "exponential",
    exponential,
    [
        (0.5,),
        (1.0,),
        (2,),
        (0.0,),
        (1e-9,),
        (50.0,),
        (800.0,),
        (-1.0,),
        (np.float64(0.3),),
        (np.float32(0.3),),
        (True,),
        (float("inf"),),
        (float("nan"),),
        ("a",),
        (None,),
        (np.array([0.5, 1.0]),),
    ],
    extra_ks=[10**400],
)

exercise("poisson", poisson, [(2.5,), (0.0,), (-2.0,)], extra_ks=[10**400])
exercise(
    "poisson",
    poisson,
    [
        (2.5,),
        (1.0,),
        (3,),
        (0.0,),
        (0,),
        (1e-9,),
        (100.0,),
        (800.0,),
        (-2.0,),
        (-2,),
        (np.float64(2.5),),
        (np.float32(2.5),),
        (np.int64(3),),
        (Fraction(5, 2),),
        (float("inf"),),
        (float("nan"),),
        ("a",),
        (None,),
        (np.array([1.0, 2.5]),),
    ],
)

exercise(
    "power_law",
    power_law,
    [
        (2.5,),
        (2.0,),
        (2,),
        (3,),
        (1.5,),
        (1.2,),
        (6.0,),
        (40.0,),
        (np.float64(2.5),),
        (np.float32(2.5),),
        (np.int64(3),),
        (Fraction(5, 2),),
        (float("inf"),),
        (1e400,),
        ("a",),
        (None,),
        ([2.5],),
    ],
    extra_ks=[10**400],
)

exercise(
    "scale_free_cut_off",
    scale_free_cut_off,
    [
        (2.5, 10.0),
        (2.0, 100.0),
        (2, 5),
        (3, 50),
        (1.0, 10.0),
        (0.5, 4.0),
        (0.0, 3.0),
        (-1.0, 2.0),
        (2.5, 0.01),
        (2.5, 1e-9),
        (2.5, 1e6),
        (2.5, 0.0),
        (2.5, 0),
        (np.float64(2.5), np.float64(10.0)),
        (np.float32(2.5), np.float32(10.0)),
        (np.int64(2), np.int64(10)),
        (Fraction(5, 2), 10.0),
        (2.5, Fraction(10, 1)),
        (float("inf"), 10.0),
        (2.5, float("inf")),
        ("a", 10.0),
        (2.5, "b"),
        (None, 10.0),
        (2.5, None),
    ],
    extra_ks=[10**400],
)

# The public re-exports are the very same functions.
import gcmpy.distributions as dist_pkg

for fname, fn in (
    ("exponential", exponential),
    ("poisson", poisson),
    ("power_law", power_law),
    ("scale_free_cut_off", scale_free_cut_off),
):
    emit(
        "export",
        fname,
        getattr(dist_pkg, fname) is fn,
        getattr(gcmpy, fname) is fn,
        fn.__name__,
        fn.__qualname__,
        fn.__module__,
    )

# The distributions as consumed by the library (marginal joint degree
# distribution built from callables) - exercises them through a real caller.
try:
    from gcmpy.joint_degree.joint_degree_loaders.joint_degree_marginal import (
        JointDegreeMarginal,
    )
    from gcmpy.names.joint_degree_names import JointDegreeNames

    for tag, fps in (
        ("poisson", [poisson(2.5)]),
        ("power_law", [power_law(2.5)]),
        ("scale_free", [scale_free_cut_off(2.5, 10.0)]),
        ("exp+poisson", [exponential(0.7), poisson(1.5)]),
    ):
        params = {}
        params[JointDegreeNames.MOTIF_SIZES] = [2] * len(fps)
        params[JointDegreeNames.ARR_FP] = fps
        params[JointDegreeNames.LOW_HIGH_DEGREE_BOUND] = [(1, 12)] * len(fps)
        random.seed(99)
        np.random.seed(99)
        jdd = JointDegreeMarginal(params)
        drawn = jdd.sample_jds_from_jdd(25)
        emit("marginal", tag, hashlib.sha256(repr(drawn).encode()).hexdigest())
except BaseException as exc:  # noqa: BLE001
    emit("marginal consumer skipped:", type(exc).__name__, exc)

emit("random state", hashlib.sha256(repr(random.getstate()).encode()).hexdigest())
npstate = np.random.get_state()
emit(
    "numpy state",
    hashlib.sha256(
        repr((npstate[0], npstate[1].tolist(), npstate[2:])).encode()
    ).hexdigest(),
)
emit("random next", random.random(), "numpy next", np.random.random())
emit("TOTAL", len(LINES), hashlib.sha256("\n".join(LINES).encode()).hexdigest())
