"""
Equivalence digest for property C14 (degree-distribution algebra).

Run with cwd = a checkout of gcmpy.  Only EXISTING signatures are used, so the
script runs unchanged on the original and on the extended code; its output
must be byte-identical on both.
"""
import os
import sys

if os.environ.get("PYTHONHASHSEED") != "0":
    os.environ["PYTHONHASHSEED"] = "0"
    os.execv(sys.executable, [sys.executable] + sys.argv)

sys.path.insert(0, os.getcwd())

import copy  # noqa: E402
import hashlib  # noqa: E402
import random  # noqa: E402

import numpy as np  # noqa: E402
import networkx as nx  # noqa: E402

from gcmpy.names.network_names import NetworkNames  # noqa: E402
from gcmpy.names.tools_names import ToolsNames  # noqa: E402
from gcmpy.names.gcm_algorithm_names import GCMAlgorithmNames  # noqa: E402
from gcmpy.names.joint_degree_names import JointDegreeNames  # noqa: E402
from gcmpy.tools.average_joint_degree_from_jdd import (  # noqa: E402
    AverageJointDegreeFromJDD,
)
from gcmpy.tools.joint_excess_from_jdd import JointExcessfromJDD  # noqa: E402
from gcmpy.tools.joint_degree_from_excess import JointDegreeFromExcess  # noqa: E402
from gcmpy.tools.joint_excess_from_ejk import JointExcessFromEjk  # noqa: E402
from gcmpy.tools.joint_degree_distribution_from_network import (  # noqa: E402
    JointDegreeDistributionFromNetwork,
)
from gcmpy.tools.joint_excess_joint_degree_matrices import (  # noqa: E402
    JointExcessJointDegreeMatrices,
)
from gcmpy.tools.joint_excess_joint_degree import JointExcessJointDegree  # noqa: E402
from gcmpy.joint_degree.joint_degree_loaders.joint_degree_manual import (  # noqa: E402
    JointDegreeManual,
)
from gcmpy.motif_generators.clique_motif import clique_motif  # noqa: E402
from gcmpy.gcm_algorithm.gcm_algorithm_network import (  # noqa: E402
    GCMAlgorithmNetwork,
)

random.seed(20261003)
np.random.seed(20261003)


def R(x):
    """Deterministic, bit-exact rendering that keeps container order."""
    if isinstance(x, float):
        return "f:" + repr(x) + ":" + x.hex()
    if isinstance(x, (np.floating,)):
        return "npf:" + repr(float(x)) + ":" + float(x).hex()
    if isinstance(x, dict):
        return "{" + ", ".join(R(k) + ": " + R(v) for k, v in x.items()) + "}"
    if isinstance(x, list):
        return "[" + ", ".join(R(v) for v in x) + "]"
    if isinstance(x, tuple):
        return "(" + ", ".join(R(v) for v in x) + ")"
    if isinstance(x, (set, frozenset)):
        # iteration order is part of the observable behaviour
        return "set<" + ", ".join(R(v) for v in x) + ">"
    if isinstance(x, (int, str, bool, type(None))) or hasattr(x, "value"):
        return type(x).__name__ + ":" + repr(x)
    # other objects: default repr holds a memory address, print the type only
    return "<" + type(x).__name__ + ">"


def rng_state():
    h = hashlib.sha256()
    h.update(repr(random.getstate()).encode())
    st = np.random.get_state()
    h.update(repr((st[0], st[1].tolist(), st[2], st[3], st[4])).encode())
    return h.hexdigest()


def call(label, fn, *args, **kwargs):
    try:
        out = fn(*args, **kwargs)
        print(label, "->", R(out))
        return out
    except BaseException as e:  # noqa: B902
        print(label, "!! %s: %s" % (type(e).__name__, e))
        return None


def section(name):
    print()
    print("=" * 8, name, "| rng", rng_state()[:16])


# ----------------------------------------------------------------------------
# inputs
# ----------------------------------------------------------------------------
def random_jdd(n_keys, n_top, max_k, allow_zero=True):
    keys = []
    while len(keys) < n_keys:
        k = tuple(random.randint(0 if allow_zero else 1, max_k) for _ in range(n_top))
        if k not in keys:
            keys.append(k)
    w = [random.random() for _ in keys]
    s = sum(w)
    return {k: x / s for k, x in zip(keys, w)}


JDDS = {
    "test3": {(5, 1): 1 / 3, (3, 2): 1 / 3, (1, 3): 1 / 3},
    "single": {(2, 2): 1.0},
    "one_top": {(1,): 0.25, (2,): 0.5, (7,): 0.25},
    "with_zero_key": {(0, 0): 0.1, (1, 0): 0.2, (0, 2): 0.3, (2, 3): 0.4},
    "zero_top": {(1, 0): 0.5, (3, 0): 0.5},
    "unnormalised": {(1, 1): 0.3, (2, 1): 0.3},
    "int_values": {(1, 2): 1, (2, 1): 3},
    "three_top": {(1, 2, 3): 0.2, (3, 2, 1): 0.5, (0, 1, 1): 0.1, (4, 0, 2): 0.2},
    "list_keys_bad": {(1, 2): 0.5, (3,): 0.5},
    "longer_later": {(1,): 0.5, (3, 4): 0.5},
    "rand_a": random_jdd(12, 2, 6),
    "rand_b": random_jdd(25, 3, 5),
    "rand_c": random_jdd(7, 4, 3, allow_zero=False),
}

# ----------------------------------------------------------------------------
section("AverageJointDegreeFromJDD.get_average_joint_degrees")
for name, jdd in JDDS.items():
    before = copy.deepcopy(jdd)
    call("avg[%s]" % name, AverageJointDegreeFromJDD.get_average_joint_degrees, jdd)
    print("  input unchanged:", R(jdd) == R(before))
call("avg[empty]", AverageJointDegreeFromJDD.get_average_joint_degrees, {})
call("avg[None]", AverageJointDegreeFromJDD.get_average_joint_degrees, None)

# ----------------------------------------------------------------------------
section("JointExcessfromJDD.get_joint_excess_distributions")
QKS = {}
for name, jdd in JDDS.items():
    before = copy.deepcopy(jdd)
    out = call(
        "qks[%s]" % name, JointExcessfromJDD.get_joint_excess_distributions, jdd
    )
    out2 = call(
        "qks[%s] again" % name, JointExcessfromJDD.get_joint_excess_distributions, jdd
    )
    print("  input unchanged:", R(jdd) == R(before), "| repeat equal:", R(out) == R(out2))
    if out is not None:
        QKS[name] = out
        print("  sums:", R([sum(q.values()) for q in out]))
call("qks[empty]", JointExcessfromJDD.get_joint_excess_distributions, {})
call("qks[None]", JointExcessfromJDD.get_joint_excess_distributions, None)
call("qks[kw]", JointExcessfromJDD.get_joint_excess_distributions, jdd=JDDS["test3"])
call("qks[list]", JointExcessfromJDD.get_joint_excess_distributions, [(1, 2)])

section("JointExcessfromJDD converters")
for name in ("test3", "three_top", "rand_b"):
    keys = ["t%d" % i for i in range(len(QKS[name]))]
    d = call("l2d[%s]" % name, JointExcessfromJDD.convert_list_qks_to_dict, QKS[name], keys)
    call("d2l[%s]" % name, JointExcessfromJDD.convert_dict_qks_to_list, d, keys)
    call("l2d-short[%s]" % name, JointExcessfromJDD.convert_list_qks_to_dict, QKS[name], keys[:1])
    call("d2l-missing[%s]" % name, JointExcessfromJDD.convert_dict_qks_to_list, d, keys + ["zz"])

# ----------------------------------------------------------------------------
section("JointDegreeFromExcess")
for name, qks_list in QKS.items():
    keys = ["top%d" % i for i in range(len(qks_list))]
    qks = dict(zip(keys, qks_list))
    for i, key in enumerate(keys):
        call("invert_single[%s,%d]" % (name, i), JointDegreeFromExcess.invert_single, qks[key], i)
    before = copy.deepcopy(qks)
    call("observations[%s]" % name, JointDegreeFromExcess.observations_from_dict, qks, keys)
    P = call("invert[%s]" % name, JointDegreeFromExcess.get_joint_degree_distribution, qks, keys)
    P2 = call("invert[%s] again" % name, JointDegreeFromExcess.get_joint_degree_distribution, qks, keys)
    print("  input unchanged:", R(qks) == R(before), "| repeat equal:", R(P) == R(P2))
    # different key order / reversed dict order
    rkeys = list(reversed(keys))
    rqks = {k: qks[k] for k in rkeys}
    call("invert[%s] dict reversed" % name, JointDegreeFromExcess.get_joint_degree_distribution, rqks, keys)
    call("invert[%s] keyword" % name, JointDegreeFromExcess.get_joint_degree_distribution, qks=qks, keys=keys)

# error paths
q_a = {(0, 3): 0.5, (4, 1): 0.5}
q_b = {(9, 9): 1.0}
call("invert[no common]", JointDegreeFromExcess.get_joint_degree_distribution, {"a": q_a, "b": q_b}, ["a", "b"])
call("invert[empty keys]", JointDegreeFromExcess.get_joint_degree_distribution, {"a": q_a}, [])
call("invert[missing key]", JointDegreeFromExcess.get_joint_degree_distribution, {"a": q_a}, ["a", "b"])
call("invert[empty q]", JointDegreeFromExcess.get_joint_degree_distribution, {"a": {}, "b": {}}, ["a", "b"])
call("invert[zero mass]", JointDegreeFromExcess.get_joint_degree_distribution, {"a": {(0, 1): 0.0}, "b": {(1, 0): 0.0}}, ["a", "b"])
call("invert[tuple keys]", JointDegreeFromExcess.get_joint_degree_distribution, {"a": q_a, "b": {(1, 2): 0.5, (5, 0): 0.5}}, ("a", "b"))
call("invert[extra in dict]", JointDegreeFromExcess.get_joint_degree_distribution, {"a": q_a, "b": {(1, 2): 0.5, (5, 0): 0.5}, "c": q_b}, ["a", "b"])
call("invert_single[bad i]", JointDegreeFromExcess.invert_single, q_a, 5)
call("invert_single[empty]", JointDegreeFromExcess.invert_single, {}, 0)

# ----------------------------------------------------------------------------
section("JointExcessJointDegreeMatrices")
ejk_tree = {
    (0, 3, 0, 3): 1 / 81, (0, 3, 4, 1): 5 / 81, (0, 3, 2, 2): 3 / 81,
    (4, 1, 0, 3): 5 / 81, (4, 1, 4, 1): 25 / 81, (4, 1, 2, 2): 15 / 81,
    (2, 2, 0, 3): 3 / 81, (2, 2, 4, 1): 15 / 81, (2, 2, 2, 2): 9 / 81,
}
ejk_triangle = {
    (3, 1, 3, 1): 16 / 144, (3, 1, 1, 2): 24 / 144, (3, 1, 5, 0): 8 / 144,
    (1, 2, 3, 1): 24 / 144, (1, 2, 1, 2): 36 / 144, (1, 2, 5, 0): 12 / 144,
    (5, 0, 3, 1): 8 / 144, (5, 0, 1, 2): 12 / 144, (5, 0, 5, 0): 4 / 144,
}


def dump(m, label):
    print(label, "ejks", R(m._ejks))
    print(label, "keys", R(m._excess_degree_keys))
    print(label, "names", R(m._topology_names))
    print(label, "props", R(m.ejks) == R(m._ejks), R(m.excess_degree_keys) == R(m._excess_degree_keys), R(m.topology_names) == R(m._topology_names))
    print(label, "attrs", sorted(vars(m)))


m0 = JointExcessJointDegreeMatrices()
dump(m0, "m0")
call("m0.get_excess_degree_keys", m0.get_excess_degree_keys)
dump(m0, "m0'")
call("m0.index[x]", m0.get_topology_index, "x")

params = {ToolsNames.EJKS: {"2-clique": ejk_tree, "3-clique": ejk_triangle},
          ToolsNames.EDGE_NAMES: ["2-clique", "3-clique"]}
m1 = JointExcessJointDegreeMatrices(params)
dump(m1, "m1")
print("m1 shares ejks dict:", m1._ejks is params[ToolsNames.EJKS], "| names:", m1._topology_names is params[ToolsNames.EDGE_NAMES])
for t in ("2-clique", "3-clique", "4-clique", None):
    call("m1.index[%r]" % (t,), m1.get_topology_index, t)
# repeated refresh, after mutation of the matrices
m1._ejks["2-clique"][(7, 7, 0, 3)] = 0.0
call("m1.refresh", m1.get_excess_degree_keys)
call("m1.refresh again", m1.get_excess_degree_keys)
dump(m1, "m1'")
del m1._ejks["2-clique"][(7, 7, 0, 3)]
# odd-length and empty keys
m2 = JointExcessJointDegreeMatrices()
m2.ejks = {"a": {(1, 2, 3): 0.5, (): 0.5, (4, 5, 6, 7, 8, 9): 0.0}, "b": {}}
m2.topology_names = ["a", "b"]
call("m2.refresh", m2.get_excess_degree_keys)
dump(m2, "m2")
call("m_bad_params", JointExcessJointDegreeMatrices, {ToolsNames.EJKS: {}})
call("m_bad_params2", JointExcessJointDegreeMatrices, {"ejks": {}, "edge_names": []})
m3 = call("m_kw", JointExcessJointDegreeMatrices, params={ToolsNames.EJKS: {"x": {(1, 1): 1.0}}, ToolsNames.EDGE_NAMES: ["x"]})
dump(m3, "m3")
# setters
m3.excess_degree_keys = {"x": [(9,)]}
dump(m3, "m3'")
print("bool/hasattr:", bool(m0), hasattr(m0, "__len__"), hasattr(m0, "__iter__"))

# ----------------------------------------------------------------------------
section("JointExcessFromEjk.get_excess_joint_distributions")
e = JointExcessJointDegreeMatrices()
e._ejks = {"2-clique": ejk_tree, "3-clique": ejk_triangle}
e._excess_degree_keys = {
    "2-clique": [(0, 3), (4, 1), (2, 2)],
    "3-clique": [(3, 1), (1, 2), (5, 0)],
}
before = (copy.deepcopy(e._ejks), copy.deepcopy(e._excess_degree_keys))
q1 = call("qk_from_ejk[test]", JointExcessFromEjk.get_excess_joint_distributions, e)
q2 = call("qk_from_ejk[test] again", JointExcessFromEjk.get_excess_joint_distributions, e)
print("  unchanged:", R(before) == R((e._ejks, e._excess_degree_keys)), "| repeat:", R(q1) == R(q2))
call("qk_from_ejk[kw]", JointExcessFromEjk.get_excess_joint_distributions, ejks=e)
call("qk_from_ejk[m1]", JointExcessFromEjk.get_excess_joint_distributions, m1)
call("qk_from_ejk[m0 empty]", JointExcessFromEjk.get_excess_joint_distributions, m0)
call("qk_from_ejk[m2 odd]", JointExcessFromEjk.get_excess_joint_distributions, m2)
call("qk_from_ejk[m3 mismatched keys]", JointExcessFromEjk.get_excess_joint_distributions, m3)
bad = JointExcessJointDegreeMatrices()
bad._ejks = {"a": {}}
call("qk_from_ejk[len mismatch]", JointExcessFromEjk.get_excess_joint_distributions, bad)
bad2 = JointExcessJointDegreeMatrices()
bad2._ejks = {"a": {(1, 1): 1.0}}
bad2._excess_degree_keys = {"b": [(1,)]}
call("qk_from_ejk[wrong topology]", JointExcessFromEjk.get_excess_joint_distributions, bad2)
call("qk_from_ejk[None]", JointExcessFromEjk.get_excess_joint_distributions, None)
# round trip: matrix -> excess -> jdd
call("roundtrip[test]", JointDegreeFromExcess.get_joint_degree_distribution, q1, ["2-clique", "3-clique"])

# ----------------------------------------------------------------------------
section("JointDegreeDistributionFromNetwork.get_joint_degree_distribution")
G = nx.Graph()
for n, jd in enumerate([(1, 2), (1, 2), (0, 0), [3, 1], (3, 1), (2, 2), (1, 2)]):
    G.add_node(n, **{})
    G.nodes[n][NetworkNames.JOINT_DEGREE] = jd
before_nodes = R({n: dict(G.nodes[n]) for n in G.nodes()})
call("jdd_net[small]", JointDegreeDistributionFromNetwork.get_joint_degree_distribution, G)
call("jdd_net[small] again", JointDegreeDistributionFromNetwork.get_joint_degree_distribution, G)
call("jdd_net[kw]", JointDegreeDistributionFromNetwork.get_joint_degree_distribution, G=G)
print("  nodes unchanged:", before_nodes == R({n: dict(G.nodes[n]) for n in G.nodes()}))
call("jdd_net[empty]", JointDegreeDistributionFromNetwork.get_joint_degree_distribution, nx.Graph())
H = nx.path_graph(3)
call("jdd_net[no attr]", JointDegreeDistributionFromNetwork.get_joint_degree_distribution, H)
H2 = nx.path_graph(3)
for n in H2.nodes():
    H2.nodes[n]["joint_degree"] = (1,)  # string key, not the enum
call("jdd_net[str attr]", JointDegreeDistributionFromNetwork.get_joint_degree_distribution, H2)
H3 = nx.path_graph(4)
H3.nodes[0][NetworkNames.JOINT_DEGREE] = (1,)
H3.nodes[1][NetworkNames.JOINT_DEGREE] = 5  # not iterable
call("jdd_net[bad value]", JointDegreeDistributionFromNetwork.get_joint_degree_distribution, H3)
call("jdd_net[None]", JointDegreeDistributionFromNetwork.get_joint_degree_distribution, None)
D = nx.DiGraph()
D.add_node("a")
D.nodes["a"][NetworkNames.JOINT_DEGREE] = (2, 0)
D.add_node("b")
D.nodes["b"][NetworkNames.JOINT_DEGREE] = (2, 0)
D.add_node("c")
D.nodes["c"][NetworkNames.JOINT_DEGREE] = (0, 1)
call("jdd_net[digraph]", JointDegreeDistributionFromNetwork.get_joint_degree_distribution, D)

# ----------------------------------------------------------------------------
section("end-to-end: generated network")
for size, jdd in ((600, JDDS["test3"]), (400, {(2, 1): 0.5, (4, 0): 0.25, (0, 2): 0.25})):
    p = {JointDegreeNames.JDD: jdd, JointDegreeNames.MOTIF_SIZES: [2, 3]}
    jds = JointDegreeManual(p).sample_jds_from_jdd(size)
    p = {
        GCMAlgorithmNames.MOTIF_SIZES: [2, 3],
        GCMAlgorithmNames.EDGE_NAMES: ["2-clique", "3-clique"],
        GCMAlgorithmNames.BUILD_FUNCTIONS: [clique_motif, clique_motif],
    }
    g = GCMAlgorithmNetwork(p).random_clustered_graph(jds)
    print("rng after build", rng_state()[:16])
    emp = call("e2e jdd_net", JointDegreeDistributionFromNetwork.get_joint_degree_distribution, g._G)
    print("rng", rng_state()[:16])
    avg = call("e2e avg", AverageJointDegreeFromJDD.get_average_joint_degrees, emp)
    qk_emp = call("e2e qks", JointExcessfromJDD.get_joint_excess_distributions, emp)
    C = JointExcessJointDegree({ToolsNames.NETWORK: g._G, ToolsNames.EDGE_NAMES: ["2-clique", "3-clique"]})
    mats = C.get_ejks()
    dump(mats, "e2e mats")
    qk_mat = call("e2e qk_from_ejk", JointExcessFromEjk.get_excess_joint_distributions, mats)
    back = call("e2e invert", JointDegreeFromExcess.get_joint_degree_distribution, qk_mat, ["2-clique", "3-clique"])
    # params-constructed matrices from the extracted ones
    mm = JointExcessJointDegreeMatrices({ToolsNames.EJKS: mats.ejks, ToolsNames.EDGE_NAMES: ["2-clique", "3-clique"]})
    dump(mm, "e2e mm")
    call("e2e qk_from_ejk(mm)", JointExcessFromEjk.get_excess_joint_distributions, mm)
    print("rng", rng_state()[:16])

section("final")
print("random.random()", R(random.random()), "np", R(float(np.random.random())))
print("rng final", rng_state())
