"""
Equivalence digest for the C11 repair ("swap details for rewire()").

Run with cwd = a checkout of gcmpy.  Exercises every function the commit touched,
only through the signatures that existed before the commit:

    ProposalEdge()                      (constructor, topology / motif_id / new_edge)
    MarkovChainMonteCarloRewiring.is_edge_choice_suitable(G, u0, v0, e0s, e1s)
    MarkovChainMonteCarloRewiring.append_proposal_edges(G, u0, old_edge, new_edge)
    MarkovChainMonteCarloRewiring.swap_condition(G, e0s, e1s, u0, v0)   (caller of the above)
    MarkovChainMonteCarloRewiring.rewire()

and prints a deterministic digest: results, exception types, debug log records in
order, instance / class counters, the graphs returned (iteration order included),
mutated inputs, number of random edge draws and the RNG state afterwards.
Nothing of the new functionality (return_details, old_edge, get_partner_vertices,
count_suitable_partners) is used.

Termination: rewire() loops until enough swaps were accepted, which on some inputs
never happens (existing behaviour).  DrawSet.draw is therefore wrapped with a
deterministic draw budget (an exception after N draws), and a signal.alarm watchdog
kills the process should anything still hang.
"""
import hashlib
import logging
import os
import random
import signal
import sys

sys.path.insert(0, os.getcwd())


def _watchdog(signum, frame):
    sys.stdout.flush()
    os.write(1, b"WATCHDOG: equiv.py did not finish in time\n")
    os._exit(3)


signal.signal(signal.SIGALRM, _watchdog)
signal.alarm(600)

import warnings  # noqa: E402

warnings.simplefilter("ignore")

import networkx as nx  # noqa: E402
import numpy as np  # noqa: E402

from gcmpy.names.network_names import NetworkNames  # noqa: E402
from gcmpy.names.tools_names import ToolsNames  # noqa: E402
from gcmpy.network.network import Network  # noqa: E402
from gcmpy.tools.draw_set import DrawSet  # noqa: E402
from gcmpy.tools.joint_excess_joint_degree_matrices import (  # noqa: E402
    JointExcessJointDegreeMatrices,
)
from gcmpy.tools.markov_chain_monte_carlo import MarkovChainMonteCarlo  # noqa: E402
from gcmpy.tools.markov_chain_monte_carlo_rewiring import (  # noqa: E402
    MarkovChainMonteCarloRewiring,
)
from gcmpy.tools.proposal_edge import ProposalEdge  # noqa: E402

TOP = NetworkNames.TOPOLOGY
MID = NetworkNames.MOTIF_IDS
JD = NetworkNames.JOINT_DEGREE
EDGE_NAMES = ["2-clique", "3-clique"]


# --------------------------------------------------------------------------- utils
def sha(text: str) -> str:
    return hashlib.sha256(text.encode()).hexdigest()[:20]


def rng_state() -> str:
    return sha(repr(random.getstate())) + "/" + sha(repr(np.random.get_state()))


def seed_all(seed: int) -> None:
    random.seed(seed)
    np.random.seed(seed)


def out(*parts) -> None:
    print(" ".join(str(p) for p in parts))


class Budget(Exception):
    """raised by the wrapped DrawSet.draw when the draw budget is used up"""


_draws = {"calls": 0, "left": None}
_orig_draw = DrawSet.draw


def _budget_draw(self):
    _draws["calls"] += 1
    if _draws["left"] is not None:
        if _draws["left"] <= 0:
            raise Budget()
        _draws["left"] -= 1
    return _orig_draw(self)


DrawSet.draw = _budget_draw


class Capture(logging.Handler):
    def __init__(self):
        super().__init__(level=0)
        self.records = []

    def emit(self, record):
        self.records.append(" ".join(record.getMessage().split()))


def attach(m) -> Capture:
    h = Capture()
    m._logger.addHandler(h)
    return h


def call(label, fn, *args):
    """call fn, print result or exception type (+ message digest)"""
    try:
        r = fn(*args)
        out(label, "->", repr(r))
        return r
    except Budget:
        out(label, "-> Budget exhausted")
    except BaseException as e:  # noqa: B902
        out(label, "-> raised", type(e).__name__, sha(" ".join(str(e).split())))
    return None


def graph_digest(G) -> str:
    nodes = [(v, sorted((str(k), repr(x)) for k, x in G.nodes[v].items())) for v in G.nodes()]
    edges = [
        (a, b, sorted((str(k), repr(x)) for k, x in d.items()))
        for a, b, d in G.edges(data=True)
    ]
    adj = [(v, list(G.adj[v])) for v in G.nodes()]
    return (
        f"n={G.number_of_nodes()} e={G.number_of_edges()} "
        f"loops={nx.number_of_selfloops(G)} nodes={sha(repr(nodes))} "
        f"edges={sha(repr(edges))} adj={sha(repr(adj))} "
        f"sorted={sha(repr(sorted((tuple(sorted(e[:2])), e[2]) for e in edges)))}"
    )


def proposals(m) -> str:
    return repr([(p.topology, p.motif_id, p.new_edge) for p in m._proposal_edges])


def counters(m) -> str:
    return (
        f"inst=({m._proposal_count},{m._proposals_accepted}) "
        f"class=({MarkovChainMonteCarlo._proposal_count},"
        f"{MarkovChainMonteCarlo._proposals_accepted}) "
        f"own=({MarkovChainMonteCarloRewiring.__dict__.get('_proposal_count')},"
        f"{MarkovChainMonteCarloRewiring.__dict__.get('_proposals_accepted')}) "
        f"ratio={[repr(x) for x in m._acceptance_ratio]!r}"
    )


def logs(h: Capture) -> str:
    return f"log#{len(h.records)}:{sha(repr(h.records))}"


# ------------------------------------------------------------------------ builders
def build_network(n_triangles: int, n_extra: int, seed: int) -> Network:
    rnd = random.Random(seed)
    n = 3 * n_triangles + n_extra
    G = nx.Graph()
    G.add_nodes_from(range(n))
    motif_id = 0
    for t in range(n_triangles):
        a, b, c = 3 * t, 3 * t + 1, 3 * t + 2
        for e in ((a, b), (a, c), (b, c)):
            G.add_edge(*e)
            G.edges[e][TOP] = "3-clique"
            G.edges[e][MID] = motif_id
        motif_id += 1
    want = {v: rnd.choice([1, 1, 2, 2, 3, 4]) for v in range(n)}
    stubs = [v for v in range(n) for _ in range(want[v])]
    rnd.shuffle(stubs)
    while len(stubs) > 1:
        a = stubs.pop()
        for i, b in enumerate(stubs):
            if a != b and not G.has_edge(a, b):
                stubs.pop(i)
                G.add_edge(a, b)
                G.edges[a, b][TOP] = "2-clique"
                G.edges[a, b][MID] = motif_id
                motif_id += 1
                break
    annotate(G)
    net = Network()
    net.G = G
    return net


def annotate(G) -> None:
    for v in G.nodes():
        k2 = sum(1 for e in G.edges(v) if G.edges[e][TOP] == "2-clique")
        k3 = sum(1 for e in G.edges(v) if G.edges[e][TOP] == "3-clique") // 2
        G.nodes[v][JD] = (k2, k3)


def target(G, seed: int, drop: int = 0, zero: int = 0) -> JointExcessJointDegreeMatrices:
    """full-support target; optionally `drop` every n-th key pair (KeyError path) or
    set every n-th weight to zero (zero numerator / zero denominator paths)"""
    rnd = random.Random(seed)
    ejks = {}
    for index, name in enumerate(EDGE_NAMES):
        keys = set()
        for v in G.nodes():
            jd = list(G.nodes[v][JD])
            if jd[index] > 0:
                jd[index] -= 1
                keys.add(tuple(jd))
        keys = sorted(keys)
        weight = {}
        count = 0
        for i, a in enumerate(keys):
            for b in keys[i:]:
                count += 1
                w = rnd.uniform(0.2, 1.0)
                if drop and count % drop == 0:
                    continue
                if zero and count % zero == 0:
                    w = 0.0
                weight[a + b] = w
                weight[b + a] = w
        total = sum(weight.values()) or 1.0
        ejks[name] = {k: w / total for k, w in weight.items()}
    return JointExcessJointDegreeMatrices(
        {ToolsNames.EDGE_NAMES: EDGE_NAMES, ToolsNames.EJKS: ejks}
    )


def make(net, tgt, **extra) -> MarkovChainMonteCarloRewiring:
    params = {ToolsNames.NETWORK: net, ToolsNames.EJKS: tgt}
    for k, v in extra.items():
        params[getattr(ToolsNames, k)] = v
    return MarkovChainMonteCarloRewiring(params)


def hand_graph() -> nx.Graph:
    """small hand made graph with shared vertices in every position

    2-cliques: (0,1) id 10, (1,2) id 11, (2,3) id 12, (4,5) id 13, (0,4) id 14,
               (6,7) id 15, (7,7) id 16 (self-loop), (8,9) id 17
    triangles: (10,11,12) id 20, (12,13,14) id 21 (share vertex 12), (15,16,17) id 22
    mixed motif id 30: (18,19) "2-clique" + (18,20) "3-clique"
    mixed motif id 31: (21,22) "2-clique" + (21,23) "3-clique"
    mixed motif id 32: (24,25) "3-clique" + (24,26) "3-clique"
    """
    G = nx.Graph()
    G.add_nodes_from(range(28))

    def add(a, b, top, mid):
        G.add_edge(a, b)
        G.edges[a, b][TOP] = top
        G.edges[a, b][MID] = mid

    for (a, b), mid in (
        ((0, 1), 10), ((1, 2), 11), ((2, 3), 12), ((4, 5), 13), ((0, 4), 14),
        ((6, 7), 15), ((7, 7), 16), ((8, 9), 17),
    ):
        add(a, b, "2-clique", mid)
    for (a, b, c), mid in (((10, 11, 12), 20), ((12, 13, 14), 21), ((15, 16, 17), 22)):
        add(a, b, "3-clique", mid)
        add(a, c, "3-clique", mid)
        add(b, c, "3-clique", mid)
    add(18, 19, "2-clique", 30)
    add(18, 20, "3-clique", 30)
    add(21, 22, "2-clique", 31)
    add(21, 23, "3-clique", 31)
    add(24, 25, "3-clique", 32)
    add(24, 26, "3-clique", 32)
    for v in G.nodes():
        G.nodes[v][JD] = (1, 1)
    return G


# ------------------------------------------------------------------ A ProposalEdge
def section_proposal_edge():
    out("== A ProposalEdge")
    p = ProposalEdge()
    out("fresh", repr((p.topology, p.motif_id, p.new_edge)))
    p.topology = "2-clique"
    p.motif_id = 7
    p.new_edge = (3, 4)
    out("set", repr((p.topology, p.motif_id, p.new_edge)))
    out("raw", repr((p._topology, p._motif_id, p._new_edge)))
    p.new_edge = [4, 3]
    p.topology = None
    out("reset", repr((p.topology, p.motif_id, p.new_edge)))
    q = ProposalEdge()
    out("independent", repr((q.topology, q.motif_id, q.new_edge)))
    call("ctor with arg", lambda: ProposalEdge(1))


# ------------------------------------------------- B is_edge_choice_suitable direct
def section_suitable():
    out("== B is_edge_choice_suitable")
    G = hand_graph()
    before = graph_digest(G)
    net = Network()
    net.G = G
    m = make(net, target(G, 1))
    h = attach(m)
    seed_all(5)

    cases = [
        ("disjoint ok", 0, 8, [(0, 1)], [(8, 9)]),
        ("disjoint ok reversed tuples", 0, 8, [(1, 0)], [(9, 8)]),
        ("cross share a-b / b-d", 0, 1, [(0, 1)], [(1, 2)]),
        ("cross share mirrored", 1, 0, [(1, 2)], [(0, 1)]),
        ("cross share v1 == u0", 1, 2, [(1, 0)], [(2, 1)]),
        ("far ends shared", 0, 2, [(0, 1)], [(2, 1)]),
        ("same focal", 0, 0, [(0, 1)], [(0, 4)]),
        ("same focal 2", 1, 1, [(1, 0)], [(1, 2)]),
        ("target present", 1, 4, [(1, 0)], [(4, 5)]),
        ("target present other side", 5, 0, [(5, 4)], [(0, 1)]),
        ("same edge", 0, 0, [(0, 1)], [(0, 1)]),
        ("same edge flipped focal", 0, 1, [(0, 1)], [(1, 0)]),
        ("self loop partner", 0, 7, [(0, 1)], [(7, 7)]),
        ("self loop left", 7, 8, [(7, 7)], [(8, 9)]),
        ("self loop corner of 7", 7, 8, [(7, 6), (7, 7)], [(8, 9)]),
        ("next to self loop", 6, 8, [(6, 7)], [(8, 9)]),
        ("length mismatch", 0, 10, [(0, 1)], [(10, 11), (10, 12)]),
        ("topology mismatch", 0, 10, [(0, 1), (0, 4)], [(10, 11), (10, 12)]),
        ("triangles ok", 10, 15, [(10, 11), (10, 12)], [(15, 16), (15, 17)]),
        ("triangles share 12 focal both", 12, 12, [(12, 10), (12, 11)], [(12, 13), (12, 14)]),
        ("triangles share 12 cross", 10, 12, [(10, 11), (10, 12)], [(12, 13), (12, 14)]),
        ("triangles share 12 cross mirrored", 12, 10, [(12, 13), (12, 14)], [(10, 11), (10, 12)]),
        ("triangles share 12 far", 10, 13, [(10, 11), (10, 12)], [(13, 12), (13, 14)]),
        ("triangle same motif", 10, 11, [(10, 11), (10, 12)], [(11, 10), (11, 12)]),
        ("triangle same motif same focal", 10, 10, [(10, 11), (10, 12)], [(10, 12), (10, 11)]),
        ("mixed ok", 18, 21, [(18, 19), (18, 20)], [(21, 22), (21, 23)]),
        ("mixed ok other order", 18, 21, [(18, 20), (18, 19)], [(21, 22), (21, 23)]),
        ("mixed count mismatch", 18, 24, [(18, 19), (18, 20)], [(24, 25), (24, 26)]),
        ("mixed count mismatch 2", 24, 18, [(24, 25), (24, 26)], [(18, 19), (18, 20)]),
        ("mixed vs plain keys", 18, 10, [(18, 19), (18, 20)], [(10, 11), (10, 12)]),
        ("empty", 0, 1, [], []),
        ("empty left", 0, 1, [], [(1, 2)]),
        ("lists as edges", 0, 8, [[0, 1]], [[8, 9]]),
        # error paths and their order relative to early returns
        ("u0 not in e0", 3, 8, [(0, 1)], [(8, 9)]),
        ("v0 not in e1", 0, 3, [(0, 1)], [(8, 9)]),
        ("both foreign", 3, 3, [(0, 1)], [(8, 9)]),
        ("early False then foreign e0", 1, 4, [(1, 0), (2, 3)], [(4, 5), (4, 0)]),
        ("early self-loop then foreign e0", 0, 1, [(0, 1), (2, 3)], [(1, 2), (1, 0)]),
        ("ok then foreign e0", 0, 8, [(0, 1), (2, 3)], [(8, 9), (6, 7)]),
        ("foreign e1 later", 0, 8, [(0, 1), (0, 4)], [(8, 9), (6, 7)]),
        ("foreign e1 after early False", 1, 4, [(1, 0), (1, 2)], [(4, 5), (6, 7)]),
        ("foreign e0 first", 0, 8, [(2, 3), (0, 1)], [(8, 9), (6, 7)]),
        ("foreign e0, shared vertex", 0, 1, [(2, 3)], [(1, 2)]),
        ("e0 not an edge", 0, 8, [(0, 9)], [(8, 9)]),
        ("e1 not an edge", 0, 8, [(0, 1)], [(8, 1)]),
        ("vertex not in graph", 99, 8, [(99, 1)], [(8, 9)]),
        ("focal None", None, 8, [(0, 1)], [(8, 9)]),
        ("edge too short", 0, 8, [(0,)], [(8, 9)]),
        ("e0s None", 0, 8, None, [(8, 9)]),
        ("no attributes", 26, 8, [(26, 27)], [(8, 9)]),
    ]
    G.add_edge(26, 27)  # edge without annotations
    before = graph_digest(G)
    for rep in (1, 2):
        for label, u0, v0, e0s, e1s in cases:
            n = len(h.records)
            a0 = repr(e0s), repr(e1s)
            call(f"[{rep}] {label}", m.is_edge_choice_suitable, G, u0, v0, e0s, e1s)
            if (repr(e0s), repr(e1s)) != a0:
                out("   arguments mutated", repr(e0s), repr(e1s))
            out("   logs", h.records[n:])
    out("graph unchanged", graph_digest(G) == before)
    out("rng", rng_state(), counters(m), proposals(m))

    # sweep: every ordered pair of edges, every choice of focal vertices
    for nt, nx_, sd in ((4, 8, 21), (0, 14, 22), (5, 0, 23)):
        net = build_network(nt, nx_, sd)
        G = net.G
        before = graph_digest(G)
        m = make(net, target(G, sd))
        h = attach(m)
        bits = []
        edges = [tuple(sorted(e)) for e in G.edges()]
        for e0 in edges:
            for u0 in e0:
                e0s = m.get_all_edges(G, u0, e0)
                for e1 in edges:
                    for v0 in e1:
                        e1s = m.get_all_edges(G, v0, e1)
                        try:
                            r = m.is_edge_choice_suitable(G, u0, v0, e0s, e1s)
                            bits.append("1" if r else "0")
                        except Exception as e:
                            bits.append(type(e).__name__)
        s = "".join(bits)
        out(
            f"sweep({nt},{nx_},{sd})", len(bits), s.count("1"), sha(s), logs(h),
            graph_digest(G) == before, rng_state(),
        )


# ---------------------------------------------------- C append_proposal_edges direct
def section_append():
    out("== C append_proposal_edges")
    G = hand_graph()
    G.add_edge(26, 27)
    before = graph_digest(G)
    net = Network()
    net.G = G
    m = make(net, target(G, 1))
    h = attach(m)
    seed_all(6)
    cases = [
        ("plain", 0, (0, 1), (0, 9)),
        ("old reversed", 0, (1, 0), (0, 9)),
        ("new reversed", 0, (0, 1), (9, 0)),
        ("old edge without u0", 0, (2, 3), (0, 9)),
        ("old edge without u0, new reversed", 8, (10, 11), (5, 8)),
        ("old edge is list", 0, [0, 1], (0, 9)),
        ("old edge is self loop", 7, (7, 7), (7, 9)),
        ("new edge is self loop", 7, (7, 6), (7, 7)),
        ("new edge without u0", 0, (0, 1), (8, 9)),
        ("old edge not in graph", 0, (0, 9), (0, 8)),
        ("old edge unannotated", 26, (26, 27), (26, 0)),
        ("old edge too short", 0, (0,), (0, 8)),
        ("old edge None", 0, None, (0, 8)),
        ("new edge too short", 0, (0, 1), (0,)),
        ("u0 None", None, (0, 1), (0, 8)),
        ("triangle edge", 12, (12, 13), (12, 3)),
    ]
    for rep in (1, 2):
        for label, u0, old, new in cases:
            a0 = repr(old), repr(new)
            call(f"[{rep}] {label}", m.append_proposal_edges, G, u0, old, new)
            if (repr(old), repr(new)) != a0:
                out("   arguments mutated", repr(old), repr(new))
            out("   proposals", len(m._proposal_edges), proposals(m)[-60:])
    out("all proposals", proposals(m))
    out("graph unchanged", graph_digest(G) == before, logs(h))
    out("rng", rng_state(), counters(m))


# ------------------------------------------------------------ D swap_condition direct
def section_swap_condition():
    out("== D swap_condition")
    for nt, nx_, sd, drop, zero in (
        (4, 10, 31, 0, 0), (0, 16, 32, 0, 0), (4, 10, 33, 3, 0), (4, 10, 34, 0, 2),
        (0, 12, 35, 0, 1),
    ):
        net = build_network(nt, nx_, sd)
        G = net.G
        before = graph_digest(G)
        m = make(net, target(G, sd, drop=drop, zero=zero))
        h = attach(m)
        seed_all(sd)
        edges = [tuple(sorted(e)) for e in G.edges()]
        res = []
        done = 0
        for i, e0 in enumerate(edges):
            for e1 in edges[i + 1:: 3]:
                for u0, v0 in ((e0[0], e1[0]), (e0[1], e1[0]), (e0[1], e1[1])):
                    if G.edges[e0][TOP] != G.edges[e1][TOP]:
                        continue
                    e0s = m.get_all_edges(G, u0, e0)
                    e1s = m.get_all_edges(G, v0, e1)
                    if not m.is_edge_choice_suitable(G, u0, v0, e0s, e1s):
                        continue
                    a0 = repr(e0s), repr(e1s)
                    try:
                        r = m.swap_condition(G, e0s, e1s, u0, v0)
                    except Exception as e:
                        r = type(e).__name__ + sha(" ".join(str(e).split()))
                    res.append((u0, v0, e0s, e1s, r, proposals(m), (repr(e0s), repr(e1s)) == a0))
                    done += 1
        out(
            f"swap({nt},{nx_},{sd},drop={drop},zero={zero})", done,
            sum(1 for x in res if x[4] is True), sha(repr(res)), logs(h),
            graph_digest(G) == before,
        )
        out("   ", rng_state(), counters(m))

    # unsuitable / malformed input given directly
    G = hand_graph()
    net = Network()
    net.G = G
    m = make(net, target(G, 1))
    h = attach(m)
    seed_all(7)
    cases = [
        ("ok", [(0, 1)], [(8, 9)], 0, 8),
        ("shared vertex", [(0, 1)], [(1, 2)], 0, 1),
        ("u0 not in e0", [(2, 3)], [(8, 9)], 0, 8),
        ("v0 not in e1", [(0, 1)], [(2, 3)], 0, 8),
        ("neither", [(2, 3)], [(4, 5)], 0, 8),
        ("second e0 foreign", [(0, 1), (2, 3)], [(8, 9), (8, 9)], 0, 8),
        ("e1s too short", [(0, 1), (0, 4)], [(8, 9)], 0, 8),
        ("topology missing on right", [(10, 11)], [(8, 9)], 10, 8),
        ("triangle", [(10, 11), (10, 12)], [(15, 16), (15, 17)], 10, 15),
        ("mixed", [(18, 19), (18, 20)], [(21, 22), (21, 23)], 18, 21),
        ("e0 not an edge", [(0, 9)], [(8, 9)], 0, 8),
        ("empty", [], [], 0, 8),
    ]
    for rep in (1, 2):
        for label, e0s, e1s, u0, v0 in cases:
            a0 = repr(e0s), repr(e1s)
            call(f"[{rep}] {label}", m.swap_condition, G, e0s, e1s, u0, v0)
            if (repr(e0s), repr(e1s)) != a0:
                out("   arguments mutated", repr(e0s), repr(e1s))
            out("   proposals", proposals(m))
    out("rng", rng_state(), counters(m), logs(h))


# ------------------------------------------------------------------------- E rewire
def run_rewire(label, net, tgt, seed, budget, repeat=1, **extra):
    before = graph_digest(net.G)
    try:
        m = make(net, tgt, **extra)
    except Exception as e:
        out(label, "ctor raised", type(e).__name__, sha(" ".join(str(e).split())))
        return
    h = attach(m)
    seed_all(seed)
    out(label, "limits", m.convergence_limit, m.search_limit)
    for rep in range(repeat):
        _draws["calls"] = 0
        _draws["left"] = budget
        try:
            H = m.rewire()
            res = "graph " + graph_digest(H) + f" type={type(H).__name__} same_obj={H is net.G}"
        except Budget:
            res = "Budget exhausted"
        except BaseException as e:  # noqa: B902
            res = "raised " + type(e).__name__ + " " + sha(" ".join(str(e).split()))
        finally:
            _draws["left"] = None
        out(f"{label} [{rep}]", res)
        out(
            "    draws", _draws["calls"], "input untouched", graph_digest(net.G) == before,
            "rng", rng_state(), logs(h),
        )
        out("    ", counters(m), "proposals", sha(proposals(m)))


def section_rewire():
    out("== E rewire")
    B = 400000
    net = build_network(6, 12, 1)
    run_rewire("defaults trees+triangles", net, target(net.G, 11), 11, B, repeat=2)
    net = build_network(0, 30, 2)
    run_rewire("defaults trees", net, target(net.G, 12), 12, B, repeat=2)
    net = build_network(8, 16, 3)
    run_rewire(
        "explicit", net, target(net.G, 13), 13, B, repeat=3,
        SEARCH_LIMIT=20, CONVERGENCE_LIMIT=200,
    )
    net = build_network(5, 0, 4)
    run_rewire("triangles only", net, target(net.G, 14), 14, B, CONVERGENCE_LIMIT=60)
    net = build_network(0, 8, 5)
    run_rewire("tiny dense", net, target(net.G, 15), 15, 50000, CONVERGENCE_LIMIT=40)
    net = build_network(3, 9, 6)
    run_rewire("search limit 1", net, target(net.G, 16), 16, 100000,
               SEARCH_LIMIT=1, CONVERGENCE_LIMIT=30)
    run_rewire("search limit 0", net, target(net.G, 16), 17, 20000,
               SEARCH_LIMIT=0, CONVERGENCE_LIMIT=5)
    run_rewire("search limit 2", net, target(net.G, 16), 18, 100000,
               SEARCH_LIMIT=2, CONVERGENCE_LIMIT=30)
    run_rewire("convergence 0", net, target(net.G, 16), 19, B, CONVERGENCE_LIMIT=0)
    run_rewire("convergence -1", net, target(net.G, 16), 20, B, CONVERGENCE_LIMIT=-1)
    run_rewire("convergence 49..51", net, target(net.G, 16), 21, B, repeat=2,
               CONVERGENCE_LIMIT=51)
    net = build_network(4, 12, 7)
    run_rewire("dropped keys", net, target(net.G, 17, drop=4), 22, 200000,
               CONVERGENCE_LIMIT=40)
    run_rewire("zero weights", net, target(net.G, 17, zero=3), 23, 200000,
               CONVERGENCE_LIMIT=40)
    run_rewire("all zero", net, target(net.G, 17, zero=1), 24, 20000, CONVERGENCE_LIMIT=5)

    # path 0-1-2-3: every pair of edges shares a vertex or has its target present
    for name, edges in (
        ("path3", [(0, 1), (1, 2)]),
        ("path4", [(0, 1), (1, 2), (2, 3)]),
        ("star", [(0, 1), (0, 2), (0, 3), (0, 4)]),
        ("single edge", [(0, 1)]),
        ("two disjoint", [(0, 1), (2, 3)]),
        ("path + disjoint", [(0, 1), (1, 2), (3, 4), (5, 6)]),
        ("no edges", []),
    ):
        G = nx.Graph()
        G.add_nodes_from(range(7))
        for i, e in enumerate(edges):
            G.add_edge(*e)
            G.edges[e][TOP] = "2-clique"
            G.edges[e][MID] = i
        annotate(G)
        net = Network()
        net.G = G
        run_rewire(name, net, target(G, 18), 25, 5000, repeat=2, CONVERGENCE_LIMIT=6)

    # input that already has a self-loop / a vertex shared by two triangles
    G = hand_graph()
    annotate(G)
    net = Network()
    net.G = G
    run_rewire("hand graph", net, target(G, 19), 26, 100000, repeat=2, CONVERGENCE_LIMIT=25)

    # string vertices, reversed natural order
    net0 = build_network(3, 10, 8)
    G = nx.relabel_nodes(net0.G, {v: f"v{99 - v}" for v in net0.G.nodes()})
    net = Network()
    net.G = G
    run_rewire("string vertices", net, target(G, 20), 27, B, CONVERGENCE_LIMIT=80)

    # constructor error path and odd parameters
    call("no network", MarkovChainMonteCarloRewiring, {ToolsNames.EJKS: target(net.G, 20)})
    call("network None", MarkovChainMonteCarloRewiring,
         {ToolsNames.NETWORK: None, ToolsNames.EJKS: target(net.G, 20)})
    m = call("missing params", MarkovChainMonteCarloRewiring, {})
    m = call("params None", MarkovChainMonteCarloRewiring, None)
    del m

    # setters, then rewire again on the same object
    net = build_network(4, 10, 9)
    m = make(net, target(net.G, 21))
    h = attach(m)
    seed_all(29)
    m.convergence_limit = 15
    m.search_limit = 10
    # instance counters shadow the class counters; give them values so that the
    # acceptance ratio samples (floats) are produced
    m._proposal_count = 7
    m._proposals_accepted = 3
    for rep in range(3):
        _draws["calls"] = 0
        _draws["left"] = 200000
        H = call(f"setters [{rep}]", lambda: graph_digest(m.rewire()))
        _draws["left"] = None
        out("    draws", _draws["calls"], rng_state(), logs(h), counters(m))
        m.network = net
        m.ejks = target(net.G, 22 + rep)
    del H


if __name__ == "__main__":
    section_proposal_edge()
    section_suitable()
    section_append()
    section_swap_condition()
    section_rewire()
    out("== end", rng_state(), "class counters",
        MarkovChainMonteCarlo._proposal_count, MarkovChainMonteCarlo._proposals_accepted)
    signal.alarm(0)
