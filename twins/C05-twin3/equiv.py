"""Equivalence digest for gcmpy/joint_degree/joint_degree.py (property C05).

Run with cwd = a checkout of gcmpy.  Prints a deterministic transcript of
results (floats via repr), exceptions, mutated inputs and RNG states.
"""
import sys
import os
import random
import hashlib
from collections import OrderedDict, Counter, defaultdict
from fractions import Fraction

sys.path.insert(0, os.getcwd())

import numpy as np

from gcmpy.joint_degree.joint_degree import JointDegree
from gcmpy.joint_degree.joint_degree_loaders.joint_degree_manual import JointDegreeManual
from gcmpy.joint_degree.joint_degree_loaders.joint_degree_empirical import JointDegreeEmpirical
from gcmpy.joint_degree.joint_degree_loaders.joint_degree_delta import JointDegreeDelta
from gcmpy.joint_degree.joint_degree_loaders.joint_degree_marginal import JointDegreeMarginal
from gcmpy.names.joint_degree_names import JointDegreeNames
from gcmpy.distributions.poisson import poisson


class Plain(JointDegree):
    def create_jdd(self):
        pass


def rng_digest():
    h = hashlib.sha256(repr(random.getstate()).encode()).hexdigest()[:16]
    s = np.random.get_state()
    h2 = hashlib.sha256(repr((s[0], s[1].tobytes(), s[2], s[3], s[4])).encode()).hexdigest()[:16]
    return h + "/" + h2


def show(x):
    if isinstance(x, dict):
        return type(x).__name__ + "{" + ", ".join(
            "%s: %s" % (show(k), show(v)) for k, v in x.items()) + "}"
    if isinstance(x, (list, tuple)):
        o, c = ("[", "]") if isinstance(x, list) else ("(", ")")
        return type(x).__name__ + o + ", ".join(show(e) for e in x) + c
    if isinstance(x, np.ndarray):
        return "ndarray(%s,%s)" % (x.dtype, [repr(float(e)) for e in x.ravel()])
    return "%s:%r" % (type(x).__name__, x)


def long_digest(x):
    s = show(x)
    return "len=%d sha=%s head=%s" % (
        len(s), hashlib.sha256(s.encode()).hexdigest()[:16], s[:160])


def case(label, fn, *mutated, digest=False):
    try:
        r = fn()
        out = long_digest(r) if digest else show(r)
    except BaseException as e:  # noqa
        out = "EXC %s: %s" % (type(e).__name__, e)
        r = None
    print("== " + label)
    print("   result : " + out)
    for name, m in mutated:
        print("   state %s : %s" % (name, long_digest(m() if callable(m) else m) if digest else show(m() if callable(m) else m)))
    print("   rng    : " + rng_digest())
    return r


def seed(n):
    random.seed(n)
    np.random.seed(n)


# ----------------------------------------------------------------- handshaking
seed(1)
o = Plain()
o.motif_sizes = [2, 3]

jds = []
r = case("hs empty", lambda: o.handshaking_lemma(jds), ("jds", jds))
print("   identity:", r is jds)

jds = [(1, 1), (1, 2)]
r = case("hs already ok", lambda: o.handshaking_lemma(jds), ("jds", jds))
print("   identity:", r is jds)

jds = [(1, 1), (2, 0), (0, 0), (4, 3)]
r = case("hs both need fix", lambda: o.handshaking_lemma(jds), ("jds", jds))
print("   identity:", r is jds)
r = case("hs repeated on same list", lambda: o.handshaking_lemma(jds), ("jds", jds))

jds = [[1, 1], [2, 0], [0, 0]]
inner = list(jds)
case("hs list entries", lambda: o.handshaking_lemma(jds), ("jds", jds), ("orig inner lists", inner))

jds = [(1, 1, 7), (2,), (0, 0)]
case("hs ragged", lambda: o.handshaking_lemma(jds), ("jds", jds))

o.motif_sizes = [2, 3, 4, 5, 6, 7]
for sd in range(5):
    seed(100 + sd)
    jds = [tuple(random.randrange(0, 9) for _ in range(6)) for _ in range(50)]
    before = list(jds)
    r = case("hs random 6 tops seed %d" % sd, lambda: o.handshaking_lemma(jds), ("jds", jds), digest=True)
    tot_b = list(map(sum, zip(*before)))
    tot_a = list(map(sum, zip(*r)))
    print("   totals :", tot_b, tot_a, [a - b for a, b in zip(tot_a, tot_b)])

seed(2)
o.motif_sizes = [2]
jds = [(1, 1), (2, 0), (0, 0)]
case("hs motif_sizes too short", lambda: o.handshaking_lemma(jds), ("jds", jds))
o.motif_sizes = [2, 3, 4, 5]
jds = [(1, 1), (2, 0), (0, 0)]
case("hs motif_sizes longer", lambda: o.handshaking_lemma(jds), ("jds", jds))
o.motif_sizes = None
jds = [(1, 1)]
case("hs motif_sizes None", lambda: o.handshaking_lemma(jds), ("jds", jds))
jds = []
case("hs motif_sizes None, empty jds", lambda: o.handshaking_lemma(jds), ("jds", jds))
o.motif_sizes = [2, 0]
jds = [(1, 1), (2, 2)]
case("hs zero size", lambda: o.handshaking_lemma(jds), ("jds", jds))
o.motif_sizes = [-2, -3]
jds = [(1, 1), (2, 2)]
case("hs negative sizes", lambda: o.handshaking_lemma(jds), ("jds", jds))
o.motif_sizes = [2.0, 3]
jds = [(1, 1), (2, 2)]
case("hs float size", lambda: o.handshaking_lemma(jds), ("jds", jds))
o.motif_sizes = [2, 3]
jds = [(1, "a"), (2, "b")]
case("hs non numeric column", lambda: o.handshaking_lemma(jds), ("jds", jds))
jds = [(1.5, 1), (2, 2)]
case("hs float entries", lambda: o.handshaking_lemma(jds), ("jds", jds))
jds = ((1, 1), (2, 0))
case("hs tuple of tuples (immutable)", lambda: o.handshaking_lemma(jds), ("jds", jds))
jds = [(3, 3)]
case("hs single entry", lambda: o.handshaking_lemma(jds), ("jds", jds))


class NoLen:
    """iterable, subscriptable, but not sized"""

    def __init__(self, data):
        self.data = data

    def __iter__(self):
        return iter(self.data)

    def __getitem__(self, j):
        return self.data[j]

    def __setitem__(self, j, v):
        self.data[j] = v


nl = NoLen([(1, 1), (2, 0)])
case("hs unsized container", lambda: type(o.handshaking_lemma(nl)).__name__, ("data", nl.data))
o.motif_sizes = [-2, -3]
nl = NoLen([(1, 1), (2, 0)])
case("hs unsized container, negative sizes", lambda: type(o.handshaking_lemma(nl)).__name__, ("data", nl.data))
o.motif_sizes = [2, 3]
gen = (t for t in [(1, 1), (1, 2)])
case("hs generator, nothing to fix", lambda: type(o.handshaking_lemma(gen)).__name__)
gen = (t for t in [(1, 1), (2, 0)])
case("hs generator, fix needed", lambda: type(o.handshaking_lemma(gen)).__name__)

# ---------------------------------------------------------------------- sample
seed(3)
o = Plain()
o.motif_sizes = [2, 3]
o.jdd = {(1, 0): 0.25, (0, 1): 0.25, (2, 2): 0.5}
for N in (0, 1, 2, 7, 100, 1000):
    case("sample N=%d" % N, lambda: o.sample_jds_from_jdd(N), ("jdd", o.jdd), digest=True)
for rep in range(3):
    r = case("sample repeated %d" % rep, lambda: o.sample_jds_from_jdd(31), digest=True)
    print("   totals :", list(map(sum, zip(*r))), "types", sorted({type(e).__name__ for e in r}))

o.jdd = {(1, 0): 3, (0, 1): 1, (5, 4): 0, (2, 2): 6}
case("sample int weights", lambda: o.sample_jds_from_jdd(40), ("jdd", o.jdd), digest=True)
o.jdd = OrderedDict([((3, 1), 0.1), ((0, 0), 0.7), ((1, 1), 0.2)])
case("sample OrderedDict", lambda: o.sample_jds_from_jdd(40), ("jdd", o.jdd), digest=True)
dd = defaultdict(float)
dd[(1, 2)] += 0.5
dd[(2, 1)] += 1.5
o.jdd = dd
case("sample defaultdict", lambda: o.sample_jds_from_jdd(25), ("jdd", o.jdd), digest=True)
o.jdd = Counter([(1, 2), (1, 2), (0, 3), (4, 4)])
case("sample Counter", lambda: o.sample_jds_from_jdd(25), ("jdd", o.jdd), digest=True)
o.jdd = {(1, 0): Fraction(1, 3), (0, 1): Fraction(2, 3)}
case("sample Fraction weights", lambda: o.sample_jds_from_jdd(25), digest=True)
o.jdd = {(1, 0): np.float64(0.3), (0, 1): np.float64(0.7)}
case("sample numpy weights", lambda: o.sample_jds_from_jdd(25), digest=True)
o.jdd = {}
case("sample empty jdd", lambda: o.sample_jds_from_jdd(5))
case("sample empty jdd N=0", lambda: o.sample_jds_from_jdd(0))
o.jdd = None
case("sample jdd None", lambda: o.sample_jds_from_jdd(5))
o.jdd = [1, 2]
case("sample jdd list", lambda: o.sample_jds_from_jdd(5))
o.jdd = {(1, 0): 0.0, (0, 1): 0.0}
case("sample zero weights", lambda: o.sample_jds_from_jdd(5))
o.jdd = {(1, 0): -1.0, (0, 1): 0.5}
case("sample negative total", lambda: o.sample_jds_from_jdd(5))
o.jdd = {(1, 0): float("inf"), (0, 1): 0.5}
case("sample inf weight", lambda: o.sample_jds_from_jdd(5))
o.jdd = {(1, 0): float("nan"), (0, 1): 0.5}
case("sample nan weight", lambda: o.sample_jds_from_jdd(5))
o.jdd = {(1, 0): "a", (0, 1): "b"}
case("sample str weights", lambda: o.sample_jds_from_jdd(5))
o.jdd = {(1, 0): 0.5, (0, 1): 0.5}
case("sample N negative", lambda: o.sample_jds_from_jdd(-3))
case("sample N float", lambda: o.sample_jds_from_jdd(2.5))
case("sample N None", lambda: o.sample_jds_from_jdd(None))
o.jdd = {3: 0.5, 4: 0.5}
case("sample scalar keys", lambda: o.sample_jds_from_jdd(4))
o.jdd = {(1, 0, 2): 0.5, (0, 1, 1): 0.5}
case("sample more tops than sizes", lambda: o.sample_jds_from_jdd(5))
o.motif_sizes = [2, 3, 4]
case("sample 3 tops", lambda: o.sample_jds_from_jdd(9), digest=True)

# ------------------------------------------------------------------- normalise
seed(4)
o = Plain()
d = {(1, 0): 1.0, (0, 1): 2.0, (2, 2): 0.1, (3, 3): 1e-17, (4, 4): 1e17}
o.jdd = d
case("norm floats", lambda: o.normalise_jdd(), ("jdd", d))
print("   identity:", o.jdd is d)
case("norm floats again", lambda: o.normalise_jdd(), ("jdd", d))
case("norm floats third", lambda: o.normalise_jdd(), ("jdd", d))
d = {(1, 0): 1, (0, 1): 2, (2, 2): 4}
o.jdd = d
case("norm ints", lambda: o.normalise_jdd(), ("jdd", d))
d = {(1, 0): Fraction(1, 3), (0, 1): Fraction(2, 7)}
o.jdd = d
case("norm fractions", lambda: o.normalise_jdd(), ("jdd", d))
a1, a2 = np.array([1.0, 2.0]), np.array([3.0, 5.0])
d = {(1, 0): a1, (0, 1): a2}
o.jdd = d
case("norm ndarray values (in-place op)", lambda: o.normalise_jdd(), ("jdd", d), ("a1", a1), ("a2", a2))
print("   identity:", d[(1, 0)] is a1, d[(0, 1)] is a2)
d = {(1, 0): np.float64(1.5), (0, 1): np.float32(2.5)}
o.jdd = d
case("norm numpy scalars", lambda: o.normalise_jdd(), ("jdd", d))
d = {(1, 0): 0.0, (0, 1): 0.0}
o.jdd = d
case("norm zero sum", lambda: o.normalise_jdd(), ("jdd", d))
d = {(1, 0): 1.0, (0, 1): -1.0, (2, 2): 5.0}
o.jdd = d
case("norm cancels to zero sum first", lambda: o.normalise_jdd(), ("jdd", d))
d = {}
o.jdd = d
case("norm empty", lambda: o.normalise_jdd(), ("jdd", d))
o.jdd = None
case("norm None", lambda: o.normalise_jdd())
d = {(1, 0): 1.0, (0, 1): "x"}
o.jdd = d
case("norm str value", lambda: o.normalise_jdd(), ("jdd", d))
d = {(1, 0): [1.0], (0, 1): [2.0]}
o.jdd = d
case("norm list values", lambda: o.normalise_jdd(), ("jdd", d))
d = OrderedDict([((3, 1), 0.1), ((0, 0), 0.7), ((1, 1), 0.2)])
o.jdd = d
case("norm OrderedDict", lambda: o.normalise_jdd(), ("jdd", d))
dd = defaultdict(float)
dd[(1, 2)] += 0.5
dd[(2, 1)] += 1.5
o.jdd = dd
case("norm defaultdict", lambda: o.normalise_jdd(), ("jdd", dd))
d = {(i, j): (i + 1) * 0.1 + j / 7.0 for i in range(12) for j in range(9)}
o.jdd = d
case("norm larger", lambda: o.normalise_jdd(), ("jdd", d), digest=True)
print("   sum    :", repr(sum(d.values())))
o.motif_sizes = [2, 3]
case("norm then sample", lambda: o.sample_jds_from_jdd(200), digest=True)

# --------------------------------------------------------------------- convert
seed(5)
o = Plain()
old = {(9, 9): 1.0}
o.jdd = old
jds = [(1, 0), (0, 1), (1, 0), (2, 2), (1, 0), (0, 1), (5, 5)]
case("conv basic", lambda: o.convert_jds_to_jdd(jds), ("jdd", lambda: o.jdd), ("old", old), ("jds", jds))
print("   identity:", o.jdd is old, type(o.jdd).__name__)
first = o.jdd
case("conv again same object", lambda: o.convert_jds_to_jdd(jds), ("jdd", lambda: o.jdd), ("first", first))
print("   identity:", o.jdd is first)
case("conv empty", lambda: o.convert_jds_to_jdd([]), ("jdd", lambda: o.jdd))
o.jdd = old
case("conv unhashable entries", lambda: o.convert_jds_to_jdd([[1, 0], [0, 1]]), ("jdd", lambda: o.jdd), ("old", old))
o.jdd = old
case("conv unsized", lambda: o.convert_jds_to_jdd(t for t in [(1, 0)]), ("jdd", lambda: o.jdd))
o.jdd = old
case("conv None", lambda: o.convert_jds_to_jdd(None), ("jdd", lambda: o.jdd))
case("conv string", lambda: o.convert_jds_to_jdd("aab"), ("jdd", lambda: o.jdd))
case("conv dict input", lambda: o.convert_jds_to_jdd({(1, 1): 5, (2, 2): 7}), ("jdd", lambda: o.jdd))
case("conv tuple input", lambda: o.convert_jds_to_jdd(((1, 1), (1, 1), (3, 0))), ("jdd", lambda: o.jdd))
jds = [tuple(random.randrange(0, 4) for _ in range(3)) for _ in range(997)]
case("conv random 997", lambda: o.convert_jds_to_jdd(jds), ("jdd", lambda: o.jdd), digest=True)
print("   sum    :", repr(sum(o.jdd.values())), "order head", list(o.jdd)[:5])
o.motif_sizes = [2, 3, 4]
case("conv then sample", lambda: o.sample_jds_from_jdd(300), digest=True)
case("conv then normalise", lambda: o.normalise_jdd(), ("jdd", lambda: o.jdd), digest=True)
case("conv, normalise then sample", lambda: o.sample_jds_from_jdd(300), digest=True)

# ----------------------------------------------------- through the real loaders
seed(6)
params = {JointDegreeNames.JDD: {(2, 0): 0.3, (0, 1): 0.2, (2, 1): 0.5},
          JointDegreeNames.MOTIF_SIZES: [2, 3]}
m = JointDegreeManual(params)
for rep in range(3):
    case("manual loader sample %d" % rep, lambda: m.sample_jds_from_jdd(500), ("jdd", m.jdd), digest=True)

emp = [(1, 0), (0, 1), (1, 0), (2, 2), (1, 0), (0, 1), (5, 5), (3, 1)]
e = JointDegreeEmpirical({JointDegreeNames.JDS: list(emp), JointDegreeNames.MOTIF_SIZES: [2, 3]})
case("empirical loader jdd", lambda: e.jdd)
for rep in range(3):
    case("empirical loader sample %d" % rep, lambda: e.sample_jds_from_jdd(123), digest=True)

try:
    dl = JointDegreeDelta({JointDegreeNames.MOTIF_SIZES: [2, 3],
                           JointDegreeNames.FP: poisson(2.5),
                           JointDegreeNames.PROBS: [0.6, 0.4],
                           JointDegreeNames.TARGET_K: 3,
                           JointDegreeNames.LOW_HIGH_DEGREE_BOUND: (0, 12)})
    case("delta loader jdd", lambda: dl.jdd, digest=True)
    print("   sum    :", repr(sum(dl.jdd.values())))
    case("delta loader sample", lambda: dl.sample_jds_from_jdd(321), digest=True)
except BaseException as ex:  # noqa
    print("delta loader EXC", type(ex).__name__, ex)

try:
    mg = JointDegreeMarginal({JointDegreeNames.MOTIF_SIZES: [2, 3],
                              JointDegreeNames.ARR_FP: [poisson(1.5), poisson(0.8)],
                              JointDegreeNames.LOW_HIGH_DEGREE_BOUND: [(0, 8), (0, 6)]})
    case("marginal loader jdd", lambda: mg.jdd, digest=True)
    print("   sum    :", repr(sum(mg.jdd.values())))
    case("marginal loader sample", lambda: mg.sample_jds_from_jdd(321), digest=True)
    case("marginal loader renormalise", lambda: mg.normalise_jdd(), ("jdd", mg.jdd), digest=True)
    case("marginal loader sample 2", lambda: mg.sample_jds_from_jdd(321), digest=True)
except BaseException as ex:  # noqa
    print("marginal loader EXC", type(ex).__name__, ex)

print("FINAL rng:", rng_digest())
