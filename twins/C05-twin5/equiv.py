"""
Equivalence digest for property C05 (joint degree sampling).

Run with cwd = a checkout of gcmpy. Uses only the pre-existing signatures of
handshaking_lemma, sample_jds_from_jdd, normalise_jdd and convert_jds_to_jdd,
so it runs on the original code as well as on the extended code.
"""
import hashlib
import os
import random
import sys

sys.path.insert(0, os.getcwd())

import numpy as np  # noqa: E402

from gcmpy.joint_degree.joint_degree import JointDegree  # noqa: E402
from gcmpy.joint_degree.joint_degree_loaders.joint_degree_manual import (  # noqa: E402
    JointDegreeManual,
)
from gcmpy.joint_degree.joint_degree_loaders.joint_degree_empirical import (  # noqa: E402
    JointDegreeEmpirical,
)
from gcmpy.joint_degree.joint_degree_loaders.joint_degree_delta import (  # noqa: E402
    JointDegreeDelta,
)
from gcmpy.joint_degree.joint_degree_distribution import (  # noqa: E402
    JointDegreeDistribution,
)
from gcmpy.names.joint_degree_names import JointDegreeNames  # noqa: E402


def h(obj) -> str:
    return hashlib.sha256(repr(obj).encode()).hexdigest()[:16]


def rng_state() -> str:
    return h(random.getstate()) + "/" + h(np.random.get_state()[1].tolist())


def show(label, fn, *args, **kwargs):
    try:
        res = fn(*args, **kwargs)
        r = repr(res)
        if len(r) > 300:
            r = "len=%d sha=%s head=%s" % (len(res), h(res), repr(res[:6]))
        print(label, "->", type(res).__name__, r)
    except BaseException as e:  # noqa: B902
        print(label, "!! %s: %s" % (type(e).__name__, e))
    print("   rng:", rng_state())


def manual(jdd, sizes):
    return JointDegreeManual(
        {JointDegreeNames.JDD: jdd, JointDegreeNames.MOTIF_SIZES: sizes}
    )


class Bare(JointDegree):
    """Minimal concrete subclass: exercises the base-class __init__ state."""

    def create_jdd(self):
        return


class CountingHandshake(JointDegreeManual):
    """Subclass overriding handshaking_lemma with the OLD signature: the
    sampler must keep dispatching to it with a single positional argument."""

    def handshaking_lemma(self, jds):
        print("   override called with", len(jds), "entries")
        return JointDegreeManual.handshaking_lemma(self, jds)


def section(name):
    print("=" * 8, name)


def main():
    random.seed(20261003)
    np.random.seed(20261003)

    section("abstract instantiation")
    show("JointDegree()", JointDegree)

    section("sample_jds_from_jdd: manual, one topology")
    jdd1 = {(1,): 0.2, (2,): 0.5, (3,): 0.1, (5,): 0.2}
    m1 = manual(jdd1, [2])
    for n in (0, 1, 2, 3, 7, 10, 101, 5000):
        show("m1.sample(%d)" % n, m1.sample_jds_from_jdd, n)
    show("m1.sample(10) again", m1.sample_jds_from_jdd, 10)
    print("   jdd after:", repr(m1.jdd), "sizes:", repr(m1.motif_sizes))
    print("   jdd is input:", m1.jdd is jdd1)

    section("sample_jds_from_jdd: manual, two / three topologies")
    jdd2 = {(1, 0): 0.2, (2, 1): 0.5, (3, 0): 0.1, (5, 1): 0.2}
    m2 = manual(jdd2, [2, 3])
    for n in (1, 2, 5, 17, 1000):
        show("m2.sample(%d)" % n, m2.sample_jds_from_jdd, n)
    jdd3 = {(1, 0, 2): 3, (0, 1, 1): 1.5, (4, 4, 4): 0.25, (0, 0, 0): 2}
    m3 = manual(jdd3, [2, 3, 5])
    for n in (1, 4, 33, 33, 2000):
        show("m3.sample(%d)" % n, m3.sample_jds_from_jdd, n)
    print("   jdd after:", repr(m3.jdd))

    section("sample_jds_from_jdd: unnormalised / integer / zero weights")
    m4 = manual({(1,): 3, (2,): 0, (7,): 1}, [4])
    for n in (1, 9, 50):
        show("m4.sample(%d)" % n, m4.sample_jds_from_jdd, n)
    m5 = manual({(0, 0): 1.0}, [2, 3])
    show("m5.sample(6) all-zero degrees", m5.sample_jds_from_jdd, 6)
    m6 = manual({(1, 1): 1.0}, [1, 1])
    show("m6.sample(5) motif size 1", m6.sample_jds_from_jdd, 5)

    section("sample_jds_from_jdd: error paths")
    show("empty jdd", manual({}, [2]).sample_jds_from_jdd, 3)
    show("empty jdd N=0", manual({}, [2]).sample_jds_from_jdd, 0)
    show("all zero weights", manual({(1,): 0, (2,): 0}, [2]).sample_jds_from_jdd, 3)
    show("negative N", m1.sample_jds_from_jdd, -1)
    show("float N", m1.sample_jds_from_jdd, 2.5)
    show("None N", m1.sample_jds_from_jdd, None)
    show("jdd None", Bare().sample_jds_from_jdd, 3)
    show("motif_sizes None", manual({(1,): 1.0}, None).sample_jds_from_jdd, 3)
    show("motif_sizes too short", manual({(1, 1): 1.0}, [2]).sample_jds_from_jdd, 3)
    show("motif size zero", manual({(1,): 1.0}, [0]).sample_jds_from_jdd, 3)
    show("motif_sizes longer", manual({(1,): 1.0}, [2, 3]).sample_jds_from_jdd, 3)
    show("list keys", manual({(1,): 1.0}, [2]).sample_jds_from_jdd, [1])
    show("keyword N", lambda: m1.sample_jds_from_jdd(N=5))
    show("no args", lambda: m1.sample_jds_from_jdd())
    show("non-tuple keys", manual({1: 0.5, 2: 0.5}, [2]).sample_jds_from_jdd, 3)

    section("sample_jds_from_jdd dispatches to an overriding handshaking_lemma")
    c = CountingHandshake(
        {JointDegreeNames.JDD: jdd2, JointDegreeNames.MOTIF_SIZES: [2, 3]}
    )
    show("override sample(9)", c.sample_jds_from_jdd, 9)
    show("override sample(9)", c.sample_jds_from_jdd, 9)

    section("handshaking_lemma directly (mutation + identity)")
    cases = [
        ("consistent", [(1, 0), (1, 3), (2, 0)], [2, 3]),
        ("one short", [(1, 0), (1, 3), (1, 0)], [2, 3]),
        ("both short", [(1, 1), (1, 3), (1, 0)], [2, 3]),
        ("single", [(1, 1)], [2, 3]),
        ("big motif", [(1,), (0,), (0,), (0,)], [7]),
        ("lists not tuples", [[1, 1], [1, 3], [1, 0]], [2, 3]),
        ("empty", [], [2, 3]),
        ("tuple container", ((1, 1), (2, 2)), [3, 3]),
        ("ragged", [(1, 1), (2,)], [3, 3]),
        ("floats", [(1.5, 1), (1, 2)], [2, 2]),
        ("negative", [(-1,), (-2,)], [2]),
        ("sizes short", [(1, 1), (1, 1)], [3]),
        ("sizes None", [(1, 1)], None),
        ("size zero", [(1, 1)], [2, 0]),
        ("ints", [1, 2, 3], [2]),
        ("np rows", [tuple(r) for r in np.arange(6).reshape(3, 2)], [4, 4]),
    ]
    hobj = manual(jdd2, [2, 3])
    for label, jds, sizes in cases:
        hobj.motif_sizes = sizes
        before = repr(jds)
        out = []

        def call(jds=jds, out=out):
            r = hobj.handshaking_lemma(jds)
            out.append(r)
            return r

        show("hs %s" % label, call)
        print("   input before:", before)
        print("   input after :", repr(jds), "same object:", bool(out) and out[0] is jds)
        # repeated call on the (now consistent) sequence: no draws expected
        show("hs %s (repeat)" % label, call)
    show("hs keyword", lambda: hobj.handshaking_lemma(jds=[(1, 1)]))
    show("hs no args", lambda: hobj.handshaking_lemma())
    show("hs None", hobj.handshaking_lemma, None)
    print("   sizes after:", repr(hobj.motif_sizes), "jdd:", repr(hobj.jdd))

    section("handshaking_lemma on large random input")
    big = [(random.randrange(6), random.randrange(4), random.randrange(3)) for _ in range(3001)]
    hobj.motif_sizes = [5, 4, 7]
    show("hs big", hobj.handshaking_lemma, big)
    tot = list(map(sum, zip(*big)))
    print("   totals:", tot)

    section("normalise_jdd")
    for label, jdd in [
        ("floats", {(1,): 0.2, (2,): 0.5, (3,): 0.1, (5,): 0.7}),
        ("ints", {(1, 0): 3, (2, 1): 1, (0, 0): 7}),
        ("tiny", {(1,): 1e-300, (2,): 3e-300, (3,): 0.1 + 0.2}),
        ("single", {(4,): 0.3}),
        ("empty", {}),
        ("zero sum", {(1,): 0, (2,): 0}),
        ("zero sum float", {(1,): 0.0}),
        ("np weights", {(1,): np.float64(0.25), (2,): np.float64(0.5)}),
        ("strings", {(1,): "a"}),
    ]:
        o = manual(jdd, [2])
        show("normalise %s" % label, o.normalise_jdd)
        print("   jdd:", repr(o.jdd), "same dict:", o.jdd is jdd)
        show("normalise %s (again)" % label, o.normalise_jdd)
        print("   jdd:", repr(o.jdd))
    show("normalise None", Bare().normalise_jdd)
    show("normalise with arg", lambda: manual({(1,): 1}, [2]).normalise_jdd(1))

    section("convert_jds_to_jdd")
    for label, jds in [
        ("basic", [(1, 0), (2, 1), (1, 0), (3, 3), (1, 0), (2, 1), (0, 0)]),
        ("thirds", [(1,), (2,), (3,)]),
        ("single", [(5, 5)]),
        ("empty", []),
        ("ints", [1, 2, 2, 3]),
        ("unhashable", [[1, 2], [1, 2]]),
        ("tuple container", ((1,), (1,), (2,))),
        ("none", None),
        ("generator", (x for x in [(1,), (2,)])),
        ("big", [(random.randrange(4), random.randrange(3)) for _ in range(997)]),
    ]:
        o = manual({(9,): 1.0}, [2, 3])
        olddict = o.jdd
        before = repr(jds) if not hasattr(jds, "__next__") else "<gen>"
        show("convert %s" % label, o.convert_jds_to_jdd, jds)
        r = repr(o.jdd)
        print("   jdd:", r if len(r) < 400 else h(o.jdd), "order:", h(list(o.jdd or [])))
        print("   old dict untouched:", repr(olddict), "replaced:", o.jdd is not olddict)
        if before != "<gen>":
            print("   input unchanged:", before == repr(jds))
        show("convert %s (again)" % label, o.convert_jds_to_jdd, jds)
        print("   jdd:", h(o.jdd))
        show("sample after convert %s" % label, o.sample_jds_from_jdd, 11)
    show("convert keyword", lambda: manual({}, [2]).convert_jds_to_jdd(jds=[(1,)]))
    show("convert no args", lambda: manual({}, [2]).convert_jds_to_jdd())

    section("loaders that call the changed helpers")
    emp_jds = [(1, 0), (2, 1), (1, 0), (3, 3), (1, 0), (2, 1), (0, 0), (4, 2)]
    e = JointDegreeEmpirical(
        {JointDegreeNames.JDS: emp_jds, JointDegreeNames.MOTIF_SIZES: [2, 3]}
    )
    print("   empirical jdd:", repr(e.jdd))
    for n in (3, 10, 500):
        show("empirical.sample(%d)" % n, e.sample_jds_from_jdd, n)
    print("   empirical input:", repr(emp_jds))

    def fp(k):
        return 0.5 ** k

    dparams = {
        JointDegreeNames.TARGET_K: 4,
        JointDegreeNames.FP: fp,
        JointDegreeNames.PROBS: [0.5, 0.5],
        JointDegreeNames.MOTIF_SIZES: [2, 3],
        JointDegreeNames.LOW_HIGH_DEGREE_BOUND: (1, 8),
    }
    show("delta build", lambda: repr(JointDegreeDelta(dparams).jdd))
    d = JointDegreeDelta(dparams)
    for n in (4, 250):
        show("delta.sample(%d)" % n, d.sample_jds_from_jdd, n)

    lp = {
        JointDegreeNames.JOINT_DEGREE_TYPE: "manual",
        JointDegreeNames.JDD: dict(jdd2),
        JointDegreeNames.MOTIF_SIZES: [2, 3],
    }
    ld = JointDegreeDistribution.load_joint_degree(lp)
    show("loader.sample(40)", ld.sample_jds_from_jdd, 40)
    lp2 = {
        JointDegreeNames.JOINT_DEGREE_TYPE: "empirical",
        JointDegreeNames.JDS: list(emp_jds),
        JointDegreeNames.MOTIF_SIZES: [2, 3],
    }
    ld2 = JointDegreeDistribution.load_joint_degree(lp2)
    show("loader empirical.sample(40)", ld2.sample_jds_from_jdd, 40)
    print("   ld2 jdd:", repr(ld2.jdd))

    section("interleaving: object history / call order")
    a = manual(dict(jdd2), [2, 3])
    b = manual(dict(jdd1), [2])
    for n in (3, 5, 8):
        show("a.sample(%d)" % n, a.sample_jds_from_jdd, n)
        show("b.sample(%d)" % n, b.sample_jds_from_jdd, n)
        a.normalise_jdd()
        show("a.sample(%d) post-normalise" % n, a.sample_jds_from_jdd, n)
        s = a.sample_jds_from_jdd(n)
        a.convert_jds_to_jdd(s)
        print("   a.jdd:", repr(a.jdd))
    a.jdd = {(2, 3): 1.0}
    a.motif_sizes = [5, 5]
    show("a.sample(4) after setters", a.sample_jds_from_jdd, 4)

    section("usable downstream + statistical sanity of the draws")
    o = manual(dict(jdd2), [2, 3])
    jds = o.sample_jds_from_jdd(20000)
    print("   all tuples of ints:", all(type(t) is tuple and all(type(x) is int for x in t) for t in jds))
    print("   totals:", list(map(sum, zip(*jds))))
    from collections import Counter

    print("   counts:", sorted(Counter(jds).items()))

    section("public surface of the pre-existing names")
    import inspect

    for name in ("handshaking_lemma", "sample_jds_from_jdd", "normalise_jdd", "convert_jds_to_jdd", "create_jdd"):
        f = getattr(JointDegree, name)
        params = list(inspect.signature(f).parameters.values())
        required = [p.name for p in params if p.default is inspect.Parameter.empty]
        print("  ", name, "required params:", required)
    print("   jdd/motif_sizes are properties:", isinstance(JointDegree.jdd, property), isinstance(JointDegree.motif_sizes, property))
    print("   bool(obj):", bool(o), "hashable:", isinstance(hash(o), int))
    try:
        len(o)
    except TypeError as ex:
        print("   len(obj) TypeError:", ex)
    try:
        (1, 0) in o
    except TypeError as ex:
        print("   in obj TypeError:", ex)
    print("   instance dict keys:", sorted(vars(o)))
    print("   Bare instance dict:", sorted(vars(Bare()).items()))
    print("   final rng:", rng_state())


if __name__ == "__main__":
    main()
