import sys, os; sys.path.insert(0, os.getcwd())
import hashlib
import random

import numpy as np

from gcmpy.tools.draw_set import DrawSet

H = hashlib.sha256()
LINES = []


def emit(*parts):
    s = " ".join(repr(p) for p in parts)
    H.update(s.encode() + b"\n")
    if len(LINES) < 400:
        LINES.append(s)


def rng_digest():
    a = hashlib.sha256(repr(random.getstate()).encode()).hexdigest()[:16]
    st = np.random.get_state()
    b = hashlib.sha256(repr((st[0], st[1].tolist(), st[2:])).encode()).hexdigest()[:16]
    return a, b


def attempt(label, f, *args):
    try:
        r = f(*args)
        emit(label, "ok", r)
        return r
    except BaseException as exc:
        emit(label, "raise", type(exc).__name__, exc.args)
        return None


def snapshot(ds):
    return (len(ds), list(ds), list(ds._edges), list(ds._edge_hashmap.items()),
            type(iter(ds)).__name__, type(ds._edges).__name__, type(ds._edge_hashmap).__name__)


class Probe(object):
    log = []

    def __init__(self, k, h=None):
        self.k = k
        self.h = k if h is None else h

    def __hash__(self):
        Probe.log.append(("hash", self.k))
        return self.h

    def __eq__(self, other):
        Probe.log.append(("eq", self.k, getattr(other, "k", None)))
        return isinstance(other, Probe) and other.k == self.k

    def __repr__(self):
        return "P%r" % (self.k,)


def scenario_errors(seed):
    random.seed(seed)
    np.random.seed(seed)
    ds = DrawSet()
    emit("empty", snapshot(ds))
    attempt("draw-empty", ds.draw)
    attempt("remove-empty", ds.remove, (1, 2))
    attempt("contains-empty", ds.__contains__, (1, 2))
    attempt("contains-unhashable", ds.__contains__, [1, 2])
    attempt("add-unhashable", ds.add, [1, 2])
    attempt("remove-unhashable", ds.remove, [1, 2])
    attempt("contains-unhashable-in-tuple", ds.__contains__, (1, [2]))
    emit("after-errors", snapshot(ds), rng_digest())
    ds.add((1, 2))
    ds.add((1, 2))
    ds.add((2, 1))
    emit("dups", snapshot(ds))
    attempt("remove-absent", ds.remove, (9, 9))
    attempt("remove-unhashable-nonempty", ds.remove, [1, 2])
    attempt("contains-unhashable-nonempty", ds.__contains__, [1, 2])
    attempt("add-unhashable-nonempty", ds.add, {1: 2})
    emit("after-absent", snapshot(ds))
    for _ in range(5):
        attempt("draw", ds.draw)
    ds.remove((1, 2))
    emit("rm-first", snapshot(ds))
    ds.remove((2, 1))
    emit("rm-only", snapshot(ds))
    attempt("draw-empty-again", ds.draw)
    attempt("remove-twice", ds.remove, (2, 1))
    emit("end-errors", snapshot(ds), rng_digest())
    for x in (None, 0, 0.0, False, "", (), 1, 1.0, True, float("nan"), frozenset([1])):
        attempt("add-odd", ds.add, x)
        emit("odd-in", x in ds, len(ds))
    emit("odd", snapshot(ds)[:3].__repr__())
    for x in (0.0, True, ()):
        attempt("rm-odd", ds.remove, x)
    emit("odd2", repr(snapshot(ds)))
    for _ in range(8):
        emit("odd-draw", repr(ds.draw()))
    emit(rng_digest())


def scenario_probe(seed):
    random.seed(seed)
    Probe.log = []
    ds = DrawSet()
    ps = [Probe(i, h=i % 3) for i in range(9)]
    for p in ps:
        ds.add(p)
    for p in ps[::2]:
        ds.add(Probe(p.k, h=p.h))
    emit("probe-add", snapshot(ds), list(Probe.log))
    Probe.log = []
    for i in (0, 4, 8, 11):
        emit("probe-in", Probe(i, h=i % 3) in ds)
    emit("probe-in-log", list(Probe.log))
    Probe.log = []
    for i in (8, 0, 3, 3, 12):
        attempt("probe-rm", ds.remove, Probe(i, h=i % 3))
        emit("probe-state", snapshot(ds))
    emit("probe-rm-log", list(Probe.log))
    Probe.log = []
    for _ in range(10):
        emit("probe-draw", ds.draw())
    emit("probe-draw-log", list(Probe.log), rng_digest())


def scenario_model(seed, universe, steps):
    random.seed(seed)
    np.random.seed(seed)
    ctl = random.Random(seed * 7919 + 1)
    ds = DrawSet()
    model = []
    for step in range(steps):
        op = ctl.random()
        u = ctl.randrange(universe)
        v = ctl.randrange(universe)
        e = tuple(sorted((u, v)))
        if op < 0.40:
            r = attempt("add", ds.add, e)
            if e not in model:
                model.append(e)
        elif op < 0.70:
            if model and ctl.random() < 0.8:
                e = model[ctl.randrange(len(model))]
            attempt("remove", ds.remove, e)
            if e in model:
                model.remove(e)
        elif op < 0.90:
            d = attempt("draw", ds.draw)
            emit("draw-member", d in ds if d is not None else None)
        else:
            emit("contains", e, e in ds, e in model)
        emit(step, len(ds), sorted(ds) == sorted(model), hashlib.sha256(repr(snapshot(ds)).encode()).hexdigest()[:12])
    seen = set()
    if len(ds):
        for _ in range(60 * len(ds)):
            seen.add(ds.draw())
    emit("coverage", sorted(seen) == sorted(ds), len(seen))
    for e in list(ds):
        ds.remove(e)
        emit("drain", len(ds), list(ds._edge_hashmap.items()) == [(x, i) for i, x in enumerate(ds._edges)] or sorted(ds._edge_hashmap.items(), key=lambda t: t[1]) == [(x, i) for i, x in enumerate(ds._edges)])
    attempt("draw-drained", ds.draw)
    emit("model-end", snapshot(ds), rng_digest())


def scenario_big(seed):
    random.seed(seed)
    ds = DrawSet()
    for i in range(5000):
        ds.add((i, i + 1))
    out = [ds.draw() for _ in range(3000)]
    emit("big", hashlib.sha256(repr(out).encode()).hexdigest(), rng_digest())
    for i in range(0, 5000, 3):
        ds.remove((i, i + 1))
    out = [ds.draw() for _ in range(3000)]
    emit("big2", len(ds), hashlib.sha256(repr(out).encode()).hexdigest(),
         hashlib.sha256(repr(snapshot(ds)).encode()).hexdigest(), rng_digest())
    for n in (1, 2, 3, 7, 8, 9, 31, 32, 33, 255, 256, 257):
        random.seed(n)
        d2 = DrawSet()
        for i in range(n):
            d2.add((i,))
        emit("pow2", n, [d2.draw() for _ in range(40)], rng_digest())


for s in range(3):
    scenario_errors(s)
    scenario_probe(s)
for s in range(12):
    scenario_model(s, 2 + s % 5, 300)
for s in range(4):
    scenario_model(100 + s, 25, 1500)
scenario_big(5)

for line in LINES:
    print(line)
print("lines-hashed-digest", H.hexdigest())
print("rng", rng_digest())
