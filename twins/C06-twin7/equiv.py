import sys, os; sys.path.insert(0, os.getcwd())

import hashlib
import math
import random
import warnings

warnings.simplefilter("ignore")

import numpy as np

from gcmpy.joint_degree.joint_degree import JointDegree
from gcmpy.joint_degree.joint_degree_type import JointDegreeType
from gcmpy.joint_degree.joint_degree_factory import JointDegreeFactory
from gcmpy.joint_degree.joint_degree_distribution import JointDegreeDistribution
from gcmpy.joint_degree.joint_degree_loaders.joint_degree_manual import JointDegreeManual
from gcmpy.joint_degree.joint_degree_loaders.joint_degree_empirical import (
    JointDegreeEmpirical,
)
from gcmpy.joint_degree.joint_degree_loaders.joint_degree_marginal import (
    JointDegreeMarginal,
)
from gcmpy.joint_degree.joint_degree_loaders.joint_degree_function import (
    JointDegreeFunction,
)
from gcmpy.names.joint_degree_names import JointDegreeNames as N


def rng_digest():
    h = hashlib.sha256()
    h.update(repr(random.getstate()).encode())
    st = np.random.get_state()
    h.update(repr((st[0], st[1].tolist(), st[2], st[3], repr(st[4]))).encode())
    return h.hexdigest()[:16]


def show(x):
    if isinstance(x, dict):
        return "{" + ", ".join(f"{show(k)}: {show(v)}" for k, v in x.items()) + "}"
    if isinstance(x, (list, tuple)):
        body = ", ".join(show(e) for e in x)
        return ("[%s]" if isinstance(x, list) else "(%s)") % body
    return f"{type(x).__name__}:{x!r}"


def digest(x):
    s = show(x)
    if len(s) > 400:
        return f"len={len(s)} sha={hashlib.sha256(s.encode()).hexdigest()[:16]} head={s[:120]}"
    return s


def seed(n):
    random.seed(n)
    np.random.seed(n)


def attempt(label, fn):
    try:
        r = fn()
        print(f"{label}: OK {digest(r)} | rng={rng_digest()}")
        return r
    except BaseException as e:  # noqa
        ctx = type(e.__context__).__name__ if e.__context__ is not None else None
        print(f"{label}: EXC {type(e).__name__}: {e} | ctx={ctx} | rng={rng_digest()}")
        return None


def poisson(mean):
    return lambda k: math.exp(-mean) * mean**k / math.factorial(k)


def geometric(p):
    return lambda k: p * (1.0 - p) ** k


class CountingFn:
    """Callable that records the order in which it is called."""

    def __init__(self, fn):
        self.fn = fn
        self.calls = []

    def __call__(self, k):
        self.calls.append(k)
        return self.fn(k)


class FailAfter:
    def __init__(self, fn, n):
        self.fn, self.n, self.calls = fn, n, 0

    def __call__(self, k):
        self.calls += 1
        if self.calls > self.n:
            raise ArithmeticError(f"fail at call {self.calls} arg {k!r}")
        return self.fn(k)


def state(obj):
    return {"jdd": obj.jdd, "motif_sizes": obj.motif_sizes}


print("== section 1: manual loader")
seed(1)
jdd_in = {(1, 0): 0.25, (0, 1): 0.25, (2, 2): 0.5}
sizes_in = [2, 3]
p = {N.JDD: jdd_in, N.MOTIF_SIZES: sizes_in}
m = attempt("manual.ctor", lambda: state(JointDegreeManual(p)))
m = JointDegreeManual(p)
print("manual same object:", m.jdd is jdd_in, m.motif_sizes is sizes_in)
attempt("manual.create_jdd", lambda: m.create_jdd())
attempt("manual.create_jdd again", lambda: (m.create_jdd(), state(m))[1])
attempt("manual.missing jdd", lambda: JointDegreeManual({N.MOTIF_SIZES: [2]}))
attempt("manual.missing sizes", lambda: JointDegreeManual({N.JDD: {}}))
attempt("manual.not a dict", lambda: JointDegreeManual(None))
attempt("manual.empty jdd", lambda: state(JointDegreeManual({N.JDD: {}, N.MOTIF_SIZES: []})))
for n in (0, 1, 7, 50):
    attempt(f"manual.sample {n}", lambda: m.sample_jds_from_jdd(n))
attempt("manual.sample repeated", lambda: [m.sample_jds_from_jdd(5) for _ in range(3)])
print("manual inputs after:", digest(jdd_in), digest(sizes_in), digest({k.name: v for k, v in p.items()}))
m.jdd = {(3,): 1.0}
m.motif_sizes = [4]
attempt("manual.setters", lambda: state(m))
attempt("manual.sample after setters", lambda: m.sample_jds_from_jdd(3))
m.jdd = {(3,): 0.0}
attempt("manual.zero weights", lambda: m.sample_jds_from_jdd(3))
m.jdd = {}
attempt("manual.empty sample", lambda: m.sample_jds_from_jdd(3))
attempt("manual.empty sample 0", lambda: m.sample_jds_from_jdd(0))
m.jdd = None
attempt("manual.None jdd sample", lambda: m.sample_jds_from_jdd(3))

print("== section 2: handshaking lemma / base class")
seed(2)
attempt("abstract ctor", lambda: JointDegree())
attempt("abstract ctor args", lambda: JointDegree({}))
h = JointDegreeManual({N.JDD: {(1, 1): 1.0}, N.MOTIF_SIZES: [2, 3]})
for jds in (
    [],
    [(1, 1)],
    [(1, 1), (2, 0)],
    [(1, 2), (2, 2), (0, 3)],
    [(2, 3), (2, 3)],
    [(0, 0)] * 4,
    [(5, 7), (1, 1), (3, 2), (4, 4), (9, 1)],
    [(), ()],
    [[1, 1], [2, 2]],
    [(1.5, 2.0), (1.0, 1.0)],
):
    original = list(jds)
    r = attempt(f"handshake {original!r}", lambda: h.handshaking_lemma(jds))
    print("   same list returned:", r is jds, "| input now:", digest(jds))
h.motif_sizes = [2]
attempt("handshake too few sizes", lambda: h.handshaking_lemma([(1, 1), (2, 2)]))
attempt("handshake too few sizes odd", lambda: h.handshaking_lemma([(1, 1), (2, 2), (2, 2)]))
h.motif_sizes = [0, 3]
attempt("handshake zero size", lambda: h.handshaking_lemma([(1, 1)]))
h.motif_sizes = [3, 2, 5]
attempt("handshake extra size", lambda: h.handshaking_lemma([(1, 1), (1, 0)]))
h.motif_sizes = None
attempt("handshake None sizes", lambda: h.handshaking_lemma([(1, 1)]))
attempt("handshake None sizes empty", lambda: h.handshaking_lemma([]))
h.motif_sizes = [2, 3]
attempt("handshake tuple input", lambda: h.handshaking_lemma(((1, 1), (2, 1))))
attempt("handshake non-iterable", lambda: h.handshaking_lemma(5))
attempt("handshake numpy", lambda: h.handshaking_lemma([tuple(r) for r in np.array([[1, 2], [2, 2]])]))
h.motif_sizes = (4, 7)
big = [(i % 5, (i * 3) % 4) for i in range(101)]
attempt("handshake big", lambda: h.handshaking_lemma(big))
attempt("handshake big again", lambda: h.handshaking_lemma(big))

# normalise / convert through public methods
h.jdd = {(1,): 2.0, (2,): 6.0, (3,): 0.5}
attempt("normalise", lambda: (h.normalise_jdd(), h.jdd)[1])
attempt("normalise again", lambda: (h.normalise_jdd(), h.jdd)[1])
h.jdd = {(1,): 1, (2,): 3}
attempt("normalise ints", lambda: (h.normalise_jdd(), h.jdd)[1])
h.jdd = {(1,): 0.0, (2,): 0.0}
attempt("normalise zeros", lambda: (h.normalise_jdd(), h.jdd)[1])
print("   after:", digest(h.jdd))
h.jdd = {(1,): 0, (2,): 0}
attempt("normalise int zeros", lambda: (h.normalise_jdd(), h.jdd)[1])
print("   after:", digest(h.jdd))
h.jdd = {}
attempt("normalise empty", lambda: (h.normalise_jdd(), h.jdd)[1])
h.jdd = None
attempt("normalise None", lambda: h.normalise_jdd())
h.jdd = {(1,): 0.1, (2,): 0.2, (3,): 0.3, (4,): 0.7, (5,): 1e-17, (6,): 1e17}
attempt("normalise awkward floats", lambda: (h.normalise_jdd(), h.jdd)[1])
keep = h.jdd
for jds in (
    [(1, 1), (2, 2), (1, 1)],
    [],
    [(3,)] * 7 + [(1,)] * 3 + [(2,)] * 3,
    [(2, 1), (1, 2), (2, 1), (0, 0), (1, 2), (2, 1)],
    ((1,), (1,), (2,)),
    "aab",
    [1, 1.0, True, 2],
):
    attempt(f"convert {jds!r}", lambda: (h.convert_jds_to_jdd(jds), h.jdd)[1])
print("   old dict untouched:", digest(keep), h.jdd is keep)
before = h.jdd
attempt("convert unhashable", lambda: h.convert_jds_to_jdd([[1], [2]]))
print("   jdd after failure:", digest(h.jdd), h.jdd is before)
h.jdd = {"x": 1.0}
attempt("convert no len", lambda: h.convert_jds_to_jdd(iter([(1,)])))
print("   jdd after failure:", digest(h.jdd))
attempt("convert None", lambda: h.convert_jds_to_jdd(None))
print("   jdd after failure:", digest(h.jdd))

print("== section 3: empirical loader")
seed(3)
obs = [(1, 0), (0, 1), (1, 0), (2, 2), (1, 0), (0, 1), (3, 1)]
ep = {N.JDS: obs, N.MOTIF_SIZES: [2, 3]}
e = JointDegreeEmpirical(ep)
attempt("empirical.ctor", lambda: state(e))
print("empirical jds identity:", e.empirical_jds is obs, digest(obs))
attempt("empirical.create again", lambda: (e.create_jdd(), state(e))[1])
e.empirical_jds = [(5, 5)] * 3 + [(4, 4)]
attempt("empirical.setter+create", lambda: (e.create_jdd(), state(e), e.empirical_jds)[1:])
attempt("empirical.sample", lambda: e.sample_jds_from_jdd(9))
attempt("empirical.sample again", lambda: e.sample_jds_from_jdd(9))
attempt("empirical.empty", lambda: state(JointDegreeEmpirical({N.JDS: [], N.MOTIF_SIZES: [2]})))
attempt("empirical.missing jds", lambda: JointDegreeEmpirical({N.MOTIF_SIZES: [2]}))
attempt("empirical.missing sizes", lambda: JointDegreeEmpirical({N.JDS: [(1,)]}))
attempt("empirical.unhashable", lambda: JointDegreeEmpirical({N.JDS: [[1], [1]], N.MOTIF_SIZES: [2]}))
attempt("empirical.none jds", lambda: JointDegreeEmpirical({N.JDS: None, N.MOTIF_SIZES: [2]}))
rand_obs = [(random.randrange(4), random.randrange(3), random.randrange(2)) for _ in range(500)]
attempt("empirical.random", lambda: state(JointDegreeEmpirical({N.JDS: rand_obs, N.MOTIF_SIZES: [2, 3, 4]})))

print("== section 4: marginal loader (direct)")
seed(4)
f1, f2 = CountingFn(poisson(1.5)), CountingFn(geometric(0.3))
mp = {N.ARR_FP: [f1, f2], N.MOTIF_SIZES: [2, 3], N.LOW_HIGH_DEGREE_BOUND: [(0, 4), (1, 5)]}
md = JointDegreeMarginal(mp)
attempt("marginal.direct ctor", lambda: state(md))
print("   call order:", f1.calls, f2.calls)
attempt("marginal.generate_all", lambda: md.generate_all_joint_degrees())
attempt("marginal.evaluate", lambda: [md.evaluate_prob_of_joint_degree(jd) for jd in [(0, 1), (3, 4), (2,), (), [1, 2]]])
attempt("marginal.evaluate too long", lambda: md.evaluate_prob_of_joint_degree((1, 1, 1)))
attempt("marginal.create_jdd again", lambda: (md.create_jdd(), state(md))[1])
attempt("marginal.create_directly again", lambda: (md.create_jdd_directly(), state(md))[1])
print("   call counts:", len(f1.calls), len(f2.calls), f1.calls[-5:], f2.calls[-5:])
attempt("marginal.sum", lambda: sum(md.jdd.values()))
attempt("marginal.sample", lambda: md.sample_jds_from_jdd(20))
for bounds in ([(0, 0), (1, 3)], [(2, 1)], [], [(0, 3)], ((1, 3), (1, 3), (1, 3)), [(0, 2, 3)], [(0,)], [("a", "b")], [(0.0, 2.0)], None, 5):
    fs = [poisson(2.0), geometric(0.5), poisson(0.7)]
    attempt(
        f"marginal.direct bounds {bounds!r}",
        lambda: state(JointDegreeMarginal({N.ARR_FP: fs, N.MOTIF_SIZES: [2, 2, 2], N.LOW_HIGH_DEGREE_BOUND: bounds})),
    )
attempt("marginal.too few fps", lambda: state(JointDegreeMarginal({N.ARR_FP: [poisson(1.0)], N.MOTIF_SIZES: [2, 3], N.LOW_HIGH_DEGREE_BOUND: [(0, 2), (0, 2)]})))
fa = FailAfter(poisson(1.0), 5)
holder = {}


def make_failing():
    class Probe(JointDegreeMarginal):
        def __init__(self, params):
            holder["obj"] = self
            super().__init__(params)

    return Probe({N.ARR_FP: [fa, poisson(2.0)], N.MOTIF_SIZES: [2, 3], N.LOW_HIGH_DEGREE_BOUND: [(0, 3), (0, 3)]})


attempt("marginal.fp fails midway", make_failing)
print("   partial jdd:", digest(holder["obj"].jdd))
attempt("marginal.zero weights", lambda: state(JointDegreeMarginal({N.ARR_FP: [lambda k: 0.0], N.MOTIF_SIZES: [2], N.LOW_HIGH_DEGREE_BOUND: [(0, 3)]})))
attempt("marginal.int weights", lambda: state(JointDegreeMarginal({N.ARR_FP: [lambda k: k, lambda k: 2], N.MOTIF_SIZES: [2, 2], N.LOW_HIGH_DEGREE_BOUND: [(0, 3), (1, 3)]})))
attempt("marginal.missing arr_fp", lambda: JointDegreeMarginal({N.MOTIF_SIZES: [2], N.LOW_HIGH_DEGREE_BOUND: [(0, 3)]}))
attempt("marginal.missing bounds", lambda: JointDegreeMarginal({N.MOTIF_SIZES: [2], N.ARR_FP: []}))
attempt("marginal.missing sizes", lambda: JointDegreeMarginal({N.ARR_FP: [], N.LOW_HIGH_DEGREE_BOUND: [(0, 3)]}))
attempt("marginal.params None", lambda: JointDegreeMarginal(None))
print("marginal inputs after:", digest(mp[N.LOW_HIGH_DEGREE_BOUND]), digest(mp[N.MOTIF_SIZES]), len(mp[N.ARR_FP]))

print("== section 5: marginal loader (sampling)")
seed(5)
g1, g2 = CountingFn(poisson(1.5)), CountingFn(geometric(0.3))
sp = {
    N.ARR_FP: [g1, g2],
    N.MOTIF_SIZES: [2, 3],
    N.LOW_HIGH_DEGREE_BOUND: [(0, 4), (1, 5)],
    N.USE_SAMPLING: True,
    N.N_SAMPLES: 200,
}
ms = JointDegreeMarginal(sp)
attempt("marginal.sampling ctor", lambda: state(ms))
print("   call order:", g1.calls, g2.calls)
attempt("marginal.draw", lambda: ms.draw_from_analytical_joint())
attempt("marginal.create_by_sampling", lambda: (ms.create_jdd_by_sampling(), state(ms))[1])
attempt("marginal.create_jdd sampling", lambda: (ms.create_jdd(), state(ms))[1])
attempt("marginal.create_directly on sampling obj", lambda: (ms.create_jdd_directly(), state(ms))[1])
attempt("marginal.sampling sample", lambda: ms.sample_jds_from_jdd(11))
for use, n in ((True, 0), (True, 1), (1, 3), (0, 3), ("yes", 2), ([], 2), (None, 2), (True, -1), (True, 2.5), (True, None)):
    attempt(
        f"marginal.sampling flag={use!r} n={n!r}",
        lambda: state(
            JointDegreeMarginal(
                {
                    N.ARR_FP: [poisson(1.0), geometric(0.4)],
                    N.MOTIF_SIZES: [2, 3],
                    N.LOW_HIGH_DEGREE_BOUND: [(0, 3), (0, 2)],
                    N.USE_SAMPLING: use,
                    N.N_SAMPLES: n,
                }
            )
        ),
    )
for bounds in ([], [(0, 0)], [(2, 1)], ((1, 3), (1, 3), (1, 3)), [(0, 2, 3)], {0: (0, 2), 1: (1, 2)}, None):
    attempt(
        f"marginal.sampling bounds {bounds!r}",
        lambda: state(
            JointDegreeMarginal(
                {
                    N.ARR_FP: [poisson(2.0), geometric(0.5), poisson(0.7)],
                    N.MOTIF_SIZES: [2, 2, 2],
                    N.LOW_HIGH_DEGREE_BOUND: bounds,
                    N.USE_SAMPLING: True,
                    N.N_SAMPLES: 6,
                }
            )
        ),
    )
attempt("marginal.sampling default n (only use_sampling)", lambda: len(JointDegreeMarginal({N.ARR_FP: [poisson(1.0)], N.MOTIF_SIZES: [2], N.LOW_HIGH_DEGREE_BOUND: [(0, 2)], N.USE_SAMPLING: True}).jdd))
attempt("marginal.sampling zero weights", lambda: state(JointDegreeMarginal({N.ARR_FP: [lambda k: 0.0], N.MOTIF_SIZES: [2], N.LOW_HIGH_DEGREE_BOUND: [(0, 3)], N.USE_SAMPLING: True, N.N_SAMPLES: 4})))
attempt("marginal.sampling too few fps", lambda: state(JointDegreeMarginal({N.ARR_FP: [poisson(1.0)], N.MOTIF_SIZES: [2, 2], N.LOW_HIGH_DEGREE_BOUND: [(0, 3), (0, 3)], N.USE_SAMPLING: True, N.N_SAMPLES: 4})))

print("== section 6: function loader")
seed(6)
calls = []


def joint(jd):
    calls.append(jd)
    return math.exp(-sum(jd)) / (1 + jd[0])


fp_params = {N.FP: joint, N.MOTIF_SIZES: [2, 3], N.LOW_HIGH_DEGREE_BOUND: [(0, 2), (1, 3)]}
jf = JointDegreeFunction(fp_params)
attempt("function.ctor", lambda: state(jf))
print("   call order:", calls)
attempt("function.create again", lambda: (jf.create_jdd(), state(jf))[1])
print("   n calls:", len(calls), type(calls[0]).__name__)
attempt("function.sample", lambda: jf.sample_jds_from_jdd(10))
for bounds in ([], [(0, 0)], [(2, 1)], [(1, 0), (0, 3)], ((1, 2), (1, 2), (1, 2)), [(0, 2, 3)], [("a", "b")], [(0.0, 1.0)], None, (0, 50)):
    attempt(
        f"function.bounds {bounds!r}",
        lambda: state(JointDegreeFunction({N.FP: lambda jd: float(sum(jd)) + 0.5, N.MOTIF_SIZES: [2], N.LOW_HIGH_DEGREE_BOUND: bounds})),
    )
attempt("function.missing fp", lambda: JointDegreeFunction({N.MOTIF_SIZES: [2], N.LOW_HIGH_DEGREE_BOUND: [(0, 1)]}))
attempt("function.missing bounds", lambda: JointDegreeFunction({N.MOTIF_SIZES: [2], N.FP: joint}))
attempt("function.missing sizes", lambda: JointDegreeFunction({N.FP: joint, N.LOW_HIGH_DEGREE_BOUND: [(0, 1)]}))
attempt("function.kw param", lambda: state(JointDegreeFunction(param={N.FP: lambda jd: 1.0, N.MOTIF_SIZES: [2], N.LOW_HIGH_DEGREE_BOUND: [(0, 1)]})))
attempt("function.fp None", lambda: JointDegreeFunction({N.FP: None, N.MOTIF_SIZES: [2], N.LOW_HIGH_DEGREE_BOUND: [(0, 1)]}))
ff = FailAfter(lambda jd: 1.0 * sum(jd), 3)
holder.clear()


def make_failing_fn():
    class Probe(JointDegreeFunction):
        def __init__(self, param):
            holder["obj"] = self
            super().__init__(param)

    return Probe({N.FP: ff, N.MOTIF_SIZES: [2, 3], N.LOW_HIGH_DEGREE_BOUND: [(0, 2), (0, 2)]})


attempt("function.fp fails midway", make_failing_fn)
print("   partial jdd:", digest(holder["obj"].jdd))
print("function inputs after:", digest(fp_params[N.LOW_HIGH_DEGREE_BOUND]), digest(fp_params[N.MOTIF_SIZES]))

print("== section 7: factory and dispatching entry point")
seed(7)


def all_params(kind):
    return {
        N.JOINT_DEGREE_TYPE: kind,
        N.JDD: {(1, 0): 0.25, (0, 1): 0.25, (2, 2): 0.5},
        N.JDS: [(1, 0), (0, 1), (1, 0), (2, 2)],
        N.ARR_FP: [poisson(1.5), geometric(0.3)],
        N.FP: lambda jd: math.exp(-sum(jd)),
        N.MOTIF_SIZES: [2, 3],
        N.LOW_HIGH_DEGREE_BOUND: [(0, 3), (1, 4)],
    }


for t in JointDegreeType:
    r = attempt(
        f"factory {t.name}",
        lambda: (lambda o: (type(o).__name__, o._type.name, state(o)))(JointDegreeFactory.resolve_joint_degree(t, all_params(t.value))),
    )
    r = attempt(
        f"factory kw {t.name}",
        lambda: (lambda o: (type(o).__name__, state(o)))(JointDegreeFactory.resolve_joint_degree(type=t, params=all_params(t.value))),
    )
for bad in ("manual", None, 0, JointDegreeType, N.JDD, ["manual"], {"a": 1}):
    attempt(f"factory bad {bad!r}", lambda: JointDegreeFactory.resolve_joint_degree(bad, all_params("manual")))


class AlwaysEqual:
    def __init__(self):
        self.seen = []

    def __eq__(self, other):
        self.seen.append(other)
        return other is JointDegreeType.JOINT_FUNCTION

    __hash__ = None


ae = AlwaysEqual()
attempt("factory eq-probe", lambda: type(JointDegreeFactory.resolve_joint_degree(ae, all_params("x"))).__name__)
print("   comparisons:", [s.name for s in ae.seen])

for kind in ("manual", "empirical", "function", "marginal", "split_degree", "delta", "cover", "undefined", "nope", None, JointDegreeType.MANUAL, JointDegreeType.MARGINAL):
    attempt(
        f"load {kind!r}",
        lambda: (lambda o: (type(o).__name__, state(o), o.sample_jds_from_jdd(6)))(JointDegreeDistribution.load_joint_degree(all_params(kind))),
    )
attempt("load missing type", lambda: JointDegreeDistribution.load_joint_degree({N.JDD: {}}))
attempt("load None", lambda: JointDegreeDistribution.load_joint_degree(None))
attempt("load kw", lambda: state(JointDegreeDistribution.load_joint_degree(params=all_params("manual"))))

# dispatch vs direct construction, sampling mode (random draws: ctor + explicit create_jdd)
sp2 = dict(all_params("marginal"))
sp2[N.USE_SAMPLING] = True
sp2[N.N_SAMPLES] = 300
seed(70)
via = attempt("load marginal sampling", lambda: state(JointDegreeDistribution.load_joint_degree(sp2)))
seed(70)
direct = attempt("direct marginal sampling", lambda: state(JointDegreeMarginal(sp2)))
seed(70)


def twice():
    o = JointDegreeMarginal(sp2)
    o.create_jdd()
    return state(o)


attempt("direct marginal sampling + create", twice)

# dispatch == direct for the deterministic loaders
for kind, cls in (("manual", JointDegreeManual), ("empirical", JointDegreeEmpirical), ("function", JointDegreeFunction), ("marginal", JointDegreeMarginal)):
    a = JointDegreeDistribution.load_joint_degree(all_params(kind))
    b = cls(all_params(kind))
    print(f"dispatch==direct {kind}:", show(a.jdd) == show(b.jdd), list(a.jdd) == list(b.jdd), a.motif_sizes == b.motif_sizes)

print("== section 7b: remaining factory arms (use the shared base-class methods)")
seed(71)


def other_params(kind):
    return {
        N.JOINT_DEGREE_TYPE: kind,
        N.FP: poisson(2.0),
        N.PROBS: [0.6, 0.4],
        N.TARGET_K: 1,
        N.MOTIF_SIZES: [2, 3],
        N.LOW_HIGH_DEGREE_BOUND: (0, 5),
        N.COVER: [(0, 1), (1, 2), (0, 2, 3), (3, 4, 5), (4, 5)],
    }


for t in (JointDegreeType.SPLIT_DEGREE, JointDegreeType.DELTA, JointDegreeType.COVER):
    attempt(
        f"factory {t.name} full",
        lambda: (lambda o: (type(o).__name__, state(o), o.sample_jds_from_jdd(7)))(JointDegreeFactory.resolve_joint_degree(t, other_params(t.value))),
    )
    attempt(
        f"load {t.name} full",
        lambda: (lambda o: (type(o).__name__, state(o), o.sample_jds_from_jdd(7)))(JointDegreeDistribution.load_joint_degree(other_params(t.value))),
    )

print("== section 8: public surface")
import gcmpy
import gcmpy.joint_degree as jdpkg
import gcmpy.joint_degree.joint_degree_loaders as ldpkg

for mod in (jdpkg, ldpkg):
    print(mod.__name__, sorted(n for n in dir(mod) if n.startswith("JointDegree")))
for cls in (JointDegree, JointDegreeManual, JointDegreeEmpirical, JointDegreeMarginal, JointDegreeFunction, JointDegreeFactory, JointDegreeDistribution):
    print(cls.__name__, cls.__module__, sorted(n for n in vars(cls) if not n.startswith("_")), [b.__name__ for b in cls.__mro__])
print("top-level:", gcmpy.JointDegreeDistribution is JointDegreeDistribution if hasattr(gcmpy, "JointDegreeDistribution") else "n/a")
print("final rng:", rng_digest())
